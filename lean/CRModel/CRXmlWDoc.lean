/-
  CRModel.CRXmlWDoc — complete element-tree encoders of commonroad/common/writer/file_writer_xml.py: from the data the
  writer reads off the scenario objects (numbers as repr + exact value, integers, enum values as written, optional parts,
  lists in iteration order) to the whole `<commonRoad>` tree, leaf texts formatted by the modelled number formatters.

  The harness extracts the same data from the Python objects (harness/c03.py: `doc_data`), asks the driver for the model
  tree (op `tree`) and compares it with the tree the real writer produced — so every encoder below is tied to the code.
-/
import CRModel.CRXmlW
import CRModel.XmlNum
import Gen.PyEnums

namespace CR.XmlW
open CR.Xsd CR.XmlNum

/-- a finite float (or int) as the writer sees it: `str(value)` and the exact value `(-1)^neg * num / den` -/
structure Num where
  repr : Str
  neg : Bool
  num : Nat
  den : Nat
  deriving Repr, Inhabited

/-- through float_to_str with precision `p` (coordinates, state values, intervals) -/
def Num.coord (p : Nat) (x : Num) : Str := floatToStr x.repr x.neg x.num x.den p
/-- through decimal_to_str (lengths, radii, shape orientation, gps, geo transformation, time step size) -/
def Num.dec (x : Num) : Str := decimalToStr x.repr
/-- `value != 0.0` is false -/
def Num.isZero (x : Num) : Bool := x.num == 0

/-- `str(i)` of a Python int -/
def intStr (i : Int) : Str := if i < 0 then '-' :: natStr (-i).toNat else natStr i.toNat

/-- `str(b).lower()` -/
def boolStr (b : Bool) : Str := if b then "true".toList else "false".toList

def el (n : String) (kids : List Xml) : Xml := .node n [] [] kids

/-! ### enum members -> written text

The data (`DocD`) carries enum MEMBER NAMES; what the writer emits for a member is computed here from the (name, value) tables
regenerated from the Python enums on every run (Gen/PyEnums.lean): `.value` almost everywhere, `.name.lower()` for the line
marking of a stop line, nothing for `LineMarking.UNKNOWN` on a bound and for `TrafficLightDirection.ALL`. -/

/-- `Enum[name].value` (`""` if `name` is not a member) -/
def enumValue (tbl : List (String × String)) (name : String) : String := (tbl.lookup name).getD ""

/-- `str(LineMarking[name].name.lower())` (LineMarkingXMLNode._line_marking_enum_to_string) -/
def lineMarkingLower (name : String) : String :=
  (((CR.Py.Gen.lineMarking.map (·.1)).zip CR.Py.Gen.lineMarkingLowerName).lookup name).getD ""

/-- the table row of `TrafficSignID<Country>[name]` -/
def signEntry (cls name : String) : Option (String × String × String) :=
  CR.Py.Gen.trafficSignId.find? (fun x => x.1 == cls && x.2.1 == name)

/-- `str(element.traffic_sign_element_id.value)` -/
def signValue (cls name : String) : String := match signEntry cls name with | some x => x.2.2 | none => ""

/-- line marking of a bound: written unless it is `LineMarking.UNKNOWN` -/
def boundMarking (name : String) : Option String :=
  if name == "UNKNOWN" then none else some (enumValue CR.Py.Gen.lineMarking name)

/-- direction of a traffic light: written unless it is `TrafficLightDirection.ALL` -/
def lightDirection (name : String) : Option String :=
  if name == "ALL" then none else some (enumValue CR.Py.Gen.trafficLightDirection name)
def idAttr (i : Int) : List (String × String) := [("id", String.ofList (intStr i))]
/-- `<n ref="i"/>` -/
def refNode (n : String) (i : Int) : Xml := .node n [("ref", String.ofList (intStr i))] [] []

/-! ### points, shapes -/

structure Pt where
  x : Num
  y : Num
  z : Option Num := none
  deriving Repr, Inhabited

/-- Point.create_node, all coordinates through float_to_str -/
def ptNode (p : Nat) (tag : String) (q : Pt) : Xml :=
  pointNode tag (q.x.coord p) (q.y.coord p) (q.z.map (Num.coord p))

inductive Shape1 where
  | rect (l w o cx cy : Num)
  | circ (r cx cy : Num)
  | poly (vs : List (Num × Num))
  deriving Repr, Inhabited

def Shape1.tag : Shape1 → String
  | .rect .. => "rectangle" | .circ .. => "circle" | .poly .. => "polygon"

/-- ShapeXMLNode._create_single_element; `dyn` = dynamic_obstacle_shape -/
def shape1Node (p : Nat) (dyn : Bool) : Shape1 → Xml
  | .rect l w o cx cy =>
    rectangleNode l.dec w.dec (if !dyn || !o.isZero then some o.dec else none)
      (if !dyn || !(cx.isZero && cy.isZero) then some (cx.coord p, cy.coord p) else none)
  | .circ r cx cy =>
    circleNode r.dec (if !dyn || !(cx.isZero && cy.isZero) then some (cx.coord p, cy.coord p) else none)
  | .poly vs => el "polygon" (vs.map fun v => ptNode p "point" { x := v.1, y := v.2 })

/-- ShapeXMLNode.create_node: the members of a ShapeGroup, or the single shape -/
def shapeNodes (p : Nat) (dyn : Bool) (s : List Shape1) : List Xml := s.map (shape1Node p dyn)

/-! ### values, times, positions, states -/

inductive Val where
  | exact (x : Num)
  | interval (a b : Num)
  deriving Repr, Inhabited

/-- create_exact_node_float / create_interval_node_float -/
def valKids (p : Nat) : Val → List Xml
  | .exact x => [leaf "exact" (x.coord p)]
  | .interval a b => [leaf "intervalStart" (a.coord p), leaf "intervalEnd" (b.coord p)]

inductive TimeV where
  | exact (t : Int)
  | interval (a b : Int)
  deriving Repr, Inhabited

/-- create_exact_node_int / create_interval_node_int -/
def timeKids : TimeV → List Xml
  | .exact t => [leaf "exact" (intStr t)]
  | .interval a b => [leaf "intervalStart" (intStr a), leaf "intervalEnd" (intStr b)]

inductive Pos where
  | point (q : Pt)
  | shapes (s : List Shape1)
  | lanelets (ids : List Int)        -- goal positions given by lanelet ids
  deriving Repr, Inhabited

def posNode (p : Nat) : Pos → Xml
  | .point q => el "position" [ptNode p "point" q]
  | .shapes s => el "position" (shapeNodes p false s)
  | .lanelets ids => el "position" (ids.map (refNode "lanelet"))

/-- one used attribute of a state, in `used_attributes` order -/
inductive Attr where
  | position (q : Pos)
  | time (t : TimeV)
  | value (attr : String) (v : Val)      -- `attr` is the Python attribute name
  deriving Repr, Inhabited

/-- element name of the attribute's node -/
def Attr.name : Attr → String
  | .position _ => "position"
  | .time _ => "time"
  | .value a _ => xmlProp a

/-- Python attribute name of a used attribute -/
def Attr.pyName : Attr → String
  | .position _ => "position"
  | .time _ => "time_step"
  | .value a _ => a

def attrNode (p : Nat) : Attr → Xml
  | .position q => posNode p q
  | .time t => el "time" (timeKids t)
  | .value a v => el (xmlProp a) (valKids p v)

/-- StateXMLNode.create_state_node / create_goal_state_node -/
def stateNode (p : Nat) (tag : String) (st : List Attr) : Xml := el tag (st.map (attrNode p))

structure Signal where
  t : Int
  horn : Option Bool := none
  il : Option Bool := none
  ir : Option Bool := none
  bl : Option Bool := none
  hz : Option Bool := none
  fb : Option Bool := none
  deriving Repr, Inhabited

def optB (n : String) : Option Bool → List Xml
  | some b => [leaf n (boolStr b)]
  | none => []

/-- SignalStateXMLNode.create_signal_state_node -/
def signalNode (tag : String) (s : Signal) : Xml :=
  el tag ([el "time" [leaf "exact" (intStr s.t)]] ++ optB "horn" s.horn ++ optB "indicatorLeft" s.il ++
    optB "indicatorRight" s.ir ++ optB "brakingLights" s.bl ++ optB "hazardWarningLights" s.hz ++
    optB "flashingBlueLights" s.fb)

/-! ### predictions, obstacles -/

structure Occ where
  shape : List Shape1
  t : TimeV
  deriving Repr, Inhabited

/-- OccupancyXMLNode.create_node -/
def occNode (p : Nat) (o : Occ) : Xml := el "occupancy" [el "shape" (shapeNodes p false o.shape), el "time" (timeKids o.t)]
def occSetNode (p : Nat) (os : List Occ) : Xml := el "occupancySet" (os.map (occNode p))
def trajNode (p : Nat) (sts : List (List Attr)) : Xml := el "trajectory" (sts.map (stateNode p "state"))

inductive Prediction where
  | none
  | traj (sts : List (List Attr))
  | occ (os : List Occ)
  deriving Repr, Inhabited

structure StaticObs where
  id : Int
  type : String
  shape : List Shape1
  init : List Attr
  deriving Repr, Inhabited

/-- StaticObstacleXMLNode.create_node -/
def staticNode (p : Nat) (o : StaticObs) : Xml :=
  .node "staticObstacle" (idAttr o.id) [] [leaf "type" (enumValue CR.Py.Gen.obstacleType o.type).toList, el "shape" (shapeNodes p false o.shape),
    stateNode p "initialState" o.init]

structure DynObs where
  id : Int
  type : String
  shape : List Shape1
  init : List Attr
  sig0 : Option Signal
  pred : Prediction
  series : List Signal
  deriving Repr, Inhabited

def sig0Nodes : Option Signal → List Xml
  | some s => [signalNode "initialSignalState" s]
  | none => []

def predNodes (p : Nat) : Prediction → List Xml
  | .none => []
  | .traj sts => [trajNode p sts]
  | .occ os => [occSetNode p os]

/-- the signal series is written if it exists and is not empty -/
def seriesNodes (ss : List Signal) : List Xml :=
  if ss.isEmpty then [] else [el "signalSeries" (ss.map (signalNode "signalState"))]

/-- DynamicObstacleXMLNode.create_node -/
def dynNode (p : Nat) (o : DynObs) : Xml :=
  .node "dynamicObstacle" (idAttr o.id) [] ([leaf "type" (enumValue CR.Py.Gen.obstacleType o.type).toList, el "shape" (shapeNodes p true o.shape),
    stateNode p "initialState" o.init] ++ sig0Nodes o.sig0 ++ predNodes p o.pred ++ seriesNodes o.series)

structure PhantomObs where
  id : Int
  occ : Option (List Occ)
  deriving Repr, Inhabited

def optOccSetNodes (p : Nat) : Option (List Occ) → List Xml
  | some os => [occSetNode p os]
  | none => []

def phantomNode (p : Nat) (o : PhantomObs) : Xml := .node "phantomObstacle" (idAttr o.id) [] (optOccSetNodes p o.occ)

structure EnvObs where
  id : Int
  type : String
  shape : List Shape1
  deriving Repr, Inhabited

def envObsNode (p : Nat) (o : EnvObs) : Xml :=
  .node "environmentObstacle" (idAttr o.id) [] [leaf "type" (enumValue CR.Py.Gen.obstacleType o.type).toList, el "shape" (shapeNodes p false o.shape)]

/-! ### lanelets -/

structure StopLineD where
  pts : Option (Pt × Pt)
  marking : Option String          -- LineMarking member name (an enum member is truthy, so always present)
  signs : List Int
  lights : List Int
  deriving Repr, Inhabited

def optLeaf (n : String) : Option String → List Xml
  | some v => [leaf n v.toList]
  | none => []

def stopPtNodes (p : Nat) : Option (Pt × Pt) → List Xml
  | some (a, b) => [ptNode p "point" a, ptNode p "point" b]
  | none => []

/-- LaneletStopLineXMLNode.create_node -/
def stopLineNode (p : Nat) (s : StopLineD) : Xml :=
  el "stopLine" (stopPtNodes p s.pts ++
    optLeaf "lineMarking" (s.marking.map lineMarkingLower) ++ s.signs.map (refNode "trafficSignRef") ++ s.lights.map (refNode "trafficLightRef"))

structure LaneletD where
  id : Int
  left : List Pt
  right : List Pt
  lmLeft : String                  -- LineMarking member name
  lmRight : String
  pred : List Int
  succ : List Int
  adjL : Option (Int × Bool)       -- id, same direction
  adjR : Option (Int × Bool)
  stop : Option StopLineD
  types : List String              -- LaneletType member names in iteration order ([] is written as LaneletType.UNKNOWN)
  oneWay : List String
  bidir : List String
  signs : List Int
  lights : List Int
  deriving Repr, Inhabited

def boundNode (p : Nat) (tag : String) (pts : List Pt) (lm : String) : Xml :=
  el tag (pts.map (ptNode p "point") ++ optLeaf "lineMarking" (boundMarking lm))

def adjNode (tag : String) : Option (Int × Bool) → List Xml
  | some (i, same) => [.node tag [("ref", String.ofList (intStr i)), ("drivingDir", if same then "same" else "opposite")] [] []]
  | none => []

def optStopNodes (p : Nat) : Option StopLineD → List Xml
  | some s => [stopLineNode p s]
  | none => []

/-- the written lanelet types: an empty set is written as `LaneletType.UNKNOWN` -/
def typesWritten (types : List String) : List String :=
  (if types.isEmpty then ["UNKNOWN"] else types).map (enumValue CR.Py.Gen.laneletType)

/-- LaneletXMLNode.create_node -/
def laneletNode (p : Nat) (l : LaneletD) : Xml :=
  .node "lanelet" (idAttr l.id) [] ([boundNode p "leftBound" l.left l.lmLeft, boundNode p "rightBound" l.right l.lmRight] ++
    l.pred.map (refNode "predecessor") ++ l.succ.map (refNode "successor") ++
    adjNode "adjacentLeft" l.adjL ++ adjNode "adjacentRight" l.adjR ++
    optStopNodes p l.stop ++ (typesWritten l.types).map (fun v => leaf "laneletType" v.toList) ++
    (l.oneWay.map (enumValue CR.Py.Gen.roadUser)).map (fun v => leaf "userOneWay" v.toList) ++
    (l.bidir.map (enumValue CR.Py.Gen.roadUser)).map (fun v => leaf "userBidirectional" v.toList) ++
    l.signs.map (refNode "trafficSignRef") ++ l.lights.map (refNode "trafficLightRef"))

/-! ### traffic signs, traffic lights, intersections -/

structure SignD where
  id : Int
  elements : List (String × String × List String)     -- TrafficSignID<Country> class, member name, additional values
  pos : Option Pt
  virtual : Option Bool
  deriving Repr, Inhabited

/-- `<position><point>` of a traffic sign / light that has a position -/
def optPosNodes (p : Nat) : Option Pt → List Xml
  | some q => [el "position" [ptNode p "point" q]]
  | none => []

def signElementNode (e : String × String × List String) : Xml :=
  el "trafficSignElement" (leaf "trafficSignID" (signValue e.1 e.2.1).toList :: e.2.2.map (fun v => leaf "additionalValue" v.toList))

/-- TrafficSignXMLNode.create_node -/
def signNode (p : Nat) (s : SignD) : Xml :=
  .node "trafficSign" (idAttr s.id) [] (s.elements.map signElementNode ++ optPosNodes p s.pos ++ optB "virtual" s.virtual)

structure LightD where
  id : Int
  cycle : Option (List (Int × String) × Option Int)   -- (duration, TrafficLightState member name)*, time offset
  pos : Option Pt
  direction : String                                  -- TrafficLightDirection member name
  active : Option Bool
  deriving Repr, Inhabited

def offsetNodes : Option Int → List Xml
  | some o => if 0 < o then [leaf "timeOffset" (intStr o)] else []
  | none => []

def cycleElementNode (e : Int × String) : Xml :=
  el "cycleElement" [leaf "duration" (intStr e.1), leaf "color" (enumValue CR.Py.Gen.trafficLightState e.2).toList]

/-- TrafficLightCycleXMLNode.create_node -/
def cycleNode (es : List (Int × String)) (off : Option Int) : Xml := el "cycle" (es.map cycleElementNode ++ offsetNodes off)

def optCycleNodes : Option (List (Int × String) × Option Int) → List Xml
  | some (es, off) => [cycleNode es off]
  | none => []

/-- TrafficLightXMLNode.create_node -/
def lightNode (p : Nat) (l : LightD) : Xml :=
  .node "trafficLight" (idAttr l.id) [] (optCycleNodes l.cycle ++ optPosNodes p l.pos ++
    optLeaf "direction" (lightDirection l.direction) ++ optB "active" l.active)

structure IncomingD where
  id : Int
  lanelets : List Int
  right : List Int
  straight : List Int
  left : List Int
  leftOf : Option Int            -- none also when `incoming.left_of` is falsy
  deriving Repr, Inhabited

structure IntersectionD where
  id : Int
  incomings : List IncomingD
  crossings : List Int
  deriving Repr, Inhabited

def optRefNodes (n : String) : Option Int → List Xml
  | some j => [refNode n j]
  | none => []

def incomingNode (i : IncomingD) : Xml :=
  .node "incoming" (idAttr i.id) [] (i.lanelets.map (refNode "incomingLanelet") ++ i.right.map (refNode "successorsRight") ++
    i.straight.map (refNode "successorsStraight") ++ i.left.map (refNode "successorsLeft") ++ optRefNodes "isLeftOf" i.leftOf)

def crossingNodes (cs : List Int) : List Xml :=
  if cs.isEmpty then [] else [el "crossing" (cs.map (refNode "crossingLanelet"))]

/-- IntersectionXMLNode.create_node -/
def intersectionNode (x : IntersectionD) : Xml :=
  .node "intersection" (idAttr x.id) [] (x.incomings.map incomingNode ++ crossingNodes x.crossings)

/-! ### planning problems, location, tags, document -/

structure ProblemD where
  id : Int
  init : List Attr
  goals : List (List Attr)
  deriving Repr, Inhabited

/-- PlanningProblemXMLNode.create_node -/
def problemNode (p : Nat) (q : ProblemD) : Xml :=
  .node "planningProblem" (idAttr q.id) [] (stateNode p "initialState" q.init :: q.goals.map (stateNode p "goalState"))

structure GeoD where
  ref : String
  x : Num
  y : Num
  rot : Num
  scale : Num
  deriving Repr, Inhabited

structure EnvD where
  hours : Nat
  minutes : Nat
  timeOfDay : String
  weather : String
  underground : String
  deriving Repr, Inhabited

structure LocationD where
  geoNameId : Int
  lat : Num
  lon : Num
  geo : Option GeoD
  env : Option EnvD
  deriving Repr, Inhabited

def pad2 (n : Nat) : Str := if n < 10 then '0' :: natStr n else natStr n

/-- `f"{hours:02d}:{minutes:02d}:00"` -/
def timeText (h m : Nat) : Str := pad2 h ++ ':' :: pad2 m ++ ":00".toList

/-- LocationXMLNode / GeoTransformationXMLNode / EnvironmentXMLNode (the three guards of the latter are always true) -/
def geoNode (g : GeoD) : Xml :=
  el "geoTransformation" [leaf "geoReference" g.ref.toList,
    el "additionalTransformation" [leaf "xTranslation" g.x.dec, leaf "yTranslation" g.y.dec, leaf "zRotation" g.rot.dec,
      leaf "scaling" g.scale.dec]]

def envNode (e : EnvD) : Xml :=
  el "environment" [leaf "time" (timeText e.hours e.minutes), leaf "timeOfDay" (enumValue CR.Py.Gen.timeOfDay e.timeOfDay).toList,
    leaf "weather" (enumValue CR.Py.Gen.weather e.weather).toList,
    leaf "underground" (enumValue CR.Py.Gen.underground e.underground).toList]

def optGeoNodes : Option GeoD → List Xml | some g => [geoNode g] | none => []
def optEnvNodes : Option EnvD → List Xml | some e => [envNode e] | none => []

def locationNode (l : LocationD) : Xml :=
  el "location" ([leaf "geoNameId" (intStr l.geoNameId), leaf "gpsLatitude" l.lat.dec, leaf "gpsLongitude" l.lon.dec] ++
    optGeoNodes l.geo ++ optEnvNodes l.env)

/-- TagXMLNode.create_node -/
def tagsNode (tags : List String) : Xml := el "scenarioTags" ((tags.map (enumValue CR.Py.Gen.tag)).map fun t => leaf t [])

structure DocD where
  precision : Nat
  dt : Num
  author : String
  affiliation : String
  source : String
  benchmark : String
  date : String
  location : LocationD
  tags : List String
  lanelets : List LaneletD
  signs : List SignD
  lights : List LightD
  intersections : List IntersectionD
  statics : List StaticObs
  dynamics : List DynObs
  phantoms : List PhantomObs
  envs : List EnvObs
  problems : List ProblemD
  deriving Repr, Inhabited

def headerAttrs (d : DocD) : List (String × String) :=
  [("timeStepSize", String.ofList d.dt.dec), ("commonRoadVersion", CR.Py.Gen.scenarioVersion), ("author", d.author),
   ("affiliation", d.affiliation), ("source", d.source), ("benchmarkID", d.benchmark), ("date", d.date)]

def docFamilies (d : DocD) : List (List Xml) :=
  [[locationNode d.location], [tagsNode d.tags], d.lanelets.map (laneletNode d.precision),
   d.signs.map (signNode d.precision), d.lights.map (lightNode d.precision), d.intersections.map intersectionNode,
   d.statics.map (staticNode d.precision), d.dynamics.map (dynNode d.precision), d.phantoms.map (phantomNode d.precision),
   d.envs.map (envObsNode d.precision), d.problems.map (problemNode d.precision)]

/-- XMLFileWriter.write_to_file: header, location, tags, lanelet network, obstacles, planning problems -/
def docNode (d : DocD) : Xml := .node "commonRoad" (headerAttrs d) [] (docFamilies d).flatten

end CR.XmlW
