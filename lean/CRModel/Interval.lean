/-
  CRModel.Interval — model of `commonroad/common/util.py`:
    make_valid_orientation (:28-33), make_valid_orientation_interval (:36-43),
    Interval (:60-173), AngleInterval (:176-236).
  Reals are `Rat` (every IEEE double is a rational); `τ` is the rational value of `TWO_PI`,
  `ε` the rational value of the end-point tolerance used by `AngleInterval.__contains__`.
  Float rounding inside `+ - * /`, `math.fmod` is modelled as exact (DESIGN §3.2).
-/
import CRModel.Basic
namespace CR.Iv

/-- A constructed `Interval`: `start ≤ end` is established by the setters' assertions. -/
structure I where
  lo : Rat
  hi : Rat
  deriving DecidableEq, Repr

/-- `Interval.__init__` (`self.start = start; self.end = end`): the `end` setter asserts `end >= start`. -/
def mk (a b : Rat) : Res I := if a ≤ b then .ok ⟨a, b⟩ else .error .assert

/-- `start` setter on a constructed interval: `assert start <= self._end`. -/
def setStart (i : I) (a : Rat) : Res I := if a ≤ i.hi then .ok ⟨a, i.hi⟩ else .error .assert

/-- `end` setter on a constructed interval: `assert end >= self._start`. -/
def setEnd (i : I) (b : Rat) : Res I := if i.lo ≤ b then .ok ⟨i.lo, b⟩ else .error .assert

/-- `contains(number)`: `self.start <= other <= self.end`. -/
def contains (i : I) (x : Rat) : Bool := i.lo ≤ x && x ≤ i.hi

/-- `contains(Interval)`: `self.start <= other.start and other.end <= self.end`. -/
def containsI (i j : I) : Bool := i.lo ≤ j.lo && j.hi ≤ i.hi

/-- `overlaps`: `self.end >= interval.start and interval.end >= self.start`. -/
def overlaps (i j : I) : Bool := j.lo ≤ i.hi && i.lo ≤ j.hi

/-- `intersection`: `None` if not overlapping, else `Interval(max(starts), min(ends))`. -/
def intersection (i j : I) : Res (Option I) :=
  if overlaps i j then (mk (max i.lo j.lo) (min i.hi j.hi)).map some else .ok none

def add (i : I) (k : Rat) : Res I := mk (i.lo + k) (i.hi + k)
def sub (i : I) (k : Rat) : Res I := mk (i.lo - k) (i.hi - k)

/-- `__mul__`: `if other > 0.0: (start*o, end*o) else (end*o, start*o)`. -/
def mul (i : I) (k : Rat) : Res I :=
  if 0 < k then mk (i.lo * k) (i.hi * k) else mk (i.hi * k) (i.lo * k)

/-- `__truediv__`: same shape with `/`; division by zero raises `ZeroDivisionError`. -/
def div (i : I) (k : Rat) : Res I :=
  if k = 0 then .error .zeroDiv else
  if 0 < k then mk (i.lo / k) (i.hi / k) else mk (i.hi / k) (i.lo / k)

/-- `__round__` with the rounding function as a parameter (Python's `round(x, n)`). -/
def round (rnd : Rat → Rat) (i : I) : Res I := mk (rnd i.lo) (rnd i.hi)

def length (i : I) : Rat := i.hi - i.lo

/-- `__gt__` / `__lt__` against a number and against an interval. -/
def gtNum (i : I) (x : Rat) : Bool := x < i.lo
def ltNum (i : I) (x : Rat) : Bool := i.hi < x
def gtI (i j : I) : Bool := j.hi < i.lo
def ltI (i j : I) : Bool := i.hi < j.lo

/-! ### Angles -/

/-- `while angle > τ: angle -= τ` with fuel. -/
def downLoop : Nat → Rat → Rat → Rat
  | 0, _, x => x
  | n + 1, τ, x => if x > τ then downLoop n τ (x - τ) else x

def upLoop : Nat → Rat → Rat → Rat
  | 0, _, x => x
  | n + 1, τ, x => if x < -τ then upLoop n τ (x + τ) else x

/-- Enough fuel for `downLoop`/`upLoop` on `x` (`⌈|x|/τ⌉ + 1`). -/
def fuelFor (τ x : Rat) : Nat := ((if x < 0 then -x else x) / τ).ceil.toNat + 1

/-- `make_valid_orientation`. -/
def makeValid (τ x : Rat) : Rat :=
  upLoop (fuelFor τ x) τ (downLoop (fuelFor τ x) τ x)

/-- `while s > τ or e > τ: s -= τ; e -= τ`. -/
def downLoop2 : Nat → Rat → Rat → Rat → Rat × Rat
  | 0, _, s, e => (s, e)
  | n + 1, τ, s, e => if s > τ ∨ e > τ then downLoop2 n τ (s - τ) (e - τ) else (s, e)

/-- `while s < -τ or s < -τ: s += τ; e += τ` (the code tests `angle_start` twice). -/
def upLoop2 : Nat → Rat → Rat → Rat → Rat × Rat
  | 0, _, s, e => (s, e)
  | n + 1, τ, s, e => if s < -τ ∨ s < -τ then upLoop2 n τ (s + τ) (e + τ) else (s, e)

/-- `make_valid_orientation_interval`. -/
def makeValidInterval (τ s e : Rat) : Rat × Rat :=
  let f := (fuelFor τ s + fuelFor τ e) + (fuelFor τ s + fuelFor τ e)
  let p := downLoop2 f τ s e
  upLoop2 f τ p.1 p.2

/-- `is_valid_orientation`: within `[-τ, τ]`. -/
def validOrientation (τ x : Rat) : Bool := -τ ≤ x && x ≤ τ

/-- `AngleInterval.__init__`: normalise, `assert end - start < TWO_PI`, then the two setters
    (each asserts `is_valid_orientation`, the `end` setter also `end >= start`). -/
def mkAngle (τ s e : Rat) : Res I :=
  let p := makeValidInterval τ s e
  if ¬ (p.2 - p.1 < τ) then .error .assert else
  if ¬ validOrientation τ p.1 then .error .assert else
  if ¬ validOrientation τ p.2 then .error .assert else
  if ¬ (p.1 ≤ p.2) then .error .assert else
  .ok ⟨p.1, p.2⟩

/-- `x mod τ` in `[0, τ)`: `math.fmod(x, τ)` moved into the non-negative range. -/
def wrap (τ x : Rat) : Rat := x - τ * ((x / τ).floor : Int)

/-- `AngleInterval.__contains__(value)` (after the fix): offset of `value` from `start` modulo `τ`
    must not exceed the length; `ε` guards the two end points against round-off. -/
def containsAngle (τ ε : Rat) (i : I) (θ : Rat) : Bool :=
  let d := wrap τ (θ - i.lo)
  d ≤ (i.hi - i.lo) + ε || τ - ε ≤ d

/-- `AngleInterval.contains(AngleInterval)` (after the fix): the other interval starts inside and
    fits into what is left. -/
def containsAngleI (τ ε : Rat) (i j : I) : Bool :=
  let d := wrap τ (j.lo - i.lo)
  let d' := if τ - ε ≤ d then 0 else d
  d' + (j.hi - j.lo) ≤ (i.hi - i.lo) + ε

/-- Shifting an angle interval: `type(self)(start + k, end + k)` re-normalises. -/
def addAngle (τ : Rat) (i : I) (k : Rat) : Res I := mkAngle τ (i.lo + k) (i.hi + k)
def subAngle (τ : Rat) (i : I) (k : Rat) : Res I := mkAngle τ (i.lo - k) (i.hi - k)

/-! ### Setters of `AngleInterval` on a constructed object, and histories (operation sequences) -/

/-- `AngleInterval.start` setter on a constructed angle interval (util.py `AngleInterval.start.setter`):
    `assert is_valid_orientation(start)`, then `assert start <= self._end`. The length is NOT re-checked. -/
def setStartAngle (τ : Rat) (i : I) (a : Rat) : Res I :=
  if ¬ validOrientation τ a then .error .assert else
  if a ≤ i.hi then .ok ⟨a, i.hi⟩ else .error .assert

/-- `AngleInterval.end` setter: `assert is_valid_orientation(end)`, then `assert end >= self._start`. -/
def setEndAngle (τ : Rat) (i : I) (b : Rat) : Res I :=
  if ¬ validOrientation τ b then .error .assert else
  if i.lo ≤ b then .ok ⟨i.lo, b⟩ else .error .assert

/-- One step of a history on a plain `Interval` object: the two property setters mutate the object, the
    arithmetic dunders / `round` / `intersection` produce a new object that the history continues with
    (`intersection` returning `None` keeps the current object). `round n`: Python's `round(·, n)`
    (`None` and `0` round alike) is the parameter `rnd n`. -/
inductive Op where
  | setStart (x : Rat) | setEnd (x : Rat)
  | add (k : Rat) | sub (k : Rat) | mul (k : Rat) | div (k : Rat)
  | round (n : Int) | inter (j : I)
  deriving Repr

def step (rnd : Int → Rat → Rat) (i : I) : Op → Res I
  | .setStart x => setStart i x
  | .setEnd x => setEnd i x
  | .add k => add i k
  | .sub k => sub i k
  | .mul k => mul i k
  | .div k => div i k
  | .round n => round (rnd n) i
  | .inter j => (intersection i j).map (fun o => o.getD i)

/-- State after a step: a raising step (failed assertion, division by zero) leaves the object as it was. -/
def after (i : I) (r : Res I) : I := match r with | .ok j => j | .error _ => i

/-- A history: the result of every step, each run on the state the previous steps left. -/
def runOps (rnd : Int → Rat → Rat) : I → List Op → List (Res I)
  | _, [] => []
  | i, op :: ops => step rnd i op :: runOps rnd (after i (step rnd i op)) ops

/-- The object at the end of a history. -/
def finalOps (rnd : Int → Rat → Rat) : I → List Op → I
  | i, [] => i
  | i, op :: ops => finalOps rnd (after i (step rnd i op)) ops

/-- One step of a history on an `AngleInterval` object. -/
inductive OpA where
  | setStart (x : Rat) | setEnd (x : Rat) | add (k : Rat) | sub (k : Rat)
  deriving Repr

def stepA (τ : Rat) (i : I) : OpA → Res I
  | .setStart x => setStartAngle τ i x
  | .setEnd x => setEndAngle τ i x
  | .add k => addAngle τ i k
  | .sub k => subAngle τ i k

def runOpsA (τ : Rat) : I → List OpA → List (Res I)
  | _, [] => []
  | i, op :: ops => stepA τ i op :: runOpsA τ (after i (stepA τ i op)) ops

def finalOpsA (τ : Rat) : I → List OpA → I
  | i, [] => i
  | i, op :: ops => finalOpsA τ (after i (stepA τ i op)) ops

end CR.Iv
