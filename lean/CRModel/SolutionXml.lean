/-
  CRModel.SolutionXml — executable model of commonroad/common/solution.py:
    * the index-aligned tables `StateFields` / `XMLStateFields` (:96-197), `StateType` / `TrajectoryType`
      values (:200-293) and the attribute lists of the state classes the reader instantiates
      (commonroad/scenario/state.py),
    * `StateType.get_state_type` (:228-265), `TrajectoryType.valid_vehicle_model` (:314-327),
      `SupportedCostFunctions` (:330-339), `PlanningProblemSolution.__init__` (:343-369),
      `Trajectory.__init__`/`check_state_list` (scenario/trajectory.py:28-72), `Solution` (:473-610),
    * `CommonRoadSolutionWriter` (:832-885): the element tree (tag, attributes, children, text),
    * `CommonRoadSolutionReader` (:667-788): header, benchmark id, vehicle id, trajectory (sort by time step),
      state (state-type table), including the guards and error branches,
    * a validator for the content model of CommonRoadSolution_schema.xsd and the schema as a Lean term.

  Numbers are opaque exact tokens.  What Python prints for a number and what it reads back from that text
  is a parameter (`Codec`): `str(np.float64(v))`/`float(text)`, `str(int)`/`int(text)`,
  `strftime`/`strptime`.  The theorems assume `Codec.Lawful` (reading the printed text gives the value back);
  that contract is trusted for CPython/numpy and sampled by the oracle (`float.hex` equality).
  The reader core (`decodeSol`) works on the benchmark id at token level (vehicle ids, cost ids, scenario id,
  version); the string level is `benchString` (writer) and `decodeDoc`, which runs C13's character-level model of
  `_parse_benchmark_id` / `ScenarioID.from_benchmark_id` (CRModel/BenchId.lean) on the attribute text.

  Core Lean only (the driver links this file).
-/
import CRModel.Basic
import CRModel.BenchId
namespace CR.Sol

/-! ## enums (solution.py:59-94, 200-293) -/

/-- `VehicleModel` -/
inductive VModel where | PM | ST | KS | MB | KST
  deriving DecidableEq, Repr, Inhabited

/-- `VehicleType` (value 1..4) -/
inductive VType where | FORD_ESCORT | BMW_320i | VW_VANAGON | TRUCK
  deriving DecidableEq, Repr, Inhabited

/-- `CostFunction` -/
inductive Cost where | JB1 | SA1 | WX1 | SM1 | SM2 | SM3 | MW1 | TR1
  deriving DecidableEq, Repr, Inhabited

/-- Member names shared by `StateFields`, `XMLStateFields`, `StateType`, `TrajectoryType`. -/
inductive TType where | MB | ST | KS | KST | PM | Input | PMInput
  deriving DecidableEq, Repr, Inhabited

def VModel.all : List VModel := [.PM, .ST, .KS, .MB, .KST]
def VType.all : List VType := [.FORD_ESCORT, .BMW_320i, .VW_VANAGON, .TRUCK]
def Cost.all : List Cost := [.JB1, .SA1, .WX1, .SM1, .SM2, .SM3, .MW1, .TR1]
/-- iteration order of `for sf in StateFields` (definition order, :109-145) -/
def TType.all : List TType := [.PM, .ST, .KS, .KST, .MB, .Input, .PMInput]

def VModel.name : VModel → String
  | .PM => "PM" | .ST => "ST" | .KS => "KS" | .MB => "MB" | .KST => "KST"
def VType.value : VType → Nat
  | .FORD_ESCORT => 1 | .BMW_320i => 2 | .VW_VANAGON => 3 | .TRUCK => 4
def Cost.name : Cost → String
  | .JB1 => "JB1" | .SA1 => "SA1" | .WX1 => "WX1" | .SM1 => "SM1"
  | .SM2 => "SM2" | .SM3 => "SM3" | .MW1 => "MW1" | .TR1 => "TR1"
def TType.name : TType → String
  | .MB => "MB" | .ST => "ST" | .KS => "KS" | .KST => "KST" | .PM => "PM" | .Input => "Input" | .PMInput => "PMInput"

def VModel.ofName? (s : String) : Option VModel := VModel.all.find? (·.name == s)
def VType.ofValue? (n : Nat) : Option VType := VType.all.find? (·.value == n)
def Cost.ofName? (s : String) : Option Cost := Cost.all.find? (·.name == s)
def TType.ofName? (s : String) : Option TType := TType.all.find? (·.name == s)

/-- `StateFields[str(vehicle_model.name)]` -/
def VModel.toTType : VModel → TType
  | .PM => .PM | .ST => .ST | .KS => .KS | .MB => .MB | .KST => .KST

/-- `StateType.value` (:210-216) -/
def stateTag : TType → String
  | .MB => "mbState" | .ST => "stState" | .KS => "ksState" | .KST => "kstState"
  | .PM => "pmState" | .Input => "input" | .PMInput => "pmInput"

/-- `TrajectoryType.value` (:287-293) -/
def trajTag : TType → String
  | .MB => "mbTrajectory" | .ST => "stTrajectory" | .KS => "ksTrajectory" | .KST => "kstTrajectory"
  | .PM => "pmTrajectory" | .Input => "inputVector" | .PMInput => "pmInputVector"

/-- `TrajectoryType(tag)`; the reader first checks `tag in [ttype.value for ttype in TrajectoryType]` -/
def TType.ofTrajTag? (s : String) : Option TType := TType.all.find? (trajTag · == s)

/-! ## the field tables (:96-197) -/

/-- `StateFields.<T>.value` -/
def fields : TType → List String
  | .PM => ["position", "velocity", "velocity_y", "time_step"]
  | .ST => ["position", "steering_angle", "velocity", "orientation", "yaw_rate", "slip_angle", "time_step"]
  | .KS => ["position", "steering_angle", "velocity", "orientation", "time_step"]
  | .KST => ["position", "steering_angle", "velocity", "orientation", "hitch_angle", "time_step"]
  | .MB => ["position", "steering_angle", "velocity", "orientation", "yaw_rate", "roll_angle", "roll_rate",
            "pitch_angle", "pitch_rate", "velocity_y", "position_z", "velocity_z", "roll_angle_front",
            "roll_rate_front", "velocity_y_front", "position_z_front", "velocity_z_front", "roll_angle_rear",
            "roll_rate_rear", "velocity_y_rear", "position_z_rear", "velocity_z_rear",
            "left_front_wheel_angular_speed", "right_front_wheel_angular_speed",
            "left_rear_wheel_angular_speed", "right_rear_wheel_angular_speed", "delta_y_f", "delta_y_r",
            "time_step"]
  | .Input => ["steering_angle_speed", "acceleration", "time_step"]
  | .PMInput => ["acceleration", "acceleration_y", "time_step"]

/-- an entry of `XMLStateFields.<T>.value`: a name, or the tuple `("x", "y")` -/
inductive XName where
  | one (n : String)
  | pair (a b : String)
  deriving DecidableEq, Repr, Inhabited

/-- `XMLStateFields.<T>.value` -/
def xmlFields : TType → List XName
  | .PM => [.pair "x" "y", .one "xVelocity", .one "yVelocity", .one "time"]
  | .ST => [.pair "x" "y", .one "steeringAngle", .one "velocity", .one "orientation", .one "yawRate",
            .one "slipAngle", .one "time"]
  | .KS => [.pair "x" "y", .one "steeringAngle", .one "velocity", .one "orientation", .one "time"]
  | .KST => [.pair "x" "y", .one "steeringAngle", .one "velocity", .one "orientation", .one "hitch_angle",
             .one "time"]
  | .MB => [.pair "x" "y", .one "steeringAngle", .one "velocity", .one "orientation", .one "yawRate",
            .one "rollAngle", .one "rollRate", .one "pitchAngle", .one "pitchRate", .one "yVelocity",
            .one "zPosition", .one "zVelocity", .one "rollAngleFront", .one "rollRateFront",
            .one "yVelocityFront", .one "zPositionFront", .one "zVelocityFront", .one "rollAngleRear",
            .one "rollRateRear", .one "yVelocityRear", .one "zPositionRear", .one "zVelocityRear",
            .one "leftFrontWheelAngularSpeed", .one "rightFrontWheelAngularSpeed",
            .one "leftRearWheelAngularSpeed", .one "rightRearWheelAngularSpeed", .one "deltaYf", .one "deltaYr",
            .one "time"]
  | .Input => [.one "steeringAngleSpeed", .one "acceleration", .one "time"]
  | .PMInput => [.one "xAcceleration", .one "yAcceleration", .one "time"]

/-- `list(zip(state_type.xml_fields, state_type.fields))` (:752, :877) -/
def table (T : TType) : List (XName × String) := (xmlFields T).zip (fields T)

def XName.names : XName → List String
  | .one n => [n]
  | .pair a b => [a, b]

/-- XML element names a table writes, in order. -/
def tableNames (tb : List (XName × String)) : List String := tb.flatMap (·.1.names)

def leafNames (T : TType) : List String := tableNames (table T)

/-- Attributes (`__dict__` order) of the state class the reader instantiates for `T`
    (scenario/state.py: PMState, STState, KSState, KSTState, MBState, InputState, PMInputState). -/
def classAttrs : TType → List String
  | .PM => ["time_step", "position", "velocity", "velocity_y"]
  | .ST => ["time_step", "position", "steering_angle", "velocity", "orientation", "slip_angle", "yaw_rate"]
  | .KS => ["time_step", "position", "steering_angle", "velocity", "orientation"]
  | .KST => ["time_step", "position", "steering_angle", "velocity", "orientation", "hitch_angle"]
  | .MB => ["time_step", "position", "steering_angle", "velocity", "orientation", "yaw_rate", "roll_angle",
            "roll_rate", "pitch_angle", "pitch_rate", "velocity_y", "position_z", "velocity_z",
            "roll_angle_front", "roll_rate_front", "velocity_y_front", "position_z_front", "velocity_z_front",
            "roll_angle_rear", "roll_rate_rear", "velocity_y_rear", "position_z_rear", "velocity_z_rear",
            "left_front_wheel_angular_speed", "right_front_wheel_angular_speed",
            "left_rear_wheel_angular_speed", "right_rear_wheel_angular_speed", "delta_y_f", "delta_y_r"]
  | .Input => ["time_step", "steering_angle_speed", "acceleration"]
  | .PMInput => ["time_step", "acceleration", "acceleration_y"]

/-- keys of the reader's `state_types` dict (:742-749, after the KST repair) -/
def readerStateTypes : List TType := [.MB, .KS, .KST, .PM, .ST, .Input, .PMInput]

/-- the dict as shipped before the repair: no `StateType.KST` entry -/
def readerStateTypesUnrepaired : List TType := [.MB, .KS, .PM, .ST, .Input, .PMInput]

/-! ## number / date text as a parameter -/

/-- an exact opaque value token (the harness uses `float.hex()`) -/
abbrev Tok := String

structure Codec where
  /-- `str(np.float64(v))` for a float, `str(v)` for an int-valued state value / computation time -/
  fmtNum : Tok → String
  /-- `float(elem.text)`: ValueError for unparsable text, TypeError for an empty element (`text is None`) -/
  prsNum : String → Res Tok
  /-- `str(i)` for a Python int -/
  fmtInt : Int → String
  /-- `int(elem.text)`: ValueError / TypeError as for `prsNum` -/
  prsInt : String → Res Int
  /-- `date.strftime("%Y-%m-%dT%H:%M:%S")` of the date whose part down to the second is the token -/
  fmtDate : Tok → String
  /-- `strptime(text, "%Y-%m-%dT%H:%M:%S")`, on ValueError `strptime(text, "%Y-%m-%d")`; `none` = ValueError -/
  prsDate : String → Option Tok
  /-- `is_positive(v)` -/
  isPos : Tok → Bool

/-- Reading back what was printed gives the value (trusted for CPython/numpy; sampled by the oracle). -/
structure Codec.Lawful (c : Codec) : Prop where
  num : ∀ v, c.prsNum (c.fmtNum v) = .ok v
  int : ∀ i, c.prsInt (c.fmtInt i) = .ok i
  date : ∀ d, c.prsDate (c.fmtDate d) = some d

/-! ## values, states, trajectories, solutions -/

/-- value of a state attribute -/
inductive FVal where
  | num (v : Tok)           -- float / int scalar
  | vec (a b : Tok)         -- np.array of two numbers (position)
  | time (t : Int)          -- time_step (Python int)
  | none                    -- attribute left at its default `None`
  deriving DecidableEq, Repr, Inhabited

/-- a state object: its attribute dict in `state.attributes` order -/
abbrev State := List (String × FVal)

def attrsOf (st : State) : List String := st.map (·.1)

/-- `getattr(state, f)` -/
def getattr (st : State) (f : String) : Option FVal := st.lookup f

/-- `state.time_step` as the sort key of `sorted(state_list, key=lambda state: state.time_step)`.
    (States that reach the sort come out of a state-class constructor and always carry an int.) -/
def timeOf (st : State) : Int :=
  match getattr st "time_step" with
  | some (.time t) => t
  | _ => 0

/-- `used_attributes`: attributes that are not `None` -/
def usedAttrs (st : State) : List String := (st.filter (fun p => p.2 != FVal.none)).map (·.1)

structure Traj where
  init : Int
  states : List State
  deriving DecidableEq, Repr, Inhabited

/-- second-resolution part (token) and microseconds of a `datetime` -/
structure Date where
  sec : Tok
  micro : Nat
  deriving DecidableEq, Repr, Inhabited

structure PPS where
  ppId : Int
  model : VModel
  vtype : VType
  cost : Cost
  ttype : TType
  traj : Traj
  deriving DecidableEq, Repr, Inhabited

structure Solution where
  scen : String          -- str(scenario_id)
  ver : String           -- scenario_id.scenario_version
  pps : List PPS         -- `_planning_problem_solutions.values()`; the dict KEYS (the ids at assembly time) are not part of
                         -- the state: writer, benchmark_id and planning_problem_ids read `pp_solution.planning_problem_id`
  date : Option Date
  ct : Option Tok
  proc : Option String
  deriving DecidableEq, Repr, Inhabited

/-! ## constructors with their guards -/

def sameSet (a b : List String) : Bool := a.all (b.contains ·) && b.all (a.contains ·)

/-- `is_natural_number(state.time_step) ... if hasattr(state, "time_step")` (trajectory.py:60-62) -/
def timeNatural (s : State) : Bool :=
  match getattr s "time_step" with
  | some (.time t) => decide (0 ≤ t)
  | Option.none => true
  | _ => false

/-- `Trajectory.__init__` / `check_state_list` (trajectory.py:28-72) -/
def mkTraj (init : Int) (states : List State) : Res Traj :=
  match states with
  | [] => .error .assert                                            -- len(state_list) >= 1
  | s0 :: _ =>
    if !(states.all timeNatural) then .error .assert
    else if !(states.all fun s => sameSet (usedAttrs s0) (usedAttrs s)) then .error .assert
    else match getattr s0 "time_step" with
      | some (.time t) => if t = init then .ok ⟨init, states⟩ else .error .assert
      | _ => .error .attr

/-- `StateType.get_state_type` (:228-265): first `StateFields` member, in the documented order, all of
    whose fields occur among the state's attributes. -/
def getStateType (attrs : List String) : Option VModel → Res TType
  | some m =>
    let first := [m.toTType, TType.Input, TType.PMInput]
    let order := first ++ TType.all.filter (fun t => !first.contains t)
    match order.find? (fun t => decide ((fields t).length ≤ attrs.length) && (fields t).all (attrs.contains ·)) with
    | some t => .ok t
    | Option.none => .error .other                                   -- StateTypeException
  | Option.none =>
    match TType.all.find? (fun t => attrs.length == (fields t).length && (fields t).all (attrs.contains ·)) with
    | some t => .ok t
    | Option.none => .error .other

/-- `TrajectoryType.valid_vehicle_model` (:314-327) -/
def validVehicleModel (T : TType) (m : VModel) : Bool :=
  (T == .Input && [VModel.KS, VModel.ST, VModel.MB].contains m) || (T == .PMInput && m == .PM) || T.name == m.name

/-- `SupportedCostFunctions[vehicle_model.name].value` (:330-339) -/
def supportedCosts : VModel → List Cost
  | .PM => [.JB1, .WX1, .MW1]
  | _ => Cost.all

/-- `PlanningProblemSolution.__init__` (:343-369) -/
def mkPPS (ppId : Int) (m : VModel) (vt : VType) (cf : Cost) (tr : Traj) : Res PPS :=
  match tr.states with
  | [] => .error .index                                              -- trajectory.state_list[0]
  | s0 :: _ =>
    match getStateType (attrsOf s0) (some m) with
    | .error e => .error e
    | .ok T =>
      if !validVehicleModel T m then .error .other                   -- SolutionException
      else if !(supportedCosts m).contains cf then .error .other     -- SolutionException
      else .ok ⟨ppId, m, vt, cf, T, tr⟩

/-- the `trajectory` setter (:428-434): the type is re-derived WITHOUT the vehicle model (exact attribute count) -/
def setTrajectory (p : PPS) (tr : Traj) : Res PPS :=
  match tr.states with
  | [] => .error .index
  | s0 :: _ =>
    match getStateType (attrsOf s0) Option.none with
    | .error e => .error e
    | .ok T => if !validVehicleModel T p.model then .error .other else .ok { p with ttype := T, traj := tr }

/-- `{s.planning_problem_id: s for s in planning_problem_solutions}`: a later solution with the same id
    replaces the earlier one in place. -/
def dictInsert (d : List PPS) (p : PPS) : List PPS :=
  if d.any (·.ppId == p.ppId) then d.map (fun q => if q.ppId == p.ppId then p else q) else d ++ [p]

def dictOf (ps : List PPS) : List PPS := ps.foldl dictInsert []

/-- `Solution.__init__` (:473-496) with the `computation_time` setter guard (:601-610) -/
def mkSolution (c : Codec) (scen ver : String) (ps : List PPS) (date : Option Date) (ct : Option Tok)
    (proc : Option String) : Res Solution :=
  match ct with
  | some t => if c.isPos t then .ok ⟨scen, ver, dictOf ps, date, ct, proc⟩ else .error .assert
  | Option.none => .ok ⟨scen, ver, dictOf ps, date, ct, proc⟩

/-! ## element tree -/

structure Leaf where
  tag : String
  text : String
  deriving DecidableEq, Repr, Inhabited

structure StateNode where
  tag : String
  leaves : List Leaf
  deriving DecidableEq, Repr, Inhabited

structure TrajNode where
  tag : String
  attrs : List (String × String)
  states : List StateNode
  deriving DecidableEq, Repr, Inhabited

/-- the `benchmark_id` attribute at token level -/
structure Bench where
  vids : List String
  cids : List String
  scen : String
  ver : String
  deriving DecidableEq, Repr, Inhabited

structure RootNode where
  tag : String
  bench : Bench
  attrs : List (String × String)      -- the other attributes, in `set` order
  trajs : List TrajNode
  deriving DecidableEq, Repr, Inhabited

/-! ## writer (:832-885) -/

/-- `vehicle_id` (:445-454) -/
def vehicleId (m : VModel) (vt : VType) : String := m.name ++ toString vt.value

/-- `Solution.benchmark_id` (:507-536) as characters: `ids[0] if len(ids) == 1 else "[%s]" % ",".join(ids)` twice,
    then scenario id and version, joined by ':' (the bracket/join functions are C13's) -/
def benchChars (b : Bench) : List Char :=
  CR.BenchId.bracket (b.vids.map String.toList) ++ ':' :: CR.BenchId.bracket (b.cids.map String.toList) ++
    ':' :: b.scen.toList ++ ':' :: b.ver.toList

/-- the string the writer stores in the `benchmark_id` attribute -/
def benchString (b : Bench) : String := String.ofList (benchChars b)

/-- `_create_sub_element`: `str(np.float64(value) if isinstance(value, float) else value)` -/
def subText (c : Codec) : FVal → Res String
  | .num v => .ok (c.fmtNum v)
  | .time t => .ok (c.fmtInt t)
  | .none => .ok "None"
  | .vec _ _ => .error .other        -- str(ndarray): not modelled (never a well-typed state)

/-- one iteration of the loop in `_create_state_node` (:877-884) -/
def writeField (c : Codec) (st : State) (e : XName × String) : Res (List Leaf) :=
  match getattr st e.2 with
  | Option.none => .error .attr
  | some v =>
    match e.1, v with
    | .pair a b, .vec x y => .ok [⟨a, c.fmtNum x⟩, ⟨b, c.fmtNum y⟩]
    | .pair _ _, _ => .error .type                                  -- subscripting a scalar / None
    | .one n, v => match subText c v with
      | .ok t => .ok [⟨n, t⟩]
      | .error e => .error e

def writeLeaves (c : Codec) (st : State) : List (XName × String) → Res (List Leaf)
  | [] => .ok []
  | e :: es =>
    match writeField c st e with
    | .error x => .error x
    | .ok a => match writeLeaves c st es with
      | .error x => .error x
      | .ok b => .ok (a ++ b)

/-- `_create_state_node` -/
def createStateNode (c : Codec) (T : TType) (st : State) : Res StateNode :=
  match writeLeaves c st (table T) with
  | .ok l => .ok ⟨stateTag T, l⟩
  | .error e => .error e

def mapRes {α β : Type} (f : α → Res β) : List α → Res (List β)
  | [] => .ok []
  | a :: as =>
    match f a with
    | .error e => .error e
    | .ok b => match mapRes f as with
      | .error e => .error e
      | .ok bs => .ok (b :: bs)

/-- `_create_trajectory_node` (:857-864) -/
def createTrajNode (c : Codec) (T : TType) (ppId : Int) (tr : Traj) : Res TrajNode :=
  match mapRes (createStateNode c T) tr.states with
  | .ok ns => .ok ⟨trajTag T, [("planningProblem", c.fmtInt ppId)], ns⟩
  | .error e => .error e

def benchOf (s : Solution) : Bench :=
  ⟨s.pps.map (fun p => vehicleId p.model p.vtype), s.pps.map (·.cost.name), s.scen, s.ver⟩

def optAttr (k : String) : Option String → List (String × String)
  | some v => [(k, v)]
  | Option.none => []

/-- `_create_root_node` (:843-854); `auto` is what `_get_processor_name()` returns on this machine -/
def rootAttrs (c : Codec) (auto : Option String) (s : Solution) : List (String × String) :=
  optAttr "computation_time" (s.ct.map c.fmtNum) ++
  optAttr "date" (s.date.map (fun d => c.fmtDate d.sec)) ++
  optAttr "processor_name" (if s.proc = some "auto" then auto else s.proc)

/-- `_serialize_solution` (:832-840) -/
def encodeSol (c : Codec) (auto : Option String) (s : Solution) : Res RootNode :=
  match mapRes (fun p => createTrajNode c p.ttype p.ppId p.traj) s.pps with
  | .ok ts => .ok ⟨"CommonRoadSolution", benchOf s, rootAttrs c auto s, ts⟩
  | .error e => .error e

/-! ## reader (:667-788) -/

/-- `state_node.find(name)`: first child with that tag -/
def findLeaf (n : String) (l : List Leaf) : Option Leaf := l.find? (·.tag == n)

/-- `_parse_sub_element(..., as_float=True)` -/
def subNum (c : Codec) (l : List Leaf) (n : String) : Res Tok :=
  match findLeaf n l with
  | Option.none => .error .other                                     -- SolutionReaderException
  | some e => c.prsNum e.text

/-- `_parse_sub_element(..., as_float=False)` -/
def subInt (c : Codec) (l : List Leaf) (n : String) : Res Int :=
  match findLeaf n l with
  | Option.none => .error .other
  | some e => c.prsInt e.text

/-- one iteration of the loop in `_parse_state` (:752-758) -/
def parseField (c : Codec) (l : List Leaf) (e : XName × String) : Res (String × FVal) :=
  match e.1 with
  | .pair a b =>
    match subNum c l a with
    | .error x => .error x
    | .ok x => match subNum c l b with
      | .error y => .error y
      | .ok y => .ok (e.2, .vec x y)
  | .one n =>
    if n == "time" then
      match subInt c l n with
      | .ok t => .ok (e.2, .time t)
      | .error x => .error x
    else
      match subNum c l n with
      | .ok v => .ok (e.2, .num v)
      | .error x => .error x

/-- `StateClass(**state_vals)`: an unknown keyword is a TypeError; attributes not given stay `None`;
    the attribute order is the class's. -/
def construct (T : TType) (kw : List (String × FVal)) : Res State :=
  if !(kw.all fun p => (classAttrs T).contains p.1) then .error .type
  else .ok ((classAttrs T).map fun a => (a, (kw.lookup a).getD FVal.none))

/-- `_parse_state` (:737-760) with an explicit `state_types` key list -/
def parseStateWith (keys : List TType) (c : Codec) (T : TType) (n : StateNode) : Res State :=
  if n.tag != stateTag T then .error .other                           -- SolutionReaderException
  else match mapRes (parseField c n.leaves) (table T) with
    | .error e => .error e
    | .ok kw => if keys.contains T then construct T kw else .error .key

def parseState (c : Codec) (T : TType) (n : StateNode) : Res State :=
  parseStateWith readerStateTypes c T n

def timeLe (a b : State) : Bool := decide (timeOf a ≤ timeOf b)

/-- `_parse_trajectory` (:715-725) -/
def parseTraj (c : Codec) (n : TrajNode) : Res (TType × Int × Traj) :=
  match TType.ofTrajTag? n.tag with
  | Option.none => .error .other                                     -- SolutionReaderException
  | some T =>
    match n.attrs.lookup "planningProblem" with
    | Option.none => .error .type                                    -- int(None)
    | some txt => match c.prsInt txt with
      | .error e => .error e
      | .ok ppId =>
        match mapRes (parseState c T) n.states with
        | .error e => .error e
        | .ok sts =>
          let sorted := sts.mergeSort timeLe                          -- sorted(): stable
          match sorted with
          | [] => .error .index                                      -- state_list[0]
          | s0 :: _ => match mkTraj (timeOf s0) sorted with
            | .ok tr => .ok (T, ppId, tr)
            | .error e => .error e

/-- `_parse_vehicle_id` (:777-788) -/
def parseVehicleId (s : String) : Res (VModel × VType) :=
  let cs := s.toList
  if cs.length != 3 && cs.length != 4 then .error .other
  else match VModel.ofName? (String.ofList cs.dropLast) with
    | Option.none => .error .other
    | some m =>
      match cs.getLast? with
      | Option.none => .error .index
      | some ch =>
        if !ch.isDigit then .error .value                            -- int(vehicle_id[-1])
        else match VType.ofValue? (ch.toNat - '0'.toNat) with
          | Option.none => .error .other
          | some vt => .ok (m, vt)

/-- `_parse_planning_problem_solution` (:700-712) -/
def parsePPS (c : Codec) (vid cid : String) (n : TrajNode) : Res PPS :=
  match parseVehicleId vid with
  | .error e => .error e
  | .ok (m, vt) =>
    match Cost.ofName? cid with
    | Option.none => .error .other
    | some cf =>
      match parseTraj c n with
      | .error e => .error e
      | .ok (_, ppId, tr) => mkPPS ppId m vt cf tr

/-- the list comprehension in `_parse_solution` (:671-674): `vehicle_ids[idx]`, `cost_ids[idx]` -/
def parseNodes (c : Codec) : List String → List String → List TrajNode → Res (List PPS)
  | _, _, [] => .ok []
  | v :: vs, k :: ks, n :: ns =>
    match parsePPS c v k n with
    | .error e => .error e
    | .ok p => match parseNodes c vs ks ns with
      | .error e => .error e
      | .ok ps => .ok (p :: ps)
  | _, _, _ :: _ => .error .index

/-- `_parse_header` (:677-698) -/
def parseHeader (c : Codec) (attrs : List (String × String)) : Res (Option Date × Option Tok × Option String) :=
  let date : Res (Option Date) :=
    match attrs.lookup "date" with
    | Option.none => .ok Option.none
    | some t => match c.prsDate t with
      | some d => .ok (some ⟨d, 0⟩)
      | Option.none => .error .value
  match date with
  | .error e => .error e
  | .ok d =>
    let ct : Res (Option Tok) :=
      match attrs.lookup "computation_time" with
      | Option.none => .ok Option.none
      | some t => match c.prsNum t with
        | .ok v => .ok (some v)
        | .error e => .error e
    match ct with
    | .error e => .error e
    | .ok t => .ok (d, t, attrs.lookup "processor_name")

/-- `_parse_solution` (:667-675) -/
def decodeSol (c : Codec) (r : RootNode) : Res Solution :=
  match parseHeader c r.attrs with
  | .error e => .error e
  | .ok (d, t, pn) =>
    match parseNodes c r.bench.vids r.bench.cids r.trajs with
    | .error e => .error e
    | .ok ps => mkSolution c r.bench.scen r.bench.ver ps d t pn

/-- the root element as the document has it: the benchmark id is one attribute string -/
structure RootDoc where
  tag : String
  bid : String
  attrs : List (String × String)
  trajs : List TrajNode
  deriving DecidableEq, Repr, Inhabited

def toDoc (r : RootNode) : RootDoc := ⟨r.tag, benchString r.bench, r.attrs, r.trajs⟩

/-- `_parse_solution` (:667-675) at string level: header, then `_parse_benchmark_id` on the attribute text (C13's
    character-level model, with the ISO-3166 table `cs`), then the trajectories, then `Solution(...)` -/
def decodeDoc (c : Codec) (cs : List (List Char)) (d : RootDoc) : Res Solution :=
  match parseHeader c d.attrs with
  | .error e => .error e
  | .ok (dt, t, pn) =>
    match CR.BenchId.parseBenchmarkId cs d.bid.toList with
    | .error e => .error e
    | .ok (vids, cids, i) =>
      match parseNodes c (vids.map String.ofList) (cids.map String.ofList) d.trajs with
      | .error e => .error e
      | .ok ps => mkSolution c (String.ofList (CR.BenchId.print i)) (String.ofList i.version) ps dt t pn

/-! ## what the round trip is expected to return -/

/-- the state as the reader's class holds it: the type's attributes, class order -/
def projectState (T : TType) (st : State) : State :=
  (classAttrs T).map fun a => (a, (getattr st a).getD FVal.none)

def normTraj (T : TType) (tr : Traj) : Traj :=
  let sts := (tr.states.map (projectState T)).mergeSort timeLe
  ⟨(sts.head?.map timeOf).getD tr.init, sts⟩

def normPPS (p : PPS) : PPS := { p with traj := normTraj p.ttype p.traj }

/-- time steps ascending, states reduced to the type's fields, date to the second, "auto" resolved -/
def normSol (auto : Option String) (s : Solution) : Solution :=
  { s with pps := s.pps.map normPPS,
           date := s.date.map (fun d => ⟨d.sec, 0⟩),
           proc := if s.proc = some "auto" then auto else s.proc }

/-! ## the number tokens that occur in a solution -/

def fvalToks : FVal → List Tok
  | .num v => [v]
  | .vec a b => [a, b]
  | _ => []

def stateToks (st : State) : List Tok := st.flatMap fun p => fvalToks p.2

def ppsToks (p : PPS) : List Tok := p.traj.states.flatMap stateToks

/-- every number token of the solution: all state values and the computation time -/
def numToks (s : Solution) : List Tok := s.pps.flatMap ppsToks ++ s.ct.toList

/-- every time step of the solution -/
def timeSteps (s : Solution) : List Int := s.pps.flatMap fun p => p.traj.states.map timeOf

/-- the codec reads back what it printed, for the values that occur in `s` (numbers, date) and for every integer -/
structure Codec.LawfulFor (c : Codec) (s : Solution) : Prop where
  num : ∀ v ∈ numToks s, c.prsNum (c.fmtNum v) = .ok v
  int : ∀ i, c.prsInt (c.fmtInt i) = .ok i
  date : ∀ d, s.date = some d → c.prsDate (c.fmtDate d.sec) = some d.sec

/-! ## admissible solutions (what the constructors accept) -/

/-- value kind demanded by a table entry: tuple ↔ vector, "time" ↔ int, anything else ↔ number -/
def kindOK : XName → FVal → Bool
  | .pair _ _, .vec _ _ => true
  | .one n, .time _ => n == "time"
  | .one n, .num _ => n != "time"
  | _, _ => false

/-- the field of a table entry is present with the right kind of value -/
def entryOK (st : State) (e : XName × String) : Bool :=
  match getattr st e.2 with
  | some v => kindOK e.1 v
  | Option.none => false

/-- every field of the table is present with the right kind of value -/
def typedFor (tb : List (XName × String)) (st : State) : Bool := tb.all (entryOK st)

def goodTraj (T : TType) (tr : Traj) : Bool :=
  tr.states.all (typedFor (table T)) &&
  tr.states.all (fun s => decide (0 ≤ timeOf s)) &&
  (match tr.states with | [] => false | s0 :: _ => timeOf s0 == tr.init)

def goodPPS (p : PPS) : Bool :=
  validVehicleModel p.ttype p.model && (supportedCosts p.model).contains p.cost && goodTraj p.ttype p.traj

def distinctIds : List PPS → Bool
  | [] => true
  | p :: ps => !(ps.any (·.ppId == p.ppId)) && distinctIds ps

def Admissible (c : Codec) (s : Solution) : Prop :=
  s.pps.all goodPPS = true ∧ distinctIds s.pps = true ∧ (∀ t, s.ct = some t → c.isPos t = true)

/-! ## the solution schema (CommonRoadSolution_schema.xsd) -/

inductive XsType where | float | int | string | dateTime
  deriving DecidableEq, Repr, Inhabited

/-- `<xs:element name=stateTag><xs:complexType><xs:all> leaf* ` -/
structure StateDecl where
  tag : String
  leaves : List (String × XsType)
  deriving DecidableEq, Repr, Inhabited

/-- `<xs:element name=tag minOccurs=0 maxOccurs=unbounded>`: sequence of `state` (1..unbounded),
    attribute `planningProblem` (required, xs:string) -/
structure TrajDecl where
  tag : String
  state : StateDecl
  deriving DecidableEq, Repr, Inhabited

structure Schema where
  root : String
  trajs : List TrajDecl                       -- xs:sequence, in document order
  attrs : List (String × XsType × Bool)       -- name, type, required
  deriving DecidableEq, Repr, Inhabited

private def f (n : String) : String × XsType := (n, .float)

/-- the shipped schema as a term (compared with the parsed .xsd on every run) -/
def solSchema : Schema where
  root := "CommonRoadSolution"
  trajs := [
    ⟨"pmInputVector", "pmInput", [f "xAcceleration", f "yAcceleration", ("time", .int)]⟩,
    ⟨"inputVector", "input", [f "acceleration", f "steeringAngleSpeed", ("time", .int)]⟩,
    ⟨"pmTrajectory", "pmState", [f "x", f "y", f "xVelocity", f "yVelocity", ("time", .int)]⟩,
    ⟨"ksTrajectory", "ksState", [f "x", f "y", f "orientation", f "velocity", f "steeringAngle", ("time", .int)]⟩,
    ⟨"stTrajectory", "stState", [f "x", f "y", f "orientation", f "yawRate", f "velocity", f "steeringAngle",
                                 f "slipAngle", ("time", .int)]⟩,
    ⟨"mbTrajectory", "mbState", [f "x", f "y", f "steeringAngle", f "velocity", f "orientation", f "yawRate",
      f "rollAngle", f "rollRate", f "pitchAngle", f "pitchRate", f "yVelocity", f "zPosition", f "zVelocity",
      f "rollAngleFront", f "rollRateFront", f "yVelocityFront", f "zPositionFront", f "zVelocityFront",
      f "rollAngleRear", f "rollRateRear", f "yVelocityRear", f "zPositionRear", f "zVelocityRear",
      f "leftFrontWheelAngularSpeed", f "rightFrontWheelAngularSpeed", f "leftRearWheelAngularSpeed",
      f "rightRearWheelAngularSpeed", f "deltaYf", f "deltaYr", ("time", .int)]⟩ ]
  attrs := [("benchmark_id", .string, true), ("date", .dateTime, false), ("computation_time", .float, false),
            ("processor_name", .string, false)]

/-- lexical validity of simple-type text (parameters of the validator) -/
structure Lex where
  float : String → Bool
  int : String → Bool
  dateTime : String → Bool

def lexOK (lx : Lex) : XsType → String → Bool
  | .float, s => lx.float s
  | .int, s => lx.int s
  | .dateTime, s => lx.dateTime s
  | .string, _ => true

def validLeaf (lx : Lex) (d : List (String × XsType)) (l : Leaf) : Bool :=
  match d.lookup l.tag with
  | Option.none => false
  | some ty => lexOK lx ty l.text

/-- `xs:all`: every declared element exactly once, in any order, nothing else -/
def validState (lx : Lex) (d : StateDecl) (n : StateNode) : Bool :=
  n.tag == d.tag && n.leaves.length == d.leaves.length &&
  d.leaves.all (fun p => (n.leaves.filter (·.tag == p.1)).length == 1) &&
  n.leaves.all (validLeaf lx d.leaves)

def validTraj (lx : Lex) (d : TrajDecl) (n : TrajNode) : Bool :=
  n.tag == d.tag && n.attrs.map (·.1) == ["planningProblem"] && !n.states.isEmpty &&
  n.states.all (validState lx d.state)

/-- `xs:sequence` of `(t₁)* (t₂)* …` against the children in document order -/
def matchSeq (lx : Lex) : List TrajDecl → List TrajNode → Bool
  | _, [] => true
  | [], _ :: _ => false
  | d :: ds, n :: ns =>
    if n.tag == d.tag then validTraj lx d n && matchSeq lx (d :: ds) ns
    else matchSeq lx ds (n :: ns)
termination_by ds ns => ds.length + ns.length

def validAttrs (lx : Lex) (decl : List (String × XsType × Bool)) (attrs : List (String × String)) : Bool :=
  attrs.all (fun a => match decl.lookup a.1 with
    | some (ty, _) => lexOK lx ty a.2
    | Option.none => false) &&
  decl.all (fun d => !d.2.2 || d.1 == "benchmark_id" || (attrs.lookup d.1).isSome)

def validate (lx : Lex) (sch : Schema) (r : RootNode) : Bool :=
  r.tag == sch.root && (sch.attrs.lookup "benchmark_id").isSome && validAttrs lx sch.attrs r.attrs &&
  matchSeq lx sch.trajs r.trajs

/-- position of a trajectory tag in a sequence of declarations -/
def declIndex : List TrajDecl → String → Option Nat
  | [], _ => Option.none
  | d :: ds, t => if t == d.tag then some 0 else (declIndex ds t).map (· + 1)

/-- position of a trajectory tag in the schema's sequence -/
def schemaIndex (sch : Schema) (tag : String) : Option Nat := declIndex sch.trajs tag

def nondecr : List Nat → Bool
  | [] => true
  | a :: l => l.all (fun b => decide (a ≤ b)) && nondecr l

/-- the solution lists only trajectory types the schema defines, in the order it defines them -/
def inSchemaOrder (sch : Schema) (tags : List String) : Bool :=
  tags.all (fun t => (schemaIndex sch t).isSome) && nondecr (tags.map fun t => (schemaIndex sch t).getD 0)

/-! ## concrete lexical checkers (used by the driver on the real text), on character lists -/

def isWs (c : Char) : Bool := c == ' ' || c == '\t' || c == '\n' || c == '\r'

/-- XSD `whiteSpace = collapse` at both ends -/
def trimL (cs : List Char) : List Char := ((cs.dropWhile isWs).reverse.dropWhile isWs).reverse

def allDigits (cs : List Char) : Bool := !cs.isEmpty && cs.all Char.isDigit

/-- drop one leading `-` -/
def dropMinus : List Char → List Char
  | [] => []
  | c :: r => if c == '-' then r else c :: r

/-- drop one leading `+` or `-` -/
def stripSign : List Char → List Char
  | [] => []
  | c :: r => if c == '+' || c == '-' then r else c :: r

def natOf (cs : List Char) : Nat := Nat.ofDigitChars 10 cs 0

/-- xs:int: optional sign, digits, within 32 bits -/
def xsIntL : List Char → Bool
  | [] => false
  | c :: r =>
    if c == '-' then allDigits r && decide (natOf r ≤ 2147483648)
    else if c == '+' then allDigits r && decide (natOf r ≤ 2147483647)
    else allDigits (c :: r) && decide (natOf (c :: r) ≤ 2147483647)

def isXsInt (s : String) : Bool := xsIntL (trimL s.toList)

/-- decimal mantissa `d+`, `d+.d*`, `.d+` -/
def isMantissa (cs : List Char) : Bool :=
  let ip := cs.takeWhile Char.isDigit
  match cs.dropWhile Char.isDigit with
  | [] => !ip.isEmpty
  | c :: fr => c == '.' && fr.all Char.isDigit && (!ip.isEmpty || !fr.isEmpty)

def notE (ch : Char) : Bool := ch != 'e' && ch != 'E'

/-- exponent part of an xs:float literal: nothing, or `e`/`E` followed by an optionally signed integer -/
def xsExpOK : List Char → Bool
  | [] => true
  | _ :: ex => allDigits (stripSign ex)

/-- mantissa then exponent -/
def xsUnsignedOK (cs : List Char) : Bool := isMantissa (cs.takeWhile notE) && xsExpOK (cs.dropWhile notE)

/-- xs:float lexical space: INF, -INF, NaN, or mantissa with optional exponent -/
def xsFloatL (t : List Char) : Bool :=
  if t == ['I', 'N', 'F'] || t == ['-', 'I', 'N', 'F'] || t == ['N', 'a', 'N'] then true
  else xsUnsignedOK (stripSign t)

def isXsFloat (s : String) : Bool := xsFloatL (trimL s.toList)

def daysIn (y m : Nat) : Nat :=
  if m = 2 then (if (y % 4 = 0 ∧ y % 100 ≠ 0) ∨ y % 400 = 0 then 29 else 28)
  else if m = 4 ∨ m = 6 ∨ m = 9 ∨ m = 11 then 30 else 31

/-- the `-MM-DDThh:mm:ss` part with its range checks; returns what follows it -/
def dateTail (y : Nat) : List Char → Option (List Char)
  | a :: m1 :: m2 :: b :: d1 :: d2 :: t :: h1 :: h2 :: c1 :: n1 :: n2 :: c2 :: s1 :: s2 :: tl =>
    if a == '-' && b == '-' && t == 'T' && c1 == ':' && c2 == ':' &&
       [m1, m2, d1, d2, h1, h2, n1, n2, s1, s2].all Char.isDigit &&
       (let mo := natOf [m1, m2]; let d := natOf [d1, d2]; let h := natOf [h1, h2]
        let mi := natOf [n1, n2]; let se := natOf [s1, s2]
        decide (1 ≤ mo ∧ mo ≤ 12 ∧ 1 ≤ d ∧ d ≤ daysIn y mo ∧
                (h ≤ 23 ∨ (h = 24 ∧ mi = 0 ∧ se = 0)) ∧ mi ≤ 59 ∧ se ≤ 59))
    then some tl else Option.none
  | _ => Option.none

/-- optional fraction `.d+` and zone `Z` / `±hh:mm` -/
def zoneOK (tl : List Char) : Bool :=
  let tl := match tl with
    | '.' :: fr => if (fr.takeWhile Char.isDigit).isEmpty then ['!'] else fr.dropWhile Char.isDigit
    | t => t
  match tl with
  | [] => true
  | ['Z'] => true
  | [sg, a, b, ':', c', d'] => (sg == '+' || sg == '-') && [a, b, c', d'].all Char.isDigit &&
      decide (natOf [a, b] ≤ 13 ∧ natOf [c', d'] ≤ 59 ∨ (natOf [a, b] = 14 ∧ natOf [c', d'] = 0))
  | _ => false

/-- xs:dateTime: `-?YYYY+-MM-DDThh:mm:ss(.d+)?(Z|±hh:mm)?` -/
def xsDateTimeL (cs : List Char) : Bool :=
  let cs := dropMinus cs
  let y := cs.takeWhile Char.isDigit
  decide (4 ≤ y.length) && (y.length == 4 || y.head? != some '0') && natOf y != 0 &&
  match dateTail (natOf y) (cs.dropWhile Char.isDigit) with
  | some tl => zoneOK tl
  | Option.none => false

def isXsDateTime (s : String) : Bool := xsDateTimeL s.toList

def Lex.xsd : Lex := ⟨isXsFloat, isXsInt, isXsDateTime⟩

/-! ## the texts Python writes (contract of `str(float)` / `str(int)` / `strftime`; checked on every written
       document by the correspondence) -/

/-- exponent part of `repr(float)`: nothing, or `e`, a sign, digits -/
def pyExp : List Char → Bool
  | [] => true
  | c :: sg :: ds => c == 'e' && (sg == '+' || sg == '-') && allDigits ds
  | _ => false

/-- `str(x)` of a finite float or an int: optional `-`, digits, optional `.digits`, optional `e±digits`
    (`inf` / `nan` are not of this form: the property speaks of finite values) -/
def pyTail : List Char → Bool
  | [] => true
  | c :: r2 =>
    if c == '.' then !(r2.takeWhile Char.isDigit).isEmpty && pyExp (r2.dropWhile Char.isDigit)
    else pyExp (c :: r2)

def pyUnsigned (u : List Char) : Bool :=
  !(u.takeWhile Char.isDigit).isEmpty && pyTail (u.dropWhile Char.isDigit)

def pyNumL (cs : List Char) : Bool := pyUnsigned (dropMinus cs)

/-- `strftime("%Y-%m-%dT%H:%M:%S")` of a date with a four-digit year: `YYYY-MM-DDThh:mm:ss`, fields in range -/
def pyDateL (cs : List Char) : Bool :=
  match cs with
  | y1 :: y2 :: y3 :: y4 :: rest =>
    [y1, y2, y3, y4].all Char.isDigit && natOf [y1, y2, y3, y4] != 0 &&
    dateTail (natOf [y1, y2, y3, y4]) rest == some []
  | _ => false

/-- the decimal-text codec: a number token IS the text Python writes for the value; the parser accepts exactly the
    texts of that grammar and returns them (reading inverts writing on them) -/
def Codec.py : Codec where
  fmtNum := id
  prsNum := fun s => if pyNumL s.toList then .ok s else .error .value
  fmtInt := Int.repr
  prsInt := fun s => match s.toInt? with | some i => .ok i | Option.none => .error .value
  fmtDate := id
  prsDate := fun s => if pyDateL s.toList then some s else Option.none
  isPos := fun s => pyNumL s.toList && !(s.toList.head? == some '-') && s.toList.any (fun c => c.isDigit && c != '0')

/-! ## the identity codec: tokens are written as they are -/

def Codec.ident : Codec where
  fmtNum := id
  prsNum := .ok
  fmtInt := Int.repr
  prsInt := fun s => match s.toInt? with | some i => .ok i | Option.none => .error .value
  fmtDate := id
  prsDate := some
  isPos := fun _ => true

end CR.Sol
