/-
  CRModel.ShapeObj — the shapes of commonroad/geometry/shape.py as OBJECTS: the attributes their containment tests and
  exports read, the caches derived from them, and the setters that must keep the caches in step (model extension made for
  the translator tie T06; the predicates themselves are those of CRModel.Geom).

    Polygon.vertices setter (:386-392)  `_min`, `_max` = column-wise min / max of the vertices, `_shapely_polygon`
    Polygon.contains_point  (:441-460)  bounding box `_min ≤ p ≤ _max`, then the shapely polygon
    Circle.__init__ / radius / center setters / _update_shapely_circle (:241-294)   export `Point(c).buffer(r / 2)`
    Rectangle.__init__ / setters / _invalidate_vertices / vertices / _shapely_polygon / contains_point (:46-222)
-/
import CRModel.Geom
namespace CR.ShapeObj
open CR.Geom

/-- `np.min(vertices, axis=0)` (numpy raises on the empty array; here the origin). -/
def colMin : List Pt → Pt
  | [] => ⟨0, 0⟩
  | v :: vs => vs.foldl (fun m u => ⟨min m.x u.x, min m.y u.y⟩) v

/-- `np.max(vertices, axis=0)`. -/
def colMax : List Pt → Pt
  | [] => ⟨0, 0⟩
  | v :: vs => vs.foldl (fun m u => ⟨max m.x u.x, max m.y u.y⟩) v

/-- A `Polygon` object: `_min`, `_max` (bounding box corners) and `_shapely_polygon` (its vertex ring). -/
structure PolyShape where
  min : Pt
  max : Pt
  ring : List Pt
  deriving DecidableEq, Repr

/-- `Polygon(vertices)`: the constructor runs the `vertices` setter. -/
def PolyShape.ofVertices (vs : List Pt) : PolyShape := ⟨colMin vs, colMax vs, vs⟩

/-- `Polygon.contains_point` with `ptIn ring p` for shapely's `polygon.intersects(Point(p))`. -/
def PolyShape.contains (ptIn : List Pt → Pt → Bool) (P : PolyShape) (p : Pt) : Bool :=
  (decide (P.min.x ≤ p.x) && decide (P.min.y ≤ p.y) && (decide (p.x ≤ P.max.x) && decide (p.y ≤ P.max.y))) && ptIn P.ring p

/-- A `Circle` object: `_radius`, `_center`, and `_shapely_circle` — the exported geometry `Point(c).buffer(ρ)` as the
    pair (c, ρ) (the disc of radius ρ around c), `none` while the attribute holds `None`. -/
structure CircObj where
  radius : Rat
  center : Pt
  shapely : Option (Pt × Rat)
  deriving DecidableEq, Repr

/-- `_update_shapely_circle`. -/
def CircObj.refresh (o : CircObj) : CircObj := { o with shapely := some (o.center, exportedRadius o.radius) }

/-- `circle.radius = r`: the export follows once it exists. -/
def CircObj.setRadius (o : CircObj) (r : Rat) : CircObj :=
  let o := { o with radius := r }
  if o.shapely.isSome then o.refresh else o

/-- `circle.center = c`. -/
def CircObj.setCenter (o : CircObj) (c : Pt) : CircObj :=
  let o := { o with center := c }
  if o.shapely.isSome then o.refresh else o

/-- `Circle(radius, center)` (center defaults to the origin). -/
def CircObj.new (r : Rat) (c : Option Pt) : CircObj :=
  (((⟨0, ⟨0, 0⟩, none⟩ : CircObj).setRadius r).setCenter (c.getD ⟨0, 0⟩)).refresh

/-- The export is the one derived from the CURRENT radius and center. -/
def CircObj.Sync (o : CircObj) : Prop := o.shapely = some (o.center, exportedRadius o.radius)

/-- Point membership in `circle.shapely_object`. -/
def CircObj.exported (o : CircObj) (p : Pt) : Bool :=
  match o.shapely with
  | some (c, ρ) => inDisc c ρ p
  | none => false

/-- A `Rectangle` object: `_length`, `_width`, `_center`, `_orientation` (as the pair (cos θ, sin θ)), the cached
    `_vertices` and the cached `__shapely_polygon` (its vertex ring); `none` = the attribute holds `None`. -/
structure RectObj where
  length : Rat
  width : Rat
  center : Pt
  orientation : Rat × Rat
  vertices : Option (List Pt)
  polygon : Option (List Pt)
  deriving DecidableEq, Repr

/-- `_compute_vertices` of the current attributes. -/
def RectObj.verts (o : RectObj) : List Pt := rectVerts o.length o.width o.center o.orientation.1 o.orientation.2

/-- `_invalidate_vertices`. -/
def RectObj.invalidate (o : RectObj) : RectObj := { o with vertices := none, polygon := none }

def RectObj.setLength (o : RectObj) (v : Rat) : RectObj := ({ o with length := v } : RectObj).invalidate
def RectObj.setWidth (o : RectObj) (v : Rat) : RectObj := ({ o with width := v } : RectObj).invalidate
def RectObj.setCenter (o : RectObj) (v : Pt) : RectObj := ({ o with center := v } : RectObj).invalidate
def RectObj.setOrientation (o : RectObj) (v : Rat × Rat) : RectObj := ({ o with orientation := v } : RectObj).invalidate

/-- `Rectangle(length, width, center, orientation)`. -/
def RectObj.new (l w : Rat) (c : Option Pt) (o : Rat × Rat) : RectObj := ⟨l, w, c.getD ⟨0, 0⟩, o, none, none⟩

/-- `rect.vertices` (memoising): the object afterwards and the value. -/
def RectObj.readVertices (o : RectObj) : RectObj × List Pt :=
  match o.vertices with
  | some vs => (o, vs)
  | none => ({ o with vertices := some o.verts }, o.verts)

/-- `rect._shapely_polygon` / `rect.shapely_object` (memoising). -/
def RectObj.readPolygon (o : RectObj) : RectObj × List Pt :=
  match o.polygon with
  | some r => (o, r)
  | none => let r := o.readVertices; ({ r.1 with polygon := some r.2 }, r.2)

/-- `rect.contains_point(p)` with `ptIn ring p` for shapely's `polygon.intersects(Point(p))`. -/
def RectObj.containsPoint (ptIn : List Pt → Pt → Bool) (o : RectObj) (p : Pt) : RectObj × Bool :=
  let r := o.readPolygon
  (r.1, ptIn r.2 p)

/-- Whatever is cached was derived from the CURRENT attributes. -/
def RectObj.Sync (o : RectObj) : Prop :=
  (∀ vs, o.vertices = some vs → vs = o.verts) ∧ (∀ r, o.polygon = some r → r = o.verts)

/-- What a user does to a rectangle after constructing it. -/
inductive RectOp where
  | setLength (v : Rat) | setWidth (v : Rat) | setCenter (v : Pt) | setOrientation (v : Rat × Rat)
  | readVertices | readPolygon | query (p : Pt)

def RectObj.step (ptIn : List Pt → Pt → Bool) (o : RectObj) : RectOp → RectObj
  | .setLength v => o.setLength v
  | .setWidth v => o.setWidth v
  | .setCenter v => o.setCenter v
  | .setOrientation v => o.setOrientation v
  | .readVertices => o.readVertices.1
  | .readPolygon => o.readPolygon.1
  | .query p => (o.containsPoint ptIn p).1

/-- What a user does to a circle after constructing it. -/
inductive CircOp where
  | setRadius (r : Rat) | setCenter (c : Pt)

def CircObj.step (o : CircObj) : CircOp → CircObj
  | .setRadius r => o.setRadius r
  | .setCenter c => o.setCenter c

end CR.ShapeObj
