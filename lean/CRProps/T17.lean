/-
  T17 — translator tie for C17 / C04: the definitions regenerated on every run from the CURRENT source of
  commonroad/scenario/traffic_light.py (cycle_init_timesteps, get_state_at_time_step) and
  commonroad/scenario/trajectory.py (state_at_time_step) equal the hand-written models the C17 / C04 theorems
  are about.
-/
import Gen.Src
import CRModel.Occupancy
namespace CR.TL

theorem tie_init_steps (es : List Elem) (off : Int) :
    Gen.TrafficLightCycle_cycle_init_timesteps es off = initSteps es off := rfl

theorem tie_state_at (es : List Elem) (off t : Int) :
    Gen.TrafficLightCycle_get_state_at_time_step es off t = stateAt es off t := by
  unfold Gen.TrafficLightCycle_get_state_at_time_step stateAt
  rw [tie_init_steps]
  simp only [CR.Py.getItem, CR.Py.imod, CR.Py.argmaxLt]
  cases h : pyGet? (initSteps es off) (-1) with
  | none => simp [bind, Except.bind]
  | some last =>
    by_cases hp : last - off = 0
    · simp [bind, Except.bind, hp]
    · simp only [bind, Except.bind, hp, if_false, pure, Except.pure]
      cases h2 : pyGet? es ((argmaxLt ((t - off).fmod (last - off) + off) (initSteps es off) : Int) - 1) with
      | none => simp [h2]
      | some e => simp [h2]

/-- `TrafficLight.get_state_at_time_step` as the CURRENT source has it (translated) is the model's
    `lightStateAt`, i.e. the light reports exactly what its cycle reports — also when the light is inactive. -/
theorem tie_light_state_at (es : List Elem) (off t : Int) :
    Gen.TrafficLight_get_state_at_time_step es off t = lightStateAt es off t := by
  unfold Gen.TrafficLight_get_state_at_time_step lightStateAt
  rw [tie_state_at]

end CR.TL

namespace CR.Occ

theorem tie_traj_state_at (t0 : Int) (n : Nat) (t : Int) :
    Gen.Trajectory_state_at_time_step t0 n t = trajStateAt t0 n t := by
  unfold Gen.Trajectory_state_at_time_step trajStateAt
  simp only [List.length_range]
  by_cases h1 : t0 ≤ t <;> by_cases h2 : t < t0 + n <;> simp [h1, h2, Id.run, pure]

end CR.Occ
