/-
  T17 — translator tie for C17 / C04: the definitions regenerated on every run from the CURRENT source of
  commonroad/scenario/traffic_light.py (cycle_init_timesteps, get_state_at_time_step) and
  commonroad/scenario/trajectory.py (state_at_time_step) equal the hand-written models the C17 / C04 theorems
  are about.
-/
import Gen.Src
import Gen.SrcC04
import CRModel.Occupancy
import CRModel.TrafficLightHist
namespace CR.TL

theorem tie_init_steps (es : List Elem) (off : Int) :
    Gen.TrafficLightCycle_cycle_init_timesteps es off = initSteps es off := rfl

theorem tie_state_at (es : List Elem) (off t : Int) :
    Gen.TrafficLightCycle_get_state_at_time_step es off t = stateAt es off t := by
  unfold Gen.TrafficLightCycle_get_state_at_time_step stateAt
  rw [tie_init_steps]
  simp only [CR.Py.getItem, CR.Py.imod, CR.Py.argmaxLt]
  cases h : pyGet? (initSteps es off) (-1) with
  | none => simp [bind, Except.bind]
  | some last =>
    by_cases hp : last - off = 0
    · simp [bind, Except.bind, hp]
    · simp only [bind, Except.bind, hp, if_false, pure, Except.pure]
      cases h2 : pyGet? es ((argmaxLt ((t - off).fmod (last - off) + off) (initSteps es off) : Int) - 1) with
      | none => simp [h2]
      | some e => simp [h2]

/-- `TrafficLight.get_state_at_time_step` as the CURRENT source has it (translated) is the model's
    `lightStateAt`, i.e. the light reports exactly what its cycle reports — also when the light is inactive. -/
theorem tie_light_state_at (es : List Elem) (off t : Int) :
    Gen.TrafficLight_get_state_at_time_step es off t = lightStateAt es off t := by
  unfold Gen.TrafficLight_get_state_at_time_step lightStateAt
  rw [tie_state_at]

end CR.TL

namespace CR.Occ

theorem tie_traj_state_at (t0 : Int) (n : Nat) (t : Int) :
    Gen.Trajectory_state_at_time_step t0 n t = trajStateAt t0 n t := by
  unfold Gen.Trajectory_state_at_time_step trajStateAt
  simp only [List.length_range]
  by_cases h1 : t0 ≤ t <;> by_cases h2 : t < t0 + n <;> simp [h1, h2, Id.run, pure]

end CR.Occ

/-! ## second part: the cycle OBJECT with its memoised table (translated by harness/translate/src_c04.py, module Gen.SrcC04) -/
namespace CR.TL.Hist

theorem tie_invalidate (o : Obj) : Gen.TrafficLightCycle_invalidate o = { o with table := none } := by
  unfold Gen.TrafficLightCycle_invalidate
  obtain ⟨es, cls, off, tb⟩ := o
  cases tb <;> simp [Id.run, pure]

/-- the `time_offset` setter of the current source stores the offset AND drops the memoised table (`Op.setOff`) -/
theorem tie_set_time_offset (v : Bool) (o : Obj) (off : Int) :
    Gen.TrafficLightCycle_set_time_offset o off = (stepWith v o (.setOff off)).2 := by
  unfold Gen.TrafficLightCycle_set_time_offset
  simp [Id.run, pure, tie_invalidate, stepWith]

/-- the `cycle_elements` setter of the current source stores the list AND drops the memoised table (`Op.setEs`) -/
theorem tie_set_cycle_elements (v : Bool) (o : Obj) (es : List Elem) (cls : List Nat) :
    Gen.TrafficLightCycle_set_cycle_elements o (es, cls) = (stepWith v o (.setEs es cls)).2 := by
  unfold Gen.TrafficLightCycle_set_cycle_elements
  simp [Id.run, pure, tie_invalidate, stepWith]

open CR.PyC04 in
theorem diffs_cons_inj : ∀ (l l' : List Int) (a : Int), diffs (a :: l) = diffs (a :: l') → l = l'
  | [], [], _, _ => rfl
  | [], b :: l', a, h => by simp [diffs] at h
  | b :: l, [], a, h => by simp [diffs] at h
  | b :: l, b' :: l', a, h => by
    simp only [diffs, List.cons.injEq] at h
    obtain ⟨h1, h2⟩ := h
    have hb : b = b' := by omega
    subst hb
    rw [diffs_cons_inj l l' b h2]

open CR.PyC04 in
theorem diffs_cumsum (off : Int) : ∀ (ds : List Int) (acc : Int),
    diffs ((acc + off) :: (cumsumFrom acc ds).map (· + off)) = ds
  | [], _ => rfl
  | d :: ds, acc => by
    simp only [cumsumFrom, List.map_cons, diffs]
    rw [diffs_cumsum off ds (acc + d)]
    congr 1; omega

open CR.PyC04 in
theorem diffs_initSteps (es : List Elem) (off : Int) : diffs (initSteps es off) = durations es := by
  have h := diffs_cumsum off (durations es) 0
  simpa [initSteps, cumsum] using h

/-- The memoised property `cycle_init_timesteps` of the CURRENT source as a whole (hasattr test, comparison of the table's
    differences with the current durations, re-derivation, memo update): on an object whose memo — if any — starts at the
    current offset (`OffCoherent`, kept by every operation: C17_offCoherent_run) it returns the table of the current elements
    and offset and leaves exactly that table memoised: the model's `fillWith true`, i.e. `validates = true`. -/
theorem tie_cycle_init_timesteps_memo (o : Obj) (h : OffCoherent o) :
    Gen.TrafficLightCycle_cycle_init_timesteps_memo o = (fillWith true o, { o with table := some (fillWith true o) }) := by
  unfold Gen.TrafficLightCycle_cycle_init_timesteps_memo fillWith
  obtain ⟨es, cls, off, tb⟩ := o
  cases tb with
  | none => simp [Id.run, pure, CR.Py.cumsumPlus, CR.Py.insert0, initSteps, durations]
  | some tb =>
    by_cases hd : CR.PyC04.diffs tb = es.map (fun e => e.2)
    · have hh := h tb rfl
      cases tb with
      | nil => simp at hh
      | cons a l =>
        simp only [List.head?_cons, Option.some.injEq] at hh
        subst hh
        have hl : l = (cumsum (durations es)).map (· + a) := by
          apply diffs_cons_inj _ _ a
          rw [hd]
          exact (diffs_initSteps es a).symm
        subst hl
        simp [Id.run, pure, hd, initSteps]
    · simp [Id.run, pure, hd, CR.Py.cumsumPlus, CR.Py.insert0, initSteps, durations]

/-- the query path of the model (`stepWith true o (.query ts)` reads `fillWith true o` and leaves it memoised) is therefore
    what the translated getter does on every object a history can produce -/
theorem tie_memo_is_query_table (o : Obj) (h : OffCoherent o) (t : Int) :
    (stepWith true o (.query [t])).2 = (Gen.TrafficLightCycle_cycle_init_timesteps_memo o).2 := by
  rw [tie_cycle_init_timesteps_memo o h]
  simp [stepWith]

end CR.TL.Hist
