/-
  T03 — translator tie for C03 (writer side), parts B-D (part A, the checks of the complete extracted table against the XSD:
  CRProps/T03A.lean).  `Gen.SrcC03` is regenerated on every run from the CURRENT source of
  commonroad/common/writer/file_writer_xml.py by harness/translate/src_c03.py (structural extraction: per element the writer
  builds, the ORDERED children it appends with their guards; vocabulary CRModel/PyExtC03.lean).

  B. per builder, FOR ALL ENVIRONMENTS (value classes of the tested / iterated expressions, verdicts of the opaque tests):
     the child-name sequence the extracted body emits equals the hand model `XmlW.<builder>Kids` of C03 (CRModel/CRXmlW.lean);
  C. hence the `C03_order_*` statements hold for the sequence the CODE's builder emits (not only for the hand model's);
  D. `StateXMLNode._map_to_xml_prop` (translated functionally) equals `XmlW.xmlProp` on every attribute name of the state classes.
-/
import Gen.SrcC03
import Gen.XsdScenario
import CRModel.CRXmlW
import CRModel.CRXmlWOk
import CRProofs.XsdOrd1
import CRProofs.XsdOrd2
import CRProofs.XsdOrd3

/-! ## B. per builder, for all environments: the emitted child names are the hand model's

`env.val e` is the value class of the tested / iterated expression `e` (`_` = the builder's first parameter, `it1` the loop
variable of the enclosing loop), `env.atom i` the verdict of the i-th opaque test of the function (their source text is
`Builder.atoms`), `env.spliced k` the child names helper `k` adds.  The right-hand sides are the models the `C03_order_*`
and `C03_kids_*` theorems of CRProps/C03.lean are about. -/
namespace CR.T03
open CR.SrcW CR.XmlW CR.Xsd CR.Xsd.Gen Gen.SrcC03

theorem flatten_replicate_single (n : Nat) (s : String) : (List.replicate n [s]).flatten = List.replicate n s := by
  induction n with
  | zero => rfl
  | succ k ih => simp [List.replicate_succ, ih]

/-- `if x: for e in x: …` emits exactly what the bare loop emits (an empty / None / falsy `x` has no entries) -/
theorem truthy_loop (v : AVal) (s : String) :
    (if v.truthy = true then List.replicate v.count s else []) = List.replicate v.count s := by
  cases v with
  | none => simp [AVal.truthy, AVal.count]
  | obj b => cases b <;> simp [AVal.truthy, AVal.count]
  | coll n => cases n <;> simp [AVal.truthy, AVal.count]

theorem notNone_loop (v : AVal) (s : String) :
    (if v.notNone = true then List.replicate v.count s else []) = List.replicate v.count s := by
  cases v <;> simp [AVal.notNone, AVal.count]

theorem pos_loop (n : Nat) (s : String) : (if 0 < n then List.replicate n s else []) = List.replicate n s := by
  cases n <;> simp

/-- unfold the extracted body and the model; loops become `replicate` -/
macro "unfold_run" defs:Lean.Parser.Tactic.simpLemma,* : tactic =>
  `(tactic| simp only [$defs,*, run, Cond.eval, CR.XmlW.rep, CR.XmlW.opt, flatten_replicate_single, truthy_loop, notNone_loop,
      pos_loop, Bool.cond_eq_ite, List.append_assoc, List.nil_append, List.append_nil, List.cons_append, decide_eq_true_eq] <;> try rfl)

theorem tie_point_kids (env : Env) :
    run env b_Point_create_node.body = pointKids (env.val "_.z").notNone := by
  unfold_run b_Point_create_node, pointKids

theorem tie_rectangle_kids (env : Env) :
    run env b_Rectangle_create_rectangle_node.body =
      rectangleKids (env.val "dynamic_obstacle_shape").truthy (env.atom 0) (env.atom 1) := by
  unfold_run b_Rectangle_create_rectangle_node, rectangleKids

theorem tie_circle_kids (env : Env) :
    run env b_Circle_create_circle_node.body = circleKids (env.val "dynamic_obstacle_shape").truthy (env.atom 0) := by
  unfold_run b_Circle_create_circle_node, circleKids

theorem tie_polygon_kids (env : Env) :
    run env b_Polygon_create_polygon_node.body = polygonKids (env.val "_.vertices").count := by
  unfold_run b_Polygon_create_polygon_node, polygonKids

/-- left / right bound: the marking is written iff the three tests (`hasattr`, `isinstance LineMarking`, `is not UNKNOWN`) hold -/
theorem tie_leftBound_kids (env : Env) :
    run env b_Lanelet_create_node_leftBound.body =
      boundKids (env.val "_.left_vertices").count (env.atom 0 && (env.atom 1 && env.atom 2)) := by
  unfold_run b_Lanelet_create_node_leftBound, boundKids

theorem tie_rightBound_kids (env : Env) :
    run env b_Lanelet_create_node_rightBound.body =
      boundKids (env.val "_.right_vertices").count (env.atom 3 && (env.atom 4 && env.atom 5)) := by
  unfold_run b_Lanelet_create_node_rightBound, boundKids

/-- the shape of a lanelet as the builder sees it -/
def laneletP (env : Env) : LaneletP where
  nPred := (env.val "_.predecessor").count
  nSucc := (env.val "_.successor").count
  adjL := (env.val "_.adj_left").truthy
  adjR := (env.val "_.adj_right").truthy
  stop := (env.val "_.stop_line").truthy
  nTypes := (env.val "_.lanelet_type").count
  nOneWay := (env.val "_.user_one_way").count
  nBidir := (env.val "_.user_bidirectional").count
  nSigns := (env.val "_.traffic_signs").count
  nLights := (env.val "_.traffic_lights").count

theorem tie_lanelet_kids (env : Env) : run env b_Lanelet_create_node.body = laneletKids (laneletP env) := by
  unfold_run b_Lanelet_create_node, laneletKids, laneletP
  rcases Nat.eq_zero_or_pos (env.val "_.lanelet_type").count with h | h
  · simp only [h]; rfl
  · have h' : (env.val "_.lanelet_type").count ≠ 0 := by omega
    simp only [h, h']; rfl

/-- stop line: both points or none (`start is not None or end is not None`), the marking if truthy, the references -/
theorem tie_stopLine_kids (env : Env) :
    run env b_LaneletStopLine_create_node.body =
      stopLineKids ((env.val "_.start").notNone || (env.val "_.end").notNone) (env.val "_.line_marking").truthy
        (env.val "_.traffic_sign_ref").count (env.val "_.traffic_light_ref").count := by
  unfold_run b_LaneletStopLine_create_node, stopLineKids

theorem tie_trafficSign_kids (env : Env) :
    run env b_TrafficSign_create_node.body =
      trafficSignKids (env.val "_.traffic_sign_elements").count (env.val "_.position").notNone (env.val "_.virtual").notNone := by
  unfold_run b_TrafficSign_create_node, trafficSignKids

theorem tie_trafficSignElement_kids (env : Env) :
    run env b_TrafficSign_create_node_trafficSignElement.body = signElementKids (env.val "it1.additional_values").count := by
  unfold_run b_TrafficSign_create_node_trafficSignElement, signElementKids

/-- traffic light: the direction is written iff `direction is not TrafficLightDirection.ALL` (atom 0) -/
theorem tie_trafficLight_kids (env : Env) :
    run env b_TrafficLight_create_node.body =
      trafficLightKids (env.val "_.traffic_light_cycle").notNone (env.val "_.position").notNone (env.atom 0)
        (env.val "_.active").notNone := by
  unfold_run b_TrafficLight_create_node, trafficLightKids

/-- cycle: the offset is written iff `time_offset is not None and time_offset > 0` -/
theorem tie_cycle_kids (env : Env) :
    run env b_TrafficLightCycle_create_node.body =
      cycleKids (env.val "_.cycle_elements").count ((env.val "_.time_offset").notNone && env.atom 0) := by
  unfold_run b_TrafficLightCycle_create_node, cycleKids

theorem tie_cycleElement_kids (env : Env) : run env b_TrafficLightCycleElement_create_node.body = cycleElementKids := by
  unfold_run b_TrafficLightCycleElement_create_node, cycleElementKids

theorem tie_incoming_kids (env : Env) :
    run env b_Intersection_create_node_incoming.body =
      incomingKids (env.val "it1.incoming_lanelets").count (env.val "it1.successors_right").count
        (env.val "it1.successors_straight").count (env.val "it1.successors_left").count (env.val "it1.left_of").truthy := by
  unfold_run b_Intersection_create_node_incoming, incomingKids

/-- intersection: the crossing element iff `crossings is not None and len(crossings) > 0` -/
theorem tie_intersection_kids (env : Env) :
    run env b_Intersection_create_node.body =
      intersectionKids (env.val "_.incomings").count
        ((env.val "_.crossings").notNone && decide (0 < (env.val "_.crossings").count)) := by
  unfold_run b_Intersection_create_node, intersectionKids

theorem tie_crossing_kids (env : Env) :
    run env b_Intersection_create_node_crossing.body = crossingKids (env.val "_.crossings").count := by
  unfold_run b_Intersection_create_node_crossing, crossingKids

theorem tie_location_kids (env : Env) :
    run env b_Location_create_node.body =
      locationKids (env.val "_.geo_transformation").notNone (env.val "_.environment").notNone := by
  unfold_run b_Location_create_node, locationKids

theorem tie_geoTransformation_kids (env : Env) : run env b_GeoTransformation_create_node.body = geoTransformationKids := by
  unfold_run b_GeoTransformation_create_node, geoTransformationKids

theorem tie_additionalTransformation_kids (env : Env) :
    run env b_GeoTransformation_create_node_additionalTransformation.body = additionalTransformationKids := by
  unfold_run b_GeoTransformation_create_node_additionalTransformation, additionalTransformationKids

/-- environment: `time` + `timeOfDay` iff the time of day is not UNKNOWN (atom 0), weather (atom 1), underground (atom 2) -/
theorem tie_environment_kids (env : Env) :
    run env b_Environment_create_node.body = environmentKids (env.atom 0) (env.atom 1) (env.atom 2) := by
  unfold_run b_Environment_create_node, environmentKids

/-- the obstacle header adds `type`; the four obstacle builders continue the element it returns -/
theorem tie_obstacle_header_kids (env : Env) : run env b_Obstacle_create_obstacle_node_header.body = ["type"] := by
  unfold_run b_Obstacle_create_obstacle_node_header

theorem tie_phantom_header_kids (env : Env) : run env b_PhantomObstacle_create_obstacle_node_header.body = [] := by
  unfold_run b_PhantomObstacle_create_obstacle_node_header

def HeaderOf (env : Env) : Prop :=
  env.spliced "ObstacleXMLNode.create_obstacle_node_header" = run env b_Obstacle_create_obstacle_node_header.body ∧
  env.spliced "PhantomObstacleXMLNode.create_obstacle_node_header" = run env b_PhantomObstacle_create_obstacle_node_header.body

theorem tie_staticObstacle_kids (env : Env) (h : HeaderOf env) :
    run env b_StaticObstacle_create_node.body = staticObstacleKids := by
  unfold_run b_StaticObstacle_create_node, staticObstacleKids, h.1, tie_obstacle_header_kids

theorem tie_environmentObstacle_kids (env : Env) (h : HeaderOf env) :
    run env b_EnvironmentObstacle_create_node.body = environmentObstacleKids := by
  unfold_run b_EnvironmentObstacle_create_node, environmentObstacleKids, h.1, tie_obstacle_header_kids

/-- the prediction of a dynamic obstacle as the builder sees it: set-based (atom 0), else trajectory (atom 1), else none -/
def predOf (env : Env) : Pred := if env.atom 0 then .occupancySet else if env.atom 1 then .trajectory else .none

theorem tie_dynamicObstacle_kids (env : Env) (h : HeaderOf env) :
    run env b_DynamicObstacle_create_node.body =
      dynamicObstacleKids (env.val "_.initial_signal_state").notNone (predOf env)
        ((env.val "_.signal_series").notNone && decide (0 < (env.val "_.signal_series").count)) := by
  unfold_run b_DynamicObstacle_create_node, dynamicObstacleKids, h.1, tie_obstacle_header_kids, predOf
  by_cases h0 : env.atom 0 = true <;> by_cases h1 : env.atom 1 = true <;> simp only [h0, h1, Pred.kids] <;> rfl

theorem tie_phantomObstacle_kids (env : Env) (h : HeaderOf env) :
    run env b_PhantomObstacle_create_node.body = phantomObstacleKids (env.atom 0) := by
  unfold_run b_PhantomObstacle_create_node, phantomObstacleKids, h.2, tie_phantom_header_kids

theorem tie_occupancy_kids (env : Env) : run env b_Occupancy_create_node.body = occupancyKids := by
  unfold_run b_Occupancy_create_node, occupancyKids

theorem tie_trajectory_kids (env : Env) :
    run env b_DynamicObstacle_create_trajectory_node.body = trajectoryKids (env.val "_.state_list").count := by
  unfold_run b_DynamicObstacle_create_trajectory_node, trajectoryKids

theorem tie_occupancySet_kids (env : Env) :
    run env b_DynamicObstacle_create_occupancy_node.body = occupancySetKids (env.val "_").count := by
  unfold_run b_DynamicObstacle_create_occupancy_node, occupancySetKids

theorem tie_signalSeries_kids (env : Env) :
    run env b_DynamicObstacle_create_signal_series_node.body = signalSeriesKids (env.val "_").count := by
  unfold_run b_DynamicObstacle_create_signal_series_node, signalSeriesKids

/-- exact / interval values: `exact`, or `intervalStart` `intervalEnd` (what the two interval helpers return) -/
theorem tie_interval_kids (env : Env) :
    run env b_create_interval_node_float.body = valueKids true ∧ run env b_create_interval_node_int.body = valueKids true := by
  constructor <;> unfold_run b_create_interval_node_float, b_create_interval_node_int, valueKids

theorem tie_occupancy_time_kids (env : Env)
    (h : env.spliced "create_interval_node_int" = run env b_create_interval_node_int.body) :
    run env b_Occupancy_create_node_time.body = valueKids (env.atom 0) := by
  unfold_run b_Occupancy_create_node_time, valueKids, h, b_create_interval_node_int

/-- a state value that is a number (atom 0) or an Interval (atom 1); anything else raises -/
theorem tie_value_kids (env : Env) (hv : env.atom 0 = true ∨ env.atom 1 = true)
    (h : env.spliced "create_interval_node_float" = run env b_create_interval_node_float.body) :
    run env b_State_write_value_exact_or_interval.body = valueKids (!env.atom 0) := by
  unfold_run b_State_write_value_exact_or_interval, valueKids, h, b_create_interval_node_float
  rcases hv with hv | hv <;> cases h0 : env.atom 0 <;> simp_all

theorem tie_signalState_kids (env : Env) :
    run env b_SignalState_create_signal_state_node.body =
      signalStateKids (env.atom 0) (env.atom 1) (env.atom 2) (env.atom 3) (env.atom 4) (env.atom 5) := by
  unfold_run b_SignalState_create_signal_state_node, signalStateKids

theorem tie_planningProblem_kids (env : Env) :
    run env b_PlanningProblem_create_node.body = planningProblemKids (env.val "_.goal.state_list").count := by
  unfold_run b_PlanningProblem_create_node, planningProblemKids
  simp only [ite_self, flatten_replicate_single]

/-- what the root gets below the header: the fixed part of `rootKids`, then one block per obstacle, then the problems -/
theorem tie_root_objects_kids (env : Env) :
    run env b_XMLFileWriter_add_all_objects_from_scenario.body =
      rootKids { nLanelets := (env.val "_.scenario.lanelet_network.lanelets").count,
                 nSigns := (env.val "_.scenario.lanelet_network.traffic_signs").count,
                 nLights := (env.val "_.scenario.lanelet_network.traffic_lights").count,
                 nIntersections := (env.val "_.scenario.lanelet_network.intersections").count,
                 nStatic := 0, nDynamic := 0, nPhantom := 0, nEnvironment := 0, nProblems := 0 } ++
      (List.replicate (env.val "_.scenario.obstacles").count (env.spliced "ObstacleXMLNode.create_node")).flatten := by
  unfold_run b_XMLFileWriter_add_all_objects_from_scenario, rootKids
  simp only [ite_self]; rfl

theorem tie_root_problems_kids (env : Env) :
    run env b_XMLFileWriter_add_all_planning_problems_from_planning_problem_set.body =
      List.replicate (env.val "_.planning_problem_set.planning_problem_dict.values()").count "planningProblem" := by
  unfold_run b_XMLFileWriter_add_all_planning_problems_from_planning_problem_set

/-- `write_to_file` (when it writes): header (no children), objects, problems — in this order -/
theorem tie_write_to_file (env : Env) (hw : (env.val "filename").truthy = true) :
    run env b_XMLFileWriter_write_to_file.body =
      env.spliced "XMLFileWriter._write_header" ++ (env.spliced "XMLFileWriter._add_all_objects_from_scenario" ++
        env.spliced "XMLFileWriter._add_all_planning_problems_from_planning_problem_set") := by
  unfold_run b_XMLFileWriter_write_to_file
  simp [hw]

theorem tie_header_no_kids (env : Env) : run env b_XMLFileWriter_write_header.body = [] := by
  unfold_run b_XMLFileWriter_write_header

/-- shapes: a ShapeGroup (atom 0) writes one element per member, anything else one element; the element is `rectangle` /
    `circle` / `polygon` by the class of the shape, any other class raises -/
theorem tie_single_shape_kids (env : Env) (k : ShapeK)
    (hk : (env.atom 0, env.atom 1, env.atom 2) = match k with
      | .rectangle => (true, env.atom 1, env.atom 2) | .circle => (false, true, env.atom 2) | .polygon => (false, false, true)) :
    run env b_Shape_create_single_element.body = shapeKids [k] := by
  unfold_run b_Shape_create_single_element, shapeKids
  cases k <;> simp_all [ShapeK.tag]

theorem tie_shape_kids (env : Env) :
    run env b_Shape_create_node.body =
      if env.atom 0 then (List.replicate (env.val "_.shapes").count (env.spliced "ShapeXMLNode._create_single_element")).flatten
      else env.spliced "ShapeXMLNode._create_single_element" := by
  unfold_run b_Shape_create_node

end CR.T03

/-! ## C. the `C03_order_*` statements, for the sequence the CODE's builder emits

`Ok T kids`: the child-name sequence matches the content model of XSD type `T` (CRProofs/XsdOrd.lean).  Hypotheses = the
`minOccurs` the schema itself demands (and the conditions `T03_required_children` lists). -/
namespace CR.T03
open CR.SrcW CR.XmlW CR.Xsd CR.Xsd.Gen Gen.SrcC03 CR.C03

theorem T03_code_order_point (env : Env) : Ok "point" (run env b_Point_create_node.body) := by
  rw [tie_point_kids]; exact ord_order_point _

theorem T03_code_order_rectangle (env : Env) : Ok "rectangle" (run env b_Rectangle_create_rectangle_node.body) := by
  rw [tie_rectangle_kids]; exact ord_order_rectangle _ _ _

theorem T03_code_order_circle (env : Env) : Ok "circle" (run env b_Circle_create_circle_node.body) := by
  rw [tie_circle_kids]; exact ord_order_circle _ _

theorem T03_code_order_polygon (env : Env) (h : 3 ≤ (env.val "_.vertices").count) :
    Ok "polygon" (run env b_Polygon_create_polygon_node.body) := by
  rw [tie_polygon_kids]; exact ord_order_polygon _ h

theorem T03_code_order_bounds (env : Env) (hl : 2 ≤ (env.val "_.left_vertices").count) (hr : 2 ≤ (env.val "_.right_vertices").count) :
    Ok "bound" (run env b_Lanelet_create_node_leftBound.body) ∧ Ok "bound" (run env b_Lanelet_create_node_rightBound.body) := by
  rw [tie_leftBound_kids, tie_rightBound_kids]; exact ⟨ord_order_bound _ _ hl, ord_order_bound _ _ hr⟩

/-- for EVERY lanelet: any number of predecessors … traffic lights, any combination of optional parts, an empty type set -/
theorem T03_code_order_lanelet (env : Env) : Ok "lanelet" (run env b_Lanelet_create_node.body) := by
  rw [tie_lanelet_kids]; exact ord_order_lanelet _

theorem T03_code_order_stopLine (env : Env) (hm : (env.val "_.line_marking").truthy = true) :
    Ok "stopLine" (run env b_LaneletStopLine_create_node.body) := by
  rw [tie_stopLine_kids, hm]; exact ord_order_stopLine _ _ _

theorem T03_code_order_trafficSign (env : Env) (h : 1 ≤ (env.val "_.traffic_sign_elements").count) :
    Ok "trafficSign" (run env b_TrafficSign_create_node.body) := by
  rw [tie_trafficSign_kids]; exact ord_order_trafficSign _ _ _ h

theorem T03_code_order_trafficSignElement (env : Env) :
    Ok "trafficSign/trafficSignElement" (run env b_TrafficSign_create_node_trafficSignElement.body) := by
  rw [tie_trafficSignElement_kids]; exact ord_order_trafficSignElement _

theorem T03_code_order_trafficLight (env : Env) (hc : (env.val "_.traffic_light_cycle").notNone = true) :
    Ok "trafficLight" (run env b_TrafficLight_create_node.body) := by
  rw [tie_trafficLight_kids, hc]; exact ord_order_trafficLight _ _ _

theorem T03_code_order_cycle (env : Env) (h : 1 ≤ (env.val "_.cycle_elements").count) :
    Ok "trafficLightCycle" (run env b_TrafficLightCycle_create_node.body) := by
  rw [tie_cycle_kids]; exact ord_order_cycle _ _ h

theorem T03_code_order_cycleElement (env : Env) : Ok "trafficCycleElement" (run env b_TrafficLightCycleElement_create_node.body) := by
  rw [tie_cycleElement_kids]; exact ord_order_cycleElement

theorem T03_code_order_incoming (env : Env) (h : 1 ≤ (env.val "it1.incoming_lanelets").count) :
    Ok "incoming" (run env b_Intersection_create_node_incoming.body) := by
  rw [tie_incoming_kids]; exact ord_order_incoming _ _ _ _ _ h

theorem T03_code_order_intersection (env : Env) (h : 1 ≤ (env.val "_.incomings").count) :
    Ok "intersection" (run env b_Intersection_create_node.body) := by
  rw [tie_intersection_kids]; exact ord_order_intersection _ _ h

theorem T03_code_order_crossing (env : Env) (h : 1 ≤ (env.val "_.crossings").count) :
    Ok "crossing" (run env b_Intersection_create_node_crossing.body) := by
  rw [tie_crossing_kids]; exact ord_order_crossing _ h

theorem T03_code_order_location (env : Env) : Ok "location" (run env b_Location_create_node.body) := by
  rw [tie_location_kids]; exact ord_order_location _ _

theorem T03_code_order_geoTransformation (env : Env) :
    Ok "geoTransformation" (run env b_GeoTransformation_create_node.body) ∧
    Ok "additionalTransformation" (run env b_GeoTransformation_create_node_additionalTransformation.body) := by
  rw [tie_geoTransformation_kids, tie_additionalTransformation_kids]
  exact ⟨ord_order_geoTransformation, ord_order_additionalTransformation⟩

theorem T03_code_order_environment (env : Env) (h0 : env.atom 0 = true) (h1 : env.atom 1 = true) (h2 : env.atom 2 = true) :
    Ok "environment" (run env b_Environment_create_node.body) := by
  rw [tie_environment_kids, h0, h1, h2]; exact ord_order_environment

theorem T03_code_order_staticObstacle (env : Env) (h : HeaderOf env) :
    Ok "staticObstacle" (run env b_StaticObstacle_create_node.body) := by
  rw [tie_staticObstacle_kids env h]; exact ord_order_staticObstacle

theorem T03_code_order_environmentObstacle (env : Env) (h : HeaderOf env) :
    Ok "environmentObstacle" (run env b_EnvironmentObstacle_create_node.body) := by
  rw [tie_environmentObstacle_kids env h]; exact ord_order_environmentObstacle

/-- a dynamic obstacle with a prediction (set-based or trajectory), with or without signal states -/
theorem T03_code_order_dynamicObstacle (env : Env) (h : HeaderOf env) (hp : env.atom 0 = true ∨ env.atom 1 = true) :
    Ok "dynamicObstacle" (run env b_DynamicObstacle_create_node.body) := by
  rw [tie_dynamicObstacle_kids env h]
  refine ord_order_dynamicObstacle _ _ _ ?_
  unfold predOf
  rcases hp with hp | hp <;> cases h0 : env.atom 0 <;> simp_all

theorem T03_code_order_phantomObstacle (env : Env) (h : HeaderOf env) (hs : env.atom 0 = true) :
    Ok "phantomObstacle" (run env b_PhantomObstacle_create_node.body) := by
  rw [tie_phantomObstacle_kids env h, hs]; exact ord_order_phantomObstacle

theorem T03_code_order_occupancy (env : Env) : Ok "occupancy" (run env b_Occupancy_create_node.body) := by
  rw [tie_occupancy_kids]; exact ord_order_occupancy

theorem T03_code_order_predictions (env : Env) (hs : 1 ≤ (env.val "_.state_list").count) (hl : 1 ≤ (env.val "_").count) :
    Ok "dynamicObstacle/trajectory" (run env b_DynamicObstacle_create_trajectory_node.body) ∧
    Ok "dynamicObstacle/occupancySet" (run env b_DynamicObstacle_create_occupancy_node.body) ∧
    Ok "dynamicObstacle/signalSeries" (run env b_DynamicObstacle_create_signal_series_node.body) := by
  rw [tie_trajectory_kids, tie_occupancySet_kids, tie_signalSeries_kids]
  exact ⟨ord_order_trajectory _ hs, (ord_order_occupancySet _ hl).1, ord_order_signalSeries _ hl⟩

theorem T03_code_order_planningProblem (env : Env) (h : 1 ≤ (env.val "_.goal.state_list").count) :
    Ok "planningProblem" (run env b_PlanningProblem_create_node.body) := by
  rw [tie_planningProblem_kids]; exact ord_order_planningProblem _ h

/-- the root without obstacles: location, tags, ≥ 1 lanelet, signs, lights, intersections, then ≥ 1 planning problem -/
theorem T03_code_order_root (env : Env) (hw : (env.val "filename").truthy = true)
    (hh : env.spliced "XMLFileWriter._write_header" = run env b_XMLFileWriter_write_header.body)
    (ho : env.spliced "XMLFileWriter._add_all_objects_from_scenario" = run env b_XMLFileWriter_add_all_objects_from_scenario.body)
    (hp : env.spliced "XMLFileWriter._add_all_planning_problems_from_planning_problem_set" =
          run env b_XMLFileWriter_add_all_planning_problems_from_planning_problem_set.body)
    (h0 : (env.val "_.scenario.obstacles").count = 0)
    (hl : 1 ≤ (env.val "_.scenario.lanelet_network.lanelets").count)
    (hq : 1 ≤ (env.val "_.planning_problem_set.planning_problem_dict.values()").count) :
    Ok "/commonRoad" (run env b_XMLFileWriter_write_to_file.body) := by
  rw [tie_write_to_file env hw, hh, ho, hp, tie_header_no_kids, tie_root_objects_kids, tie_root_problems_kids, h0]
  have := ord_order_root
    { nLanelets := (env.val "_.scenario.lanelet_network.lanelets").count,
      nSigns := (env.val "_.scenario.lanelet_network.traffic_signs").count,
      nLights := (env.val "_.scenario.lanelet_network.traffic_lights").count,
      nIntersections := (env.val "_.scenario.lanelet_network.intersections").count,
      nStatic := 0, nDynamic := 0, nPhantom := 0, nEnvironment := 0,
      nProblems := (env.val "_.planning_problem_set.planning_problem_dict.values()").count } hl hq
  simpa [rootKids, CR.XmlW.rep] using this

end CR.T03

/-! ## D. StateXMLNode._map_to_xml_prop -/
namespace CR.T03
open CR.XmlW

/-- the translated `_map_to_xml_prop` (four special names, else `re.sub(r"_(\w)", upper)`) is the hand table `XmlW.xmlProp`
    on `position`, `time_step`, every attribute the state classes can carry (`stateAttrs`, 33) and the three of KSTState /
    STDState that have no element in the schema — a finite table, checked completely -/
theorem tie_map_to_xml_prop :
    ∀ a ∈ "position" :: "time_step" :: "hitch_angle" :: "front_wheel_angular_speed" :: "rear_wheel_angular_speed" :: CR.C03.stateAttrs,
      Gen.SrcC03.mapToXmlProp a = xmlProp a := by decide +kernel

/-- goal states use the bare camel-case substitution; on the attributes a goal state may carry it agrees with `xmlProp` -/
theorem tie_goal_camel : ∀ a ∈ CR.C03.goalAttrs, CR.SrcW.camel a = xmlProp a := by decide +kernel

theorem T03_state_tags :
    Gen.SrcC03.b_State_create_state_node_mapToXmlProp_it1.tag = "?mapToXmlProp(it1)" ∧
    Gen.SrcC03.b_State_create_goal_state_node_camel_it1.tag = "?camel(it1)" := by decide +kernel

end CR.T03
