/-
  C12 — equality and hashing of scenario elements follow their contract.

  Model: CRModel/EqHash.lean (`Cls` — the finite list of class families, `Val`, `Kind`, `rel`, one row per class:
  attribute, kind used by `__eq__`, kind used by `__hash__`; the constructor signatures `ctors`; `eqv` = `x == y`,
  `hashEqv` = "the tuples hashed by `__hash__` agree") and CRModel/HashKey.lean (`PyVal` with Python container types,
  the builders `HB` of the hashed tuple, `hok` = "building and hashing completes", the admitted attribute types `Ty`).
  Lemmas: CRProofs/EqHash.lean, CRProofs/EqHashSpec.lean, CRProofs/HashKey.lean.

  "For every class" means: for every constructor of the inductive type `Cls` (38 families); a class name outside that
  list cannot be written down in the model (the driver rejects it).  The theorems hold for ALL values (any nesting depth,
  any list / set, every rational).  The generic ones hold for ANY tables meeting the stated side conditions, the `C12_…`
  specialisations for the tables of commonroad-io, whose side conditions are decided row by row.
  The model is tied to the code by the correspondence of harness/c12.py: every generated pair (`x == y` vs `eqv`,
  `hash(x) == hash(y)` vs `hashEqv`), every generated instance and every ill-typed probe (`hash(x)` raises vs
  `hashCompletes`, well-typedness), the rows vs the observed truth table, `ctors` vs `inspect.signature`.
-/
import CRProofs.EqHashSpec
import CRProofs.HashKey

namespace CR.EqHash

/-! ### the tables of commonroad-io: rows and constructor signatures (decided, class by class) -/

/-- Every row of every class family: each `__eq__` kind is a kind of the eq language and not `skip`, each `__hash__`
    kind is coarser than the `__eq__` kind of the same attribute (not hashed | same | frozenset-of-list vs list |
    None-as-empty-set), a value-set hash only where `__eq__` is attribute-wise `==`. -/
theorem C12_tables_ok (c : Cls) : rowOk (row c) = true := rows_ok c

/-- No attribute position of any class is invisible to `__eq__`: the kind of attribute `i` of class `c` is never `skip`
    (listed attributes and, for the dynamic State family, every further value). -/
theorem C12_attr_kind_not_skip (c : Cls) (i : Nat) : eqT.attr c i ≠ .skip := (kinds_ok c i).2.1

/-- ctorParams ⊆ eqAttrs, for rows AND signatures: every parameter of every public constructor in `ctors` (the list the
    harness compares with `inspect.signature` of the working tree on every run) is stored in an attribute that `__eq__`
    of its class family reads with a kind other than `skip`. -/
theorem C12_ctor_params_compared :
    ∀ cr ∈ ctors, ∀ pa ∈ cr.params, ∃ k, eqKindOfAttr cr.family pa.2 = some k ∧ k ≠ .skip := by
  intro cr hcr pa hpa
  have h := List.all_eq_true.mp ctors_ok cr hcr
  have h2 := List.all_eq_true.mp h pa hpa
  cases hk : eqKindOfAttr cr.family pa.2 with
  | none => simp [hk] at h2
  | some k => exact ⟨k, rfl, by simpa [hk] using h2⟩

/-- the same for the attributes of LaneletNetwork and Scenario that are filled through `add_*` instead of the constructor -/
theorem C12_content_attrs_compared (c : Cls) :
    ∀ a ∈ contentAttrs c, ∃ k, eqKindOfAttr c a = some k ∧ k ≠ .skip := by
  intro a ha
  have h2 := List.all_eq_true.mp (content_ok c) a ha
  cases hk : eqKindOfAttr c a with
  | none => simp [hk] at h2
  | some k => exact ⟨k, rfl, by simpa [hk] using h2⟩

/-- why `skip` must not occur: under `skip` any two values are "the same", so a difference can never be seen
    (definitional: documents the model, carries no proof content) -/
theorem C12_unread_attribute_invisible (T : Table) (v w : Val) : Same T .skip v w := .skip

/-! ### what `==` decides: exactly `Same` -/

/-- generic: for every eq table, every kind of the eq language and all values, `rel` is true exactly on the pairs that
    are the `Same` (identical leaves, reals in one 10-decimal bucket where rounded, None/empty where documented, lists
    element-wise, id sets as sets, objects of one class attribute-wise).  `Same` is inductive and does not mention `rel`. -/
theorem C12_rel_iff_same (T : Table) (hT : T.RegE) (k : Kind) (hk : k.regE = true) (v w : Val) :
    rel T v k w = true ↔ Same T k v w := rel_iff_same T hT k hk v w

theorem C12_eqv_iff_same (x y : Val) : eqv x y = true ↔ Same eqT .eq x y := rel_iff_same eqT eqT_regE .eq rfl x y

/-! ### x == x (hence x == deepcopy(x)), symmetry -/

theorem C12_refl_generic (T : Table) (hT : T.Reg) (x : Val) : rel T x .eq x = true := rel_refl T hT x .eq rfl

/-- `x == x`.  `copy.deepcopy(x)` has the same attribute values, i.e. is the same `Val`; `x == deepcopy(x)` is this
    theorem plus that assumption about `deepcopy` (listed in ASSUMPTIONS and exercised on every generated instance). -/
theorem C12_eq_refl (x : Val) : eqv x x = true := rel_refl eqT eqT_reg x .eq rfl

theorem C12_symm_generic (T : Table) (hT : T.RegE) (x y : Val) : rel T x .eq y = rel T y .eq x :=
  rel_symm T hT x y .eq rfl

theorem C12_eq_symm (x y : Val) : eqv x y = eqv y x := rel_symm eqT eqT_regE x y .eq rfl

/-! ### equal objects have equal hashes -/

/-- generic: for ANY eq table `E` and hash table `H` that is point-wise coarser, `==` implies agreement of the hashed values -/
theorem C12_eq_hash_generic (E H : Table) (hc : Coarser E H) (x y : Val) (h : rel E x .eq y = true) :
    rel H x .eq y = true := rel_mono E H hc x y .eq rfl h

theorem C12_eq_hash (x y : Val) (h : eqv x y = true) : hashEqv x y = true :=
  rel_mono eqT hashT eq_hash_coarser x y .eq rfl h

/-- Python's `hash` is some function of the hashed tuple: whatever that function is, equal objects get equal hashes. -/
theorem C12_eq_hash_fn {α : Type} (pyhash : Val → α) (hfac : ∀ x y, hashEqv x y = true → pyhash x = pyhash y)
    (x y : Val) (h : eqv x y = true) : pyhash x = pyhash y := hfac x y (C12_eq_hash x y h)

/-! ### id sets: insertion order and multiplicity are irrelevant — any number of sets, at any depth -/

/-- generic: two chains with the same members agree under every set kind -/
theorem C12_set_same_members (T : Table) (hT : T.Reg) (k : Kind) (hk : k.reg = true) (xs ys : List Val)
    (h1 : ∀ x ∈ xs, x ∈ ys) (h2 : ∀ y ∈ ys, y ∈ xs) : rel T (ofList xs) (.setOf k) (ofList ys) = true :=
  rel_setOf_same_members T hT k hk xs ys h1 h2

/-- generic congruence: if `w` is `v` with the members of set-read chains reordered or repeated — in any number of
    attributes at once and at any nesting depth (sets of objects that contain sets …), everything else identical
    (`SetPerm`) — then `v` and `w` agree under every eq table -/
theorem C12_setperm_generic (T : Table) (hT : T.RegE) (k : Kind) (hk : k.regE = true) (v w : Val)
    (h : SetPerm T k v w) : rel T v k w = true := rel_of_setPerm T hT h hk

/-- … so such objects are equal and hash alike -/
theorem C12_set_order_irrelevant (x y : Val) (h : SetPerm eqT .eq x y) : eqv x y = true ∧ hashEqv x y = true :=
  have he := rel_of_setPerm eqT eqT_regE h rfl
  ⟨he, C12_eq_hash x y he⟩

/-! ### a difference in one constructor attribute is detected -/

/-- `round(x, 10)` / `np.around(x, 10)` cannot merge two reals that are more than 10⁻¹⁰ apart … -/
theorem C12_round10_far (a b : Rat) (h : 1 / 10000000000 < a - b ∨ 1 / 10000000000 < b - a) :
    round10 a ≠ round10 b := round10_far a b h

/-- … and never merges more: numbers in one bucket are at most 10⁻¹⁰ apart. -/
theorem C12_round10_near (a b : Rat) (h : round10 a = round10 b) :
    a - b ≤ 1 / 10000000000 ∧ b - a ≤ 1 / 10000000000 := round10_near a b h

/-- Two objects of class `c` that agree in every attribute except attribute number `pre.length` are equal **iff** the two
    values of that attribute are the `Same` under the kind by which `__eq__` of `c` reads it (which is never `skip`:
    `C12_attr_kind_not_skip`; which constructor parameter sits there: `C12_ctor_params_compared`). -/
theorem C12_single_attribute_iff (c : Cls) (pre post : List Val) (v v' : Val) :
    eqv (.obj c (ofList (pre ++ v :: post))) (.obj c (ofList (pre ++ v' :: post))) = true
      ↔ Same eqT (eqT.attr c pre.length) v v' := by
  have h : eqv (.obj c (ofList (pre ++ v :: post))) (.obj c (ofList (pre ++ v' :: post)))
      = rel eqT v (eqT.attr c pre.length) v' := by
    simp only [eqv, rel, beq_self_eq_true, Bool.true_and]
    show rel eqT _ (.fields c 0) _ = _
    rw [rel_fields_at eqT eqT_reg, Nat.zero_add]
  rw [h]
  exact rel_iff_same eqT eqT_regE _ (eqT_regE.attr c _) v v'

/-- … hence: values that are not the `Same` make the objects unequal, in both directions. -/
theorem C12_perturb_detected (c : Cls) (pre post : List Val) (v v' : Val)
    (hd : ¬ Same eqT (eqT.attr c pre.length) v v') :
    eqv (.obj c (ofList (pre ++ v :: post))) (.obj c (ofList (pre ++ v' :: post))) = false
      ∧ eqv (.obj c (ofList (pre ++ v' :: post))) (.obj c (ofList (pre ++ v :: post))) = false := by
  have h : eqv (.obj c (ofList (pre ++ v :: post))) (.obj c (ofList (pre ++ v' :: post))) = false := by
    cases he : eqv (.obj c (ofList (pre ++ v :: post))) (.obj c (ofList (pre ++ v' :: post))) with
    | false => rfl
    | true => exact absurd ((C12_single_attribute_iff c pre post v v').mp he) hd
  exact ⟨h, by rw [C12_eq_symm]; exact h⟩

/-- The catalogue of differences `Differs` (leaves that differ, reals in different buckets — in particular more than
    10⁻¹⁰ apart —, a list position, a set member without partner, another class, an attribute of a nested object):
    each of them contradicts `Same` and makes `rel` false. -/
theorem C12_differs_detected (T : Table) (hT : T.RegE) (k : Kind) (v w : Val) (h : Differs T k v w) :
    rel T v k w = false ∧ ¬ Same T k v w := ⟨differs_sound T hT h, not_same_of_differs T hT h⟩

/-- `Differs` is exact: `rel` is false exactly on the `Differs` pairs … -/
theorem C12_rel_false_iff_differs (T : Table) (hT : T.RegE) (k : Kind) (hk : k.regE = true) (v w : Val) :
    rel T v k w = false ↔ Differs T k v w := rel_false_iff_differs T hT k hk v w

/-- … i.e. `Differs` (the hand-written catalogue of differences) is precisely the negation of `Same` (the independent
    reading of "identical attribute values"): nothing that differs is missed by the catalogue, nothing in it is the same. -/
theorem C12_differs_iff_not_same (T : Table) (hT : T.RegE) (k : Kind) (hk : k.regE = true) (v w : Val) :
    Differs T k v w ↔ ¬ Same T k v w := differs_iff_not_same T hT k hk v w

/-- reals more than 10⁻¹⁰ apart are never the same where an attribute is rounded -/
theorem C12_real_far_not_same (T : Table) (a b : Rat)
    (h : 1 / 10000000000 < a - b ∨ 1 / 10000000000 < b - a) : ¬ Same T .r10 (.num a) (.num b) := by
  intro hs
  cases hs with
  | leaf _ _ => rcases h with h | h <;> simp at h <;> exact absurd h (by decide)
  | bucket hb => exact round10_far a b h hb

/-- … and under an exactly compared attribute any two different numbers are not the same -/
theorem C12_num_ne_not_same (T : Table) (a b : Rat) (h : a ≠ b) : ¬ Same T .eq (.num a) (.num b) := by
  intro hs
  cases hs with
  | leaf _ _ => exact h rfl

/-! ### `hash()` does not raise -/

/-- the builder of every attribute of every class family is compatible with the admitted type of that attribute
    (decided row by row): on every outermost form the type admits the builder does not raise, recursively -/
theorem C12_hash_tables_ok (c : Cls) : hrowOk (hrow c) = true := hrows_ok c

/-- generic: for ANY builder table `H` and type table `A` that are compatible attribute by attribute, building and
    hashing the component of a well-typed Python value completes -/
theorem C12_hash_total_generic (H : Cls → Nat → HB) (A : Cls → Nat → Ty) (ar : Cls → Option Nat)
    (hc : ∀ c i, ∃ n, compat n (H c i) (A c i) = true) (v : PyVal) (n : Nat) (b : HB) (τ : Ty)
    (hb : compat n b τ = true) (ht : hasTy A ar v (.val τ) = true) : hok H v (.val b) = true :=
  (hok_of_typed H A ar hc v).1 n b τ hb ht

/-- For every class family and every well-typed instance (attribute values of the admitted types, the `None` defaults of
    the public constructors included, nested objects well-typed in turn): `hash(x)` completes — no `tuple(None)`,
    no `None.items()`, no unhashable list / set / dict / dict_items / ndarray inside the hashed tuple. -/
theorem C12_hash_total (c : Cls) (x : PyVal) (h : wellTyped c x = true) : hashCompletes x = true := hash_total c x h

/-! ### non-vacuity and witnesses -/

example : Coarser eqT hashT := eq_hash_coarser
example : eqT.RegE ∧ eqT.Reg ∧ hashT.Reg := ⟨eqT_regE, eqT_reg, hashT_reg⟩

/-- a Circle(radius r, center (x, y)) -/
def circle (r x y : Rat) : Val := .obj .Circle (ofList [.num r, ofList [.num x, .num y]])

/-- the radius is compared exactly -/
example : eqv (circle 1 1000 (1 / 2)) (circle 2 1000 (1 / 2)) = false :=
  (C12_perturb_detected .Circle [] [ofList [.num 1000, .num (1 / 2)]] (.num 1) (.num 2)
    (C12_num_ne_not_same eqT 1 2 (by decide))).1

/-- the center is rounded: 2·10⁻¹⁰ apart in the first coordinate is not the same, hence detected -/
example : eqv (circle 1 1000 (1 / 2)) (circle 1 (1000 + 2 / 10000000000) (1 / 2)) = false :=
  (C12_perturb_detected .Circle [.num 1] [] (ofList [.num 1000, .num (1 / 2)])
    (ofList [.num (1000 + 2 / 10000000000), .num (1 / 2)])
    (not_same_of_differs eqT eqT_regE (.head (K := .r10) rfl (Differs.real_far eqT (Or.inr (by norm_num)))))).1

/-- … while 2·10⁻¹¹ stays in the bucket, and is the `Same` -/
example : Same eqT .r10 (.num 1000) (.num (1000 + 2 / 100000000000)) := by
  refine .bucket ?_
  have h1 : round10 1000 = 10000000000000 := by
    unfold round10
    apply Int.le_antisymm
    · exact Int.lt_add_one_iff.mp (Rat.floor_lt_iff.mpr (by norm_num))
    · exact Rat.le_floor_iff.mpr (by norm_num)
  have h2 : round10 (1000 + 2 / 100000000000) = 10000000000000 := by
    unfold round10
    apply Int.le_antisymm
    · exact Int.lt_add_one_iff.mp (Rat.floor_lt_iff.mpr (by norm_num))
    · exact Rat.le_floor_iff.mpr (by norm_num)
  rw [h1, h2]

/-- an IntersectionIncomingElement and an Intersection -/
def incoming (i : Rat) (lanelets : List Val) : Val :=
  .obj .IntersectionIncomingElement (ofList [.num i, ofList lanelets, .nil, .nil, .nil, .none])
def intersection (i : Rat) (incs crossings : List Val) : Val :=
  .obj .Intersection (ofList [.num i, ofList incs, ofList crossings])

/-- `SetPerm` with several sets at two depths: the incoming elements listed in another order, the lanelet id set INSIDE
    one of them in another order ({0, 8} vs {8, 0}), and the crossings in another order -/
example : SetPerm eqT .eq
    (intersection 5 [incoming 1 [.num 0, .num 8], incoming 2 [.num 3]] [.num 2, .num 4])
    (intersection 5 [incoming 2 [.num 3], incoming 1 [.num 8, .num 0]] [.num 4, .num 2]) := by
  have hinc : SetPerm eqT .eq (incoming 1 [.num 0, .num 8]) (incoming 1 [.num 8, .num 0]) :=
    .obj (SetPerm.fields_cons eqT .refl
      (SetPerm.fields_cons eqT (SetPerm.perm eqT (K := .setOf .eq) rfl (List.Perm.swap _ _ _)) .refl))
  refine .obj (SetPerm.fields_cons eqT .refl (SetPerm.fields_cons eqT ?_ (SetPerm.fields_cons eqT ?_ .refl)))
  · refine SetPerm.of_exists eqT (K := .setOf .eq) rfl ?_ ?_
    · intro x hx
      simp only [List.mem_cons, List.not_mem_nil, or_false] at hx
      rcases hx with rfl | rfl
      · exact ⟨_, by simp, hinc⟩
      · exact ⟨_, by simp, .refl⟩
    · intro y hy
      simp only [List.mem_cons, List.not_mem_nil, or_false] at hy
      rcases hy with rfl | rfl
      · exact ⟨_, by simp, .refl⟩
      · exact ⟨_, by simp, hinc⟩
  · exact SetPerm.perm eqT (K := .setOf .eq) rfl (List.Perm.swap _ _ _)

/-- a TrafficLightCycleElement(state, duration) and a cycle -/
def cycElem (s : String) (d : Rat) : Val := .obj .TrafficLightCycleElement (ofList [.str s, .num d])
def cycle (es : List Val) : Val := .obj .TrafficLightCycle (ofList [ofList es, .num 0, .num 1])

/-- unequal objects may share a hash (list `==` is hashed as a frozenset): the converse of `C12_eq_hash` is not claimed -/
example : eqv (cycle [cycElem "red" 3, cycElem "green" 5]) (cycle [cycElem "green" 5, cycElem "red" 3]) = false
          ∧ hashEqv (cycle [cycElem "red" 3, cycElem "green" 5]) (cycle [cycElem "green" 5, cycElem "red" 3]) = true := by
  decide

/-- the defect repaired in `State.__eq__`, seen through the side condition: an eq table that skips an attribute which
    the hash table reads (rounded position) is NOT coarser — `Coarser` is exactly what failed before the repair. -/
example : coarser (.r10) (.skip) = false := by decide

/-- an Area(area_id, border, area_types) as the getters return it -/
def areaPy (border types : PyVal) : PyVal := .obj .Area (.cons (.num 1) (.cons border (.cons types .nil)))

/-- `Area(1)` — border and area_types left to their `None` defaults — is well-typed, so its hash completes -/
example : wellTyped .Area (areaPy .none .none) = true := by decide
example : hashCompletes (areaPy .none .none) = true := C12_hash_total .Area _ (by decide)

/-- the defects found in the unchanged tree, expressed in the model: `tuple(None)` raises, a list inside the hashed
    tuple is unhashable, `dict_items` is unhashable — and the builders the unchanged tree used are NOT compatible with
    the admitted types (Area.border: `tuple(self._border)`; AreaBorder.adjacent / Scenario obstacle lists: the list
    itself; PlanningProblemSet: `dict.items()` itself) -/
example : hok hashB .none (.val (.iter .raw)) = false := by decide
example : hok hashB (.ctr .list (.cons (.num 5) .nil)) (.val .raw) = false := by decide
example : compat compatFuel (.iter .raw) (T.O (T.L (T.C [.AreaBorder]))) = false := by decide
example : compat compatFuel .raw (T.O (T.L T.A)) = false := by decide
example : compat compatFuel .raw (T.D (T.C [.PlanningProblem])) = false := by decide

end CR.EqHash
