/-
  C12 — equality and hashing of scenario elements follow their contract.

  Model: CRModel/EqHash.lean (`Val`, `Kind`, `rel`, the class tables `classes`, `eqv` = `x == y`, `hashEqv` = "the
  tuples hashed by `__hash__` agree").  Lemmas: CRProofs/EqHash.lean.  The model is tied to the code by the
  correspondence of harness/c12.py (every generated pair: `x == y` vs `eqv`, `hash(x) == hash(y)` vs `hashEqv`).

  All theorems hold for ALL values (arbitrary nesting depth, arbitrary lists/sets, every rational number); the
  generic ones hold for ANY pair of tables satisfying the stated side conditions, the `C12_…` specialisations for the
  tables of commonroad-io, whose side conditions are decided row by row (`C12_tables_ok`).
-/
import CRProofs.EqHash

namespace CR.EqHash

/-! ### the tables of commonroad-io satisfy the side conditions (decided) -/

/-- Every row of every class: the `__eq__` kind is not `skip` (eqAttrs = ctorAttrs), the `__hash__` kind is coarser
    than the `__eq__` kind of the same attribute (hashAttrs ⊆ eqAttrs, frozenset-of-list vs list, None-as-empty-set),
    a value-set hash only where `__eq__` is attribute-wise `==`. -/
theorem C12_tables_ok : classes.all rowOk = true := classes_ok

/-- eqAttrs = ctorAttrs: `__eq__` reads every listed constructor attribute of every class. -/
theorem C12_eq_reads_every_attribute :
    ∀ row ∈ classes, ∀ ar ∈ row.attrs, ar.eqK ≠ .skip := by
  intro row hrow ar har
  have h := List.all_eq_true.mp classes_ok row hrow
  simp only [rowOk, Bool.and_eq_true, List.all_eq_true] at h
  have := (h.1.1.1.1 ar har).1.1.2
  simpa using this

/-- an attribute that is not read can never be detected: `skip` admits no difference -/
theorem C12_skip_detects_nothing (T : Table) (v w : Val) : ¬ Differs T .skip v w := not_differs_skip T v w

/-! ### x == x, x == deepcopy(x), symmetry -/

/-- generic: reflexivity for every regular table -/
theorem C12_refl_generic (T : Table) (hT : T.Reg) (x : Val) : rel T x .eq x = true := rel_refl T hT x .eq rfl

theorem C12_eq_refl (x : Val) : eqv x x = true := rel_refl eqT eqT_reg x .eq rfl

/-- `copy.deepcopy` reproduces every attribute value: the copy is the same `Val`. -/
theorem C12_eq_copy (x y : Val) (h : y = x) : eqv x y = true ∧ eqv y x = true := by
  subst h; exact ⟨C12_eq_refl y, C12_eq_refl y⟩

/-- generic: symmetry for every eq table -/
theorem C12_symm_generic (T : Table) (hT : T.RegE) (x y : Val) : rel T x .eq y = rel T y .eq x :=
  rel_symm T hT x y .eq rfl

theorem C12_eq_symm (x y : Val) : eqv x y = eqv y x := rel_symm eqT eqT_regE x y .eq rfl

/-! ### equal objects have equal hashes -/

/-- generic: for ANY eq table `E` and hash table `H` that is point-wise coarser, `==` implies agreement of the hashed values -/
theorem C12_eq_hash_generic (E H : Table) (hc : Coarser E H) (x y : Val) (h : rel E x .eq y = true) :
    rel H x .eq y = true := rel_mono E H hc x y .eq rfl h

theorem C12_eq_hash (x y : Val) (h : eqv x y = true) : hashEqv x y = true :=
  rel_mono eqT hashT eq_hash_coarser x y .eq rfl h

/-- Python's `hash` is some function of the hashed tuple: whatever that function is, equal objects get equal hashes. -/
theorem C12_eq_hash_fn {α : Type} (pyhash : Val → α) (hfac : ∀ x y, hashEqv x y = true → pyhash x = pyhash y)
    (x y : Val) (h : eqv x y = true) : pyhash x = pyhash y := hfac x y (C12_eq_hash x y h)

/-- the hashed values of an object agree with themselves (the hash relation is reflexive, also for the value-set hash) -/
theorem C12_hash_refl (x : Val) : hashEqv x x = true := rel_refl hashT hashT_reg x .eq rfl

/-! ### id sets: insertion order (and multiplicity) is irrelevant -/

/-- generic: two chains with the same members agree under every set kind -/
theorem C12_set_same_members (T : Table) (hT : T.Reg) (k : Kind) (hk : k.reg = true) (xs ys : List Val)
    (h1 : ∀ x ∈ xs, x ∈ ys) (h2 : ∀ y ∈ ys, y ∈ xs) : rel T (ofList xs) (.setOf k) (ofList ys) = true :=
  rel_setOf_same_members T hT k hk xs ys h1 h2

/-- Two objects of a class that agree in every attribute except that one set attribute (kind `setOf k`, or the
    None-as-empty `setNE`) lists the same members in another order are equal, and their hashes agree. -/
theorem C12_set_order_irrelevant (c : String) (pre post xs ys : List Val) (hperm : xs.Perm ys)
    (hkind : (∃ k, eqT.attr c pre.length = .setOf k) ∨ eqT.attr c pre.length = .setNE) :
    eqv (.obj c (ofList (pre ++ ofList xs :: post))) (.obj c (ofList (pre ++ ofList ys :: post))) = true
      ∧ hashEqv (.obj c (ofList (pre ++ ofList xs :: post))) (.obj c (ofList (pre ++ ofList ys :: post))) = true := by
  have h1 : ∀ x ∈ xs, x ∈ ys := fun x hx => hperm.mem_iff.mp hx
  have h2 : ∀ y ∈ ys, y ∈ xs := fun y hy => hperm.mem_iff.mpr hy
  have he : eqv (.obj c (ofList (pre ++ ofList xs :: post))) (.obj c (ofList (pre ++ ofList ys :: post))) = true := by
    simp only [eqv, rel, beq_self_eq_true, Bool.true_and]
    show rel eqT _ (.fields c 0) _ = true
    rw [rel_fields_at eqT eqT_reg, Nat.zero_add]
    rcases hkind with ⟨k, hk⟩ | hk
    · rw [hk]
      have hreg : k.reg = true := by
        have := eqT_reg.attr c pre.length
        rw [hk] at this
        simpa [Kind.reg] using this
      exact rel_setOf_same_members eqT eqT_reg k hreg xs ys h1 h2
    · rw [hk]; exact rel_setNE_same_members eqT eqT_reg xs ys h1 h2
  exact ⟨he, C12_eq_hash _ _ he⟩

/-! ### a difference in one constructor attribute is detected -/

/-- generic: every difference (in the sense of `Differs`: leaves that differ, reals more than 10⁻¹⁰ apart, a list
    position, a set member without partner, another class, an attribute of a nested object …) makes `rel` false -/
theorem C12_differs_detected (T : Table) (hT : T.RegE) (k : Kind) (v w : Val) (h : Differs T k v w) :
    rel T v k w = false := differs_sound T hT h

/-- `round(x, 10)` / `np.around(x, 10)` cannot merge two reals that are more than 10⁻¹⁰ apart … -/
theorem C12_round10_far (a b : Rat) (h : 1 / 10000000000 < a - b ∨ 1 / 10000000000 < b - a) :
    round10 a ≠ round10 b := round10_far a b h

/-- … and never merges more: numbers in one bucket are at most 10⁻¹⁰ apart. -/
theorem C12_round10_near (a b : Rat) (h : round10 a = round10 b) :
    a - b ≤ 1 / 10000000000 ∧ b - a ≤ 1 / 10000000000 := round10_near a b h

/-- Two objects of class `c` that agree in every attribute except attribute number `pre.length`, whose two values
    differ under the kind by which `__eq__` of `c` compares that attribute, are unequal — in both directions. -/
theorem C12_perturb_detected (c : String) (pre post : List Val) (v v' : Val)
    (hd : Differs eqT (eqT.attr c pre.length) v v') :
    eqv (.obj c (ofList (pre ++ v :: post))) (.obj c (ofList (pre ++ v' :: post))) = false
      ∧ eqv (.obj c (ofList (pre ++ v' :: post))) (.obj c (ofList (pre ++ v :: post))) = false := by
  have h : eqv (.obj c (ofList (pre ++ v :: post))) (.obj c (ofList (pre ++ v' :: post))) = false := by
    simp only [eqv, rel, beq_self_eq_true, Bool.true_and]
    show rel eqT _ (.fields c 0) _ = false
    rw [rel_fields_at eqT eqT_reg, Nat.zero_add]
    exact differs_sound eqT eqT_regE hd
  exact ⟨h, by rw [C12_eq_symm]; exact h⟩

/-- For the listed classes the hypothesis of `C12_perturb_detected` is never blocked by the table: the kind of every
    listed attribute is the one the row names, and it is not `skip`. -/
theorem C12_listed_attribute_kind (row : ClassRow) (hrow : findClass row.name = some row) (i : Nat) (ar : AttrRow)
    (hi : row.attrs[i]? = some ar) : eqT.attr row.name i = ar.eqK ∧ ar.eqK ≠ .skip := by
  refine ⟨?_, ?_⟩
  · show (kinds row.name i).1 = ar.eqK
    unfold kinds
    rw [hrow]
    dsimp only
    rw [hi]
  · exact C12_eq_reads_every_attribute row (List.mem_of_find?_eq_some hrow) ar (List.mem_of_getElem? hi)

/-! ### `hash()` does not raise — partial -/

/-- Full statement: Python's `hash(x)` returns for every object `x` built through the public constructors (default
    arguments included).  `pyHash` stands for the interpreter's partial function (`none` = an exception is raised);
    `built` for "is the getter image of an object built through the public constructors". -/
def C12_hash_total_full (pyHash : Val → Option Int) (built : Val → Prop) : Prop :=
  ∀ x, built x → pyHash x ≠ none

/-- Proved part: *if* `hash` returns for two equal objects, the two results are equal (for every interpreter function
    that is a function of the hashed tuple); and the model's hashed value exists for every `Val` (`hashEqv` is a total,
    reflexive relation).  Missing: that CPython's `hash` does not raise on the tuples that the `__hash__` methods build
    (no list / set / dict / None-iteration inside) — a statement about Python's object protocol that the value model
    does not contain; it is decided on every generated instance of every class by the harness (`C12/<Class>/hash-raises`). -/
theorem C12_hash_total_partial (pyHash : Val → Option Int)
    (hfac : ∀ x y, hashEqv x y = true → pyHash x = pyHash y) (x y : Val) (h : eqv x y = true) :
    pyHash x = pyHash y ∧ hashEqv x x = true :=
  ⟨hfac x y (C12_eq_hash x y h), C12_hash_refl x⟩

/-! ### non-vacuity: the hypotheses are satisfiable, the conclusions are not trivial -/

/-- the side conditions hold for the real tables -/
example : Coarser eqT hashT := eq_hash_coarser
example : eqT.RegE ∧ eqT.Reg ∧ hashT.Reg := ⟨eqT_regE, eqT_reg, hashT_reg⟩

/-- a Circle(radius r, center (x, y)) -/
def circle (r x y : Rat) : Val := .obj "Circle" (ofList [.num r, ofList [.num x, .num y]])

/-- the radius is compared exactly: any two different numbers are a `Differs` -/
example : Differs eqT (eqT.attr "Circle" 0) (.num 1) (.num 2) :=
  .leaf (by decide) (by decide) (Or.inl rfl) (by decide) (by decide)

example : eqv (circle 1 1000 (1 / 2)) (circle 2 1000 (1 / 2)) = false :=
  (C12_perturb_detected "Circle" [] [ofList [.num 1000, .num (1 / 2)]] (.num 1) (.num 2)
    (.leaf (by decide) (by decide) (Or.inl rfl) (by decide) (by decide))).1

/-- the center is rounded: 2·10⁻¹⁰ apart is a `Differs` (first coordinate), hence detected -/
example : eqv (circle 1 1000 (1 / 2)) (circle 1 (1000 + 2 / 10000000000) (1 / 2)) = false :=
  (C12_perturb_detected "Circle" [.num 1] [] (ofList [.num 1000, .num (1 / 2)])
    (ofList [.num (1000 + 2 / 10000000000), .num (1 / 2)])
    (.head (K := .r10) rfl (.real (Or.inr (by norm_num))))).1

/-- … while 2·10⁻¹¹ stays in the bucket: without its hypothesis the theorem above is false -/
example : round10 1000 = round10 (1000 + 2 / 100000000000) := by
  have h1 : round10 1000 = 10000000000000 := by
    unfold round10
    apply Int.le_antisymm
    · exact Int.lt_add_one_iff.mp (Rat.floor_lt_iff.mpr (by norm_num))
    · exact Rat.le_floor_iff.mpr (by norm_num)
  have h2 : round10 (1000 + 2 / 100000000000) = 10000000000000 := by
    unfold round10
    apply Int.le_antisymm
    · exact Int.lt_add_one_iff.mp (Rat.floor_lt_iff.mpr (by norm_num))
    · exact Rat.le_floor_iff.mpr (by norm_num)
  rw [h1, h2]

/-- an id set in another insertion order: {0, 8} vs {8, 0} as `initial_shape_lanelet_ids` (attribute 5) of a StaticObstacle -/
example (a b c d e g h : Val) :
    eqv (.obj "StaticObstacle" (ofList ([a, b, c, d, e] ++ ofList [.num 0, .num 8] :: [g, h])))
        (.obj "StaticObstacle" (ofList ([a, b, c, d, e] ++ ofList [.num 8, .num 0] :: [g, h]))) = true :=
  (C12_set_order_irrelevant "StaticObstacle" [a, b, c, d, e] [g, h] [.num 0, .num 8] [.num 8, .num 0]
    (List.Perm.swap _ _ _) (Or.inr rfl)).1

/-- a TrafficLightCycleElement(state, duration) and a cycle -/
def cycElem (s : String) (d : Rat) : Val := .obj "TrafficLightCycleElement" (ofList [.str s, .num d])
def cycle (es : List Val) : Val := .obj "TrafficLightCycle" (ofList [ofList es, .num 0, .num 1])

/-- unequal objects may share a hash (list `==` is hashed as a frozenset): the converse of `C12_eq_hash` is not claimed -/
example : eqv (cycle [cycElem "red" 3, cycElem "green" 5]) (cycle [cycElem "green" 5, cycElem "red" 3]) = false
          ∧ hashEqv (cycle [cycElem "red" 3, cycElem "green" 5]) (cycle [cycElem "green" 5, cycElem "red" 3]) = true := by
  decide

/-- the defect repaired in `State.__eq__`, seen through the side condition: an eq table that skips an attribute which
    the hash table reads (rounded position) is NOT coarser — `Coarser` is exactly what failed before the repair. -/
example : coarser (.r10) (.skip) = false := by decide

end CR.EqHash
