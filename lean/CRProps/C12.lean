import CRModel.EqHash
namespace CR.EqHash
theorem C12_placeholder : eqv .none .none = true := by decide
end CR.EqHash
