/-
  C11 — derived data never goes stale under mutation.
  Model: CRModel/Cache.lean (total mutator table + executable models of the caches that call it); helpers: CRProofs/Cache.lean.

  What is proved, and what is not:
    * the table: over ALL 7 × 29 (cache, mutator) pairs exactly three break "kept ⇒ nothing read is written" (C11_unsound_pairs);
      they are stale on the real code too (known findings) — the full statements `C11_*_full` are REFUTED on concrete witnesses
      (C11_witness_*), the `…_partial` theorems hold for every history that avoids those three pairs;
    * TrafficLightCycle with its real data, incl. in-place edits of its elements: no exclusion (C11_cycle_fresh, C11_cycle_follows_definition);
    * history lists: any history, every update with its own bound, all four lists; the state history moves with the obstacle
      (`translate_rotate` on obstacle / scenario level), each recorded state by the motions since it was replaced (C11_history_general);
    * declared side conditions of the network theorems: no `rtree=False` call (it asks for a stale index), mutators run to
      completion (`translate_rotate` raises half way on 3-D vertices), objects handed in (new prediction / new lanelet) have
      coherent caches of their own.
-/
import CRProofs.Cache
import CRProps.C17
namespace CR.Cache

/-! ## (a) one cached cell, any derive / mutators / actions

  Generic cache algebra.  By itself it says nothing about commonroad-io: `recompute` is DEFINED as "store the value derived
  from the new primary data", `drop` as "empty the slot".  Its content is the exact side condition on `keep` and `update`
  entries; the instances below (cycle, and the token semantics of the table) are what ties it to the code. -/

/-- C11 `coherent_run` (generic; documents the algebra the instances use): along a history all of whose mutators satisfy the
    side condition (`keep` ⇒ `derive` unchanged, `update` ⇒ the patch commutes with `derive`), from an empty or correctly
    filled slot, every query answers `derive primary`. -/
theorem C11_coherent_run {P D M : Type} (S : Spec P D M) (c : Cell P D) (hc : Coherent S c)
    (evs : List (Ev M)) (hs : SoundOn S evs) : Coherent S (S.run c evs) ∧ ∀ x ∈ S.answers c evs, x.1 = S.derive x.2 :=
  ⟨coherent_run S evs hs hc, answers_fresh S evs hs hc⟩

/-- … and the side condition is necessary: every history answers freshly iff every mutator satisfies it. -/
theorem C11_fresh_iff_sound {P D M : Type} (S : Spec P D M) :
    (∀ (p : P) (evs : List (Ev M)), ∀ x ∈ S.answers ⟨p, none⟩ evs, x.1 = S.derive x.2) ↔ Sound S := by
  constructor
  · intro h m
    constructor
    · intro hk p
      have := h p [.query, .mutate m, .query] (S.derive p, S.eff m p) (by simp [stale_run S m p hk])
      exact this.symm
    · intro hk p
      exact h p [.query, .mutate m, .query] (S.upd m (S.derive p), S.eff m p) (by simp [patched_run S m p hk])
  · intro hs p evs
    exact answers_fresh S evs (fun m _ => hs m) (Or.inl rfl)

/-! ## (b) the mutator table: all |Item| × |Mut| pairs -/

/-- The decidable obligation, over ALL 7 × 24 pairs (`act` is total, there is no default row; each mutator has ONE write-set):
    exactly three pairs keep a cache although the mutator overwrites a field the cache is derived from. -/
theorem C11_unsound_pairs : unsoundPairs =
    [(.occupancySet, .trajTranslateRotate), (.occupancySet, .trajAppendState), (.networkIndex, .lanTranslateRotate)] := by decide

theorem pairSound_of_not_mem {i : Item} {m : Mut} (h : (i, m) ∉ unsoundPairs) : pairSound i m = true := by
  cases hp : pairSound i m with
  | true => rfl
  | false =>
    exfalso
    apply h
    unfold unsoundPairs
    simp only [List.mem_flatMap, List.mem_map, List.mem_filter]
    exact ⟨i, by cases i <;> simp [allItems], m, ⟨by cases m <;> simp [allMuts], by simp [hp]⟩, rfl⟩

/-- The full statement for the table: every cache answers from the current version of every field it reads, along every history. -/
def C11_table_run_full : Prop :=
  ∀ (i : Item) (s : Store) (evs : List (Ev Inv)), ∀ x ∈ (tokenSpec i).answers ⟨s, none⟩ evs, x.1 = (reads i).map x.2

/-- PARTIAL (excluded: the three pairs of `C11_unsound_pairs`, i.e. `Trajectory.translate_rotate` / `append_state` on the
    trajectory a prediction holds vs `occupancy_set`, and `Lanelet.translate_rotate` on a lanelet a network holds vs the spatial
    index).  For every cache, with fields abstracted to version tokens: along every history that does not use an excluded
    pair, each answer is derived from the current version of every field the cache reads. -/
theorem C11_table_run_partial (i : Item) (s : Store) (evs : List (Ev Inv))
    (h : ∀ x, Ev.mutate x ∈ evs → (i, x.m) ∉ unsoundPairs) :
    ∀ x ∈ (tokenSpec i).answers ⟨s, none⟩ evs, x.1 = (reads i).map x.2 :=
  answers_fresh (tokenSpec i) evs (fun x hx => tokenSpec_soundAt i x (pairSound_of_not_mem (h x hx))) (Or.inl rfl)

/-- … and each excluded pair does go stale: query → mutate → query repeats the old answer. -/
theorem C11_witness_table_pairs : ∀ p ∈ unsoundPairs, ∃ s v,
    ∃ x ∈ (tokenSpec p.1).answers ⟨s, none⟩ [.query, .mutate ⟨p.2, v⟩, .query], x.1 ≠ (reads p.1).map x.2 := by
  intro p hp
  rw [C11_unsound_pairs] at hp
  simp only [List.mem_cons, List.mem_nil_iff, or_false] at hp
  rcases hp with rfl | rfl | rfl <;> exact tokenSpec_stale _ _ (by decide)

theorem C11_witness_table_run_full : ¬ C11_table_run_full := by
  intro h
  obtain ⟨s, v, x, hx, hne⟩ := C11_witness_table_pairs (.networkIndex, .lanTranslateRotate) (by rw [C11_unsound_pairs]; simp)
  exact hne (h _ s _ x hx)

/-- Obstacle / scenario / network level methods do to the caches below them what the methods they delegate to do
    (`Scenario`/`DynamicObstacle.translate_rotate` → `prediction.translate_rotate`; `LaneletNetwork.translate_rotate` /
    `convert_to_2d` → the same method of every lanelet).  The spatial index is the network's own cache: there the network-level
    `translate_rotate` rebuilds while the lanelet-level one cannot (the excluded pair). -/
theorem C11_table_delegation :
    act .occupancySet .obsTranslateRotate = act .occupancySet .predTranslateRotate ∧
    (∀ i, act i .netConvert2d = act i .lanConvert2d) ∧
    (∀ i, i ≠ .networkIndex → act i .netTranslateRotate = act i .lanTranslateRotate) ∧
    act .networkIndex .netTranslateRotate = .recompute ∧ act .networkIndex .lanTranslateRotate = .keep := by
  refine ⟨rfl, ?_, ?_, rfl, rfl⟩
  · intro i; cases i <;> rfl
  · intro i hi; cases i <;> first | rfl | exact absurd rfl hi

/-! ## (c) TrafficLightCycle with its real data -/

/-- (definitional: the cached-array variant of `get_state_at_time_step` read with the fresh array IS C17's `stateAt`; `rfl`) -/
theorem stateAtWith_fresh (es : List CR.TL.Elem) (off t : Int) :
    stateAtWith (CR.TL.initSteps es off) es off t = CR.TL.stateAt es off t := rfl

theorem durations_setStateAt : ∀ (es : List CR.TL.Elem) (i st : Nat), CR.TL.durations (setStateAt es i st) = CR.TL.durations es
  | [], _, _ => rfl
  | e :: r, 0, st => by simp [setStateAt, CR.TL.durations]
  | e :: r, i + 1, st => by
    have := durations_setStateAt r i st
    simp only [CR.TL.durations] at this
    simp [setStateAt, CR.TL.durations, this]

theorem cycSpec_sound : Sound cycSpec := by
  intro m
  cases m with
  | setElements es => constructor <;> intro hk <;> simp [cycSpec, CycMut.kind] at hk
  | setOffset off => constructor <;> intro hk <;> simp [cycSpec, CycMut.kind] at hk
  | setActive b =>
    constructor
    · intro _ p; rfl
    · intro hk; simp [cycSpec, CycMut.kind] at hk
  | setState i st =>
    constructor
    · intro _ p
      simp only [cycSpec, CR.TL.initSteps, durations_setStateAt]
    · intro hk; simp [cycSpec, CycMut.kind] at hk
  | setDuration i d => constructor <;> intro hk <;> simp [cycSpec, CycMut.kind] at hk
  | listEdit es => constructor <;> intro hk <;> simp [cycSpec, CycMut.kind] at hk

example : ¬ Sound ({ cycSpec with act := fun _ => .keep } : Spec Cyc (List Int) CycMut) := by
  intro h
  have := (h (.setOffset 1)).1 rfl ⟨[(0, 2)], 0, true⟩
  revert this
  decide

/-- What the history yields when every query is answered by a freshly constructed cycle. -/
def cycRunSpec (p : Cyc) : List CycOp → List (List (Res Nat))
  | [] => []
  | .mutate m :: ops => [] :: cycRunSpec (cycSpec.eff m p) ops
  | .q ts :: ops => ts.map (fun t => CR.TL.stateAt p.es p.off t) :: cycRunSpec p ops
  | .replace p' :: ops => [] :: cycRunSpec p' ops

/-- C11 for traffic lights: after ANY sequence of `cycle_elements=`, `time_offset=`, `active=`, an element's `duration=` /
    `state=`, list methods on the list `cycle_elements` returns, replacing the light's cycle, and queries,
    `get_state_at_time_step` answers as a cycle freshly built from the current elements and offset. -/
theorem C11_cycle_fresh : ∀ (ops : List CycOp) (c : CycCell), Coherent cycSpec c →
    (cycRun c ops).1 = cycRunSpec c.primary ops
  | [], _, _ => rfl
  | .mutate m :: ops, c, h => by
    have ih := C11_cycle_fresh ops _ (coherent_mutate cycSpec (cycSpec_sound m) h)
    simp only [cycRun, cycStep, cycRunSpec, ih]
    rfl
  | .q ts :: ops, c, h => by
    have ih := C11_cycle_fresh ops _ (coherent_query cycSpec h)
    have ha := answer_of_coherent cycSpec h
    simp only [cycRun, cycStep, cycRunSpec, ih, cycQuery, ha]
    rfl
  | .replace p :: ops, c, _ => by
    have ih := C11_cycle_fresh ops ⟨p, none⟩ (Or.inl rfl)
    simp only [cycRun, cycStep, cycRunSpec, ih]

/-- The in-place edits that were stale before fix 233baea: lengthening RED of [RED 2, GREEN 3] to 4, and appending YELLOW 1. -/
example :
    (cycRun ⟨⟨[(0, 2), (1, 3)], 0, true⟩, none⟩ [.q [2, 3], .mutate (.setDuration 0 4), .q [2, 3]]).1 = [[.ok 1, .ok 1], [], [.ok 0, .ok 0]] ∧
    (cycRun ⟨⟨[(0, 2), (1, 3)], 0, true⟩, none⟩ [.q [5], .mutate (.listEdit [(0, 2), (1, 3), (2, 1)]), .q [5]]).1 = [[.ok 0], [], [.ok 2]] := by
  decide

/-- … hence (with C17) the state reported after any history is the one the CURRENT cycle definition gives. -/
theorem C11_cycle_follows_definition (c : CycCell) (h : Coherent cycSpec c) (hadm : CR.TL.Admissible c.primary.es) (t : Int) :
    ∃ s, CR.TL.specAt c.primary.es ((t - c.primary.off) % CR.TL.total c.primary.es) = some s ∧ (cycQuery c t).1 = .ok s := by
  obtain ⟨s, h1, h2⟩ := CR.TL.C17_stateAt_eq_spec c.primary.es c.primary.off t hadm
  refine ⟨s, h1, ?_⟩
  simp only [cycQuery, answer_of_coherent cycSpec h]
  exact h2

example : (cycRun ⟨⟨[(0, 2), (1, 3)], 0, true⟩, none⟩
    [.q [0, 2], .mutate (.setOffset 1), .q [0, 2], .mutate (.setElements [(2, 1), (0, 1)]), .q [1, 2]]).1
    = [[.ok 0, .ok 1], [], [.ok 1, .ok 0], [], [.ok 2, .ok 0]] := by decide

/-! ## (d) obstacles and predictions (token model) -/

def TPred.Fresh (p : TPred) : Prop := p.cache = none ∨ p.cache = some p.derive

def Pred.Fresh : Pred → Prop
  | .traj p => p.Fresh
  | .setb _ _ => True

/-- Every cache of the obstacle is empty or holds what its current primary data yield. -/
def Obs.Fresh (o : Obs) : Prop := o.initOcc = some o.freshInitOcc ∧ ∀ p, o.pred = some p → p.Fresh

theorem TPred.occSet_spec {p : TPred} (h : p.Fresh) :
    p.occSet.1 = p.derive ∧ p.occSet.2.Fresh ∧ p.occSet.2.shape = p.shape ∧ p.occSet.2.traj = p.traj := by
  unfold TPred.occSet
  rcases h with h | h <;> simp [h, TPred.Fresh, TPred.derive]

theorem Pred.occAt_spec {p : Pred} (h : p.Fresh) (t : Int) :
    (p.occAt t).2.Fresh ∧ (p.occAt t).1 = (p.rebuild.occAt t).1 ∧ (p.occAt t).2.rebuild = p.rebuild := by
  cases p with
  | setb v ivs => simp [Pred.occAt, Pred.Fresh, Pred.rebuild]
  | traj q =>
    obtain ⟨h1, h2, h3, h4⟩ := TPred.occSet_spec h
    have hr : q.rebuild.Fresh := Or.inl rfl
    obtain ⟨r1, _, _, _⟩ := TPred.occSet_spec hr
    simp only [Pred.occAt, TPred.occAt, Pred.Fresh, Pred.rebuild, h1, r1]
    refine ⟨h2, ?_, ?_⟩
    · simp only [TPred.derive, TPred.rebuild]; rfl
    · simp [TPred.rebuild, h3, h4]

theorem Pred.adopt_drop (old : Option Pred) (new : Pred) : Pred.adopt .drop old new = new := by
  unfold Pred.adopt
  split <;> first | rfl | contradiction

theorem Pred.move_fresh (p : Pred) (v : Nat) {m : Mut} (hm : act .occupancySet m = .drop) : (p.move m v).Fresh := by
  cases p with
  | setb _ _ => simp [Pred.move, Pred.Fresh]
  | traj q => simp [Pred.move, TPred.move, TPred.mutTraj, Pred.Fresh, TPred.Fresh, Action.apply, Action.applySimple, TPred.mutTraj, Action.apply, Action.applySimple, hm]

theorem Obs.onTPred_fresh {o : Obs} (h : o.Fresh) (f : TPred → TPred) (hf : ∀ p, p.Fresh → (f p).Fresh) :
    (o.onTPred f).2.Fresh := by
  unfold Obs.onTPred
  split
  · next p hp =>
    refine ⟨h.1, ?_⟩
    intro q hq
    simp at hq
    subst hq
    exact hf p (h.2 _ hp)
  · exact h

/-- The operations the invariant below covers.  EXCLUDED (and refuted in `C11_witness_held_trajectory_*`): the two mutators
    called on the trajectory a prediction holds.  A prediction object handed to `prediction=` / `update_prediction` must have a
    coherent cache of its own (it is new, or was only queried — not edited through its held trajectory before). -/
def ObsOp.WF : ObsOp → Prop
  | .setPrediction (some p) => p.Fresh
  | .trajTranslateRotate _ => False
  | .trajAppendState _ _ => False
  | _ => True

/-- C11 invariant for obstacles: every admitted public mutator and every query keeps all caches fresh. -/
theorem C11_obs_fresh_step {o : Obs} (h : o.Fresh) (op : ObsOp) (hwf : op.WF) : (o.step op).2.Fresh := by
  obtain ⟨h1, h2⟩ := h
  cases op with
  | setInitialState v t0 => exact ⟨by simp [Obs.step, Action.apply, Action.applySimple, TPred.mutTraj, Obs.freshInitOcc], by simpa [Obs.step] using h2⟩
  | setShape => exact ⟨by simpa [Obs.step, Action.apply, Action.applySimple, TPred.mutTraj, Obs.freshInitOcc] using h1, by simpa [Obs.step] using h2⟩
  | translateRotate v =>
    refine ⟨by simp [Obs.step, Action.apply, Action.applySimple, TPred.mutTraj, Obs.freshInitOcc], ?_⟩
    intro p hp
    simp only [Obs.step] at hp
    split at hp
    · cases hq : o.pred with
      | none => simp [hq] at hp
      | some q => simp [hq] at hp; subst hp; exact Pred.move_fresh q v rfl
    · exact h2 p hp
  | setPrediction p =>
    simp only [Obs.step]
    split
    · exact ⟨h1, h2⟩
    · refine ⟨by simpa [Action.apply, Action.applySimple, TPred.mutTraj, Obs.freshInitOcc] using h1, ?_⟩
      intro q hq
      simp only [Option.map_eq_some_iff] at hq
      obtain ⟨a, rfl, rfl⟩ := hq
      rw [act_occupancySet_obsSetPrediction, Pred.adopt_drop]
      exact hwf
  | updateInitialState v t0 sig cen shp m =>
    simp only [Obs.step]
    split
    · exact ⟨h1, h2⟩
    · split
      · exact ⟨h1, h2⟩
      · split <;> exact ⟨by simp [Action.apply, Action.applySimple, TPred.mutTraj, Obs.freshInitOcc], by simp⟩
  | predSetShape v =>
    exact Obs.onTPred_fresh ⟨h1, h2⟩ _ (fun p _ => by simp [TPred.Fresh, Action.apply, Action.applySimple, TPred.mutTraj])
  | predSetTrajectory d =>
    exact Obs.onTPred_fresh ⟨h1, h2⟩ _ (fun p _ => by simp [TPred.Fresh, Action.apply, Action.applySimple, TPred.mutTraj])
  | predSetWheelbase =>
    exact Obs.onTPred_fresh ⟨h1, h2⟩ _ (fun p _ => by simp [TPred.Fresh, Action.apply, Action.applySimple, TPred.mutTraj])
  | predSetAssignment =>
    exact Obs.onTPred_fresh ⟨h1, h2⟩ _ (fun p hp => by simpa [TPred.Fresh, Action.apply, Action.applySimple, TPred.mutTraj, TPred.derive] using hp)
  | predTranslateRotate v =>
    simp only [Obs.step]
    split
    · next p hp =>
      refine ⟨h1, ?_⟩
      intro q hq
      simp at hq
      subst hq
      exact Pred.move_fresh p v rfl
    · exact ⟨h1, h2⟩
  | trajTranslateRotate v => exact hwf.elim
  | trajAppendState v t => exact hwf.elim
  | predSetOccupancies v ivs =>
    simp only [Obs.step]
    split
    · refine ⟨h1, ?_⟩
      intro q hq
      simp at hq
      subst hq
      trivial
    · exact ⟨h1, h2⟩
  | setMeta a b c => exact ⟨h1, h2⟩
  | failed e => exact ⟨h1, h2⟩
  | qOcc t =>
    simp only [Obs.step]
    split
    · exact ⟨h1, h2⟩
    · split
      · exact ⟨h1, h2⟩
      · split
        · split
          · next p hp =>
            refine ⟨h1, ?_⟩
            intro q hq
            simp at hq
            subst hq
            exact (Pred.occAt_spec (h2 p hp) t).1
          · exact ⟨h1, h2⟩
        · exact ⟨h1, h2⟩
  | qState t =>
    simp only [Obs.step]
    repeat' split
    all_goals exact ⟨h1, h2⟩
  | qPredOcc t =>
    simp only [Obs.step]
    split
    · next p hp =>
      refine ⟨h1, ?_⟩
      intro q hq
      simp at hq
      subst hq
      exact (Pred.occAt_spec (h2 p hp) t).1
    · exact ⟨h1, h2⟩
  | qHist => exact ⟨h1, h2⟩

theorem C11_obs_fresh_run : ∀ (ops : List ObsOp) {o : Obs}, o.Fresh → (∀ op ∈ ops, op.WF) → (o.run ops).2.Fresh
  | [], _, h, _ => h
  | op :: ops, o, h, hwf => by
    have := C11_obs_fresh_run ops (C11_obs_fresh_step h op (hwf op (by simp))) (fun x hx => hwf x (by simp [hx]))
    simpa [Obs.run] using this

/-- With fresh caches every operation answers exactly as on the obstacle rebuilt through the constructors
    from the same primary data (`Obs.rebuild`: `_initial_occupancy_shape` recomputed, prediction caches empty). -/
theorem C11_obs_answer_as_rebuilt {o : Obs} (h : o.Fresh) (op : ObsOp) : (o.step op).1 = (o.rebuild.step op).1 := by
  obtain ⟨h1, h2⟩ := h
  have hio : o.rebuild.initOccVal = o.initOccVal := by simp [Obs.rebuild, Obs.initOccVal, h1]
  cases hp : o.pred with
  | none =>
    cases op <;> simp [Obs.step, Obs.rebuild, Obs.onTPred, hp, Obs.initOccVal, h1] <;> (repeat' split) <;> simp_all
  | some p =>
    have hq := fun t => (Pred.occAt_spec (h2 p hp) t).2.1
    cases p with
    | setb v ivs =>
      cases op <;> simp [Obs.step, Obs.rebuild, Obs.onTPred, hp, Obs.initOccVal, h1, Pred.rebuild] <;> (repeat' split) <;> simp_all
    | traj q =>
      simp only [Pred.rebuild] at hq
      cases op <;> simp [Obs.step, Obs.rebuild, Obs.onTPred, hp, Obs.initOccVal, h1, Pred.rebuild, hq] <;>
        (repeat' split) <;> simp_all [TPred.rebuild]

/-! ## (e) update_initial_state and the four history lists -/

/-- The four history lists have the same length. -/
def Obs.EqLen (o : Obs) : Prop :=
  o.sigHist.length = o.hist.length ∧ o.cenHist.length = o.hist.length ∧ o.shpHist.length = o.hist.length

/-- One `update_initial_state(current, …, max_history_length = m)` with `m > 0` on a dynamic obstacle: the previous
    initial state / signal state / lanelet ids are appended, each list is cut to its last `m` entries, the new
    state becomes the initial state, the prediction is dropped. -/
theorem C11_history_step (o : Obs) (hd : o.dynamic = true) (he : o.EqLen) (v : Nat) (t0 : Int) (sig cen shp : Nat)
    (m : Int) (hm : 0 < m) :
    let r := o.step (.updateInitialState v t0 sig cen shp m)
    r.1 = .unit ∧ r.2.hist = lastN m.toNat (o.hist ++ [⟨o.init, []⟩]) ∧ r.2.sigHist = lastN m.toNat (o.sigHist ++ [o.sig]) ∧
    r.2.cenHist = lastN m.toNat (o.cenHist ++ [o.cen]) ∧ r.2.shpHist = lastN m.toNat (o.shpHist ++ [o.shp]) ∧
    r.2.init = v ∧ r.2.t0 = t0 ∧ r.2.pred = none ∧ r.2.hist.length ≤ m.toNat := by
  obtain ⟨e1, e2, e3⟩ := he
  simp only [Obs.step, hd]
  have hm' : ¬ m ≤ 0 := by omega
  simp only [Bool.not_true, Bool.false_eq_true, if_false, hm']
  split
  · next hlt =>
    simp only [lastN_length, List.length_append, List.length_cons, List.length_nil, true_and]
    omega
  · next hge =>
    have hl : (o.hist ++ [(⟨o.init, []⟩ : HTok)]).length ≤ m.toNat := by omega
    simp only [List.length_append, List.length_cons, List.length_nil] at hl
    refine ⟨rfl, ?_, ?_, ?_, ?_, rfl, rfl, rfl, by simpa using hl⟩ <;>
      (rw [lastN_of_le]; simp only [List.length_append, List.length_cons, List.length_nil]; omega)

/-- A non-positive bound is rejected and nothing changes. -/
theorem C11_history_bad_bound (o : Obs) (hd : o.dynamic = true) (v : Nat) (t0 : Int) (sig cen shp : Nat) (m : Int) (hm : m ≤ 0) :
    o.step (.updateInitialState v t0 sig cen shp m) = (.err .assert, o) := by
  simp [Obs.step, hd, hm]

/-- Equal length of the four lists is an invariant of EVERY operation. -/
theorem C11_history_equal_length_step {o : Obs} (he : o.EqLen) (op : ObsOp) : (o.step op).2.EqLen := by
  obtain ⟨e1, e2, e3⟩ := he
  cases op <;> simp only [Obs.step, Obs.onTPred] <;> (repeat' split) <;>
    simp_all [Obs.EqLen, lastN_length]

theorem C11_history_equal_length : ∀ (ops : List ObsOp) {o : Obs}, o.EqLen → (o.run ops).2.EqLen
  | [], _, h => h
  | op :: ops, o, h => by
    have := C11_history_equal_length ops (C11_history_equal_length_step h op)
    simpa [Obs.run] using this

/-- The four values `update_initial_state` moves into the histories: initial state, signal state, centre / shape lanelet ids. -/
structure Cur where
  init : Nat
  sig : Nat
  cen : Nat
  shp : Nat
  deriving DecidableEq, Repr

def Obs.cur (o : Obs) : Cur := ⟨o.init, o.sig, o.cen, o.shp⟩

/-- How the operations change those four values — read off the operations alone (no reference to the model's `step`). -/
def Cur.next (dyn : Bool) (c : Cur) : ObsOp → Cur
  | .setInitialState v _ => { c with init := v }
  | .translateRotate v => { c with init := v }
  | .updateInitialState v _ s ce sh m => if dyn && decide (0 < m) then ⟨v, s, ce, sh⟩ else c
  | .setMeta s ce sh => { c with sig := s, cen := ce, shp := sh }
  | _ => c

/-- The accepted `update_initial_state` calls of a history, in order: the values each one replaces and its bound. -/
def updatesOf (dyn : Bool) (c : Cur) : List ObsOp → List (Cur × Nat)
  | [] => []
  | op :: ops =>
    (match op with
     | .updateInitialState _ _ _ _ _ m => if dyn && decide (0 < m) then [(c, m.toNat)] else []
     | _ => []) ++ updatesOf dyn (c.next dyn op) ops

/-- Append-and-cut, one update after the other, each with ITS OWN bound (the three lists that are not spatial). -/
def cutAll (f : Cur → Nat) (h : List Nat) (us : List (Cur × Nat)) : List Nat :=
  us.foldl (fun h u => lastN u.2 (h ++ [f u.1])) h

/-- What happens to the state history: an accepted update (replaced values, bound) or a motion of the obstacle. -/
inductive HEv where
  | upd (c : Cur) (m : Nat)
  | move (v : Nat)
  deriving DecidableEq, Repr

/-- The history events of a sequence of operations, in order — read off the operations alone: accepted
    `update_initial_state` calls, and `translate_rotate` on the (dynamic) obstacle or its scenario. -/
def eventsOf (dyn : Bool) (c : Cur) : List ObsOp → List HEv
  | [] => []
  | op :: ops =>
    (match op with
     | .updateInitialState _ _ _ _ _ m => if dyn && decide (0 < m) then [.upd c m.toNat] else []
     | .translateRotate v => if dyn then [.move v] else []
     | _ => []) ++ eventsOf dyn (c.next dyn op) ops

/-- The state history after a sequence of events: an update appends the replaced initial state (not yet moved) and keeps
    the last `m`; a motion moves EVERY recorded state (they are world-frame states). -/
def histAll (h : List HTok) (evs : List HEv) : List HTok :=
  evs.foldl (fun h e => match e with
    | .upd c m => lastN m (h ++ [⟨c.init, []⟩])
    | .move v => h.map (HTok.move v)) h

theorem step_cur (o : Obs) (op : ObsOp) : (o.step op).2.cur = o.cur.next o.dynamic op ∧ (o.step op).2.dynamic = o.dynamic := by
  cases op <;> simp only [Obs.step, Obs.onTPred, Cur.next, Obs.cur] <;> (repeat' split) <;> simp_all <;> omega

theorem step_hist {o : Obs} (he : o.EqLen) (op : ObsOp) :
    let us := updatesOf o.dynamic o.cur [op]
    (o.step op).2.hist = histAll o.hist (eventsOf o.dynamic o.cur [op]) ∧ (o.step op).2.sigHist = cutAll (·.sig) o.sigHist us ∧
    (o.step op).2.cenHist = cutAll (·.cen) o.cenHist us ∧ (o.step op).2.shpHist = cutAll (·.shp) o.shpHist us := by
  cases op with
  | updateInitialState v t0 sig cen shp m =>
    cases hd : o.dynamic with
    | false => simp [Obs.step, hd, updatesOf, eventsOf, cutAll, histAll]
    | true =>
      by_cases hm : 0 < m
      · have := C11_history_step o hd he v t0 sig cen shp m hm
        simp only [updatesOf, eventsOf, hm, decide_true, Bool.and_self, if_true, List.append_nil, cutAll, histAll,
          List.foldl_cons, List.foldl_nil, Obs.cur]
        exact ⟨this.2.1, this.2.2.1, this.2.2.2.1, this.2.2.2.2.1⟩
      · have hm' : m ≤ 0 := by omega
        simp [Obs.step, hd, hm', hm, updatesOf, eventsOf, cutAll, histAll]
  | translateRotate v => cases hd : o.dynamic <;> simp [Obs.step, hd, updatesOf, eventsOf, cutAll, histAll]
  | _ => simp only [Obs.step, Obs.onTPred, updatesOf, eventsOf, cutAll, histAll] <;> (repeat' split) <;> simp_all

theorem cutAll_append (f : Cur → Nat) (h : List Nat) (us vs : List (Cur × Nat)) :
    cutAll f h (us ++ vs) = cutAll f (cutAll f h us) vs := by
  simp [cutAll, List.foldl_append]

theorem histAll_append (h : List HTok) (us vs : List HEv) : histAll h (us ++ vs) = histAll (histAll h us) vs := by
  simp [histAll, List.foldl_append]

/-- C11 history clause, general form: after ANY history (any operations, every `update_initial_state` with its own
    `max_history_length` — also a bound that is LOWERED later — and any `translate_rotate` of the obstacle / scenario in
    between): `history` results from appending the replaced initial state and keeping the last `mᵢ` entries, update after
    update, with every recorded state moved by every later motion; the three non-spatial lists likewise without the motions. -/
theorem C11_history_general : ∀ (ops : List ObsOp) (o : Obs), o.EqLen →
    let us := updatesOf o.dynamic o.cur ops
    (o.run ops).2.hist = histAll o.hist (eventsOf o.dynamic o.cur ops) ∧ (o.run ops).2.sigHist = cutAll (·.sig) o.sigHist us ∧
    (o.run ops).2.cenHist = cutAll (·.cen) o.cenHist us ∧ (o.run ops).2.shpHist = cutAll (·.shp) o.shpHist us
  | [], o, _ => by simp [Obs.run, updatesOf, eventsOf, cutAll, histAll]
  | op :: ops, o, he => by
    have h1 := step_hist he op
    have hc := step_cur o op
    have ih := C11_history_general ops (o.step op).2 (C11_history_equal_length_step he op)
    have hrun : (o.run (op :: ops)).2 = ((o.step op).2.run ops).2 := by simp [Obs.run]
    have hu : updatesOf o.dynamic o.cur (op :: ops) =
        updatesOf o.dynamic o.cur [op] ++ updatesOf (o.step op).2.dynamic (o.step op).2.cur ops := by
      rw [hc.1, hc.2]; simp [updatesOf]
    have hv : eventsOf o.dynamic o.cur (op :: ops) =
        eventsOf o.dynamic o.cur [op] ++ eventsOf (o.step op).2.dynamic (o.step op).2.cur ops := by
      rw [hc.1, hc.2]; simp [eventsOf]
    simp only [hrun, hu, hv, cutAll_append, histAll_append]
    simp only at h1 ih
    rw [← h1.1, ← h1.2.1, ← h1.2.2.1, ← h1.2.2.2]
    exact ih

/-- With one bound `m ≥ 1` throughout and at most `m` entries to begin with, that is: the last `m` of
    (what was recorded ++ the replaced values), in order. -/
theorem cutAll_const (f : Cur → Nat) (m : Nat) (hm : 0 < m) : ∀ (us : List (Cur × Nat)) (h : List Nat),
    h.length ≤ m → (∀ u ∈ us, u.2 = m) → cutAll f h us = lastN m (h ++ us.map (fun u => f u.1))
  | [], h, hl, _ => by simp [cutAll, lastN_of_le hl]
  | u :: us, h, hl, hb => by
    have hu : u.2 = m := hb u (by simp)
    have hl' : (lastN m (h ++ [f u.1])).length ≤ m := by rw [lastN_length]; omega
    have ih := cutAll_const f m hm us (lastN m (h ++ [f u.1])) hl' (fun x hx => hb x (by simp [hx]))
    simp only [cutAll, List.foldl_cons, hu] at ih ⊢
    rw [ih, lastN_lastN_append]
    simp

/-- The motions among the events, in order. -/
def motionsIn : List HEv → List Nat
  | [] => []
  | .move v :: r => v :: motionsIn r
  | .upd _ _ :: r => motionsIn r

/-- The replaced initial states among the events, each with the motions that FOLLOW its replacement. -/
def entriesOf : List HEv → List HTok
  | [] => []
  | .move _ :: r => entriesOf r
  | .upd c _ :: r => ⟨c.init, motionsIn r⟩ :: entriesOf r

def HTok.moveAll (vs : List Nat) (h : HTok) : HTok := { h with moves := h.moves ++ vs }

theorem HTok.moveAll_cons (v : Nat) (vs : List Nat) (l : List HTok) :
    (l.map (HTok.move v)).map (HTok.moveAll vs) = l.map (HTok.moveAll (v :: vs)) := by
  simp [HTok.move, HTok.moveAll, Function.comp_def]

/-- Closed form for one bound `m ≥ 1`: the state history is the last `m` of (the states recorded at the start, moved by all
    motions) ++ (the replaced initial states, each moved by the motions applied since it was replaced), in order. -/
theorem histAll_const (m : Nat) (hm : 0 < m) : ∀ (evs : List HEv) (h : List HTok),
    h.length ≤ m → (∀ c k, HEv.upd c k ∈ evs → k = m) →
    histAll h evs = lastN m (h.map (HTok.moveAll (motionsIn evs)) ++ entriesOf evs)
  | [], h, hl, _ => by
    have h0 : ∀ x : HTok, HTok.moveAll [] x = x := fun x => by cases x; simp [HTok.moveAll]
    have : h.map (HTok.moveAll []) = h := by rw [List.map_congr_left (fun x _ => h0 x)]; simp
    simp [histAll, motionsIn, entriesOf, this, lastN_of_le hl]
  | .move v :: evs, h, hl, hb => by
    have ih := histAll_const m hm evs (h.map (HTok.move v)) (by simpa using hl) (fun c k hk => hb c k (by simp [hk]))
    simp only [histAll, List.foldl_cons] at ih ⊢
    rw [ih, HTok.moveAll_cons]
    simp [motionsIn, entriesOf]
  | .upd c k :: evs, h, hl, hb => by
    have hk : k = m := hb c k (by simp)
    subst hk
    have hl' : (lastN k (h ++ [(⟨c.init, []⟩ : HTok)])).length ≤ k := by rw [lastN_length]; omega
    have ih := histAll_const k hm evs _ hl' (fun c' k' hk' => hb c' k' (by simp [hk']))
    simp only [histAll, List.foldl_cons] at ih ⊢
    rw [ih, map_lastN, lastN_lastN_append]
    simp [motionsIn, entriesOf, HTok.moveAll]

theorem C11_history_last_m (m : Nat) (hm : 0 < m) (ops : List ObsOp) (o : Obs) (he : o.EqLen) (hl : o.hist.length ≤ m)
    (hb : ∀ u ∈ updatesOf o.dynamic o.cur ops, u.2 = m) (hb' : ∀ c k, HEv.upd c k ∈ eventsOf o.dynamic o.cur ops → k = m) :
    let us := updatesOf o.dynamic o.cur ops
    let evs := eventsOf o.dynamic o.cur ops
    (o.run ops).2.hist = lastN m (o.hist.map (HTok.moveAll (motionsIn evs)) ++ entriesOf evs) ∧
    (o.run ops).2.sigHist = lastN m (o.sigHist ++ us.map (·.1.sig)) ∧
    (o.run ops).2.cenHist = lastN m (o.cenHist ++ us.map (·.1.cen)) ∧ (o.run ops).2.shpHist = lastN m (o.shpHist ++ us.map (·.1.shp)) := by
  obtain ⟨g1, g2, g3, g4⟩ := C11_history_general ops o he
  obtain ⟨e1, e2, e3⟩ := he
  simp only at g1 g2 g3 g4 ⊢
  rw [g1, g2, g3, g4]
  exact ⟨histAll_const m hm _ _ hl hb', cutAll_const _ m hm _ _ (by omega) hb, cutAll_const _ m hm _ _ (by omega) hb,
    cutAll_const _ m hm _ _ (by omega) hb⟩

example :
    let o : Obs := { dynamic := true, shape := 0, init := 0, t0 := 0, initOcc := some (0, 0), pred := none, sig := 0, cen := 0,
                     shp := 0, hist := [], sigHist := [], cenHist := [], shpHist := [] }
    -- three updates with bound 6 and a motion (version 2) in between, then the bound is lowered to 2: the cut drops two entries
    -- at once; the states replaced before the motion (versions 0, 1) carry it, the later ones do not
    (o.run [.updateInitialState 1 1 7 0 0 6, .translateRotate 2, .updateInitialState 3 2 8 0 0 6, .updateInitialState 4 3 9 0 0 6,
            .qHist]).1.getLast? = some (.hist [⟨0, [2]⟩, ⟨2, []⟩, ⟨3, []⟩] [0, 7, 8] [0, 0, 0] [0, 0, 0]) ∧
    (o.run [.updateInitialState 1 1 7 0 0 6, .translateRotate 2, .updateInitialState 3 2 8 0 0 6, .updateInitialState 4 3 9 0 0 6,
            .updateInitialState 5 4 6 0 0 2, .translateRotate 6, .qHist]).1.getLast?
      = some (.hist [⟨3, [6]⟩, ⟨4, [6]⟩] [8, 9] [0, 0] [0, 0]) := by decide

/-! ### (e') `update_initial_state` calls REJECTED by a validating setter, and what follows them -/

/-- A rejected call (first invalid argument number `k`, positive bound, dynamic obstacle) answers AssertionError and leaves:
    ALL FOUR lists one entry longer, the new entries being the four values that were current TOGETHER when the call began (so
    entry `i` of every list belongs to the same moment); the first `k` current values replaced, the others and the prediction as
    they were; nothing cut. -/
theorem C11_rejected_update_step (o : Obs) (hd : o.dynamic = true) (k v : Nat) (t0 : Int) (sig cen : Nat) (m : Int) (hm : 0 < m) :
    let r := o.rejectedUpdate k v t0 sig cen m
    r.1 = .err .assert ∧ r.2.hist = o.hist ++ [⟨o.init, []⟩] ∧ r.2.sigHist = o.sigHist ++ [o.sig] ∧
    r.2.cenHist = o.cenHist ++ [o.cen] ∧ r.2.shpHist = o.shpHist ++ [o.shp] ∧
    r.2.init = (if 1 ≤ k then v else o.init) ∧ r.2.sig = (if 2 ≤ k then sig else o.sig) ∧
    r.2.cen = (if 3 ≤ k then cen else o.cen) ∧ r.2.shp = o.shp ∧ r.2.pred = o.pred := by
  have hm' : ¬ m ≤ 0 := by omega
  by_cases h1 : 1 ≤ k <;> simp [Obs.rejectedUpdate, hd, hm', h1, Obs.step, Obs.pushHist]

/-- A rejected call on a static obstacle or with a non-positive bound changes nothing. -/
theorem C11_rejected_update_unchanged (o : Obs) (k v : Nat) (t0 : Int) (sig cen : Nat) (m : Int)
    (h : o.dynamic = false ∨ m ≤ 0) : (o.rejectedUpdate k v t0 sig cen m).2 = o := by
  rcases h with h | h
  · simp [Obs.rejectedUpdate, h]
  · cases hd : o.dynamic <;> simp [Obs.rejectedUpdate, hd, h]

/-- Equal length of the four lists is an invariant of rejected calls too … -/
theorem C11_history_equal_length_stepX {o : Obs} (he : o.EqLen) (op : ObsOpX) : (o.stepX op).2.EqLen := by
  cases op with
  | plain op => exact C11_history_equal_length_step he op
  | updateRejected k v t0 sig cen m =>
    obtain ⟨e1, e2, e3⟩ := he
    simp only [Obs.stepX, Obs.rejectedUpdate]
    (repeat' split) <;> simp_all [Obs.EqLen, Obs.step, Obs.pushHist]

/-- … hence of every history in which accepted and rejected calls, motions, setters and queries are mixed. -/
theorem C11_history_equal_length_X : ∀ (ops : List ObsOpX) {o : Obs}, o.EqLen → (o.runX ops).2.EqLen
  | [], _, h => h
  | op :: ops, o, h => by
    have := C11_history_equal_length_X ops (C11_history_equal_length_stepX h op)
    simpa [Obs.runX] using this

/-- The accepted call that follows a rejected one restores the bound: the lists are the last `m'` of (the lists before the rejected
    call ++ the values current at the rejected call ++ the values current at the accepted call), still in step. -/
theorem C11_rejected_then_accepted (o : Obs) (hd : o.dynamic = true) (he : o.EqLen) (k v : Nat) (t0 : Int) (sig cen : Nat) (m : Int)
    (hm : 0 < m) (v' : Nat) (t0' : Int) (sig' cen' shp' : Nat) (m' : Int) (hm' : 0 < m') :
    let o1 := (o.rejectedUpdate k v t0 sig cen m).2
    let r := o1.step (.updateInitialState v' t0' sig' cen' shp' m')
    r.2.hist = lastN m'.toNat (o.hist ++ [⟨o.init, []⟩] ++ [⟨o1.init, []⟩]) ∧
    r.2.sigHist = lastN m'.toNat (o.sigHist ++ [o.sig] ++ [o1.sig]) ∧
    r.2.cenHist = lastN m'.toNat (o.cenHist ++ [o.cen] ++ [o1.cen]) ∧
    r.2.shpHist = lastN m'.toNat (o.shpHist ++ [o.shp] ++ [o.shp]) ∧ r.2.hist.length ≤ m'.toNat ∧ r.2.EqLen := by
  have hr := C11_rejected_update_step o hd k v t0 sig cen m hm
  have he1 : (o.rejectedUpdate k v t0 sig cen m).2.EqLen :=
    C11_history_equal_length_stepX (o := o) he (.updateRejected k v t0 sig cen m)
  have hd1 : (o.rejectedUpdate k v t0 sig cen m).2.dynamic = true := by
    have hm0 : ¬ m ≤ 0 := by omega
    by_cases h1 : 1 ≤ k <;> simp [Obs.rejectedUpdate, hd, hm0, h1, Obs.step, Obs.pushHist]
  have hs := C11_history_step _ hd1 he1 v' t0' sig' cen' shp' m' hm'
  simp only at hr hs ⊢
  obtain ⟨_, g1, g2, g3, g4, _, _, _, g5, _⟩ := hr
  refine ⟨?_, ?_, ?_, ?_, hs.2.2.2.2.2.2.2.2, C11_history_equal_length_step he1 _⟩
  · rw [hs.2.1, g1]
  · rw [hs.2.2.1, g2]
  · rw [hs.2.2.2.1, g3]
  · rw [hs.2.2.2.2.1, g4, g5]

/-- Rejected calls keep every cache fresh (the setters that were reached recompute `_initial_occupancy_shape`). -/
theorem C11_obs_fresh_stepX {o : Obs} (h : o.Fresh) (op : ObsOpX) (hwf : match op with | .plain p => p.WF | _ => True) :
    (o.stepX op).2.Fresh := by
  cases op with
  | plain op => exact C11_obs_fresh_step h op hwf
  | updateRejected k v t0 sig cen m =>
    have hp : o.pushHist.Fresh := h
    simp only [Obs.stepX, Obs.rejectedUpdate]
    split
    · exact h
    · split
      · exact h
      · split
        · exact C11_obs_fresh_step (C11_obs_fresh_step hp (.setInitialState v t0) trivial) _ trivial
        · exact C11_obs_fresh_step hp _ trivial

/-- Non-vacuity and the shape of the lists: bound 2, an accepted call, a call rejected at the shape ids (k = 3), an accepted call —
    the lists stay in step (entry i of each list from the same moment: 1/7/5/0 and 2/8/6/0). -/
example :
    let o : Obs := { dynamic := true, shape := 0, init := 0, t0 := 0, initOcc := some (0, 0), pred := none, sig := 0, cen := 0,
                     shp := 0, hist := [], sigHist := [], cenHist := [], shpHist := [] }
    (o.runX [.plain (.updateInitialState 1 1 7 5 0 2), .updateRejected 3 2 2 8 6 2, .plain .qHist,
             .plain (.updateInitialState 3 3 9 4 4 2), .plain .qHist]).1
      = [.unit, .err .assert, .hist [⟨0, []⟩, ⟨1, []⟩] [0, 7] [0, 5] [0, 0], .unit, .hist [⟨1, []⟩, ⟨2, []⟩] [7, 8] [5, 6] [0, 0]] := by
  decide

/-! ## (f) lanelets and the lanelet network (token model) -/

/-- `_polygon` is built from the current vertices; `_distance` / `_inner_distance` are empty or computed from the
    current motion-invariant geometry. -/
def Lan.Fresh (l : Lan) : Prop :=
  l.poly = some l.geo ∧ (l.dist = none ∨ l.dist = some l.intr) ∧ (l.inner = none ∨ l.inner = some l.intr)

theorem Lan.move_spec {l l' : Lan} {v : Nat} {m : Mut} (hm : m = .lanTranslateRotate ∨ m = .netTranslateRotate)
    (h : l.Fresh) (hmv : l.move m v = .ok l') : l'.Fresh ∧ l'.xy = v ∧ l'.geo = v ∧ l'.intr = l.intr := by
  obtain ⟨h1, h2, h3⟩ := h
  unfold Lan.move at hmv
  split at hmv
  · cases hmv
  · simp only [Except.ok.injEq] at hmv
    subst hmv
    rcases hm with rfl | rfl <;> simp [Lan.Fresh, Action.apply, Action.applySimple, h2, h3]

theorem Lan.flatten_spec {l : Lan} {v : Nat} {m : Mut} (hm : m = .lanConvert2d ∨ m = .netConvert2d) :
    (l.flatten m v).Fresh ∧ (l.flatten m v).xy = l.xy := by
  unfold Lan.flatten
  rcases hm with rfl | rfl <;> cases l.is3d <;> simp [Lan.Fresh, Action.apply, Action.applySimple]

theorem Lan.qDist_spec {l : Lan} (h : l.Fresh) :
    l.qDist.1 = l.intr ∧ l.qDist.2.Fresh ∧ l.qDist.2.xy = l.xy ∧ l.qDist.2.geo = l.geo := by
  obtain ⟨h1, h2, h3⟩ := h
  unfold Lan.qDist
  rcases h2 with h2 | h2 <;> simp [h2, Lan.Fresh, h1, h3]

theorem Lan.qInner_spec {l : Lan} (h : l.Fresh) :
    l.qInner.1 = l.intr ∧ l.qInner.2.Fresh ∧ l.qInner.2.xy = l.xy ∧ l.qInner.2.geo = l.geo := by
  obtain ⟨h1, h2, h3⟩ := h
  unfold Lan.qInner
  rcases h3 with h3 | h3 <;> simp [h3, Lan.Fresh, h1, h2]

theorem Lan.rebuild_fresh (l : Lan) : l.rebuild.Fresh := by simp [Lan.rebuild, Lan.Fresh]

/-- C11 for a single lanelet: `translate_rotate` and `convert_to_2d` (any order, any number) interleaved with reading
    `polygon`, `distance`, `inner_distance` keep the caches fresh, and every operation answers as on a lanelet
    rebuilt from the current vertices. -/
theorem C11_lanelet_step {l : Lan} (h : l.Fresh) (op : LanOp) :
    (l.step op).2.Fresh ∧ (l.step op).1 = (l.rebuild.step op).1 := by
  have hr := Lan.rebuild_fresh l
  cases op with
  | translateRotate v =>
    simp only [Lan.step]
    cases hm : l.move .lanTranslateRotate v with
    | error e =>
      have : l.rebuild.move .lanTranslateRotate v = .error e := by
        unfold Lan.move at hm ⊢
        split at hm
        · next h3 => simp [Lan.rebuild, h3]; simpa using hm
        · cases hm
      simp [this, h]
    | ok l' =>
      have : ∃ l'', l.rebuild.move .lanTranslateRotate v = .ok l'' := by
        unfold Lan.move at hm ⊢
        split at hm
        · cases hm
        · next h3 => simp [Lan.rebuild, h3]
      obtain ⟨l'', h''⟩ := this
      simp [h'', (Lan.move_spec (Or.inl rfl) h hm).1]
  | convert2d v => exact ⟨(Lan.flatten_spec (Or.inl rfl)).1, rfl⟩
  | qPoly => exact ⟨h, by simp [Lan.step, Lan.rebuild, h.1]⟩
  | qDist =>
    refine ⟨(Lan.qDist_spec h).2.1, ?_⟩
    simp only [Lan.step]
    rw [(Lan.qDist_spec h).1, (Lan.qDist_spec hr).1]
    rfl
  | qInner =>
    refine ⟨(Lan.qInner_spec h).2.1, ?_⟩
    simp only [Lan.step]
    rw [(Lan.qInner_spec h).1, (Lan.qInner_spec hr).1]
    rfl

theorem C11_lanelet_run : ∀ (ops : List LanOp) {l : Lan}, l.Fresh → (l.run ops).2.Fresh
  | [], _, h => h
  | op :: ops, l, h => by
    have := C11_lanelet_run ops (C11_lanelet_step h op).1
    simpa [Lan.run] using this

example : ((Lan.new 0 true).run [.qDist, .convert2d 1, .qDist, .translateRotate 2, .qDist, .qPoly]).1
    = [.tok 0, .unit, .tok 1, .unit, .tok 1, .tok 2] := by decide

/-- The buffered polygons are those of the current lanelets, and every lanelet's own caches are fresh. -/
def Net.Fresh (n : Net) : Prop := n.buffered = n.freshEntries ∧ ∀ p ∈ n.lanelets, p.2.Fresh

/-- The STRtree and its id map hold exactly the current lanelets' polygons. -/
def Net.IndexFresh (n : Net) : Prop := n.tree = some n.freshEntries

/-- The lanelet handed to `add_lanelet` has coherent caches of its own. -/
def NetOp.WF : NetOp → Prop
  | .add _ l _ => l.Fresh
  | .addFrom ls => ∀ p ∈ ls, p.2.Fresh
  | .replace ls => ∀ p ∈ ls, p.2.Fresh
  | .replaceErase _ ls => ∀ p ∈ ls, p.2.Fresh
  | .lanTranslateRotate _ _ => False      -- EXCLUDED (refuted in `C11_witness_member_lanelet`): a lanelet the network holds is moved on its own
  | _ => True

/-- `rtree=False` asks for the index not to be rebuilt. -/
def NetOp.noSuspend : NetOp → Bool
  | .add _ _ r => r
  | .remove _ r => r
  | _ => true

/-- The mutator ran to completion (`translate_rotate` raises on 3-D vertex arrays, half way through). -/
def Net.completes (n : Net) (op : NetOp) : Prop := ∀ e, (n.step op).1 ≠ .err e ∨ ∀ v, op ≠ .translateRotate v

theorem moveAll_spec (v : Nat) : ∀ (ls ls' : List (Nat × Lan)), (∀ p ∈ ls, p.2.Fresh) → moveAll v ls = (ls', none) →
    (∀ p ∈ ls', p.2.Fresh) ∧ ls'.map (fun p => (p.1, p.2.xy)) = ls.map (fun p => (p.1, v))
  | [], ls', _, h => by simp [moveAll] at h; subst h; simp
  | (i, l) :: r, ls', hf, h => by
    simp only [moveAll] at h
    cases hm : l.move .netTranslateRotate v with
    | error e => simp [hm] at h
    | ok l' =>
      simp only [hm] at h
      cases hr : moveAll v r with
      | mk r' e =>
        simp only [hr, Prod.mk.injEq] at h
        obtain ⟨h1, h2⟩ := h
        subst h1 h2
        have ih := moveAll_spec v r r' (fun p hp => hf p (by simp [hp])) hr
        have hl := Lan.move_spec (Or.inr rfl) (hf (i, l) (by simp)) hm
        refine ⟨?_, ?_⟩
        · intro p hp
          rcases List.mem_cons.mp hp with hp | hp
          · rw [hp]; exact hl.1
          · exact ih.1 p hp
        · simp [hl.2.1, ih.2]

theorem freshEntries_map_flatten (ls : List (Nat × Lan)) (v : Nat) :
    (ls.map (fun p => (p.1, p.2.flatten .netConvert2d v))).map (fun p => (p.1, p.2.xy)) = ls.map (fun p => (p.1, p.2.xy)) := by
  simp only [List.map_map]
  apply List.map_congr_left
  intro p _
  simp [(Lan.flatten_spec (l := p.2) (v := v) (Or.inr rfl)).2]

theorem Net.addOne_fresh {n : Net} (h : n.Fresh) (id : Nat) {l : Lan} (hl' : l.Fresh) (rtree : Bool) :
    (n.addOne id l rtree).2.Fresh := by
  obtain ⟨hb, hl⟩ := h
  unfold Net.addOne
  split
  · exact ⟨hb, hl⟩
  · have : ({ n with lanelets := n.lanelets ++ [(id, l)], buffered := n.buffered ++ [(id, l.xy)] } : Net).Fresh := by
      refine ⟨by simp [Net.freshEntries, hb], ?_⟩
      intro p hp
      simp only [List.mem_append, List.mem_singleton] at hp
      rcases hp with hp | hp
      · exact hl p hp
      · rw [hp]; exact hl'
    cases rtree <;> simpa [Net.reindex, Net.Fresh, Net.freshEntries] using this

theorem Net.addAll_fresh : ∀ (ls : List (Nat × Lan)) {n : Net} (flag : Bool), n.Fresh → (∀ p ∈ ls, p.2.Fresh) →
    (n.addAll ls flag).2.Fresh
  | [], _, _, h, _ => h
  | (id, l) :: r, n, flag, h, hl => by
    unfold Net.addAll
    cases flag with
    | false => exact h
    | true =>
      simp only [if_true]
      exact Net.addAll_fresh r _ (Net.addOne_fresh h id (hl (id, l) (by simp)) false) (fun p hp => hl p (by simp [hp]))

theorem Net.createTree_index {n : Net} (h : n.Fresh) : n.createTree.Fresh ∧ n.createTree.IndexFresh := by
  obtain ⟨hb, hl⟩ := h
  exact ⟨⟨by simpa [Net.createTree, Net.freshEntries] using hb, by simpa [Net.createTree] using hl⟩,
    by simpa [Net.createTree, Net.IndexFresh, Net.freshEntries] using hb⟩

theorem Net.reindex_addFrom (old n : Net) : Net.reindex .netAddFromNetwork old n.buffered n = n.createTree := by
  simp [Net.reindex, Net.createTree]

theorem Net.setLanelet_fresh {n : Net} (h : n.Fresh) {id : Nat} {l l' : Lan} (hg : assocGet id n.lanelets = some l)
    (hx : l'.xy = l.xy) (hf : l'.Fresh) :
    ({ n with lanelets := assocSet id l' n.lanelets } : Net).Fresh ∧
    ({ n with lanelets := assocSet id l' n.lanelets } : Net).freshEntries = n.freshEntries := by
  obtain ⟨hb, hl⟩ := h
  have he : ({ n with lanelets := assocSet id l' n.lanelets } : Net).freshEntries = n.freshEntries := by
    simp only [Net.freshEntries]
    exact assocSet_map_eq (fun l : Lan => l.xy) id l l' hx n.lanelets hg
  refine ⟨⟨?_, ?_⟩, he⟩
  · rw [he]; exact hb
  · intro p hp
    rcases mem_assocSet hp with hp | hp
    · exact hl p hp
    · rw [hp]; exact hf

theorem Lan.replaced_fresh {l : Lan} (h : l.Fresh) : l.replaced.Fresh := by
  obtain ⟨h1, h2, h3⟩ := h
  simp [Lan.replaced, Lan.Fresh, Action.apply, Action.applySimple, h2, h3]

theorem Net.removeOne_fresh {n : Net} (h : n.Fresh) (id : Nat) (rtree : Bool) : (n.removeOne id rtree).Fresh := by
  obtain ⟨hb, hl⟩ := h
  cases hg : assocGet id n.lanelets with
  | none => cases rtree <;> simpa [Net.removeOne, hg, Net.reindex, Net.Fresh, Net.freshEntries] using And.intro hb hl
  | some l0 =>
    have : ({ n with lanelets := assocErase id n.lanelets, buffered := assocErase id n.buffered } : Net).Fresh := by
      refine ⟨?_, fun p hp => hl p (mem_assocErase hp)⟩
      simp only [Net.freshEntries, hb]
      exact (assocErase_map (fun l : Lan => l.xy) id n.lanelets).symm
    cases rtree <;> simpa [Net.removeOne, hg, Net.reindex, Net.Fresh, Net.freshEntries] using this

/-- `remove_lanelet` with the default `rtree=True` leaves a fresh index whatever the index was before. -/
theorem Net.removeOne_index {n : Net} (h : n.Fresh) (id : Nat) : (n.removeOne id true).IndexFresh := by
  have hf := (Net.removeOne_fresh h id true).1
  unfold Net.IndexFresh
  cases hg : assocGet id n.lanelets <;> simpa [Net.removeOne, hg, Net.reindex, Net.freshEntries] using hf

/-- `Scenario.remove_lanelet` (single or list form), ALSO WHEN IT RAISES HALF WAY: every removal it did perform rebuilt the tree,
    so the network it leaves has fresh buffered polygons and (if the index was fresh before) a fresh index. -/
theorem Net.removeMany_fresh : ∀ (ids : List (Nat × Bool)) {n : Net}, n.Fresh →
    (n.removeMany ids).2.Fresh ∧ (n.IndexFresh → (n.removeMany ids).2.IndexFresh)
  | [], _, h => ⟨h, id⟩
  | (i, reg) :: r, n, h => by
    unfold Net.removeMany
    cases hg : assocGet i n.lanelets with
    | none => exact ⟨h, id⟩
    | some l0 =>
      cases reg with
      | false => exact ⟨Net.removeOne_fresh h i true, fun _ => Net.removeOne_index h i⟩
      | true =>
        have ih := Net.removeMany_fresh r (Net.removeOne_fresh h i true)
        exact ⟨ih.1, fun _ => ih.2 (Net.removeOne_index h i)⟩

/-- C11 invariant for the lanelet network, part 1: every completed public mutator (also with `rtree=False`) and every
    query keeps `_buffered_polygons` equal to the polygons of the current lanelets and every lanelet cache fresh. -/
theorem C11_net_fresh_step {n : Net} (h : n.Fresh) (op : NetOp) (hwf : op.WF) (hc : n.completes op) : (n.step op).2.Fresh := by
  obtain ⟨hb, hl⟩ := h
  cases op with
  | add id l rtree => exact Net.addOne_fresh ⟨hb, hl⟩ id hwf rtree
  | addFrom ls =>
    simp only [Net.step, Net.reindex_addFrom]
    exact (Net.createTree_index (Net.addAll_fresh ls true ⟨hb, hl⟩ hwf)).1
  | remove id rtree => exact Net.removeOne_fresh ⟨hb, hl⟩ id rtree
  | removeMany ids => exact (Net.removeMany_fresh ids ⟨hb, hl⟩).1
  | translateRotate v =>
    simp only [Net.step]
    cases hm : moveAll v n.lanelets with
    | mk ls e =>
      cases e with
      | some e =>
        exfalso
        rcases hc e with h | h
        · simp [Net.step, hm] at h
        · exact h v rfl
      | none =>
        have := moveAll_spec v n.lanelets ls hl hm
        simp only [Net.reindex, act_networkIndex_netTranslateRotate]
        exact ⟨rfl, this.1⟩
  | convert2d v =>
    simp only [Net.step, Net.reindex, act_networkIndex_netConvert2d]
    refine ⟨?_, ?_⟩
    · simp only [Net.freshEntries, hb]
      exact (freshEntries_map_flatten n.lanelets v).symm
    · intro p hp
      simp only [List.mem_map] at hp
      obtain ⟨q, _, rfl⟩ := hp
      exact (Lan.flatten_spec (Or.inr rfl)).1
  | lanTranslateRotate id v => exact hwf.elim
  | lanConvert2d id v =>
    simp only [Net.step]
    split
    · exact ⟨hb, hl⟩
    · next l hg =>
      have hs := Lan.flatten_spec (l := l) (v := v) (m := .lanConvert2d) (Or.inl rfl)
      have := (Net.setLanelet_fresh ⟨hb, hl⟩ hg hs.2 hs.1).1
      simpa [Net.reindex, Net.Fresh, Net.freshEntries] using this
  | createFrom => exact ⟨by simp [Net.step, Net.reindex, Net.freshEntries], by simpa [Net.step, Net.reindex] using hl⟩
  | replace ls =>
    refine ⟨by simp [Net.step, Net.reindex, Net.freshEntries], ?_⟩
    intro p hp
    simp only [Net.step, Net.reindex, act_networkIndex_netReplace, List.mem_map] at hp
    obtain ⟨q, hq, rfl⟩ := hp
    exact Lan.replaced_fresh (hwf q hq)
  | replaceErase unreg ls =>
    simp only [Net.step]
    split
    · next e n' he =>
      have := (Net.removeMany_fresh (n.lanelets.map fun p => (p.1, !unreg.contains p.1)) (n := n) ⟨hb, hl⟩).1
      rw [he] at this
      exact this
    · refine ⟨by simp [Net.reindex, Net.freshEntries], ?_⟩
      intro p hp
      simp only [Net.reindex, act_networkIndex_netReplace, List.mem_map] at hp
      obtain ⟨q, hq, rfl⟩ := hp
      exact Lan.replaced_fresh (hwf q hq)
  | failed e => exact ⟨hb, hl⟩
  | deepcopy => simpa [Net.step, Net.reindex, Net.createTree, Net.Fresh, Net.freshEntries] using And.intro hb hl
  | pickle => simpa [Net.step, Net.reindex, Net.createTree, Net.Fresh, Net.freshEntries] using And.intro hb hl
  | qFind => simp only [Net.step]; split <;> exact ⟨hb, hl⟩
  | qPoly id => simp only [Net.step]; split <;> exact ⟨hb, hl⟩
  | qDist id =>
    simp only [Net.step]
    split
    · next l hg =>
      have hs := Lan.qDist_spec (hl _ (assocGet_mem hg))
      refine ⟨?_, ?_⟩
      · simp only [Net.freshEntries, hb]
        exact (assocSet_map_eq (fun l : Lan => l.xy) id l l.qDist.2 hs.2.2.1 n.lanelets hg).symm
      · intro p hp
        rcases mem_assocSet hp with hp | hp
        · exact hl p hp
        · rw [hp]; exact hs.2.1
    · exact ⟨hb, hl⟩
  | qInner id =>
    simp only [Net.step]
    split
    · next l hg =>
      have hs := Lan.qInner_spec (hl _ (assocGet_mem hg))
      refine ⟨?_, ?_⟩
      · simp only [Net.freshEntries, hb]
        exact (assocSet_map_eq (fun l : Lan => l.xy) id l l.qInner.2 hs.2.2.1 n.lanelets hg).symm
      · intro p hp
        rcases mem_assocSet hp with hp | hp
        · exact hl p hp
        · rw [hp]; exact hs.2.1
    · exact ⟨hb, hl⟩

/-- C11 invariant for the lanelet network, part 2: as long as no call asks for a stale index (`rtree=False`), the
    STRtree and its id map hold exactly the polygons of the current lanelets after every completed operation —
    `add_lanelet`, `remove_lanelet`, `translate_rotate`, `convert_to_2d`, deepcopy, pickle and all queries. -/
theorem C11_net_index_step {n : Net} (h : n.Fresh) (hi : n.IndexFresh) (op : NetOp) (hwf : op.WF) (hc : n.completes op)
    (hs : op.noSuspend = true) : (n.step op).2.IndexFresh := by
  have hf := (C11_net_fresh_step h op hwf hc).1
  obtain ⟨hb, hl⟩ := h
  unfold Net.IndexFresh at hi ⊢
  cases op with
  | add id l rtree =>
    simp only [NetOp.noSuspend] at hs
    subst hs
    simp only [Net.step, Net.addOne] at hf ⊢
    split
    · exact hi
    · next hg => simpa [hg, Net.reindex, Net.freshEntries] using hf
  | addFrom ls =>
    simp only [Net.step, Net.reindex_addFrom]
    exact (Net.createTree_index (Net.addAll_fresh ls true ⟨hb, hl⟩ hwf)).2
  | remove id rtree =>
    simp only [NetOp.noSuspend] at hs
    subst hs
    exact Net.removeOne_index ⟨hb, hl⟩ id
  | removeMany ids => exact (Net.removeMany_fresh ids ⟨hb, hl⟩).2 hi
  | translateRotate v =>
    simp only [Net.step] at hf ⊢
    cases hm : moveAll v n.lanelets with
    | mk ls e =>
      cases e with
      | some e =>
        exfalso
        rcases hc e with h | h
        · simp [Net.step, hm] at h
        · exact h v rfl
      | none => simp [Net.reindex, Net.freshEntries]
  | convert2d v =>
    simp only [Net.step, Net.reindex, act_networkIndex_netConvert2d, hi, Net.freshEntries]
    rw [freshEntries_map_flatten]
  | lanTranslateRotate id v => exact hwf.elim
  | lanConvert2d id v =>
    simp only [Net.step]
    split
    · exact hi
    · next l hg =>
      have hs := Lan.flatten_spec (l := l) (v := v) (m := .lanConvert2d) (Or.inl rfl)
      have := (Net.setLanelet_fresh ⟨hb, hl⟩ hg hs.2 hs.1).2
      simp only [Net.freshEntries] at this
      simp [Net.reindex, Net.freshEntries, hi, this]
  | createFrom => simp [Net.step, Net.reindex, Net.freshEntries]
  | replace ls => simp [Net.step, Net.reindex, Net.freshEntries]
  | replaceErase unreg ls =>
    simp only [Net.step]
    split
    · next e n' he =>
      have := (Net.removeMany_fresh (n.lanelets.map fun p => (p.1, !unreg.contains p.1)) (n := n) ⟨hb, hl⟩).2 hi
      rw [he] at this
      exact this
    · simp [Net.reindex, Net.freshEntries]
  | failed e => exact hi
  | deepcopy => simpa [Net.step, Net.reindex, Net.createTree, Net.freshEntries] using hb
  | pickle => simpa [Net.step, Net.reindex, Net.createTree, Net.freshEntries] using hb
  | qFind => simp only [Net.step]; split <;> exact hi
  | qPoly id => simp only [Net.step]; split <;> exact hi
  | qDist id =>
    simp only [Net.step]
    split
    · next l hg =>
      have hs := Lan.qDist_spec (hl _ (assocGet_mem hg))
      simp only [hi, Net.freshEntries]
      rw [assocSet_map_eq (fun l : Lan => l.xy) id l l.qDist.2 hs.2.2.1 n.lanelets hg]
    · exact hi
  | qInner id =>
    simp only [Net.step]
    split
    · next l hg =>
      have hs := Lan.qInner_spec (hl _ (assocGet_mem hg))
      simp only [hi, Net.freshEntries]
      rw [assocSet_map_eq (fun l : Lan => l.xy) id l l.qInner.2 hs.2.2.1 n.lanelets hg]
    · exact hi

/-- … and a call that rebuilds the tree makes the index fresh whatever it was before (e.g. after `rtree=False` calls). -/
theorem C11_net_index_rebuilt {n : Net} (h : n.Fresh) (op : NetOp) (hc : n.completes op)
    (hop : (∃ id, op = .remove id true) ∨ (∃ v, op = .translateRotate v) ∨ op = .deepcopy ∨ op = .pickle) :
    (n.step op).2.IndexFresh := by
  have hwf : op.WF := by rcases hop with ⟨_, rfl⟩ | ⟨_, rfl⟩ | rfl | rfl <;> trivial
  have hf := (C11_net_fresh_step h op hwf hc).1
  obtain ⟨hb, hl⟩ := h
  unfold Net.IndexFresh
  rcases hop with ⟨id, rfl⟩ | ⟨v, rfl⟩ | rfl | rfl
  · exact Net.removeOne_index ⟨hb, hl⟩ id
  · simp only [Net.step] at hf ⊢
    cases hm : moveAll v n.lanelets with
    | mk ls e =>
      cases e with
      | some e =>
        exfalso
        rcases hc e with h | h
        · simp [Net.step, hm] at h
        · exact h v rfl
      | none => simp [Net.reindex, Net.freshEntries]
  · simpa [Net.step, Net.reindex, Net.createTree, Net.freshEntries] using hb
  · simpa [Net.step, Net.reindex, Net.createTree, Net.freshEntries] using hb

/-- All operations of a history are well formed, complete, and none asks for a stale index. -/
def Net.Admissible : Net → List NetOp → Prop
  | _, [] => True
  | n, op :: ops => op.WF ∧ n.completes op ∧ op.noSuspend = true ∧ Net.Admissible (n.step op).2 ops

theorem C11_net_run : ∀ (ops : List NetOp) {n : Net}, n.Fresh → n.IndexFresh → n.Admissible ops →
    (n.run ops).2.Fresh ∧ (n.run ops).2.IndexFresh
  | [], _, h, hi, _ => ⟨h, hi⟩
  | op :: ops, n, h, hi, ha => by
    obtain ⟨a1, a2, a3, a4⟩ := ha
    have := C11_net_run ops (C11_net_fresh_step h op a1 a2) (C11_net_index_step h hi op a1 a2 a3) a4
    simpa [Net.run] using this

theorem Net.rebuild_spec (n : Net) : n.rebuild.Fresh ∧ n.rebuild.IndexFresh ∧ n.rebuild.freshEntries = n.freshEntries := by
  refine ⟨⟨?_, ?_⟩, ?_, ?_⟩
  · simp [Net.rebuild, Net.freshEntries]
  · intro p hp
    simp only [Net.rebuild, List.mem_map] at hp
    obtain ⟨q, _, rfl⟩ := hp
    exact Lan.rebuild_fresh q.2
  · simp [Net.rebuild, Net.IndexFresh, Net.freshEntries]
  · simp [Net.rebuild, Net.freshEntries, Lan.rebuild]

/-- With a fresh index and fresh lanelet caches every query answers exactly as on the network rebuilt with
    `create_from_lanelet_list` from lanelets rebuilt from the current vertices. -/
theorem C11_net_query_as_rebuilt {n : Net} (h : n.Fresh) (hi : n.IndexFresh) (op : NetOp)
    (hq : op = .qFind ∨ (∃ id, op = .qPoly id) ∨ (∃ id, op = .qDist id) ∨ (∃ id, op = .qInner id)) :
    (n.step op).1 = (n.rebuild.step op).1 := by
  obtain ⟨hb, hl⟩ := h
  have hr := n.rebuild_spec
  have hget : ∀ id, assocGet id n.rebuild.lanelets = (assocGet id n.lanelets).map Lan.rebuild := by
    intro id
    simp only [Net.rebuild]
    exact assocGet_map Lan.rebuild id n.lanelets
  rcases hq with rfl | ⟨id, rfl⟩ | ⟨id, rfl⟩ | ⟨id, rfl⟩
  · unfold Net.IndexFresh at hi hr
    simp [Net.step, hi, hr.2.1, hr.2.2]
  · simp only [Net.step, hget]
    cases hg : assocGet id n.lanelets with
    | none => simp
    | some l =>
      have := (hl _ (assocGet_mem hg)).1
      simp only [] at this
      simp [Lan.rebuild, this]
  · simp only [Net.step, hget]
    cases hg : assocGet id n.lanelets with
    | none => simp
    | some l =>
      simp only [Option.map_some]
      rw [(Lan.qDist_spec (hl _ (assocGet_mem hg))).1, (Lan.qDist_spec (Lan.rebuild_fresh l)).1]
      rfl
  · simp only [Net.step, hget]
    cases hg : assocGet id n.lanelets with
    | none => simp
    | some l =>
      simp only [Option.map_some]
      rw [(Lan.qInner_spec (hl _ (assocGet_mem hg))).1, (Lan.qInner_spec (Lan.rebuild_fresh l)).1]
      rfl

example :
    let n : Net := ⟨[(1, Lan.new 0 false), (2, Lan.new 0 false)], [(1, 0), (2, 0)], some [(1, 0), (2, 0)]⟩
    (n.run [.qFind, .translateRotate 1, .qFind, .add 3 (Lan.new 2 false) true, .remove 1 true, .deepcopy, .qFind]).1
      = [.index [(1, 0), (2, 0)], .unit, .index [(1, 1), (2, 1)], .bool true, .unit, .unit, .index [(2, 1), (3, 2)]] := by decide

/-! ## (g) the property as one statement per kind of object -/

theorem Obs.rebuild_fresh (o : Obs) : o.rebuild.Fresh := by
  refine ⟨rfl, ?_⟩
  intro p hp
  simp only [Obs.rebuild, Option.map_eq_some_iff] at hp
  obtain ⟨q, _, rfl⟩ := hp
  cases q with
  | traj r => exact Or.inl rfl
  | setb _ _ => trivial

/-- A prediction handed to `prediction=` / `update_prediction` comes with a coherent cache of its own. -/
def ObsOp.NewPredFresh : ObsOp → Prop
  | .setPrediction (some p) => p.Fresh
  | _ => True

/-- The FULL statement for obstacles and predictions ("translate_rotate on any level"): from any obstacle as a constructor
    leaves it, after ANY sequence of the modelled mutators and queries, every operation answers as on an obstacle freshly
    constructed from the primary data the history has led to. -/
def C11_obs_history_full : Prop :=
  ∀ (o : Obs) (ops : List ObsOp), (∀ op ∈ ops, op.NewPredFresh) → ∀ q : ObsOp,
    ((o.rebuild.run ops).2.step q).1 = ((o.rebuild.run ops).2.rebuild.step q).1

/-- PARTIAL (excluded: `Trajectory.translate_rotate` and `Trajectory.append_state` called on the trajectory a prediction
    holds — `ObsOp.WF`; the code does break the full statement there, see the witnesses).  For every other history of
    `initial_state=`, `obstacle_shape=`, `translate_rotate` (obstacle / scenario / prediction level), `prediction=`,
    `update_prediction`, `update_initial_state`, the prediction's `shape=`, `trajectory=`, `wheelbase_lengths=`, assignment
    setters, and all queries: every operation answers as on an obstacle rebuilt from the current primary data. -/
theorem C11_obs_history_as_fresh_partial (o : Obs) (ops : List ObsOp) (hwf : ∀ op ∈ ops, op.WF) (q : ObsOp) :
    ((o.rebuild.run ops).2.step q).1 = ((o.rebuild.run ops).2.rebuild.step q).1 :=
  C11_obs_answer_as_rebuilt (C11_obs_fresh_run ops o.rebuild_fresh hwf) q

/-- The obstacle of the witnesses: initial step 0, a trajectory prediction over steps 1, 2. -/
def witnessObs : Obs :=
  { dynamic := true, shape := 0, init := 0, t0 := 0, initOcc := some (0, 0), pred := some (.traj ⟨0, ⟨0, 1, [1, 2]⟩, none⟩),
    sig := 0, cen := 0, shp := 0, hist := [], sigHist := [], cenHist := [], shpHist := [] }

/-- WITNESS (real on the code, recorded as known finding `…/stale-after/Trajectory.translate_rotate(held)`): query the
    occupancy, move the held trajectory, query again — the answer is still computed from the old trajectory (version 0),
    the rebuilt obstacle answers from the moved one (version 1). -/
theorem C11_witness_held_trajectory_translate :
    ((witnessObs.rebuild.run [.qPredOcc 1, .trajTranslateRotate 1]).2.step (.qPredOcc 1)).1 = .occ (.traj 0 0 1) ∧
    ((witnessObs.rebuild.run [.qPredOcc 1, .trajTranslateRotate 1]).2.rebuild.step (.qPredOcc 1)).1 = .occ (.traj 0 1 1) := by
  decide

/-- WITNESS (known finding `…/stale-after/Trajectory.append_state(held)`): after `append_state` the cached occupancy set
    has no entry for the new step 3; the rebuilt obstacle has. -/
theorem C11_witness_held_trajectory_append :
    ((witnessObs.rebuild.run [.qPredOcc 1, .trajAppendState 1 3]).2.step (.qOcc 3)).1 = .occ .none ∧
    ((witnessObs.rebuild.run [.qPredOcc 1, .trajAppendState 1 3]).2.rebuild.step (.qOcc 3)).1 = .occ (.traj 0 1 3) := by
  decide

theorem C11_witness_obs_history_full : ¬ C11_obs_history_full := by
  intro h
  have := h witnessObs [.qPredOcc 1, .trajTranslateRotate 1] (by intro op hop; simp at hop; rcases hop with rfl | rfl <;> trivial)
    (.qPredOcc 1)
  rw [C11_witness_held_trajectory_translate.1, C11_witness_held_trajectory_translate.2] at this
  exact absurd this (by decide)

/-- New lanelets come with coherent caches; no `rtree=False`; mutators run to completion — but ANY mutator, including
    `translate_rotate` of a lanelet the network holds. -/
def Net.Admissible0 : Net → List NetOp → Prop
  | _, [] => True
  | n, op :: ops =>
    (match op with | .add _ l _ => l.Fresh | .addFrom ls => ∀ p ∈ ls, p.2.Fresh | .replace ls => ∀ p ∈ ls, p.2.Fresh
                   | .replaceErase _ ls => ∀ p ∈ ls, p.2.Fresh | _ => True) ∧ n.completes op ∧
    op.noSuspend = true ∧ Net.Admissible0 (n.step op).2 ops

/-- The FULL statement for lanelet networks. -/
def C11_net_history_full : Prop :=
  ∀ (n : Net) (ops : List NetOp), n.rebuild.Admissible0 ops → ∀ q : NetOp,
    (q = .qFind ∨ (∃ id, q = .qPoly id) ∨ (∃ id, q = .qDist id) ∨ (∃ id, q = .qInner id)) →
    ((n.rebuild.run ops).2.step q).1 = ((n.rebuild.run ops).2.rebuild.step q).1

/-- PARTIAL (excluded: `Lanelet.translate_rotate` on a lanelet the network holds — `NetOp.WF`, refuted in
    `C11_witness_member_lanelet`; also excluded by `Net.Admissible`: calls with `rtree=False`, which ask for a stale index,
    and a `translate_rotate` that raises half way on 3-D vertices).  For every other history of `add_lanelet`,
    `add_lanelets_from_network`, `remove_lanelet`, `translate_rotate`, `convert_to_2d` (network / scenario level, and
    `convert_to_2d` of a held lanelet), deepcopy, pickle and queries: lookups, polygons and distances answer as on the
    network rebuilt with `create_from_lanelet_list` from the current lanelets. -/
theorem C11_net_history_as_fresh_partial (n : Net) (ops : List NetOp) (ha : n.rebuild.Admissible ops) (q : NetOp)
    (hq : q = .qFind ∨ (∃ id, q = .qPoly id) ∨ (∃ id, q = .qDist id) ∨ (∃ id, q = .qInner id)) :
    ((n.rebuild.run ops).2.step q).1 = ((n.rebuild.run ops).2.rebuild.step q).1 := by
  have h := C11_net_run ops n.rebuild_spec.1 n.rebuild_spec.2.1 ha
  exact C11_net_query_as_rebuilt h.1 h.2 q hq

def witnessNet : Net := ⟨[(1, Lan.new 0 false)], [(1, 0)], some [(1, 0)]⟩

/-- WITNESS (real on the code, known finding `…/stale-after/Lanelet.translate_rotate(member)`): move lanelet 1 of the network
    on its own — the index still holds the polygon of version 0, the rebuilt network the one of version 1; and the stale
    entry survives `add_lanelet`, deepcopy and pickle (they rebuild the tree from the stored polygons). -/
theorem C11_witness_member_lanelet :
    ((witnessNet.rebuild.run [.lanTranslateRotate 1 1]).2.step .qFind).1 = .index [(1, 0)] ∧
    ((witnessNet.rebuild.run [.lanTranslateRotate 1 1]).2.rebuild.step .qFind).1 = .index [(1, 1)] ∧
    ((witnessNet.rebuild.run [.lanTranslateRotate 1 1, .add 2 (Lan.new 2 false) true, .deepcopy, .pickle]).2.step .qFind).1
      = .index [(1, 0), (2, 2)] := by
  decide

theorem C11_witness_net_history_full : ¬ C11_net_history_full := by
  intro h
  have := h witnessNet [.lanTranslateRotate 1 1]
    ⟨trivial, fun e => Or.inr (fun v => by simp), rfl, trivial⟩ .qFind (Or.inl rfl)
  rw [C11_witness_member_lanelet.1, C11_witness_member_lanelet.2.1] at this
  exact absurd this (by decide)

example :
    let o : Obs := { dynamic := true, shape := 0, init := 0, t0 := 0, initOcc := some (0, 0),
                     pred := some (.traj ⟨0, ⟨0, 1, [1, 2, 3]⟩, none⟩), sig := 0, cen := 0, shp := 0,
                     hist := [], sigHist := [], cenHist := [], shpHist := [] }
    o.Fresh ∧ (o.run [.qOcc 2, .translateRotate 1, .qOcc 2, .qOcc 0, .predSetShape 2, .qPredOcc 3, .qOcc 9]).1
      = [.occ (.traj 0 0 2), .unit, .occ (.traj 0 1 2), .occ (.init 0 1 0), .unit, .occ (.traj 2 1 3), .occ .none] := by
  refine ⟨⟨rfl, ?_⟩, by decide⟩
  intro p hp
  simp at hp
  subst hp
  exact Or.inl rfl

example : (⟨[(1, Lan.new 0 false)], [(1, 0)], some [(1, 0)]⟩ : Net).Admissible
    [.qFind, .translateRotate 1, .add 2 (Lan.new 2 true) true, .pickle] := by
  refine ⟨trivial, fun e => Or.inr (fun v => by simp), rfl, trivial, fun e => Or.inl (fun h => by cases h), rfl,
    ⟨rfl, Or.inl rfl, Or.inl rfl⟩, fun e => Or.inr (fun v => by simp), rfl, trivial, fun e => Or.inr (fun v => by simp), rfl, trivial⟩

/-! ## (h) two networks alive side by side: a network derived from another one through a public factory / copy / adder -/

theorem syncShared_nil (src dst : List (Nat × Lan)) : syncShared [] src dst = dst := by
  simp [syncShared]

/-- FRAME: while the two networks share no lanelet object, an operation on one of them is `Net.step` there, leaves the other
    network exactly as it was, and nothing becomes shared. -/
theorem C11_duo_frame (d : Duo) (h : d.shared = []) (s : Side) (op : NetOp) :
    (d.step s op).1 = ((d.side s).step op).1 ∧ (d.step s op).2.shared = [] ∧
    (d.step s op).2.side s = ((d.side s).step op).2 ∧ (∀ t, t ≠ s → (d.step s op).2.side t = d.side t) := by
  cases s with
  | a =>
    refine ⟨rfl, by simp [Duo.step, h], rfl, ?_⟩
    intro t ht
    cases t with
    | a => exact absurd rfl ht
    | b => simp [Duo.step, Duo.side, h, syncShared_nil]
  | b =>
    refine ⟨rfl, by simp [Duo.step, h], rfl, ?_⟩
    intro t ht
    cases t with
    | b => exact absurd rfl ht
    | a => simp [Duo.step, Duo.side, h, syncShared_nil]

/-- The operations addressed to one side, in order. -/
def opsOf (s : Side) (ops : List (Side × NetOp)) : List NetOp := (ops.filter (fun p => p.1 = s)).map (fun p => p.2)

/-- INDEPENDENCE: without shared lanelet objects each network ends where its OWN operations alone would have taken it — the
    history of the sibling is invisible to it (its lanelets, buffered polygons and tree, hence every answer). -/
theorem C11_duo_independent : ∀ (ops : List (Side × NetOp)) (d : Duo), d.shared = [] → ∀ s : Side,
    (d.run ops).2.side s = ((d.side s).run (opsOf s ops)).2
  | [], _, _, _ => rfl
  | (t, op) :: r, d, h, s => by
    have fr := C11_duo_frame d h t op
    have ih := C11_duo_independent r (d.step t op).2 fr.2.1 s
    simp only [Duo.run]
    rw [ih]
    by_cases hts : t = s
    · subst hts
      simp [opsOf, Net.run, fr.2.2.1]
    · have : s ≠ t := fun e => hts e.symm
      simp [opsOf, hts, fr.2.2.2 s this]

/-- Both networks are coherent and share nothing. -/
structure Duo.Good (d : Duo) : Prop where
  sh : d.shared = []
  fa : d.a.Fresh
  ia : d.a.IndexFresh
  fb : d.b.Fresh
  ib : d.b.IndexFresh

theorem C11_duo_step_good {d : Duo} (g : d.Good) (s : Side) (op : NetOp) (hwf : op.WF) (hc : (d.side s).completes op)
    (hs : op.noSuspend = true) : (d.step s op).2.Good := by
  have fr := C11_duo_frame d g.sh s op
  cases s with
  | a =>
    have ha : (d.step .a op).2.a = (d.a.step op).2 := fr.2.2.1
    have hb : (d.step .a op).2.b = d.b := fr.2.2.2 .b (by decide)
    exact ⟨fr.2.1, by rw [ha]; exact C11_net_fresh_step g.fa op hwf hc, by rw [ha]; exact C11_net_index_step g.fa g.ia op hwf hc hs,
      by rw [hb]; exact g.fb, by rw [hb]; exact g.ib⟩
  | b =>
    have hb : (d.step .b op).2.b = (d.b.step op).2 := fr.2.2.1
    have ha : (d.step .b op).2.a = d.a := fr.2.2.2 .a (by decide)
    exact ⟨fr.2.1, by rw [ha]; exact g.fa, by rw [ha]; exact g.ia,
      by rw [hb]; exact C11_net_fresh_step g.fb op hwf hc, by rw [hb]; exact C11_net_index_step g.fb g.ib op hwf hc hs⟩

/-- Every operation of a two-network history is well formed, completes, and does not ask for a stale index (as `Net.Admissible`,
    for the network the operation is called on). -/
def Duo.Admissible : Duo → List (Side × NetOp) → Prop
  | _, [] => True
  | d, (s, op) :: ops => op.WF ∧ (d.side s).completes op ∧ op.noSuspend = true ∧ Duo.Admissible (d.step s op).2 ops

theorem C11_duo_run : ∀ (ops : List (Side × NetOp)) {d : Duo}, d.Good → d.Admissible ops → (d.run ops).2.Good
  | [], _, g, _ => g
  | (s, op) :: ops, d, g, ha => by
    obtain ⟨a1, a2, a3, a4⟩ := ha
    have := C11_duo_run ops (C11_duo_step_good g s op a1 a2 a3) a4
    simpa [Duo.run] using this

/-- Every COPYING derivation — `create_from_lanelet_list` with either value of `cleanup_ids`, `create_from_lanelet_network`,
    deepcopy, pickle — of a coherent network yields a coherent network that shares no lanelet with its source. -/
theorem C11_derive_copy_good {n : Net} (h : n.Fresh) (hi : n.IndexFresh) (dv : Derive) (hd : dv.shares = false) :
    (Duo.derive n dv).Good := by
  have hc : ∀ op : NetOp, (∀ v, op ≠ .translateRotate v) → n.completes op := fun op ho e => Or.inr ho
  have h1 := C11_net_fresh_step h .createFrom trivial (hc _ (by simp))
  have i1 := C11_net_index_step h hi .createFrom trivial (hc _ (by simp)) rfl
  have h2 := C11_net_fresh_step h .deepcopy trivial (hc _ (by simp))
  have i2 := C11_net_index_step h hi .deepcopy trivial (hc _ (by simp)) rfl
  have h3 := C11_net_fresh_step h .pickle trivial (hc _ (by simp))
  have i3 := C11_net_index_step h hi .pickle trivial (hc _ (by simp)) rfl
  cases dv with
  | addFrom => simp [Derive.shares] at hd
  | fromList c => exact ⟨by simp [Duo.derive, Derive.shares], h, hi, h1, i1⟩
  | fromNetwork => exact ⟨by simp [Duo.derive, Derive.shares], h, hi, h1, i1⟩
  | deepcopy => exact ⟨by simp [Duo.derive, Derive.shares], h, hi, h2, i2⟩
  | pickle => exact ⟨by simp [Duo.derive, Derive.shares], h, hi, h3, i3⟩

/-- The FULL statement for two networks: whatever the derivation, after any admissible history on the two networks every query on
    either of them answers as on a network rebuilt from that network's current lanelets. -/
def C11_duo_history_full : Prop :=
  ∀ (n : Net) (pre : List NetOp), n.rebuild.Admissible pre → ∀ (dv : Derive) (ops : List (Side × NetOp)),
    (Duo.derive (n.rebuild.run pre).2 dv).Admissible ops → ∀ (s : Side) (q : NetOp),
    (q = .qFind ∨ (∃ id, q = .qPoly id) ∨ (∃ id, q = .qDist id) ∨ (∃ id, q = .qInner id)) →
    ((((Duo.derive (n.rebuild.run pre).2 dv).run ops).2.side s).step q).1 =
      ((((Duo.derive (n.rebuild.run pre).2 dv).run ops).2.side s).rebuild.step q).1

/-- PARTIAL (excluded: the derivation that hands the source's own lanelet objects to the second network,
    `b.add_lanelets_from_network(a)` — refuted in `C11_witness_shared_lanelets`).  For a second network made by
    `create_from_lanelet_list(a.lanelets, cleanup_ids)` (BOTH values of `cleanup_ids`), `create_from_lanelet_network(a)`, deepcopy
    or pickle, at any point of an admissible history of the source, and any admissible history of operations on the two networks
    afterwards: every lookup, polygon and distance query on EITHER network answers as on a network rebuilt from its own lanelets. -/
theorem C11_duo_history_as_fresh_partial (n : Net) (pre : List NetOp) (hpre : n.rebuild.Admissible pre) (dv : Derive)
    (hd : dv.shares = false) (ops : List (Side × NetOp)) (ha : (Duo.derive (n.rebuild.run pre).2 dv).Admissible ops)
    (s : Side) (q : NetOp) (hq : q = .qFind ∨ (∃ id, q = .qPoly id) ∨ (∃ id, q = .qDist id) ∨ (∃ id, q = .qInner id)) :
    ((((Duo.derive (n.rebuild.run pre).2 dv).run ops).2.side s).step q).1 =
      ((((Duo.derive (n.rebuild.run pre).2 dv).run ops).2.side s).rebuild.step q).1 := by
  have h0 := C11_net_run pre n.rebuild_spec.1 n.rebuild_spec.2.1 hpre
  have g := C11_duo_run ops (C11_derive_copy_good h0.1 h0.2 dv hd) ha
  cases s with
  | a => exact C11_net_query_as_rebuilt g.fa g.ia q hq
  | b => exact C11_net_query_as_rebuilt g.fb g.ib q hq

/-- WITNESS (real on the code, known finding `…/stale-after/LaneletNetwork.translate_rotate(sibling-sharing-lanelets)`):
    `b = LaneletNetwork(); b.add_lanelets_from_network(a)` holds a's lanelet objects; `a.translate_rotate` moves them; b's index
    still holds the polygon of version 0, b rebuilt from its (moved) lanelets the one of version 1 — while a itself is fresh,
    and a copying derivation leaves b where it was. -/
theorem C11_witness_shared_lanelets :
    (((Duo.derive witnessNet.rebuild .addFrom).run [(.a, .translateRotate 1)]).2.b.step .qFind).1 = .index [(1, 0)] ∧
    (((Duo.derive witnessNet.rebuild .addFrom).run [(.a, .translateRotate 1)]).2.b.rebuild.step .qFind).1 = .index [(1, 1)] ∧
    (((Duo.derive witnessNet.rebuild .addFrom).run [(.a, .translateRotate 1)]).2.a.step .qFind).1 = .index [(1, 1)] ∧
    (((Duo.derive witnessNet.rebuild (.fromList false)).run [(.a, .translateRotate 1)]).2.b.rebuild.step .qFind).1 = .index [(1, 0)] := by
  decide

theorem ne_err_of_eq_unit {a : NetAns} (h : a = .unit) (e : Err) : a ≠ .err e := by
  subst h
  exact fun h => nomatch h

theorem C11_witness_duo_history_full : ¬ C11_duo_history_full := by
  intro h
  have := h witnessNet [] trivial .addFrom [(.a, .translateRotate 1)]
    ⟨trivial, fun e => Or.inl (ne_err_of_eq_unit (by decide) e), rfl, trivial⟩ .b .qFind (Or.inl rfl)
  simp only [Net.run, Duo.side] at this
  rw [C11_witness_shared_lanelets.1, C11_witness_shared_lanelets.2.1] at this
  exact absurd this (by decide)

example : (Duo.derive witnessNet.rebuild (.fromList false)).Admissible
    [(.b, .translateRotate 1), (.a, .qFind), (.a, .add 2 (Lan.new 2 false) true), (.b, .qFind)] := by
  refine ⟨trivial, fun e => Or.inl (ne_err_of_eq_unit (by decide) e), rfl, trivial, fun e => Or.inr (fun v => by simp), rfl,
    ⟨rfl, Or.inl rfl, Or.inl rfl⟩, fun e => Or.inr (fun v => by simp), rfl, trivial, fun e => Or.inr (fun v => by simp), rfl, trivial⟩

/-- `Scenario.remove_lanelet([1, 7])` removes lanelet 1, then raises KeyError for the unknown 7: the index answers without 1. -/
example :
    let n : Net := ⟨[(1, Lan.new 0 false), (2, Lan.new 0 false)], [(1, 0), (2, 0)], some [(1, 0), (2, 0)]⟩
    (n.run [.qFind, .removeMany [(1, true), (7, true), (2, true)], .qFind]).1 = [.index [(1, 0), (2, 0)], .err .key, .index [(2, 0)]] := by
  decide

end CR.Cache
