/-
  C11 — derived data never goes stale under mutation (stage 1: the table as the UNCHANGED tree has it).
-/
import CRProofs.Cache
namespace CR.Cache

theorem C11_coherent_run {P D M : Type} (S : Spec P D M) (hs : Sound S) (p : P) (evs : List (Ev M)) :
    ∀ x ∈ S.answers ⟨p, none⟩ evs, x.1 = S.derive x.2 :=
  answers_fresh S hs evs (Or.inl rfl)

/-- On the unchanged tree these rows keep a cache although they overwrite what it was derived from. -/
theorem C11_witness_unsound_rows : unsoundRows =
    [(.occupancySet, .predTranslateRotate), (.occupancySet, .obsTranslateRotate),
     (.laneletDistance, .lanConvert2d), (.laneletInnerDistance, .lanConvert2d),
     (.laneletDistance, .netConvert2d), (.laneletInnerDistance, .netConvert2d),
     (.networkIndex, .netTranslateRotate), (.cycleInit, .cycSetElements), (.cycleInit, .cycSetOffset)] := by decide

end CR.Cache
