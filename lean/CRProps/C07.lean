import CRModel.Assign
namespace CR.Assign
theorem C07_stub : True := trivial
end CR.Assign
