/-
  C07 — Obstacle–lanelet assignment is geometrically correct and invertible.

  Model: CRModel/Assign.lean (scenario.py:712-724, 773-889, 1203-1295; lanelet.py:993-1010; file_reader_xml.py:1150-1296;
  file_reader_protobuf.py:590-690, 848-912).  Helper lemmas: CRProofs/Assign.lean.

  The two geometric lookups are parameters (`E.cen o t` = `find_lanelet_by_position` of the centre of obstacle `o` at time
  step `t`, `E.shp o t` = `find_lanelet_by_shape` of its occupancy); `WfEnv` says that they answer with lanelets of the network,
  each once.  Everything below holds for EVERY environment and EVERY number of lanelets / obstacles / time steps (no bound).
  Histories: the theorems of the section "ALL histories" hold for every sequence of operations whatsoever; the EXACT inverse
  (`Inverse`, names ending in `_partial`) holds for every sequence without `use_center_only=True` — after such a call the
  registries list the centre lanelets by the documented purpose of the flag, `C07_witness_center_only` is the counterexample;
  `C07_registry_bounds_run` and `C07_remove_clears` say what holds then.  What is not proved here: that the lookups agree with the geometry (GEOS is not modelled; the
  harness oracle checks that by brute force on every run), and the state after a Python exception.
-/
import CRProofs.AssignWeak

namespace CR.Assign

/-- operations the inverse clause speaks about: everything except `assign_obstacles_to_lanelets(use_center_only=True)`,
    which by design fills the registries from the centre lanelets -/
def Op.ShapeBased : Op → Prop
  | .assign _ _ co => co = false
  | _ => True

/-- the registries are exactly the inverse of the recorded shape assignment -/
def Inverse (E : Env) (s : St) : Prop :=
  (∀ l o, o ∈ s.sreg l ↔ (o ∈ s.statics ∧ RecShapeS (s.fwd o) l)) ∧
  (∀ l t o, memD s.dreg l t o ↔ (o ∈ s.dynamics ∧ RecShapeD E (s.fwd o) o t l))

theorem C07_inv_init (E : Env) : Inv E St.init := by
  refine ⟨fun o => ⟨?_, ?_, ?_, ?_, ?_⟩, ?_, ?_, ?_, ?_⟩
  · intro ids h; cases h
  · intro d h; cases h
  · intro ids h; cases h
  · intro d h; cases h
  · intro ids h; cases h
  · intro o h; cases h
  · intro o h; cases h
  · intro l o; simp [St.init]
  · intro l t o; simp [St.init, memD]

/-- every operation except `assign(use_center_only=True)` keeps the exact invariant (registries = inverse of the recorded shape
    relation, every recorded centre / shape set = lookup answer) -/
theorem C07_inv_step_partial {E : Env} {s s' : St} {op : Op} (hw : WfEnv E) (hi : Inv E s) (hop : op.ShapeBased)
    (h : step E s op = .ok s') : Inv E s' := by
  cases op with
  | add o => exact inv_add hw hi h
  | remove o => exact inv_remove hw hi h
  | assign ids ts co =>
    have : co = false := hop
    subst this
    exact (inv_assign hi h).1
  | reopenXml => exact (inv_reopenXml hw hi.base h).1
  | reopenPb => exact (inv_reopenPb hw hi.base h).1

/-- … hence every sequence of add / shape-based assign / remove / re-open does (induction over the history).
    PARTIAL: `use_center_only=True` is excluded (`Op.ShapeBased`); see `C07_witness_center_only` and, for what holds after
    every history, `C07_weak_inv_run`. -/
theorem C07_inv_run_partial {E : Env} (hw : WfEnv E) : ∀ (ops : List Op) (s s' : St), Inv E s → (∀ op ∈ ops, op.ShapeBased) →
    run E s ops = .ok s' → Inv E s' := by
  intro ops
  induction ops with
  | nil =>
    intro s s' hi _ h
    simp only [run, List.foldlM_nil, pure_ok] at h
    exact h ▸ hi
  | cons op ops ih =>
    intro s s' hi hops h
    simp only [run, List.foldlM_cons] at h
    obtain ⟨s1, h1, h2⟩ := bind_ok.mp h
    exact ih s1 s' (C07_inv_step_partial hw hi (hops op List.mem_cons_self) h1)
      (fun o ho => hops o (List.mem_cons_of_mem _ ho)) h2

/-- **Inverse** (PARTIAL: histories without `use_center_only=True`): after every such history (from the empty scenario) each
    lanelet's registry of static obstacles and of dynamic
    obstacles per time step is exactly the inverse of the shape assignment recorded on the obstacles of the scenario. -/
theorem C07_inverse_run_partial {E : Env} (hw : WfEnv E) (ops : List Op) (hops : ∀ op ∈ ops, op.ShapeBased) (s : St)
    (h : run E St.init ops = .ok s) : Inverse E s := by
  have hi := C07_inv_run_partial hw ops St.init s (C07_inv_init E) hops h
  exact ⟨fun l o => by rw [hi.invS]; simp, fun l t o => by rw [hi.invD]; simp⟩

/-- **assign_correct**: after `assign_obstacles_to_lanelets()` every obstacle of the scenario carries, for every time step of
    its horizon, exactly the centre-lookup and the shape-lookup answer (initial sets and per-time-step dicts). -/
theorem C07_assign_correct {E : Env} {s s' : St} (hi : Inv E s) (h : assign E none none false s = .ok s') :
    ∀ o, o ∈ s.statics ++ s.dynamics → ∀ t, InHorizon E o t → Assigned E (s'.fwd o) o t :=
  assigned_assign hi.kindS h

/-- the same through `CommonRoadFileReader(...).open(lanelet_assignment=True)`, XML and protobuf -/
theorem C07_open_correct_xml {E : Env} {s s' : St} (h : reopenXml E s = .ok s') :
    ∀ o, o ∈ s.statics ++ s.dynamics → E.kind o ≠ Kind.dynSet → ∀ t, InHorizon E o t → Assigned E (s'.fwd o) o t :=
  assigned_reopenXml h

theorem C07_open_correct_pb {E : Env} {s s' : St} (h : reopenPb E s = .ok s') :
    ∀ o, o ∈ s.statics ++ s.dynamics → E.kind o ≠ Kind.dynSet → ∀ t, InHorizon E o t → Assigned E (s'.fwd o) o t :=
  assigned_reopenPb h

/-- outside the property's quantifier, as the code is: a dynamic obstacle with a SetBasedPrediction is never listed on a
    lanelet, in any state reached by a history; its recorded sets are `None` or `set()`; and an assignment that addresses it
    raises AttributeError (a SetBasedPrediction has no `*_lanelet_assignment`) -/
theorem C07_set_based {E : Env} (hw : WfEnv E) (ops : List Op) (hops : ∀ op ∈ ops, op.ShapeBased) (s : St)
    (h : run E St.init ops = .ok s) (o : Id) (hk : E.kind o = Kind.dynSet) :
    (∀ l t, ¬ memD s.dreg l t o) ∧ (∀ l, o ∉ s.sreg l) ∧
    (∀ ids, (s.fwd o).initShape = some ids → ids = []) ∧
    (∀ ts co, o ∈ s.dynamics → assignObs E ts co s o = .error .attr) := by
  have hi := C07_inv_run_partial hw ops St.init s (C07_inv_init E) hops h
  refine ⟨fun l t hm => ?_, fun l hm => ?_, fun ids hids => ?_, fun ts co hod => ?_⟩
  · exact RecShapeD.not_set (hi.coh o) ((hi.invD l t o).mp hm).2.2 hk
  · have := hi.kindS o ((hi.invS l o).mp hm).2.1
    rw [hk] at this; cases this
  · rw [(hi.coh o).initShape ids hids]; unfold effShp; rw [if_pos hk]
  · unfold assignObs; rw [if_pos hod, if_pos hk]

/-- **registries = geometry** after an assignment: a dynamic obstacle is listed on lanelet `l` at time step `t` iff it is in
    the scenario, `t` is in its horizon and the shape lookup at `t` answers `l`; a static obstacle is listed on `l` iff it is
    in the scenario and the shape lookup answers `l`. -/
theorem C07_registry_exact_after_assign {E : Env} {s s' : St} (hi : Inv E s)
    (h : assign E none none false s = .ok s') :
    (∀ l t o, memD s'.dreg l t o ↔ (o ∈ s'.dynamics ∧ InHorizon E o t ∧ l ∈ E.shp o t)) ∧
    (∀ l o, o ∈ s'.sreg l ↔ (o ∈ s'.statics ∧ l ∈ E.shp o (E.t0 o))) := by
  obtain ⟨hi', e2, e3⟩ := inv_assign hi h
  have ha := C07_assign_correct hi h
  constructor
  · intro l t o
    rw [hi'.invD]
    simp only [true_and]
    constructor
    · rintro ⟨h1, h2⟩
      refine ⟨h1, ?_⟩
      exact (rec_iff_lookup (hi'.coh o) (fun t' ht' => ha o (List.mem_append.mpr (Or.inr (e3 ▸ h1))) t' ht') t l).mp h2
    · rintro ⟨h1, h2⟩
      refine ⟨h1, ?_⟩
      exact (rec_iff_lookup (hi'.coh o) (fun t' ht' => ha o (List.mem_append.mpr (Or.inr (e3 ▸ h1))) t' ht') t l).mpr h2
  · intro l o
    rw [hi'.invS]
    simp only [true_and]
    constructor
    · rintro ⟨h1, h2⟩
      exact ⟨h1, RecShapeS.mem_lanelets (hi'.coh o) h2⟩
    · rintro ⟨h1, h2⟩
      obtain ⟨a1, _⟩ := ha o (List.mem_append.mpr (Or.inl (e2 ▸ h1))) (E.t0 o) (Or.inl rfl)
      exact ⟨h1, _, (a1 rfl).2, h2⟩

/-! ## ALL histories — `use_center_only=True`, partial id / time-step lists and re-reads included -/

/-- the invariant of all histories (`WeakInv`): every recorded centre and shape set is a lookup answer of a time step of the
    horizon, and the registries CONTAIN the inverse of the recorded shape relation, keys present -/
theorem C07_weak_inv_step {E : Env} {s s' : St} {op : Op} (hw : WfEnv E) (hi : WeakInv E s)
    (h : step E s op = .ok s') : WeakInv E s' := by
  cases op with
  | add o => exact weak_add hw hi h
  | remove o => exact weak_remove hi h
  | assign ids ts co => exact weak_assign hi h
  | reopenXml => exact weak_of_inv (inv_reopenXml hw hi.base h).1
  | reopenPb => exact weak_of_inv (inv_reopenPb hw hi.base h).1

theorem C07_weak_inv_run {E : Env} (hw : WfEnv E) : ∀ (ops : List Op) (s s' : St), WeakInv E s →
    run E s ops = .ok s' → WeakInv E s' := by
  intro ops
  induction ops with
  | nil =>
    intro s s' hi h
    simp only [run, List.foldlM_nil, pure_ok] at h
    exact h ▸ hi
  | cons op ops ih =>
    intro s s' hi h
    simp only [run, List.foldlM_cons] at h
    obtain ⟨s1, h1, h2⟩ := bind_ok.mp h
    exact ih s1 s' (C07_weak_inv_step hw hi h1) h2

/-- a file read re-establishes the EXACT invariant whatever happened before (the registries are rebuilt from the shape sets) -/
theorem C07_reopen_restores {E : Env} {s s' : St} (hw : WfEnv E) (hi : WeakInv E s)
    (h : reopenXml E s = .ok s' ∨ reopenPb E s = .ok s') : Inverse E s' := by
  have hi' : Inv E s' := by
    rcases h with h | h
    · exact (inv_reopenXml hw hi.base h).1
    · exact (inv_reopenPb hw hi.base h).1
  exact ⟨fun l o => by rw [hi'.invS]; simp, fun l t o => by rw [hi'.invD]; simp⟩

/-- **recorded = lookup answers**, centres and shapes, after EVERY history: whatever an obstacle object carries — initial
    centre / shape set, any entry of the per-time-step centre / shape dict — is the answer of the corresponding lookup for a
    time step of the obstacle's horizon (`set()` for a set-based prediction) -/
theorem C07_recorded_true {E : Env} (hw : WfEnv E) (ops : List Op) (s : St) (h : run E St.init ops = .ok s) (o : Id) :
    (∀ ids, (s.fwd o).initCenter = some ids → ids = effCen E o (E.t0 o)) ∧
    (∀ ids, (s.fwd o).initShape = some ids → ids = effShp E o (E.t0 o)) ∧
    (∀ d t ids, (s.fwd o).predCenter = some d → (t, ids) ∈ d → ids = E.cen o t ∧ E.t0 o ≤ t ∧ t ≤ E.tf o) ∧
    (∀ d t ids, (s.fwd o).predShape = some d → (t, ids) ∈ d → ids = E.shp o t ∧ E.t0 o ≤ t ∧ t ≤ E.tf o) := by
  have hc := (C07_weak_inv_run hw ops St.init s (weak_init E) h).base.coh o
  exact ⟨hc.initCenter, hc.initShape, fun d t ids hd hm => hc.predCenter d hd t ids hm,
    fun d t ids hd hm => hc.predShape d hd t ids hm⟩

/-- the registries contain the inverse of the recorded shape assignment after EVERY history -/
theorem C07_superset_run {E : Env} (hw : WfEnv E) (ops : List Op) (s : St) (h : run E St.init ops = .ok s) :
    (∀ l o, o ∈ s.statics → RecShapeS (s.fwd o) l → o ∈ s.sreg l) ∧
    (∀ l t o, o ∈ s.dynamics → RecShapeD E (s.fwd o) o t l → memD s.dreg l t o) :=
  have hi := C07_weak_inv_run hw ops St.init s (weak_init E) h
  ⟨hi.supS, hi.supD⟩

/-- the full statement of the inverse clause over ALL histories … -/
def C07_inverse_run_full : Prop :=
  ∀ (E : Env), WfEnv E → ∀ (ops : List Op) (s : St), run E St.init ops = .ok s → Inverse E s

/-- … is FALSE for the code as it is: `assign_obstacles_to_lanelets(use_center_only=True)` on a never shape-assigned static
    obstacle lists it on its centre lanelet while its shape set is `None`.  This is the documented purpose of the flag
    ("otherwise only the center is used"), hence outside the property's sentence about the shape assignment; replayed on the
    real code by corpus/C07/center_only_then_remove.json. -/
theorem C07_witness_center_only : ¬ C07_inverse_run_full := by
  intro hfull
  let E : Env := { lanelets := [1], kind := fun _ => .static, t0 := fun _ => 0, len := fun _ => 0,
                   cen := fun _ _ => [1], shp := fun _ _ => [1] }
  have hw : WfEnv E := ⟨fun _ _ l h => h, fun _ _ => (by simp : ([1] : List Id).Nodup), fun _ _ l h => h, fun _ _ => (by simp : ([1] : List Id).Nodup)⟩
  have hrun : ∃ s, run E St.init [.add 30, .assign none none true] = .ok s ∧ (30 : Id) ∈ s.sreg 1 ∧
      (s.fwd 30).initShape = none := ⟨_, rfl, by decide, rfl⟩
  obtain ⟨s, h1, h2, h3⟩ := hrun
  obtain ⟨_, ids, h4, _⟩ := ((hfull E hw _ s h1).1 1 30).mp h2
  rw [h3] at h4; cases h4

/-- FIXED (680e9aa "fix: remove_obstacle also unregisters the obstacle from its center lanelets"; found by this audit as
    C07/remove_obstacle/registry-lists-removed-obstacle/center-only): on the history of `C07_witness_center_only` followed by
    `remove_obstacle` the repaired code leaves no trace of the obstacle — regression corpus/C07/center_only_then_remove.json;
    the general statement is `C07_remove_clears`. -/
example : ((run { lanelets := [1], kind := fun _ => .static, t0 := fun _ => 0, len := fun _ => 0,
                  cen := fun _ _ => [1], shp := fun _ _ => [1] } St.init
      [.add 30, .assign none none true, .remove 30]).toOption.map fun s => (s.sreg 1, s.statics)) =
    some (([] : List Int), ([] : List Int)) := by rfl

/-- the invariant of all histories, second half (`SubInv`): whatever a lanelet lists is an obstacle OF THE SCENARIO whose
    recorded shape set or recorded centre set (at that time step) holds the lanelet -/
theorem C07_sub_inv_run {E : Env} (hw : WfEnv E) : ∀ (ops : List Op) (s s' : St), WeakInv E s → SubInv E s →
    run E s ops = .ok s' → SubInv E s' := by
  intro ops
  induction ops with
  | nil =>
    intro s s' _ hi h
    simp only [run, List.foldlM_nil, pure_ok] at h
    exact h ▸ hi
  | cons op ops ih =>
    intro s s' hwk hi h
    simp only [run, List.foldlM_cons] at h
    obtain ⟨s1, h1, h2⟩ := bind_ok.mp h
    refine ih s1 s' (C07_weak_inv_step hw hwk h1) ?_ h2
    cases op with
    | add o => exact sub_add hi hwk.base h1
    | remove o => exact sub_remove hw hi hwk.base h1
    | assign ids ts co => exact sub_assign hi hwk h1
    | reopenXml => exact sub_of_inv (inv_reopenXml hw hwk.base h1).1
    | reopenPb => exact sub_of_inv (inv_reopenPb hw hwk.base h1).1

/-- **the registries after EVERY history, both inclusions**: recorded shape relation of the scenario's obstacles ⊆ registries ⊆
    recorded shape ∪ recorded centre relation of the scenario's obstacles.  Without centre-only calls the two bounds coincide
    (`C07_inverse_run_partial`). -/
theorem C07_registry_bounds_run {E : Env} (hw : WfEnv E) (ops : List Op) (s : St) (h : run E St.init ops = .ok s) :
    (∀ l o, (o ∈ s.statics ∧ RecShapeS (s.fwd o) l → o ∈ s.sreg l) ∧
            (o ∈ s.sreg l → o ∈ s.statics ∧ (RecShapeS (s.fwd o) l ∨ RecCenS (s.fwd o) l))) ∧
    (∀ l t o, (o ∈ s.dynamics ∧ RecShapeD E (s.fwd o) o t l → memD s.dreg l t o) ∧
              (memD s.dreg l t o → o ∈ s.dynamics ∧ (RecShapeD E (s.fwd o) o t l ∨ RecCenD E (s.fwd o) o t l))) := by
  have h1 := C07_weak_inv_run hw ops St.init s (weak_init E) h
  have h2 := C07_sub_inv_run hw ops St.init s (weak_init E) (sub_init E) h
  exact ⟨fun l o => ⟨fun hx => h1.supS l o hx.1 hx.2, h2.subS l o⟩, fun l t o => ⟨fun hx => h1.supD l t o hx.1 hx.2, h2.subD l t o⟩⟩

/-- **remove_clears**, ALL histories (centre-only assignments included): in every state reached by any sequence of operations
    `remove_obstacle(o)` returns a state in which `o` is in neither obstacle dict and is listed by NO lanelet, neither as a
    static obstacle nor at any time step — and no other obstacle leaves the scenario -/
theorem C07_remove_clears {E : Env} (hw : WfEnv E) (ops : List Op) (s : St) (h : run E St.init ops = .ok s) (o : Id) :
    ∃ s', remove E s o = .ok s' ∧ o ∉ s'.statics ∧ o ∉ s'.dynamics ∧ (∀ l, o ∉ s'.sreg l) ∧ (∀ l t, ¬ memD s'.dreg l t o) ∧
      (∀ x, x ≠ o → (x ∈ s'.statics ↔ x ∈ s.statics) ∧ (x ∈ s'.dynamics ↔ x ∈ s.dynamics)) := by
  have h1 := C07_weak_inv_run hw ops St.init s (weak_init E) h
  have h2 := C07_sub_inv_run hw ops St.init s (weak_init E) (sub_init E) h
  obtain ⟨s', hr⟩ := remove_total_weak hw h1 o
  have h3 := sub_remove hw h2 h1.base hr
  have hlists : s'.statics = (if o ∈ s.statics then s.statics.filter (· ≠ o) else s.statics) ∧
      s'.dynamics = (if o ∈ s.statics then s.dynamics else if o ∈ s.dynamics then s.dynamics.filter (· ≠ o) else s.dynamics) := by
    unfold remove at hr
    split at hr
    · next hos => cases hr; simp [hos]
    · next hos =>
      split at hr
      · next hod =>
        split at hr
        · cases hr; simp [hos, hod]
        · cases hr; simp [hos, hod]
      · next hod => cases hr; simp [hos, hod]
  have hgone : o ∉ s'.statics ∧ o ∉ s'.dynamics := by
    rw [hlists.1, hlists.2]
    by_cases hos : o ∈ s.statics
    · rw [if_pos hos, if_pos hos]
      exact ⟨by simp [List.mem_filter], fun hd => h1.base.kindD o hd (h1.base.kindS o hos)⟩
    · by_cases hod : o ∈ s.dynamics
      · rw [if_neg hos, if_neg hos, if_pos hod]
        exact ⟨hos, by simp [List.mem_filter]⟩
      · rw [if_neg hos, if_neg hos, if_neg hod]
        exact ⟨hos, hod⟩
  refine ⟨s', hr, hgone.1, hgone.2, fun l hl => hgone.1 (h3.subS l o hl).1, fun l t hm => hgone.2 (h3.subD l t o hm).1, ?_⟩
  intro x hx
  rw [hlists.1, hlists.2]
  constructor
  · split
    · simp [List.mem_filter, hx]
    · rfl
  · split
    · rfl
    · split
      · simp [List.mem_filter, hx]
      · rfl

/-- **remove_total**, EVERY state: `remove_obstacle` returns normally whatever the state — for an obstacle of the scenario (no
    KeyError from `set.remove` / `dict[t]`, no AttributeError from a missing lanelet: since 680e9aa / d431666 every loop of
    `_remove_*_obstacle_from_lanelets` is guarded) and for any other one (warning only).  No invariant, no `WfEnv` is needed;
    histories with a changing lanelet network: CRProps/C07c.lean. -/
theorem C07_remove_total (E : Env) (s : St) (o : Id) : ∃ s', remove E s o = .ok s' :=
  remove_total E s o

/-- adding an obstacle with a fresh id never fails in a state reached by any history (also a re-added obstacle that still
    carries its assignment) -/
theorem C07_add_total {E : Env} (hw : WfEnv E) (ops : List Op) (s : St) (h : run E St.init ops = .ok s) (o : Id)
    (hfresh : o ∉ s.statics ∧ o ∉ s.dynamics ∧ o ∉ E.lanelets) : ∃ s', add E s o = .ok s' :=
  add_total hw (C07_weak_inv_run hw ops St.init s (weak_init E) h).base hfresh

/-- admissible arguments of `assign_obstacles_to_lanelets(time_steps, obstacle_ids, use_center_only)` in state `s`: the ids
    name obstacles of the scenario, none with a set-based prediction, and no requested time step lies before the initial time
    step of a trajectory-predicted obstacle (unsorted, repeated and out-of-horizon steps are fine) -/
def AssignAdm (E : Env) (s : St) (ids : Option (List Id)) (ts : Option (List T)) : Prop :=
  ∀ o ∈ ids.getD (s.statics ++ s.dynamics), (o ∈ s.statics ∨ o ∈ s.dynamics) ∧
    (o ∈ s.dynamics → E.kind o ≠ Kind.dynSet) ∧
    (∀ l, ts = some l → ∀ t ∈ l, E.kind o = Kind.dynTraj → E.t0 o ≤ t)

/-- every admissible assignment — full or partial, shape-based or centre-only — returns normally, in ANY state -/
theorem C07_assign_total {E : Env} (hw : WfEnv E) (s : St) (ids : Option (List Id)) (ts : Option (List T)) (co : Bool)
    (ha : AssignAdm E s ids ts) : ∃ s', assign E ids ts co s = .ok s' :=
  assign_total' hw ids ts co s ha

/-- reading a file with `lanelet_assignment=True` never fails in a reachable state (XML and protobuf) -/
theorem C07_open_total {E : Env} (hw : WfEnv E) (ops : List Op) (s : St) (h : run E St.init ops = .ok s) :
    (∃ s', reopenXml E s = .ok s') ∧ (∃ s', reopenPb E s = .ok s') :=
  have hb := (C07_weak_inv_run hw ops St.init s (weak_init E) h).base
  ⟨reopenXml_total hw hb, reopenPb_total hw hb⟩

/-- an operation with admissible arguments -/
def Op.Adm (E : Env) (s : St) : Op → Prop
  | .add o => o ∉ s.statics ∧ o ∉ s.dynamics ∧ o ∉ E.lanelets
  | .remove _ => True
  | .assign ids ts _ => AssignAdm E s ids ts
  | .reopenXml => True
  | .reopenPb => True

/-- every operation of the history is admissible in the state it is applied to -/
def AdmRun (E : Env) : St → List Op → Prop
  | _, [] => True
  | s, op :: ops => Op.Adm E s op ∧ ∀ s', step E s op = .ok s' → AdmRun E s' ops

/-- **no history of admissible operations ever fails** (so the conditional `run … = .ok s` of the other theorems is met by
    all of them), and the invariant of all histories holds at its end -/
theorem C07_run_total {E : Env} (hw : WfEnv E) : ∀ (ops : List Op) (s : St), WeakInv E s → AdmRun E s ops →
    ∃ s', run E s ops = .ok s' ∧ WeakInv E s' := by
  intro ops
  induction ops with
  | nil => intro s hi _; exact ⟨s, rfl, hi⟩
  | cons op ops ih =>
    intro s hi ha
    have hstep : ∃ s1, step E s op = .ok s1 := by
      cases op with
      | add o => exact add_total hw hi.base ha.1
      | remove o => exact remove_total E s o
      | assign ids ts co => exact assign_total' hw ids ts co s ha.1
      | reopenXml => exact reopenXml_total hw hi.base
      | reopenPb => exact reopenPb_total hw hi.base
    obtain ⟨s1, h1⟩ := hstep
    obtain ⟨s2, h2, hi2⟩ := ih s1 (C07_weak_inv_step hw hi h1) (ha.2 s1 h1)
    refine ⟨s2, ?_, hi2⟩
    simp only [run, List.foldlM_cons, h1] at h2 ⊢
    exact h2

/-- the registries are sets: after EVERY history no lanelet lists an obstacle twice (static set, every per-time-step set) -/
theorem C07_registries_nodup {E : Env} : ∀ (ops : List Op) (s s' : St), RegNodup s → run E s ops = .ok s' → RegNodup s' := by
  intro ops
  induction ops with
  | nil =>
    intro s s' hn h
    simp only [run, List.foldlM_nil, pure_ok] at h
    exact h ▸ hn
  | cons op ops ih =>
    intro s s' hn h
    simp only [run, List.foldlM_cons] at h
    obtain ⟨s1, h1, h2⟩ := bind_ok.mp h
    refine ih s1 s' ?_ h2
    cases op with
    | add o => exact nodup_add hn h1
    | remove o => exact nodup_remove hn h1
    | assign ids ts co => exact nodup_assign hn h1
    | reopenXml => exact nodup_reopenXml h1
    | reopenPb => exact nodup_reopenPb h1

/-! ### non-vacuity: a concrete road, three obstacles, a history — the hypotheses are satisfiable and the model computes -/

/-- two lanes 1, 2; static obstacle 30 (centre on lane 1, shape on both), dynamic obstacle 31 with two trajectory states
    (t = 2, 3, 4), dynamic obstacle 32 without prediction, off the road, dynamic obstacle 33 with a set-based prediction -/
def E0 : Env :=
  { lanelets := [1, 2]
    kind := fun o => if o = 30 then .static else if o = 31 then .dynTraj else if o = 33 then .dynSet else .dynNone
    t0 := fun o => if o = 31 then 2 else 0
    len := fun o => if o = 31 then 2 else 0
    cen := fun o t => if o = 30 then [1] else if o = 31 then (if t = 4 then [2] else [1]) else []
    shp := fun o t => if o = 30 then [1, 2] else if o = 31 then (if t = 2 then [1] else if t = 3 then [1, 2] else [2]) else [] }

example : WfEnv E0 := by
  refine ⟨?_, ?_, ?_, ?_⟩
  · intro o t l h
    simp only [E0] at h ⊢
    split at h
    · exact h
    · split at h
      · split at h
        · simp at h; simp [h]
        · split at h
          · exact h
          · simp at h; simp [h]
      · cases h
  · intro o t
    simp only [E0]
    split
    · decide
    · split
      · split
        · decide
        · split <;> decide
      · exact List.nodup_nil
  · intro o t l h
    simp only [E0] at h ⊢
    split at h
    · simp at h; simp [h]
    · split at h
      · split at h
        · simp at h; simp [h]
        · simp at h; simp [h]
      · cases h
  · intro o t
    simp only [E0]
    split
    · decide
    · split
      · split <;> decide
      · exact List.nodup_nil

def ops0 : List Op := [.add 30, .add 31, .add 32, .assign none none false, .remove 30, .add 30, .reopenXml, .remove 31]

example : ∀ op ∈ ops0, op.ShapeBased := by
  intro op h
  simp only [ops0, List.mem_cons, List.mem_nil_iff, or_false] at h
  rcases h with rfl | rfl | rfl | rfl | rfl | rfl | rfl | rfl <;> simp [Op.ShapeBased]

/-- the history runs; afterwards lane 2 lists the static obstacle (shape, not centre!), the removed dynamic obstacle 31 is
    listed nowhere (the key of time step 3 stays, with an empty set), and obstacle 30 carries centre {1} / shape {1, 2} -/
example : ((run E0 St.init ops0).toOption.map fun s =>
    (s.sreg 1, s.sreg 2, s.dreg 2 3, s.statics, s.dynamics, (s.fwd 30).initCenter, (s.fwd 30).initShape)) =
    some (([30] : List Int), ([30] : List Int), (some [] : Option (List Int)), ([30] : List Int), ([32] : List Int),
          (some [1] : Option (List Int)), (some [1, 2] : Option (List Int))) := by rfl

/-- a set-based prediction: read back with `set()` / `set()`, listed nowhere, and `assign_obstacles_to_lanelets()` raises -/
example : ((run E0 St.init [.add 33, .add 30, .reopenPb]).toOption.map fun s =>
    ((s.fwd 33).initCenter, (s.fwd 33).initShape, s.dreg 1 0, s.dreg 2 0, s.dynamics, s.sreg 2)) =
    some ((some [] : Option (List Int)), (some [] : Option (List Int)), (none : Option (List Int)), (none : Option (List Int)),
          ([33] : List Int), ([30] : List Int)) := by rfl

example : (run E0 St.init [.add 33, .assign none none false]).toOption.isNone = true := by rfl

/-- the static-registry defect of the unrepaired code, on the model: had `assign_static_obstacle` registered the CENTRE
    lanelets, lane 2 would not list obstacle 30 although its shape set holds lane 2 — `Inverse` fails -/
example : (30 : Id) ∉ (sAdd (fun _ => []) 1 30) 2 ∧ (2 : Id) ∈ E0.shp 30 0 := by decide

end CR.Assign
