/-
  T20 — translator tie for C20: the definitions regenerated on every run from the CURRENT source of
  commonroad/scenario/lanelet.py (harness/translate/src_c20.py → Gen.SrcC20) equal the hand-written models
  CRModel/ArcLen.lean and CRModel/Route.lean the C20 theorems are about — for all arguments.

  The proofs go through generic lemmas about folds / fuel loops whose hypotheses describe what ONE step does; the steps of the
  generated code are then discharged by `simp` + case splitting, so that a harmless rewrite of the source is likely to be absorbed.
-/
import Gen.SrcC20
import CRProofs.ArcLen
import CRProofs.Route
import Mathlib.Tactic.Tauto
set_option linter.unusedTactic false
set_option linter.unreachableTactic false
set_option linter.unusedSimpArgs false
set_option linter.unusedVariables false

namespace CR.Route
open CR.PyC20

/-! ### find_lanelet_successors_in_range / find_lanelet_predecessors_in_range -/

/-- a `for s in ss:` loop over the triple (paths_final, paths_next, lengths_next) whose step appends what `finalOf` / `nextOf` say -/
theorem fold_inner {σ : Type} (fin : σ → Option Path) (nxt : σ → Option Item)
    (f : List Path × List Path × List Rat → σ → List Path × List Path × List Rat)
    (hf : ∀ F PN LN s, f (F, PN, LN) s = (F ++ (fin s).toList, PN ++ ((nxt s).map Prod.fst).toList, LN ++ ((nxt s).map Prod.snd).toList))
    (ss : List σ) (F PN : List Path) (LN : List Rat) :
    ss.foldl f (F, PN, LN)
      = (F ++ ss.filterMap fin, PN ++ (ss.filterMap nxt).map Prod.fst, LN ++ (ss.filterMap nxt).map Prod.snd) := by
  induction ss generalizing F PN LN with
  | nil => simp
  | cons s ss ih =>
    rw [List.foldl_cons, hf, ih]
    cases h1 : fin s <;> cases h2 : nxt s <;> simp [List.filterMap_cons, h1, h2]

/-- a `for (p, le) in zip(paths, lengths):` loop whose step appends what `finals` / `nexts` say -/
theorem fold_outer (fin : Item → List Path) (nxt : Item → List Item)
    (g : List Path × List Path × List Rat → Item → List Path × List Path × List Rat)
    (hg : ∀ F PN LN it, g (F, PN, LN) it = (F ++ fin it, PN ++ (nxt it).map Prod.fst, LN ++ (nxt it).map Prod.snd))
    (items : List Item) (F PN : List Path) (LN : List Rat) :
    items.foldl g (F, PN, LN)
      = (F ++ items.flatMap fin, PN ++ (items.flatMap nxt).map Prod.fst, LN ++ (items.flatMap nxt).map Prod.snd) := by
  induction items generalizing F PN LN with
  | nil => simp
  | cons it items ih =>
    rw [List.foldl_cons, hg, ih]
    simp [List.flatMap_cons, List.append_assoc]

theorem zip_fst_snd (items : List Item) : List.zip (items.map Prod.fst) (items.map Prod.snd) = items := by
  induction items with
  | nil => rfl
  | cons a t ih => simp [ih]

/-- the `while paths:` loop on the state (paths_final, paths, lengths) is the model's `loop` on the zipped worklist -/
theorem while_eq_loop (nbr : Nat → List Nat) (len : Nat → Rat) (start : Nat) (maxLen : Rat)
    (cond : List Path × List Path × List Rat → Bool)
    (body : List Path × List Path × List Rat → List Path × List Path × List Rat)
    (hc : ∀ F ps ls, cond (F, ps, ls) = !ps.isEmpty)
    (hb : ∀ F (items : List Item), body (F, items.map Prod.fst, items.map Prod.snd)
        = (F ++ items.flatMap (finals nbr len start maxLen),
           (items.flatMap (nexts nbr len start maxLen)).map Prod.fst, (items.flatMap (nexts nbr len start maxLen)).map Prod.snd))
    (fuel : Nat) (items : List Item) (F : List Path) :
    (whileLoop cond body fuel (F, items.map Prod.fst, items.map Prod.snd)).map (·.1)
      = loop nbr len start maxLen fuel items F := by
  induction fuel generalizing items F with
  | zero =>
    cases items with
    | nil => simp [whileLoop, hc, loop]
    | cons it its => simp [whileLoop, hc, loop]
  | succ n ih =>
    cases items with
    | nil => simp [whileLoop, hc, loop]
    | cons it its =>
      rw [whileLoop, hc]
      simp only [List.map_cons, List.isEmpty_cons, Bool.not_false, if_true]
      have := hb F (it :: its)
      simp only [List.map_cons] at this
      rw [this, ih, loop]

theorem nbrOpt_last (nbr : Nat → List Nat) (p : Path) : nbrOpt nbr (pyGet? p (-1)) = nbrsOfLast nbr p := by
  rw [CR.Arc.pyGet_neg_one]
  unfold nbrsOfLast nbrOpt
  cases p.getLast? <;> rfl

theorem route_shape (nbr : Nat → List Nat) (len : Nat → Rat) (start : Nat) (maxLen : Rat)
    (cond : List Path × List Path × List Rat → Bool)
    (body : List Path × List Path × List Rat → List Path × List Path × List Rat)
    (k : List Path × List Path × List Rat → Option (List Path))
    (hc : ∀ F ps ls, cond (F, ps, ls) = !ps.isEmpty)
    (hb : ∀ F (items : List Item), body (F, items.map Prod.fst, items.map Prod.snd)
        = (F ++ items.flatMap (finals nbr len start maxLen),
           (items.flatMap (nexts nbr len start maxLen)).map Prod.fst, (items.flatMap (nexts nbr len start maxLen)).map Prod.snd))
    (hk : ∀ F ps ls, k (F, ps, ls) = some F)
    (fuel : Nat) (items : List Item) (F : List Path) (ps : List Path) (ls : List Rat)
    (hps : ps = items.map Prod.fst) (hls : ls = items.map Prod.snd) :
    Option.bind (whileLoop cond body fuel (F, ps, ls)) k = loop nbr len start maxLen fuel items F := by
  subst hps hls
  rw [← while_eq_loop nbr len start maxLen cond body hc hb]
  cases whileLoop cond body fuel (F, items.map Prod.fst, items.map Prod.snd) with
  | none => rfl
  | some st => obtain ⟨a, b, c⟩ := st; simp [hk]

theorem for3_spec (succ pred : Nat → List Nat) (len : Nat → Rat) (start fuel : Nat) (maxLen : Rat) (p : Path) (le : Rat)
    (F PN : List Path) (LN : List Rat) (s : Nat) :
    Gen.Lanelet_find_lanelet_successors_in_range.for3 succ pred len start fuel maxLen p le (F, PN, LN) s
      = (F ++ (finalOf len start maxLen p le s).toList, PN ++ ((nextOf len start maxLen p le s).map Prod.fst).toList,
         LN ++ ((nextOf len start maxLen p le s).map Prod.snd).toList) := by
  unfold Gen.Lanelet_find_lanelet_successors_in_range.for3 finalOf nextOf blocked
  dsimp only
  by_cases h1 : s ∈ p <;> by_cases h2 : s = start <;> by_cases h3 : maxLen ≤ le <;> by_cases h4 : le + len s < maxLen <;>
    simp [h1, h2, h3, h4]

theorem for2_spec (succ pred : Nat → List Nat) (len : Nat → Rat) (start fuel : Nat) (maxLen : Rat)
    (F PN : List Path) (LN : List Rat) (it : Item) :
    Gen.Lanelet_find_lanelet_successors_in_range.for2 succ pred len start fuel maxLen (F, PN, LN) it
      = (F ++ finals succ len start maxLen it, PN ++ (nexts succ len start maxLen it).map Prod.fst,
         LN ++ (nexts succ len start maxLen it).map Prod.snd) := by
  obtain ⟨p, le⟩ := it
  unfold Gen.Lanelet_find_lanelet_successors_in_range.for2 finals nexts
  dsimp only
  rw [nbrOpt_last, fold_inner _ _ _ (for3_spec succ pred len start fuel maxLen p le)]
  cases h : nbrsOfLast succ p <;> simp [truthy, Truthy.truthy]

theorem tie_find_successors (succ pred : Nat → List Nat) (len : Nat → Rat) (start fuel : Nat) (maxLen : Rat) :
    Gen.Lanelet_find_lanelet_successors_in_range succ pred len start fuel maxLen = findInRange succ len start maxLen fuel := by
  unfold Gen.Lanelet_find_lanelet_successors_in_range findInRange
  refine route_shape succ len start maxLen _ _ _ ?_ ?_ ?_ fuel (initItems succ len start) [] _ _ ?_ ?_
  · intro F ps ls; simp [Gen.Lanelet_find_lanelet_successors_in_range.while1, mkLoop, truthy, Truthy.truthy]
  · intro F items
    simp only [Gen.Lanelet_find_lanelet_successors_in_range.while1, mkLoop]
    rw [zip_fst_snd, fold_outer _ _ _ (for2_spec succ pred len start fuel maxLen)]
    simp
  · intro F ps ls; rfl
  · simp [initItems, Function.comp_def]
  · simp [initItems, Function.comp_def]

theorem pfor3_spec (succ pred : Nat → List Nat) (len : Nat → Rat) (start fuel : Nat) (maxLen : Rat) (p : Path) (le : Rat)
    (F PN : List Path) (LN : List Rat) (s : Nat) :
    Gen.Lanelet_find_lanelet_predecessors_in_range.for3 succ pred len start fuel maxLen p le (F, PN, LN) s
      = (F ++ (finalOf len start maxLen p le s).toList, PN ++ ((nextOf len start maxLen p le s).map Prod.fst).toList,
         LN ++ ((nextOf len start maxLen p le s).map Prod.snd).toList) := by
  unfold Gen.Lanelet_find_lanelet_predecessors_in_range.for3 finalOf nextOf blocked
  dsimp only
  by_cases h1 : s ∈ p <;> by_cases h2 : s = start <;> by_cases h3 : maxLen ≤ le <;> by_cases h4 : le + len s < maxLen <;>
    simp [h1, h2, h3, h4]

theorem pfor2_spec (succ pred : Nat → List Nat) (len : Nat → Rat) (start fuel : Nat) (maxLen : Rat)
    (F PN : List Path) (LN : List Rat) (it : Item) :
    Gen.Lanelet_find_lanelet_predecessors_in_range.for2 succ pred len start fuel maxLen (F, PN, LN) it
      = (F ++ finals pred len start maxLen it, PN ++ (nexts pred len start maxLen it).map Prod.fst,
         LN ++ (nexts pred len start maxLen it).map Prod.snd) := by
  obtain ⟨p, le⟩ := it
  unfold Gen.Lanelet_find_lanelet_predecessors_in_range.for2 finals nexts
  dsimp only
  rw [nbrOpt_last, fold_inner _ _ _ (pfor3_spec succ pred len start fuel maxLen p le)]
  cases h : nbrsOfLast pred p <;> simp [truthy, Truthy.truthy]

theorem tie_find_predecessors (succ pred : Nat → List Nat) (len : Nat → Rat) (start fuel : Nat) (maxLen : Rat) :
    Gen.Lanelet_find_lanelet_predecessors_in_range succ pred len start fuel maxLen = findInRange pred len start maxLen fuel := by
  unfold Gen.Lanelet_find_lanelet_predecessors_in_range findInRange
  refine route_shape pred len start maxLen _ _ _ ?_ ?_ ?_ fuel (initItems pred len start) [] _ _ ?_ ?_
  · intro F ps ls; simp [Gen.Lanelet_find_lanelet_predecessors_in_range.while1, mkLoop, truthy, Truthy.truthy]
  · intro F items
    simp only [Gen.Lanelet_find_lanelet_predecessors_in_range.while1, mkLoop]
    rw [zip_fst_snd, fold_outer _ _ _ (pfor2_spec succ pred len start fuel maxLen)]
    simp
  · intro F ps ls; rfl
  · simp [initItems, Function.comp_def]
  · simp [initItems, Function.comp_def]

end CR.Route

namespace CR.Arc
open CR.PyC20

theorem whileM_advance (d : List Rat) (s : Rat) (cond : Int → Res Bool) (body : Int → Res Int)
    (hc : ∀ idx, cond idx = (match pyGet? d idx with | none => .error .index | some x => .ok (!decide (x ≤ s))))
    (hb : ∀ idx, body idx = .ok (idx + 1)) :
    ∀ fuel idx, whileM cond body fuel idx = advance d s fuel idx := by
  intro fuel
  induction fuel with
  | zero => intro idx; rfl
  | succ n ih =>
    intro idx
    rw [whileM, advance, hc]
    cases pyGet? d idx with
    | none => rfl
    | some x =>
      by_cases h : x ≤ s
      · simp [h]
      · simp [h, hb, ih]

def toInterp (t : Pt × Pt × Pt × Int) : Interp := ⟨t.1, t.2.1, t.2.2.1, t.2.2.2⟩

theorem blend_eq (t : Rat) (a b : Pt) : vadd (smul (1 - t) a) (smul t b) = blend t a b := rfl

theorem tie_interp (cv rv lv : List Pt) (ℓ : List Rat) (s : Rat) :
    (Gen.Lanelet_interpolate_position cv rv lv (cumDist ℓ) ((cumDist ℓ).length + 2) s).map toInterp
      = interpolate cv rv lv ℓ s := by
  unfold Gen.Lanelet_interpolate_position interpolate
  have hw := whileM_advance (cumDist ℓ) s
    (Gen.Lanelet_interpolate_position.while1 cv rv lv (cumDist ℓ) ((cumDist ℓ).length + 2) s).1
    (Gen.Lanelet_interpolate_position.while1 cv rv lv (cumDist ℓ) ((cumDist ℓ).length + 2) s).2
    (by intro idx
        simp only [Gen.Lanelet_interpolate_position.while1, mkLoopM, CR.Py.getItem, bind, Except.bind, pure, Except.pure]
        cases pyGet? (cumDist ℓ) idx <;> rfl)
    (by intro idx; rfl)
  simp only [hw, searchsorted, blend_eq, CR.Py.getItem, CR.Py.assert, CR.Py.div, bind, Except.bind, pure, Except.pure]
  cases h0 : pyGet? (cumDist ℓ) (-1) with
  | none => rfl
  | some total =>
    by_cases ha : s ≤ total ∧ 0 ≤ s
    · simp only [ha, ge_iff_le, ha.1, ha.2, decide_true, Bool.and_self, if_true, not_true, if_false]
      cases hadv : advance (cumDist ℓ) s ((cumDist ℓ).length + 2) (↑(searchsortedLeft s (cumDist ℓ)) - 1) with
      | error e => rfl
      | ok idx =>
        simp only []
        cases pyGet? (cumDist ℓ) idx <;> cases pyGet? (cumDist ℓ) (idx + 1) <;> try rfl
        rename_i d0 d1
        by_cases hz : d1 - d0 = 0
        · simp [hz, Except.map]
        · simp only [hz, if_false]
          cases pyGet? cv idx <;> cases pyGet? cv (idx + 1) <;> cases pyGet? rv idx <;> cases pyGet? rv (idx + 1) <;>
            cases pyGet? lv idx <;> cases pyGet? lv (idx + 1) <;> rfl
    · have : (true && decide (total ≥ s) && decide (s ≥ 0)) = false := by
        simp only [ge_iff_le, Bool.true_and, Bool.and_eq_false_iff, decide_eq_false_iff_not]
        by_cases h1 : s ≤ total
        · right; intro h2; exact ha ⟨h1, h2⟩
        · left; exact h1
      simp [this, ha, Except.map]
/-! ### merge_lanelets -/

theorem sliceFrom_01 {α : Type} (xs : List α) (b : Bool) :
    sliceFrom xs (if b = true then (1 : Int) else 0) = xs.drop (if b = true then 1 else 0) := by
  cases b <;> simp [sliceFrom]

macro "merge_fin" p:term "," s:term : tactic => `(tactic| (
  cases pyGet? (Lanelet.left $p) (-1) <;> cases pyGet? (Lanelet.left $s) 0 <;> try rfl
  simp only [sliceFrom_01]
  split <;> simp_all))

theorem tie_merge (l1 l2 : Lanelet) : Gen.Lanelet_merge_lanelets l1 l2 = mergeLanelets l1 l2 := by
  unfold Gen.Lanelet_merge_lanelets mergeLanelets
  simp only [CR.Py.getItem, CR.Py.assert, newLanelet, bind, Except.bind, pure, Except.pure, if_true]
  by_cases hl : (l1.id ∈ l2.succ ∨ l2.id ∈ l1.succ ∨ l1.id ∈ l2.pred ∨ l2.id ∈ l1.pred)
  · have hl' : ((l1.id ∈ l2.succ ∨ l2.id ∈ l1.succ) ∨ l1.id ∈ l2.pred) ∨ l2.id ∈ l1.pred := by tauto
    by_cases hd : (l1.id ∈ l2.pred ∨ l2.id ∈ l1.succ)
    · simp only [hl, hl', hd, Bool.or_eq_true, decide_eq_true_eq, if_true, not_true, if_false]
      merge_fin l1, l2
    · simp only [hl, hl', hd, Bool.or_eq_true, decide_eq_true_eq, if_true, not_true, if_false]
      merge_fin l2, l1
  · have hl' : ¬ (((l1.id ∈ l2.succ ∨ l2.id ∈ l1.succ) ∨ l1.id ∈ l2.pred) ∨ l2.id ∈ l1.pred) := by tauto
    simp [hl, hl']

/-! ### _compute_polyline_cumsum_dist, distance, inner_distance, cache resets -/

/-- the length function the translated code uses: the norm of the difference vector -/
def normLen (norm : Pt → Rat) (a b : Pt) : Rat := norm (b.1 - a.1, b.2 - a.2)

theorem rowNorms_diff (norm : Pt → Rat) : ∀ c : List Pt, rowNorms norm (diff c) = segLens (normLen norm) c
  | [] => rfl
  | [_] => rfl
  | a :: b :: t => by
    simp only [diff, rowNorms, List.map_cons, segLens, normLen]
    exact congrArg _ (rowNorms_diff norm (b :: t))

theorem segLens_length (len : Pt → Pt → Rat) : ∀ c : List Pt, c ≠ [] → (segLens len c).length + 1 = c.length
  | [], h => absurd rfl h
  | [_], _ => rfl
  | a :: b :: t, _ => by
    simp only [segLens, List.length_cons]
    have := segLens_length len (b :: t) (by simp)
    simp only [List.length_cons] at this
    omega

theorem amin_one_col : ∀ (col : List Rat) (n : Nat), col.length = n →
    aminRows (setCol (List.replicate n [0]) 0 col) = col
  | [], n, h => by subst h; rfl
  | x :: xs, n, h => by
    subst h
    simp only [List.length_cons, List.replicate_succ, setCol, List.zipWith_cons_cons, aminRows, List.map_cons]
    have := amin_one_col xs xs.length rfl
    simp only [setCol, aminRows] at this
    rw [this]
    rfl

theorem amin_two_cols : ∀ (cl cr : List Rat) (n : Nat), cl.length = n → cr.length = n →
    aminRows (setCol (setCol (List.replicate n [0, 0]) 0 cl) 1 cr)
      = List.zipWith (fun a b => if a ≤ b then a else b) cl cr
  | [], [], n, h, _ => by subst h; rfl
  | [], _ :: _, n, h, h' => by subst h; simp at h'
  | _ :: _, [], n, h, h' => by subst h; simp at h'
  | x :: xs, y :: ys, n, h, h' => by
    subst h
    have hl : ys.length = xs.length := by simpa using h'
    have := amin_two_cols xs ys xs.length rfl hl
    simp only [setCol, aminRows] at this
    simp only [List.length_cons, List.replicate_succ, setCol, List.zipWith_cons_cons, aminRows, List.map_cons, this]
    rfl

/-- `_compute_polyline_cumsum_dist([center])` of the current source is the model's `cumDist` of the segment lengths -/
theorem tie_cumsum_center (norm : Pt → Rat) (c : List Pt) (hc : c ≠ []) :
    Gen.Lanelet_compute_polyline_cumsum_dist norm [c] = cumDist (segLens (normLen norm) c) := by
  unfold Gen.Lanelet_compute_polyline_cumsum_dist
  simp [List.map_cons, List.map_nil, List.nil_append, List.cons_append, List.append_nil, List.singleton_append, Int.zero_add, item, pyGet?, enumerate, enumerateFrom, List.foldl_cons, List.foldl_nil,
    empty, append, rowNorms_diff, CR.PyC20.cumsum, cumDist]
  have hlen : (0 :: segLens (normLen norm) c).length = c.length := by
    simpa using segLens_length (normLen norm) c hc
  have := amin_one_col (0 :: segLens (normLen norm) c) c.length hlen
  simp_all

/-- `_compute_polyline_cumsum_dist([left, right])` (inner_distance) of the current source is the model's `cumDistMin` -/
theorem tie_cumsum_inner (norm : Pt → Rat) (l r : List Pt) (hl : l ≠ []) (hlr : l.length = r.length) :
    Gen.Lanelet_compute_polyline_cumsum_dist norm [l, r] = cumDistMin (segLens (normLen norm) l) (segLens (normLen norm) r) := by
  unfold Gen.Lanelet_compute_polyline_cumsum_dist
  simp [List.map_cons, List.map_nil, List.nil_append, List.cons_append, List.append_nil, List.singleton_append, Int.zero_add, item, pyGet?, enumerate, enumerateFrom, List.foldl_cons, List.foldl_nil,
    empty, append,
    rowNorms_diff, CR.PyC20.cumsum, cumDistMin]
  have hr : r ≠ [] := by intro h; subst h; simp at hlr; exact hl hlr
  have h1 : (0 :: segLens (normLen norm) l).length = l.length := by
    simpa using segLens_length (normLen norm) l hl
  have h2 : (0 :: segLens (normLen norm) r).length = l.length := by
    rw [hlr]; simpa using segLens_length (normLen norm) r hr
  have := amin_two_cols (0 :: segLens (normLen norm) l) (0 :: segLens (normLen norm) r) l.length h1 h2
  simp_all

/-- the `distance` getter of the current source: an existing cache is handed out, an empty one is filled with `cumDist` -/
theorem tie_distance (norm : Pt → Rat) (cache : Option (List Rat)) (c : List Pt) (hc : c ≠ []) :
    Gen.Lanelet_distance norm cache c = distanceGet cache (segLens (normLen norm) c) := by
  unfold Gen.Lanelet_distance distanceGet
  cases cache with
  | none => simp [tie_cumsum_center norm c hc]
  | some d => simp

/-- the `inner_distance` getter of the current source -/
theorem tie_inner_distance (norm : Pt → Rat) (cache : Option (List Rat)) (l r : List Pt) (hl : l ≠ []) (hlr : l.length = r.length) :
    Gen.Lanelet_inner_distance norm cache l r
      = innerDistanceGet cache (segLens (normLen norm) l) (segLens (normLen norm) r) := by
  unfold Gen.Lanelet_inner_distance innerDistanceGet
  cases cache with
  | none => simp [tie_cumsum_inner norm l r hl hlr]
  | some d => simp

/-- STRUCTURAL tie: the table (method, vertex attribute assigned, dependent distance cache reset afterwards) extracted from the
    syntax tree of class `Lanelet` is the model's table.  A finite table compared completely by `decide` is a proof for that table. -/
theorem tie_vertex_writers : Gen.Lanelet_vertex_writers = vertexWriters := by decide

end CR.Arc
