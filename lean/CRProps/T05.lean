/-
  T05 — translator tie for C05: the definitions regenerated on every run from the CURRENT source of
  commonroad/geometry/transform.py and of the `translate_rotate` methods (harness/translate/src_c05.py → Gen.SrcC05)
  equal the hand-written model CRModel/Rigid.lean the C05 theorems are about — for all arguments.
-/
import Gen.SrcC05
import CRModel.Rigid
import Mathlib.Tactic.Ring
namespace CR.Rigid
open CR.PyC05

/-! ### commonroad/geometry/transform.py -/

/-- the homogeneous matrix of the current source, applied to `[x, y, 1]`, is the model's `tr` (and keeps `w = 1`) -/
theorem tie_translation_rotation_matrix (c s a : Rat) (t p : Pt) :
    M3.app (Gen.transform_translation_rotation_matrix c s a t) (toH p) = toH (tr c s t p) := by
  simp [Gen.transform_translation_rotation_matrix, M3.app, M3.dot, toH, tr]
  constructor <;> ring

/-- `rotation_translation_matrix` is rotate-then-translate `rt`; its `angle == 0` shortcut agrees with `(cos 0, sin 0) = (1, 0)` -/
theorem tie_rotation_translation_matrix (c s a : Rat) (t p : Pt) (h0 : a = 0 → c = 1 ∧ s = 0) :
    M3.app (Gen.transform_rotation_translation_matrix c s a t) (toH p) = toH (rt c s t p) := by
  by_cases ha : a = 0
  · obtain ⟨hc, hs⟩ := h0 ha
    subst hc hs
    simp [Gen.transform_rotation_translation_matrix, ha, M3.app, toH, rt]
  · simp [Gen.transform_rotation_translation_matrix, ha, M3.app, toH, rt]
    ring

theorem tie_to_homogeneous (vs : List Pt) : Gen.transform_to_homogeneous_coordinates vs = vs.map toH := by
  simp [Gen.transform_to_homogeneous_coordinates]

theorem tie_from_homogeneous (hs : List H) : Gen.transform_from_homogeneous_coordinates hs = hs.map fromH := by
  simp [Gen.transform_from_homogeneous_coordinates]

theorem fromH_toH (p : Pt) : fromH (toH p) = p := rfl

/-- `transform.translate_rotate` of the current source maps every vertex by the model's `tr` -/
theorem tie_translate_rotate (c s a : Rat) (vs : List Pt) (t : Pt) :
    Gen.transform_translate_rotate c s a vs t = vs.map (tr c s t) := by
  simp only [Gen.transform_translate_rotate, Id.run_pure, tie_to_homogeneous, tie_from_homogeneous, List.map_map]
  apply List.map_congr_left
  intro p _
  simp only [Function.comp, tie_translation_rotation_matrix, fromH_toH]

theorem tie_rotate_translate (c s a : Rat) (vs : List Pt) (t : Pt) (h0 : a = 0 → c = 1 ∧ s = 0) :
    Gen.transform_rotate_translate c s a vs t = vs.map (rt c s t) := by
  simp only [Gen.transform_rotate_translate, Id.run_pure, tie_to_homogeneous, tie_from_homogeneous, List.map_map]
  apply List.map_congr_left
  intro p _
  simp only [Function.comp, tie_rotation_translation_matrix c s a t p h0, fromH_toH]

end CR.Rigid
