/-
  T05 — translator tie for C05: the definitions regenerated on every run from the CURRENT source of
  commonroad/geometry/transform.py and of the `translate_rotate` methods (harness/translate/src_c05.py → Gen.SrcC05)
  equal the hand-written model CRModel/Rigid.lean the C05 theorems are about — for all arguments.
-/
import Gen.SrcC05
import CRModel.Rigid
import Mathlib.Tactic.Ring
namespace CR.Rigid
open CR.PyC05

/-! ### commonroad/geometry/transform.py -/

/-- the homogeneous matrix of the current source, applied to `[x, y, 1]`, is the model's `tr` (and keeps `w = 1`) -/
theorem tie_translation_rotation_matrix (c s a : Rat) (t p : Pt) :
    M3.app (Gen.transform_translation_rotation_matrix c s a t) (toH p) = toH (tr c s t p) := by
  simp [Gen.transform_translation_rotation_matrix, M3.app, M3.dot, toH, tr]
  constructor <;> ring

/-- `rotation_translation_matrix` is rotate-then-translate `rt`; its `angle == 0` shortcut agrees with `(cos 0, sin 0) = (1, 0)` -/
theorem tie_rotation_translation_matrix (c s a : Rat) (t p : Pt) (h0 : a = 0 → c = 1 ∧ s = 0) :
    M3.app (Gen.transform_rotation_translation_matrix c s a t) (toH p) = toH (rt c s t p) := by
  by_cases ha : a = 0
  · obtain ⟨hc, hs⟩ := h0 ha
    subst hc hs
    simp [Gen.transform_rotation_translation_matrix, ha, M3.app, toH, rt]
  · simp [Gen.transform_rotation_translation_matrix, ha, M3.app, toH, rt]
    ring

theorem tie_to_homogeneous (vs : List Pt) : Gen.transform_to_homogeneous_coordinates vs = vs.map toH := by
  simp [Gen.transform_to_homogeneous_coordinates]

theorem tie_from_homogeneous (hs : List H) : Gen.transform_from_homogeneous_coordinates hs = hs.map fromH := by
  simp [Gen.transform_from_homogeneous_coordinates]

theorem fromH_toH (p : Pt) : fromH (toH p) = p := rfl

/-- `transform.translate_rotate` of the current source maps every vertex by the model's `tr` -/
theorem tie_translate_rotate (c s a : Rat) (vs : List Pt) (t : Pt) :
    Gen.transform_translate_rotate c s a vs t = vs.map (tr c s t) := by
  simp only [Gen.transform_translate_rotate, Id.run_pure, tie_to_homogeneous, tie_from_homogeneous, List.map_map]
  apply List.map_congr_left
  intro p _
  simp only [Function.comp, tie_translation_rotation_matrix, fromH_toH]

theorem tie_rotate_translate (c s a : Rat) (vs : List Pt) (t : Pt) (h0 : a = 0 → c = 1 ∧ s = 0) :
    Gen.transform_rotate_translate c s a vs t = vs.map (rt c s t) := by
  simp only [Gen.transform_rotate_translate, Id.run_pure, tie_to_homogeneous, tie_from_homogeneous, List.map_map]
  apply List.map_congr_left
  intro p _
  simp only [Function.comp, tie_rotation_translation_matrix c s a t p h0, fromH_toH]

/-! ### helper lemmas: the do-blocks of the generated definitions against the model's explicit `match` chains -/

theorem getItem_single {α : Type} (x : α) : CR.Py.getItem [x] 0 = .ok x := rfl
theorem getItem_pair0 {α : Type} (x y : α) : CR.Py.getItem [x, y] 0 = .ok x := rfl
theorem getItem_pair1 {α : Type} (x y : α) : CR.Py.getItem [x, y] 1 = .ok y := rfl

theorem moveList_eq_mapR (m : Mo) : ∀ ss : List Shape, Shape.moveList m ss = mapR (Shape.move m) ss
  | [] => rfl
  | x :: xs => by
    simp only [Shape.moveList, mapR, moveList_eq_mapR m xs]
    cases Shape.move m x with
    | error e => rfl
    | ok y => cases mapR (Shape.move m) xs <;> rfl

/-- every in-line matrix application of the current source (`t_m.dot(vstack(...))[0:2, :].transpose()`) is `map tr` -/
theorem tie_matrix_apply (c s a : Rat) (t : Pt) (vs : List Pt) :
    ((vs.map toH).map (M3.app (Gen.transform_translation_rotation_matrix c s a t))).map fromH = vs.map (tr c s t) := by
  simp only [List.map_map]
  apply List.map_congr_left
  intro p _
  simp only [Function.comp, tie_translation_rotation_matrix, fromH_toH]

/-- the guard of the model is the `assert is_valid_orientation(angle)` of the code -/
theorem guard_eq (m : Mo) : guard m = CR.Py.assert (CR.Iv.validOrientation m.τ m.a) := rfl

/-! ### shapes (commonroad/geometry/shape.py) -/

theorem tie_Rectangle (m : Mo) (l w : Rat) (ctr : Pt) (θ : Rat) :
    Gen.Rectangle_translate_rotate m l w ctr θ = Shape.move m (.rect l w ctr θ) := by
  simp only [Gen.Rectangle_translate_rotate, Shape.move, guard_eq, tie_translate_rotate, List.map, getItem_single, Mo.mv, Mo.wr]
  cases h : CR.Iv.validOrientation m.τ m.a <;> simp [CR.Py.assert, bind, Except.bind, pure, Except.pure]

theorem tie_Circle (m : Mo) (r : Rat) (ctr : Pt) :
    Gen.Circle_translate_rotate m r ctr = Shape.move m (.circ r ctr) := by
  simp [Gen.Circle_translate_rotate, Shape.move, tie_translate_rotate, getItem_single, Mo.mv, bind, Except.bind, pure, Except.pure]

theorem tie_Polygon (m : Mo) (vs : List Pt) :
    Gen.Polygon_translate_rotate m vs = Shape.move m (.poly vs) := by
  simp only [Gen.Polygon_translate_rotate, Shape.move, guard_eq, tie_translate_rotate]
  cases h : CR.Iv.validOrientation m.τ m.a
  · simp [CR.Py.assert, bind, Except.bind]
  · have : (fun p => m.mv p) = tr m.c m.s m.t := rfl
    cases h2 : polyMk (vs.map (tr m.c m.s m.t)) <;>
      simp [CR.Py.assert, bind, Except.bind, pure, Except.pure, h2, Mo.mv, this]

theorem tie_ShapeGroup (m : Mo) (ss : List Shape) :
    Gen.ShapeGroup_translate_rotate m ss = Shape.move m (.group ss) := by
  simp only [Gen.ShapeGroup_translate_rotate, Shape.move, guard_eq, moveList_eq_mapR, bind_pure, forEach_eq_mapR]
  cases h : CR.Iv.validOrientation m.τ m.a
  · simp [CR.Py.assert, bind, Except.bind]
  · cases h2 : mapR (Shape.move m) ss <;> simp [CR.Py.assert, bind, Except.bind, pure, Except.pure, h2]

end CR.Rigid
