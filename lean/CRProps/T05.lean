/-
  T05 — translator tie for C05: the definitions regenerated on every run from the CURRENT source of
  commonroad/geometry/transform.py and of the `translate_rotate` methods (harness/translate/src_c05.py → Gen.SrcC05)
  equal the hand-written model CRModel/Rigid.lean the C05 theorems are about — for all arguments.
-/
import Gen.SrcC05
import CRModel.Rigid
import Mathlib.Tactic.Ring
namespace CR.Rigid
open CR.PyC05

/-! ### commonroad/geometry/transform.py -/

/-- the homogeneous matrix of the current source, applied to `[x, y, 1]`, is the model's `tr` (and keeps `w = 1`) -/
theorem tie_translation_rotation_matrix (c s a : Rat) (t p : Pt) :
    M3.app (Gen.transform_translation_rotation_matrix c s a t) (toH p) = toH (tr c s t p) := by
  simp [Gen.transform_translation_rotation_matrix, M3.app, M3.dot, toH, tr]
  constructor <;> ring

/-- `rotation_translation_matrix` is rotate-then-translate `rt`; its `angle == 0` shortcut agrees with `(cos 0, sin 0) = (1, 0)` -/
theorem tie_rotation_translation_matrix (c s a : Rat) (t p : Pt) (h0 : a = 0 → c = 1 ∧ s = 0) :
    M3.app (Gen.transform_rotation_translation_matrix c s a t) (toH p) = toH (rt c s t p) := by
  by_cases ha : a = 0
  · obtain ⟨hc, hs⟩ := h0 ha
    subst hc hs
    simp [Gen.transform_rotation_translation_matrix, ha, M3.app, toH, rt]
  · simp [Gen.transform_rotation_translation_matrix, ha, M3.app, toH, rt]
    ring

theorem tie_to_homogeneous (vs : List Pt) : Gen.transform_to_homogeneous_coordinates vs = vs.map toH := by
  simp [Gen.transform_to_homogeneous_coordinates]

theorem tie_from_homogeneous (hs : List H) : Gen.transform_from_homogeneous_coordinates hs = hs.map fromH := by
  simp [Gen.transform_from_homogeneous_coordinates]

theorem fromH_toH (p : Pt) : fromH (toH p) = p := rfl

/-- `transform.translate_rotate` of the current source maps every vertex by the model's `tr` -/
theorem tie_translate_rotate (c s a : Rat) (vs : List Pt) (t : Pt) :
    Gen.transform_translate_rotate c s a vs t = vs.map (tr c s t) := by
  simp only [Gen.transform_translate_rotate, Id.run_pure, tie_to_homogeneous, tie_from_homogeneous, List.map_map]
  apply List.map_congr_left
  intro p _
  simp only [Function.comp, tie_translation_rotation_matrix, fromH_toH]

theorem tie_rotate_translate (c s a : Rat) (vs : List Pt) (t : Pt) (h0 : a = 0 → c = 1 ∧ s = 0) :
    Gen.transform_rotate_translate c s a vs t = vs.map (rt c s t) := by
  simp only [Gen.transform_rotate_translate, Id.run_pure, tie_to_homogeneous, tie_from_homogeneous, List.map_map]
  apply List.map_congr_left
  intro p _
  simp only [Function.comp, tie_rotation_translation_matrix c s a t p h0, fromH_toH]

/-! ### helper lemmas: the do-blocks of the generated definitions against the model's explicit `match` chains -/

theorem getItem_single {α : Type} (x : α) : CR.Py.getItem [x] 0 = .ok x := rfl
theorem getItem_pair0 {α : Type} (x y : α) : CR.Py.getItem [x, y] 0 = .ok x := rfl
theorem getItem_pair1 {α : Type} (x y : α) : CR.Py.getItem [x, y] 1 = .ok y := rfl

theorem moveList_eq_mapR (m : Mo) : ∀ ss : List Shape, Shape.moveList m ss = mapR (Shape.move m) ss
  | [] => rfl
  | x :: xs => by
    simp only [Shape.moveList, mapR, moveList_eq_mapR m xs]
    cases Shape.move m x with
    | error e => rfl
    | ok y => cases mapR (Shape.move m) xs <;> rfl

/-- every in-line matrix application of the current source (`t_m.dot(vstack(...))[0:2, :].transpose()`) is `map tr` -/
theorem tie_matrix_apply (c s a : Rat) (t : Pt) (vs : List Pt) :
    ((vs.map toH).map (M3.app (Gen.transform_translation_rotation_matrix c s a t))).map fromH = vs.map (tr c s t) := by
  simp only [List.map_map]
  apply List.map_congr_left
  intro p _
  simp only [Function.comp, tie_translation_rotation_matrix, fromH_toH]

/-- the guard of the model is the `assert is_valid_orientation(angle)` of the code -/
theorem guard_eq (m : Mo) : guard m = CR.Py.assert (CR.Iv.validOrientation m.τ m.a) := rfl

/-! ### shapes (commonroad/geometry/shape.py) -/

theorem tie_Rectangle (m : Mo) (l w : Rat) (ctr : Pt) (θ : Rat) :
    Gen.Rectangle_translate_rotate m l w ctr θ = Shape.move m (.rect l w ctr θ) := by
  simp only [Gen.Rectangle_translate_rotate, Shape.move, guard_eq, tie_translate_rotate, List.map, getItem_single, Mo.mv, Mo.wr]
  cases h : CR.Iv.validOrientation m.τ m.a <;> simp [CR.Py.assert, bind, Except.bind, pure, Except.pure]

theorem tie_Circle (m : Mo) (r : Rat) (ctr : Pt) :
    Gen.Circle_translate_rotate m r ctr = Shape.move m (.circ r ctr) := by
  simp [Gen.Circle_translate_rotate, Shape.move, tie_translate_rotate, getItem_single, Mo.mv, bind, Except.bind, pure, Except.pure]

theorem tie_Polygon (m : Mo) (vs : List Pt) :
    Gen.Polygon_translate_rotate m vs = Shape.move m (.poly vs) := by
  simp only [Gen.Polygon_translate_rotate, Shape.move, guard_eq, tie_translate_rotate]
  cases h : CR.Iv.validOrientation m.τ m.a
  · simp [CR.Py.assert, bind, Except.bind]
  · have : (fun p => m.mv p) = tr m.c m.s m.t := rfl
    cases h2 : polyMk (vs.map (tr m.c m.s m.t)) <;>
      simp [CR.Py.assert, bind, Except.bind, pure, Except.pure, h2, Mo.mv, this]

theorem tie_ShapeGroup (m : Mo) (ss : List Shape) :
    Gen.ShapeGroup_translate_rotate m ss = Shape.move m (.group ss) := by
  simp only [Gen.ShapeGroup_translate_rotate, Shape.move, guard_eq, moveList_eq_mapR, bind_pure, forEach_eq_mapR]
  cases h : CR.Iv.validOrientation m.τ m.a
  · simp [CR.Py.assert, bind, Except.bind]
  · cases h2 : mapR (Shape.move m) ss <;> simp [CR.Py.assert, bind, Except.bind, pure, Except.pure, h2]

/-! ### states (commonroad/scenario/state.py) -/

/-- `State.translate_rotate` of the current source: position and stored orientation as in the model; the base method leaves the
    velocity components alone (`PMState` overrides, next theorem). -/
theorem tie_State (m : Mo) (pos : Pos) (ori : Ori) (vel : Option Pt) :
    Gen.State_translate_rotate m pos ori vel = (State.move m ⟨pos, ori, none⟩).map (fun r => { r with vel := vel }) := by
  simp only [Gen.State_translate_rotate, State.move, guard_eq, tie_translate_rotate, List.map, getItem_single]
  cases h : CR.Iv.validOrientation m.τ m.a
  · simp [CR.Py.assert, bind, Except.bind, Except.map]
  · cases pos with
    | none | other | pt p =>
      cases ori with
      | none | other | exact θ =>
        simp [CR.Py.assert, bind, Except.bind, pure, Except.pure, Except.map, Pos.move, Ori.move, posIsSome, posIsArray,
          posIsShape, posArray, oriIsSome, oriIsNum, oriIsIv, oriNum, Mo.mv, Mo.wr, throw, throwThe, MonadExceptOf.throw]
      | iv i =>
        cases h3 : CR.Iv.addAngle m.τ i m.a <;>
        simp [CR.Py.assert, bind, Except.bind, pure, Except.pure, Except.map, Pos.move, Ori.move, posIsSome, posIsArray,
          posIsShape, posArray, oriIsSome, oriIsNum, oriIsIv, oriIv, h3, Mo.mv, throw, throwThe, MonadExceptOf.throw]
    | region sh =>
      cases h2 : Shape.move m sh with
      | error e =>
        simp [CR.Py.assert, bind, Except.bind, pure, Except.pure, Except.map, Pos.move, posIsSome, posIsArray,
          posIsShape, posShape, h2]
      | ok sh' =>
        cases ori with
        | none | other | exact θ =>
          simp [CR.Py.assert, bind, Except.bind, pure, Except.pure, Except.map, Pos.move, Ori.move, posIsSome, posIsArray,
            posIsShape, posShape, oriIsSome, oriIsNum, oriIsIv, oriNum, h2, Mo.wr, throw, throwThe, MonadExceptOf.throw]
        | iv i =>
          cases h3 : CR.Iv.addAngle m.τ i m.a <;>
          simp [CR.Py.assert, bind, Except.bind, pure, Except.pure, Except.map, Pos.move, Ori.move, posIsSome, posIsArray,
            posIsShape, posShape, oriIsSome, oriIsNum, oriIsIv, oriIv, h2, h3, throw, throwThe, MonadExceptOf.throw]

/-- a state without point-mass velocity vector: the base method IS the model's `State.move` -/
theorem tie_State_plain (m : Mo) (pos : Pos) (ori : Ori) :
    Gen.State_translate_rotate m pos ori none = State.move m ⟨pos, ori, none⟩ := by
  rw [tie_State]
  unfold State.move
  cases guard m with
  | error e => rfl
  | ok _ =>
    cases Pos.move m pos with
    | error e => rfl
    | ok p =>
      cases Ori.move m ori with
      | error e => rfl
      | ok o => rfl

/-- `PMState.translate_rotate` of the current source (base method, then the velocity vector turned by the rotation) is the model's
    `State.move` on a state with velocity vector — and on one without (non-numeric components) as well. -/
theorem tie_PMState (m : Mo) (pos : Pos) (ori : Ori) (vel : Option Pt) :
    Gen.PMState_translate_rotate m pos ori vel = State.move m ⟨pos, ori, vel⟩ := by
  simp only [Gen.PMState_translate_rotate, tie_State]
  unfold State.move
  cases guard m with
  | error e => rfl
  | ok _ =>
    cases Pos.move m pos with
    | error e => rfl
    | ok p =>
      cases Ori.move m ori with
      | error e => rfl
      | ok o =>
        cases vel with
        | none => rfl
        | some v => simp [Except.map, bind, Except.bind, pure, Except.pure, Mo.rv, rot]

/-! ### trajectory, predictions -/

theorem tie_Trajectory (m : Mo) (sts : List State) : Gen.Trajectory_translate_rotate m sts = moveTraj m sts := by
  simp only [Gen.Trajectory_translate_rotate, moveTraj, moveStates, guard_eq, bind_pure, forEach_eq_mapR]
  cases h : CR.Iv.validOrientation m.τ m.a
  · simp [CR.Py.assert, bind, Except.bind]
  · cases h2 : mapR (State.move m) sts <;> simp [CR.Py.assert, bind, Except.bind, pure, Except.pure, h2]

theorem tie_Occupancy (m : Mo) (sh : Shape) :
    Gen.Occupancy_translate_rotate m sh = (match guard m with | .error e => .error e | .ok _ => Shape.move m sh) := by
  simp only [Gen.Occupancy_translate_rotate, guard_eq]
  cases h : CR.Iv.validOrientation m.τ m.a
  · simp [CR.Py.assert, bind, Except.bind]
  · cases h2 : Shape.move m sh <;> simp [CR.Py.assert, bind, Except.bind, pure, Except.pure, h2]

theorem tie_SetBasedPrediction (m : Mo) (shs : List Shape) : Gen.SetBasedPrediction_translate_rotate m shs = moveOccs m shs := by
  simp only [Gen.SetBasedPrediction_translate_rotate, moveOccs, tie_Occupancy, forEach_eq_mapR]
  cases h : guard m
  · simp [guard_eq] at h ⊢
    cases h' : CR.Iv.validOrientation m.τ m.a <;> simp_all [CR.Py.assert, bind, Except.bind]
  · have hg : CR.Py.assert (CR.Iv.validOrientation m.τ m.a) = .ok () := by rw [← guard_eq, h]
    simp only [hg]
    cases h2 : mapR (fun sh => Shape.move m sh) shs <;> simp_all [bind, Except.bind, pure, Except.pure]

theorem tie_TrajectoryPrediction (m : Mo) (body : Shape) (sts : List State) :
    Gen.TrajectoryPrediction_translate_rotate m body sts = Pred.move m (.traj body sts) := by
  simp only [Gen.TrajectoryPrediction_translate_rotate, Pred.move, tie_Trajectory, guard_eq]
  cases h : CR.Iv.validOrientation m.τ m.a
  · simp [CR.Py.assert, bind, Except.bind]
  · cases h2 : moveTraj m sts <;> simp [CR.Py.assert, bind, Except.bind, pure, Except.pure, h2]

/-- the set-based branch of the model's prediction dispatch is `SetBasedPrediction.translate_rotate` -/
theorem tie_Pred_occ (m : Mo) (shs : List Shape) :
    Pred.move m (.occ shs) = (Gen.SetBasedPrediction_translate_rotate m shs).map Pred.occ := by
  rw [tie_SetBasedPrediction]
  simp only [Pred.move]
  cases moveOccs m shs <;> rfl

/-! ### road network -/

theorem tie_StopLine (m : Mo) (sl : Pt × Pt) : Gen.StopLine_translate_rotate m sl = moveStop m sl := by
  simp only [Gen.StopLine_translate_rotate, moveStop, guard_eq, tie_matrix_apply, List.map, getItem_pair0, getItem_pair1]
  cases h : CR.Iv.validOrientation m.τ m.a <;>
    simp [CR.Py.assert, bind, Except.bind, pure, Except.pure, Mo.mv, tie_translation_rotation_matrix, fromH_toH]

theorem tie_Lanelet (m : Mo) (la : Lanelet) : Gen.Lanelet_translate_rotate m la = Lanelet.move m la := by
  have hmv : (fun p => m.mv p) = tr m.c m.s m.t := rfl
  simp only [Gen.Lanelet_translate_rotate, Lanelet.move, guard_eq, tie_matrix_apply, tie_StopLine]
  cases h : CR.Iv.validOrientation m.τ m.a
  · simp [CR.Py.assert, bind, Except.bind]
  · cases hs : la.stop with
    | none =>
      cases h2 : polyMk (la.right.map (tr m.c m.s m.t) ++ (la.left.map (tr m.c m.s m.t)).reverse) <;>
        simp [CR.Py.assert, bind, Except.bind, pure, Except.pure, h2, Mo.mv, hmv]
    | some sl =>
      cases h3 : moveStop m sl with
      | error e => simp [CR.Py.assert, bind, Except.bind, pure, Except.pure, h3]
      | ok sl' =>
        cases h2 : polyMk (la.right.map (tr m.c m.s m.t) ++ (la.left.map (tr m.c m.s m.t)).reverse) <;>
          simp [CR.Py.assert, bind, Except.bind, pure, Except.pure, h2, h3, Mo.mv, hmv]

theorem tie_TrafficSign (m : Mo) (p : Pt) : Gen.TrafficSign_translate_rotate m p = movePosition m p := by
  simp only [Gen.TrafficSign_translate_rotate, movePosition, guard_eq, tie_translate_rotate, List.map, getItem_single]
  cases h : CR.Iv.validOrientation m.τ m.a <;> simp [CR.Py.assert, bind, Except.bind, pure, Except.pure, Mo.mv]

theorem tie_TrafficLight (m : Mo) (l : Light) : Gen.TrafficLight_translate_rotate m l = Light.move m l := by
  simp only [Gen.TrafficLight_translate_rotate, Light.move, movePosition, guard_eq, tie_translate_rotate, List.map, getItem_single]
  cases h : CR.Iv.validOrientation m.τ m.a <;> simp [CR.Py.assert, bind, Except.bind, pure, Except.pure, Mo.mv]

theorem tie_AreaBorder (m : Mo) (vs : List Pt) : Gen.AreaBorder_translate_rotate m vs = .ok (vs.map m.mv) := by
  simp only [Gen.AreaBorder_translate_rotate, tie_translate_rotate, pure, Except.pure]
  rfl

theorem mapR_ok {α β : Type} (f : α → β) : ∀ l : List α, mapR (fun x => (.ok (f x) : Res β)) l = .ok (l.map f)
  | [] => rfl
  | x :: xs => by simp [mapR, mapR_ok f xs]

theorem tie_Area (m : Mo) (bs : List (List Pt)) : Gen.Area_translate_rotate m bs = .ok (bs.map (List.map m.mv)) := by
  simp only [Gen.Area_translate_rotate, tie_AreaBorder, forEach_eq_mapR, mapR_ok]
  try rfl

/-- `LaneletNetwork.translate_rotate` + the obstacle loop of `Scenario.translate_rotate` of the current source: the model's
    `Scenario.move` (lanelets, signs, lights, area borders, then every obstacle; first exception wins). -/
theorem tie_Scenario (m : Mo) (sc : Scenario) : Gen.Scenario_translate_rotate m sc = Scenario.move m sc := by
  simp only [Gen.Scenario_translate_rotate, Gen.LaneletNetwork_translate_rotate, Scenario.move, guard_eq, tie_Area,
    forEach_eq_mapR, mapR_ok]
  cases h : CR.Iv.validOrientation m.τ m.a
  · simp [CR.Py.assert, bind, Except.bind]
  · cases h1 : mapR (Lanelet.move m) sc.lanelets with
    | error e => simp [CR.Py.assert, bind, Except.bind, pure, Except.pure, h1]
    | ok ls =>
      cases h2 : mapR (movePosition m) sc.signs with
      | error e => simp [CR.Py.assert, bind, Except.bind, pure, Except.pure, h1, h2]
      | ok sg =>
        cases h3 : mapR (Light.move m) sc.lights with
        | error e => simp [CR.Py.assert, bind, Except.bind, pure, Except.pure, h1, h2, h3]
        | ok lt =>
          cases h4 : mapR (Obstacle.move m) sc.obstacles <;>
            simp [CR.Py.assert, bind, Except.bind, pure, Except.pure, h1, h2, h3, h4]

/-! ### obstacles -/

theorem tie_StaticObstacle (m : Mo) (body : Shape) (st : State) :
    Gen.StaticObstacle_translate_rotate m body st = Obstacle.move m (.static body st) := by
  simp only [Gen.StaticObstacle_translate_rotate, Obstacle.move, guard_eq]
  cases h : CR.Iv.validOrientation m.τ m.a
  · simp [CR.Py.assert, bind, Except.bind]
  · cases h2 : State.move m st <;> simp [CR.Py.assert, bind, Except.bind, pure, Except.pure, h2]

theorem tie_DynamicObstacle (m : Mo) (body : Shape) (st : State) (p : Pred) (hist : List State) :
    Gen.DynamicObstacle_translate_rotate m body st p hist = Obstacle.move m (.dynamic body st p hist) := by
  simp only [Gen.DynamicObstacle_translate_rotate, Obstacle.move, moveStates, guard_eq, bind_pure, forEach_eq_mapR]
  cases h : CR.Iv.validOrientation m.τ m.a
  · simp [CR.Py.assert, bind, Except.bind]
  · have hnone : Pred.move m .none = .ok .none := rfl
    cases hp : Pred.move m p with
    | error e =>
      cases p with
      | none => simp [hnone] at hp
      | traj b s | occ s => simp [CR.Py.assert, bind, Except.bind, pure, Except.pure, hp, predIsSome]
    | ok p' =>
      have hp' : (if predIsSome p = true then Pred.move m p else .ok p) = .ok p' := by
        cases p with
        | none => simp [predIsSome]; simpa [hnone] using hp
        | traj b s | occ s => simp [predIsSome, hp]
      cases h2 : State.move m st with
      | error e =>
        cases p <;> simp_all [CR.Py.assert, bind, Except.bind, pure, Except.pure, predIsSome]
      | ok st' =>
        cases h3 : mapR (State.move m) hist <;>
          cases p <;> simp_all [CR.Py.assert, bind, Except.bind, pure, Except.pure, predIsSome]

theorem tie_PhantomObstacle (m : Mo) (p : Option (List Shape)) :
    Gen.PhantomObstacle_translate_rotate m p = Obstacle.move m (.phantom p) := by
  simp only [Gen.PhantomObstacle_translate_rotate, guard_eq]
  cases h : CR.Iv.validOrientation m.τ m.a
  · cases p <;> simp [Obstacle.move, guard_eq, h, CR.Py.assert, bind, Except.bind]
  · cases p with
    | none => simp [Obstacle.move, guard_eq, h, CR.Py.assert, bind, Except.bind, pure, Except.pure]
    | some shs =>
      cases h2 : moveOccs m shs <;> simp [Obstacle.move, guard_eq, h, CR.Py.assert, bind, Except.bind, pure, Except.pure, h2]

theorem tie_EnvironmentObstacle (m : Mo) (sh : Shape) :
    Gen.EnvironmentObstacle_translate_rotate m sh = Obstacle.move m (.env sh) := by
  simp only [Gen.EnvironmentObstacle_translate_rotate, Obstacle.move, guard_eq]
  cases h : CR.Iv.validOrientation m.τ m.a
  · simp [CR.Py.assert, bind, Except.bind]
  · cases h2 : Shape.move m sh <;> simp [CR.Py.assert, bind, Except.bind, pure, Except.pure, h2]

/-! ### planning problems -/

theorem tie_GoalRegion (m : Mo) (sts : List State) : Gen.GoalRegion_translate_rotate m sts = moveStates m sts := by
  simp only [Gen.GoalRegion_translate_rotate, moveStates, bind_pure, forEach_eq_mapR]
  try (cases h2 : mapR (State.move m) sts <;> simp [bind, Except.bind, pure, Except.pure, h2])

theorem tie_PlanningProblem (m : Mo) (pp : Problem) : Gen.PlanningProblem_translate_rotate m pp = Problem.move m pp := by
  simp only [Gen.PlanningProblem_translate_rotate, Problem.move, tie_GoalRegion]
  cases h1 : State.move m pp.init with
  | error e => simp [bind, Except.bind, h1]
  | ok i' => cases h2 : moveStates m pp.goal <;> simp [bind, Except.bind, pure, Except.pure, h1, h2]

/-! #### the planning-problem set on the reference view

  `PlanningProblemSet.translate_rotate` of the current source is translated over `ProblemSet` (the GoalRegion objects as a heap,
  a problem = initial state + index of the object it holds); `planning_problem.goal is goal_region` is equality of indices.  The
  body of its loop is a definition of its own (`Gen.PlanningProblemSet_translate_rotate_loop1`), the loop `forEachS` of it. -/

/-- one iteration of the loop of the current source = one step of the model's `ProblemSet.loop`: the initial state is always
    replaced; the goal-region object is moved (and remembered) iff it is not among the remembered ones. -/
theorem tie_PlanningProblemSet_step (m : Mo) (heap : List (List State)) (acc : List Nat) (p : State × Nat) :
    Gen.PlanningProblemSet_translate_rotate_loop1 m (heap, acc) p =
      (match State.move m p.1 with
       | .error e => .error e
       | .ok i' =>
         if p.2 ∈ acc then .ok ((i', p.2), (heap, acc))
         else match moveStates m (goalAt heap p.2) with
           | .error e => .error e
           | .ok g' => .ok ((i', p.2), (heap.set p.2 g', acc ++ [p.2]))) := by
  simp only [Gen.PlanningProblemSet_translate_rotate_loop1, Problem.move, tie_GoalRegion]
  by_cases hmem : p.2 ∈ acc
  · cases h1 : State.move m p.1 <;> simp [bind, Except.bind, pure, Except.pure, hmem, h1]
  · cases h1 : State.move m p.1 with
    | error e => simp [bind, Except.bind, pure, Except.pure, hmem, h1]
    | ok i' =>
      cases h2 : moveStates m (goalAt heap p.2) <;> simp [bind, Except.bind, pure, Except.pure, hmem, h1, h2]

/-- the loop of the current source, started with any list `acc` of remembered objects that has the members of the model's
    `done`, yields the problems and the heap of the model's `ProblemSet.loop`. -/
theorem tie_PlanningProblemSet_loop (m : Mo) : ∀ (l : List (State × Nat)) (heap : List (List State)) (acc done : List Nat),
    (∀ x, x ∈ acc ↔ x ∈ done) →
    (match forEachS (Gen.PlanningProblemSet_translate_rotate_loop1 m) (heap, acc) l with
     | .error e => .error e
     | .ok r => .ok (r.1, r.2.1)) = ProblemSet.loop m l heap done
  | [], heap, acc, done, _ => rfl
  | p :: rest, heap, acc, done, hm => by
    simp only [forEachS, ProblemSet.loop, tie_PlanningProblemSet_step]
    cases h1 : State.move m p.1 with
    | error e => rfl
    | ok i' =>
      by_cases hmem : p.2 ∈ acc
      · have hd : p.2 ∈ done := (hm _).1 hmem
        have ih := tie_PlanningProblemSet_loop m rest heap acc done hm
        simp only [hmem, hd, if_true, ← ih]
        cases forEachS (Gen.PlanningProblemSet_translate_rotate_loop1 m) (heap, acc) rest <;> rfl
      · have hd : ¬ p.2 ∈ done := fun h => hmem ((hm _).2 h)
        simp only [hmem, hd, if_false]
        cases h2 : moveStates m (goalAt heap p.2) with
        | error e => rfl
        | ok g' =>
          have hm' : ∀ x, x ∈ acc ++ [p.2] ↔ x ∈ p.2 :: done := by
            intro x
            rw [List.mem_append, List.mem_singleton, List.mem_cons, hm x]
            exact Or.comm
          have ih := tie_PlanningProblemSet_loop m rest (heap.set p.2 g') (acc ++ [p.2]) (p.2 :: done) hm'
          simp only [← ih]
          cases forEachS (Gen.PlanningProblemSet_translate_rotate_loop1 m) (heap.set p.2 g', acc ++ [p.2]) rest <;> rfl

/-- `PlanningProblemSet.translate_rotate` of the current source IS the model's `ProblemSet.move` (a goal-region object shared by
    several problems is moved once; twins - equal by value, two objects - are both moved), for every set and every motion.
    `C05_problem_set_objects` (CRProps/C05) then gives: what the accessors show afterwards is `moveProblems` of what they showed. -/
theorem tie_PlanningProblemSet (m : Mo) (ps : ProblemSet) : Gen.PlanningProblemSet_translate_rotate m ps = ProblemSet.move m ps := by
  simp only [Gen.PlanningProblemSet_translate_rotate, ProblemSet.move,
    ← tie_PlanningProblemSet_loop m ps.problems ps.goals [] [] (fun _ => Iff.rfl)]
  cases forEachS (Gen.PlanningProblemSet_translate_rotate_loop1 m) (ps.goals, []) ps.problems <;>
    simp [bind, Except.bind, pure, Except.pure]

/-! ### structural tie: which attributes each in-place `translate_rotate` of the CURRENT source touches

  `Gen.C05_movedTable` is extracted from the `ast` on every run.  The table is finite and checked completely by `decide`, which
  is a proof for that table: every world-frame attribute the model records list is assigned / moved / walked by the method of
  its class (a dropped field breaks the first theorem), and no body-frame attribute is (an over-moved body shape breaks the
  second). -/

theorem tie_moved_table_covers : fieldsCovered spatialFields Gen.C05_movedTable = true := by decide +kernel

theorem tie_moved_table_avoids_body : fieldsAvoided bodyFields Gen.C05_movedTable = true := by decide +kernel

end CR.Rigid
