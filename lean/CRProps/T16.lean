/-
  T16 — translator tie for C16 (and C08): every definition that harness/translate regenerates from the CURRENT
  source of commonroad/common/util.py (module Gen.Src, rebuilt on every run) equals the hand-written model
  CRModel/Interval.lean that the C16 / C08 theorems are about. A source edit that changes what one of these
  functions computes breaks the corresponding `tie_*` theorem (a broken obligation, which starts the
  failing-input search); a harmless rewrite may break it too and is then reported as such.
  Constructor calls (`Interval(a, b)`) are mapped to `CR.Iv.mk` by the translator (tied by correspondence only).
-/
import Gen.Src
import Gen.SrcC04
import CRProofs.Interval
namespace CR.Iv

theorem tie_contains_num (i : I) (x : Rat) : Gen.Interval_contains_num i x = contains i x := rfl
theorem tie_contains_interval (i j : I) : Gen.Interval_contains_interval i j = containsI i j := rfl

theorem tie_overlaps (i j : I) : Gen.Interval_overlaps i j = overlaps i j := by
  simp [Gen.Interval_overlaps, overlaps, ge_iff_le]

theorem tie_intersection (i j : I) : Gen.Interval_intersection i j = intersection i j := by
  unfold Gen.Interval_intersection intersection
  rw [tie_overlaps]
  by_cases h : overlaps i j = true
  · simp only [h, Bool.not_true, Bool.false_eq_true, if_false, if_true]
    unfold mk
    split <;> rfl
  · simp only [h, Bool.not_eq_true] at *
    simp [h]
    rfl

theorem tie_add (i : I) (k : Rat) : Gen.Interval_add i k = add i k := by
  unfold Gen.Interval_add add mk; split <;> rfl
theorem tie_sub (i : I) (k : Rat) : Gen.Interval_sub i k = sub i k := by
  unfold Gen.Interval_sub sub mk; split <;> rfl

theorem tie_mul (i : I) (k : Rat) : Gen.Interval_mul i k = mul i k := by
  unfold Gen.Interval_mul mul
  by_cases h : 0 < k
  · simp only [gt_iff_lt, h, decide_true, if_true]
  · simp only [gt_iff_lt, h, decide_false, Bool.false_eq_true, if_false]

theorem tie_truediv (i : I) (k : Rat) : Gen.Interval_truediv i k = div i k := by
  unfold Gen.Interval_truediv div
  by_cases h0 : k = 0
  · subst h0; simp [CR.Py.div, bind, Except.bind]
  · by_cases h : 0 < k
    · simp only [gt_iff_lt, h, decide_true, if_true, h0, if_false, CR.Py.div]; unfold mk
      split <;> simp_all [bind, Except.bind, pure, Except.pure]
    · simp only [gt_iff_lt, h, decide_false, Bool.false_eq_true, if_false, h0, CR.Py.div]; unfold mk
      split <;> simp_all [bind, Except.bind, pure, Except.pure]

/-- The constructor, translated with its two property setters on a partially initialised object
    (`_start`, `_end` are `None` first): it is exactly the model's `mk` — in particular the guards test
    `is not None`, not truthiness, so a stored bound of 0 is checked like any other. -/
theorem tie_init (a b : Rat) :
    Gen.Interval_init a b = (mk a b).map (fun i => (some i.lo, some i.hi)) := by
  unfold Gen.Interval_init Gen.Interval_set_start Gen.Interval_set_end mk
  by_cases h : a ≤ b
  · simp [h, bind, Except.bind, pure, Except.pure, Except.map, CR.Py.assert, ge_iff_le]
  · simp [h, bind, Except.bind, pure, Except.pure, Except.map, CR.Py.assert, ge_iff_le]

/-- The setters on a fully constructed interval are the model's `setStart` / `setEnd`. -/
theorem tie_setters (i : I) (x : Rat) :
    Gen.Interval_set_start (some i.lo, some i.hi) x = (setStart i x).map (fun j => (some j.lo, some j.hi)) ∧
    Gen.Interval_set_end (some i.lo, some i.hi) x = (setEnd i x).map (fun j => (some j.lo, some j.hi)) := by
  unfold Gen.Interval_set_start Gen.Interval_set_end setStart setEnd
  constructor
  · by_cases h : x ≤ i.hi <;> simp [h, bind, Except.bind, pure, Except.pure, Except.map, CR.Py.assert]
  · by_cases h : i.lo ≤ x <;> simp [h, bind, Except.bind, pure, Except.pure, Except.map, CR.Py.assert, ge_iff_le]

theorem tie_length (i : I) : Gen.Interval_length i = length i := rfl

theorem tie_order (i j : I) (x : Rat) :
    Gen.Interval_gt_num i x = gtNum i x ∧ Gen.Interval_lt_num i x = ltNum i x ∧
    Gen.Interval_gt_interval i j = gtI i j ∧ Gen.Interval_lt_interval i j = ltI i j := by
  simp [Gen.Interval_gt_num, Gen.Interval_lt_num, Gen.Interval_gt_interval, Gen.Interval_lt_interval,
    gtNum, ltNum, gtI, ltI]

/-- `math.fmod` moved into `[0, τ)` is the model's `wrap`. -/
theorem fmod_fix_eq_wrap {τ : Rat} (hτ : 0 < τ) (x : Rat) :
    (if CR.Py.fmod x τ < 0 then CR.Py.fmod x τ + τ else CR.Py.fmod x τ) = wrap τ x := by
  unfold CR.Py.fmod CR.Py.trunc
  by_cases hx : 0 ≤ x / τ
  · simp only [hx, if_true]
    have h0 := wrap_nonneg hτ x
    rw [wrap_eq] at h0
    rw [if_neg (by linarith), wrap_eq]
  · simp only [hx, if_false]
    push Not at hx
    -- ceil = floor or floor + 1
    have hfl := Rat.floor_le (x / τ)
    have hlt := Rat.lt_floor_add_one (x / τ)
    have hc1 : (x / τ) ≤ ((x / τ).ceil : Rat) := Rat.le_ceil
    have hc2 : (x / τ).ceil ≤ (x / τ).floor + 1 := by
      rw [Rat.ceil_le_iff]; push_cast; exact le_of_lt (by push_cast at hlt; exact hlt)
    have hc3 : (x / τ).floor ≤ (x / τ).ceil := by
      exact_mod_cast le_trans hfl hc1
    have hw0 := wrap_nonneg hτ x
    have hw1 := wrap_lt hτ x
    rw [wrap_eq] at hw0 hw1
    rcases (by omega : (x / τ).ceil = (x / τ).floor ∨ (x / τ).ceil = (x / τ).floor + 1) with hc | hc
    · rw [hc, if_neg (by linarith), wrap_eq]
    · rw [hc, wrap_eq]
      by_cases hz : x - τ * (((x / τ).floor + 1 : Int) : Rat) < 0
      · rw [if_pos hz]; push_cast; ring
      · -- then x = τ * (floor + 1), so x/τ is an integer, contradiction with ceil = floor + 1
        exfalso
        push Not at hz
        push_cast at hz hw1
        have hxe : x = τ * ((x / τ).floor + 1) := by linarith
        have : x / τ = ((x / τ).floor + 1 : Int) := by
          push_cast; field_simp; linarith
        have hfi : (x / τ).floor = (x / τ).floor + 1 := by
          conv_lhs => rw [this]
          exact Rat.floor_intCast _
        omega

theorem tie_angle_contains (τ ε : Rat) (hτ : 0 < τ) (i : I) (θ : Rat) :
    Gen.AngleInterval_contains_value τ ε i θ = containsAngle τ ε i θ := by
  unfold Gen.AngleInterval_contains_value containsAngle
  rw [← fmod_fix_eq_wrap hτ]
  by_cases h : CR.Py.fmod (θ - i.lo) τ < 0
  · simp [h, ge_iff_le]
  · simp [h, ge_iff_le]

theorem tie_angle_contains_num (τ ε : Rat) (hτ : 0 < τ) (i : I) (θ : Rat) :
    Gen.AngleInterval_contains_num τ ε i θ = containsAngle τ ε i θ := by
  unfold Gen.AngleInterval_contains_num
  exact tie_angle_contains τ ε hτ i θ

theorem tie_angle_contains_interval (τ ε : Rat) (hτ : 0 < τ) (i j : I) :
    Gen.AngleInterval_contains_interval τ ε i j = containsAngleI τ ε i j := by
  unfold Gen.AngleInterval_contains_interval containsAngleI
  rw [← fmod_fix_eq_wrap hτ]
  by_cases h : CR.Py.fmod (j.lo - i.lo) τ < 0
  · simp only [h, decide_true, if_true, Id.run, ge_iff_le]
    by_cases h2 : τ - ε ≤ CR.Py.fmod (j.lo - i.lo) τ + τ <;> simp [h2, pure]
  · simp only [h, decide_false, Bool.false_eq_true, if_false, Id.run, ge_iff_le]
    by_cases h2 : τ - ε ≤ CR.Py.fmod (j.lo - i.lo) τ <;> simp [h2, pure]

theorem tie_loop_down (τ : Rat) : ∀ (n : Nat) (x : Rat), Gen.make_valid_orientation.loop1 τ n x = downLoop n τ x
  | 0, x => rfl
  | n + 1, x => by
    unfold Gen.make_valid_orientation.loop1 downLoop
    by_cases h : x > τ <;> simp [h, tie_loop_down τ n]

theorem tie_loop_up (τ : Rat) : ∀ (n : Nat) (x : Rat), Gen.make_valid_orientation.loop2 τ n x = upLoop n τ x
  | 0, x => rfl
  | n + 1, x => by
    unfold Gen.make_valid_orientation.loop2 upLoop
    by_cases h : x < -τ <;> simp [h, tie_loop_up τ n]

theorem tie_make_valid (τ x : Rat) : Gen.make_valid_orientation τ (fuelFor τ x) x = makeValid τ x := by
  unfold Gen.make_valid_orientation makeValid
  simp [Id.run, tie_loop_down, tie_loop_up, pure]

theorem tie_loop_down2 (τ : Rat) : ∀ (n : Nat) (s e : Rat),
    Gen.make_valid_orientation_interval.loop1 τ n e s = ((downLoop2 n τ s e).2, (downLoop2 n τ s e).1)
  | 0, s, e => rfl
  | n + 1, s, e => by
    unfold Gen.make_valid_orientation_interval.loop1 downLoop2
    by_cases h : s > τ ∨ e > τ
    · have : (decide (s > τ) || decide (e > τ)) = true := by simpa using h
      simp only [this, if_true, h, tie_loop_down2 τ n]
    · have : (decide (s > τ) || decide (e > τ)) = false := by simpa using h
      simp [this, h]

theorem tie_loop_up2 (τ : Rat) : ∀ (n : Nat) (s e : Rat),
    Gen.make_valid_orientation_interval.loop2 τ n e s = ((upLoop2 n τ s e).2, (upLoop2 n τ s e).1)
  | 0, s, e => rfl
  | n + 1, s, e => by
    unfold Gen.make_valid_orientation_interval.loop2 upLoop2
    by_cases h : s < -τ
    · simp [h, tie_loop_up2 τ n]
    · simp [h]

theorem tie_make_valid_interval (τ s e : Rat) :
    Gen.make_valid_orientation_interval τ ((fuelFor τ s + fuelFor τ e) + (fuelFor τ s + fuelFor τ e)) s e
      = makeValidInterval τ s e := by
  unfold Gen.make_valid_orientation_interval makeValidInterval
  simp only [Id.run, tie_loop_down2, tie_loop_up2]
  rfl

/-- `AngleInterval.__init__` as the CURRENT source has it — normalisation loop, `assert end - start < TWO_PI`, then
    `Interval.__init__` running AngleInterval's own property setters (each asserting `is_valid_orientation`) on the
    partially initialised object — is the model's `mkAngle`. -/
theorem tie_angle_init (τ s e : Rat) :
    Gen.AngleInterval_init τ ((fuelFor τ s + fuelFor τ e) + (fuelFor τ s + fuelFor τ e)) s e
      = (mkAngle τ s e).map (fun i => (some i.lo, some i.hi)) := by
  unfold Gen.AngleInterval_init mkAngle
  rw [tie_make_valid_interval]
  generalize makeValidInterval τ s e = p
  obtain ⟨s1, e1⟩ := p
  unfold Gen.AngleInterval_base_init Gen.AngleInterval_set_start Gen.AngleInterval_set_end
  by_cases h1 : e1 - s1 < τ
  · by_cases h2 : validOrientation τ s1 = true
    · by_cases h3 : validOrientation τ e1 = true
      · by_cases h4 : s1 ≤ e1
        · simp [h1, h2, h3, h4, bind, Except.bind, pure, Except.pure, Except.map, CR.Py.assert, ge_iff_le]
        · simp [h1, h2, h3, h4, bind, Except.bind, pure, Except.pure, Except.map, CR.Py.assert, ge_iff_le]
      · simp [h1, h2, h3, bind, Except.bind, pure, Except.pure, Except.map, CR.Py.assert]
    · simp [h1, h2, bind, Except.bind, pure, Except.pure, Except.map, CR.Py.assert]
  · simp [h1, bind, Except.bind, pure, Except.pure, Except.map, CR.Py.assert]

/-- AngleInterval's own property setters on a fully constructed object (the CURRENT source) are the model's
    `setStartAngle` / `setEndAngle`: orientation check first, then the crossing check; nothing else is touched. -/
theorem tie_angle_setters (τ : Rat) (i : I) (x : Rat) :
    Gen.AngleInterval_set_start τ (some i.lo, some i.hi) x
      = (setStartAngle τ i x).map (fun j => (some j.lo, some j.hi)) ∧
    Gen.AngleInterval_set_end τ (some i.lo, some i.hi) x
      = (setEndAngle τ i x).map (fun j => (some j.lo, some j.hi)) := by
  unfold Gen.AngleInterval_set_start Gen.AngleInterval_set_end setStartAngle setEndAngle
  constructor
  · by_cases h0 : validOrientation τ x = true <;> by_cases h : x ≤ i.hi <;>
      simp [h0, h, bind, Except.bind, pure, Except.pure, Except.map, CR.Py.assert]
  · by_cases h0 : validOrientation τ x = true <;> by_cases h : i.lo ≤ x <;>
      simp [h0, h, bind, Except.bind, pure, Except.pure, Except.map, CR.Py.assert, ge_iff_le]

/-! ## second part: the functions translated by harness/translate/src_c04.py (module Gen.SrcC04) -/

/-- `Interval(a, b)` through the TRANSLATED constructor (Gen.Src `Interval_init`, its fields read back) is the model's `mk`:
    from here on constructor calls inside translated functions are tied by translation too. -/
theorem tie_interval_new (a b : Rat) : Gen.Interval_new a b = mk a b := by
  unfold Gen.Interval_new
  rw [tie_init]
  unfold mk
  split <;> rfl

/-- `Interval.__round__(n)` of the current source: both bounds rounded with the SAME `n` (`rnd n` = `round(·, n)`), handed to the constructor. -/
theorem tie_round (rnd : Option Int → Rat → Rat) (i : I) (n : Option Int) :
    Gen.Interval_round rnd i n = round (rnd n) i := by
  unfold Gen.Interval_round round
  rw [tie_interval_new]
  all_goals (cases mk (rnd n i.lo) (rnd n i.hi) <;> rfl)

theorem tie_dunder_contains (i : I) (x : Rat) : Gen.Interval_dunder_contains i x = contains i x := rfl

/-- `AngleInterval(s, e)` through the translated constructor is the model's `mkAngle`. -/
theorem tie_angle_new (τ s e : Rat) :
    Gen.AngleInterval_new τ ((fuelFor τ s + fuelFor τ e) + (fuelFor τ s + fuelFor τ e)) s e = mkAngle τ s e := by
  unfold Gen.AngleInterval_new
  rw [tie_angle_init]
  cases mkAngle τ s e <;> rfl

/-- `AngleInterval + k` / `- k` of the current source (`Interval.__add__` / `__sub__` with `type(self)` = AngleInterval): the
    shifted bounds go through the AngleInterval constructor (normalisation, length and orientation checks) — `addAngle` /
    `subAngle`. -/
theorem tie_angle_add (τ : Rat) (i : I) (k : Rat) :
    Gen.AngleInterval_add τ ((fuelFor τ (i.lo + k) + fuelFor τ (i.hi + k)) + (fuelFor τ (i.lo + k) + fuelFor τ (i.hi + k))) i k
      = addAngle τ i k := by
  unfold Gen.AngleInterval_add addAngle
  rw [tie_angle_new]
  all_goals (cases mkAngle τ (i.lo + k) (i.hi + k) <;> rfl)

theorem tie_angle_sub (τ : Rat) (i : I) (k : Rat) :
    Gen.AngleInterval_sub τ ((fuelFor τ (i.lo - k) + fuelFor τ (i.hi - k)) + (fuelFor τ (i.lo - k) + fuelFor τ (i.hi - k))) i k
      = subAngle τ i k := by
  unfold Gen.AngleInterval_sub subAngle
  rw [tie_angle_new]
  all_goals (cases mkAngle τ (i.lo - k) (i.hi - k) <;> rfl)

/-- `validity.is_in_interval(x, lo, hi)` on scalars with both bounds given: closed containment (a crossed pair of bounds only
    warns). -/
theorem tie_is_in_interval (x lo hi : Rat) : Gen.is_in_interval x lo hi = .ok (decide (lo ≤ x) && decide (x ≤ hi)) := by
  unfold Gen.is_in_interval
  by_cases h : lo > hi <;> simp [h, CR.Py.assert, bind, Except.bind, pure, Except.pure, ge_iff_le]

/-- `validity.is_valid_orientation(θ)` of the current source is the model's `validOrientation`: θ ∈ [-2π, 2π]. -/
theorem tie_is_valid_orientation (τ x : Rat) : Gen.is_valid_orientation τ x = .ok (validOrientation τ x) := by
  unfold Gen.is_valid_orientation
  rw [tie_is_in_interval]
  rfl

end CR.Iv
