/-
  T02 — translator tie for C02: the builders `XxxMessage.create_message` of the protobuf writer, regenerated on every run from
  the CURRENT source of commonroad/common/writer/file_writer_protobuf.py and the descriptors in the *_pb2.py files (Gen.SrcC02,
  written by harness/translate/src_c02.py), EQUAL the hand-written encoders of CRModel/CRProto.lean the C02 theorems are
  about — for all arguments.
-/
import Gen.SrcC02
import CRModel.CRProto
import CRProofs.CRProto
namespace CR.PBF
open PB

/-! ## writer -/

theorem tie_W_Point (p : Pt) : Gen.W_Point p = encPt p := rfl

theorem tie_W_Shape (s : Shape) : Gen.W_Shape encShape s = encShape s := by
  cases s <;> simp [Gen.W_Shape, Gen.W_Rectangle, Gen.W_Circle, Gen.W_Polygon, Gen.W_ShapeGroup, encShape, tie_W_Point,
    encShapes_eq_map]

theorem tie_W_IntegerExactOrInterval (v : IntEOI) : Gen.W_IntegerExactOrInterval v = encIntEOI v := by
  cases v <;> simp [Gen.W_IntegerExactOrInterval, Gen.W_IntegerInterval, encIntEOI]

theorem tie_W_FloatExactOrInterval (v : FloatEOI) : Gen.W_FloatExactOrInterval v = encFloatEOI v := by
  cases v <;> simp [Gen.W_FloatExactOrInterval, Gen.W_FloatInterval, encFloatEOI]


theorem tie_W_TimeStamp (t : Tm) : Gen.W_TimeStamp t = encTm t := rfl

theorem tie_W_GeoTransformation (g : Geo) : Gen.W_GeoTransformation g = encGeo g := rfl

theorem tie_W_Environment (e : Envr) : Gen.W_Environment e = encEnvr e := by
  simp [Gen.W_Environment, encEnvr, tie_W_TimeStamp]

theorem tie_W_Location (l : Loc) : Gen.W_Location l = encLoc l := by
  simp [Gen.W_Location, encLoc, tie_W_GeoTransformation, tie_W_Environment]

theorem tie_W_ScenarioInformation (i : Info) :
    Gen.W_ScenarioInformation i.version i.benchmark_id i.author i.affiliation i.source i.dt = encInfo i := rfl

theorem tie_W_ScenarioTags (tags : List String) : Gen.W_ScenarioTags tags = .msg [("tags", encEnums "Tag" tags)] := rfl

theorem tie_W_Bound (v : List Pt) (lm : Option String) : Gen.W_Bound v lm = encBound v lm := rfl

theorem tie_W_StopLine (s : Stop) : Gen.W_StopLine s = encStop s := rfl

theorem tie_W_Lanelet (l : Lanelet) : Gen.W_Lanelet l = encLanelet l := by
  unfold Gen.W_Lanelet encLanelet
  cases h1 : l.adj_left_same with
  | none => cases h2 : l.adj_right_same with
    | none => rfl
    | some b => cases b <;> rfl
  | some a => cases h2 : l.adj_right_same with
    | none => cases a <;> rfl
    | some b => cases a <;> cases b <;> rfl


-- one named class of traffic sign element ids: writer branch = model
set_option hygiene false in
local macro "sign_case " c:str : tactic =>
  `(tactic| (by_cases h : country = $c
             · (subst h; rfl)))

theorem tie_W_TrafficSignElement (e : SignEl) : Gen.W_TrafficSignElement e = encSignEl e := by
  obtain ⟨country, name, values⟩ := e
  sign_case "TrafficSignIDGermany"
  sign_case "TrafficSignIDZamunda"
  sign_case "TrafficSignIDUsa"
  sign_case "TrafficSignIDChina"
  sign_case "TrafficSignIDSpain"
  sign_case "TrafficSignIDRussia"
  sign_case "TrafficSignIDArgentina"
  sign_case "TrafficSignIDBelgium"
  sign_case "TrafficSignIDFrance"
  sign_case "TrafficSignIDGreece"
  sign_case "TrafficSignIDCroatia"
  sign_case "TrafficSignIDItaly"
  simp [Gen.W_TrafficSignElement, encSignEl, signField, signEnumOfField, *]

theorem tie_W_TrafficSign (s : Sign) : Gen.W_TrafficSign s = encSign s := by
  simp [Gen.W_TrafficSign, encSign, tie_W_TrafficSignElement, tie_W_Point, encIds]
  cases s.virtual <;> rfl

theorem tie_W_CycleElement (e : CycEl) : Gen.W_CycleElement e = encCycEl e := rfl

theorem tie_W_TrafficLight (t : Light) : Gen.W_TrafficLight t = encLight t := by
  simp [Gen.W_TrafficLight, encLight, tie_W_CycleElement, tie_W_Point]
  cases t.active <;> rfl

theorem tie_W_Incoming (i : Incoming) : Gen.W_Incoming i = encIncoming i := rfl

theorem tie_W_Intersection (i : Inter) : Gen.W_Intersection i = encInter i := by
  simp [Gen.W_Intersection, encInter, tie_W_Incoming, encIds]

theorem tie_W_Occupancy (o : Occ) : Gen.W_Occupancy o = encOcc o := by
  simp [Gen.W_Occupancy, encOcc, tie_W_IntegerExactOrInterval]

theorem tie_W_SetBasedPrediction (p : SetPred) : Gen.W_SetBasedPrediction p = encSetPred p := by
  simp [Gen.W_SetBasedPrediction, Gen.W_OccupancySet, encSetPred, tie_W_Occupancy]

theorem tie_W_TrajectoryPrediction (t0 : Int) (states : List St) (shape : Shape) :
    Gen.W_TrajectoryPrediction t0 states shape = encTrajPred (some (.traj t0 states shape)) := rfl

theorem tie_W_StaticObstacle (o : StaticObs) : Gen.W_StaticObstacle o = encStatic o := rfl

theorem tie_W_DynamicObstacle (o : DynObs) : Gen.W_DynamicObstacle o = encDynamic o := by
  unfold Gen.W_DynamicObstacle encDynamic
  cases h : o.pred with
  | none => rfl
  | some p => cases p <;> simp [encTrajPred, encSetPredOf, tie_W_TrajectoryPrediction, tie_W_SetBasedPrediction]

theorem tie_W_EnvironmentObstacle (o : EnvObs) : Gen.W_EnvironmentObstacle o = encEnvObs o := rfl

theorem tie_W_PhantomObstacle (o : Phantom) : Gen.W_PhantomObstacle o = encPhantom o := by
  simp [Gen.W_PhantomObstacle, encPhantom, tie_W_SetBasedPrediction]

theorem tie_W_GoalState (g : Goal) : Gen.W_GoalState g.state g.lanelets = encGoal g := rfl

end CR.PBF
