/-
  T02 — translator tie for C02: the builders `XxxMessage.create_message` of the protobuf writer, regenerated on every run from
  the CURRENT source of commonroad/common/writer/file_writer_protobuf.py and the descriptors in the *_pb2.py files (Gen.SrcC02,
  written by harness/translate/src_c02.py), EQUAL the hand-written encoders of CRModel/CRProto.lean the C02 theorems are
  about — for all arguments.
-/
import Gen.SrcC02
import CRModel.CRProto
import CRProofs.CRProto
import CRProps.C02
namespace CR.PBF
open PB

/-! ## writer -/

theorem tie_W_Point (p : Pt) : Gen.W_Point p = encPt p := rfl

theorem tie_W_Shape (s : Shape) : Gen.W_Shape encShape s = encShape s := by
  cases s <;> simp [Gen.W_Shape, Gen.W_Rectangle, Gen.W_Circle, Gen.W_Polygon, Gen.W_ShapeGroup, encShape, tie_W_Point,
    encShapes_eq_map]

theorem tie_W_IntegerExactOrInterval (v : IntEOI) : Gen.W_IntegerExactOrInterval v = encIntEOI v := by
  cases v <;> simp [Gen.W_IntegerExactOrInterval, Gen.W_IntegerInterval, encIntEOI]

theorem tie_W_FloatExactOrInterval (v : FloatEOI) : Gen.W_FloatExactOrInterval v = encFloatEOI v := by
  cases v <;> simp [Gen.W_FloatExactOrInterval, Gen.W_FloatInterval, encFloatEOI]


/-! ### message `State`: filled through `getattr(state_msg, <mapped attribute name>)` -/

/-- the FloatExactOrInterval fields of message State in the shipped descriptor are the model's `stateFields` -/
theorem tie_State_float_fields : Gen.State_FloatExactOrInterval_fields = stateFields := by decide

/-- `_map_to_pb_prop` is the identity on every field name of message State (all lower-case) -/
theorem mapToPbProp_stateFields : ∀ n ∈ stateFields, CR.PyC02.mapToPbProp n = n := by decide +kernel

theorem encAttr_isSet (kv : String × FloatEOI) : (encAttr kv).2.isSet = true := by
  unfold encAttr
  split
  · cases kv.2 <;> rfl
  · rfl

theorem filter_isSet_encAttr (l : List (String × FloatEOI)) :
    (l.map encAttr).filter (fun f => f.2.isSet) = l.map encAttr := by
  apply List.filter_eq_self.mpr
  intro f hf
  obtain ⟨kv, _, rfl⟩ := List.mem_map.mp hf
  exact encAttr_isSet kv

/-- StateMessage.create_message of the current source = the model's `encState`, up to null padding of the position
    fields, for every state whose attribute names `_map_to_pb_prop` leaves alone (all names without upper-case letters). -/
theorem tie_W_State (s : St) (h : ∀ kv ∈ s.attrs, CR.PyC02.mapToPbProp kv.1 = kv.1) :
    CR.PyC02.dropNull (Gen.W_State s) = encState s := by
  have hmap : List.map (fun kv : String × FloatEOI => (CR.PyC02.mapToPbProp kv.1,
      CR.PyC02.dynSet Gen.State_FloatExactOrInterval_fields (CR.PyC02.mapToPbProp kv.1) (Gen.W_FloatExactOrInterval kv.2)))
      s.attrs = s.attrs.map encAttr := by
    apply List.map_congr_left
    intro kv hkv
    rw [h kv hkv, tie_State_float_fields, tie_W_FloatExactOrInterval]
    rfl
  unfold Gen.W_State
  rw [hmap]
  simp only [CR.PyC02.dropNull, encState, List.filter_append, filter_isSet_encAttr, tie_W_IntegerExactOrInterval]
  have ht : (encIntEOI s.t).isSet = true := by cases s.t <;> rfl
  have hn : PB.null.isSet = false := rfl
  have hs : ∀ sh : Shape, (encShape sh).isSet = true := fun sh => by cases sh <;> rfl
  have hpt : ∀ p : Pt, (encPt p).isSet = true := fun _ => rfl
  cases hp : s.pos with
  | none => simp [encPos, ht, hn]
  | some p => cases p <;> simp [encPos, ht, hn, hs, hpt, tie_W_Point]

/-- every admissible state (`St.wf`: its attributes are fields of message State) satisfies the hypothesis of `tie_W_State` -/
theorem tie_W_State_wf (s : St) (h : ∀ kv ∈ s.attrs, kv.1 ∈ stateFields) :
    CR.PyC02.dropNull (Gen.W_State s) = encState s :=
  tie_W_State s fun kv hkv => mapToPbProp_stateFields kv.1 (h kv hkv)

theorem optB_eq (o : Option Bool) : PB.ofOpt (o.map PB.bool) = optB o := by cases o <;> rfl

theorem tie_W_SignalState (s : Sig) : Gen.W_SignalState s = encSig s := by
  simp [Gen.W_SignalState, encSig, tie_W_IntegerExactOrInterval, optB_eq]

theorem tie_W_TimeStamp (t : Tm) : Gen.W_TimeStamp t = encTm t := rfl

theorem tie_W_GeoTransformation (g : Geo) : Gen.W_GeoTransformation g = encGeo g := rfl

theorem tie_W_Environment (e : Envr) : Gen.W_Environment e = encEnvr e := by
  simp [Gen.W_Environment, encEnvr, tie_W_TimeStamp]

theorem tie_W_Location (l : Loc) : Gen.W_Location l = encLoc l := by
  simp [Gen.W_Location, encLoc, tie_W_GeoTransformation, tie_W_Environment]

theorem tie_W_ScenarioInformation (i : Info) :
    Gen.W_ScenarioInformation i.version i.benchmark_id i.author i.affiliation i.source i.dt = encInfo i := rfl

theorem tie_W_ScenarioTags (tags : List String) : Gen.W_ScenarioTags tags = .msg [("tags", encEnums "Tag" tags)] := rfl

theorem tie_W_Bound (v : List Pt) (lm : Option String) : Gen.W_Bound v lm = encBound v lm := rfl

theorem tie_W_StopLine (s : Stop) : Gen.W_StopLine s = encStop s := rfl

theorem tie_W_Lanelet (l : Lanelet) : Gen.W_Lanelet l = encLanelet l := by
  unfold Gen.W_Lanelet encLanelet
  cases h1 : l.adj_left_same with
  | none => cases h2 : l.adj_right_same with
    | none => rfl
    | some b => cases b <;> rfl
  | some a => cases h2 : l.adj_right_same with
    | none => cases a <;> rfl
    | some b => cases a <;> cases b <;> rfl


-- one named class of traffic sign element ids: writer branch = model
set_option hygiene false in
local macro "sign_case " c:str : tactic =>
  `(tactic| (by_cases h : country = $c
             · (subst h; rfl)))

theorem tie_W_TrafficSignElement (e : SignEl) : Gen.W_TrafficSignElement e = encSignEl e := by
  obtain ⟨country, name, values⟩ := e
  sign_case "TrafficSignIDGermany"
  sign_case "TrafficSignIDZamunda"
  sign_case "TrafficSignIDUsa"
  sign_case "TrafficSignIDChina"
  sign_case "TrafficSignIDSpain"
  sign_case "TrafficSignIDRussia"
  sign_case "TrafficSignIDArgentina"
  sign_case "TrafficSignIDBelgium"
  sign_case "TrafficSignIDFrance"
  sign_case "TrafficSignIDGreece"
  sign_case "TrafficSignIDCroatia"
  sign_case "TrafficSignIDItaly"
  simp [Gen.W_TrafficSignElement, encSignEl, signField, signEnumOfField, *]

theorem tie_W_TrafficSign (s : Sign) : Gen.W_TrafficSign s = encSign s := by
  simp [Gen.W_TrafficSign, encSign, tie_W_TrafficSignElement, tie_W_Point, encIds]
  cases s.virtual <;> rfl

theorem tie_W_CycleElement (e : CycEl) : Gen.W_CycleElement e = encCycEl e := rfl

theorem tie_W_TrafficLight (t : Light) : Gen.W_TrafficLight t = encLight t := by
  simp [Gen.W_TrafficLight, encLight, tie_W_CycleElement, tie_W_Point]
  cases t.active <;> rfl

theorem tie_W_Incoming (i : Incoming) : Gen.W_Incoming i = encIncoming i := rfl

theorem tie_W_Intersection (i : Inter) : Gen.W_Intersection i = encInter i := by
  simp [Gen.W_Intersection, encInter, tie_W_Incoming, encIds]

theorem tie_W_Occupancy (o : Occ) : Gen.W_Occupancy o = encOcc o := by
  simp [Gen.W_Occupancy, encOcc, tie_W_IntegerExactOrInterval]

theorem tie_W_SetBasedPrediction (p : SetPred) : Gen.W_SetBasedPrediction p = encSetPred p := by
  simp [Gen.W_SetBasedPrediction, Gen.W_OccupancySet, encSetPred, tie_W_Occupancy]

theorem tie_W_TrajectoryPrediction (t0 : Int) (states : List St) (shape : Shape) :
    Gen.W_TrajectoryPrediction t0 states shape = encTrajPred (some (.traj t0 states shape)) := rfl

theorem tie_W_StaticObstacle (o : StaticObs) : Gen.W_StaticObstacle o = encStatic o := by
  simp [Gen.W_StaticObstacle, encStatic, tie_W_SignalState]

theorem tie_W_DynamicObstacle (o : DynObs) : Gen.W_DynamicObstacle o = encDynamic o := by
  unfold Gen.W_DynamicObstacle encDynamic
  cases h : o.pred with
  | none => simp [encTrajPred, encSetPredOf, tie_W_SignalState]
  | some p => cases p <;> simp [encTrajPred, encSetPredOf, tie_W_TrajectoryPrediction, tie_W_SetBasedPrediction, tie_W_SignalState]

theorem tie_W_EnvironmentObstacle (o : EnvObs) : Gen.W_EnvironmentObstacle o = encEnvObs o := rfl

theorem tie_W_PhantomObstacle (o : Phantom) : Gen.W_PhantomObstacle o = encPhantom o := by
  simp [Gen.W_PhantomObstacle, encPhantom, tie_W_SetBasedPrediction]

theorem tie_W_GoalState (g : Goal) : Gen.W_GoalState g.state g.lanelets = encGoal g := rfl


/-! ## the C02 round trips, stated on the builders AS THEY ARE IN THE SOURCE NOW

  The model's decoder applied to what the current source's builder produces (not to the hand-written encoder). -/

theorem T02_src_shape_roundtrip (s : Shape) : decShape (Gen.W_Shape encShape s) = s := by
  rw [tie_W_Shape]; exact C02_shape_roundtrip s

theorem T02_src_lanelet_roundtrip (l : Lanelet) : decLanelet (Gen.W_Lanelet l) = .ok (normLanelet l) := by
  rw [tie_W_Lanelet]; exact C02_lanelet_roundtrip l

/-- traffic-sign virtual flag and first occurrences survive what TrafficSignMessage.create_message writes now -/
theorem T02_src_sign_roundtrip (s : Sign) (v : Bool) (h : s.virtual = some v) :
    decSign (Gen.W_TrafficSign s) = normSign s ∧ (decSign (Gen.W_TrafficSign s)).first = s.first
      ∧ (decSign (Gen.W_TrafficSign s)).virtual = some v := by
  rw [tie_W_TrafficSign]; exact ⟨C02_sign_roundtrip s, C02_sign_first_virtual s v h⟩

/-- traffic-light offset / direction / active survive what TrafficLightMessage.create_message writes now -/
theorem T02_src_light_roundtrip (t : Light) (o : Int) (d : String) (a : Bool) (ho : t.offset = some o)
    (hd : t.direction = some d) (ha : t.active = some a) :
    (decLight (Gen.W_TrafficLight t)).offset = some o ∧ (decLight (Gen.W_TrafficLight t)).direction = some d ∧
    (decLight (Gen.W_TrafficLight t)).active = some a ∧ (decLight (Gen.W_TrafficLight t)).cycle = t.cycle := by
  rw [tie_W_TrafficLight]; exact C02_light_optional t o d a ho hd ha

/-- environment time with day / month / year, time of day, weather, underground, geo transformation -/
theorem T02_src_location_roundtrip (l : Loc) : decLoc (Gen.W_Location l) = l := by
  rw [tie_W_Location]; exact C02_location_roundtrip l

/-- signal states incl. horn: every set slot survives, every unset slot stays unset -/
theorem T02_src_signal_roundtrip (s : Sig) (h : s.any = true) : decSig (Gen.W_SignalState s) = some s := by
  rw [tie_W_SignalState]; exact C02_signal_roundtrip s h

/-- interval- and region-valued state attributes: the message StateMessage.create_message builds now (without its null
    padding) reads back with the same time step, position and attributes -/
theorem T02_src_state_roundtrip (s : St) (h : s.wf = true) (hk : ∀ kv ∈ s.attrs, kv.1 ∈ stateFields) :
    (decState (CR.PyC02.dropNull (Gen.W_State s))).t = s.t ∧ (decState (CR.PyC02.dropNull (Gen.W_State s))).pos = s.pos
      ∧ (decState (CR.PyC02.dropNull (Gen.W_State s))).attrs = s.attrs := by
  rw [tie_W_State_wf s hk]; exact C02_state_roundtrip s h

/-! ## structural tables: which fields the writer sets, which the reader touches, what the descriptors declare

  `Gen.writerTable` (a by-product of the symbolic execution of every builder), `Gen.readerTable` (extracted from every
  `XxxFactory`) and `Gen.descriptor` (the serialized descriptors in the *_pb2.py files) are finite tables; the statements below
  are checked over the COMPLETE tables by evaluation (`decide`), which is a proof for these tables. -/

def tblGet (t : List (String × List (String × String))) (m f : String) : Option String := (t.lookup m).bind (·.lookup f)

def labelOf (m f : String) : Option String := ((Gen.descriptor.lookup m).bind (·.lookup f)).map (·.1)

/-- optional fields the reader reads WITHOUT a HasField test although the writer sets them on some paths only: an unset
    sign / light position reads as (0, 0) (normSign / normLight; explicit positions are part of the domain), the last member of
    a oneof is the reader's `else` branch -/
def readDefaulted : List (String × String) :=
  [("TrafficSign", "position"), ("TrafficLight", "position"), ("Shape", "shape_group"),
   ("TrafficSignElement", "puerto_rico_element_id")]

/-- (i) every field a builder of the writer sets is read by the factory of the same message type -/
theorem T02_written_is_read :
    (Gen.writerTable.all fun row => row.2.all fun fk =>
      tblGet Gen.readerTable row.1 fk.1 == some "read" || tblGet Gen.readerTable row.1 fk.1 == some "read?") = true := by
  decide +kernel

/-- (ii) a field the reader reads without a HasField test is repeated, or set by the writer on every path, or one of the
    declared defaulted reads (the message types without a translated builder are left out) -/
theorem T02_unguarded_read_is_always_written :
    (Gen.readerTable.all fun row => (Gen.writerTable.lookup row.1).isNone || row.2.all fun fk =>
      fk.2 != "read" || labelOf row.1 fk.1 == some "repeated" || tblGet Gen.writerTable row.1 fk.1 == some "set"
        || readDefaulted.contains (row.1, fk.1)) = true := by
  decide +kernel

/-- (iii-a) a field the writer sets on some paths only is `optional` in the format and the reader tests it with HasField
    (absent optional data stays absent), the declared defaulted reads excepted -/
theorem T02_optional_guarded :
    (Gen.writerTable.all fun row => row.2.all fun fk =>
      fk.2 != "set?" || (labelOf row.1 fk.1 == some "optional"
        && (tblGet Gen.readerTable row.1 fk.1 == some "read?" || readDefaulted.contains (row.1, fk.1)))) = true := by
  decide +kernel

/-- (iii-b) every `required` field of a message type the writer builds is set on every path -/
theorem T02_required_always_set :
    (Gen.writerTable.all fun row => ((Gen.descriptor.lookup row.1).getD []).all fun d =>
      d.2.1 != "required" || row.2.lookup d.1 == some "set") = true := by
  decide +kernel

/-- the optional information the property sentence names: (message, field) -/
def namedOptionals : List (String × String) :=
  [("SignalState", "horn"), ("SignalState", "indicator_left"), ("SignalState", "indicator_right"),
   ("SignalState", "braking_lights"), ("SignalState", "hazard_warning_lights"), ("SignalState", "flashing_blue_lights"),
   ("SignalState", "time_step"), ("StaticObstacle", "initial_signal_state"), ("DynamicObstacle", "initial_signal_state"),
   ("TrafficSign", "virtual"), ("TrafficLight", "time_offset"), ("TrafficLight", "direction"), ("TrafficLight", "active"),
   ("FloatExactOrInterval", "interval"), ("IntegerExactOrInterval", "interval"), ("State", "shape"),
   ("TimeStamp", "year"), ("TimeStamp", "month"), ("TimeStamp", "day"), ("Environment", "time")]
  ++ stateFields.map fun f => ("State", f)

/-- (iii-c) every optional piece of information the property names has a field that is written when present and read back
    under a HasField test; first occurrences and signal series are repeated fields written and read unconditionally -/
theorem T02_named_optionals :
    (namedOptionals.all fun mf => labelOf mf.1 mf.2 == some "optional" && tblGet Gen.writerTable mf.1 mf.2 == some "set?"
        && tblGet Gen.readerTable mf.1 mf.2 == some "read?") = true
    ∧ ([("TrafficSign", "first_occurrences"), ("StaticObstacle", "signal_series"), ("DynamicObstacle", "signal_series")].all
        fun mf => labelOf mf.1 mf.2 == some "repeated" && tblGet Gen.writerTable mf.1 mf.2 == some "set"
          && tblGet Gen.readerTable mf.1 mf.2 == some "read") = true := by
  constructor <;> decide +kernel

end CR.PBF
