/-
  C07b — the geometric sentence of C07, end to end: C07's bookkeeping theorems (CRProps/C07.lean) composed with C06's index
  theorems (CRProps/C06.lean, `CR.Index.find_eq_scan`, `CR.Index.findShape_eq_scan`, `C06_findShape_group`).

  `Env.cen` / `Env.shp` of the Assign model are no longer free: they ARE `find_lanelet_by_position([centre])[0]` and
  `find_lanelet_by_shape(occupancy)` of the Index model on a network `n` built by any admissible construction route
  (`Built n`).  What remains as parameters are only the two primitive predicates of `Geo`
      `within ring p`   — the point lies in (within 1e-15 of) the lanelet polygon,
      `meets ring s`    — the lanelet polygon intersects the primitive shape,
  and the positions / occupancy shapes of the obstacles.  The STRtree, the `id(polygon)` reverse map, the rebuild
  discipline, the ShapeGroup union, the dict / set bookkeeping of obstacles and lanelets and both readers are inside the
  theorems.  For EVERY network, obstacle pool, horizon and history (no bound).
-/
import CRProofs.AssignGeo

namespace CR.Assign
open CR.Geom CR.Props.C06 CR.Index

/-- Admissible construction routes of a `LaneletNetwork` (C06 Part II): `create_from_lanelet_list` (also what the readers
    use); any sequence of `add_lanelet` / `remove_lanelet` / `add_lanelets_from_network` / deepcopy / pickle from the empty
    network in which every call rebuilds the index (the default `rtree=True`); any sequence, with `rtree=False` anywhere,
    that ends with a call that certainly rebuilds; a deepcopy / pickle round trip of any (even stale) network. -/
inductive Built : Index.Net → Prop
  | fromList (f : Nat → Nat) (hf : Function.Injective f) (ls : List Index.Lanelet)
      (hn : (ls.map (·.poly.addr)).Nodup) : Built (Index.fromList f ls)
  | ops (ops : List Index.Op) (n : Index.Net) (ha : AdmSeq Index.Net.empty ops)
      (hr : ∀ o ∈ ops, rebuilds o = true) (h : Index.run Index.Net.empty ops = .ok n) : Built n
  | refreshed (ops : List Index.Op) (last : Index.Op) (n : Index.Net) (ha : AdmSeq Index.Net.empty (ops ++ [last]))
      (hl : ∀ n1, Index.run Index.Net.empty ops = .ok n1 → refreshes n1 last)
      (h : Index.run Index.Net.empty (ops ++ [last]) = .ok n) : Built n
  | copy (n : Index.Net) (f : Nat → Nat) (hf : Function.Injective f) (hb : Index.Buffered n) : Built (Index.copyNet f n)

/-- every admissible route ends with a synchronised index -/
theorem C07b_built_sync {n : Index.Net} (hb : Built n) : Index.Sync n := by
  cases hb with
  | fromList f hf ls hn => exact C06_sync_fromList f hf ls hn
  | ops ops n ha hr h =>
    obtain ⟨n', h', hs⟩ := C06_sync_default ops Index.Net.empty C06_sync_empty ha hr
    rw [h] at h'; cases h'; exact hs
  | refreshed ops last n ha hl h =>
    obtain ⟨n', h', hs⟩ := C06_sync_after_refresh ops last Index.Net.empty C06_sync_empty.1 ha hl
    rw [h] at h'; cases h'; exact hs
  | copy n f hf hb => exact C06_sync_copy n f hf hb

/-- **the lookups are the geometry**: on a built network the centre lookup answers exactly (each once) the lanelets whose
    polygon the centre is `within`, the shape lookup exactly (each once) the lanelets whose polygon `meets` the occupancy —
    some member of it for a ShapeGroup; never an exception -/
theorem C07b_lookups {G : Geo} {n : Index.Net} (hb : Built n) (o : Id) (t : T) :
    ((envOf G n).cen o t).Nodup ∧ ((envOf G n).shp o t).Nodup ∧
    (∀ l, l ∈ (envOf G n).cen o t ↔ Within G n o t l) ∧ (∀ l, l ∈ (envOf G n).shp o t ↔ Meets G n o t l) :=
  have hs := C07b_built_sync hb
  ⟨nodup_cenOf hs o t, (shpOf_spec hs o t).1, mem_cenOf hs o t, mem_shpOf hs o t⟩

/-- the totalisation of `cenOf` / `shpOf` (an exception of the lookup would read as the empty list) is never exercised on a
    built network: the index queries return normally and `Env.cen` / `Env.shp` ARE their answers -/
theorem C07b_lookups_ok {G : Geo} {n : Index.Net} (hb : Built n) (o : Id) (t : T) :
    Index.findByPosition G.within n [G.pos o t] = .ok [(envOf G n).cen o t] ∧
    Index.findByShape G.meets n (G.occ o t) = .ok ((envOf G n).shp o t) := by
  have hs := C07b_built_sync hb
  constructor
  · show _ = Except.ok [cenOf G n o t]
    rw [cenOf_eq hs, CR.Index.find_eq_scan G.within n hs [G.pos o t]]
    rfl
  · show _ = Except.ok (shpOf G n o t)
    unfold shpOf
    cases hocc : G.occ o t with
    | prim q => rw [CR.Index.findShape_eq_scan G.meets n hs q]
    | group ss =>
      obtain ⟨r, hr, _⟩ := C06_findShape_group G.meets n hs ss
      rw [hr]

theorem C07b_wf {G : Geo} {n : Index.Net} (hb : Built n) : WfEnv (envOf G n) := wf_envOf G (C07b_built_sync hb)

/-- what the property sentence says of a state: every obstacle of the scenario (static, trajectory-predicted, unpredicted; a
    set-based prediction is outside the property and is provably in no registry) carries at every step of its horizon the set
    of lanelets containing its centre and the set of lanelets its occupancy meets, and every lanelet's registries are exactly
    the inverse (static: the one occupancy; dynamic: per time step of the horizon) -/
def GeoCorrect (G : Geo) (n : Index.Net) (s : St) : Prop :=
  (∀ o, o ∈ s.statics ++ s.dynamics → G.kind o ≠ Kind.dynSet → ∀ t, InHorizon (envOf G n) o t →
      GeoAssigned G n (s.fwd o) o t) ∧
  (∀ l t o, memD s.dreg l t o ↔ (o ∈ s.dynamics ∧ G.kind o ≠ Kind.dynSet ∧ InHorizon (envOf G n) o t ∧ Meets G n o t l)) ∧
  (∀ l o, o ∈ s.sreg l ↔ (o ∈ s.statics ∧ Meets G n o (G.t0 o) l))

theorem geoCorrect_of {G : Geo} {n : Index.Net} {s : St} (hs : Index.Sync n) (hi : Inv (envOf G n) s)
    (ha : ∀ o, o ∈ s.statics ++ s.dynamics → G.kind o ≠ Kind.dynSet → ∀ t, InHorizon (envOf G n) o t →
      Assigned (envOf G n) (s.fwd o) o t) :
    GeoCorrect G n s := by
  obtain ⟨r1, r2⟩ := registry_exact_of_assigned hi ha
  refine ⟨fun o ho hset t ht => geoAssigned_of_assigned hs (ha o ho hset t ht), fun l t o => ?_, fun l o => ?_⟩
  · rw [r1]
    constructor
    · rintro ⟨h1, hset, h2, h3⟩; exact ⟨h1, hset, h2, (mem_shpOf hs o t l).mp h3⟩
    · rintro ⟨h1, hset, h2, h3⟩; exact ⟨h1, hset, h2, (mem_shpOf hs o t l).mpr h3⟩
  · rw [r2]
    constructor
    · rintro ⟨h1, h3⟩; exact ⟨h1, (mem_shpOf hs o (G.t0 o) l).mp h3⟩
    · rintro ⟨h1, h3⟩; exact ⟨h1, (mem_shpOf hs o (G.t0 o) l).mpr h3⟩

/-- **assign_obstacles_to_lanelets, geometrically**: in any state satisfying the invariant, on any built network -/
theorem C07b_assign_geometric {G : Geo} {n : Index.Net} {s s' : St} (hb : Built n) (hi : Inv (envOf G n) s)
    (h : assign (envOf G n) none none false s = .ok s') : GeoCorrect G n s' := by
  obtain ⟨hi', e2, e3⟩ := inv_assign hi h
  have ha := C07_assign_correct hi h
  exact geoCorrect_of (C07b_built_sync hb) hi' (fun o ho _ => ha o (by rw [← e2, ← e3]; exact ho))

/-- **open(lanelet_assignment=True), geometrically** (XML: factories first, then `add_objects(list)`) -/
theorem C07b_open_xml_geometric {G : Geo} {n : Index.Net} {s s' : St} (hb : Built n) (hi : Base (envOf G n) s)
    (h : reopenXml (envOf G n) s = .ok s') : GeoCorrect G n s' := by
  obtain ⟨hi', e2, e3⟩ := inv_reopenXml (C07b_wf hb) hi h
  have ha := C07_open_correct_xml h
  exact geoCorrect_of (C07b_built_sync hb) hi' (fun o ho => ha o (by rw [← e2, ← e3]; exact ho))

/-- … protobuf: factory and `add_objects` per obstacle -/
theorem C07b_open_pb_geometric {G : Geo} {n : Index.Net} {s s' : St} (hb : Built n) (hi : Base (envOf G n) s)
    (h : reopenPb (envOf G n) s = .ok s') : GeoCorrect G n s' := by
  obtain ⟨hi', e2, e3⟩ := inv_reopenPb (C07b_wf hb) hi h
  have ha := C07_open_correct_pb h
  exact geoCorrect_of (C07b_built_sync hb) hi' (fun o ho => ha o (by rw [← e2, ← e3]; exact ho))

/-- the network the reader builds from the written lanelets (`create_from_lanelet_list`: same ids and vertex rings, fresh
    polygon objects) answers every lookup exactly like the network that was written — so "re-open" of the Assign model, which
    keeps the environment, is the file round trip -/
theorem C07b_reader_network (G : Geo) {n : Index.Net} (hb : Built n) (f : Nat → Nat) (hf : Function.Injective f) :
    Built (Index.fromList f n.lanelets) ∧ envOf G (Index.fromList f n.lanelets) = envOf G n := by
  have hs := C07b_built_sync hb
  have hb' : Built (Index.fromList f n.lanelets) := Built.fromList f hf n.lanelets hs.1.2.2
  refine ⟨hb', envOf_congr G (C07b_built_sync hb') hs ?_⟩
  rw [C06_fromList_lanelets f n.lanelets hs.1.2.1]
  simp only [Index.relabelL, List.map_map, Function.comp_def]
  exact List.map_congr_left (fun a _ => rfl)

/-- a deepcopy / pickle round trip of the network does not change any lookup either -/
theorem C07b_copied_network (G : Geo) {n : Index.Net} (hb : Built n) (f : Nat → Nat) (hf : Function.Injective f) :
    Built (Index.copyNet f n) ∧ envOf G (Index.copyNet f n) = envOf G n := by
  have hs := C07b_built_sync hb
  have hb' : Built (Index.copyNet f n) := Built.copy n f hf hs.1
  exact ⟨hb', envOf_congr G (C07b_built_sync hb') hs (C06_copy_lanelets n f)⟩

/-- **end to end, file read after ANY history** (centre-only assignments, partial assignments, anything): from the empty
    scenario, after any sequence of operations followed by `open(lanelet_assignment=True)` (XML or protobuf), the state is
    geometrically correct; nothing is assumed about the state but that it was reached -/
theorem C07b_history_open {G : Geo} {n : Index.Net} (hb : Built n) (ops : List Op)
    (last : Op) (hlast : last = .reopenXml ∨ last = .reopenPb) (s : St)
    (h : run (envOf G n) St.init (ops ++ [last]) = .ok s) : GeoCorrect G n s := by
  simp only [run, List.foldlM_append, List.foldlM_cons, List.foldlM_nil] at h
  obtain ⟨s1, h1, h2⟩ := bind_ok.mp h
  obtain ⟨s2, h3, h4⟩ := bind_ok.mp h2
  cases pure_ok.mp h4
  have hi := (C07_weak_inv_run (C07b_wf (G := G) hb) ops St.init s1 (weak_init _) h1).base
  rcases hlast with rfl | rfl
  · exact C07b_open_xml_geometric hb hi h3
  · exact C07b_open_pb_geometric hb hi h3

/-- **end to end, full assignment** (PARTIAL: the history before it holds no `use_center_only=True` call, whose centre
    registrations a later shape-based assignment does not take back — `C07_witness_center_only`): after any such sequence
    of add / remove / (partial or full) assign / re-open followed by `assign_obstacles_to_lanelets()`, the state is
    geometrically correct -/
theorem C07b_history_assign_partial {G : Geo} {n : Index.Net} (hb : Built n) (ops : List Op)
    (hops : ∀ op ∈ ops, op.ShapeBased) (s : St)
    (h : run (envOf G n) St.init (ops ++ [.assign none none false]) = .ok s) : GeoCorrect G n s := by
  simp only [run, List.foldlM_append, List.foldlM_cons, List.foldlM_nil] at h
  obtain ⟨s1, h1, h2⟩ := bind_ok.mp h
  obtain ⟨s2, h3, h4⟩ := bind_ok.mp h2
  cases pure_ok.mp h4
  exact C07b_assign_geometric hb (C07_inv_run_partial (C07b_wf (G := G) hb) ops St.init s1 (C07_inv_init _) hops h1) h3

/-- at every moment of EVERY history whatever is recorded on an obstacle is geometrically exact: a recorded initial / per-step
    centre set is the set of lanelets containing the centre at that step, a recorded shape set the set of lanelets the
    occupancy meets (set-based predictions: `set()`), for a step of the horizon -/
theorem C07b_recorded_geometric {G : Geo} {n : Index.Net} (hb : Built n) (ops : List Op) (s : St)
    (h : run (envOf G n) St.init ops = .ok s) (o : Id) (hk : G.kind o ≠ Kind.dynSet) :
    (∀ ids, (s.fwd o).initCenter = some ids → ∀ l, l ∈ ids ↔ Within G n o (G.t0 o) l) ∧
    (∀ ids, (s.fwd o).initShape = some ids → ∀ l, l ∈ ids ↔ Meets G n o (G.t0 o) l) ∧
    (∀ d t ids, (s.fwd o).predCenter = some d → (t, ids) ∈ d → ∀ l, l ∈ ids ↔ Within G n o t l) ∧
    (∀ d t ids, (s.fwd o).predShape = some d → (t, ids) ∈ d → ∀ l, l ∈ ids ↔ Meets G n o t l) := by
  have hs := C07b_built_sync hb
  obtain ⟨c1, c2, c3, c4⟩ := C07_recorded_true (C07b_wf (G := G) hb) ops s h o
  have hk' : (envOf G n).kind o ≠ Kind.dynSet := hk
  refine ⟨fun ids hi l => ?_, fun ids hi l => ?_, fun d t ids hd hm l => ?_, fun d t ids hd hm l => ?_⟩
  · rw [c1 ids hi, effCen_of_ne _ hk']; exact mem_cenOf hs o _ l
  · rw [c2 ids hi, effShp_of_ne _ hk']; exact mem_shpOf hs o _ l
  · rw [(c3 d t ids hd hm).1]; exact mem_cenOf hs o t l
  · rw [(c4 d t ids hd hm).1]; exact mem_shpOf hs o t l

/-- (PARTIAL: histories without `use_center_only=True`) every registry entry is a true intersection in the horizon -/
theorem C07b_registry_sound_partial {G : Geo} {n : Index.Net} (hb : Built n) (ops : List Op)
    (hops : ∀ op ∈ ops, op.ShapeBased) (s : St) (h : run (envOf G n) St.init ops = .ok s) :
    (∀ l t o, memD s.dreg l t o → o ∈ s.dynamics ∧ InHorizon (envOf G n) o t ∧ Meets G n o t l) ∧
    (∀ l o, o ∈ s.sreg l → o ∈ s.statics ∧ Meets G n o (G.t0 o) l) := by
  have hs := C07b_built_sync hb
  have hi := C07_inv_run_partial (C07b_wf (G := G) hb) ops St.init s (C07_inv_init _) hops h
  constructor
  · intro l t o hm
    obtain ⟨_, h2, h3⟩ := (hi.invD l t o).mp hm
    obtain ⟨h4, h5⟩ := RecShapeD.sound (hi.coh o) h3
    exact ⟨h2, h5, (mem_shpOf hs o t l).mp h4⟩
  · intro l o hm
    obtain ⟨_, h2, h3⟩ := (hi.invS l o).mp hm
    exact ⟨h2, (mem_shpOf hs o (G.t0 o) l).mp (RecShapeS.mem_lanelets (hi.coh o) h3)⟩

/-- on a built network nothing raises in a state reached by ANY history: every admissible assignment (full or partial,
    shape-based or centre-only), `remove_obstacle`, both file reads, and the lookups themselves (no `AttributeError` of a
    missing tree, no `KeyError` of the reverse map) -/
theorem C07b_total {G : Geo} {n : Index.Net} (hb : Built n) (ops : List Op)
    (s : St) (h : run (envOf G n) St.init ops = .ok s) :
    (∀ ids ts co, AssignAdm (envOf G n) s ids ts → ∃ s', assign (envOf G n) ids ts co s = .ok s') ∧
    (∀ o, ∃ s', remove (envOf G n) s o = .ok s') ∧
    ((∃ s', reopenXml (envOf G n) s = .ok s') ∧ (∃ s', reopenPb (envOf G n) s = .ok s')) ∧
    (∀ (p : Pt), ∃ r, Index.findByPosition G.within n [p] = .ok r) ∧
    (∀ (sh : Shape), ∃ r, Index.findByShape G.meets n sh = .ok r) := by
  have hs := C07b_built_sync hb
  refine ⟨fun ids ts co ha => C07_assign_total (C07b_wf hb) s ids ts co ha,
    fun o => C07_remove_total _ s o, C07_open_total (C07b_wf hb) ops s h, ?_, ?_⟩
  · intro p; exact ⟨_, CR.Index.find_eq_scan G.within n hs [p]⟩
  · intro sh
    cases sh with
    | prim q => exact ⟨_, CR.Index.findShape_eq_scan G.meets n hs q⟩
    | group ss => obtain ⟨r, hr, _⟩ := C06_findShape_group G.meets n hs ss; exact ⟨r, hr⟩

/-! ## The geometry instantiated — nothing free but the obstacles' data and cos / sin

  `exactGeo tol tr D` (CRProofs/AssignGeo.lean): `within := withinTol tol`, `meets := ringMeets` (C06's exact closed-set
  predicates, with the r/2 circle the code exports), centre := the state's position, occupancy := the obstacle's shape placed
  at the state by C04's placement model (`Place.place`).  The theorems above are generic in the geometry, so they hold for
  this one; the following say what their conclusions mean here. -/

/-- the centre clause, exact: lanelet `l` is recorded for the centre iff the state's position lies within `tol` of the
    polygon of the lanelet with id `l` … -/
theorem C07b_exact_within (tol : Rat) (tr : Trig) (D : ObsData) (n : Index.Net) (o : Id) (t : T) (l : Id) :
    Within (exactGeo tol tr D) n o t l ↔
      ∃ L ∈ n.lanelets, L.id = l ∧ withinTol tol L.poly.ring (gpt (D.pos o t)) = true := Iff.rfl

/-- … and then some point of that polygon is within `tol` of the position (C06_withinTol_sound) -/
theorem C07b_exact_within_sound (tol : Rat) (tr : Trig) (D : ObsData) (n : Index.Net) (o : Id) (t : T) (l : Id)
    (h : Within (exactGeo tol tr D) n o t l) :
    ∃ L ∈ n.lanelets, L.id = l ∧ ∃ q, inRing L.poly.ring q = true ∧ d2 q (gpt (D.pos o t)) ≤ tol * tol := by
  obtain ⟨L, h1, h2, h3⟩ := h
  exact ⟨L, h1, h2, C06_withinTol_sound tol L.poly.ring _ h3⟩

/-- the shape clause, exact: the polygon of the lanelet meets (a member of) the obstacle's shape placed at the state -/
theorem C07b_exact_meets (tol : Rat) (tr : Trig) (D : ObsData) (n : Index.Net) (o : Id) (t : T) (l : Id) :
    Meets (exactGeo tol tr D) n o t l ↔
      ∃ L ∈ n.lanelets, L.id = l ∧ Index.hits ringMeets L.poly.ring
        (toShape tr (Place.place (tr.cos (D.ori o t)) (tr.sin (D.ori o t)) (D.ori o t) tr.τ (D.pos o t) (D.shape o t))) = true :=
  Iff.rfl

/-- a rectangular obstacle: the lanelet polygon and the rectangle of the obstacle's length and width, centred at its own
    centre moved by the state's position and turned by the state's orientation, have a common point -/
theorem C07b_exact_rect_sound (tol : Rat) (tr : Trig) (D : ObsData) (n : Index.Net) (o : Id) (t : T) (l : Id)
    (lw ww : Rat) (c : Rigid.Pt) (θ : Rat) (hsh : D.shape o t = .rect lw ww c θ)
    (h : Meets (exactGeo tol tr D) n o t l) :
    ∃ L ∈ n.lanelets, L.id = l ∧ ∃ q, inRing L.poly.ring q = true ∧
      inRing (rectVerts lw ww (gpt (Place.Pt.add c (D.pos o t)))
        (tr.cos (Iv.makeValid tr.τ (θ + D.ori o t))) (tr.sin (Iv.makeValid tr.τ (θ + D.ori o t)))) q = true := by
  obtain ⟨L, h1, h2, h3⟩ := h
  refine ⟨L, h1, h2, ?_⟩
  have : (exactGeo tol tr D).occ o t = .prim (.rect lw ww (gpt (Place.Pt.add c (D.pos o t)))
      (tr.cos (Iv.makeValid tr.τ (θ + D.ori o t))) (tr.sin (Iv.makeValid tr.τ (θ + D.ori o t)))) := by
    show occOf tr D o t = _
    unfold occOf
    rw [hsh]
    rfl
  rw [this] at h3
  exact C06_ringsMeet_sound _ _ h3

/-- a circular obstacle — the KNOWN FINDING at theorem level: the recorded shape set is that of the disc of HALF the radius
    (`Circle.shapely_object`, shape.py:240-242), i.e. lanelet `l` is recorded iff its polygon meets the disc of radius r/2
    around the moved centre -/
theorem C07b_exact_circle (tol : Rat) (tr : Trig) (D : ObsData) (n : Index.Net) (o : Id) (t : T) (l : Id)
    (r : Rat) (c : Rigid.Pt) (hsh : D.shape o t = .circ r c) :
    Meets (exactGeo tol tr D) n o t l ↔
      ∃ L ∈ n.lanelets, L.id = l ∧ discMeetsRing (gpt (Place.Pt.add c (D.pos o t))) (r / 2) L.poly.ring = true := by
  have : (exactGeo tol tr D).occ o t = .prim (.circ r (gpt (Place.Pt.add c (D.pos o t)))) := by
    show occOf tr D o t = _
    unfold occOf
    rw [hsh]
    rfl
  unfold Meets
  rw [this]
  rfl

/-- end to end with the exact geometry: file read after ANY history … -/
theorem C07b_exact_history_open (tol : Rat) (tr : Trig) (D : ObsData) {n : Index.Net} (hb : Built n) (ops : List Op)
    (last : Op) (hlast : last = .reopenXml ∨ last = .reopenPb) (s : St)
    (h : run (envOf (exactGeo tol tr D) n) St.init (ops ++ [last]) = .ok s) : GeoCorrect (exactGeo tol tr D) n s :=
  C07b_history_open hb ops last hlast s h

/-- … and full assignment after a history without centre-only calls (PARTIAL as `C07b_history_assign_partial`) -/
theorem C07b_exact_history_assign_partial (tol : Rat) (tr : Trig) (D : ObsData) {n : Index.Net} (hb : Built n)
    (ops : List Op) (hops : ∀ op ∈ ops, op.ShapeBased) (s : St)
    (h : run (envOf (exactGeo tol tr D) n) St.init (ops ++ [.assign none none false]) = .ok s) :
    GeoCorrect (exactGeo tol tr D) n s :=
  C07b_history_assign_partial hb ops hops s h

/-! ### non-vacuity: a road of two lanes built by `create_from_lanelet_list`, the exact geometry, concrete obstacles -/

/-- orientation 0 only: cos 0 = 1, sin 0 = 0 -/
def tr0 : Trig := { cos := fun _ => 1, sin := fun _ => 0, τ := 6 }

/-- obstacle 30: a 4 x 2 rectangle at (5, 3.5); obstacle 31: a circle of radius 2 at (5, 2.5) — 1.5 below the lane boundary
    y = 4, so the disc of radius 2 reaches lane 2 and the exported disc of radius 1 does not; obstacle 32: a group far away -/
def D0 : ObsData :=
  { kind := fun o => if o = 30 then .static else .dynNone
    t0 := fun _ => 0
    len := fun _ => 0
    shape := fun o _ => if o = 30 then .rect 4 2 ⟨0, 0⟩ 0 else if o = 31 then .circ 2 ⟨0, 0⟩
                        else .group [.circ 1 ⟨0, 0⟩, .rect 2 1 ⟨0, 1⟩ 0]
    pos := fun o _ => if o = 30 then ⟨5, 7/2⟩ else if o = 31 then ⟨5, 5/2⟩ else ⟨5, 20⟩
    ori := fun _ _ => 0 }

def G0 : Geo := exactGeo 0 tr0 D0

def lanes0 : List Index.Lanelet :=
  [⟨1, 100, [⟨0, 4⟩, ⟨20, 4⟩], [⟨0, 0⟩, ⟨20, 0⟩]⟩, ⟨2, 101, [⟨0, 8⟩, ⟨20, 8⟩], [⟨0, 4⟩, ⟨20, 4⟩]⟩]

def n0 : Index.Net := Index.fromList (· + 1000) lanes0

example : Built n0 := Built.fromList _ (fun a b h => by simpa using h) lanes0 (by decide)

/-- the rectangle: centre in lane 1 only, shape on lanes 1 and 2; the circle of radius 2: lane 1 only (r/2 — the known
    finding; the disc of radius 2 meets lane 2); the far group meets nothing -/
example : (envOf G0 n0).cen 30 0 = [1] ∧ (envOf G0 n0).shp 30 0 = [1, 2] ∧ (envOf G0 n0).shp 31 0 = [1] ∧
    (envOf G0 n0).shp 32 0 = [] ∧ discMeetsRing ⟨5, 5/2⟩ 2 [⟨0, 4⟩, ⟨20, 4⟩, ⟨20, 8⟩, ⟨0, 8⟩] = true := by
  refine ⟨by decide +kernel, by decide +kernel, by decide +kernel, by decide +kernel, by decide +kernel⟩

end CR.Assign
