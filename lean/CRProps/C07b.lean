/-
  C07b — the geometric sentence of C07, end to end: C07's bookkeeping theorems (CRProps/C07.lean) composed with C06's index
  theorems (CRProps/C06.lean, `CR.Index.find_eq_scan`, `CR.Index.findShape_eq_scan`, `C06_findShape_group`).

  `Env.cen` / `Env.shp` of the Assign model are no longer free: they ARE `find_lanelet_by_position([centre])[0]` and
  `find_lanelet_by_shape(occupancy)` of the Index model on a network `n` built by any admissible construction route
  (`Built n`).  What remains as parameters are only the two primitive predicates of `Geo`
      `within ring p`   — the point lies in (within 1e-15 of) the lanelet polygon,
      `meets ring s`    — the lanelet polygon intersects the primitive shape,
  and the positions / occupancy shapes of the obstacles.  The STRtree, the `id(polygon)` reverse map, the rebuild
  discipline, the ShapeGroup union, the dict / set bookkeeping of obstacles and lanelets and both readers are inside the
  theorems.  For EVERY network, obstacle pool, horizon and history (no bound).
-/
import CRProofs.AssignGeo

namespace CR.Assign
open CR.Geom CR.Props.C06 CR.Index

/-- Admissible construction routes of a `LaneletNetwork` (C06 Part II): `create_from_lanelet_list` (also what the readers
    use); any sequence of `add_lanelet` / `remove_lanelet` / `add_lanelets_from_network` / deepcopy / pickle from the empty
    network in which every call rebuilds the index (the default `rtree=True`); any sequence, with `rtree=False` anywhere,
    that ends with a call that certainly rebuilds; a deepcopy / pickle round trip of any (even stale) network. -/
inductive Built : Index.Net → Prop
  | fromList (f : Nat → Nat) (hf : Function.Injective f) (ls : List Index.Lanelet)
      (hn : (ls.map (·.poly.addr)).Nodup) : Built (Index.fromList f ls)
  | ops (ops : List Index.Op) (n : Index.Net) (ha : AdmSeq Index.Net.empty ops)
      (hr : ∀ o ∈ ops, rebuilds o = true) (h : Index.run Index.Net.empty ops = .ok n) : Built n
  | refreshed (ops : List Index.Op) (last : Index.Op) (n : Index.Net) (ha : AdmSeq Index.Net.empty (ops ++ [last]))
      (hl : ∀ n1, Index.run Index.Net.empty ops = .ok n1 → refreshes n1 last)
      (h : Index.run Index.Net.empty (ops ++ [last]) = .ok n) : Built n
  | copy (n : Index.Net) (f : Nat → Nat) (hf : Function.Injective f) (hb : Index.Buffered n) : Built (Index.copyNet f n)

/-- every admissible route ends with a synchronised index -/
theorem C07b_built_sync {n : Index.Net} (hb : Built n) : Index.Sync n := by
  cases hb with
  | fromList f hf ls hn => exact C06_sync_fromList f hf ls hn
  | ops ops n ha hr h =>
    obtain ⟨n', h', hs⟩ := C06_sync_default ops Index.Net.empty C06_sync_empty ha hr
    rw [h] at h'; cases h'; exact hs
  | refreshed ops last n ha hl h =>
    obtain ⟨n', h', hs⟩ := C06_sync_after_refresh ops last Index.Net.empty C06_sync_empty.1 ha hl
    rw [h] at h'; cases h'; exact hs
  | copy n f hf hb => exact C06_sync_copy n f hf hb

/-- **the lookups are the geometry**: on a built network the centre lookup answers exactly (each once) the lanelets whose
    polygon the centre is `within`, the shape lookup exactly (each once) the lanelets whose polygon `meets` the occupancy —
    some member of it for a ShapeGroup; never an exception -/
theorem C07b_lookups {G : Geo} {n : Index.Net} (hb : Built n) (o : Id) (t : T) :
    ((envOf G n).cen o t).Nodup ∧ ((envOf G n).shp o t).Nodup ∧
    (∀ l, l ∈ (envOf G n).cen o t ↔ Within G n o t l) ∧ (∀ l, l ∈ (envOf G n).shp o t ↔ Meets G n o t l) :=
  have hs := C07b_built_sync hb
  ⟨nodup_cenOf hs o t, (shpOf_spec hs o t).1, mem_cenOf hs o t, mem_shpOf hs o t⟩

theorem C07b_wf {G : Geo} {n : Index.Net} (hb : Built n) : WfEnv (envOf G n) := wf_envOf G (C07b_built_sync hb)

/-- what the property sentence says of a state: every obstacle of the scenario (static, trajectory-predicted, unpredicted; a
    set-based prediction is outside the property and is provably in no registry) carries at every step of its horizon the set
    of lanelets containing its centre and the set of lanelets its occupancy meets, and every lanelet's registries are exactly
    the inverse (static: the one occupancy; dynamic: per time step of the horizon) -/
def GeoCorrect (G : Geo) (n : Index.Net) (s : St) : Prop :=
  (∀ o, o ∈ s.statics ++ s.dynamics → G.kind o ≠ Kind.dynSet → ∀ t, InHorizon (envOf G n) o t →
      GeoAssigned G n (s.fwd o) o t) ∧
  (∀ l t o, memD s.dreg l t o ↔ (o ∈ s.dynamics ∧ G.kind o ≠ Kind.dynSet ∧ InHorizon (envOf G n) o t ∧ Meets G n o t l)) ∧
  (∀ l o, o ∈ s.sreg l ↔ (o ∈ s.statics ∧ Meets G n o (G.t0 o) l))

theorem geoCorrect_of {G : Geo} {n : Index.Net} {s : St} (hs : Index.Sync n) (hi : Inv (envOf G n) s)
    (ha : ∀ o, o ∈ s.statics ++ s.dynamics → G.kind o ≠ Kind.dynSet → ∀ t, InHorizon (envOf G n) o t →
      Assigned (envOf G n) (s.fwd o) o t) :
    GeoCorrect G n s := by
  obtain ⟨r1, r2⟩ := registry_exact_of_assigned hi ha
  refine ⟨fun o ho hset t ht => geoAssigned_of_assigned hs (ha o ho hset t ht), fun l t o => ?_, fun l o => ?_⟩
  · rw [r1]
    constructor
    · rintro ⟨h1, hset, h2, h3⟩; exact ⟨h1, hset, h2, (mem_shpOf hs o t l).mp h3⟩
    · rintro ⟨h1, hset, h2, h3⟩; exact ⟨h1, hset, h2, (mem_shpOf hs o t l).mpr h3⟩
  · rw [r2]
    constructor
    · rintro ⟨h1, h3⟩; exact ⟨h1, (mem_shpOf hs o (G.t0 o) l).mp h3⟩
    · rintro ⟨h1, h3⟩; exact ⟨h1, (mem_shpOf hs o (G.t0 o) l).mpr h3⟩

/-- **assign_obstacles_to_lanelets, geometrically**: in any state satisfying the invariant, on any built network -/
theorem C07b_assign_geometric {G : Geo} {n : Index.Net} {s s' : St} (hb : Built n) (hi : Inv (envOf G n) s)
    (h : assign (envOf G n) none none false s = .ok s') : GeoCorrect G n s' := by
  obtain ⟨hi', e2, e3⟩ := inv_assign hi h
  have ha := C07_assign_correct hi h
  exact geoCorrect_of (C07b_built_sync hb) hi' (fun o ho _ => ha o (by rw [← e2, ← e3]; exact ho))

/-- **open(lanelet_assignment=True), geometrically** (XML: factories first, then `add_objects(list)`) -/
theorem C07b_open_xml_geometric {G : Geo} {n : Index.Net} {s s' : St} (hb : Built n) (hi : Inv (envOf G n) s)
    (h : reopenXml (envOf G n) s = .ok s') : GeoCorrect G n s' := by
  obtain ⟨hi', e2, e3⟩ := inv_reopenXml (C07b_wf hb) hi h
  have ha := C07_open_correct_xml h
  exact geoCorrect_of (C07b_built_sync hb) hi' (fun o ho => ha o (by rw [← e2, ← e3]; exact ho))

/-- … protobuf: factory and `add_objects` per obstacle -/
theorem C07b_open_pb_geometric {G : Geo} {n : Index.Net} {s s' : St} (hb : Built n) (hi : Inv (envOf G n) s)
    (h : reopenPb (envOf G n) s = .ok s') : GeoCorrect G n s' := by
  obtain ⟨hi', e2, e3⟩ := inv_reopenPb (C07b_wf hb) hi h
  have ha := C07_open_correct_pb h
  exact geoCorrect_of (C07b_built_sync hb) hi' (fun o ho => ha o (by rw [← e2, ← e3]; exact ho))

/-- the network the reader builds from the written lanelets (`create_from_lanelet_list`: same ids and vertex rings, fresh
    polygon objects) answers every lookup exactly like the network that was written — so "re-open" of the Assign model, which
    keeps the environment, is the file round trip -/
theorem C07b_reader_network (G : Geo) {n : Index.Net} (hb : Built n) (f : Nat → Nat) (hf : Function.Injective f) :
    Built (Index.fromList f n.lanelets) ∧ envOf G (Index.fromList f n.lanelets) = envOf G n := by
  have hs := C07b_built_sync hb
  have hb' : Built (Index.fromList f n.lanelets) := Built.fromList f hf n.lanelets hs.1.2.2
  refine ⟨hb', envOf_congr G (C07b_built_sync hb') hs ?_⟩
  rw [C06_fromList_lanelets f n.lanelets hs.1.2.1]
  simp only [Index.relabelL, List.map_map, Function.comp_def]
  exact List.map_congr_left (fun a _ => rfl)

/-- a deepcopy / pickle round trip of the network does not change any lookup either -/
theorem C07b_copied_network (G : Geo) {n : Index.Net} (hb : Built n) (f : Nat → Nat) (hf : Function.Injective f) :
    Built (Index.copyNet f n) ∧ envOf G (Index.copyNet f n) = envOf G n := by
  have hs := C07b_built_sync hb
  have hb' : Built (Index.copyNet f n) := Built.copy n f hf hs.1
  exact ⟨hb', envOf_congr G (C07b_built_sync hb') hs (C06_copy_lanelets n f)⟩

/-- **end to end, histories**: from the empty scenario, after ANY sequence of add / remove / (partial or full) assign /
    re-open followed by a full assignment or a file read, the state is geometrically correct; nothing is assumed about the
    state but that it was reached -/
theorem C07b_history_assign {G : Geo} {n : Index.Net} (hb : Built n) (ops : List Op) (hops : ∀ op ∈ ops, op.ShapeBased)
    (last : Op) (hlast : last = .assign none none false ∨ last = .reopenXml ∨ last = .reopenPb) (s : St)
    (h : run (envOf G n) St.init (ops ++ [last]) = .ok s) : GeoCorrect G n s := by
  simp only [run, List.foldlM_append, List.foldlM_cons, List.foldlM_nil] at h
  obtain ⟨s1, h1, h2⟩ := bind_ok.mp h
  obtain ⟨s2, h3, h4⟩ := bind_ok.mp h2
  cases pure_ok.mp h4
  have hi := C07_inv_run (C07b_wf (G := G) hb) ops St.init s1 (C07_inv_init _) hops h1
  rcases hlast with rfl | rfl | rfl
  · exact C07b_assign_geometric hb hi h3
  · exact C07b_open_xml_geometric hb hi h3
  · exact C07b_open_pb_geometric hb hi h3

/-- at every moment of every history each recorded shape pair is geometrically true (recorded ⊆ geometry), and the
    registries are the inverse of what is recorded: so every registry entry is a true intersection in the horizon -/
theorem C07b_registry_sound {G : Geo} {n : Index.Net} (hb : Built n) (ops : List Op) (hops : ∀ op ∈ ops, op.ShapeBased)
    (s : St) (h : run (envOf G n) St.init ops = .ok s) :
    (∀ l t o, memD s.dreg l t o → o ∈ s.dynamics ∧ InHorizon (envOf G n) o t ∧ Meets G n o t l) ∧
    (∀ l o, o ∈ s.sreg l → o ∈ s.statics ∧ Meets G n o (G.t0 o) l) := by
  have hs := C07b_built_sync hb
  have hi := C07_inv_run (C07b_wf (G := G) hb) ops St.init s (C07_inv_init _) hops h
  constructor
  · intro l t o hm
    obtain ⟨_, h2, h3⟩ := (hi.invD l t o).mp hm
    obtain ⟨h4, h5⟩ := RecShapeD.sound (hi.coh o) h3
    exact ⟨h2, h5, (mem_shpOf hs o t l).mp h4⟩
  · intro l o hm
    obtain ⟨_, h2, h3⟩ := (hi.invS l o).mp hm
    exact ⟨h2, (mem_shpOf hs o (G.t0 o) l).mp (RecShapeS.mem_lanelets (hi.coh o) h3)⟩

/-- on a built network the full assignment (no set-based prediction in the scenario) and `remove_obstacle` never raise, in any
    reachable state: the lookups cannot fail
    (no `AttributeError` of a missing tree, no `KeyError` of the reverse map) and the bookkeeping cannot either -/
theorem C07b_total {G : Geo} {n : Index.Net} (hb : Built n) (ops : List Op) (hops : ∀ op ∈ ops, op.ShapeBased)
    (s : St) (h : run (envOf G n) St.init ops = .ok s) :
    ((∀ o, o ∈ s.dynamics → G.kind o ≠ Kind.dynSet) → ∃ s', assign (envOf G n) none none false s = .ok s') ∧
    (∀ o, ∃ s', remove (envOf G n) s o = .ok s') ∧
    (∀ (p : Pt), ∃ r, Index.findByPosition G.within n [p] = .ok r) ∧
    (∀ (sh : Shape), ∃ r, Index.findByShape G.meets n sh = .ok r) := by
  have hs := C07b_built_sync hb
  refine ⟨C07_assign_total (C07b_wf hb) s, fun o => C07_remove_total (C07b_wf hb) ops hops s h o, ?_, ?_⟩
  · intro p; exact ⟨_, CR.Index.find_eq_scan G.within n hs [p]⟩
  · intro sh
    cases sh with
    | prim q => exact ⟨_, CR.Index.findShape_eq_scan G.meets n hs q⟩
    | group ss => obtain ⟨r, hr, _⟩ := C06_findShape_group G.meets n hs ss; exact ⟨r, hr⟩

/-! ### non-vacuity: a road of two lanes built by `create_from_lanelet_list`, exact predicates, a history -/

/-- exact reference predicates of CRModel/Geom: crossing-number point-in-ring, closed-set ring/shape intersection -/
def G0 : Geo :=
  { within := fun ring p => inRing ring p
    meets := fun ring s => ringMeets ring s
    kind := fun o => if o = 30 then .static else .dynNone
    t0 := fun _ => 0
    len := fun _ => 0
    pos := fun o _ => if o = 30 then ⟨5, 7/2⟩ else ⟨5, 20⟩
    occ := fun o _ => if o = 30 then .prim (.rect 4 2 ⟨5, 7/2⟩ 1 0) else .group [.circ 1 ⟨5, 20⟩, .rect 2 1 ⟨5, 21⟩ 1 0] }

def lanes0 : List Index.Lanelet :=
  [⟨1, 100, [⟨0, 4⟩, ⟨20, 4⟩], [⟨0, 0⟩, ⟨20, 0⟩]⟩, ⟨2, 101, [⟨0, 8⟩, ⟨20, 8⟩], [⟨0, 4⟩, ⟨20, 4⟩]⟩]

def n0 : Index.Net := Index.fromList (· + 1000) lanes0

example : Built n0 := Built.fromList _ (fun a b h => by simpa using h) lanes0 (by decide)

/-- the rectangle 4 x 2 at (5, 3.5): centre in lane 1 only, shape on lanes 1 and 2; the far obstacle meets nothing -/
example : (envOf G0 n0).cen 30 0 = [1] ∧ (envOf G0 n0).shp 30 0 = [1, 2] ∧ (envOf G0 n0).shp 31 0 = [] := by
  refine ⟨by decide +kernel, by decide +kernel, by decide +kernel⟩

end CR.Assign
