/-
  C07c — "removing an obstacle that is in the scenario never fails", and what the registries are, for histories in which the
  LANELET NETWORK changes too (CRModel/AssignNet.lean): `Scenario.remove_lanelet`, `Scenario.add_objects(Lanelet)`, obstacles
  constructed with lanelet ids of their own (`preset`), on top of every operation of C07 (add / remove / any assignment / file
  read).  The present lanelets are part of the state; nothing assumes that a recorded lanelet id is a present lanelet.

  Found outside the frozen-network model of C07.lean and repaired in the library as d431666
  (key C07/remove_obstacle/raises-after-lanelet-removal): before, `remove_obstacle` of a dynamic obstacle raised AttributeError
  when a lanelet of its recorded shape assignment had left the network, and KeyError when the lanelet had never registered the
  obstacle at that time step.  `legacy := true` runs that code; `C07_legacy_remove_raises_witness` shows both failures.
-/
import CRProofs.AssignNet

namespace CR.Assign

/-- **remove_total, every state whatsoever**: the repaired `remove_obstacle` returns normally in ANY state — any present
    lanelets, any recorded sets (naming missing lanelets or not), any registries: every loop of
    `_remove_{static,dynamic}_obstacle_from_lanelets` is guarded.  In particular after every history of network and obstacle
    operations, with any preset ids. -/
theorem C07c_remove_total (E : Env) (n : NSt) (o : Id) : ∃ n', nstep E false n (.op (.remove o)) = .ok n' := by
  obtain ⟨s', hs⟩ := remove_total (E.on n.present) n.st o
  exact ⟨{ n with st := s' }, by simp only [nstep, Bool.false_eq_true, if_false, hs]; rfl⟩

/-- the network operations fail exactly on their documented conditions: `remove_lanelet` of a lanelet that is not in the
    network (KeyError), `add_objects(Lanelet)` with an id in use (ValueError) -/
theorem C07c_network_ops_total (E : Env) (n : NSt) (l : Id) :
    (l ∈ n.present → ∃ n', nstep E false n (.removeLanelet l) = .ok n') ∧
    (l ∉ n.present ∧ l ∉ n.st.statics ∧ l ∉ n.st.dynamics → ∃ n', nstep E false n (.addLanelet l) = .ok n') := by
  constructor
  · intro h; exact ⟨_, by simp only [nstep, h, if_true]; rfl⟩
  · rintro ⟨h1, h2, h3⟩
    exact ⟨_, by simp only [nstep, h1, h2, h3, or_self, if_false]; rfl⟩

/-- one lane-crossing dynamic obstacle 31 (trajectory of one state): it is assigned on lanelets 1 and 2 -/
def Ew : Env :=
  { lanelets := [1, 2], kind := fun _ => .dynTraj, t0 := fun _ => 0, len := fun _ => 1,
    cen := fun _ _ => [1], shp := fun _ _ => [1, 2] }

/-- LEGACY witness (the code before d431666), two histories:
    (a) add, assign, `remove_lanelet(2)`, `remove_obstacle` → AttributeError (`find_lanelet_by_id(2)` is `None`);
    (b) the obstacle is constructed with `initial_shape_lanelet_ids = {1}`, added while the network is empty, lanelet 1 is added
        afterwards, `remove_obstacle` → KeyError (lanelet 1 never registered anything at time step 0);
    the repaired code returns normally on both.  Replayed on the real code by corpus/C07/lanelet_removed_then_remove_obstacle.json
    and corpus/C07/preset_ids_late_lanelets.json. -/
theorem C07_legacy_remove_raises_witness :
    nrun Ew true (NSt.init [1, 2] (fun _ => {}))
      [.op (.add 31), .op (.assign none none false), .removeLanelet 2, .op (.remove 31)] = .error .attr ∧
    (nrun Ew false (NSt.init [1, 2] (fun _ => {}))
      [.op (.add 31), .op (.assign none none false), .removeLanelet 2, .op (.remove 31)]).toOption.isSome = true ∧
    nrun Ew true (NSt.init [] (fun _ => { initShape := some [1], initCenter := some [1] }))
      [.op (.add 31), .addLanelet 1, .op (.remove 31)] = .error .key ∧
    (nrun Ew false (NSt.init [] (fun _ => { initShape := some [1], initCenter := some [1] }))
      [.op (.add 31), .addLanelet 1, .op (.remove 31)]).toOption.isSome = true := by
  refine ⟨by rfl, by rfl, by rfl, by rfl⟩

/-- presets are true lookup answers (possibly naming lanelets that are not present yet) -/
def PresetSound (E : Env) (preset : Id → Fwd) : Prop := ∀ o, Sound E (preset o) o

/-- **the invariant of all network-changing histories** (`NetInv`), from a scenario with any lanelets `P0` and obstacle objects
    with sound preset ids: after ANY sequence of add / remove / assign (any mode) / file read / remove_lanelet / add_lanelet /
    registry setters of a lanelet / read-only queries / attribute setters on obstacles OUTSIDE the scenario with lookup answers
    (`SaneRun`; an in-place edit of the attributes of an obstacle that is in the scenario is the caller telling the obstacle
    something the lanelets are not told — only `C07c_remove_total` speaks about such histories) … -/
theorem C07c_inv_run {E : Env} (P0 : List Id) (preset : Id → Fwd) (hp : PresetSound E preset) (ops : List NOp) (n : NSt)
    (hs : SaneRun E (NSt.init P0 preset) ops) (h : nrun E false (NSt.init P0 preset) ops = .ok n) : NetInv E n :=
  netInv_run ops _ n (netInv_init P0 preset hp) hs h

/-- … **the registry bounds, restricted to the present lanelets**: a lanelet that is not in the network lists nothing; whatever a
    present lanelet lists is an obstacle OF THE SCENARIO whose recorded shape or centre set (at that time step) holds the
    lanelet; and every recorded pair is a true pair of the lookup on the universe of lanelets, inside the horizon.
    (The other inclusion cannot hold here: a lanelet that arrives after the assignment is recorded by nobody's registry.) -/
theorem C07c_registry_bounds {E : Env} (P0 : List Id) (preset : Id → Fwd) (hp : PresetSound E preset) (ops : List NOp)
    (n : NSt) (hs : SaneRun E (NSt.init P0 preset) ops) (h : nrun E false (NSt.init P0 preset) ops = .ok n) :
    (∀ l, l ∉ n.present → (∀ x, x ∉ n.st.sreg l) ∧ ∀ t x, ¬ memD n.st.dreg l t x) ∧
    (∀ l o, o ∈ n.st.sreg l → o ∈ n.st.statics ∧ (RecShapeS (n.st.fwd o) l ∨ RecCenS (n.st.fwd o) l)) ∧
    (∀ l t o, memD n.st.dreg l t o → o ∈ n.st.dynamics ∧
      (RecShapeD E (n.st.fwd o) o t l ∨ RecCenD E (n.st.fwd o) o t l)) ∧
    (∀ o t l, (RecShapeD E (n.st.fwd o) o t l → l ∈ E.shp o t ∧ InHorizon E o t) ∧
              (RecCenD E (n.st.fwd o) o t l → l ∈ E.cen o t ∧ InHorizon E o t)) := by
  have hi := C07c_inv_run P0 preset hp ops n hs h
  refine ⟨fun l hl => ⟨fun x hx => hl (hi.absentS l x hx), fun t x hx => hl (hi.absentD l t x hx)⟩,
    hi.sub.subS, hi.sub.subD, fun o t l => ⟨fun hr => ?_, fun hr => ?_⟩⟩
  · obtain ⟨a, _, c⟩ := (hi.sound o).ofShapeD hr; exact ⟨a, c⟩
  · obtain ⟨a, _, c⟩ := (hi.sound o).ofCenD hr; exact ⟨a, c⟩

/-- **remove_clears with a changing network**: after any such history `remove_obstacle(o)` succeeds and leaves `o` in neither
    obstacle dict and on NO lanelet (present or not), statically or at any time step -/
theorem C07c_remove_clears {E : Env} (P0 : List Id) (preset : Id → Fwd) (hp : PresetSound E preset) (ops : List NOp)
    (n : NSt) (hs : SaneRun E (NSt.init P0 preset) ops) (h : nrun E false (NSt.init P0 preset) ops = .ok n) (o : Id) :
    ∃ n', nstep E false n (.op (.remove o)) = .ok n' ∧ n'.present = n.present ∧
      o ∉ n'.st.statics ∧ o ∉ n'.st.dynamics ∧ (∀ l, o ∉ n'.st.sreg l) ∧ (∀ l t, ¬ memD n'.st.dreg l t o) := by
  have hi := C07c_inv_run P0 preset hp ops n hs h
  obtain ⟨n', hn'⟩ := C07c_remove_total E n o
  have hi' : NetInv E n' := netInv_step (op := .op (.remove o)) hi trivial hn'
  -- the obstacle dicts after the call
  have hlists : n'.present = n.present ∧ o ∉ n'.st.statics ∧ o ∉ n'.st.dynamics := by
    simp only [nstep, Bool.false_eq_true, if_false] at hn'
    cases hx : remove (E.on n.present) n.st o with
    | error e => rw [hx] at hn'; cases hn'
    | ok s1 =>
      rw [hx] at hn'; cases hn'
      refine ⟨rfl, ?_⟩
      unfold remove at hx
      split at hx
      · next hos =>
        cases hx
        exact ⟨by simp [List.mem_filter], fun hd => hi.kindD o hd (hi.kindS o hos)⟩
      · next hos =>
        split at hx
        · split at hx <;> (cases hx; exact ⟨hos, by simp [List.mem_filter]⟩)
        · next hod => cases hx; exact ⟨hos, hod⟩
  exact ⟨n', hn', hlists.1, hlists.2.1, hlists.2.2, fun l hl => hlists.2.1 (hi'.sub.subS l o hl).1,
    fun l t hm => hlists.2.2 (hi'.sub.subD l t o hm).1⟩

/-- **re-assignment after a network change re-establishes the exact inverse**: after any such history (centre-only calls and
    preset ids included) a full `assign_obstacles_to_lanelets()` leaves, for every lanelet, exactly the obstacles of the scenario
    that the lookup on the CURRENT network names: a dynamic obstacle is listed on `l` at `t` iff `l` is present, `t` is in its
    horizon and the shape lookup answers `l`; a static one iff `l` is present and the shape lookup answers `l`.
    Hypothesis `hcs`: the centre of an obstacle lies in its occupancy (a centre lanelet is a shape lanelet) — needed only to
    absorb registrations left by `use_center_only=True`. -/
theorem C07c_reassign_exact {E : Env} (hcs : ∀ o t l, l ∈ E.cen o t → l ∈ E.shp o t)
    (P0 : List Id) (preset : Id → Fwd) (hp : PresetSound E preset) (ops : List NOp) (n n' : NSt)
    (hs : SaneRun E (NSt.init P0 preset) ops) (h : nrun E false (NSt.init P0 preset) ops = .ok n)
    (ha : nstep E false n (.op (.assign none none false)) = .ok n') :
    n'.present = n.present ∧
    (∀ l t o, memD n'.st.dreg l t o ↔
      (l ∈ n.present ∧ o ∈ n'.st.dynamics ∧ E.kind o ≠ Kind.dynSet ∧ InHorizon E o t ∧ l ∈ E.shp o t)) ∧
    (∀ l o, o ∈ n'.st.sreg l ↔ (l ∈ n.present ∧ o ∈ n'.st.statics ∧ l ∈ E.shp o (E.t0 o))) := by
  have hi := C07c_inv_run P0 preset hp ops n hs h
  simp only [nstep] at ha
  cases hx : step (E.on n.present) n.st (.assign none none false) with
  | error e => rw [hx] at ha; cases ha
  | ok s1 =>
    rw [hx] at ha; cases ha
    obtain ⟨r1, r2⟩ := reassign_exact hi hcs hx
    exact ⟨rfl, r1, r2⟩

/-! ### non-vacuity -/

example : PresetSound Ew (fun _ => { initShape := some [1], initCenter := some [1] }) := by
  intro o
  refine ⟨?_, snd_none_c, ?_, snd_none_s⟩
  · intro ids h l hl; cases h; simp only [List.mem_singleton] at hl; subst hl
    exact mem_effCen.mpr ⟨by simp [Ew], by simp [Ew]⟩
  · intro ids h l hl; cases h; simp only [List.mem_singleton] at hl; subst hl
    exact mem_effShp.mpr ⟨by simp [Ew], by simp [Ew]⟩

/-- a history with a removed and re-added lanelet: after the re-assignment lanelet 2 (a fresh object) lists the obstacle again -/
example : ((nrun Ew false (NSt.init [1, 2] (fun _ => {}))
    [.op (.add 31), .op (.assign none none false), .removeLanelet 2, .addLanelet 2, .op (.assign none none false)]).toOption.map
      fun n => (n.present, n.st.dreg 2 0, n.st.dreg 2 1, n.st.dreg 1 1)) =
    some (([1, 2] : List Int), (some [31] : Option (List Int)), (some [31] : Option (List Int)), (some [31] : Option (List Int))) := by
  rfl

end CR.Assign
