/-
  T07 — translator tie for C07: every definition that harness/translate/src_c07.py regenerates from the CURRENT source of
  commonroad/scenario/scenario.py and commonroad/scenario/lanelet.py (module Gen.SrcC07, rebuilt on every run) EQUALS the
  hand-written model CRModel/Assign.lean that the C07 / C07b / C07c theorems are about, for all arguments:

    Lanelet.add_static_obstacle_to_lanelet / add_dynamic_obstacle_to_lanelet     = sAdd / dAdd on the lanelet's registry
    Scenario._add_static_obstacle_to_lanelets                                    = addStaticReg
    Scenario._remove_static_obstacle_from_lanelets                               = removeStaticReg
    Scenario._add_dynamic_obstacle_to_lanelets                                   = addToLanelets (non-static kinds)
    Scenario._remove_dynamic_obstacle_from_lanelets                              = unregCenter ∘ unregShape (dynamic branch of remove)
    Scenario.remove_obstacle (one obstacle object)                               = remove
    Scenario.add_objects (StaticObstacle / DynamicObstacle argument)             = add
    Scenario.assign_obstacles_to_lanelets and its two nested functions           = assign, assignDynAt, assignStatic

  The generated definitions thread ONE state `s : St` through the Python statements (see the translator's docstring); the
  Python operations on the object graph denote the primitives of CRModel/PyExtC07.lean (trusted call table).  The loop lemmas
  take the loop body as a variable with a semantic hypothesis that a tactic (`reg_tac`, `discard_tac`) proves by normalising
  the generated body, so renamed locals, reordered independent statements, `if/else` ↔ conditional expressions etc. do not
  break the proofs; a change of what a function does to a registry / attribute on ANY branch does.
-/
import Gen.SrcC07
import CRProofs.Assign
set_option linter.unusedSimpArgs false
set_option linter.unusedVariables false
namespace CR.Assign
open CR.PyC07

/-! ### registry primitives -/

theorem tie_lanelet_add_static (s : St) (l o : Id) :
    Gen.Lanelet_add_static_obstacle_to_lanelet s l o = .ok { s with sreg := sAdd s.sreg l o } := by
  simp [Gen.Lanelet_add_static_obstacle_to_lanelet, ssetAdd, pure, Except.pure]

theorem tie_lanelet_add_dynamic (s : St) (l o : Id) (t : T) :
    Gen.Lanelet_add_dynamic_obstacle_to_lanelet s l o t = .ok { s with dreg := dAdd s.dreg l t o } := by
  unfold Gen.Lanelet_add_dynamic_obstacle_to_lanelet
  cases h : s.dreg l t with
  | none =>
    simp [ddictGet, ddictHas, ddictSet, ddictAddAt, h, bind, Except.bind, pure, Except.pure]
    funext l' t'
    by_cases hc : l' = l ∧ t' = t
    · obtain ⟨rfl, rfl⟩ := hc; simp [dAdd, h]
    · simp [dAdd, hc]
  | some v =>
    simp [ddictGet, ddictHas, ddictSet, ddictAddAt, h, bind, Except.bind, pure, Except.pure]
    funext l' t'
    by_cases hc : l' = l ∧ t' = t
    · obtain ⟨rfl, rfl⟩ := hc; simp [dAdd, h]
    · simp [dAdd, hc]

/-! ### static obstacles -/

theorem map_ok {α β : Type} (f : α → β) (a : α) : (Except.ok a : Res α).map f = .ok (f a) := rfl
theorem map_err {α β : Type} (f : α → β) (e : Err) : (Except.error e : Res α).map f = .error e := rfl

theorem foldlM_regStatic (E : Env) (o : Id) (f : St → Id → Res St)
    (hf : ∀ s l, f s l = if l ∈ E.lanelets then .ok { s with sreg := sAdd s.sreg l o } else .error .attr) :
    ∀ (ids : List Id) (s : St), ids.foldlM f s = (regStatic E o ids s.sreg).map (fun r => { s with sreg := r }) := by
  intro ids
  induction ids with
  | nil => intro s; simp [regStatic, map_ok, pure, Except.pure]
  | cons a as ih =>
    intro s
    simp only [List.foldlM_cons, hf, regStatic]
    by_cases h : a ∈ E.lanelets
    · simp only [h, if_true, bind, Except.bind]; rw [ih]
    · simp [h, bind, Except.bind, map_err]

theorem tie_add_static_obstacle_to_lanelets (E : Env) (s : St) (o : Id) (f : Fwd) :
    Gen.Scenario_add_static_obstacle_to_lanelets E s o f.initShape =
      (addStaticReg E o f s.sreg).map (fun r => { s with sreg := r }) := by
  unfold Gen.Scenario_add_static_obstacle_to_lanelets addStaticReg
  cases hf : f.initShape with
  | none => simp [map_ok, pure, Except.pure]
  | some ids =>
    by_cases hl : E.lanelets = []
    · simp [hl, map_ok, pure, Except.pure]
    · simp only [Option.isNone_some, Bool.false_or, Int.natCast_eq_zero, List.length_eq_zero_iff, hl, decide_false,
        Bool.false_eq_true, if_false, iter, bind, Except.bind]
      rw [foldlM_regStatic E o _ (by
        intro s l
        by_cases h : l ∈ E.lanelets <;> simp [findLanelet, deref, ssetAdd, h, bind, Except.bind, pure, Except.pure])]

theorem foldlM_discardStatic (E : Env) (o : Id) (f : St → Id → Res St)
    (hf : ∀ s l, f s l = .ok { s with sreg := if l ∈ E.lanelets then sDel s.sreg l o else s.sreg }) :
    ∀ (ids : List Id) (s : St), ids.foldlM f s = .ok { s with sreg := discardStatic E o ids s.sreg } := by
  intro ids
  induction ids with
  | nil => intro s; simp [discardStatic, pure, Except.pure]
  | cons a as ih =>
    intro s
    simp only [List.foldlM_cons, hf, discardStatic, bind, Except.bind]
    rw [ih]

/-- `_remove_static_obstacle_from_lanelets` on an obstacle of the scenario is the model's `removeStaticReg` -/
theorem tie_remove_static_obstacle_from_lanelets (E : Env) (s : St) (o : Id) (h : o ∈ s.statics ∨ o ∈ s.dynamics) :
    Gen.Scenario_remove_static_obstacle_from_lanelets E s o (s.fwd o).initShape =
      .ok { s with sreg := removeStaticReg E o (s.fwd o) s.sreg } := by
  unfold Gen.Scenario_remove_static_obstacle_from_lanelets removeStaticReg
  simp only [obstacleById, h, if_true, deref, bind, Except.bind]
  rw [foldlM_discardStatic E o _ (by
    intro s l
    by_cases h : l ∈ E.lanelets <;> simp [findLanelet, deref, ssetDiscard, h, bind, Except.bind, pure, Except.pure])]

/-! ### dynamic obstacles: registration -/

theorem foldlM_regDyn (E : Env) (o : Id) (t : T) (f : St → Id → Res St)
    (hf : ∀ s l, f s l = if l ∈ E.lanelets then .ok { s with dreg := dAdd s.dreg l t o } else .error .attr) :
    ∀ (ids : List Id) (s : St), ids.foldlM f s = (regDyn E o t ids s.dreg).map (fun r => { s with dreg := r }) := by
  intro ids
  induction ids with
  | nil => intro s; simp [regDyn, map_ok, pure, Except.pure]
  | cons a as ih =>
    intro s
    simp only [List.foldlM_cons, hf, regDyn]
    by_cases h : a ∈ E.lanelets
    · simp only [h, if_true, bind, Except.bind]; rw [ih]
    · simp [h, bind, Except.bind, map_err]

theorem foldlM_regItems (E : Env) (o : Id) (g : St → T × List Id → Res St)
    (hg : ∀ s kv, g s kv = (regDyn E o kv.1 kv.2 s.dreg).map (fun r => { s with dreg := r })) :
    ∀ (d : Dict) (s : St), d.foldlM g s = (regItems E o d s.dreg).map (fun r => { s with dreg := r }) := by
  intro d
  induction d with
  | nil => intro s; simp [regItems, map_ok, pure, Except.pure]
  | cons a as ih =>
    intro s
    obtain ⟨t, ids⟩ := a
    simp only [List.foldlM_cons, hg, regItems]
    cases h : regDyn E o t ids s.dreg with
    | error e => simp [bind, Except.bind, map_err]
    | ok r => simp only [map_ok, bind, Except.bind]; rw [ih]

theorem ensure_add_none {s : St} {l : Id} {t : T} (o : Id) (h : s.dreg l t = none) :
    ddictAddAt (ddictSet s l t []) l t o = .ok { s with dreg := dAdd s.dreg l t o } := by
  have := tie_lanelet_add_dynamic s l o t
  unfold Gen.Lanelet_add_dynamic_obstacle_to_lanelet at this
  simpa [h, ddictGet, ddictHas, bind, Except.bind, pure, Except.pure] using this

theorem ensure_add_some {s : St} {l : Id} {t : T} {v : List Id} (o : Id) (h : s.dreg l t = some v) :
    ddictAddAt s l t o = .ok { s with dreg := dAdd s.dreg l t o } := by
  have := tie_lanelet_add_dynamic s l o t
  unfold Gen.Lanelet_add_dynamic_obstacle_to_lanelet at this
  simpa [h, ddictGet, ddictHas, bind, Except.bind, pure, Except.pure] using this

/-- proves `body s l = if l ∈ E.lanelets then .ok { s with dreg := dAdd s.dreg l t o } else .error .attr` for the registration
    step written out in `_add_dynamic_obstacle_to_lanelets` (`d = find_lanelet_by_id(l).dynamic_obstacles_on_lanelet`,
    `if d.get(t) is None: d[t] = set()`, `d[t].add(o)`) or delegated to `Lanelet.add_dynamic_obstacle_to_lanelet` -/
macro "reg_tac " E:term ", " o:term ", " t:term : tactic => `(tactic|
  (intro s l
   by_cases h : l ∈ ($E : Env).lanelets
   · cases hd : s.dreg l $t <;>
       first
       | simp [findLanelet, deref, h, hd, ddictGet, bind, Except.bind, pure, Except.pure, tie_lanelet_add_dynamic, ensure_add_none $o hd]
       | simp [findLanelet, deref, h, hd, ddictGet, bind, Except.bind, pure, Except.pure, tie_lanelet_add_dynamic, ensure_add_some $o hd]
   · simp [findLanelet, deref, h, bind, Except.bind]))

theorem tie_add_dynamic_obstacle_to_lanelets (E : Env) (s : St) (o : Id) (hk : E.kind o ≠ Kind.static) :
    Gen.Scenario_add_dynamic_obstacle_to_lanelets E s o = addToLanelets E s o := by
  unfold Gen.Scenario_add_dynamic_obstacle_to_lanelets addToLanelets
  simp only [hk, if_false]
  by_cases hg : E.kind o = Kind.dynSet ∨ E.lanelets = []
  · rcases hg with hg | hg <;> simp [hg, pure, Except.pure]
  · have h1 : E.kind o ≠ Kind.dynSet := fun h => hg (Or.inl h)
    have h2 : E.lanelets ≠ [] := fun h => hg (Or.inr h)
    simp only [h1, h2, hg, decide_false, Bool.false_or, Int.natCast_eq_zero, List.length_eq_zero_iff, Bool.false_eq_true, if_false]
    cases hi : (s.fwd o).initShape with
    | none =>
      simp only [regInit, hi, Option.isNone_none, Bool.not_true, Bool.false_eq_true, if_false, bind, Except.bind, pure, Except.pure]
      cases hkind : E.kind o <;> simp_all [regPred, predIsNone, predShape, bind, Except.bind, pure, Except.pure]
      cases hp : (s.fwd o).predShape with
      | none => simp [hp, items]
      | some d =>
        simp only [hp, items, Option.isNone_some, Bool.not_false, if_true]
        rw [foldlM_regItems E o _ (fun s kv => foldlM_regDyn E o kv.1 _ (by reg_tac E, o, kv.1) kv.2 s)]
        cases regItems E o d s.dreg <;> simp [map_ok, map_err, Except.map]
    | some ids =>
      simp only [regInit, hi, Option.isNone_some, Bool.not_false, if_true, iter, bind, Except.bind]
      rw [foldlM_regDyn E o (E.t0 o) _ (by reg_tac E, o, (E.t0 o))]
      cases hr : regDyn E o (E.t0 o) ids s.dreg with
      | error e => simp [map_err, Except.map]
      | ok r =>
        simp only [map_ok, Except.map, pure, Except.pure]
        cases hkind : E.kind o <;> simp_all [regPred, predIsNone, predShape, bind, Except.bind, pure, Except.pure]
        cases hp : (s.fwd o).predShape with
        | none => simp [hp, items]
        | some d =>
          simp only [hp, items, Option.isNone_some, Bool.not_false, if_true]
          rw [foldlM_regItems E o _ (fun s kv => foldlM_regDyn E o kv.1 _ (by reg_tac E, o, kv.1) kv.2 s)]
          cases regItems E o d r <;> simp [map_ok, map_err, Except.map]

/-! ### dynamic obstacles: removal -/

theorem foldlM_discardDyn (E : Env) (o : Id) (t : T) (f : St → Id → Res St)
    (hf : ∀ s l, f s l = .ok { s with dreg := if l ∈ E.lanelets then dDel s.dreg l t o else s.dreg }) :
    ∀ (ids : List Id) (s : St), ids.foldlM f s = .ok { s with dreg := discardDyn E o t ids s.dreg } := by
  intro ids
  induction ids with
  | nil => intro s; simp [discardDyn, pure, Except.pure]
  | cons a as ih =>
    intro s
    simp only [List.foldlM_cons, hf, discardDyn, bind, Except.bind]
    rw [ih]

theorem foldlM_discardItems (E : Env) (o : Id) (g : St → T × List Id → Res St)
    (hg : ∀ s kv, g s kv = .ok { s with dreg := discardDyn E o kv.1 kv.2 s.dreg }) :
    ∀ (d : Dict) (s : St), d.foldlM g s = .ok { s with dreg := discardItems E o d s.dreg } := by
  intro d
  induction d with
  | nil => intro s; simp [discardItems, pure, Except.pure]
  | cons a as ih =>
    intro s
    obtain ⟨t, ids⟩ := a
    simp only [List.foldlM_cons, hg, discardItems, bind, Except.bind]
    rw [ih]

theorem discard_some {s : St} {l : Id} {t : T} {v : List Id} (o : Id) (h : s.dreg l t = some v) :
    ddictDiscardAt s l t o = .ok { s with dreg := dDel s.dreg l t o } := by
  simp only [ddictDiscardAt, h, ddictSet]
  congr 2
  funext l' t'
  by_cases hc : l' = l ∧ t' = t
  · obtain ⟨rfl, rfl⟩ := hc; simp [dDel, h]
  · simp [dDel, hc]

theorem dDel_none {r : DReg} {l : Id} {t : T} (o : Id) (h : r l t = none) : dDel r l t o = r := by
  funext l' t'
  by_cases hc : l' = l ∧ t' = t
  · obtain ⟨rfl, rfl⟩ := hc; simp [dDel, h]
  · simp [dDel, hc]

/-- proves `body s l = .ok { s with dreg := if l ∈ E.lanelets then dDel s.dreg l t o else s.dreg }` for the guarded discard step
    `lanelet = find_lanelet_by_id(l); if lanelet is not None and t in lanelet.dynamic_obstacles_on_lanelet: …[t].discard(o)` -/
macro "discard_tac " E:term ", " o:term ", " t:term : tactic => `(tactic|
  (intro s l
   by_cases h : l ∈ ($E : Env).lanelets
   · cases hd : s.dreg l $t <;>
       first
       | simp [findLanelet, deref, h, hd, ddictHas, bind, Except.bind, pure, Except.pure, discard_some $o hd]
       | simp [findLanelet, deref, h, hd, ddictHas, bind, Except.bind, pure, Except.pure, dDel_none $o hd]
   · simp [findLanelet, deref, h, bind, Except.bind, pure, Except.pure]))

/-! the centre part of `_remove_dynamic_obstacle_from_lanelets` merges the initial centre set into the entry of the initial time
    step (`center_assignment[t_init] = set(center_assignment.get(t_init, ())) | set(initial_center_lanelet_ids or ())`), the model
    appends it as an entry of its own: the discards commute and are idempotent, so the registries are EQUAL -/

/-- one guarded discard -/
def dstep (E : Env) (o : Id) (t : T) (l : Id) (r : DReg) : DReg := if l ∈ E.lanelets then dDel r l t o else r

theorem dDel_comm (r : DReg) (l l' : Id) (t t' : T) (o : Id) : dDel (dDel r l t o) l' t' o = dDel (dDel r l' t' o) l t o := by
  funext a b
  simp only [dDel]
  by_cases h1 : a = l ∧ b = t
  · by_cases h2 : a = l' ∧ b = t'
    · simp only [if_pos h1, if_pos h2]
    · simp only [if_pos h1, if_neg h2]
  · by_cases h2 : a = l' ∧ b = t'
    · simp only [if_neg h1, if_pos h2]
    · simp only [if_neg h1, if_neg h2]

theorem dstep_comm (E : Env) (o : Id) (r : DReg) (l l' : Id) (t t' : T) :
    dstep E o t' l' (dstep E o t l r) = dstep E o t l (dstep E o t' l' r) := by
  unfold dstep
  by_cases h1 : l ∈ E.lanelets <;> by_cases h2 : l' ∈ E.lanelets <;> simp [h1, h2, dDel_comm]

theorem discardDyn_cons (E : Env) (o : Id) (t : T) (l : Id) (ls : List Id) (r : DReg) :
    discardDyn E o t (l :: ls) r = discardDyn E o t ls (dstep E o t l r) := rfl

theorem discardDyn_dstep (E : Env) (o : Id) (t t' : T) (l' : Id) : ∀ (ids : List Id) (r : DReg),
    discardDyn E o t ids (dstep E o t' l' r) = dstep E o t' l' (discardDyn E o t ids r) := by
  intro ids
  induction ids with
  | nil => intro r; rfl
  | cons a as ih => intro r; rw [discardDyn_cons, discardDyn_cons, dstep_comm, ih]

theorem discardDyn_comm (E : Env) (o : Id) (t t' : T) (ids' : List Id) : ∀ (ids : List Id) (r : DReg),
    discardDyn E o t ids (discardDyn E o t' ids' r) = discardDyn E o t' ids' (discardDyn E o t ids r) := by
  intro ids
  induction ids with
  | nil => intro r; rfl
  | cons a as ih => intro r; rw [discardDyn_cons, discardDyn_cons, ← discardDyn_dstep, ih]

theorem discardDyn_append (E : Env) (o : Id) (t : T) : ∀ (a b : List Id) (r : DReg),
    discardDyn E o t (a ++ b) r = discardDyn E o t b (discardDyn E o t a r) := by
  intro a
  induction a with
  | nil => intro b r; rfl
  | cons x xs ih => intro b r; simp only [List.cons_append, discardDyn_cons, ih]

theorem discardItems_discardDyn (E : Env) (o : Id) (t : T) (ids : List Id) : ∀ (d : Dict) (r : DReg),
    discardItems E o d (discardDyn E o t ids r) = discardDyn E o t ids (discardItems E o d r) := by
  intro d
  induction d with
  | nil => intro r; rfl
  | cons a as ih => intro r; obtain ⟨k, w⟩ := a; simp only [discardItems]; rw [discardDyn_comm, ih]

theorem discardItems_append_single (E : Env) (o : Id) (t : T) (ids : List Id) : ∀ (d : Dict) (r : DReg),
    discardItems E o (d ++ [(t, ids)]) r = discardDyn E o t ids (discardItems E o d r) := by
  intro d
  induction d with
  | nil => intro r; rfl
  | cons a as ih => intro r; obtain ⟨k, w⟩ := a; simp only [List.cons_append, discardItems, ih]

theorem discardItems_merge (E : Env) (o : Id) (t0 : T) (ic : List Id) : ∀ (d : Dict) (r : DReg),
    discardItems E o (dictSet d t0 (dictGetD d t0 ++ ic)) r = discardItems E o (d ++ [(t0, ic)]) r := by
  intro d
  induction d with
  | nil => intro r; simp [dictSet, dictGetD, dictGet]
  | cons a as ih =>
    intro r
    obtain ⟨k, w⟩ := a
    by_cases hk : k = t0
    · subst hk
      simp only [dictSet, dictGetD, dictGet, if_true, Option.getD_some, List.cons_append, discardItems]
      rw [discardItems_append_single, discardDyn_append, discardItems_discardDyn]
    · have : dictGetD ((k, w) :: as) t0 = dictGetD as t0 := by simp [dictGetD, dictGet, hk]
      simp only [this, dictSet, hk, if_false, List.cons_append, discardItems]
      exact ih _

/-- rewrites one loop `for t, ids in d.items(): for l in ids: <guarded discard>` (not under a binder) into `discardItems` -/
macro "rw_discard_items " E:term ", " o:term : tactic => `(tactic|
  rw [foldlM_discardItems $E $o _ (fun s kv => foldlM_discardDyn $E $o kv.1 _ (by discard_tac $E, $o, kv.1) kv.2 s)])

/-- `_remove_dynamic_obstacle_from_lanelets`: the dynamic branch of the model's `remove` (registries only) -/
theorem tie_remove_dynamic_obstacle_from_lanelets (E : Env) (s : St) (o : Id) :
    Gen.Scenario_remove_dynamic_obstacle_from_lanelets E s o =
      .ok (if E.kind o = Kind.dynSet ∨ E.lanelets = [] then s
           else { s with dreg := unregCenter E o (s.fwd o) (unregShape E o (s.fwd o) s.dreg) }) := by
  unfold Gen.Scenario_remove_dynamic_obstacle_from_lanelets
  by_cases hg : E.kind o = Kind.dynSet ∨ E.lanelets = []
  · rcases hg with hg | hg <;> simp [hg, pure, Except.pure]
  · have h1 : E.kind o ≠ Kind.dynSet := fun h => hg (Or.inl h)
    have h2 : E.lanelets ≠ [] := fun h => hg (Or.inr h)
    simp only [h1, h2, hg, decide_false, Bool.false_or, Int.natCast_eq_zero, List.length_eq_zero_iff, Bool.false_eq_true, if_false]
    cases hi : (s.fwd o).initShape with
    | none =>
      simp only [Option.isNone_none, Bool.not_true, Bool.false_eq_true, if_false, bind, Except.bind, pure, Except.pure]
      cases hkind : E.kind o <;> simp [predIsNone, predShape, predCenterOrNone, hkind, bind, Except.bind, pure, Except.pure] at h1 ⊢
      · rw_discard_items E, o
        simp [discardItems_merge, unregCenter, unregShape, hkind, hi, discardDyn]
      · cases hp : (s.fwd o).predShape with
        | none =>
          simp only [hp, Option.isSome_none, Bool.false_eq_true, if_false]
          rw_discard_items E, o
          simp [discardItems_merge, unregCenter, unregShape, hkind, hi, hp, discardDyn, discardItems]
        | some d =>
          simp only [hp, Option.isSome_some, if_true, items]
          rw_discard_items E, o
          simp only []
          rw_discard_items E, o
          simp [discardItems_merge, unregCenter, unregShape, hkind, hi, hp, discardDyn, discardItems]
      · rw_discard_items E, o
        simp [discardItems_merge, unregCenter, unregShape, hkind, hi, discardDyn]
    | some ids =>
      simp only [Option.isNone_some, Bool.not_false, if_true, iter, bind, Except.bind, pure, Except.pure]
      rw [foldlM_discardDyn E o (E.t0 o) _ (by discard_tac E, o, (E.t0 o))]
      simp only []
      cases hkind : E.kind o <;> simp [predIsNone, predShape, predCenterOrNone, hkind, bind, Except.bind, pure, Except.pure] at h1 ⊢
      · rw_discard_items E, o
        simp [discardItems_merge, unregCenter, unregShape, hkind, hi, discardDyn]
      · cases hp : (s.fwd o).predShape with
        | none =>
          simp only [hp, Option.isSome_none, Bool.false_eq_true, if_false]
          rw_discard_items E, o
          simp [discardItems_merge, unregCenter, unregShape, hkind, hi, hp, discardDyn, discardItems]
        | some d =>
          simp only [hp, Option.isSome_some, if_true, items]
          rw_discard_items E, o
          simp only []
          rw_discard_items E, o
          simp [discardItems_merge, unregCenter, unregShape, hkind, hi, hp, discardDyn, discardItems]
      · rw_discard_items E, o
        simp [discardItems_merge, unregCenter, unregShape, hkind, hi, discardDyn]

/-! ### remove_obstacle / add_objects -/

/-- `Scenario.remove_obstacle(obstacle)` (one obstacle object, the one stored in the scenario) is the model's `remove` -/
theorem tie_remove_obstacle (E : Env) (s : St) (o : Id) : Gen.Scenario_remove_obstacle E s o = remove E s o := by
  unfold Gen.Scenario_remove_obstacle remove
  by_cases hs : o ∈ s.statics
  · simp [hs, tie_remove_static_obstacle_from_lanelets E s o (Or.inl hs), delStatic, bind, Except.bind, pure, Except.pure]
  · by_cases hd : o ∈ s.dynamics
    · simp only [hs, hd, decide_true, decide_false, Bool.false_eq_true, if_true, if_false, tie_remove_dynamic_obstacle_from_lanelets,
        bind, Except.bind, pure, Except.pure]
      by_cases hg : E.kind o = Kind.dynSet ∨ E.lanelets = [] <;> simp [hg, hd, delDynamic]
    · simp [hs, hd, bind, Except.bind, pure, Except.pure]

/-- `Scenario.add_objects(obstacle)` for a StaticObstacle / DynamicObstacle object is the model's `add` -/
theorem tie_add_objects_static (E : Env) (s : St) (o : Id) (hk : E.kind o = Kind.static) :
    Gen.Scenario_add_objects_static E s o = add E s o := by
  unfold Gen.Scenario_add_objects_static add
  by_cases hu : o ∈ s.statics ∨ o ∈ s.dynamics ∨ o ∈ E.lanelets
  · simp [markUsed, hu, bind, Except.bind]
  · obtain ⟨h1, h2, h3⟩ : o ∉ s.statics ∧ o ∉ s.dynamics ∧ o ∉ E.lanelets := by simpa [not_or] using hu
    simp only [markUsed, h1, h2, h3, or_self, if_false, hk, if_true, bind, Except.bind, putStatic]
    have := tie_add_static_obstacle_to_lanelets E { s with statics := s.statics ++ [o] } o (s.fwd o)
    simp only [] at this
    rw [this]
    unfold addToLanelets
    simp only [hk, if_true]
    cases addStaticReg E o (s.fwd o) s.sreg <;> simp [map_ok, map_err, Except.map, bind, Except.bind, pure, Except.pure]

theorem tie_add_objects_dynamic (E : Env) (s : St) (o : Id) (hk : E.kind o ≠ Kind.static) :
    Gen.Scenario_add_objects_dynamic E s o = add E s o := by
  unfold Gen.Scenario_add_objects_dynamic add
  by_cases hu : o ∈ s.statics ∨ o ∈ s.dynamics ∨ o ∈ E.lanelets
  · simp [markUsed, hu, bind, Except.bind]
  · obtain ⟨h1, h2, h3⟩ : o ∉ s.statics ∧ o ∉ s.dynamics ∧ o ∉ E.lanelets := by simpa [not_or] using hu
    simp only [markUsed, h1, h2, h3, or_self, if_false, hk, bind, Except.bind, putDynamic, tie_add_dynamic_obstacle_to_lanelets E _ o hk]

/-! ### assign_obstacles_to_lanelets -/

@[simp] theorem setFwd_setFwd (s : St) (o : Id) (f g : Fwd) : (s.setFwd o f).setFwd o g = s.setFwd o g := by
  unfold St.setFwd
  congr 1
  funext x
  by_cases h : x = o <;> simp [h]

@[simp] theorem setFwd_fwd_self (s : St) (o : Id) (f : Fwd) : (s.setFwd o f).fwd o = f := by simp [St.setFwd]

/-- nested `assign_static_obstacle(obstacle)` is the model's `assignStatic` -/
theorem tie_assign_static_obstacle (E : Env) (co : Bool) (s : St) (o : Id) :
    Gen.Scenario_assign_obstacles_to_lanelets.assign_static_obstacle E co s o = assignStatic E co o s := by
  unfold Gen.Scenario_assign_obstacles_to_lanelets.assign_static_obstacle assignStatic
  cases co
  · simp only [staticOccAt, derefAt, setInitShape, setInitCenter, Bool.not_false, if_true, Bool.false_eq_true, if_false,
      bind, Except.bind, pure, Except.pure, setFwd_setFwd, setFwd_fwd_self]
    rw [foldlM_regStatic E o _ (by
      intro s l
      by_cases h : l ∈ E.lanelets <;> simp [findLanelet, deref, tie_lanelet_add_static, h, bind, Except.bind, pure, Except.pure])]
    cases h : regStatic E o (E.shp o (E.t0 o)) s.sreg <;> simp [h, map_ok, map_err, Except.map]
  · simp only [staticOccAt, derefAt, setInitShape, setInitCenter, Bool.not_true, if_true, Bool.false_eq_true, if_false,
      bind, Except.bind, pure, Except.pure, setFwd_setFwd, setFwd_fwd_self]
    rw [foldlM_regStatic E o _ (by
      intro s l
      by_cases h : l ∈ E.lanelets <;> simp [findLanelet, deref, tie_lanelet_add_static, h, bind, Except.bind, pure, Except.pure])]
    cases h : regStatic E o (E.cen o (E.t0 o)) s.sreg <;> simp [h, map_ok, map_err, Except.map]

/-- the loop `for l_id in lanelet_ids: find_lanelet_by_id(l_id).add_dynamic_obstacle_to_lanelet(o, t)` -/
theorem foldlM_addDyn (E : Env) (o : Id) (t : T) (ids : List Id) (s : St) :
    List.foldlM (fun s l_id => do
        let s ← Gen.Lanelet_add_dynamic_obstacle_to_lanelet s (← deref (findLanelet E l_id)) o t
        pure s) s ids = (regDyn E o t ids s.dreg).map (fun r => { s with dreg := r }) :=
  foldlM_regDyn E o t _ (by reg_tac E, o, t) ids s

theorem int_aux1 (t a : Int) (h : t < a) : ¬(a + 1 ≤ t) := by omega
theorem int_aux2 (t a : Int) (h1 : ¬t = a) (h2 : ¬t < a) : a + 1 ≤ t ∧ a < t := by omega

/-- closes a goal `foldlM (registration step) s' ids = match regDyn … with …` -/
macro "fin_dyn " E:term ", " o:term ", " t:term : tactic => `(tactic|
  (rw [foldlM_regDyn $E $o $t _ (by reg_tac $E, $o, $t)]
   simp only [setFwd_dreg, setFwd_setFwd, setFwd_fwd_self]
   generalize regDyn $E $o _ _ _ = x
   cases x <;> simp [Except.map, St.setFwd]))

/-- nested `assign_dynamic_obstacle_shape_at_time(obstacle, time_step)` is the model's `assignDynAt` -/
theorem tie_assign_dynamic_obstacle_shape_at_time (E : Env) (co : Bool) (s : St) (o : Id) (t : T) :
    Gen.Scenario_assign_obstacles_to_lanelets.assign_dynamic_obstacle_shape_at_time E co s o t = assignDynAt E co o s t := by
  unfold Gen.Scenario_assign_obstacles_to_lanelets.assign_dynamic_obstacle_shape_at_time assignDynAt assignFwd
  by_cases ht : t = E.t0 o
  · subst ht
    cases hkind : E.kind o <;> cases co <;> cases hpc : (s.fwd o).predCenter <;> cases hps : (s.fwd o).predShape <;>
      simp [hkind, hpc, hps, predIsNone, predCenterSetItem, predShapeSetItem, dynOccAt, derefAt, setInitShape, setInitCenter,
        bind, Except.bind, pure, Except.pure] <;>
      fin_dyn E, o, (E.t0 o)
  · by_cases hr : E.kind o ≠ Kind.dynTraj ∨ E.tf o < t
    · rcases hr with hr | hr <;> simp [ht, hr, pure, Except.pure]
    · have hk : E.kind o = Kind.dynTraj := by
        by_cases h : E.kind o = Kind.dynTraj
        · exact h
        · exact absurd (Or.inl h) hr
      have htf : t ≤ E.tf o := by
        by_cases h : E.tf o < t
        · exact absurd (Or.inr h) hr
        · exact Int.not_lt.mp h
      by_cases hlt : t < E.t0 o
      · have : ¬(E.t0 o + 1 ≤ t) := int_aux1 t (E.t0 o) hlt
        simp [ht, hk, htf, hlt, this, trajStateAt, derefAt, bind, Except.bind, Int.not_lt.mpr htf]
      · obtain ⟨h1, h2⟩ : E.t0 o + 1 ≤ t ∧ E.t0 o < t := int_aux2 t (E.t0 o) ht hlt
        cases co <;> cases hpc : (s.fwd o).predCenter <;> cases hps : (s.fwd o).predShape <;>
          simp [ht, hk, htf, hlt, h1, h2, hpc, hps, trajStateAt, predIsNone, predCenterSetItem, predShapeSetItem, dynOccAt, derefAt,
            setInitShape, setInitCenter, bind, Except.bind, pure, Except.pure, Int.not_lt.mpr htf] <;>
          fin_dyn E, o, t

theorem setFwd_same (s : St) (o : Id) (f : Fwd) (h : f = s.fwd o) : s.setFwd o f = s := by
  subst h
  cases s
  simp only [St.setFwd, St.mk.injEq, and_true]
  funext x
  by_cases hx : x = o <;> simp [hx]

theorem pyRange_trange (a : Int) (n : Nat) : pyRange a (a + (n : Int) + 1) = trange a n := by
  unfold pyRange trange
  have : (a + (n : Int) + 1 - a).toNat = n + 1 := by omega
  rw [this]

/-- `Scenario.assign_obstacles_to_lanelets(time_steps, obstacle_ids, use_center_only)` is the model's `assign` -/
theorem tie_assign_obstacles_to_lanelets (E : Env) (s : St) (ts : Option (List T)) (ids : Option (List Id)) (co : Bool) :
    Gen.Scenario_assign_obstacles_to_lanelets E s ts ids co = assign E ids ts co s := by
  unfold Gen.Scenario_assign_obstacles_to_lanelets assign
  cases ids <;> simp only [bind, Except.bind, pure, Except.pure, Option.getD] <;>
    (congr 1; funext s o
     unfold assignObs
     by_cases hd : o ∈ s.dynamics
     · cases hkind : E.kind o <;> cases ts <;> cases co <;> cases hpc : (s.fwd o).predCenter <;> cases hps : (s.fwd o).predShape <;>
         simp [obstacleById, isDynamicObj, hd, deref, hkind, hpc, hps, predIsNone, predShape, predCenter, setPredShape, setPredCenter,
           initDicts, tie_assign_dynamic_obstacle_shape_at_time, Env.tf, pyRange_trange, bind, Except.bind, pure, Except.pure]
       all_goals (congr 1; exact (setFwd_same _ _ _ (by cases hf : s.fwd o; simp_all)).symm)
     · by_cases hs : o ∈ s.statics
       · simp [obstacleById, isDynamicObj, hd, hs, deref, tie_assign_static_obstacle, bind, Except.bind]
       · simp [obstacleById, isDynamicObj, hd, hs, deref, bind, Except.bind])

end CR.Assign
