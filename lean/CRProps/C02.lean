/-
  C02 — protobuf write → read is lossless.

  Model: CRModel.CRProto (`CR.PBF`): message trees with HasField semantics, the writer's `XxxMessage.create_message`
  builders (`enc…`), the reader's `XxxFactory.create_from_message` (`dec…`), for the WHOLE `CommonRoad` message: header,
  tags, location (geo transformation, environment, time), lanelets (bounds, stop line), traffic signs, traffic lights,
  intersections, static / dynamic / environment / phantom obstacles (shapes incl. nested shape groups, states with exact /
  interval / region values, trajectory and set-based predictions, signal states) and planning problems.  No element kind
  is left out, so there is no `_partial` theorem.

  All theorems hold for ALL snapshots (lists of any length, shape groups of any depth); no size bound.
-/
import CRProofs.CRProto

namespace CR.PBF
open PB

theorem map_dec_enc_mem {α β γ : Type} (f : α → β) (g : β → γ) (n : α → γ) (l : List α)
    (h : ∀ a ∈ l, g (f a) = n a) : (l.map f).map g = l.map n := by
  rw [List.map_map]
  exact List.map_congr_left h

/-! ## The round trip -/

/-- **pb_roundtrip.**  Reading what the writer wrote returns `normPb x`: `decodePb (encScn x) = normPb x` for every
    admissible snapshot `x`.  `normPb` is NOT the identity in general.  What it changes, completely:
    (a) an INITIAL state comes back as an `InitialState`: its five float attributes, the unset ones as 0 (C01's documented
        default); a populated attribute OUTSIDE those five is DROPPED and an absent position becomes (0, 0)
        (`C02_witness_initial_extra_dropped`, `C02_witness_initial_no_position` — neither can be built through
        `Obstacle(...)`, the first only by handing `PlanningProblem` a state that is not an `InitialState`; outside the
        quantifier, see there; everything else about initial states: `C02_normInit_lossless_partial`);
    (b) the class name of every other state is the one its populated attributes denote (`C02_class_own`);
    (c) an initial signal state without any slot becomes `none`;
    (d) `None` line markings / sign position / virtual / light offset, direction, active (never returned by the public
        accessors) become the constructor defaults.
    On canonical snapshots `normPb` IS the identity: `C02_normPb_id`, `C02_roundtrip_id`; what the reader returns is always
    canonical: `C02_normPb_canon`. -/
theorem C02_pb_roundtrip (x : Scn) (h : x.wf = true) : decodePb (encScn x) = .ok (normPb x) := by
  simp only [Scn.wf, Bool.and_eq_true, List.all_eq_true] at h
  obtain ⟨⟨hst, hdy⟩, hpp⟩ := h
  have h1 := mapRes_ok encLanelet decLanelet normLanelet decLanelet_enc x.lanelets
  have h2 := map_map_norm encSign decSign normSign decSign_enc x.signs
  have h3 := map_map_norm encLight decLight normLight decLight_enc x.lights
  have h4 := map_map_id encInter decInter decInter_enc x.intersections
  have h5 := map_dec_enc_mem encStatic decStatic normStatic x.static (fun o ho => decStatic_enc o (hst o ho))
  have h6 := map_dec_enc_mem encDynamic decDynamic normDynamic x.dynamic
    (fun o ho => decDynamic_enc o (hdy o ho).1 (hdy o ho).2)
  have h7 := map_map_id encEnvObs decEnvObs decEnvObs_enc x.env
  have h8 := map_map_id encPhantom decPhantom decPhantom_enc x.phantom
  have h9 := map_dec_enc_mem encPP decPP normPP x.pps
    (fun p hp => decPP_enc p (hpp p hp).1 (List.all_eq_true.mpr (hpp p hp).2))
  cases x with
  | mk info tags location lanelets signs lights intersections static dynamic env phantom pps =>
    simp only [] at h1 h2 h3 h4 h5 h6 h7 h8 h9
    simp [decodePb, encScn, normPb, PB.get, List.lookup, h1, h2, h3, h4, h5, h6, h7, h8, h9, bind, Except.bind, pure,
      Except.pure]

/-- (definitional: documents the model, carries no proof content — it unfolds `encodePb`.)
    `CommonRoadFileWriter.write_to_file` succeeds exactly when no integer is outside its protobuf range, every enum
    member exists in the .proto enum and every state attribute has a field; it then writes `encScn x`. -/
theorem C02_encode_ok_iff (T : Tables) (x : Scn) (m : PB) :
    encodePb T x = .ok m ↔ (encScn x).check T = none ∧ m = encScn x := by
  unfold encodePb
  cases h : (encScn x).check T with
  | none => simp [eq_comm]
  | some e => simp

/-- **write → read.**  Whenever the writer succeeds (in particular: every enum member is one the shipped .proto has), the
    reader returns the original content. -/
theorem C02_write_read (T : Tables) (x : Scn) (m : PB) (hw : encodePb T x = .ok m) (h : x.wf = true) :
    decodePb m = .ok (normPb x) := by
  rw [((C02_encode_ok_iff T x m).mp hw).2]
  exact C02_pb_roundtrip x h

/-! ## One writer object, several files -/

/-- started from a fresh message the writer's helpers build exactly `encScn` (of the scenario without planning problems for
    `write_scenario_to_file`) -/
theorem C02_fill_fresh (x : Scn) (b : Bool) : fillScn (.msg []) x b = encScn (x.only b) := by
  cases b <;> simp [fillScn, encScn, Scn.only, PB.get, PB.items]

/-- **A writer object has no memory**: whatever calls (`write_to_file` / `write_scenario_to_file`, any number, any order,
    the scenario edited in between, calls that raised in between) were made on it before, every call writes exactly the
    message of the scenario AS IT IS AT THAT CALL (without planning problems for `write_scenario_to_file`). -/
theorem C02_writer_history : ∀ (w : Wr) (calls : List (Scn × Bool)), w.run calls = calls.map fun c => encScn (c.1.only c.2)
  | _, [] => rfl
  | w, c :: r => by
    simp only [Wr.run, List.map_cons, Wr.write, C02_fill_fresh]
    rw [C02_writer_history _ r]

theorem only_wf (x : Scn) (b : Bool) (h : x.wf = true) : (x.only b).wf = true := by
  cases b
  · simp only [Scn.wf, Bool.and_eq_true] at h ⊢
    simp [Scn.only, h.1]
  · exact h

/-- so every file of a reused writer reads back as the content the scenario had at that call -/
theorem C02_writer_history_read (w : Wr) (calls : List (Scn × Bool)) (h : ∀ c ∈ calls, c.1.wf = true) :
    (w.run calls).map decodePb = calls.map fun c => .ok (normPb (c.1.only c.2)) := by
  rw [C02_writer_history w calls, List.map_map]
  apply List.map_congr_left
  intro c hc
  exact C02_pb_roundtrip _ (only_wf c.1 c.2 (h c hc))

/-- a call that raises (unwritable scenario) does not disturb the later calls: call `i` of the checked history is decided by
    the scenario of call `i` alone -/
theorem C02_writer_history_checked (T : Tables) (w : Wr) (calls : List (Scn × Bool)) :
    w.runChecked T calls = calls.map fun c => encodePb T (c.1.only c.2) := by
  simp only [Wr.runChecked, C02_writer_history, List.map_map]
  apply List.map_congr_left
  intro c _
  simp only [Function.comp, encodePb]

/-- **Witness: the reset is load-bearing.**  Filling the message left behind by an earlier write instead of a fresh one
    (what a `write_scenario_to_file` without `self._commonroad_msg = CommonRoad()` does) writes every lanelet twice. -/
theorem C02_witness_no_reset : ∃ x : Scn, ((fillScn (encScn x) x false).get "lanelets").items.length
    ≠ ((encScn (x.only false)).get "lanelets").items.length :=
  ⟨{ (default : Scn) with lanelets := [default] }, by decide⟩

/-! ## `normPb` is the identity on content -/

theorem normLanelet_of_typed (l : Lanelet) (h : (l.lm_left.isSome && l.lm_right.isSome) = true) : normLanelet l = l := by
  cases l with
  | mk id left right lml lmr pred succ al als ar ars stop types ow bd signs lights =>
    cases lml <;> cases lmr <;> simp_all [normLanelet]

theorem normSignEl_of_typed (e : SignEl) (h : signCountries.contains e.country = true) : normSignEl e = e := by
  cases e with
  | mk country name values =>
    simp only [signCountries, List.contains_eq_mem, List.mem_cons, List.not_mem_nil, or_false,
      decide_eq_true_eq] at h
    rcases h with rfl | rfl | rfl | rfl | rfl | rfl | rfl | rfl | rfl | rfl | rfl | rfl | rfl <;> rfl

theorem normSign_of_typed (s : Sign)
    (h : (s.pos.isSome && s.virtual.isSome && s.elements.all (fun e => signCountries.contains e.country)) = true) :
    normSign s = s := by
  cases s with
  | mk id elements first pos virtual =>
    simp only [Bool.and_eq_true, List.all_eq_true] at h
    have he : elements.map normSignEl = elements := by
      conv => rhs; rw [← List.map_id elements]
      exact List.map_congr_left (fun e he => normSignEl_of_typed e (h.2 e he))
    cases pos <;> cases virtual <;> simp_all [normSign]

theorem normLight_of_typed (t : Light)
    (h : (t.pos.isSome && t.offset.isSome && t.direction.isSome && t.active.isSome) = true) : normLight t = t := by
  cases t with
  | mk id cycle pos offset direction active =>
    cases pos <;> cases offset <;> cases direction <;> cases active <;> simp_all [normLight]

/-- `normPb` leaves header, tags, location, intersections, environment and phantom obstacles alone (these six components
    hold by the definition of `normPb`, which `C02_pb_roundtrip` ties to reader ∘ writer; the proof content is in the other
    three:) on the snapshot of real objects (`typed`) lanelets, traffic signs and traffic lights are returned exactly.  The
    statement about the WHOLE snapshot, obstacles and planning problems included, is `C02_normPb_id`. -/
theorem C02_normPb_frame (x : Scn) (h : x.typed = true) :
    (normPb x).info = x.info ∧ (normPb x).tags = x.tags ∧ (normPb x).location = x.location ∧
    (normPb x).lanelets = x.lanelets ∧ (normPb x).signs = x.signs ∧ (normPb x).lights = x.lights ∧
    (normPb x).intersections = x.intersections ∧ (normPb x).env = x.env ∧ (normPb x).phantom = x.phantom := by
  simp only [Scn.typed, Bool.and_eq_true, List.all_eq_true] at h
  obtain ⟨⟨hl, hs⟩, ht⟩ := h
  refine ⟨rfl, rfl, rfl, ?_, ?_, ?_, rfl, rfl, rfl⟩
  · show x.lanelets.map normLanelet = x.lanelets
    conv => rhs; rw [← List.map_id x.lanelets]
    exact List.map_congr_left (fun l hl' => normLanelet_of_typed l (by simpa using hl l hl'))
  · show x.signs.map normSign = x.signs
    conv => rhs; rw [← List.map_id x.signs]
    exact List.map_congr_left (fun s hs' => normSign_of_typed s (by
      have := hs s hs'
      simp only [Bool.and_eq_true, List.all_eq_true]
      exact this))
  · show x.lights.map normLight = x.lights
    conv => rhs; rw [← List.map_id x.lights]
    exact List.map_congr_left (fun t ht' => normLight_of_typed t (by
      have := ht t ht'
      simp only [Bool.and_eq_true]
      exact this))

/-- (definitional: documents `normState`, carries no proof content.)  A state that is not an initial state keeps time step,
    position and every populated attribute; only the class name is re-derived — to which class: `C02_class_own`. -/
theorem C02_normState_content (s : St) :
    (normState s).t = s.t ∧ (normState s).pos = s.pos ∧ (normState s).attrs = s.attrs := ⟨rfl, rfl, rfl⟩

/-- an attribute an initial state populates is read back bit-identically (whatever other attributes are unset) -/
theorem C02_normInit_set (s : St) (n : String) (v : FloatEOI) (hn : n ∈ initFields) (hv : s.attrs.lookup n = some v) :
    (normInit s).attrs.lookup n = some v := by
  simp only [initFields, List.mem_cons, List.not_mem_nil, or_false] at hn
  rcases hn with rfl | rfl | rfl | rfl | rfl <;> simp [normInit, initFields, List.lookup, hv]

/-- an attribute an initial state leaves unset reads back as 0 — C01's documented exception -/
theorem C02_normInit_unset (s : St) (n : String) (hn : n ∈ initFields) (hv : s.attrs.lookup n = none) :
    (normInit s).attrs.lookup n = some (.exact Dbl.zero) := by
  simp only [initFields, List.mem_cons, List.not_mem_nil, or_false] at hn
  rcases hn with rfl | rfl | rfl | rfl | rfl <;> simp [normInit, initFields, List.lookup, hv]

theorem C02_normInit_time_pos (s : St) :
    (normInit s).t = s.t ∧ (∀ p, s.pos = some p → (normInit s).pos = some p) := by
  refine ⟨rfl, ?_⟩
  intro p hp; simp [normInit, hp]

/-- **Initial states, lossless part** (`_partial`: excluded are initial states that populate an attribute outside
    `InitialState`'s five or have no position — `C02_witness_initial_extra_dropped`, `C02_witness_initial_no_position`).
    For an initial state with a position whose populated attributes are attributes of `InitialState`: time step and position
    come back unchanged, EVERY populated attribute comes back bit-identically, every unset one as 0, nothing else appears. -/
theorem C02_normInit_lossless_partial (s : St) (hw : s.wf = true) (hok : s.initOk = true) :
    (normInit s).t = s.t ∧ (normInit s).pos = s.pos ∧
    (∀ kv ∈ s.attrs, (normInit s).attrs.lookup kv.1 = some kv.2) ∧
    (∀ n ∈ initFields, s.attrs.lookup n = none → (normInit s).attrs.lookup n = some (.exact Dbl.zero)) ∧
    (normInit s).attrs.map Prod.fst = initFields := by
  simp only [St.initOk, Bool.and_eq_true, List.all_eq_true] at hok
  refine ⟨rfl, ?_, ?_, ?_, ?_⟩
  · cases hp : s.pos with
    | none => simp [hp] at hok
    | some p => simp [normInit, hp]
  · intro kv hkv
    have hin : kv.1 ∈ initFields := by simpa using hok.2 kv hkv
    have hl := mem_lookup_of_wf s hw kv hkv
    simp only [normInit]
    rw [lookup_map_self (fun n => (s.attrs.lookup n).getD (.exact Dbl.zero)) kv.1 initFields hin, hl]
    rfl
  · intro n hn hnone
    simp only [normInit]
    rw [lookup_map_self (fun n => (s.attrs.lookup n).getD (.exact Dbl.zero)) n initFields hn, hnone]
    rfl
  · simp [normInit, List.map_map, Function.comp_def]

/-- a planning-problem "initial state" that is really a single-track state (position, orientation, velocity, steering angle,
    yaw rate, slip angle): `PlanningProblem.initial_state` is annotated `InitialState` but its setter only checks that the
    mandatory fields are there, so `PlanningProblem(1, STState(...), goal)` can be built -/
def exInitExtra : St :=
  { cls := "STState", t := .exact 0, pos := some (.point ⟨⟨"0x1.0p+0"⟩, ⟨"0x1.0p+1"⟩⟩),
    attrs := [("orientation", .exact ⟨"0x1.0p-1"⟩), ("velocity", .exact ⟨"0x1.8p+1"⟩), ("steering_angle", .exact ⟨"0x1.0p-3"⟩),
              ("yaw_rate", .exact ⟨"0x1.0p-2"⟩), ("slip_angle", .exact ⟨"0x0.0p+0"⟩)] }

/-- **Witness: "every populated attribute of an initial state survives" is FALSE without `initOk`.**  `exInitExtra` is
    written with its `steering_angle` field (message `State` has one), and read back as an `InitialState`, which has no
    such attribute: the value is dropped.  Replayed on the real code by corpus/C02/outside_pp_initial_state_is_ststate.json
    (model = implementation).  Classification: OUTSIDE the property's quantifier — "planning problems (initial state …)
    as in C01": C01 ranges over schema-expressible planning problems and the 2020a schema's initial state has exactly
    position, orientation, time, velocity, acceleration, yawRate, slipAngle (the XML round trip drops the steering angle in
    the same way); the parameter is annotated `InitialState`; `Obstacle.initial_state` asserts the type. -/
theorem C02_witness_initial_extra_dropped :
    ¬ ∀ s : St, s.wf = true → ∀ kv ∈ s.attrs, (decInitState (encState s)).attrs.lookup kv.1 = some kv.2 := by
  intro h
  have h1 := h exInitExtra (by decide) ("steering_angle", .exact ⟨"0x1.0p-3"⟩) (by decide)
  rw [decInitState_encState exInitExtra (by decide)] at h1
  revert h1
  decide

/-- **Witness: an initial state without position does not stay without position** (it reads back at (0, 0), the reader's
    `fill_with_defaults`).  Not constructible: `Obstacle.initial_state` raises on a state without position and
    `PlanningProblem.initial_state` demands one; it is also C01's stated exception ("unset attributes of initial states
    read back as 0").  Outside the quantifier. -/
theorem C02_witness_initial_no_position :
    ∃ s : St, s.wf = true ∧ s.pos = none ∧
      (decInitState (encState s)).pos = some (.point ⟨Dbl.zero, Dbl.zero⟩) :=
  ⟨{ cls := "InitialState", t := .exact 0, pos := none, attrs := [] }, by decide, rfl, by
    rw [decInitState_encState _ (by decide)]; rfl⟩

/-! ## Which class a state comes back as -/

theorem specClassK_own : ∀ c ∈ stateClasses, writableClass c = true →
    specClassK (c.2.contains "position") (ownKeys c) = some c.1 := by decide

/-- **Every standard state class with exactly its own attributes populated reads back as its own class** — for each class
    of `SpecificStateClasses` all of whose attributes the format has a field for (`C02_writable_classes`: InitialState,
    PMState, KSState, STState, STDState, MBState, InputState, PMInputState, ExtendedPMState) and every state (any values,
    exact or interval, point or region position) that has a position iff the class has one and populates exactly the class's
    float attributes. -/
theorem C02_class_own (c : String × List String) (hc : c ∈ stateClasses) (hwr : writableClass c = true) (s : St)
    (hw : s.wf = true) (hp : s.pos.isSome = c.2.contains "position") (hk : s.attrs.map Prod.fst = ownKeys c) :
    matchClass (encState s) = some c.1 ∧ (decState (encState s)).cls = c.1 := by
  have h := matchClass_encState s hw
  rw [hp, hk, specClassK_own c hc hwr] at h
  exact ⟨h, by simp [decState, h]⟩

theorem C02_writable_classes : (stateClasses.filter writableClass).map (·.1) =
    ["InitialState", "PMState", "KSState", "STState", "STDState", "MBState", "InputState", "PMInputState",
     "ExtendedPMState"] := by decide

/-- the remaining three classes (KSTState: `hitch_angle`, LateralState: `lateral_position`, LongitudinalState:
    `longitudinal_position`) own an attribute message `State` has no field for: the writer raises AttributeError on it, such
    states cannot be written at all (outside the property: "information the format has a field for") -/
theorem C02_unwritable_attr (T : Tables) (k : String) (v : FloatEOI) (h : stateFields.contains k = false) :
    (encAttr (k, v)).2.check T = some .attr := by
  have hm : k ∉ stateFields := by simpa using h
  simp [encAttr, hm, PB.check]

theorem C02_unwritable_classes : (stateClasses.filter (fun c => !writableClass c)).map
    (fun c => (c.1, c.2.filter (fun a => !(a == "time_step" || a == "position" || stateFields.contains a)))) =
    [("KSTState", ["hitch_angle"]), ("LateralState", ["lateral_position"]),
     ("LongitudinalState", ["longitudinal_position"])] := by decide

/-- instances of `C02_class_own`, spelled out -/
theorem C02_class_KS (s : St) (hw : s.wf = true) (hp : s.pos.isSome = true)
    (hk : s.attrs.map Prod.fst = ["orientation", "velocity", "steering_angle"]) : (decState (encState s)).cls = "KSState" :=
  (C02_class_own ("KSState", ["time_step", "position", "steering_angle", "velocity", "orientation"]) (by decide) (by decide)
    s hw (by rw [hp]; decide) (by rw [hk]; decide)).2

theorem C02_class_PM (s : St) (hw : s.wf = true) (hp : s.pos.isSome = true)
    (hk : s.attrs.map Prod.fst = ["velocity", "velocity_y"]) : (decState (encState s)).cls = "PMState" :=
  (C02_class_own ("PMState", ["time_step", "position", "velocity", "velocity_y"]) (by decide) (by decide)
    s hw (by rw [hp]; decide) (by rw [hk]; decide)).2

theorem C02_class_ST (s : St) (hw : s.wf = true) (hp : s.pos.isSome = true)
    (hk : s.attrs.map Prod.fst = ["orientation", "velocity", "steering_angle", "yaw_rate", "slip_angle"]) :
    (decState (encState s)).cls = "STState" :=
  (C02_class_own ("STState", ["time_step", "position", "steering_angle", "velocity", "orientation", "slip_angle", "yaw_rate"])
    (by decide) (by decide) s hw (by rw [hp]; decide) (by rw [hk]; decide)).2

theorem C02_class_Input (s : St) (hw : s.wf = true) (hp : s.pos.isSome = false)
    (hk : s.attrs.map Prod.fst = ["steering_angle_speed", "acceleration"]) : (decState (encState s)).cls = "InputState" :=
  (C02_class_own ("InputState", ["time_step", "steering_angle_speed", "acceleration"]) (by decide) (by decide)
    s hw (by rw [hp]; decide) (by rw [hk]; decide)).2

/-! ## Canonical snapshots: `normPb` is the identity, and what the reader returns is canonical -/

theorem normSig0_of_canon (o : Option Sig) (h : sig0Canon o = true) : normSig0 o = o := by
  cases o with
  | none => rfl
  | some s => simp [sig0Canon] at h; simp [normSig0, h]

theorem normPred_of_canon (p : Pred) (h : p.canon = true) : normPred p = p := by
  cases p with
  | traj t0 states shape =>
    simp only [Pred.canon, List.all_eq_true] at h
    simp [normPred, map_id_of_mem normState states (fun s hs => normState_of_canon s (h s hs))]
  | set q => rfl

/-- **Identity.**  On a canonical snapshot of real objects (`typed`: the accessors returned no `None` for line markings,
    sign position / virtual, light offset / direction / active; `canon`: initial states carry exactly `InitialState`'s
    attributes, all populated, every other state carries the class its attributes denote, a present initial signal state has
    a slot) `normPb` changes NOTHING: header, location, lanelet network, every obstacle with shape, states, predictions,
    signal states, every planning problem are returned exactly, reals bit-identical, absent optional data absent. -/
theorem C02_normPb_id (x : Scn) (ht : x.typed = true) (hc : x.canon = true) : normPb x = x := by
  obtain ⟨_, _, _, hl, hs, hli, _, _, _⟩ := C02_normPb_frame x ht
  simp only [Scn.canon, Bool.and_eq_true, List.all_eq_true] at hc
  obtain ⟨⟨hst, hdy⟩, hpp⟩ := hc
  have h1 : x.static.map normStatic = x.static := map_id_of_mem _ _ (fun o ho => by
    have := hst o ho
    cases o with
    | mk id type shape init sig0 series =>
      simp only [normStatic, normInit_of_initFull init this.1, normSig0_of_canon sig0 this.2])
  have h2 : x.dynamic.map normDynamic = x.dynamic := map_id_of_mem _ _ (fun o ho => by
    have := hdy o ho
    cases o with
    | mk id type shape init pred sig0 series =>
      have hp : pred.map normPred = pred := by
        cases pred with
        | none => rfl
        | some p => simp [normPred_of_canon p this.2]
      simp only [normDynamic, normInit_of_initFull init this.1.1, normSig0_of_canon sig0 this.1.2, hp])
  have h3 : x.pps.map normPP = x.pps := map_id_of_mem _ _ (fun p hp => by
    have := hpp p hp
    cases p with
    | mk id init goals =>
      have hg : goals.map normGoal = goals := map_id_of_mem _ _ (fun g hg => by
        cases g with
        | mk state lanelets => simp only [normGoal, normState_of_canon state (this.2 _ hg)])
      simp only [normPP, normInit_of_initFull init this.1, hg])
  cases x with
  | mk info tags location lanelets signs lights intersections static dynamic env phantom pps =>
    simp only [normPb] at hl hs hli ⊢
    simp only [] at h1 h2 h3
    rw [hl, hs, hli, h1, h2, h3]

theorem canon_wf (x : Scn) (hc : x.canon = true) : x.wf = true := by
  simp only [Scn.canon, Bool.and_eq_true, List.all_eq_true] at hc
  obtain ⟨⟨hst, hdy⟩, hpp⟩ := hc
  have hi : ∀ s : St, s.initFull = true → s.wf = true := fun s h => by
    simp only [St.initFull, Bool.and_eq_true] at h; exact h.1.1.1
  have hcw : ∀ s : St, s.canon = true → s.wf = true := fun s h => by
    simp only [St.canon, Bool.and_eq_true] at h; exact h.1
  simp only [Scn.wf, Bool.and_eq_true, List.all_eq_true]
  refine ⟨⟨fun o ho => hi _ (hst o ho).1, fun o ho => ⟨hi _ (hdy o ho).1.1, ?_⟩⟩,
    fun p hp => ⟨hi _ (hpp p hp).1, fun g hg => hcw _ ((hpp p hp).2 g hg)⟩⟩
  have := (hdy o ho).2
  cases hp : o.pred with
  | none => rfl
  | some p =>
    rw [hp] at this
    cases p with
    | traj t0 states shape =>
      simp only [Pred.canon, List.all_eq_true] at this
      simp only [Pred.wf, List.all_eq_true]
      exact fun s hs => hcw s (this s hs)
    | set q => rfl

/-- **Write → read is the identity on canonical snapshots** (the literal "lossless"). -/
theorem C02_roundtrip_id (x : Scn) (ht : x.typed = true) (hc : x.canon = true) : decodePb (encScn x) = .ok x := by
  rw [C02_pb_roundtrip x (canon_wf x hc), C02_normPb_id x ht hc]

/-- **What the reader returns is always canonical** … -/
theorem C02_normPb_canon (x : Scn) (h : x.wf = true) : (normPb x).canon = true := by
  simp only [Scn.wf, Bool.and_eq_true, List.all_eq_true] at h
  obtain ⟨⟨hst, hdy⟩, hpp⟩ := h
  have hsig : ∀ o : Option Sig, sig0Canon (normSig0 o) = true := fun o => by
    cases o with
    | none => rfl
    | some s => by_cases hs : s.any = true <;> simp [normSig0, sig0Canon, hs]
  simp only [Scn.canon, normPb, Bool.and_eq_true, List.all_eq_true, List.mem_map, forall_exists_index, and_imp,
    forall_apply_eq_imp_iff₂]
  refine ⟨⟨fun o _ => ⟨normInit_initFull _, hsig _⟩, fun o ho => ⟨⟨normInit_initFull _, hsig _⟩, ?_⟩⟩,
    fun p hp => ⟨normInit_initFull _, ?_⟩⟩
  · have := (hdy o ho).2
    simp only [normDynamic]
    cases hp : o.pred with
    | none => rfl
    | some p =>
      rw [hp] at this
      cases p with
      | traj t0 states shape =>
        simp only [Pred.wf, List.all_eq_true] at this
        simp only [Option.map_some, normPred, Pred.canon, List.all_eq_true, List.mem_map, forall_exists_index, and_imp,
          forall_apply_eq_imp_iff₂]
        exact fun s hs => normState_canon s (this s hs)
      | set q => rfl
  · simp only [normPP, List.mem_map, forall_exists_index, and_imp, forall_apply_eq_imp_iff₂, normGoal]
    exact fun g hg => normState_canon g.state ((hpp p hp).2 g hg)

/-- … and has no `None` where the accessors never return one. -/
theorem C02_normPb_typed (x : Scn) : (normPb x).typed = true := by
  simp only [Scn.typed, normPb, Bool.and_eq_true, List.all_eq_true, List.mem_map, forall_exists_index, and_imp,
    forall_apply_eq_imp_iff₂]
  refine ⟨⟨fun l _ => by simp [normLanelet], fun s _ => ?_⟩, fun t _ => by simp [normLight]⟩
  simp only [normSign, Option.isSome_some, Bool.true_and, List.all_eq_true, List.mem_map, forall_exists_index, and_imp,
    forall_apply_eq_imp_iff₂, normSignEl, true_and]
  exact fun e _ => signEnumOfField_mem _

/-- **Write → read → write → read returns exactly what the first read returned** (the reader's output is a fixed point),
    for every admissible snapshot — no `typed` / `canon` hypothesis. -/
theorem C02_reread_id (x : Scn) (h : x.wf = true) : decodePb (encScn (normPb x)) = .ok (normPb x) :=
  C02_roundtrip_id _ (C02_normPb_typed x) (C02_normPb_canon x h)

/-! ## Element-kind round trips (the bricks of `C02_pb_roundtrip`, stated for the optional data the property names) -/

/-- shapes, shape groups nested to any depth -/
theorem C02_shape_roundtrip (s : Shape) : decShape (encShape s) = s := decShape_encShape s

/-- interval- and region-valued state attributes: a state reads back with the same time step, position and attributes -/
theorem C02_state_roundtrip (s : St) (h : s.wf = true) :
    (decState (encState s)).t = s.t ∧ (decState (encState s)).pos = s.pos ∧ (decState (encState s)).attrs = s.attrs := by
  rw [decState_encState s h]; exact C02_normState_content s

theorem C02_init_state_roundtrip (s : St) (h : s.wf = true) : decInitState (encState s) = normInit s :=
  decInitState_encState s h

/-- signal states incl. horn: every set slot survives, every unset slot stays unset -/
theorem C02_signal_roundtrip (s : Sig) (h : s.any = true) : decSig (encSig s) = some s := by
  simp [decSig_encSig, h]

/-- an entry of a signal series comes back exactly, whatever slots it has (no side condition) -/
theorem C02_signal_series_roundtrip (l : List Sig) : (l.map encSig).map decSigD = l := map_decSigD_encSig l

/-- traffic-sign virtual flag and first occurrences -/
theorem C02_sign_roundtrip (s : Sign) : decSign (encSign s) = normSign s := decSign_enc s

theorem C02_sign_first_virtual (s : Sign) (v : Bool) (h : s.virtual = some v) :
    (decSign (encSign s)).first = s.first ∧ (decSign (encSign s)).virtual = some v := by
  rw [decSign_enc]; simp [normSign, h]

/-- traffic-light offset / direction / active -/
theorem C02_light_roundtrip (t : Light) : decLight (encLight t) = normLight t := decLight_enc t

theorem C02_light_optional (t : Light) (o : Int) (d : String) (a : Bool) (ho : t.offset = some o)
    (hd : t.direction = some d) (ha : t.active = some a) :
    (decLight (encLight t)).offset = some o ∧ (decLight (encLight t)).direction = some d ∧
    (decLight (encLight t)).active = some a ∧ (decLight (encLight t)).cycle = t.cycle := by
  rw [decLight_enc]; simp [normLight, ho, hd, ha]

theorem C02_lanelet_roundtrip (l : Lanelet) : decLanelet (encLanelet l) = .ok (normLanelet l) := decLanelet_enc l

/-- location: environment (time with day / month / year, time of day, weather, underground) and geo transformation -/
theorem C02_location_roundtrip (l : Loc) : decLoc (encLoc l) = l := decLoc_enc l

/-- environment time, member by member: day, month and year travel INDEPENDENTLY of each other — each one that is given
    comes back with its value and each one that is absent stays absent whatever the other two are (all 8 subsets of
    {day, month, year}: a date without a year keeps day and month, a year without day / month does not get them) -/
theorem C02_time_date_members (t : Tm) :
    (decTm (encTm t)).day = t.day ∧ (decTm (encTm t)).month = t.month ∧ (decTm (encTm t)).year = t.year ∧
    (decTm (encTm t)).h = t.h ∧ (decTm (encTm t)).m = t.m := by
  rw [decTm_enc]; exact ⟨rfl, rfl, rfl, rfl, rfl⟩

/-- **Witness: deciding on the year alone is lossy.**  A reader that takes the date only when `year` is set — and then
    fills an unset day / month with 1 — is not a left inverse of the writer: it drops day and month of a date without a
    year and invents them for a year without day / month. -/
theorem C02_witness_date_by_year_alone :
    let dec (m : PB) : Tm :=
      if m.has "year" then
        ⟨(m.get "hour").int, (m.get "minute").int, some (if m.has "day" then (m.get "day").int else 1),
         some (if m.has "month" then (m.get "month").int else 1), (m.get "year").optInt⟩
      else ⟨(m.get "hour").int, (m.get "minute").int, none, none, none⟩
    (∃ t : Tm, t.year = none ∧ (dec (encTm t)).day ≠ t.day ∧ (dec (encTm t)).month ≠ t.month) ∧
    (∃ t : Tm, t.day = none ∧ t.month = none ∧ (dec (encTm t)).day = some 1 ∧ (dec (encTm t)).month = some 1) :=
  ⟨⟨⟨14, 30, some 24, some 12, none⟩, by decide⟩, ⟨⟨8, 0, none, none, some 2021⟩, by decide⟩⟩

example : decTm (encTm ⟨14, 30, some 24, some 12, none⟩) = ⟨14, 30, some 24, some 12, none⟩ := by decide
example : decTm (encTm ⟨8, 0, none, none, some 2021⟩) = ⟨8, 0, none, none, some 2021⟩ := by decide
example : decTm (encTm ⟨6, 5, none, some 7, none⟩) = ⟨6, 5, none, some 7, none⟩ := by decide

/-! ## Enum transport is by member NAME -/

/-- (definitional: documents the model, carries no proof content.)  The writer stores `pb.Enum.Value(member.name)`, i.e.
    the NAME; the reader looks the NAME up again.  That the CODE transports by name is checked by the correspondence (the
    written message tree carries names; Python and .proto number the members differently, e.g. TrafficLightState). -/
theorem C02_enum_by_name (ty name : String) : (PB.enum ty name).enumD = name := rfl

/-- a member the .proto enum lacks makes the writer raise `ValueError` (so such scenarios are outside the property) -/
theorem C02_enum_missing (T : Tables) (ty name : String) (h : enumOk T ty name = false) :
    (PB.enum ty name).check T = some .value := by
  simp [PB.check, h]

theorem C02_u32_range (T : Tables) (i : Int) : (PB.u32 i).check T = none ↔ (0 ≤ i ∧ i < 4294967296) := by
  simp only [PB.check]
  split <;> simp_all

/-! ## State-class matching of the reader -/

/-- what a class match means: the matched class has exactly as many attributes as the message has used fields and the
    reader fills every one of them from the message — no attribute of the class is left unset, no field is dropped -/
theorem C02_matchClass_sound (m : PB) (c : String) (hm : matchClass m = some c) :
    ∃ attrs, (c, attrs) ∈ stateClasses ∧ attrs.length = (usedFields m).length ∧ ∀ a ∈ attrs, fillsAttr m a = true := by
  simp only [matchClass, Option.map_eq_some_iff] at hm
  obtain ⟨⟨c', attrs'⟩, hfind, rfl⟩ := hm
  have hmem := List.mem_of_find?_eq_some hfind
  have hpred := List.find?_some hfind
  simp only [Bool.and_eq_true, List.all_eq_true, beq_iff_eq] at hpred
  exact ⟨attrs', hmem, hpred.1, hpred.2⟩

/-- After the repair: a written state WITHOUT position is never matched to a state class that has a position attribute
    (before, `PMState` / `KSState` / … matched by attribute count alone and silently dropped one attribute). -/
theorem C02_matchClass_position (m : PB) (c : String) (hp : m.has "point" = false) (hs : m.has "shape" = false)
    (hm : matchClass m = some c) : ∃ attrs, (c, attrs) ∈ stateClasses ∧ "position" ∉ attrs := by
  obtain ⟨attrs, hmem, _, hall⟩ := C02_matchClass_sound m c hm
  refine ⟨attrs, hmem, ?_⟩
  intro hpos
  have := hall "position" hpos
  simp [fillsAttr, hp, hs] at this

/-- the reader's stop-line branch: fewer than two points raise IndexError (the writer always writes two) -/
theorem C02_stop_line_index (m : PB) (h : (m.get "points").items.length < 2) : decStop m = .error .index := by
  unfold decStop
  match hh : (m.get "points").items with
  | [] => rfl
  | [_] => rfl
  | _ :: _ :: _ => rw [hh] at h; simp only [List.length_cons] at h; omega

/-! ## Non-vacuity -/

def exState : St :=
  { cls := "KSState", t := .exact 3, pos := some (.shape (.group [.circ ⟨"0x1.8p+1"⟩ ⟨⟨"0x0.0p+0"⟩, ⟨"-0x0.0p+0"⟩⟩, .group []])),
    attrs := [("orientation", .interval ⟨"-0x1.0p-1"⟩ ⟨"0x1.0p-1"⟩), ("velocity", .exact ⟨"0x1.4p+3"⟩),
              ("steering_angle", .exact ⟨"0x0.0000000000001p-1022"⟩)] }

def exState1 : St := { exState with t := .exact 1 }
def exState2 : St := { exState with t := .exact 2 }

def exInit : St :=
  { cls := "InitialState", t := .exact 0, pos := some (.point ⟨⟨"0x1.0p+0"⟩, ⟨"0x1.0p+1"⟩⟩),
    attrs := [("orientation", .exact ⟨"0x0.0p+0"⟩), ("velocity", .exact ⟨"0x1.0p+2"⟩), ("yaw_rate", .exact ⟨"0x1.0p-2"⟩)] }

def exGoal : St :=
  { cls := "CustomState", t := .interval 10 20, pos := none, attrs := [("velocity", .interval ⟨"0x0.0p+0"⟩ ⟨"0x1.0p+3"⟩)] }

def exNoPos : St :=
  { cls := "CustomState", t := .exact 1, pos := none,
    attrs := [("orientation", .exact ⟨"0x1.0p-1"⟩), ("velocity", .exact ⟨"0x1.0p+0"⟩), ("velocity_y", .exact ⟨"0x1.0p+1"⟩)] }

def exScn : Scn :=
  { info := ⟨"2020a", "ZAM_Test-1_1_T-1", "a", "b", "c", ⟨"0x1.999999999999ap-4"⟩⟩, tags := ["URBAN"],
    location := ⟨-999, ⟨"0x1.f38p+9"⟩, ⟨"0x1.f38p+9"⟩, none, some ⟨some ⟨12, 30, some 1, some 5, some 2028⟩, none, some "FOG", none⟩⟩,
    lanelets := [{ id := 1, left := [⟨⟨"0x0.0p+0"⟩, ⟨"0x1.0p+0"⟩⟩, ⟨⟨"0x1.0p+0"⟩, ⟨"0x1.0p+0"⟩⟩],
                   right := [⟨⟨"0x0.0p+0"⟩, ⟨"0x0.0p+0"⟩⟩, ⟨⟨"0x1.0p+0"⟩, ⟨"0x0.0p+0"⟩⟩], lm_left := some "DASHED",
                   lm_right := some "NO_MARKING", pred := [], succ := [2], adj_left := none, adj_left_same := none,
                   adj_right := some 2, adj_right_same := some false,
                   stop := some ⟨⟨⟨"0x0.0p+0"⟩, ⟨"0x0.0p+0"⟩⟩, ⟨⟨"0x0.0p+0"⟩, ⟨"0x1.0p+0"⟩⟩, "SOLID", [5], []⟩,
                   types := ["URBAN"], one_way := ["CAR"], bidir := [], signs := [5], lights := [6] }],
    signs := [⟨5, [⟨"TrafficSignIDGermany", "MAX_SPEED", ["50"]⟩], [1], some ⟨⟨"0x1.0p+0"⟩, ⟨"0x1.0p+0"⟩⟩, some true⟩],
    lights := [⟨6, [⟨"RED", 10⟩, ⟨"GREEN", 20⟩], some ⟨⟨"0x1.0p+0"⟩, ⟨"0x1.0p+1"⟩⟩, some 7, some "LEFT", some false⟩],
    intersections := [⟨7, [⟨8, [1], [], [2], [], none⟩], []⟩],
    static := [⟨9, "PARKED_VEHICLE", .rect ⟨"0x1.0p+2"⟩ ⟨"0x1.0p+1"⟩ ⟨⟨"0x0.0p+0"⟩, ⟨"0x0.0p+0"⟩⟩ ⟨"0x0.0p+0"⟩, exInit, none, []⟩],
    dynamic := [⟨10, "CAR", .circ ⟨"0x1.0p+0"⟩ ⟨⟨"0x0.0p+0"⟩, ⟨"0x0.0p+0"⟩⟩, exInit,
                 some (.traj 1 [exState1, exState2] (.poly [])),
                 some ⟨some (.exact 0), some true, none, none, some false, none, none⟩,
                 [⟨some (.interval 1 4), none, some true, none, none, none, none⟩]⟩],
    env := [⟨11, "BUILDING", .poly [⟨⟨"0x0.0p+0"⟩, ⟨"0x0.0p+0"⟩⟩]⟩], phantom := [⟨12, some ⟨3, [⟨.interval 3 5, .group []⟩]⟩⟩, ⟨13, none⟩],
    pps := [⟨14, exInit, [⟨exGoal, [1]⟩]⟩] }

/-- a fully populated initial state (interval-valued orientation, region position) -/
def exInitFull : St :=
  { cls := "InitialState", t := .exact 0, pos := some (.shape (.circ ⟨"0x1.0p+0"⟩ ⟨⟨"0x1.0p+0"⟩, ⟨"0x1.0p+1"⟩⟩)),
    attrs := [("orientation", .interval ⟨"-0x1.0p-2"⟩ ⟨"0x1.0p-2"⟩), ("velocity", .exact ⟨"0x1.0p+2"⟩),
              ("yaw_rate", .exact ⟨"0x1.0p-2"⟩), ("slip_angle", .exact ⟨"-0x0.0p+0"⟩), ("acceleration", .exact ⟨"0x0.0p+0"⟩)] }

/-- a canonical, non-trivial snapshot: the example scenario with fully populated initial states; its trajectory states are
    KS states (interval orientation, subnormal steering angle, nested shape group as position), its goal state a custom
    state without position, signal states with unset slots, optional lanelet / light / sign data present and absent -/
def exScnC : Scn :=
  { exScn with
    static := [⟨9, "PARKED_VEHICLE", .rect ⟨"0x1.0p+2"⟩ ⟨"0x1.0p+1"⟩ ⟨⟨"0x0.0p+0"⟩, ⟨"0x0.0p+0"⟩⟩ ⟨"0x0.0p+0"⟩, exInitFull, none, []⟩],
    dynamic := [⟨10, "CAR", .circ ⟨"0x1.0p+0"⟩ ⟨⟨"0x0.0p+0"⟩, ⟨"0x0.0p+0"⟩⟩, exInitFull,
                 some (.traj 1 [exState1, exState2] (.poly [])),
                 some ⟨some (.exact 0), some true, none, none, some false, none, none⟩,
                 [⟨some (.interval 1 4), none, some true, none, none, none, none⟩, emptySig]⟩],
    pps := [⟨14, exInitFull, [⟨exGoal, [1]⟩]⟩] }

example : exScnC.typed = true := by decide
example : exScnC.canon = true := by decide
/-- the hypotheses of `C02_roundtrip_id` are satisfiable by a non-trivial snapshot: it is returned EXACTLY -/
example : decodePb (encScn exScnC) = .ok exScnC := C02_roundtrip_id exScnC (by decide) (by decide)
/-- `exScn` itself is not canonical (its initial states leave two attributes unset): the identity does not apply, and
    indeed the read-back differs (acceleration, slip angle = 0) -/
example : exScn.canon = false := by decide
example : exInit.initOk = true ∧ exInit.wf = true := by decide
example : exInitExtra.initOk = false ∧ exInitExtra.wf = true := by decide
/-- instances of `C02_class_own`: the trajectory states of the example are KS states and read back as such -/
example : (decState (encState exState1)).cls = "KSState" := C02_class_KS exState1 (by decide) rfl (by decide)
example : ∀ c ∈ stateClasses, writableClass c = true → c.1 ∈ ["InitialState", "PMState", "KSState", "STState", "STDState",
    "MBState", "InputState", "PMInputState", "ExtendedPMState"] := by decide

example : exState.wf = true := by decide
example : exScn.wf = true := by decide
example : exScn.typed = true := by decide
def exTables : Tables :=
  [("Tag", ["URBAN"]), ("Weather", ["SUNNY", "LIGHT_RAIN", "HEAVY_AIN", "FOG"]), ("LineMarking", ["DASHED", "SOLID", "NO_MARKING"]),
   ("DrivingDir", ["SAME", "OPPOSITE"]), ("LaneletType", ["URBAN"]), ("RoadUser", ["CAR"]),
   ("TrafficSignIDGermany", ["MAX_SPEED"]), ("TrafficLightState", ["RED", "GREEN"]), ("TrafficLightDirection", ["LEFT"]),
   ("ObstacleType", ["CAR", "PARKED_VEHICLE", "BUILDING"])]

/-- the hypotheses of `C02_write_read` are satisfiable: with the relevant .proto tables the example is written -/
example : (encScn exScn).check exTables = none := by decide
example : encodePb exTables exScn = .ok (encScn exScn) := (C02_encode_ok_iff _ _ _).mpr ⟨by decide, rfl⟩
/-- … and an enum member the .proto lacks (Weather.HEAVY_RAIN vs `HEAVY_AIN`) makes the writer raise -/
def exScnRain : Scn := { exScn with location := ⟨1, ⟨"0x0.0p+0"⟩, ⟨"0x0.0p+0"⟩, none, some ⟨none, none, some "HEAVY_RAIN", none⟩⟩ }
example : (encScn exScnRain).check exTables = some .value := by decide
/-- the initial state of the example has `yaw_rate` set while `acceleration` is unset: it survives (the pinned tree lost it) -/
example : (normInit exInit).attrs.lookup "yaw_rate" = some (.exact ⟨"0x1.0p-2"⟩) := by decide
example : (normInit exInit).attrs.lookup "acceleration" = some (.exact Dbl.zero) := by decide
/-- a state without position whose attributes are those of PMState plus one is a custom state, nothing dropped -/
example : (decState (encState exNoPos)).cls = "CustomState" := by decide

end CR.PBF
