/-
  C02 — protobuf write → read is lossless.

  Model: CRModel.CRProto (`CR.PBF`): message trees with HasField semantics, the writer's `XxxMessage.create_message`
  builders (`enc…`), the reader's `XxxFactory.create_from_message` (`dec…`), for the WHOLE `CommonRoad` message: header,
  tags, location (geo transformation, environment, time), lanelets (bounds, stop line), traffic signs, traffic lights,
  intersections, static / dynamic / environment / phantom obstacles (shapes incl. nested shape groups, states with exact /
  interval / region values, trajectory and set-based predictions, signal states) and planning problems.  No element kind
  is left out, so there is no `_partial` theorem.

  All theorems hold for ALL snapshots (lists of any length, shape groups of any depth); no size bound.
-/
import CRProofs.CRProto

namespace CR.PBF
open PB

theorem map_dec_enc_mem {α β γ : Type} (f : α → β) (g : β → γ) (n : α → γ) (l : List α)
    (h : ∀ a ∈ l, g (f a) = n a) : (l.map f).map g = l.map n := by
  rw [List.map_map]
  exact List.map_congr_left h

/-! ## The round trip -/

/-- **pb_roundtrip.**  Reading what the writer wrote returns the original content: `decodePb (encScn x) = normPb x` for
    every admissible snapshot `x` — `normPb` changes nothing but (a) the unset attributes of INITIAL states (→ 0, the
    reader's documented default), (b) the informative class name of a state, (c) a signal-state object without any slot
    (→ none); see `C02_normPb_frame`, `C02_normInit_*`, `C02_normState_content`. -/
theorem C02_pb_roundtrip (x : Scn) (h : x.wf = true) : decodePb (encScn x) = .ok (normPb x) := by
  simp only [Scn.wf, Bool.and_eq_true, List.all_eq_true] at h
  obtain ⟨⟨hst, hdy⟩, hpp⟩ := h
  have h1 := mapRes_ok encLanelet decLanelet normLanelet decLanelet_enc x.lanelets
  have h2 := map_map_norm encSign decSign normSign decSign_enc x.signs
  have h3 := map_map_norm encLight decLight normLight decLight_enc x.lights
  have h4 := map_map_id encInter decInter decInter_enc x.intersections
  have h5 := map_dec_enc_mem encStatic decStatic normStatic x.static
    (fun o ho => decStatic_enc o (hst o ho).1 (List.all_eq_true.mpr (hst o ho).2))
  have h6 := map_dec_enc_mem encDynamic decDynamic normDynamic x.dynamic
    (fun o ho => decDynamic_enc o (hdy o ho).1.1 (List.all_eq_true.mpr (hdy o ho).1.2) (hdy o ho).2)
  have h7 := map_map_id encEnvObs decEnvObs decEnvObs_enc x.env
  have h8 := map_map_id encPhantom decPhantom decPhantom_enc x.phantom
  have h9 := map_dec_enc_mem encPP decPP normPP x.pps
    (fun p hp => decPP_enc p (hpp p hp).1 (List.all_eq_true.mpr (hpp p hp).2))
  cases x with
  | mk info tags location lanelets signs lights intersections static dynamic env phantom pps =>
    simp only [] at h1 h2 h3 h4 h5 h6 h7 h8 h9
    simp [decodePb, encScn, normPb, PB.get, List.lookup, h1, h2, h3, h4, h5, h6, h7, h8, h9, bind, Except.bind, pure,
      Except.pure]

/-- `CommonRoadFileWriter.write_to_file` succeeds exactly when no integer is outside its protobuf range, every enum
    member exists in the .proto enum and every state attribute has a field; it then writes `encScn x`. -/
theorem C02_encode_ok_iff (T : Tables) (x : Scn) (m : PB) :
    encodePb T x = .ok m ↔ (encScn x).check T = none ∧ m = encScn x := by
  unfold encodePb
  cases h : (encScn x).check T with
  | none => simp [eq_comm]
  | some e => simp

/-- **write → read.**  Whenever the writer succeeds (in particular: every enum member is one the shipped .proto has), the
    reader returns the original content. -/
theorem C02_write_read (T : Tables) (x : Scn) (m : PB) (hw : encodePb T x = .ok m) (h : x.wf = true) :
    decodePb m = .ok (normPb x) := by
  rw [((C02_encode_ok_iff T x m).mp hw).2]
  exact C02_pb_roundtrip x h

/-! ## `normPb` is the identity on content -/

theorem normLanelet_of_typed (l : Lanelet) (h : (l.lm_left.isSome && l.lm_right.isSome) = true) : normLanelet l = l := by
  cases l with
  | mk id left right lml lmr pred succ al als ar ars stop types ow bd signs lights =>
    cases lml <;> cases lmr <;> simp_all [normLanelet]

theorem normSignEl_of_typed (e : SignEl) (h : signCountries.contains e.country = true) : normSignEl e = e := by
  cases e with
  | mk country name values =>
    simp only [signCountries, List.contains_eq_mem, List.mem_cons, List.not_mem_nil, or_false,
      decide_eq_true_eq] at h
    rcases h with rfl | rfl | rfl | rfl | rfl | rfl | rfl | rfl | rfl | rfl | rfl | rfl | rfl <;> rfl

theorem normSign_of_typed (s : Sign)
    (h : (s.pos.isSome && s.virtual.isSome && s.elements.all (fun e => signCountries.contains e.country)) = true) :
    normSign s = s := by
  cases s with
  | mk id elements first pos virtual =>
    simp only [Bool.and_eq_true, List.all_eq_true] at h
    have he : elements.map normSignEl = elements := by
      conv => rhs; rw [← List.map_id elements]
      exact List.map_congr_left (fun e he => normSignEl_of_typed e (h.2 e he))
    cases pos <;> cases virtual <;> simp_all [normSign]

theorem normLight_of_typed (t : Light)
    (h : (t.pos.isSome && t.offset.isSome && t.direction.isSome && t.active.isSome) = true) : normLight t = t := by
  cases t with
  | mk id cycle pos offset direction active =>
    cases pos <;> cases offset <;> cases direction <;> cases active <;> simp_all [normLight]

/-- On the snapshot of real objects the read-back header, tags, location, lanelets (boundary polylines, line markings,
    relations, stop lines, sign / light references), traffic signs (virtual flag, first occurrences, positions), traffic
    lights (cycle, offset, direction, active), intersections, environment and phantom obstacles are EXACTLY the written
    ones — reals bit-identical (a `Dbl` is the bit pattern), absent optional data absent (`none` stays `none`). -/
theorem C02_normPb_frame (x : Scn) (h : x.typed = true) :
    (normPb x).info = x.info ∧ (normPb x).tags = x.tags ∧ (normPb x).location = x.location ∧
    (normPb x).lanelets = x.lanelets ∧ (normPb x).signs = x.signs ∧ (normPb x).lights = x.lights ∧
    (normPb x).intersections = x.intersections ∧ (normPb x).env = x.env ∧ (normPb x).phantom = x.phantom := by
  simp only [Scn.typed, Bool.and_eq_true, List.all_eq_true] at h
  obtain ⟨⟨hl, hs⟩, ht⟩ := h
  refine ⟨rfl, rfl, rfl, ?_, ?_, ?_, rfl, rfl, rfl⟩
  · show x.lanelets.map normLanelet = x.lanelets
    conv => rhs; rw [← List.map_id x.lanelets]
    exact List.map_congr_left (fun l hl' => normLanelet_of_typed l (by simpa using hl l hl'))
  · show x.signs.map normSign = x.signs
    conv => rhs; rw [← List.map_id x.signs]
    exact List.map_congr_left (fun s hs' => normSign_of_typed s (by
      have := hs s hs'
      simp only [Bool.and_eq_true, List.all_eq_true]
      exact this))
  · show x.lights.map normLight = x.lights
    conv => rhs; rw [← List.map_id x.lights]
    exact List.map_congr_left (fun t ht' => normLight_of_typed t (by
      have := ht t ht'
      simp only [Bool.and_eq_true]
      exact this))

/-- obstacles and planning problems keep id, type, shape, prediction kind and length, signal series; only the initial
    state is completed with defaults and state classes are re-derived -/
theorem C02_normPb_obstacles (x : Scn) :
    (normPb x).static.map (fun o => (o.id, o.type, o.series)) = x.static.map (fun o => (o.id, o.type, o.series)) ∧
    (normPb x).dynamic.map (fun o => (o.id, o.type, o.series)) = x.dynamic.map (fun o => (o.id, o.type, o.series)) ∧
    (normPb x).pps.map (fun p => (p.id, p.goals.map (·.lanelets))) = x.pps.map (fun p => (p.id, p.goals.map (·.lanelets))) := by
  refine ⟨?_, ?_, ?_⟩
  · simp [normPb, List.map_map, Function.comp_def, normStatic]
  · simp [normPb, List.map_map, Function.comp_def, normDynamic]
  · simp [normPb, List.map_map, Function.comp_def, normPP, normGoal]

/-- a state that is not an initial state: time step (exact or interval), position (point or region) and every populated
    attribute (exact or interval, bit-identical) are unchanged; nothing is added, nothing dropped, order kept -/
theorem C02_normState_content (s : St) :
    (normState s).t = s.t ∧ (normState s).pos = s.pos ∧ (normState s).attrs = s.attrs := ⟨rfl, rfl, rfl⟩

/-- a trajectory keeps its states in time order, none dropped or duplicated -/
theorem C02_normPred_traj (t0 : Int) (states : List St) (shape : Shape) :
    ∃ states', normPred (.traj t0 states shape) = .traj t0 states' shape ∧ states'.length = states.length ∧
      states'.map (fun s => (s.t, s.attrs)) = states.map (fun s => (s.t, s.attrs)) :=
  ⟨states.map normState, rfl, by simp, by simp [List.map_map, Function.comp_def, normState]⟩

/-- an attribute an initial state populates is read back bit-identically (whatever other attributes are unset) -/
theorem C02_normInit_set (s : St) (n : String) (v : FloatEOI) (hn : n ∈ initFields) (hv : s.attrs.lookup n = some v) :
    (normInit s).attrs.lookup n = some v := by
  simp only [initFields, List.mem_cons, List.not_mem_nil, or_false] at hn
  rcases hn with rfl | rfl | rfl | rfl | rfl <;> simp [normInit, initFields, List.lookup, hv]

/-- an attribute an initial state leaves unset reads back as 0 — C01's documented exception -/
theorem C02_normInit_unset (s : St) (n : String) (hn : n ∈ initFields) (hv : s.attrs.lookup n = none) :
    (normInit s).attrs.lookup n = some (.exact Dbl.zero) := by
  simp only [initFields, List.mem_cons, List.not_mem_nil, or_false] at hn
  rcases hn with rfl | rfl | rfl | rfl | rfl <;> simp [normInit, initFields, List.lookup, hv]

theorem C02_normInit_time_pos (s : St) :
    (normInit s).t = s.t ∧ (∀ p, s.pos = some p → (normInit s).pos = some p) := by
  refine ⟨rfl, ?_⟩
  intro p hp; simp [normInit, hp]

/-! ## Element-kind round trips (the bricks of `C02_pb_roundtrip`, stated for the optional data the property names) -/

/-- shapes, shape groups nested to any depth -/
theorem C02_shape_roundtrip (s : Shape) : decShape (encShape s) = s := decShape_encShape s

/-- interval- and region-valued state attributes: a state reads back with the same time step, position and attributes -/
theorem C02_state_roundtrip (s : St) (h : s.wf = true) :
    (decState (encState s)).t = s.t ∧ (decState (encState s)).pos = s.pos ∧ (decState (encState s)).attrs = s.attrs := by
  rw [decState_encState s h]; exact C02_normState_content s

theorem C02_init_state_roundtrip (s : St) (h : s.wf = true) : decInitState (encState s) = normInit s :=
  decInitState_encState s h

/-- signal states incl. horn: every set slot survives, every unset slot stays unset -/
theorem C02_signal_roundtrip (s : Sig) (h : s.any = true) : decSig (encSig s) = some s := by
  simp [decSig_encSig, h]

/-- traffic-sign virtual flag and first occurrences -/
theorem C02_sign_roundtrip (s : Sign) : decSign (encSign s) = normSign s := decSign_enc s

theorem C02_sign_first_virtual (s : Sign) (v : Bool) (h : s.virtual = some v) :
    (decSign (encSign s)).first = s.first ∧ (decSign (encSign s)).virtual = some v := by
  rw [decSign_enc]; simp [normSign, h]

/-- traffic-light offset / direction / active -/
theorem C02_light_roundtrip (t : Light) : decLight (encLight t) = normLight t := decLight_enc t

theorem C02_light_optional (t : Light) (o : Int) (d : String) (a : Bool) (ho : t.offset = some o)
    (hd : t.direction = some d) (ha : t.active = some a) :
    (decLight (encLight t)).offset = some o ∧ (decLight (encLight t)).direction = some d ∧
    (decLight (encLight t)).active = some a ∧ (decLight (encLight t)).cycle = t.cycle := by
  rw [decLight_enc]; simp [normLight, ho, hd, ha]

theorem C02_lanelet_roundtrip (l : Lanelet) : decLanelet (encLanelet l) = .ok (normLanelet l) := decLanelet_enc l

/-- location: environment (time with day / month / year, time of day, weather, underground) and geo transformation -/
theorem C02_location_roundtrip (l : Loc) : decLoc (encLoc l) = l := decLoc_enc l

/-! ## Enum transport is by member NAME -/

/-- the writer stores `pb.Enum.Value(member.name)`, i.e. the NAME; the reader looks the NAME up again -/
theorem C02_enum_by_name (ty name : String) : (PB.enum ty name).enumD = name := rfl

/-- a member the .proto enum lacks makes the writer raise `ValueError` (so such scenarios are outside the property) -/
theorem C02_enum_missing (T : Tables) (ty name : String) (h : enumOk T ty name = false) :
    (PB.enum ty name).check T = some .value := by
  simp [PB.check, h]

theorem C02_u32_range (T : Tables) (i : Int) : (PB.u32 i).check T = none ↔ (0 ≤ i ∧ i < 4294967296) := by
  simp only [PB.check]
  split <;> simp_all

/-! ## State-class matching of the reader -/

/-- what a class match means: the matched class has exactly as many attributes as the message has used fields and the
    reader fills every one of them from the message — no attribute of the class is left unset, no field is dropped -/
theorem C02_matchClass_sound (m : PB) (c : String) (hm : matchClass m = some c) :
    ∃ attrs, (c, attrs) ∈ stateClasses ∧ attrs.length = (usedFields m).length ∧ ∀ a ∈ attrs, fillsAttr m a = true := by
  simp only [matchClass, Option.map_eq_some_iff] at hm
  obtain ⟨⟨c', attrs'⟩, hfind, rfl⟩ := hm
  have hmem := List.mem_of_find?_eq_some hfind
  have hpred := List.find?_some hfind
  simp only [Bool.and_eq_true, List.all_eq_true, beq_iff_eq] at hpred
  exact ⟨attrs', hmem, hpred.1, hpred.2⟩

/-- After the repair: a written state WITHOUT position is never matched to a state class that has a position attribute
    (before, `PMState` / `KSState` / … matched by attribute count alone and silently dropped one attribute). -/
theorem C02_matchClass_position (m : PB) (c : String) (hp : m.has "point" = false) (hs : m.has "shape" = false)
    (hm : matchClass m = some c) : ∃ attrs, (c, attrs) ∈ stateClasses ∧ "position" ∉ attrs := by
  obtain ⟨attrs, hmem, _, hall⟩ := C02_matchClass_sound m c hm
  refine ⟨attrs, hmem, ?_⟩
  intro hpos
  have := hall "position" hpos
  simp [fillsAttr, hp, hs] at this

/-- the reader's stop-line branch: fewer than two points raise IndexError (the writer always writes two) -/
theorem C02_stop_line_index (m : PB) (h : (m.get "points").items.length < 2) : decStop m = .error .index := by
  unfold decStop
  match hh : (m.get "points").items with
  | [] => rfl
  | [_] => rfl
  | _ :: _ :: _ => rw [hh] at h; simp only [List.length_cons] at h; omega

/-! ## Non-vacuity -/

def exState : St :=
  { cls := "KSState", t := .exact 3, pos := some (.shape (.group [.circ ⟨"0x1.8p+1"⟩ ⟨⟨"0x0.0p+0"⟩, ⟨"-0x0.0p+0"⟩⟩, .group []])),
    attrs := [("orientation", .interval ⟨"-0x1.0p-1"⟩ ⟨"0x1.0p-1"⟩), ("velocity", .exact ⟨"0x1.4p+3"⟩),
              ("steering_angle", .exact ⟨"0x0.0000000000001p-1022"⟩)] }

def exState1 : St := { exState with t := .exact 1 }
def exState2 : St := { exState with t := .exact 2 }

def exInit : St :=
  { cls := "InitialState", t := .exact 0, pos := some (.point ⟨⟨"0x1.0p+0"⟩, ⟨"0x1.0p+1"⟩⟩),
    attrs := [("orientation", .exact ⟨"0x0.0p+0"⟩), ("velocity", .exact ⟨"0x1.0p+2"⟩), ("yaw_rate", .exact ⟨"0x1.0p-2"⟩)] }

def exGoal : St :=
  { cls := "CustomState", t := .interval 10 20, pos := none, attrs := [("velocity", .interval ⟨"0x0.0p+0"⟩ ⟨"0x1.0p+3"⟩)] }

def exNoPos : St :=
  { cls := "CustomState", t := .exact 1, pos := none,
    attrs := [("orientation", .exact ⟨"0x1.0p-1"⟩), ("velocity", .exact ⟨"0x1.0p+0"⟩), ("velocity_y", .exact ⟨"0x1.0p+1"⟩)] }

def exScn : Scn :=
  { info := ⟨"2020a", "ZAM_Test-1_1_T-1", "a", "b", "c", ⟨"0x1.999999999999ap-4"⟩⟩, tags := ["URBAN"],
    location := ⟨-999, ⟨"0x1.f38p+9"⟩, ⟨"0x1.f38p+9"⟩, none, some ⟨some ⟨12, 30, some 1, some 5, some 2028⟩, none, some "FOG", none⟩⟩,
    lanelets := [{ id := 1, left := [⟨⟨"0x0.0p+0"⟩, ⟨"0x1.0p+0"⟩⟩, ⟨⟨"0x1.0p+0"⟩, ⟨"0x1.0p+0"⟩⟩],
                   right := [⟨⟨"0x0.0p+0"⟩, ⟨"0x0.0p+0"⟩⟩, ⟨⟨"0x1.0p+0"⟩, ⟨"0x0.0p+0"⟩⟩], lm_left := some "DASHED",
                   lm_right := some "NO_MARKING", pred := [], succ := [2], adj_left := none, adj_left_same := none,
                   adj_right := some 2, adj_right_same := some false,
                   stop := some ⟨⟨⟨"0x0.0p+0"⟩, ⟨"0x0.0p+0"⟩⟩, ⟨⟨"0x0.0p+0"⟩, ⟨"0x1.0p+0"⟩⟩, "SOLID", [5], []⟩,
                   types := ["URBAN"], one_way := ["CAR"], bidir := [], signs := [5], lights := [6] }],
    signs := [⟨5, [⟨"TrafficSignIDGermany", "MAX_SPEED", ["50"]⟩], [1], some ⟨⟨"0x1.0p+0"⟩, ⟨"0x1.0p+0"⟩⟩, some true⟩],
    lights := [⟨6, [⟨"RED", 10⟩, ⟨"GREEN", 20⟩], some ⟨⟨"0x1.0p+0"⟩, ⟨"0x1.0p+1"⟩⟩, some 7, some "LEFT", some false⟩],
    intersections := [⟨7, [⟨8, [1], [], [2], [], none⟩], []⟩],
    static := [⟨9, "PARKED_VEHICLE", .rect ⟨"0x1.0p+2"⟩ ⟨"0x1.0p+1"⟩ ⟨⟨"0x0.0p+0"⟩, ⟨"0x0.0p+0"⟩⟩ ⟨"0x0.0p+0"⟩, exInit, none, []⟩],
    dynamic := [⟨10, "CAR", .circ ⟨"0x1.0p+0"⟩ ⟨⟨"0x0.0p+0"⟩, ⟨"0x0.0p+0"⟩⟩, exInit,
                 some (.traj 1 [exState1, exState2] (.poly [])),
                 some ⟨some (.exact 0), some true, none, none, some false, none, none⟩,
                 [⟨some (.interval 1 4), none, some true, none, none, none, none⟩]⟩],
    env := [⟨11, "BUILDING", .poly [⟨⟨"0x0.0p+0"⟩, ⟨"0x0.0p+0"⟩⟩]⟩], phantom := [⟨12, some ⟨3, [⟨.interval 3 5, .group []⟩]⟩⟩, ⟨13, none⟩],
    pps := [⟨14, exInit, [⟨exGoal, [1]⟩]⟩] }

example : exState.wf = true := by decide
example : exScn.wf = true := by decide
example : exScn.typed = true := by decide
def exTables : Tables :=
  [("Tag", ["URBAN"]), ("Weather", ["SUNNY", "LIGHT_RAIN", "HEAVY_AIN", "FOG"]), ("LineMarking", ["DASHED", "SOLID", "NO_MARKING"]),
   ("DrivingDir", ["SAME", "OPPOSITE"]), ("LaneletType", ["URBAN"]), ("RoadUser", ["CAR"]),
   ("TrafficSignIDGermany", ["MAX_SPEED"]), ("TrafficLightState", ["RED", "GREEN"]), ("TrafficLightDirection", ["LEFT"]),
   ("ObstacleType", ["CAR", "PARKED_VEHICLE", "BUILDING"])]

/-- the hypotheses of `C02_write_read` are satisfiable: with the relevant .proto tables the example is written -/
example : (encScn exScn).check exTables = none := by decide
example : encodePb exTables exScn = .ok (encScn exScn) := (C02_encode_ok_iff _ _ _).mpr ⟨by decide, rfl⟩
/-- … and an enum member the .proto lacks (Weather.HEAVY_RAIN vs `HEAVY_AIN`) makes the writer raise -/
def exScnRain : Scn := { exScn with location := ⟨1, ⟨"0x0.0p+0"⟩, ⟨"0x0.0p+0"⟩, none, some ⟨none, none, some "HEAVY_RAIN", none⟩⟩ }
example : (encScn exScnRain).check exTables = some .value := by decide
/-- the initial state of the example has `yaw_rate` set while `acceleration` is unset: it survives (the pinned tree lost it) -/
example : (normInit exInit).attrs.lookup "yaw_rate" = some (.exact ⟨"0x1.0p-2"⟩) := by decide
example : (normInit exInit).attrs.lookup "acceleration" = some (.exact Dbl.zero) := by decide
/-- a state without position whose attributes are those of PMState plus one is a custom state, nothing dropped -/
example : (decState (encState exNoPos)).cls = "CustomState" := by decide

end CR.PBF
