import CRModel.CRProto
namespace CR.PBF
theorem C02_placeholder : True := trivial
end CR.PBF
