/-
  C13 — Benchmark ids print and parse consistently.
  Property theorems and non-vacuity examples only.

  Model: CRModel/BenchId.lean — a character-level mirror of ScenarioID.__init__/__str__/benchmark_id_pattern/
  from_benchmark_id (scenario/scenario.py:360-547) and of Solution.benchmark_id, CommonRoadSolutionReader.
  _parse_benchmark_id/_parse_vehicle_id (common/solution.py:444-467, 506-536, 666-709, 762-788).  Strings are lists of
  characters; numbers are printed and read as decimal digit strings (`natToDigits` / `digitsToNat`).

  Domain (CRProofs/BenchIdValid.lean):
    `CountriesOk cs`  the ISO-3166 table `cs` consists of three upper-case letters (checked on the real table each run);
    `Valid cs r`      constructor arguments `r` inside the property's domain: supported version, country in `cs` / ZAM /
                      None, non-empty alphanumeric map name, positive map id, configuration id None or positive,
                      behaviour None or S/T/P/I, prediction id None / positive int / list of >= 2 positive ints
                      (only with a behaviour);
    `norm r`          the id the constructor builds (defaults filled in).
  Helper lemmas: CRProofs/BenchId.lean (digits, split/join, matcher on the normal form, grammar), CRProofs/BenchIdValid.lean,
  CRProofs/BenchIdObj.lean (keyword construction `KwValid`, ids as objects `IdOk`, the Solution's dict).
-/
import CRProofs.BenchIdValid
import CRProofs.BenchIdGrammar
import CRProofs.BenchIdObj
set_option linter.unusedSimpArgs false
namespace CR.BenchId

/-! ## the property theorems -/

/-- decimal printing and reading of numbers are inverse (all naturals) -/
theorem C13_digits_roundtrip (n : Nat) : digitsToNat (natToDigits n) = n := digitsToNat_natToDigits n

/-- C13 (constructor): valid arguments are accepted and the defaults are filled in as `norm` says. -/
theorem C13_ctor_defaults {cs : List Str} {r : Raw} (hv : Valid cs r) : mk cs r = .ok (norm r) := mk_valid hv

/-- C13 (a): parsing the printed id of a valid scenario id yields an equal id — all eight attributes that
    `ScenarioID.__eq__` compares, for every valid combination of fields (no bound on names or numbers). -/
theorem C13_parse_print {cs : List Str} (hcs : CountriesOk cs) {r : Raw} (hv : Valid cs r) :
    parse cs (print (norm r)) r.version = .ok (norm r) := parse_print_valid hcs hv

/-- C13 (a'): the id parsed back prints identically. -/
theorem C13_print_parse_print {cs : List Str} (hcs : CountriesOk cs) {r : Raw} (hv : Valid cs r) :
    ∃ i, parse cs (print (norm r)) r.version = .ok i ∧ print i = print (norm r) :=
  ⟨norm r, C13_parse_print hcs hv, rfl⟩

/-- C13 (a''): constructor, print, parse chained as the code runs them. -/
theorem C13_ctor_print_parse {cs : List Str} (hcs : CountriesOk cs) {r : Raw} (hv : Valid cs r) :
    ∃ i, mk cs r = .ok i ∧ parse cs (print i) i.version = .ok i :=
  ⟨norm r, C13_ctor_defaults hv, C13_parse_print hcs hv⟩

/-- C13 (b): the printed id of a valid scenario id is a word of the CommonRoad id grammar `idRE`
    (`[C-]CCC_name-mapid[_config[_T-p1[-p2…]]]`). -/
theorem C13_grammar {cs : List Str} (hcs : CountriesOk cs) {r : Raw} (hv : Valid cs r) :
    Matches idRE (print (norm r)) := by
  obtain ⟨x, hx, e, _⟩ := valid_nf hcs hv
  rw [← e, print_toId x r.version hx]
  exact matches_str x hx

/-- C13 (b'): the model of `benchmark_id_pattern.fullmatch` accepts it (so `from_benchmark_id` never takes its
    "Not a valid scenario ID" fallback on a printed valid id). -/
theorem C13_pattern_accepts {cs : List Str} (hcs : CountriesOk cs) {r : Raw} (hv : Valid cs r) :
    (matchId (print (norm r))).isSome = true := by
  obtain ⟨x, hx, e, _⟩ := valid_nf hcs hv
  rw [← e, print_toId x r.version hx, matchId_str x hx]
  rfl

/-! ### solutions -/

/-- C13 (b''): the model of the code's pattern decides exactly the id grammar — for every string. -/
theorem C13_pattern_iff_grammar (s : Str) : (matchId s).isSome = true ↔ Matches idRE s := by
  constructor
  · intro h
    cases hg : matchId s with
    | none => simp [hg] at h
    | some g => exact matchId_sound hg
  · intro h
    obtain ⟨g, hg⟩ := matchId_complete h
    simp [hg]

/-- C13 (a, converse): every word of the id grammar that `from_benchmark_id` accepts (known country, supported
    version) yields an id that prints as exactly that word, and parsing that print gives the same id again —
    for any country table. -/
theorem C13_print_parse (cs : List Str) {s v : Str} {i : Id} (hs : Matches idRE s) (h : parse cs s v = .ok i) :
    print i = s ∧ i.version = v ∧ parse cs (print i) v = .ok i := by
  obtain ⟨h1, h2⟩ := print_parse_grammar cs hs h
  exact ⟨h1, h2, by rw [h1]; exact h⟩

/-- C13 (c): the benchmark id `vehicles:costs:scenario:version` of a solution with any non-empty list of
    (vehicle model, vehicle type, cost function) triples — one entry (single) or several (cooperative, bracketed
    lists) — is read back by the solution reader to the same models, types, cost functions, scenario id and version. -/
theorem C13_solution_roundtrip {cs : List Str} (hcs : CountriesOk cs) {r : Raw} (hv : Valid cs r)
    (vs : List (VModel × VType)) (ks : List Cost) (hlen : vs.length = ks.length) (hne : vs ≠ []) :
    readSolutionIds cs (benchmarkId vs ks (norm r)) vs.length = .ok (zip3 vs ks, norm r) := by
  have hks : ks ≠ [] := by
    intro e; subst e
    cases vs with
    | nil => exact hne rfl
    | cons _ _ => simp at hlen
  simp only [readSolutionIds, parseBenchmarkId_benchmarkId hcs hv vs ks hne hks, readPps_map vs ks hlen]

/-- single solution: `M<t>:COST:scenario:version` -/
theorem C13_solution_roundtrip_single {cs : List Str} (hcs : CountriesOk cs) {r : Raw} (hv : Valid cs r)
    (v : VModel × VType) (k : Cost) :
    readSolutionIds cs (benchmarkId [v] [k] (norm r)) 1 = .ok ([(v.1, v.2, k)], norm r) :=
  C13_solution_roundtrip hcs hv [v] [k] rfl (by simp)

/-- cooperative solution: `[M<t>,…]:[COST,…]:scenario:version` with at least two entries -/
theorem C13_solution_roundtrip_cooperative {cs : List Str} (hcs : CountriesOk cs) {r : Raw} (hv : Valid cs r)
    (v1 v2 : VModel × VType) (vs : List (VModel × VType)) (k1 k2 : Cost) (ks : List Cost) (hlen : vs.length = ks.length) :
    readSolutionIds cs (benchmarkId (v1 :: v2 :: vs) (k1 :: k2 :: ks) (norm r)) (vs.length + 2)
      = .ok ((v1.1, v1.2, k1) :: (v2.1, v2.2, k2) :: zip3 vs ks, norm r) := by
  have := C13_solution_roundtrip hcs hv (v1 :: v2 :: vs) (k1 :: k2 :: ks) (by simp [hlen]) (by simp)
  simpa [zip3] using this

/-- the version segment of a solution benchmark id is the scenario id's version, and it is read back -/
theorem C13_solution_version {cs : List Str} (hcs : CountriesOk cs) {r : Raw} (hv : Valid cs r)
    (vs : List (VModel × VType)) (ks : List Cost) (hlen : vs.length = ks.length) (hne : vs ≠ []) :
    ∃ pps i, readSolutionIds cs (benchmarkId vs ks (norm r)) vs.length = .ok (pps, i) ∧ i.version = r.version :=
  ⟨_, _, C13_solution_roundtrip hcs hv vs ks hlen hne, rfl⟩

/-! ### non-vacuity: the hypotheses are satisfiable, on the ids the documentation uses -/

example : print (norm exRaw) =
    ['C', '-', 'U', 'S', 'A', '_', 'U', 'S', '1', '0', '1', '-', '3', '3', '_', '2', '_', 'T', '-', '1', '-', '2'] := by decide
example : print (norm exRawDefaults) =
    ['Z', 'A', 'M', '_', 'T', 'e', 's', 't', '-', '1', '_', '1', '_', 'S', '-', '1'] := by decide
example : parse exCountries (print (norm exRaw)) exRaw.version = .ok (norm exRaw) :=
  C13_parse_print exCountries_ok exRaw_valid
example : Matches idRE (print (norm exRawDefaults)) := C13_grammar exCountries_ok exRawDefaults_valid
example : (matchId ['Z', 'A', 'M', '_', 'a', '-', '0', '1']).isSome = false := by decide   -- leading zero: not in the grammar
example : ¬ Matches idRE ['Z', 'A', 'M', '_', 'a', '-', '0', '1'] :=
  fun h => by have := (C13_pattern_iff_grammar _).2 h; revert this; decide
example : benchmarkId [(.PM, .FORD_ESCORT), (.KST, .VW_VANAGON)] [.JB1, .SA1] (norm exRaw) =
    ['[', 'P', 'M', '1', ',', 'K', 'S', 'T', '3', ']', ':', '[', 'J', 'B', '1', ',', 'S', 'A', '1', ']', ':',
     'C', '-', 'U', 'S', 'A', '_', 'U', 'S', '1', '0', '1', '-', '3', '3', '_', '2', '_', 'T', '-', '1', '-', '2', ':',
     '2', '0', '2', '0', 'a'] := by decide
example : readSolutionIds exCountries
    (benchmarkId [(.PM, .FORD_ESCORT), (.KST, .VW_VANAGON)] [.JB1, .SA1] (norm exRaw)) 2
    = .ok ([(.PM, .FORD_ESCORT, .JB1), (.KST, .VW_VANAGON, .SA1)], norm exRaw) :=
  C13_solution_roundtrip exCountries_ok exRaw_valid _ _ rfl (by simp)

/-! ### ids and solutions as objects: arguments left at their defaults, attributes re-assigned, setters

  The generators construct ids with any subset of the eight constructor arguments, re-assign attributes after
  construction (and after a first print / hash / comparison), change vehicle model / type / cost function of a
  planning problem solution through its setters and re-assign the Solution's list and scenario id.  The theorems
  below say that none of this leaves the domain of the theorems above: what counts is the tuple of CURRENT values. -/

/-- C13 (constructor, keywords): whichever of the eight arguments are given (each inside the domain) and whichever
    are left at the signature's defaults, the constructor accepts them, and the id it builds prints into the grammar
    and parses back to itself. -/
theorem C13_kw_defaults {cs : List Str} (hcs : CountriesOk cs) {k : Kw} (hk : KwValid cs k) :
    mk cs k.fill = .ok (norm k.fill) ∧ Matches idRE (print (norm k.fill)) ∧
      parse cs (print (norm k.fill)) k.fill.version = .ok (norm k.fill) :=
  ⟨C13_ctor_defaults (kw_valid hk), C13_grammar hcs (kw_valid hk), C13_parse_print hcs (kw_valid hk)⟩

/-- `ScenarioID()` — nothing given — is the map id `ZAM_Test-1` of version 2020a. -/
theorem C13_kw_nothing_given (cs : List Str) :
    mk cs ({} : Kw).fill = .ok (norm ({} : Kw).fill) ∧
      print (norm ({} : Kw).fill) = ['Z', 'A', 'M', '_', 'T', 'e', 's', 't', '-', '1'] := by
  refine ⟨C13_ctor_defaults (kw_valid ⟨?_, ?_, ?_, ?_, ?_, ?_, ?_, ?_, ?_⟩), by decide⟩ <;> intro _ h <;> cases h

/-- C13 (objects): an id whose CURRENT attribute values form a valid scenario id (`IdOk`) — however it got them —
    prints into the grammar, parses back to an equal id (all eight attributes) and hence prints identically. -/
theorem C13_fields_roundtrip {cs : List Str} (hcs : CountriesOk cs) {i : Id} (h : IdOk cs i) :
    Matches idRE (print i) ∧ parse cs (print i) i.version = .ok i := by
  have e := norm_toRaw h
  have h1 := C13_grammar hcs h.valid
  have h2 := C13_parse_print hcs h.valid
  rw [e] at h1 h2
  exact ⟨h1, h2⟩

/-- every id the constructor builds from valid arguments is such an object -/
theorem C13_ctor_idOk {cs : List Str} {r : Raw} (hv : Valid cs r) : ∃ i, mk cs r = .ok i ∧ IdOk cs i :=
  ⟨norm r, C13_ctor_defaults hv, idOk_norm hv⟩

/-- C13 (histories): after ANY sequence of attribute assignments (plain attributes, the cleaning `map_name` setter,
    the validating `country_id` setter incl. rejected values) on ANY id, if the values the object then holds form a
    valid scenario id, it prints into the grammar and parses back to itself.  Printing, comparing or hashing in
    between cannot matter: the model's `print` is a function of the current values only — an implementation that
    caches is caught by the correspondence / the oracle. -/
theorem C13_history_roundtrip {cs : List Str} (hcs : CountriesOk cs) (i0 : Id) (ops : List Op)
    (h : IdOk cs (runOps cs i0 ops)) :
    Matches idRE (print (runOps cs i0 ops)) ∧
      parse cs (print (runOps cs i0 ops)) (runOps cs i0 ops).version = .ok (runOps cs i0 ops) :=
  C13_fields_roundtrip hcs h

/-- a rejected country leaves the id unchanged (the history simply continues) -/
theorem C13_rejected_assignment_keeps_id (cs : List Str) (i : Id) (c : Str) (ops : List Op)
    (hc : c ∉ cs) (hz : c ≠ ZAM) : runOps cs i (.country (some c) :: ops) = runOps cs i ops := by
  simp [runOps, applyOp, setCountry, hc, hz]

/-- C13 (solution objects): a Solution holding any non-empty list of planning problem solutions with pairwise
    different planning problem ids (in any order, whatever setters produced their current model / type / cost) and a
    scenario id whose current values are valid: its benchmark id is read back to exactly these (model, type, cost)
    triples in this order, the same scenario id and version. -/
theorem C13_solution_objects {cs : List Str} (hcs : CountriesOk cs) {i : Id} (hi : IdOk cs i)
    (l : List Pps) (hne : l ≠ []) (hd : (l.map Pps.pid).Nodup) :
    readSolutionIds cs (solutionBenchmarkId l i) l.length = .ok (l.map (fun p => (p.model, p.vtype, p.cost)), i) := by
  have h := C13_solution_roundtrip hcs hi.valid (l.map fun p => (p.model, p.vtype)) (l.map Pps.cost)
    (by simp) (by simpa using hne)
  rw [norm_toRaw hi, zip3_map] at h
  simpa [solutionBenchmarkId, solutionPps_nodup l hd] using h

/-- the setters never produce a combination the constructor would have rejected: an accepted assignment yields a
    planning problem solution that passes the constructor's guards again -/
theorem C13_setter_keeps_guards (p q : Pps) (op : POp) (hp : Pps.check p = .ok p) (h : p.apply op = .ok q) :
    Pps.check q = .ok q := by
  obtain ⟨_, hp1, hp2⟩ := Pps.check_ok.1 hp
  cases op with
  | model m =>
    obtain ⟨e, h1, h2⟩ := Pps.check_ok.1 (by simpa [Pps.apply] using h)
    subst e
    exact Pps.check_ok.2 ⟨rfl, h1, h2⟩
  | vtype t =>
    simp only [Pps.apply, Except.ok.injEq] at h
    subst h
    exact Pps.check_ok.2 ⟨rfl, hp1, hp2⟩
  | cost c =>
    obtain ⟨e, h1, h2⟩ := Pps.check_ok.1 (by simpa [Pps.apply] using h)
    subst e
    exact Pps.check_ok.2 ⟨rfl, h1, h2⟩
  | traj t =>
    simp only [Pps.apply] at h
    split at h
    · cases h
      exact Pps.check_ok.2 ⟨rfl, by assumption, hp2⟩
    · cases h

/-- a repeated planning problem id: the dict keeps the first position and the last value (two entries collapse) -/
example : solutionPps [⟨7, .KS, .BMW_320i, .SA1, .input⟩, ⟨3, .PM, .FORD_ESCORT, .JB1, .pmInput⟩, ⟨7, .MB, .TRUCK, .TR1, .input⟩]
    = [⟨7, .MB, .TRUCK, .TR1, .input⟩, ⟨3, .PM, .FORD_ESCORT, .JB1, .pmInput⟩] := by decide
example : Pps.apply ⟨1, .PM, .FORD_ESCORT, .JB1, .pmInput⟩ (.cost .SA1) = .error .other := by decide
example : Pps.apply ⟨1, .KS, .FORD_ESCORT, .SA1, .input⟩ (.model .PM) = .error .other := by decide
example : Pps.apply ⟨1, .KS, .FORD_ESCORT, .SA1, .input⟩ (.model .MB) = .ok ⟨1, .MB, .FORD_ESCORT, .SA1, .input⟩ := by decide
example : IdOk exCountries (norm exRaw) := idOk_norm exRaw_valid
example : IdOk exCountries (runOps exCountries (norm exRaw) [.mapId 7, .country (some ['X', 'X', 'X']), .coop false]) := by
  have : runOps exCountries (norm exRaw) [.mapId 7, .country (some ['X', 'X', 'X']), .coop false]
      = norm { exRaw with mapId := 7, coop := false } := by decide
  rw [this]
  exact idOk_norm { exRaw_valid with mapId := by decide }

/-! ### boundary of the domain (recorded, not a finding)

  A one-element prediction *list* prints like the `int` and parses back as the `int`, which `__eq__` distinguishes
  from the list: `ScenarioID(..., "T", [7])` → "ZAM_a-1_1_T-7" → `prediction_id == 7 ≠ [7]`.  The property text
  ("one or several prediction ids") is read narrowly — one id is an `int`, several are a list of ≥ 2 — so `Valid`
  excludes this input; printing is still idempotent on it. -/
theorem C13_boundary_one_element_list :
    ∃ (r : Raw) (i j : Id), mk [] r = .ok i ∧ parse [] (print i) i.version = .ok j ∧ j ≠ i ∧ print j = print i := by
  refine ⟨{ coop := false, country := none, mapName := ['a'], mapId := 1, config := none, beh := some ['T'],
            pred := .many [7], version := ['2', '0', '2', '0', 'a'] },
          { coop := false, country := ZAM, mapName := ['a'], mapId := 1, config := some 1, beh := some ['T'],
            pred := .many [7], version := ['2', '0', '2', '0', 'a'] },
          { coop := false, country := ZAM, mapName := ['a'], mapId := 1, config := some 1, beh := some ['T'],
            pred := .one 7, version := ['2', '0', '2', '0', 'a'] }, ?_, ?_, ?_, ?_⟩ <;> decide

end CR.BenchId
