import CRProofs.BenchId
