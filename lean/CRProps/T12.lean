/-
  T12 — translator tie for C12 (equality / hashing).

  `Gen.SrcC12` is regenerated on every run from the CURRENT source of commonroad-io by harness/translate/src_c12.py
  (structural extraction): for each of the 36 class families with an attribute-wise `__eq__` / `__hash__` pair the list
  of attributes compared and hashed, each with the syntactic form of the comparison / of the hashed component; for State
  and SignalState the parts of their loops over the attribute names; the default `decimals` of `rounded_array_key`; the
  `eq=` flag of every dataclass below State; which classes define `__eq__` / `__hash__`.

  The theorems below prove, by complete evaluation of these finite tables (`decide`: a finite table checked completely IS
  a proof for that table), that
    * the rows of the hand model (CRModel/EqHash.lean `row`: kind used by `__eq__`, kind used by `__hash__`;
      CRModel/HashKey.lean `hrow`: builder of the hashed component) are EXACTLY what the extracted forms denote
      (`tie_rows`, denotations: CRModel/PyExtC12.lean), attribute by attribute, with no attribute left over on either
      side (`tie_no_extra_attributes`), the `isinstance` guard names the class itself (`tie_guards`), the rounding is to
      the model's 10 decimals (`tie_decimals`), State / SignalState loop as the model's dynamic rows say (`tie_state`,
      `tie_signal_state`), every State class keeps State's pair (`tie_state_subclasses`), no class defines `__eq__`
      without `__hash__` (`tie_eq_hash_pairs`);
    * directly on the extracted table: every hashed attribute is compared, under a kind that the hash kind is coarser
      than (`src_hashed_compared`, `src_hash_coarser` — so equal objects hash alike), every constructor parameter of
      `ctors` is stored in an attribute that `__eq__` reads (`src_ctor_params_compared`).
  A dropped conjunct of `__eq__`, an attribute compared with itself or with another attribute, an attribute hashed but
  not compared, `tuple(...)` of a set-compared attribute, another number of decimals: each leaves `decide` with `false`.
-/
import Gen.SrcC12
import CRProofs.EqHashSpec
import CRProofs.HashKey

namespace CR.EqHash
open CR.EqHash.Src

/-- attributes that the source compares and hashes but the model's rows do not list: `obstacle_role` is a constant of
    each obstacle class (set by its constructor, not a constructor parameter), so it can never differ between two
    objects that pass the `isinstance` guard -/
def classConstants : Cls → List String
  | .StaticObstacle | .DynamicObstacle | .EnvironmentObstacle => ["obstacle_role"]
  | _ => []

/-- attributes that are stored as a dict `id → element` (key = the id of the element) while the model reads the elements
    through the list getter: `frozenset(d.items())` is then the set of the elements, built by iterating -/
def storedAsDict : Cls → List String
  | .LaneletNetwork => ["lanelets", "intersections", "traffic_signs", "traffic_lights", "areas"]
  | _ => []

def storedTy (c : Cls) (a : String) (τ : Ty) : Ty :=
  if (storedAsDict c).contains a then (match τ with
    | .list e => .dict e
    | t => t) else τ

def viewHb (c : Cls) (a : String) (b : HB) : HB :=
  if (storedAsDict c).contains a then (match b with
    | .items e => .iter e
    | e => e) else b

/-- the class families whose `__eq__` / `__hash__` are attribute-wise (all but the two that loop over attribute names) -/
def tabular : List Cls := Cls.all.filter (fun c => c != .State && c != .SignalState)

def lookupEq (s : ClassSrc) (a : String) : Option (List Atom) := (s.eqs.find? (fun e => e.attr == a)).map (·.atoms)
def lookupHash (s : ClassSrc) (a : String) : Option HForm := (s.hashes.find? (fun e => e.attr == a)).map (·.form)

/-- what the source says about the attribute `a` (admitted type `τ`) of class `c`:
    kind of the comparison, kind of the hashed component, builder of the hashed component -/
def derived (c : Cls) (a : String) (τ : Ty) : Option Kind × Option Kind × Option HB :=
  let τ' := storedTy c a τ
  ((lookupEq (Gen.C12.src c) a).bind (fun as => eqKindOf τ' (sortAtoms as)),
   (lookupHash (Gen.C12.src c) a).bind (hashKindOf τ'),
   (lookupHash (Gen.C12.src c) a).map (fun f => viewHb c a (hbOf f)))

/-- the rows of the model re-derived from the source, in the model's attribute order -/
def derivedRows (c : Cls) : List (String × Option Kind × Option Kind × Option HB) :=
  (hrow c).attrs.map (fun h => (h.name, derived c h.name h.ty))

/-- the rows of the hand model: `row` (kinds) and `hrow` (builders) list the same attributes in the same order -/
def modelRows (c : Cls) : List (String × Option Kind × Option Kind × Option HB) :=
  List.zipWith (fun (r : AttrRow) (h : HAttr) => (r.name, some r.eqK, some r.hashK, some h.hb)) (row c).attrs (hrow c).attrs

def tieRowsOk (c : Cls) : Bool :=
  (row c).attrs.map (·.name) == (hrow c).attrs.map (·.name) && derivedRows c == modelRows c

/-- THE TIE: for every attribute-wise class family, the kinds by which the model's `__eq__` and `__hash__` read each
    attribute and the builder of each hashed component are exactly what the current source denotes. -/
theorem tie_rows : ∀ c ∈ tabular, tieRowsOk c = true := by decide +kernel

def noExtraOk (c : Cls) : Bool :=
  let names := (row c).attrs.map (·.name) ++ classConstants c
  let s := Gen.C12.src c
  s.eqs.all (fun e => names.contains e.attr) && s.hashes.all (fun e => names.contains e.attr)
    && (s.eqs.map (·.attr)).eraseDups.length == s.eqs.length
    && (s.hashes.map (·.attr)).eraseDups.length == s.hashes.length

/-- the source compares / hashes no attribute beyond the model's rows (and the class constants), none twice -/
theorem tie_no_extra_attributes : ∀ c ∈ tabular, noExtraOk c = true := by decide +kernel

/-- the `isinstance(other, ·)` guard of every `__eq__` names the class itself (the model: same class family) -/
theorem tie_guards : ∀ c ∈ tabular, (Gen.C12.src c).guard = c.name := by decide +kernel

/-- `rounded_array_key` rounds to the number of decimals the model's `r10` stands for -/
theorem tie_decimals : Gen.C12.roundedKeyDecimals = modelDecimals := by decide

/-! ### directly on the extracted table -/

def constKinds (c : Cls) (a : String) : Option Kind × Option Kind :=
  let d := derived c a .atom
  (d.1, d.2.1)

def hashedComparedOk (c : Cls) : Bool :=
  (Gen.C12.src c).hashes.all (fun h => (lookupEq (Gen.C12.src c) h.attr).isSome)

/-- every attribute that `__hash__` reads is read by `__eq__` -/
theorem src_hashed_compared : ∀ c ∈ tabular, hashedComparedOk c = true := by decide +kernel

def coarserOk (c : Cls) : Bool :=
  (hrow c).attrs.all (fun h => match derived c h.name h.ty with
    | (some e, some k, _) => e != .skip && coarser k e
    | _ => false)
  && (classConstants c).all (fun a => match constKinds c a with
    | (some e, some k) => coarser k e
    | _ => false)

/-- … and the kind under which it is hashed is coarser than the kind under which it is compared (order-insensitive
    compare ⇒ order-insensitive hash; rounded compare ⇒ hash of the rounded value; None-as-empty only where compared
    so): whatever is equal for `__eq__` yields the same hashed component. -/
theorem src_hash_coarser : ∀ c ∈ tabular, coarserOk c = true := by decide +kernel

def ctorParamsOk (cr : CtorRow) : Bool :=
  !(tabular.contains cr.family) || cr.params.all (fun pa => (lookupEq (Gen.C12.src cr.family) pa.2).isSome)

/-- every parameter of every public constructor (`ctors`, compared with `inspect.signature` on every run) is stored in
    an attribute that the SOURCE of `__eq__` reads -/
theorem src_ctor_params_compared : ∀ cr ∈ ctors, ctorParamsOk cr = true := by decide +kernel

/-- the same for the content attributes filled through `add_*` -/
theorem src_content_attrs_compared :
    ∀ c ∈ tabular, (contentAttrs c).all (fun a => (lookupEq (Gen.C12.src c) a).isSome) = true := by decide

/-! ### State, SignalState -/

/-- what the model's State row says, as loop parts: attribute 0 = the attribute names compared as a set and not hashed
    (`a "attributes" .eq .skip`), every further value under `restEq = restHash = r10` (position arrays and floats rounded
    to 10 decimals on BOTH sides and in the hash, anything else with `!=`), hash in sorted attribute order -/
def stateExpected : StateSrc :=
  { guard := "State", namesAsSets := true, eqLoopOver := "self.attributes",
    posBothArrays := true, posMixedFalse := true, posDecSelf := modelDecimals, posDecOther := modelDecimals,
    floatDecSelf := modelDecimals, floatDecOther := modelDecimals, neReturnsFalse := true, endsTrue := true,
    hashLoopOver := "sorted(self.attributes)", hashPosDec := modelDecimals, hashFloatDec := modelDecimals,
    hashAppends := true, hashReturnsTuple := true }

theorem tie_state : Gen.C12.src_State = stateExpected
    ∧ (row .State).dynamic = true ∧ (row .State).restEq = .r10 ∧ (row .State).restHash = .r10
    ∧ (row .State).attrs.map (fun r => (r.eqK, r.hashK)) = [(.eq, .skip)] := by decide

/-- SignalState: the slots are the model's attributes (same order), `__eq__` compares presence and value of every slot
    (`x` = `==` in every row), `__hash__` is the frozenset of the values of the assigned slots (`wholeHash = setNA`) -/
theorem tie_signal_state :
    Gen.C12.src_SignalState.slots = (row .SignalState).attrs.map (·.name)
    ∧ Gen.C12.src_SignalState.guard = Cls.SignalState.name
    ∧ Gen.C12.src_SignalState.eqLoopOver = "SignalState.__slots__"
    ∧ Gen.C12.src_SignalState.hashLoopOver = "SignalState.__slots__"
    ∧ Gen.C12.src_SignalState.comparesPresence = true ∧ Gen.C12.src_SignalState.comparesValues = true
    ∧ Gen.C12.src_SignalState.endsTrue = true
    ∧ Gen.C12.src_SignalState.hashOnlyAssigned = true ∧ Gen.C12.src_SignalState.hashFrozenset = true
    ∧ (row .SignalState).wholeHash = some .setNA
    ∧ (row .SignalState).attrs.all (fun r => r.eqK == .eq) = true := by decide

/-- every state class of `ctors` is a class below State that keeps State's `__eq__` / `__hash__`, and no class below
    State replaces them (dataclass decorator without `eq=False`, own definition) -/
theorem tie_state_subclasses :
    Gen.C12.stateSubclasses.all (fun p => p.2) = true
    ∧ (ctors.filter (fun cr => cr.family == .State)).all (fun cr => Gen.C12.stateSubclasses.contains (cr.cls, true)) = true := by
  decide

/-- every class family has a hand-written pair, and no class of the anchored files defines `__eq__` without `__hash__`
    (which would set its `__hash__` to None) or `__hash__` without `__eq__` -/
theorem tie_eq_hash_pairs :
    Gen.C12.eqHashPairs.all (fun p => p.2.1 && p.2.2) = true
    ∧ Cls.all.all (fun c => Gen.C12.eqHashPairs.contains (c.name, true, true)) = true := by decide

/-- wherever `__eq__` / `__hash__` read an attribute under both names (the field `self._a` and the getter `other.a`), the
    getter returns that field: "the attribute `a`" of the extracted table is ONE value -/
theorem tie_getters : Gen.C12.mixedAccessGetters.all (fun p => p.2.2) = true := by decide

/-! ### what fails: the denotations reject the classic mistakes -/

example : eqKindOf .atom [.selfCmp] = none := by decide
example : eqKindOf .atom [.crossed "width"] = none := by decide
example : eqKindOf (.list .atom) (sortAtoms [.keysIn .id, .valsEq .id]) = none := by decide
example : hashKindOf (.set .atom) (.tuple .it) = none := by decide
example : coarser (.eq) (.setOf .eq) = false := by decide       -- list-hash of a set-compared attribute
example : wrapKind .arr (.rkey 9) = none := by decide

end CR.EqHash
