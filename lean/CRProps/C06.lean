/-
  C06 — spatial lookups agree with the geometry they index.

  Part I (geometry, `CR.Geom`): each containment test denotes the set the property text names
    (disc of radius r, l-by-w box at its pose, vertex ring, union), for ALL rational parameters.
  Part II (index, `CR.Index`): the spatial index mirrors the lanelet polygons (`Sync`) after every construction route
    and every admissible operation sequence (no bound on lengths); on a synchronised index
    `find_lanelet_by_position` / `find_lanelet_by_shape`, evaluated as the code does (envelope query of the tree, exact
    predicate, id map), return as a SET (each id once; no order claimed) the lanelets whose polygon
    `right ++ reversed left` is within the tolerance of the point / meets the exported geometry of the shape, with the
    exact predicates `withinTol tol` (any `tol ≥ 0`), `ringsMeet`, `discMeetsRing` of Part II b — no geometric
    parameter is left open in `C06_find_position`, `C06_find_shape`, `C06_contains_points`.  (`C06_findShape_group`
    and Part III keep `meets` as a parameter: they are list logic and hold for every predicate, in particular for
    `ringMeets`.)  GEOS itself is not modelled: that `intersects` / `dwithin` compute these predicates is compared by
    the correspondence on exact-grid inputs.
    Changing a lanelet that is already in a network is NOT modelled (property C11).
    Part II c: several live networks derived from one another (source and copies all used further, `CR.Index.wrun`):
    an operation on one leaves the others as they were, and every one of them is synchronised after any admissible history
    (`C06_world_on_frame`, `C06_world_fork_frame`, `C06_world_sync`, `C06_world_lookup`).
  Part III (obstacles): `get_obstacles`, `map_obstacles_to_lanelets`, `filter_obstacles_in_network` are that same scan.

  Partial clauses (full statements kept as `def …_full : Prop`):
    * `C06_circle_export_full` is FALSE for the code as it is (known finding; witness proved): the exported geometry of
      a circle is the disc of radius r/2.
    * agreement of GEOS (`intersects`, `dwithin`, `STRtree.query`) with the exact predicates `ringsMeet`,
      `discMeetsRing`, `withinTol` (Part II b): compared on exact-grid inputs by the correspondence, not proved; that
      `ringsMeet` is complete for simple polygons (a common point always shows as an edge contact or a contained vertex)
      is the Jordan curve theorem for polygons and is not proved (`C06_ringsMeet_exact_full`; soundness:
      `C06_ringsMeet_sound`).
-/
import CRProofs.Geom
import CRProofs.Quad
import CRProofs.Meet
import CRProofs.Index
import CRModel.ShapeObj
namespace CR.Props.C06
open CR CR.Geom CR.Index

/-! ## Part I — shapes -/

/-- A circle's containment test is the closed disc of radius `r` (empty for a negative radius). -/
theorem C06_disc_iff (c : Pt) (r : Rat) (p : Pt) : inDisc c r p = true ↔ 0 ≤ r ∧ d2 p c ≤ r * r :=
  inDisc_iff c r p

/-- … and it is what the code computes, `r >= ‖p - c‖`, for whatever value the norm has, as long as it is the
    non-negative root of the squared distance. -/
theorem C06_disc_norm (c : Pt) (r : Rat) (p : Pt) (nrm : Rat) (h0 : 0 ≤ nrm) (hn : nrm * nrm = d2 p c) :
    inDisc c r p = true ↔ nrm ≤ r :=
  inDisc_norm c r p nrm h0 hn

example : inDisc ⟨0, 0⟩ 5 ⟨3, 4⟩ = true ∧ inDisc ⟨0, 0⟩ 5 ⟨3, 4 + 1 / 1000⟩ = false ∧ inDisc ⟨0, 0⟩ (-1) ⟨0, 0⟩ = false := by
  decide +kernel

/-- A shape group contains a point iff one of its members does.
    (definitional: documents the model, carries no proof content) -/
theorem C06_group_union (ss : List Prim) (p : Pt) :
    (Shape.group ss).contains p = true ↔ ∃ s ∈ ss, s.contains p = true := by
  simp [Shape.contains]

/-- The same for what a lanelet polygon meets (`Lanelet.get_obstacles` on a `ShapeGroup` occupancy).
    (definitional: documents the model, carries no proof content) -/
theorem C06_hits_group (meets : List Pt → Prim → Bool) (ring : List Pt) (ss : List Prim) :
    hits meets ring (.group ss) = true ↔ ∃ s ∈ ss, meets ring s = true := by
  simp [hits]

/-- The l-by-w box at pose `(ctr, θ)`, tested in the local frame, is the convex quadrilateral spanned by the four
    vertices the rectangle exports — for every `(c, s)` with `c² + s² = 1`. -/
theorem C06_box_eq_quad (l w : Rat) (ctr : Pt) (c s : Rat) (p : Pt) (hl : 0 < l) (hw : 0 < w)
    (h : c * c + s * s = 1) :
    inBox l w ctr c s p = true ↔
      inQuadCW (place ctr c s ⟨-(l / 2), -(w / 2)⟩) (place ctr c s ⟨-(l / 2), w / 2⟩)
               (place ctr c s ⟨l / 2, w / 2⟩) (place ctr c s ⟨l / 2, -(w / 2)⟩) p = true := by
  simp only [inQuadCW, inBox, Bool.and_eq_true, decide_eq_true_eq]
  rw [cross_q0q1 l w ctr c s p h, cross_q1q2 l w ctr c s p h, cross_q2q3 l w ctr c s p h, cross_q3q0 l w ctr c s p h,
    neg_mul_nonpos_iff hw, mul_nonpos_iff_right hl, mul_nonpos_iff_right hw, neg_mul_nonpos_iff hl]
  constructor
  · rintro ⟨⟨⟨h1, h2⟩, h3⟩, h4⟩; exact ⟨⟨⟨by linarith, by linarith⟩, by linarith⟩, by linarith⟩
  · rintro ⟨⟨⟨h1, h2⟩, h3⟩, h4⟩; exact ⟨⟨⟨by linarith, by linarith⟩, by linarith⟩, by linarith⟩

/-- The four vertices used above are the ones `Rectangle.vertices` exports (first = last closes the ring).
    (definitional: documents the model, carries no proof content) -/
theorem C06_rectVerts (l w : Rat) (ctr : Pt) (c s : Rat) :
    rectVerts l w ctr c s =
      [place ctr c s ⟨-(l / 2), -(w / 2)⟩, place ctr c s ⟨-(l / 2), w / 2⟩, place ctr c s ⟨l / 2, w / 2⟩,
       place ctr c s ⟨l / 2, -(w / 2)⟩, place ctr c s ⟨-(l / 2), -(w / 2)⟩] := rfl

example : inBox 4 2 ⟨1, 1⟩ (3 / 5) (4 / 5) ⟨1 + 6 / 5, 1 + 8 / 5⟩ = true ∧ (3 / 5 : Rat) * (3 / 5) + (4 / 5) * (4 / 5) = 1 := by
  decide +kernel

/-- Full statement for rectangles: the crossing-number test of the exported ring is the box. -/
def C06_rect_ring_eq_box_full : Prop :=
  ∀ (l w : Rat) (ctr : Pt) (c s : Rat) (p : Pt), 0 < l → 0 < w → c * c + s * s = 1 →
    rectContains l w ctr c s p = inBox l w ctr c s p

/-- … and it holds: for a rectangle at ANY pose the crossing-number test with boundary inclusion of the ring
    `Rectangle.vertices` exports (what `contains_point` and `shapely_object` use) is the `l`-by-`w` box at that pose.
    (`CRProofs/Quad.lean`: edges are crossed iff their ends straddle the ray's line and the point is strictly left of
    an upward / right of a downward edge; first-quadrant orientations by a finite case analysis over the signs of the
    vertex heights; the other orientations by describing the same rectangle turned by 90°.) -/
theorem C06_rect_ring_eq_box : C06_rect_ring_eq_box_full :=
  fun l w ctr c s p hl hw h => rect_ring_eq_box l w ctr c s p hl hw h

/-- Containment test = exported geometry = denoted set, for rectangles. -/
theorem C06_contains_denotes_rect (l w : Rat) (ctr : Pt) (c s : Rat) (p : Pt) (hl : 0 < l) (hw : 0 < w)
    (h : c * c + s * s = 1) : (Prim.rect l w ctr c s).contains p = (Prim.rect l w ctr c s).denotes p :=
  rect_ring_eq_box l w ctr c s p hl hw h

/-- … hence the ring test is also the convex-quadrilateral test of the four exported vertices. -/
theorem C06_rect_ring_eq_quad (l w : Rat) (ctr : Pt) (c s : Rat) (p : Pt) (hl : 0 < l) (hw : 0 < w)
    (h : c * c + s * s = 1) :
    rectContains l w ctr c s p = true ↔
      inQuadCW (place ctr c s ⟨-(l / 2), -(w / 2)⟩) (place ctr c s ⟨-(l / 2), w / 2⟩)
               (place ctr c s ⟨l / 2, w / 2⟩) (place ctr c s ⟨l / 2, -(w / 2)⟩) p = true := by
  rw [rect_ring_eq_box l w ctr c s p hl hw h]; exact C06_box_eq_quad l w ctr c s p hl hw h

example : rectContains 4 2 ⟨0, 0⟩ (3 / 5) (4 / 5) ⟨6 / 5, 8 / 5⟩ = true ∧ inBox 4 2 ⟨0, 0⟩ (3 / 5) (4 / 5) ⟨6 / 5, 8 / 5⟩ = true ∧
    rectContains 4 2 ⟨0, 0⟩ (3 / 5) (4 / 5) ⟨6 / 5 + 1 / 100, 8 / 5 + 1 / 100⟩ = false := by decide +kernel

/-- The bounding-box prefilter of `Polygon.contains_point` never changes the answer: a polygon's containment test is
    the closed ring test of its vertices (on the boundary, or odd crossing number) — for every vertex list. -/
theorem C06_poly_bbox_redundant (vs : List Pt) (p : Pt) : polyContains vs p = inRing vs p := by
  unfold polyContains
  cases h : inRing vs p
  · simp
  · simp [inBBox_of_inRing h]

example : polyContains [⟨0, 0⟩, ⟨4, 0⟩, ⟨0, 4⟩] ⟨2, 2⟩ = true ∧ polyContains [⟨0, 0⟩, ⟨4, 0⟩, ⟨0, 4⟩] ⟨1, 1⟩ = true ∧
    polyContains [⟨0, 0⟩, ⟨4, 0⟩, ⟨0, 4⟩] ⟨2 + 1 / 256, 2⟩ = false := by decide +kernel

/-- Containment test = denoted set, for circles (definitional: documents the model, carries no proof content) … -/
theorem C06_contains_denotes_circ (r : Rat) (c p : Pt) : (Prim.circ r c).contains p = (Prim.circ r c).denotes p := rfl

/-- … and for polygons (content: the bounding-box prefilter is redundant, `C06_poly_bbox_redundant`). -/
theorem C06_contains_denotes_poly (vs : List Pt) (p : Pt) : (Prim.poly vs).contains p = (Prim.poly vs).denotes p :=
  C06_poly_bbox_redundant vs p

/-- Exported geometry = containment test, for rectangles (definitional: documents the model, carries no proof content) … -/
theorem C06_export_rect (l w : Rat) (ctr : Pt) (c s : Rat) (p : Pt) :
    (Prim.rect l w ctr c s).exported p = (Prim.rect l w ctr c s).contains p := rfl

/-- … and for polygons (content: `C06_poly_bbox_redundant`). -/
theorem C06_export_poly (vs : List Pt) (p : Pt) : (Prim.poly vs).exported p = (Prim.poly vs).contains p :=
  (C06_poly_bbox_redundant vs p).symm

/-- Full statement for circles: exported geometry and containment test denote the same set. -/
def C06_circle_export_full : Prop :=
  ∀ (r : Rat) (c p : Pt), (Prim.circ r c).exported p = (Prim.circ r c).denotes p

/-- What the code as it is satisfies: the exported geometry of a circle is the disc of radius r/2 … -/
theorem C06_circle_export_iff (r : Rat) (c p : Pt) :
    (Prim.circ r c).exported p = true ↔ 0 ≤ r ∧ d2 p c ≤ (r / 2) * (r / 2) := by
  simp only [Prim.exported, exportedRadius, inDisc_iff]
  constructor
  · rintro ⟨h1, h2⟩; exact ⟨by linarith, h2⟩
  · rintro ⟨h1, h2⟩; exact ⟨by linarith, h2⟩

/-- … hence a subset of the circle (proved part of `C06_circle_export_full`). -/
theorem C06_circle_export_partial (r : Rat) (c p : Pt) (h : (Prim.circ r c).exported p = true) :
    (Prim.circ r c).denotes p = true := by
  rw [C06_circle_export_iff] at h
  simp only [Prim.denotes, inDisc_iff]
  refine ⟨h.1, le_trans h.2 ?_⟩
  nlinarith [h.1, mul_nonneg h.1 h.1]

/-- Known finding `C06/shapely_object/misses/circ`: the full statement fails on the code as it is
    (`Circle(2)` at the origin contains (3/2, 0), its exported geometry does not). -/
theorem C06_witness_circle_export : ¬ C06_circle_export_full := by
  intro h
  have := h 2 ⟨0, 0⟩ ⟨3 / 2, 0⟩
  revert this; decide +kernel

/-- Translation invariance of every containment test: moving the shape and the point by the same vector changes
    nothing (rectangles: same `(c, s)`). -/
theorem C06_translate_invariant (s : Shape) (t p : Pt) : (s.translate t).contains (p.add t) = s.contains p := by
  cases s with
  | prim s => exact prim_contains_translate s t p
  | group ss =>
    simp only [Shape.translate, Shape.contains, List.any_map, Function.comp_def, prim_contains_translate]

/-- … and of the denoted sets themselves. -/
theorem C06_translate_disc (c : Pt) (r : Rat) (p t : Pt) : inDisc (c.add t) r (p.add t) = inDisc c r p :=
  inDisc_add c r p t

theorem C06_translate_box (l w : Rat) (ctr t : Pt) (c s : Rat) (p : Pt) :
    inBox l w (ctr.add t) c s (p.add t) = inBox l w ctr c s p := inBox_add l w ctr t c s p

theorem C06_translate_ring (vs : List Pt) (p t : Pt) : inRing (vs.map (·.add t)) (p.add t) = inRing vs p :=
  inRing_add vs p t

/-! ## Part II — the index -/

/-! ### What `Sync` says and what it does not

  `Buffered n`: `_buffered_polygons` is the list of (id, polygon object) of the lanelets, ids and polygon objects
  pairwise distinct.  `Fresh n`: tree and reverse map are the ones `_create_strtree` builds from the CURRENT
  `_buffered_polygons` — by construction true right after a rebuild; the content of the theorems below is which
  operations rebuild, which keep / lose freshness (`C06_witness_stale`), and that the reverse map then inverts.
  Assumed, not proved: distinct live Python objects have distinct `id()` (`Adm`: an added lanelet brings a polygon
  object that is not already in the network; copies hand out fresh objects, `Function.Injective f`).
  NOT covered: changing a lanelet that is already in a network (`Lanelet.translate_rotate`, vertex setters,
  `LaneletNetwork.translate_rotate`): the model has no such operation, so nothing here says that the index follows
  such a mutation.  That is the subject of property C11 (derived data never goes stale), not of C06. -/

/-- `LaneletNetwork()` starts synchronised (an empty tree, not "no tree"). -/
theorem C06_sync_empty : Sync Net.empty := sync_empty

/-- One step: never an error; `Buffered` is kept; a rebuilding step keeps `Sync`; a refreshing step establishes it. -/
theorem C06_step (n : Net) (o : Op) (hb : Buffered n) (ha : Adm n o) :
    ∃ n', step n o = .ok n' ∧ Buffered n' ∧ (rebuilds o = true → Fresh n → Fresh n') ∧ (refreshes n o → Fresh n') := by
  cases o with
  | add l r =>
    refine ⟨_, rfl, buffered_add l r hb ha, ?_, ?_⟩
    · intro hr hf; simp only [rebuilds] at hr; subst hr; exact (sync_add_rtree l ⟨hb, hf⟩ ha).2
    · rintro ⟨hr, hn⟩; subst hr; exact fresh_add_new l hb hn
  | remove i r =>
    obtain ⟨n', h1, h2, h3, _⟩ := remove_spec i r hb
    exact ⟨n', h1, h2, fun hr _ => h3 hr, fun hr => h3 hr⟩
  | addFrom ls =>
    have := sync_addFrom ls hb ha.1 ha.2
    exact ⟨_, rfl, this.1, fun _ _ => this.2, fun _ => this.2⟩
  | copy f =>
    have := sync_copy f ha hb
    exact ⟨_, rfl, this.1, fun _ _ => this.2, fun _ => this.2⟩
  | scRemove ids =>
    obtain ⟨h1, h2, h3⟩ := scRemove_spec ids n hb
    exact ⟨_, rfl, h1, fun _ => h2, h3⟩
  | move t f =>
    have := sync_move t f ha hb
    exact ⟨_, rfl, this.1, fun _ _ => this.2, fun _ => this.2⟩

/-- `Scenario.remove_lanelet(list)` that fails half-way (a later entry is not, or no longer, in the scenario:
    `KeyError`) — the exception is caught and the network used further: the index is still synchronised, and nothing
    was added; so the lookups (`C06_find_position`, `C06_find_shape`) answer with the lanelets that are left.  Holds
    whether or not the call raised (`(scRemoveLoop n ids).2`). -/
theorem C06_sync_after_failed_remove (n : Net) (hs : Sync n) (ids : List Int) :
    Sync (scRemoveLoop n ids).1 ∧ ∀ l ∈ (scRemoveLoop n ids).1.lanelets, l ∈ n.lanelets := by
  obtain ⟨h1, h2, _⟩ := scRemove_spec ids n hs.1
  exact ⟨⟨h1, h2 hs.2⟩, scRemove_lanelets ids n hs.1⟩

example : (scRemoveLoop (fromList id [⟨1, 1, [], []⟩, ⟨2, 2, [], []⟩, ⟨3, 3, [], []⟩]) [1, 1, 3]).2 = some .key ∧
    (scRemoveLoop (fromList id [⟨1, 1, [], []⟩, ⟨2, 2, [], []⟩, ⟨3, 3, [], []⟩]) [1, 1, 3]).1.lanelets.map (·.id) = [2, 3] := by
  decide

/-- `LaneletNetwork.translate_rotate(t, 0)` (an exact translation; the operation re-reads the polygons and rebuilds
    the tree): the index is synchronised afterwards, even if it was stale before, and every lanelet answers a query
    moved by `t` exactly as it answered the original query before the move.  (Changing a member lanelet directly is
    C11's subject and not modelled.) -/
theorem C06_move (n : Net) (t : Pt) (f : Nat → Nat) (hf : Function.Injective f) (hb : Buffered n) :
    Sync (moveNet t f n) ∧
    ∀ (l : Lanelet) (tol : Rat) (p : Pt) (vs : List Pt),
      withinTol tol (moveL t f l).poly.ring (p.add t) = withinTol tol l.poly.ring p ∧
      ringsMeet (moveL t f l).poly.ring (vs.map (·.add t)) = ringsMeet l.poly.ring vs := by
  refine ⟨sync_move t f hf hb, fun l tol p vs => ?_⟩
  rw [moveL_ring]
  exact ⟨withinTol_add tol _ p t, ringsMeet_add _ vs t⟩

/-- `_buffered_polygons` mirrors the lanelets after ANY admissible operation sequence (whatever the rtree flags),
    and no operation raises. -/
theorem C06_buffered_invariant (ops : List Op) : ∀ (n : Net), Buffered n → AdmSeq n ops →
    ∃ n', run n ops = .ok n' ∧ Buffered n' := by
  induction ops with
  | nil => intro n hb _; exact ⟨n, rfl, hb⟩
  | cons o os ih =>
    intro n hb ha
    obtain ⟨n1, h1, hb1, _, _⟩ := C06_step n o hb ha.1
    obtain ⟨n2, h2, hb2⟩ := ih n1 hb1 (ha.2 n1 h1)
    exact ⟨n2, by simp only [run, h1, h2], hb2⟩

/-- Default use of the API (every call with `rtree=True`, copies, `add_lanelets_from_network`): the index is
    synchronised after every operation sequence. -/
theorem C06_sync_default (ops : List Op) : ∀ (n : Net), Sync n → AdmSeq n ops → (∀ o ∈ ops, rebuilds o = true) →
    ∃ n', run n ops = .ok n' ∧ Sync n' := by
  induction ops with
  | nil => intro n hs _ _; exact ⟨n, rfl, hs⟩
  | cons o os ih =>
    intro n hs ha hr
    obtain ⟨n1, h1, hb1, hf1, _⟩ := C06_step n o hs.1 ha.1
    obtain ⟨n2, h2, hs2⟩ := ih n1 ⟨hb1, hf1 (hr o List.mem_cons_self) hs.2⟩ (ha.2 n1 h1)
      (fun o' ho' => hr o' (List.mem_cons_of_mem _ ho'))
    exact ⟨n2, by simp only [run, h1, h2], hs2⟩

/-- Deferred rebuild (`rtree=False` anywhere in the sequence): the index is synchronised as soon as one operation
    that rebuilds follows — `remove_lanelet(·, rtree=True)`, `add_lanelet` of a new id with `rtree=True`,
    `add_lanelets_from_network`, a copy. -/
theorem C06_sync_after_refresh (ops : List Op) (last : Op) (n : Net) (hb : Buffered n)
    (ha : AdmSeq n (ops ++ [last])) (hl : ∀ n1, run n ops = .ok n1 → refreshes n1 last) :
    ∃ n', run n (ops ++ [last]) = .ok n' ∧ Sync n' := by
  obtain ⟨n1, h1, hb1⟩ := C06_buffered_invariant ops n hb (admSeq_prefix ops n last ha)
  obtain ⟨n2, h2, hb2, _, hf2⟩ := C06_step n1 last hb1 (admSeq_append ops n n1 last ha h1)
  exact ⟨n2, by rw [run_append ops n n1 last h1, h2], hb2, hf2 (hl n1 h1)⟩

/-- `create_from_lanelet_list` (also the XML reader's route): synchronised, for any list of lanelets whose polygons are
    distinct objects, whatever fresh objects `deepcopy` hands out. -/
theorem C06_sync_fromList (f : Nat → Nat) (hf : Function.Injective f) (ls : List Lanelet)
    (hn : (ls.map (·.poly.addr)).Nodup) : Sync (fromList f ls) :=
  sync_fromList f hf ls hn

/-- … and it holds exactly the given lanelets when their ids are distinct. -/
theorem C06_fromList_lanelets (f : Nat → Nat) (ls : List Lanelet) (hn : (ls.map (·.id)).Nodup) :
    (fromList f ls).lanelets = ls.map (relabelL f) := by
  have h0 : ((Net.empty.lanelets ++ ls.map (relabelL f)).map (·.id)).Nodup := by
    show ((([] : List Lanelet) ++ ls.map (relabelL f)).map (·.id)).Nodup
    rw [List.nil_append, map_relabel_id]; exact hn
  show (fromListLoop Net.empty (ls.map (relabelL f))).lanelets = _
  rw [fromListLoop_lanelets _ _ h0]
  rfl

/-- `copy.deepcopy(network)` / `pickle` round trip: synchronised, even if the original was stale. -/
theorem C06_sync_copy (n : Net) (f : Nat → Nat) (hf : Function.Injective f) (hb : Buffered n) : Sync (copyNet f n) :=
  sync_copy f hf hb

theorem C06_copy_lanelets (n : Net) (f : Nat → Nat) :
    (copyNet f n).lanelets.map (fun l => (l.id, l.poly.ring)) = n.lanelets.map (fun l => (l.id, l.poly.ring)) := by
  simp [copyNet, createStrtree, relabelL, Lanelet.poly, List.map_map, Function.comp_def]

/-- A ShapeGroup query on a synchronised index returns, each once, exactly the lanelets whose polygon meets
    SOME member of the group (the group denotes the union of its shapes), and never fails. -/
theorem C06_findShape_group (meets : List Pt → Prim → Bool) (n : Net) (hs : Sync n) (ss : List Prim) :
    ∃ r, findByShape meets n (.group ss) = .ok r ∧ r.Nodup ∧
      ∀ i, i ∈ r ↔ ∃ l ∈ n.lanelets, l.id = i ∧ ss.any (meets l.poly.ring) = true := by
  have key : ∀ (ss : List Prim) (res : List Int), res.Nodup →
      ∃ r, findGroup meets n res ss = .ok r ∧ r.Nodup ∧
        ∀ i, i ∈ r ↔ i ∈ res ∨ ∃ l ∈ n.lanelets, l.id = i ∧ ss.any (meets l.poly.ring) = true := by
    intro ss
    induction ss with
    | nil => intro res h; exact ⟨res, rfl, h, by simp⟩
    | cons s ss ih =>
      intro res h
      have hp := findShape_eq_scan meets n hs s
      simp only [findByShape] at hp
      simp only [findGroup, hp]
      obtain ⟨r, hr, hnd, hmem⟩ := ih _ (nodup_appendNew res _ h)
      refine ⟨r, hr, hnd, ?_⟩
      intro i
      rw [hmem, mem_appendNew]
      simp only [List.mem_map, List.mem_filter, List.any_cons, Bool.or_eq_true]
      constructor
      · rintro ((h1 | ⟨l, ⟨hl, hm⟩, rfl⟩) | ⟨l, hl, rfl, hm⟩)
        · exact Or.inl h1
        · exact Or.inr ⟨l, hl, rfl, Or.inl hm⟩
        · exact Or.inr ⟨l, hl, rfl, Or.inr hm⟩
      · rintro (h1 | ⟨l, hl, rfl, (hm | hm)⟩)
        · exact Or.inl (Or.inl h1)
        · exact Or.inl (Or.inr ⟨l, ⟨hl, hm⟩, rfl⟩)
        · exact Or.inr ⟨l, hl, rfl, hm⟩
  obtain ⟨r, hr, hnd, hmem⟩ := key ss [] List.nodup_nil
  exact ⟨r, hr, hnd, by intro i; rw [hmem]; simp⟩

/-- The polygon of a lanelet is its right boundary followed by the reversed left boundary.
    (definitional: documents the model `Lanelet.poly` / `laneletRing`, carries no proof content; the correspondence
    sends the two boundary polylines to the model, which builds the ring from them.) -/
theorem C06_lanelet_ring (l : Lanelet) : l.poly.ring = l.right ++ l.left.reverse ∧ l.poly.addr = l.addr := ⟨rfl, rfl⟩

/-- `Lanelet.contains_points`: for an admissible point array (at least two points) the answer is, point by point,
    membership in the closed polygon ring `right ++ reversed left` (boundary included; the bounding-box prefilter of
    `Polygon.contains_point` never changes it); a shorter array is refused by the assertion. -/
theorem C06_contains_points (l : Lanelet) (pts : List Pt) :
    l.containsPoints pts = if pts.length < 2 then .error .assert else
      .ok (pts.map (fun p => inRing (l.right ++ l.left.reverse) p)) := by
  unfold Lanelet.containsPoints
  split
  · rfl
  · simp only [C06_poly_bbox_redundant]; rfl

/-- `bbox_sound`: the envelope test by which `STRtree.query` preselects candidates is implied by the exact predicate
    (polygons that meet have overlapping bounding boxes; a polygon point within `tol ≥ 0` of the query point puts the
    point into the expanded box), so tree query + exact test = exact test, for every query shape and tolerance. -/
theorem C06_tree_prefilter_sound :
    (∀ (A : List Pt) (s : Prim), treeMeets A s = ringMeets A s) ∧
    (∀ (tol : Rat), 0 ≤ tol → ∀ (A : List Pt) (p : Pt), treeWithin tol A p = withinTol tol A p) :=
  ⟨treeMeets_eq, treeWithin_eq⟩

/-- `find_lanelet_by_position` on a synchronised index, with the code's evaluation (tree query with
    `dwithin(·, tol)`, then the id map) and any tolerance `tol ≥ 0` (the code: 1e-15): no error, one answer per point,
    and each answer is — as a SET, each id once; `STRtree.query` promises no order, the model's tree order is not
    claimed — the lanelets whose polygon `right ++ reversed left` is within `tol` of the point. -/
theorem C06_find_position (tol : Rat) (htol : 0 ≤ tol) (n : Net) (hs : Sync n) (pts : List Pt) :
    ∃ r, findByPosition (treeWithin tol) n pts = .ok r ∧
      List.Forall₂ (fun p ids => ids.Nodup ∧
        ∀ i, i ∈ ids ↔ ∃ l ∈ n.lanelets, l.id = i ∧ withinTol tol (l.right ++ l.left.reverse) p = true) pts r := by
  refine ⟨_, find_eq_scan (treeWithin tol) n hs pts, ?_⟩
  rw [List.forall₂_map_right_iff]
  apply List.forall₂_same.mpr
  intro p _
  have := scanIds_spec hs.1 (fun l => treeWithin tol l.poly.ring p)
  simp only [treeWithin_eq tol htol] at this ⊢
  exact this

/-- The corner the translation of `find_lanelet_by_position` showed (model repaired to the code): an empty point list is
    answered `[]` BEFORE the tree is touched — also by a network object that holds no tree —, while any non-empty list on
    such an object raises `AttributeError`. -/
theorem C06_find_position_empty (within : List Pt → Pt → Bool) (n : Net) :
    findByPosition within n [] = .ok [] ∧
    (n.tree = none → ∀ p ps, findByPosition within n (p :: ps) = .error .attr) := by
  refine ⟨rfl, fun h p ps => ?_⟩
  simp [findByPosition, h]

/-- What "within `tol`" means for the answer, between the two exact sets: every lanelet whose polygon CONTAINS the
    point is reported (whatever `tol ≥ 0`), and every reported lanelet has a polygon point within distance `tol` of the
    query point (squared: `d2 q p ≤ tol²`).  For `tol = 0` the two bounds coincide (`C06_withinTol_zero`). -/
theorem C06_find_position_sandwich (tol : Rat) (A : List Pt) (p : Pt) :
    (inRing A p = true → withinTol tol A p = true) ∧
    (withinTol tol A p = true → ∃ q, inRing A q = true ∧ d2 q p ≤ tol * tol) :=
  ⟨withinTol_of_inRing tol A p, withinTol_sound tol A p⟩

/-- `find_lanelet_by_shape(Rectangle | Circle | Polygon)` on a synchronised index, with the code's evaluation (tree
    query by envelope, then `intersects`, then the id map): no error, and the answer is — as a set, each id once — the
    lanelets whose polygon `right ++ reversed left` meets the exported geometry of the shape: `ringsMeet` with the
    vertex ring of a polygon / the four vertices of a rectangle (= its box, `C06_rect_ring_eq_box`), `discMeetsRing`
    with the disc of radius r/2 for a circle (the code as it is; known finding, the property asks for radius r). -/
theorem C06_find_shape (n : Net) (hs : Sync n) (s : Prim) :
    ∃ r, findByShape treeMeets n (.prim s) = .ok r ∧ r.Nodup ∧
      ∀ i, i ∈ r ↔ ∃ l ∈ n.lanelets, l.id = i ∧ ringMeets (l.right ++ l.left.reverse) s = true := by
  refine ⟨_, findShape_eq_scan treeMeets n hs s, ?_⟩
  have := scanIds_spec hs.1 (fun l => treeMeets l.poly.ring s)
  simp only [treeMeets_eq] at this ⊢
  exact this

/-- (definitional: unfolds `ringMeets`, carries no proof content) what "meets the exported geometry" is per shape kind. -/
theorem C06_ringMeets_cases (A : List Pt) :
    (∀ l w ctr c s, ringMeets A (.rect l w ctr c s) = ringsMeet A (rectVerts l w ctr c s)) ∧
    (∀ r ctr, ringMeets A (.circ r ctr) = discMeetsRing ctr (r / 2) A) ∧
    (∀ vs, ringMeets A (.poly vs) = ringsMeet A vs) := ⟨fun _ _ _ _ _ => rfl, fun _ _ => rfl, fun _ => rfl⟩

/-- End to end: a network built from scratch by any admissible sequence of rebuilding operations answers position
    queries with the set of its current lanelets within the tolerance. -/
theorem C06_lookup_after_ops (tol : Rat) (htol : 0 ≤ tol) (ops : List Op) (ha : AdmSeq Net.empty ops)
    (hr : ∀ o ∈ ops, rebuilds o = true) (pts : List Pt) :
    ∃ n r, run Net.empty ops = .ok n ∧ findByPosition (treeWithin tol) n pts = .ok r ∧
      List.Forall₂ (fun p ids => ids.Nodup ∧
        ∀ i, i ∈ ids ↔ ∃ l ∈ n.lanelets, l.id = i ∧ withinTol tol (l.right ++ l.left.reverse) p = true) pts r := by
  obtain ⟨n, h, hs⟩ := C06_sync_default ops Net.empty sync_empty ha hr
  obtain ⟨r, hr', hf⟩ := C06_find_position tol htol n hs pts
  exact ⟨n, r, h, hr', hf⟩

/-- Non-vacuity / the hypotheses matter: after `add_lanelet(l, rtree=False)` on an empty network the lanelet is in the
    network but the (stale) index does not report it. -/
theorem C06_witness_stale :
    let l : Lanelet := ⟨7, 1, [], []⟩
    let n := (addLanelet Net.empty l false).1
    Buffered n ∧ n.lanelets.map (·.id) = [7] ∧ findByPosition (fun _ _ => true) n [⟨0, 0⟩] = .ok [[]] := by
  refine ⟨buffered_add _ false sync_empty.1 (by simp [Net.empty]), by decide, by decide⟩

example : AdmSeq Net.empty [.add ⟨7, 1, [], []⟩ true, .add ⟨8, 2, [], []⟩ false, .copy (· + 10), .remove 7 true] := by
  refine ⟨by simp [Adm, Net.empty], fun n1 h1 => ⟨?_, fun n2 h2 => ⟨?_, fun n3 h3 => ⟨trivial, fun _ _ => trivial⟩⟩⟩⟩
  · cases h1; show (2 : Nat) ∉ _; decide
  · intro a b h; simpa using h

/-! ## Part II b — lookups by shape through the exact intersection predicates

  `meets` instantiated: a lanelet polygon meets a Rectangle / Polygon query iff `ringsMeet` holds for the two vertex
  rings (two edges meet or a vertex of one lies in the other), a Circle query iff `discMeetsRing` holds for the disc the
  code exports (radius r/2, known finding).  That GEOS's `intersects` computes these predicates is compared by the
  harness on exact-grid inputs (case kind `meets`: touching edges, shared vertices, containment without edge crossing),
  not proved. -/

/-- `ringsMeet` does not depend on the order of its arguments (as `intersects` does not). -/
theorem C06_ringsMeet_symm (A B : List Pt) : ringsMeet A B = ringsMeet B A := ringsMeet_symm A B

theorem C06_segMeet_symm (a b c d : Pt) : segMeet a b c d = segMeet c d a b := segMeet_symm a b c d

/-- Translation invariance of the intersection predicates. -/
theorem C06_ringsMeet_translate (A B : List Pt) (t : Pt) :
    ringsMeet (A.map (·.add t)) (B.map (·.add t)) = ringsMeet A B := ringsMeet_add A B t

theorem C06_discMeetsRing_translate (ctr : Pt) (r : Rat) (A : List Pt) (t : Pt) :
    discMeetsRing (ctr.add t) r (A.map (·.add t)) = discMeetsRing ctr r A := discMeetsRing_add ctr r A t

theorem C06_withinTol_translate (tol : Rat) (A : List Pt) (p t : Pt) :
    withinTol tol (A.map (·.add t)) (p.add t) = withinTol tol A p := withinTol_add tol A p t

/-- Degenerate cases agree with point membership: a polygon meets a point iff the point is in the polygon, a
    segment meets a point iff the point is on it, a disc meets a point iff the point is in the disc. -/
theorem C06_ringsMeet_point (A : List Pt) (p : Pt) : ringsMeet A [p] = inRing A p := ringsMeet_point A p

theorem C06_segMeet_point (a b p : Pt) : segMeet a b p p = onSeg a b p := segMeet_point a b p

theorem C06_discMeetsRing_point (ctr : Pt) (r : Rat) (p : Pt) : discMeetsRing ctr r [p] = inDisc ctr r p :=
  discMeetsRing_point ctr r p

/-- Tolerance / radius 0 is point membership (`dwithin(·, 0)` = `intersects`; a disc that is a point). -/
theorem C06_withinTol_zero (A : List Pt) (p : Pt) : withinTol 0 A p = inRing A p := withinTol_zero A p

theorem C06_discMeetsRing_zero (ctr : Pt) (A : List Pt) : discMeetsRing ctr 0 A = inRing A ctr :=
  discMeetsRing_zero ctr A

/-- Soundness: the predicates report only pairs that really share a point — two segments (the crossing point is
    exhibited: `a + d₃/(d₃ - d₄)·(b - a)`), two polygons, a polygon and a disc, a polygon and a point within `tol`. -/
theorem C06_segMeet_sound (a b c d : Pt) (h : segMeet a b c d = true) :
    ∃ q, onSeg a b q = true ∧ onSeg c d q = true := segMeet_sound a b c d h

theorem C06_ringsMeet_sound (A B : List Pt) (h : ringsMeet A B = true) :
    ∃ q, inRing A q = true ∧ inRing B q = true := ringsMeet_sound A B h

theorem C06_discMeetsRing_sound (ctr : Pt) (r : Rat) (A : List Pt) (h : discMeetsRing ctr r A = true) :
    ∃ q, inRing A q = true ∧ inDisc ctr r q = true := discMeetsRing_sound ctr r A h

theorem C06_withinTol_sound (tol : Rat) (A : List Pt) (p : Pt) (h : withinTol tol A p = true) :
    ∃ q, inRing A q = true ∧ d2 q p ≤ tol * tol := withinTol_sound tol A p h

/-- Exactness at the level of segments: `segMeet` holds iff the two closed segments have a common point (proper
    crossing, touching in an end point, and every collinear overlap included), `segNear` iff some point of the closed
    segment is within the squared distance. -/
theorem C06_segMeet_exact (a b c d : Pt) :
    segMeet a b c d = true ↔ ∃ q, onSeg a b q = true ∧ onSeg c d q = true := segMeet_iff a b c d

theorem C06_segNear_exact (a b p : Pt) (r2 : Rat) :
    segNear a b p r2 = true ↔ ∃ q, onSeg a b q = true ∧ d2 q p ≤ r2 := segNear_iff a b p r2

/-- Hence: `ringsMeet` holds iff the two boundaries share a point or a vertex of one polygon lies in the other … -/
theorem C06_ringsMeet_iff (A B : List Pt) : ringsMeet A B = true ↔
    (∃ e ∈ edges A, ∃ f ∈ edges B, ∃ q, onSeg e.1 e.2 q = true ∧ onSeg f.1 f.2 q = true) ∨
    (∃ a ∈ A, inRing B a = true) ∨ (∃ b ∈ B, inRing A b = true) := ringsMeet_iff A B

/-- … `discMeetsRing` iff the centre lies in the polygon or a boundary point is within `r` of it, `withinTol` likewise. -/
theorem C06_discMeetsRing_iff (ctr : Pt) (r : Rat) (A : List Pt) : discMeetsRing ctr r A = true ↔
    0 ≤ r ∧ (inRing A ctr = true ∨ ∃ e ∈ edges A, ∃ q, onSeg e.1 e.2 q = true ∧ d2 q ctr ≤ r * r) :=
  discMeetsRing_iff ctr r A

theorem C06_withinTol_iff (tol : Rat) (A : List Pt) (p : Pt) : withinTol tol A p = true ↔
    (inRing A p = true ∨ ∃ e ∈ edges A, ∃ q, onSeg e.1 e.2 q = true ∧ d2 q p ≤ tol * tol) := withinTol_iff tol A p

/-- Full statement of exactness of `ringsMeet` for simple polygons: it holds iff the closed polygons share a point.
    Proved: the direction above (`C06_ringsMeet_sound`), the exact meaning of the predicate (`C06_ringsMeet_iff`: the
    boundaries share a point or a vertex of one lies in the other), the case of a common vertex, the degenerate cases.
    Missing: "a common point of two polygons always shows as a boundary contact or a contained vertex", which needs that the crossing parity does not
    change along a segment that avoids the ring (the core of the Jordan curve theorem for polygons); the harness
    compares with GEOS and with an independent exact implementation on every `meets` / `net` / `obst` case instead. -/
def C06_ringsMeet_exact_full : Prop :=
  ∀ (A B : List Pt), (∃ q, inRing A q = true ∧ inRing B q = true) → ringsMeet A B = true

/-- A vertex of a polygon lies in it, hence two polygons sharing a vertex meet. -/
theorem C06_ringsMeet_of_common_vertex (A B : List Pt) (v : Pt) (ha : v ∈ A) (hb : v ∈ B) : ringsMeet A B = true := by
  simp only [ringsMeet, Bool.or_eq_true, List.any_eq_true]
  exact Or.inl (Or.inr ⟨v, ha, inRing_of_mem hb⟩)

example : ringsMeet [⟨0, 0⟩, ⟨4, 0⟩, ⟨4, 2⟩, ⟨0, 2⟩] [⟨4, 1⟩, ⟨6, 0⟩, ⟨6, 3⟩] = true ∧          -- a vertex on an edge
    ringsMeet [⟨0, 0⟩, ⟨4, 0⟩, ⟨4, 2⟩, ⟨0, 2⟩] [⟨1, 1⟩, ⟨2, 1⟩, ⟨1, 3 / 2⟩] = true ∧              -- inside, no edge contact
    ringsMeet [⟨0, 0⟩, ⟨4, 0⟩, ⟨4, 2⟩, ⟨0, 2⟩] [⟨4 + 1 / 256, 1⟩, ⟨6, 0⟩, ⟨6, 3⟩] = false ∧        -- just off
    discMeetsRing ⟨6, 1⟩ 2 [⟨0, 0⟩, ⟨4, 0⟩, ⟨4, 2⟩, ⟨0, 2⟩] = true ∧                               -- tangent disc
    discMeetsRing ⟨6, 1⟩ (2 - 1 / 256) [⟨0, 0⟩, ⟨4, 0⟩, ⟨4, 2⟩, ⟨0, 2⟩] = false := by decide +kernel

/-! ## Part III — obstacles on lanelets -/

/-- `Lanelet.get_obstacles` returns exactly the candidates whose occupancy (any member of a group) meets the polygon.
    (definitional: `List.mem_filter` on the model, carries no proof content; the geometric content is in `ringMeets`,
    see `C06_ringMeets_cases`, `C06_ringsMeet_iff`, and in the correspondence with `meets := ringMeets`.) -/
theorem C06_getObstacles_iff (meets : List Pt → Prim → Bool) (l : Lanelet) (obs : List Obst) (o : Obst) :
    o ∈ getObstacles meets l obs ↔ o ∈ obs ∧ hits meets l.poly.ring o.shape = true := by
  simp [getObstacles, List.mem_filter]

/-- `map_obstacles_to_lanelets`: an entry for exactly the lanelets with a non-empty answer, carrying that answer. -/
theorem C06_mapObstacles_iff (meets : List Pt → Prim → Bool) (n : Net) (obs : List Obst) (i : Int) (os : List Obst) :
    (i, os) ∈ mapObstacles meets n obs ↔
      ∃ l ∈ n.lanelets, l.id = i ∧ os = getObstacles meets l obs ∧ os ≠ [] := by
  simp only [mapObstacles, List.mem_filterMap]
  constructor
  · rintro ⟨l, hl, h⟩
    by_cases he : (getObstacles meets l obs).isEmpty = true
    · simp [he] at h
    · simp only [he] at h
      simp only [Bool.false_eq_true, if_false, Option.some.injEq, Prod.mk.injEq] at h
      refine ⟨l, hl, h.1, h.2.symm, ?_⟩
      rw [← h.2]; intro hc; exact he (by rw [hc]; rfl)
  · rintro ⟨l, hl, rfl, rfl, hne⟩
    refine ⟨l, hl, ?_⟩
    have : (getObstacles meets l obs).isEmpty = false := by
      cases h : getObstacles meets l obs with
      | nil => exact absurd h hne
      | cons _ _ => rfl
    simp [this]

/-- `filter_obstacles_in_network` keeps exactly the candidates that meet some lanelet polygon, each once. -/
theorem C06_filterObstacles_iff (meets : List Pt → Prim → Bool) (n : Net) (obs : List Obst) (o : Obst) :
    o ∈ filterObstacles meets n obs ↔ o ∈ obs ∧ ∃ l ∈ n.lanelets, hits meets l.poly.ring o.shape = true := by
  unfold filterObstacles
  rw [mem_dedupInto]
  simp only [List.not_mem_nil, false_or, List.mem_flatMap]
  constructor
  · rintro ⟨⟨i, os⟩, he, ho⟩
    obtain ⟨l, hl, _, rfl, _⟩ := (C06_mapObstacles_iff meets n obs i os).mp he
    have := (C06_getObstacles_iff meets l obs o).mp ho
    exact ⟨this.1, l, hl, this.2⟩
  · rintro ⟨ho, l, hl, hh⟩
    have hm : o ∈ getObstacles meets l obs := (C06_getObstacles_iff meets l obs o).mpr ⟨ho, hh⟩
    refine ⟨(l.id, getObstacles meets l obs), ?_, hm⟩
    exact (C06_mapObstacles_iff meets n obs _ _).mpr ⟨l, hl, rfl, rfl, List.ne_nil_of_mem hm⟩

theorem C06_filterObstacles_nodup (meets : List Pt → Prim → Bool) (n : Net) (obs : List Obst) :
    (filterObstacles meets n obs).Nodup :=
  nodup_dedupInto _ [] List.nodup_nil

/-! ## Part IV — shapes as objects: derived attributes follow the attributes they are derived from
    (model CRModel/ShapeObj.lean; tied to the source by translation in CRProps/T06.lean) -/

open CR.ShapeObj

theorem foldl_min_x (vs : List Pt) : ∀ (m : Pt) (a : Rat),
    (vs.foldl (fun m u => (⟨min m.x u.x, min m.y u.y⟩ : Pt)) m).x ≤ a ↔ (m.x ≤ a ∨ ∃ u ∈ vs, u.x ≤ a) := by
  induction vs with
  | nil => intro m a; simp
  | cons v vs ih => intro m a; simp only [List.foldl_cons, ih, min_le_iff, List.mem_cons, exists_eq_or_imp]; tauto

theorem foldl_min_y (vs : List Pt) : ∀ (m : Pt) (a : Rat),
    (vs.foldl (fun m u => (⟨min m.x u.x, min m.y u.y⟩ : Pt)) m).y ≤ a ↔ (m.y ≤ a ∨ ∃ u ∈ vs, u.y ≤ a) := by
  induction vs with
  | nil => intro m a; simp
  | cons v vs ih => intro m a; simp only [List.foldl_cons, ih, min_le_iff, List.mem_cons, exists_eq_or_imp]; tauto

theorem foldl_max_x (vs : List Pt) : ∀ (m : Pt) (a : Rat),
    a ≤ (vs.foldl (fun m u => (⟨max m.x u.x, max m.y u.y⟩ : Pt)) m).x ↔ (a ≤ m.x ∨ ∃ u ∈ vs, a ≤ u.x) := by
  induction vs with
  | nil => intro m a; simp
  | cons v vs ih => intro m a; simp only [List.foldl_cons, ih, le_max_iff, List.mem_cons, exists_eq_or_imp]; tauto

theorem foldl_max_y (vs : List Pt) : ∀ (m : Pt) (a : Rat),
    a ≤ (vs.foldl (fun m u => (⟨max m.x u.x, max m.y u.y⟩ : Pt)) m).y ↔ (a ≤ m.y ∨ ∃ u ∈ vs, a ≤ u.y) := by
  induction vs with
  | nil => intro m a; simp
  | cons v vs ih => intro m a; simp only [List.foldl_cons, ih, le_max_iff, List.mem_cons, exists_eq_or_imp]; tauto

/-- The bounding box a `Polygon` object stores (`_min`, `_max` = column-wise min / max of its vertices) is the box
    `inBBox` speaks about, so the object's containment test is the model's `polyContains` — for every predicate standing
    for shapely's point test. A polygon has at least one vertex (numpy refuses the empty array). -/
theorem C06_polyshape_contains (ptIn : List Pt → Pt → Bool) (vs : List Pt) (h : vs ≠ []) (p : Pt) :
    (PolyShape.ofVertices vs).contains ptIn p = (inBBox vs p && ptIn vs p) := by
  obtain ⟨v, vs, rfl⟩ := List.exists_cons_of_ne_nil h
  unfold PolyShape.contains PolyShape.ofVertices inBBox colMin colMax
  congr 1
  rw [Bool.eq_iff_iff]
  simp only [Bool.and_eq_true, decide_eq_true_eq, List.any_eq_true, foldl_min_x, foldl_min_y, foldl_max_x, foldl_max_y,
    List.mem_cons, exists_eq_or_imp]
  tauto

/-- … hence, with the exact ring test, the closed vertex ring (the prefilter is redundant). -/
theorem C06_polyshape_denotes (vs : List Pt) (h : vs ≠ []) (p : Pt) :
    (PolyShape.ofVertices vs).contains inRing p = inRing vs p := by
  rw [C06_polyshape_contains inRing vs h p]
  exact C06_poly_bbox_redundant vs p

example : (PolyShape.ofVertices [⟨0, 0⟩, ⟨4, 0⟩, ⟨0, 4⟩]).contains inRing ⟨2, 2⟩ = true ∧
    (PolyShape.ofVertices [⟨0, 0⟩, ⟨4, 0⟩, ⟨0, 4⟩]).contains inRing ⟨3, 3⟩ = false := by decide +kernel

/-- A circle is constructed with its export in step … -/
theorem C06_circobj_new_sync (r : Rat) (c : Option Pt) : (CircObj.new r c).Sync := by
  simp [CircObj.new, CircObj.Sync, CircObj.refresh]

/-- … and every setter keeps it in step (the export is rebuilt from the NEW radius / center). -/
theorem C06_circobj_step_sync (o : CircObj) (op : CircOp) (h : o.Sync) : (o.step op).Sync := by
  unfold CircObj.Sync at h
  cases op <;> simp [CircObj.step, CircObj.setRadius, CircObj.setCenter, CircObj.Sync, CircObj.refresh, h]

/-- After any history of attribute assignments the exported geometry of a circle is the one of its current radius and
    center (the disc of radius r/2: known finding, `C06_circle_export_iff`). -/
theorem C06_circobj_ops (r : Rat) (c : Option Pt) (ops : List CircOp) : (ops.foldl CircObj.step (CircObj.new r c)).Sync := by
  have : ∀ (o : CircObj), o.Sync → (ops.foldl CircObj.step o).Sync := by
    induction ops with
    | nil => intro o h; exact h
    | cons op ops ih => intro o h; exact ih _ (C06_circobj_step_sync o op h)
  exact this _ (C06_circobj_new_sync r c)

theorem C06_circobj_exported (o : CircObj) (h : o.Sync) (p : Pt) :
    o.exported p = (Prim.circ o.radius o.center).exported p := by
  unfold CircObj.Sync at h
  simp [CircObj.exported, h, Prim.exported]

theorem C06_rectobj_new_sync (l w : Rat) (c : Option Pt) (o : Rat × Rat) : (RectObj.new l w c o).Sync := by
  simp [RectObj.new, RectObj.Sync]

/-- Every setter drops both caches, every read fills a cache from the current attributes: the invariant survives any
    operation. -/
theorem C06_rectobj_step_sync (ptIn : List Pt → Pt → Bool) (o : RectObj) (op : RectOp) (h : o.Sync) : (o.step ptIn op).Sync := by
  obtain ⟨hv, hp⟩ := h
  have rv : (o.readVertices.1).Sync ∧ o.readVertices.2 = o.verts ∧ o.readVertices.1.verts = o.verts := by
    unfold RectObj.readVertices
    cases hc : o.vertices with
    | some vs => exact ⟨⟨hv, hp⟩, hv vs hc, rfl⟩
    | none =>
      refine ⟨⟨?_, ?_⟩, rfl, rfl⟩
      · intro vs h'; simp only [Option.some.injEq] at h'; exact h'.symm
      · intro r h'; exact hp r h'
  have rp : (o.readPolygon.1).Sync := by
    unfold RectObj.readPolygon
    cases hc : o.polygon with
    | some r => exact ⟨hv, hp⟩
    | none =>
      refine ⟨?_, ?_⟩
      · intro vs h'; exact rv.1.1 vs h'
      · intro r h'
        simp only [Option.some.injEq] at h'
        rw [← h', rv.2.1]; exact rv.2.2.symm
  cases op with
  | setLength v => simp [RectObj.step, RectObj.setLength, RectObj.invalidate, RectObj.Sync]
  | setWidth v => simp [RectObj.step, RectObj.setWidth, RectObj.invalidate, RectObj.Sync]
  | setCenter v => simp [RectObj.step, RectObj.setCenter, RectObj.invalidate, RectObj.Sync]
  | setOrientation v => simp [RectObj.step, RectObj.setOrientation, RectObj.invalidate, RectObj.Sync]
  | readVertices => exact rv.1
  | readPolygon => exact rp
  | query p => exact rp

/-- On a rectangle whose caches are in step, `contains_point` answers for the polygon of the CURRENT length, width, center
    and orientation — with the exact ring test: `rectContains`, i.e. the l-by-w box at that pose (`C06_rect_ring_eq_box`). -/
theorem C06_rectobj_query (ptIn : List Pt → Pt → Bool) (o : RectObj) (h : o.Sync) (p : Pt) :
    (o.containsPoint ptIn p).2 = ptIn o.verts p := by
  obtain ⟨hv, hp⟩ := h
  unfold RectObj.containsPoint RectObj.readPolygon
  cases hc : o.polygon with
  | some r => simp [hp r hc]
  | none =>
    unfold RectObj.readVertices
    cases hc2 : o.vertices with
    | some vs => simp [hv vs hc2]
    | none => simp

/-- After any history of attribute assignments, reads and queries, a rectangle answers a containment query for its
    current pose (the class of defect repaired in 5db4e74: a stale cache after a setter). -/
theorem C06_rectobj_ops (ptIn : List Pt → Pt → Bool) (l w : Rat) (c : Option Pt) (o : Rat × Rat) (ops : List RectOp) (p : Pt) :
    let r := ops.foldl (RectObj.step ptIn) (RectObj.new l w c o)
    (r.containsPoint ptIn p).2 = ptIn (rectVerts r.length r.width r.center r.orientation.1 r.orientation.2) p := by
  intro r
  have : ∀ (o : RectObj), o.Sync → (ops.foldl (RectObj.step ptIn) o).Sync := by
    induction ops with
    | nil => intro o h; exact h
    | cons op ops ih => intro o h; exact ih _ (C06_rectobj_step_sync ptIn o op h)
  exact C06_rectobj_query ptIn r (this _ (C06_rectobj_new_sync l w c o)) p

/-- Witness that the invariant has content: a length assignment that keeps the caches (what the code did before the
    repair) leaves a rectangle that answers for its OLD length. -/
theorem C06_witness_rect_stale :
    let o := ((RectObj.new 4 2 none (1, 0)).containsPoint inRing ⟨0, 0⟩).1
    let bad : RectObj := { o with length := 2 }
    ¬ bad.Sync ∧ (bad.containsPoint inRing ⟨3 / 2, 0⟩).2 = true ∧ inRing bad.verts ⟨3 / 2, 0⟩ = false := by
  refine ⟨?_, by decide +kernel, by decide +kernel⟩
  intro h
  have := h.1 _ rfl
  revert this
  decide +kernel

/-! ## Part II c — several live networks derived from one another

  A deep copy / pickle round trip / `create_from_lanelet_network` / `create_from_lanelet_list(net.lanelets)` leaves the
  source alive next to the copy.  World = list of the live networks; `WOp.on k o` acts on slot `k`, `WOp.fork k f`
  appends a copy of slot `k`.  Claim: an operation on one slot leaves every other slot as it was (frame), a fork leaves
  every old slot as it was and adds the copy, and after ANY admissible history of rebuilding operations EVERY live
  network is synchronised — so each answers its lookups with its OWN current lanelets (`C06_find_position`,
  `C06_find_shape`), whatever happened to its siblings. -/

/-- Admissible world operation: the slot exists; on it the operation is admissible and rebuilds. -/
def WAdm (w : List Net) : WOp → Prop
  | .on k o => k < w.length ∧ rebuilds o = true ∧ ∀ n, w[k]? = some n → Adm n o
  | .fork k f => k < w.length ∧ Function.Injective f

def WAdmSeq : List Net → List WOp → Prop
  | _, [] => True
  | w, o :: os => WAdm w o ∧ ∀ w', wstep w o = .ok w' → WAdmSeq w' os

/-- Frame: an operation on slot `k` leaves the number of live networks and every other slot unchanged, and slot `k`
    holds what the operation makes of the network that was there. -/
theorem C06_world_on_frame (w w' : List Net) (k : Nat) (o : Op) (h : wstep w (.on k o) = .ok w') :
    w'.length = w.length ∧ (∀ j, j ≠ k → w'[j]? = w[j]?) ∧
      ∃ n n', w[k]? = some n ∧ step n o = .ok n' ∧ w'[k]? = some n' := by
  simp only [wstep] at h
  cases hk : w[k]? with
  | none => simp [hk] at h
  | some n =>
    simp only [hk] at h
    cases hs : step n o with
    | error e => simp [hs] at h
    | ok n' =>
      simp only [hs, Except.ok.injEq] at h
      subst h
      have hlt : k < w.length := by
        rcases Nat.lt_or_ge k w.length with h1 | h1
        · exact h1
        · rw [List.getElem?_eq_none h1] at hk; cases hk
      refine ⟨List.length_set, fun j hj => ?_, n, n', rfl, hs, ?_⟩
      · exact List.getElem?_set_ne (fun e => hj e.symm)
      · rw [List.getElem?_set_self hlt]

/-- Frame: a fork leaves every live network as it was and appends the copy of the source. -/
theorem C06_world_fork_frame (w w' : List Net) (k : Nat) (f : Nat → Nat) (h : wstep w (.fork k f) = .ok w') :
    ∃ n, w[k]? = some n ∧ w' = w ++ [copyNet f n] ∧ (∀ j, j < w.length → w'[j]? = w[j]?) ∧
      w'[w.length]? = some (copyNet f n) := by
  simp only [wstep] at h
  cases hk : w[k]? with
  | none => simp [hk] at h
  | some n =>
    simp only [hk, Except.ok.injEq] at h
    subst h
    refine ⟨n, rfl, rfl, fun j hj => List.getElem?_append_left hj, ?_⟩
    simp

/-- One world step keeps every live network synchronised (and never raises). -/
theorem C06_world_step (w : List Net) (o : WOp) (hs : ∀ n ∈ w, Sync n) (ha : WAdm w o) :
    ∃ w', wstep w o = .ok w' ∧ ∀ n ∈ w', Sync n := by
  cases o with
  | on k o =>
    obtain ⟨hk, hr, hadm⟩ := ha
    have hget : w[k]? = some w[k] := List.getElem?_eq_getElem hk
    have hsn : Sync w[k] := hs _ (List.getElem_mem hk)
    obtain ⟨n', h1, hb', hf', _⟩ := C06_step w[k] o hsn.1 (hadm _ hget)
    refine ⟨w.set k n', by simp only [wstep, hget, h1], fun m hm => ?_⟩
    rcases List.mem_or_eq_of_mem_set hm with hm | hm
    · exact hs m hm
    · subst hm; exact ⟨hb', hf' hr hsn.2⟩
  | fork k f =>
    obtain ⟨hk, hf⟩ := ha
    have hget : w[k]? = some w[k] := List.getElem?_eq_getElem hk
    have hsn : Sync w[k] := hs _ (List.getElem_mem hk)
    refine ⟨w ++ [copyNet f w[k]], by simp only [wstep, hget], fun m hm => ?_⟩
    rcases List.mem_append.mp hm with hm | hm
    · exact hs m hm
    · rw [List.mem_singleton] at hm; subst hm; exact C06_sync_copy _ f hf hsn.1

/-- Any admissible history on several live networks derived from one another (default rebuilding flags): every live
    network — source and copies alike — is synchronised at the end. -/
theorem C06_world_sync (ops : List WOp) : ∀ (w : List Net), (∀ n ∈ w, Sync n) → WAdmSeq w ops →
    ∃ w', wrun w ops = .ok w' ∧ ∀ n ∈ w', Sync n := by
  induction ops with
  | nil => intro w hs _; exact ⟨w, rfl, hs⟩
  | cons o os ih =>
    intro w hs ha
    obtain ⟨w1, h1, hs1⟩ := C06_world_step w o hs ha.1
    obtain ⟨w2, h2, hs2⟩ := ih w1 hs1 (ha.2 w1 h1)
    exact ⟨w2, by simp only [wrun, h1, h2], hs2⟩

/-- End to end for two networks derived from one another: every live network answers position queries with the set of
    ITS OWN current lanelets within the tolerance. -/
theorem C06_world_lookup (tol : Rat) (htol : 0 ≤ tol) (ops : List WOp) (ha : WAdmSeq [Net.empty] ops) (pts : List Pt) :
    ∃ w, wrun [Net.empty] ops = .ok w ∧ ∀ n ∈ w, ∃ r, findByPosition (treeWithin tol) n pts = .ok r ∧
      List.Forall₂ (fun p ids => ids.Nodup ∧
        ∀ i, i ∈ ids ↔ ∃ l ∈ n.lanelets, l.id = i ∧ withinTol tol (l.right ++ l.left.reverse) p = true) pts r := by
  obtain ⟨w, h, hs⟩ := C06_world_sync ops [Net.empty]
    (fun n hn => by rw [List.mem_singleton] at hn; subst hn; exact sync_empty) ha
  exact ⟨w, h, fun n hn => C06_find_position tol htol n (hs n hn) pts⟩

/-- Non-vacuity, and the scenario of a shared `_buffered_polygons`: fork, remove a lanelet from the copy, then rebuild
    the source by an addition — the source still owns and reports lanelet 2, the copy does not. -/
example :
    (wrun [fromList id [⟨1, 1, [], []⟩, ⟨2, 2, [], []⟩]] [.fork 0 (· + 10), .on 1 (.remove 2 true), .on 0 (.add ⟨4, 4, [], []⟩ true)]).map
      (fun w => w.map (fun n => (n.lanelets.map (·.id), n.idOf.map (·.2)))) = .ok [([1, 2, 4], [1, 2, 4]), ([1], [1])] := by
  decide +kernel

end CR.Props.C06
