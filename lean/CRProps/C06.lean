/-
  C06 — spatial lookups agree with the geometry they index.

  Part I (geometry, `CR.Geom`): each containment test denotes the set the property text names
    (disc of radius r, l-by-w box at its pose, vertex ring, union), for ALL rational parameters.
  Part II (index, `CR.Index`): the spatial index mirrors the lanelet polygons (`Sync`) after every construction route
    and every admissible operation sequence (no bound on lengths), and on a synchronised index
    `find_lanelet_by_position` / `find_lanelet_by_shape` return exactly the scan of the current lanelets with the
    geometric predicate (`within` / `meets` are parameters: GEOS is not modelled).
  Part III (obstacles): `get_obstacles`, `map_obstacles_to_lanelets`, `filter_obstacles_in_network` are that same scan.

  Partial clauses (full statements kept as `def …_full : Prop`):
    * `C06_circle_export_full` is FALSE for the code as it is (known finding; witness proved): the exported geometry of
      a circle is the disc of radius r/2.
    * agreement of GEOS (`intersects`, `dwithin`, `STRtree.query`) with the exact predicates `ringsMeet`,
      `discMeetsRing`, `withinTol` (Part II b): compared on exact-grid inputs by the correspondence, not proved; that
      `ringsMeet` is complete for simple polygons (a common point always shows as an edge contact or a contained vertex)
      is the Jordan curve theorem for polygons and is not proved (`C06_ringsMeet_exact_full`; soundness:
      `C06_ringsMeet_sound`).
-/
import CRProofs.Geom
import CRProofs.Quad
import CRProofs.Meet
import CRProofs.Index
namespace CR.Props.C06
open CR CR.Geom CR.Index

/-! ## Part I — shapes -/

/-- A circle's containment test is the closed disc of radius `r` (empty for a negative radius). -/
theorem C06_disc_iff (c : Pt) (r : Rat) (p : Pt) : inDisc c r p = true ↔ 0 ≤ r ∧ d2 p c ≤ r * r :=
  inDisc_iff c r p

/-- … and it is what the code computes, `r >= ‖p - c‖`, for whatever value the norm has, as long as it is the
    non-negative root of the squared distance. -/
theorem C06_disc_norm (c : Pt) (r : Rat) (p : Pt) (nrm : Rat) (h0 : 0 ≤ nrm) (hn : nrm * nrm = d2 p c) :
    inDisc c r p = true ↔ nrm ≤ r :=
  inDisc_norm c r p nrm h0 hn

example : inDisc ⟨0, 0⟩ 5 ⟨3, 4⟩ = true ∧ inDisc ⟨0, 0⟩ 5 ⟨3, 4 + 1 / 1000⟩ = false ∧ inDisc ⟨0, 0⟩ (-1) ⟨0, 0⟩ = false := by
  decide +kernel

/-- A shape group contains a point iff one of its members does. -/
theorem C06_group_union (ss : List Prim) (p : Pt) :
    (Shape.group ss).contains p = true ↔ ∃ s ∈ ss, s.contains p = true := by
  simp [Shape.contains]

/-- The same for what a lanelet polygon meets (`Lanelet.get_obstacles` on a `ShapeGroup` occupancy). -/
theorem C06_hits_group (meets : List Pt → Prim → Bool) (ring : List Pt) (ss : List Prim) :
    hits meets ring (.group ss) = true ↔ ∃ s ∈ ss, meets ring s = true := by
  simp [hits]

/-- The l-by-w box at pose `(ctr, θ)`, tested in the local frame, is the convex quadrilateral spanned by the four
    vertices the rectangle exports — for every `(c, s)` with `c² + s² = 1`. -/
theorem C06_box_eq_quad (l w : Rat) (ctr : Pt) (c s : Rat) (p : Pt) (hl : 0 < l) (hw : 0 < w)
    (h : c * c + s * s = 1) :
    inBox l w ctr c s p = true ↔
      inQuadCW (place ctr c s ⟨-(l / 2), -(w / 2)⟩) (place ctr c s ⟨-(l / 2), w / 2⟩)
               (place ctr c s ⟨l / 2, w / 2⟩) (place ctr c s ⟨l / 2, -(w / 2)⟩) p = true := by
  simp only [inQuadCW, inBox, Bool.and_eq_true, decide_eq_true_eq]
  rw [cross_q0q1 l w ctr c s p h, cross_q1q2 l w ctr c s p h, cross_q2q3 l w ctr c s p h, cross_q3q0 l w ctr c s p h,
    neg_mul_nonpos_iff hw, mul_nonpos_iff_right hl, mul_nonpos_iff_right hw, neg_mul_nonpos_iff hl]
  constructor
  · rintro ⟨⟨⟨h1, h2⟩, h3⟩, h4⟩; exact ⟨⟨⟨by linarith, by linarith⟩, by linarith⟩, by linarith⟩
  · rintro ⟨⟨⟨h1, h2⟩, h3⟩, h4⟩; exact ⟨⟨⟨by linarith, by linarith⟩, by linarith⟩, by linarith⟩

/-- The four vertices used above are the ones `Rectangle.vertices` exports (first = last closes the ring). -/
theorem C06_rectVerts (l w : Rat) (ctr : Pt) (c s : Rat) :
    rectVerts l w ctr c s =
      [place ctr c s ⟨-(l / 2), -(w / 2)⟩, place ctr c s ⟨-(l / 2), w / 2⟩, place ctr c s ⟨l / 2, w / 2⟩,
       place ctr c s ⟨l / 2, -(w / 2)⟩, place ctr c s ⟨-(l / 2), -(w / 2)⟩] := rfl

example : inBox 4 2 ⟨1, 1⟩ (3 / 5) (4 / 5) ⟨1 + 6 / 5, 1 + 8 / 5⟩ = true ∧ (3 / 5 : Rat) * (3 / 5) + (4 / 5) * (4 / 5) = 1 := by
  decide +kernel

/-- Full statement for rectangles: the crossing-number test of the exported ring is the box. -/
def C06_rect_ring_eq_box_full : Prop :=
  ∀ (l w : Rat) (ctr : Pt) (c s : Rat) (p : Pt), 0 < l → 0 < w → c * c + s * s = 1 →
    rectContains l w ctr c s p = inBox l w ctr c s p

/-- … and it holds: for a rectangle at ANY pose the crossing-number test with boundary inclusion of the ring
    `Rectangle.vertices` exports (what `contains_point` and `shapely_object` use) is the `l`-by-`w` box at that pose.
    (`CRProofs/Quad.lean`: edges are crossed iff their ends straddle the ray's line and the point is strictly left of
    an upward / right of a downward edge; first-quadrant orientations by a finite case analysis over the signs of the
    vertex heights; the other orientations by describing the same rectangle turned by 90°.) -/
theorem C06_rect_ring_eq_box : C06_rect_ring_eq_box_full :=
  fun l w ctr c s p hl hw h => rect_ring_eq_box l w ctr c s p hl hw h

/-- Containment test = exported geometry = denoted set, for rectangles. -/
theorem C06_contains_denotes_rect (l w : Rat) (ctr : Pt) (c s : Rat) (p : Pt) (hl : 0 < l) (hw : 0 < w)
    (h : c * c + s * s = 1) : (Prim.rect l w ctr c s).contains p = (Prim.rect l w ctr c s).denotes p :=
  rect_ring_eq_box l w ctr c s p hl hw h

/-- … hence the ring test is also the convex-quadrilateral test of the four exported vertices. -/
theorem C06_rect_ring_eq_quad (l w : Rat) (ctr : Pt) (c s : Rat) (p : Pt) (hl : 0 < l) (hw : 0 < w)
    (h : c * c + s * s = 1) :
    rectContains l w ctr c s p = true ↔
      inQuadCW (place ctr c s ⟨-(l / 2), -(w / 2)⟩) (place ctr c s ⟨-(l / 2), w / 2⟩)
               (place ctr c s ⟨l / 2, w / 2⟩) (place ctr c s ⟨l / 2, -(w / 2)⟩) p = true := by
  rw [rect_ring_eq_box l w ctr c s p hl hw h]; exact C06_box_eq_quad l w ctr c s p hl hw h

example : rectContains 4 2 ⟨0, 0⟩ (3 / 5) (4 / 5) ⟨6 / 5, 8 / 5⟩ = true ∧ inBox 4 2 ⟨0, 0⟩ (3 / 5) (4 / 5) ⟨6 / 5, 8 / 5⟩ = true ∧
    rectContains 4 2 ⟨0, 0⟩ (3 / 5) (4 / 5) ⟨6 / 5 + 1 / 100, 8 / 5 + 1 / 100⟩ = false := by decide +kernel

/-- The bounding-box prefilter of `Polygon.contains_point` never changes the answer: a polygon's containment test is
    the closed ring test of its vertices (on the boundary, or odd crossing number) — for every vertex list. -/
theorem C06_poly_bbox_redundant (vs : List Pt) (p : Pt) : polyContains vs p = inRing vs p := by
  unfold polyContains
  cases h : inRing vs p
  · simp
  · simp [inBBox_of_inRing h]

example : polyContains [⟨0, 0⟩, ⟨4, 0⟩, ⟨0, 4⟩] ⟨2, 2⟩ = true ∧ polyContains [⟨0, 0⟩, ⟨4, 0⟩, ⟨0, 4⟩] ⟨1, 1⟩ = true ∧
    polyContains [⟨0, 0⟩, ⟨4, 0⟩, ⟨0, 4⟩] ⟨2 + 1 / 256, 2⟩ = false := by decide +kernel

/-- Containment test = denoted set, for circles and polygons. -/
theorem C06_contains_denotes_circ (r : Rat) (c p : Pt) : (Prim.circ r c).contains p = (Prim.circ r c).denotes p := rfl

theorem C06_contains_denotes_poly (vs : List Pt) (p : Pt) : (Prim.poly vs).contains p = (Prim.poly vs).denotes p :=
  C06_poly_bbox_redundant vs p

/-- Exported geometry = containment test, for rectangles and polygons. -/
theorem C06_export_rect (l w : Rat) (ctr : Pt) (c s : Rat) (p : Pt) :
    (Prim.rect l w ctr c s).exported p = (Prim.rect l w ctr c s).contains p := rfl

theorem C06_export_poly (vs : List Pt) (p : Pt) : (Prim.poly vs).exported p = (Prim.poly vs).contains p :=
  (C06_poly_bbox_redundant vs p).symm

/-- Full statement for circles: exported geometry and containment test denote the same set. -/
def C06_circle_export_full : Prop :=
  ∀ (r : Rat) (c p : Pt), (Prim.circ r c).exported p = (Prim.circ r c).denotes p

/-- What the code as it is satisfies: the exported geometry of a circle is the disc of radius r/2 … -/
theorem C06_circle_export_iff (r : Rat) (c p : Pt) :
    (Prim.circ r c).exported p = true ↔ 0 ≤ r ∧ d2 p c ≤ (r / 2) * (r / 2) := by
  simp only [Prim.exported, exportedRadius, inDisc_iff]
  constructor
  · rintro ⟨h1, h2⟩; exact ⟨by linarith, h2⟩
  · rintro ⟨h1, h2⟩; exact ⟨by linarith, h2⟩

/-- … hence a subset of the circle (proved part of `C06_circle_export_full`). -/
theorem C06_circle_export_partial (r : Rat) (c p : Pt) (h : (Prim.circ r c).exported p = true) :
    (Prim.circ r c).denotes p = true := by
  rw [C06_circle_export_iff] at h
  simp only [Prim.denotes, inDisc_iff]
  refine ⟨h.1, le_trans h.2 ?_⟩
  nlinarith [h.1, mul_nonneg h.1 h.1]

/-- Known finding `C06/shapely_object/misses/circ`: the full statement fails on the code as it is
    (`Circle(2)` at the origin contains (3/2, 0), its exported geometry does not). -/
theorem C06_witness_circle_export : ¬ C06_circle_export_full := by
  intro h
  have := h 2 ⟨0, 0⟩ ⟨3 / 2, 0⟩
  revert this; decide +kernel

/-- Translation invariance of every containment test: moving the shape and the point by the same vector changes
    nothing (rectangles: same `(c, s)`). -/
theorem C06_translate_invariant (s : Shape) (t p : Pt) : (s.translate t).contains (p.add t) = s.contains p := by
  cases s with
  | prim s => exact prim_contains_translate s t p
  | group ss =>
    simp only [Shape.translate, Shape.contains, List.any_map, Function.comp_def, prim_contains_translate]

/-- … and of the denoted sets themselves. -/
theorem C06_translate_disc (c : Pt) (r : Rat) (p t : Pt) : inDisc (c.add t) r (p.add t) = inDisc c r p :=
  inDisc_add c r p t

theorem C06_translate_box (l w : Rat) (ctr t : Pt) (c s : Rat) (p : Pt) :
    inBox l w (ctr.add t) c s (p.add t) = inBox l w ctr c s p := inBox_add l w ctr t c s p

theorem C06_translate_ring (vs : List Pt) (p t : Pt) : inRing (vs.map (·.add t)) (p.add t) = inRing vs p :=
  inRing_add vs p t

/-! ## Part II — the index -/

/-- `LaneletNetwork()` starts synchronised (an empty tree, not "no tree"). -/
theorem C06_sync_empty : Sync Net.empty := sync_empty

/-- Admissible operation in a state: a lanelet that is added brings a polygon object of its own (Python: a live
    object has a unique `id`); a copy yields fresh distinct objects. -/
def Adm (n : Net) : Op → Prop
  | .add l _ => l.poly.addr ∉ n.lanelets.map (·.poly.addr)
  | .remove _ _ => True
  | .addFrom ls => (ls.map (·.poly.addr)).Nodup ∧ ∀ l ∈ ls, l.poly.addr ∉ n.lanelets.map (·.poly.addr)
  | .copy f => Function.Injective f

/-- Every operation of a sequence is admissible in the state it is applied to. -/
def AdmSeq : Net → List Op → Prop
  | _, [] => True
  | n, o :: os => Adm n o ∧ ∀ n', step n o = .ok n' → AdmSeq n' os

/-- The operation ends with a rebuilt index (or changes nothing). -/
def rebuilds : Op → Bool
  | .add _ r => r
  | .remove _ r => r
  | .addFrom _ => true
  | .copy _ => true

/-- The operation certainly rebuilds the index in state `n`. -/
def refreshes (n : Net) : Op → Prop
  | .add l r => r = true ∧ l.id ∉ n.lanelets.map (·.id)
  | .remove _ r => r = true
  | .addFrom _ => True
  | .copy _ => True

/-- One step: never an error; `Buffered` is kept; a rebuilding step keeps `Sync`; a refreshing step establishes it. -/
theorem C06_step (n : Net) (o : Op) (hb : Buffered n) (ha : Adm n o) :
    ∃ n', step n o = .ok n' ∧ Buffered n' ∧ (rebuilds o = true → Fresh n → Fresh n') ∧ (refreshes n o → Fresh n') := by
  cases o with
  | add l r =>
    refine ⟨_, rfl, buffered_add l r hb ha, ?_, ?_⟩
    · intro hr hf; simp only [rebuilds] at hr; subst hr; exact (sync_add_rtree l ⟨hb, hf⟩ ha).2
    · rintro ⟨hr, hn⟩; subst hr; exact fresh_add_new l hb hn
  | remove i r =>
    obtain ⟨n', h1, h2, h3, _⟩ := remove_spec i r hb
    exact ⟨n', h1, h2, fun hr _ => h3 hr, fun hr => h3 hr⟩
  | addFrom ls =>
    have := sync_addFrom ls hb ha.1 ha.2
    exact ⟨_, rfl, this.1, fun _ _ => this.2, fun _ => this.2⟩
  | copy f =>
    have := sync_copy f ha hb
    exact ⟨_, rfl, this.1, fun _ _ => this.2, fun _ => this.2⟩

/-- `_buffered_polygons` mirrors the lanelets after ANY admissible operation sequence (whatever the rtree flags),
    and no operation raises. -/
theorem C06_buffered_invariant (ops : List Op) : ∀ (n : Net), Buffered n → AdmSeq n ops →
    ∃ n', run n ops = .ok n' ∧ Buffered n' := by
  induction ops with
  | nil => intro n hb _; exact ⟨n, rfl, hb⟩
  | cons o os ih =>
    intro n hb ha
    obtain ⟨n1, h1, hb1, _, _⟩ := C06_step n o hb ha.1
    obtain ⟨n2, h2, hb2⟩ := ih n1 hb1 (ha.2 n1 h1)
    exact ⟨n2, by simp only [run, h1, h2], hb2⟩

/-- Default use of the API (every call with `rtree=True`, copies, `add_lanelets_from_network`): the index is
    synchronised after every operation sequence. -/
theorem C06_sync_default (ops : List Op) : ∀ (n : Net), Sync n → AdmSeq n ops → (∀ o ∈ ops, rebuilds o = true) →
    ∃ n', run n ops = .ok n' ∧ Sync n' := by
  induction ops with
  | nil => intro n hs _ _; exact ⟨n, rfl, hs⟩
  | cons o os ih =>
    intro n hs ha hr
    obtain ⟨n1, h1, hb1, hf1, _⟩ := C06_step n o hs.1 ha.1
    obtain ⟨n2, h2, hs2⟩ := ih n1 ⟨hb1, hf1 (hr o List.mem_cons_self) hs.2⟩ (ha.2 n1 h1)
      (fun o' ho' => hr o' (List.mem_cons_of_mem _ ho'))
    exact ⟨n2, by simp only [run, h1, h2], hs2⟩

theorem run_append (ops : List Op) : ∀ (n n1 : Net) (o : Op), run n ops = .ok n1 →
    run n (ops ++ [o]) = step n1 o := by
  induction ops with
  | nil => intro n n1 o h; simp only [run] at h; cases h; simp only [List.nil_append, run]; cases step n o <;> rfl
  | cons o' os ih =>
    intro n n1 o h
    simp only [List.cons_append, run] at h ⊢
    cases hs : step n o' with
    | error e => rw [hs] at h; cases h
    | ok n2 => rw [hs] at h; simp only []; exact ih n2 n1 o h

theorem admSeq_append (ops : List Op) : ∀ (n n1 : Net) (o : Op), AdmSeq n (ops ++ [o]) → run n ops = .ok n1 → Adm n1 o := by
  induction ops with
  | nil => intro n n1 o h hr; simp only [run] at hr; cases hr; exact h.1
  | cons o' os ih =>
    intro n n1 o h hr
    simp only [run] at hr
    cases hs : step n o' with
    | error e => rw [hs] at hr; cases hr
    | ok n2 => rw [hs] at hr; exact ih n2 n1 o (h.2 n2 hs) hr

theorem admSeq_prefix (ops : List Op) : ∀ (n : Net) (o : Op), AdmSeq n (ops ++ [o]) → AdmSeq n ops := by
  induction ops with
  | nil => intro _ _ _; trivial
  | cons o' os ih => intro n o h; exact ⟨h.1, fun n' hn' => ih n' o (h.2 n' hn')⟩

/-- Deferred rebuild (`rtree=False` anywhere in the sequence): the index is synchronised as soon as one operation
    that rebuilds follows — `remove_lanelet(·, rtree=True)`, `add_lanelet` of a new id with `rtree=True`,
    `add_lanelets_from_network`, a copy. -/
theorem C06_sync_after_refresh (ops : List Op) (last : Op) (n : Net) (hb : Buffered n)
    (ha : AdmSeq n (ops ++ [last])) (hl : ∀ n1, run n ops = .ok n1 → refreshes n1 last) :
    ∃ n', run n (ops ++ [last]) = .ok n' ∧ Sync n' := by
  obtain ⟨n1, h1, hb1⟩ := C06_buffered_invariant ops n hb (admSeq_prefix ops n last ha)
  obtain ⟨n2, h2, hb2, _, hf2⟩ := C06_step n1 last hb1 (admSeq_append ops n n1 last ha h1)
  exact ⟨n2, by rw [run_append ops n n1 last h1, h2], hb2, hf2 (hl n1 h1)⟩

/-- `create_from_lanelet_list` (also the XML reader's route): synchronised, for any list of lanelets whose polygons are
    distinct objects, whatever fresh objects `deepcopy` hands out. -/
theorem C06_sync_fromList (f : Nat → Nat) (hf : Function.Injective f) (ls : List Lanelet)
    (hn : (ls.map (·.poly.addr)).Nodup) : Sync (fromList f ls) :=
  sync_fromList f hf ls hn

/-- … and it holds exactly the given lanelets when their ids are distinct. -/
theorem C06_fromList_lanelets (f : Nat → Nat) (ls : List Lanelet) (hn : (ls.map (·.id)).Nodup) :
    (fromList f ls).lanelets = ls.map (relabelL f) := by
  have h0 : ((Net.empty.lanelets ++ ls.map (relabelL f)).map (·.id)).Nodup := by
    show ((([] : List Lanelet) ++ ls.map (relabelL f)).map (·.id)).Nodup
    rw [List.nil_append, map_relabel_id]; exact hn
  show (fromListLoop Net.empty (ls.map (relabelL f))).lanelets = _
  rw [fromListLoop_lanelets _ _ h0]
  rfl

/-- `copy.deepcopy(network)` / `pickle` round trip: synchronised, even if the original was stale. -/
theorem C06_sync_copy (n : Net) (f : Nat → Nat) (hf : Function.Injective f) (hb : Buffered n) : Sync (copyNet f n) :=
  sync_copy f hf hb

theorem C06_copy_lanelets (n : Net) (f : Nat → Nat) :
    (copyNet f n).lanelets.map (fun l => (l.id, l.poly.ring)) = n.lanelets.map (fun l => (l.id, l.poly.ring)) := by
  simp [copyNet, createStrtree, relabelL, List.map_map, Function.comp_def]

/-- On a synchronised index `find_lanelet_by_position` returns, for every point, exactly the lanelets whose polygon
    satisfies the predicate — nothing omitted, nothing mis-mapped, nothing twice, no `KeyError`. -/
theorem C06_find_eq_scan (within : List Pt → Pt → Bool) (n : Net) (hs : Sync n) (pts : List Pt) :
    findByPosition within n pts =
      .ok (pts.map (fun p => (n.lanelets.filter (fun l => within l.poly.ring p)).map (·.id))) := by
  unfold findByPosition
  rw [tree_sync hs]
  exact mapM_ok _ _ _ (fun p _ => scan_sync hs (fun ring => within ring p))

/-- The same for `find_lanelet_by_shape` with a Circle / Polygon / Rectangle. -/
theorem C06_findShape_eq_scan (meets : List Pt → Prim → Bool) (n : Net) (hs : Sync n) (s : Prim) :
    findByShape meets n (.prim s) = .ok ((n.lanelets.filter (fun l => meets l.poly.ring s)).map (·.id)) := by
  unfold findByShape findPrim
  rw [tree_sync hs]
  exact scan_sync hs (fun ring => meets ring s)

theorem mem_appendNew (res ids : List Int) (i : Int) : i ∈ appendNew res ids ↔ i ∈ res ∨ i ∈ ids := by
  induction ids generalizing res with
  | nil => simp [appendNew]
  | cons a as ih =>
    simp only [appendNew, ih, List.mem_cons]
    by_cases h : a ∈ res
    · simp only [h, if_true]
      constructor
      · rintro (h1 | h1) <;> [exact Or.inl h1; exact Or.inr (Or.inr h1)]
      · rintro (h1 | h1 | h1)
        · exact Or.inl h1
        · subst h1; exact Or.inl h
        · exact Or.inr h1
    · simp only [h, if_false, List.mem_append, List.mem_singleton]
      tauto

theorem nodup_appendNew (res ids : List Int) (h : res.Nodup) : (appendNew res ids).Nodup := by
  induction ids generalizing res with
  | nil => simpa [appendNew]
  | cons a as ih =>
    simp only [appendNew]
    apply ih
    by_cases ha : a ∈ res
    · simpa [ha] using h
    · simp only [ha, if_false]
      exact List.nodup_append.mpr ⟨h, by simp, by intro x hx y hy; simp at hy; subst hy; intro hxy; exact ha (hxy ▸ hx)⟩

/-- A ShapeGroup query on a synchronised index returns, each once, exactly the lanelets whose polygon meets
    SOME member of the group (the group denotes the union of its shapes), and never fails. -/
theorem C06_findShape_group (meets : List Pt → Prim → Bool) (n : Net) (hs : Sync n) (ss : List Prim) :
    ∃ r, findByShape meets n (.group ss) = .ok r ∧ r.Nodup ∧
      ∀ i, i ∈ r ↔ ∃ l ∈ n.lanelets, l.id = i ∧ ss.any (meets l.poly.ring) = true := by
  have key : ∀ (ss : List Prim) (res : List Int), res.Nodup →
      ∃ r, findGroup meets n res ss = .ok r ∧ r.Nodup ∧
        ∀ i, i ∈ r ↔ i ∈ res ∨ ∃ l ∈ n.lanelets, l.id = i ∧ ss.any (meets l.poly.ring) = true := by
    intro ss
    induction ss with
    | nil => intro res h; exact ⟨res, rfl, h, by simp⟩
    | cons s ss ih =>
      intro res h
      have hp := C06_findShape_eq_scan meets n hs s
      simp only [findByShape] at hp
      simp only [findGroup, hp]
      obtain ⟨r, hr, hnd, hmem⟩ := ih _ (nodup_appendNew res _ h)
      refine ⟨r, hr, hnd, ?_⟩
      intro i
      rw [hmem, mem_appendNew]
      simp only [List.mem_map, List.mem_filter, List.any_cons, Bool.or_eq_true]
      constructor
      · rintro ((h1 | ⟨l, ⟨hl, hm⟩, rfl⟩) | ⟨l, hl, rfl, hm⟩)
        · exact Or.inl h1
        · exact Or.inr ⟨l, hl, rfl, Or.inl hm⟩
        · exact Or.inr ⟨l, hl, rfl, Or.inr hm⟩
      · rintro (h1 | ⟨l, hl, rfl, (hm | hm)⟩)
        · exact Or.inl (Or.inl h1)
        · exact Or.inl (Or.inr ⟨l, ⟨hl, hm⟩, rfl⟩)
        · exact Or.inr ⟨l, hl, rfl, hm⟩
  obtain ⟨r, hr, hnd, hmem⟩ := key ss [] List.nodup_nil
  exact ⟨r, hr, hnd, by intro i; rw [hmem]; simp⟩

/-- End to end: a network built from scratch by any admissible sequence of rebuilding operations answers position
    queries by the scan of its current lanelets. -/
theorem C06_lookup_after_ops (within : List Pt → Pt → Bool) (ops : List Op) (ha : AdmSeq Net.empty ops)
    (hr : ∀ o ∈ ops, rebuilds o = true) (pts : List Pt) :
    ∃ n, run Net.empty ops = .ok n ∧
      findByPosition within n pts = .ok (pts.map (fun p => (n.lanelets.filter (fun l => within l.poly.ring p)).map (·.id))) := by
  obtain ⟨n, h, hs⟩ := C06_sync_default ops Net.empty sync_empty ha hr
  exact ⟨n, h, C06_find_eq_scan within n hs pts⟩

/-- Non-vacuity / the hypotheses matter: after `add_lanelet(l, rtree=False)` on an empty network the lanelet is in the
    network but the (stale) index does not report it. -/
theorem C06_witness_stale :
    let l : Lanelet := ⟨7, ⟨1, []⟩⟩
    let n := (addLanelet Net.empty l false).1
    Buffered n ∧ n.lanelets.map (·.id) = [7] ∧ findByPosition (fun _ _ => true) n [⟨0, 0⟩] = .ok [[]] := by
  refine ⟨buffered_add _ false sync_empty.1 (by simp [Net.empty]), by decide, by decide⟩

example : AdmSeq Net.empty [.add ⟨7, ⟨1, []⟩⟩ true, .add ⟨8, ⟨2, []⟩⟩ false, .copy (· + 10), .remove 7 true] := by
  refine ⟨by simp [Adm, Net.empty], fun n1 h1 => ⟨?_, fun n2 h2 => ⟨?_, fun n3 h3 => ⟨trivial, fun _ _ => trivial⟩⟩⟩⟩
  · cases h1; show (2 : Nat) ∉ _; decide
  · intro a b h; simpa using h

/-! ## Part II b — lookups by shape through the exact intersection predicates

  `meets` instantiated: a lanelet polygon meets a Rectangle / Polygon query iff `ringsMeet` holds for the two vertex
  rings (two edges meet or a vertex of one lies in the other), a Circle query iff `discMeetsRing` holds for the disc the
  code exports (radius r/2, known finding).  That GEOS's `intersects` computes these predicates is compared by the
  harness on exact-grid inputs (case kind `meets`: touching edges, shared vertices, containment without edge crossing),
  not proved. -/

/-- `ringsMeet` does not depend on the order of its arguments (as `intersects` does not). -/
theorem C06_ringsMeet_symm (A B : List Pt) : ringsMeet A B = ringsMeet B A := ringsMeet_symm A B

theorem C06_segMeet_symm (a b c d : Pt) : segMeet a b c d = segMeet c d a b := segMeet_symm a b c d

/-- Translation invariance of the intersection predicates. -/
theorem C06_ringsMeet_translate (A B : List Pt) (t : Pt) :
    ringsMeet (A.map (·.add t)) (B.map (·.add t)) = ringsMeet A B := ringsMeet_add A B t

theorem C06_discMeetsRing_translate (ctr : Pt) (r : Rat) (A : List Pt) (t : Pt) :
    discMeetsRing (ctr.add t) r (A.map (·.add t)) = discMeetsRing ctr r A := discMeetsRing_add ctr r A t

theorem C06_withinTol_translate (tol : Rat) (A : List Pt) (p t : Pt) :
    withinTol tol (A.map (·.add t)) (p.add t) = withinTol tol A p := withinTol_add tol A p t

/-- Degenerate cases agree with point membership: a polygon meets a point iff the point is in the polygon, a
    segment meets a point iff the point is on it, a disc meets a point iff the point is in the disc. -/
theorem C06_ringsMeet_point (A : List Pt) (p : Pt) : ringsMeet A [p] = inRing A p := ringsMeet_point A p

theorem C06_segMeet_point (a b p : Pt) : segMeet a b p p = onSeg a b p := segMeet_point a b p

theorem C06_discMeetsRing_point (ctr : Pt) (r : Rat) (p : Pt) : discMeetsRing ctr r [p] = inDisc ctr r p :=
  discMeetsRing_point ctr r p

/-- Tolerance / radius 0 is point membership (`dwithin(·, 0)` = `intersects`; a disc that is a point). -/
theorem C06_withinTol_zero (A : List Pt) (p : Pt) : withinTol 0 A p = inRing A p := withinTol_zero A p

theorem C06_discMeetsRing_zero (ctr : Pt) (A : List Pt) : discMeetsRing ctr 0 A = inRing A ctr :=
  discMeetsRing_zero ctr A

/-- Soundness: the predicates report only pairs that really share a point — two segments (the crossing point is
    exhibited: `a + d₃/(d₃ - d₄)·(b - a)`), two polygons, a polygon and a disc, a polygon and a point within `tol`. -/
theorem C06_segMeet_sound (a b c d : Pt) (h : segMeet a b c d = true) :
    ∃ q, onSeg a b q = true ∧ onSeg c d q = true := segMeet_sound a b c d h

theorem C06_ringsMeet_sound (A B : List Pt) (h : ringsMeet A B = true) :
    ∃ q, inRing A q = true ∧ inRing B q = true := ringsMeet_sound A B h

theorem C06_discMeetsRing_sound (ctr : Pt) (r : Rat) (A : List Pt) (h : discMeetsRing ctr r A = true) :
    ∃ q, inRing A q = true ∧ inDisc ctr r q = true := discMeetsRing_sound ctr r A h

theorem C06_withinTol_sound (tol : Rat) (A : List Pt) (p : Pt) (h : withinTol tol A p = true) :
    ∃ q, inRing A q = true ∧ d2 q p ≤ tol * tol := withinTol_sound tol A p h

/-- Exactness at the level of segments: `segMeet` holds iff the two closed segments have a common point (proper
    crossing, touching in an end point, and every collinear overlap included), `segNear` iff some point of the closed
    segment is within the squared distance. -/
theorem C06_segMeet_exact (a b c d : Pt) :
    segMeet a b c d = true ↔ ∃ q, onSeg a b q = true ∧ onSeg c d q = true := segMeet_iff a b c d

theorem C06_segNear_exact (a b p : Pt) (r2 : Rat) :
    segNear a b p r2 = true ↔ ∃ q, onSeg a b q = true ∧ d2 q p ≤ r2 := segNear_iff a b p r2

/-- Hence: `ringsMeet` holds iff the two boundaries share a point or a vertex of one polygon lies in the other … -/
theorem C06_ringsMeet_iff (A B : List Pt) : ringsMeet A B = true ↔
    (∃ e ∈ edges A, ∃ f ∈ edges B, ∃ q, onSeg e.1 e.2 q = true ∧ onSeg f.1 f.2 q = true) ∨
    (∃ a ∈ A, inRing B a = true) ∨ (∃ b ∈ B, inRing A b = true) := ringsMeet_iff A B

/-- … `discMeetsRing` iff the centre lies in the polygon or a boundary point is within `r` of it, `withinTol` likewise. -/
theorem C06_discMeetsRing_iff (ctr : Pt) (r : Rat) (A : List Pt) : discMeetsRing ctr r A = true ↔
    0 ≤ r ∧ (inRing A ctr = true ∨ ∃ e ∈ edges A, ∃ q, onSeg e.1 e.2 q = true ∧ d2 q ctr ≤ r * r) :=
  discMeetsRing_iff ctr r A

theorem C06_withinTol_iff (tol : Rat) (A : List Pt) (p : Pt) : withinTol tol A p = true ↔
    (inRing A p = true ∨ ∃ e ∈ edges A, ∃ q, onSeg e.1 e.2 q = true ∧ d2 q p ≤ tol * tol) := withinTol_iff tol A p

/-- Full statement of exactness of `ringsMeet` for simple polygons: it holds iff the closed polygons share a point.
    Proved: the direction above (`C06_ringsMeet_sound`), the exact meaning of the predicate (`C06_ringsMeet_iff`: the
    boundaries share a point or a vertex of one lies in the other), the case of a common vertex, the degenerate cases.
    Missing: "a common point of two polygons always shows as a boundary contact or a contained vertex", which needs that the crossing parity does not
    change along a segment that avoids the ring (the core of the Jordan curve theorem for polygons); the harness
    compares with GEOS and with an independent exact implementation on every `meets` / `net` / `obst` case instead. -/
def C06_ringsMeet_exact_full : Prop :=
  ∀ (A B : List Pt), (∃ q, inRing A q = true ∧ inRing B q = true) → ringsMeet A B = true

/-- A vertex of a polygon lies in it, hence two polygons sharing a vertex meet. -/
theorem C06_ringsMeet_of_common_vertex (A B : List Pt) (v : Pt) (ha : v ∈ A) (hb : v ∈ B) : ringsMeet A B = true := by
  simp only [ringsMeet, Bool.or_eq_true, List.any_eq_true]
  exact Or.inl (Or.inr ⟨v, ha, inRing_of_mem hb⟩)

example : ringsMeet [⟨0, 0⟩, ⟨4, 0⟩, ⟨4, 2⟩, ⟨0, 2⟩] [⟨4, 1⟩, ⟨6, 0⟩, ⟨6, 3⟩] = true ∧          -- a vertex on an edge
    ringsMeet [⟨0, 0⟩, ⟨4, 0⟩, ⟨4, 2⟩, ⟨0, 2⟩] [⟨1, 1⟩, ⟨2, 1⟩, ⟨1, 3 / 2⟩] = true ∧              -- inside, no edge contact
    ringsMeet [⟨0, 0⟩, ⟨4, 0⟩, ⟨4, 2⟩, ⟨0, 2⟩] [⟨4 + 1 / 256, 1⟩, ⟨6, 0⟩, ⟨6, 3⟩] = false ∧        -- just off
    discMeetsRing ⟨6, 1⟩ 2 [⟨0, 0⟩, ⟨4, 0⟩, ⟨4, 2⟩, ⟨0, 2⟩] = true ∧                               -- tangent disc
    discMeetsRing ⟨6, 1⟩ (2 - 1 / 256) [⟨0, 0⟩, ⟨4, 0⟩, ⟨4, 2⟩, ⟨0, 2⟩] = false := by decide +kernel

/-- `find_lanelet_by_position` with the exact predicate: the lanelets whose polygon is within `tol` of the point; for
    tolerance 0 exactly those whose polygon contains it. -/
theorem C06_find_position_exact (n : Net) (hs : Sync n) (pts : List Pt) :
    findByPosition (withinTol 0) n pts =
      .ok (pts.map (fun p => (n.lanelets.filter (fun l => inRing l.poly.ring p)).map (·.id))) := by
  rw [C06_find_eq_scan (withinTol 0) n hs pts]
  simp only [withinTol_zero]

/-- `find_lanelet_by_shape(Polygon)` on a synchronised index: exactly the lanelets whose polygon ring meets the
    query ring. -/
theorem C06_findShape_poly (n : Net) (hs : Sync n) (vs : List Pt) :
    findByShape ringMeets n (.prim (.poly vs)) =
      .ok ((n.lanelets.filter (fun l => ringsMeet l.poly.ring vs)).map (·.id)) :=
  C06_findShape_eq_scan ringMeets n hs (.poly vs)

/-- `find_lanelet_by_shape(Rectangle)`: the lanelets whose polygon ring meets the ring of the exported vertices, which
    (`C06_rect_ring_eq_box`) bounds exactly the `l`-by-`w` box at the rectangle's pose. -/
theorem C06_findShape_rect (n : Net) (hs : Sync n) (l w : Rat) (ctr : Pt) (c s : Rat) :
    findByShape ringMeets n (.prim (.rect l w ctr c s)) =
      .ok ((n.lanelets.filter (fun k => ringsMeet k.poly.ring (rectVerts l w ctr c s))).map (·.id)) :=
  C06_findShape_eq_scan ringMeets n hs (.rect l w ctr c s)

/-- `find_lanelet_by_shape(Circle)`, the code as it is: the lanelets whose polygon meets the disc of radius r/2
    (known finding `C06/find_lanelet_by_shape/misses/circ`; the property asks for radius r). -/
theorem C06_findShape_circ (n : Net) (hs : Sync n) (r : Rat) (ctr : Pt) :
    findByShape ringMeets n (.prim (.circ r ctr)) =
      .ok ((n.lanelets.filter (fun k => discMeetsRing ctr (r / 2) k.poly.ring)).map (·.id)) :=
  C06_findShape_eq_scan ringMeets n hs (.circ r ctr)

/-- `Lanelet.get_obstacles` with the exact predicates: an obstacle with a polygon occupancy is reported iff the rings meet. -/
theorem C06_getObstacles_poly (l : Lanelet) (obs : List Obst) (o : Obst) (vs : List Pt) (ho : o.shape = .prim (.poly vs)) :
    o ∈ getObstacles ringMeets l obs ↔ o ∈ obs ∧ ringsMeet l.poly.ring vs = true := by
  simp [getObstacles, List.mem_filter, ho, hits, ringMeets]

/-! ## Part III — obstacles on lanelets -/

/-- `Lanelet.get_obstacles` returns exactly the candidates whose occupancy (any member of a group) meets the polygon. -/
theorem C06_getObstacles_iff (meets : List Pt → Prim → Bool) (l : Lanelet) (obs : List Obst) (o : Obst) :
    o ∈ getObstacles meets l obs ↔ o ∈ obs ∧ hits meets l.poly.ring o.shape = true := by
  simp [getObstacles, List.mem_filter]

/-- `map_obstacles_to_lanelets`: an entry for exactly the lanelets with a non-empty answer, carrying that answer. -/
theorem C06_mapObstacles_iff (meets : List Pt → Prim → Bool) (n : Net) (obs : List Obst) (i : Int) (os : List Obst) :
    (i, os) ∈ mapObstacles meets n obs ↔
      ∃ l ∈ n.lanelets, l.id = i ∧ os = getObstacles meets l obs ∧ os ≠ [] := by
  simp only [mapObstacles, List.mem_filterMap]
  constructor
  · rintro ⟨l, hl, h⟩
    by_cases he : (getObstacles meets l obs).isEmpty = true
    · simp [he] at h
    · simp only [he] at h
      simp only [Bool.false_eq_true, if_false, Option.some.injEq, Prod.mk.injEq] at h
      refine ⟨l, hl, h.1, h.2.symm, ?_⟩
      rw [← h.2]; intro hc; exact he (by rw [hc]; rfl)
  · rintro ⟨l, hl, rfl, rfl, hne⟩
    refine ⟨l, hl, ?_⟩
    have : (getObstacles meets l obs).isEmpty = false := by
      cases h : getObstacles meets l obs with
      | nil => exact absurd h hne
      | cons _ _ => rfl
    simp [this]

/-- `filter_obstacles_in_network` keeps exactly the candidates that meet some lanelet polygon, each once. -/
theorem C06_filterObstacles_iff (meets : List Pt → Prim → Bool) (n : Net) (obs : List Obst) (o : Obst) :
    o ∈ filterObstacles meets n obs ↔ o ∈ obs ∧ ∃ l ∈ n.lanelets, hits meets l.poly.ring o.shape = true := by
  unfold filterObstacles
  rw [mem_dedupInto]
  simp only [List.not_mem_nil, false_or, List.mem_flatMap]
  constructor
  · rintro ⟨⟨i, os⟩, he, ho⟩
    obtain ⟨l, hl, _, rfl, _⟩ := (C06_mapObstacles_iff meets n obs i os).mp he
    have := (C06_getObstacles_iff meets l obs o).mp ho
    exact ⟨this.1, l, hl, this.2⟩
  · rintro ⟨ho, l, hl, hh⟩
    have hm : o ∈ getObstacles meets l obs := (C06_getObstacles_iff meets l obs o).mpr ⟨ho, hh⟩
    refine ⟨(l.id, getObstacles meets l obs), ?_, hm⟩
    exact (C06_mapObstacles_iff meets n obs _ _).mpr ⟨l, hl, rfl, rfl, List.ne_nil_of_mem hm⟩

theorem C06_filterObstacles_nodup (meets : List Pt → Prim → Bool) (n : Net) (obs : List Obst) :
    (filterObstacles meets n obs).Nodup :=
  nodup_dedupInto _ [] List.nodup_nil

end CR.Props.C06
