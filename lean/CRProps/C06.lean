import CRModel.Index
namespace CR.Props.C06
open CR.Geom CR.Index

theorem C06_stub : Net.empty.lanelets = [] := rfl

end CR.Props.C06
