/-
  C16 — Interval and AngleInterval behave as the closed sets they denote.
  Model: CRModel/Interval.lean (mirror of commonroad/common/util.py:28-236).
  All statements are over `Rat` (every float value is a rational); `τ > 0` is the value of TWO_PI,
  `ε` the end-point tolerance (`0` gives the exact statement of the property; the code uses 1e-10).
-/
import CRProofs.Interval
namespace CR.Iv

/-- Membership in the closed set `[lo, hi]`. -/
def Mem (i : I) (x : Rat) : Prop := i.lo ≤ x ∧ x ≤ i.hi
/-- A constructed interval (what `mk` returns). -/
def Valid (i : I) : Prop := i.lo ≤ i.hi

/-! ### plain intervals -/

theorem C16_contains_iff (i : I) (x : Rat) : contains i x = true ↔ i.lo ≤ x ∧ x ≤ i.hi := by
  simp [contains]

theorem C16_mk_ok_iff (a b : Rat) : (∃ i, mk a b = .ok i) ↔ a ≤ b := by
  unfold mk; split <;> simp_all

/-- constructing an interval with start > end is rejected. -/
theorem C16_mk_rejects (a b : Rat) (h : b < a) : mk a b = .error .assert := by
  unfold mk; rw [if_neg (not_le.mpr h)]

theorem C16_mk_valid (a b : Rat) (i : I) (h : mk a b = .ok i) : Valid i ∧ i.lo = a ∧ i.hi = b := by
  unfold mk at h; split at h
  · cases h; exact ⟨by assumption, rfl, rfl⟩
  · cases h

/-- (definitional: documents the model's setters, carries no proof content; the setters are tied to the source by T16.tie_setters) -/
theorem C16_setters (i : I) (x : Rat) :
    (setStart i x = if x ≤ i.hi then .ok ⟨x, i.hi⟩ else .error .assert) ∧
    (setEnd i x = if i.lo ≤ x then .ok ⟨i.lo, x⟩ else .error .assert) := ⟨rfl, rfl⟩

/-- containment of an interval means containment of all its points. -/
theorem C16_containsI_iff (i j : I) (hj : Valid j) :
    containsI i j = true ↔ ∀ x, Mem j x → Mem i x := by
  unfold Valid at hj
  simp only [containsI, Bool.and_eq_true, decide_eq_true_eq, Mem]
  constructor
  · rintro ⟨h1, h2⟩ x ⟨h3, h4⟩; exact ⟨le_trans h1 h3, le_trans h4 h2⟩
  · intro h
    exact ⟨(h j.lo ⟨le_refl _, hj⟩).1, (h j.hi ⟨hj, le_refl _⟩).2⟩

/-- overlaps is exactly non-empty set intersection. -/
theorem C16_overlaps_iff (i j : I) (hi : Valid i) (hj : Valid j) :
    overlaps i j = true ↔ ∃ x, Mem i x ∧ Mem j x := by
  unfold Valid at hi hj
  simp only [overlaps, Bool.and_eq_true, decide_eq_true_eq, Mem]
  constructor
  · rintro ⟨h1, h2⟩
    refine ⟨max i.lo j.lo, ⟨le_max_left _ _, max_le hi h1⟩, ⟨le_max_right _ _, max_le h2 hj⟩⟩
  · rintro ⟨x, ⟨a, b⟩, ⟨c, d⟩⟩
    exact ⟨le_trans c b, le_trans a d⟩

/-- intersection is exactly set intersection; `None` iff empty; never raises. -/
theorem C16_inter_spec (i j : I) (hi : Valid i) (hj : Valid j) :
    (∃ k, intersection i j = .ok (some k) ∧ Valid k ∧ ∀ x, Mem k x ↔ (Mem i x ∧ Mem j x))
    ∨ (intersection i j = .ok none ∧ ¬ ∃ x, Mem i x ∧ Mem j x) := by
  by_cases ho : overlaps i j = true
  · left
    have ho' := ho
    simp only [overlaps, Bool.and_eq_true, decide_eq_true_eq] at ho'
    unfold Valid at hi hj
    have hv : max i.lo j.lo ≤ min i.hi j.hi :=
      max_le (le_min hi ho'.2) (le_min ho'.1 hj)
    refine ⟨⟨max i.lo j.lo, min i.hi j.hi⟩, ?_, hv, ?_⟩
    · simp [intersection, ho, mk, hv, Except.map]
    · intro x; simp only [Mem, max_le_iff, le_min_iff]; tauto
  · right
    refine ⟨by simp [intersection, ho], ?_⟩
    rw [← C16_overlaps_iff i j hi hj]; exact ho

/-- shifting gives the image set with start ≤ end and never raises. -/
theorem C16_add_image (i : I) (k : Rat) (hi : Valid i) :
    ∃ r, add i k = .ok r ∧ Valid r ∧ ∀ y, Mem r y ↔ ∃ x, Mem i x ∧ y = x + k := by
  unfold Valid at hi
  refine ⟨⟨i.lo + k, i.hi + k⟩, by simp [add, mk, hi], by simp [Valid, hi], ?_⟩
  intro y; simp only [Mem]
  constructor
  · rintro ⟨a, b⟩; exact ⟨y - k, ⟨by linarith, by linarith⟩, by ring⟩
  · rintro ⟨x, ⟨a, b⟩, rfl⟩; exact ⟨by linarith, by linarith⟩

theorem C16_sub_image (i : I) (k : Rat) (hi : Valid i) :
    ∃ r, sub i k = .ok r ∧ Valid r ∧ ∀ y, Mem r y ↔ ∃ x, Mem i x ∧ y = x - k := by
  unfold Valid at hi
  refine ⟨⟨i.lo - k, i.hi - k⟩, by simp [sub, mk, hi], by simp [Valid, hi], ?_⟩
  intro y; simp only [Mem]
  constructor
  · rintro ⟨a, b⟩; exact ⟨y + k, ⟨by linarith, by linarith⟩, by ring⟩
  · rintro ⟨x, ⟨a, b⟩, rfl⟩; exact ⟨by linarith, by linarith⟩

/-- multiplying by a scalar of either sign (or zero) gives the image set with start ≤ end. -/
theorem C16_mul_image (i : I) (k : Rat) (hi : Valid i) :
    ∃ r, mul i k = .ok r ∧ Valid r ∧ ∀ y, Mem r y ↔ ∃ x, Mem i x ∧ y = x * k := by
  unfold Valid at hi
  rcases lt_trichotomy k 0 with hk | hk | hk
  · have hk0 : k ≠ 0 := ne_of_lt hk
    have hv : i.hi * k ≤ i.lo * k := mul_le_mul_of_nonpos_right hi (le_of_lt hk)
    refine ⟨⟨i.hi * k, i.lo * k⟩, by simp [mul, mk, hv, not_lt.mpr (le_of_lt hk)], hv, ?_⟩
    intro y; simp only [Mem]
    constructor
    · rintro ⟨a, b⟩
      refine ⟨y / k, ⟨?_, ?_⟩, by field_simp⟩
      · rw [le_div_iff_of_neg hk]; exact b
      · rw [div_le_iff_of_neg hk]; exact a
    · rintro ⟨x, ⟨a, b⟩, rfl⟩
      exact ⟨mul_le_mul_of_nonpos_right b (le_of_lt hk), mul_le_mul_of_nonpos_right a (le_of_lt hk)⟩
  · subst hk
    refine ⟨⟨0, 0⟩, by simp [mul, mk], by simp [Valid], ?_⟩
    intro y; simp only [Mem]
    constructor
    · rintro ⟨a, b⟩; exact ⟨i.lo, ⟨le_refl _, hi⟩, by linarith⟩
    · rintro ⟨x, _, rfl⟩; simp
  · have hk0 : k ≠ 0 := ne_of_gt hk
    have hv : i.lo * k ≤ i.hi * k := mul_le_mul_of_nonneg_right hi (le_of_lt hk)
    refine ⟨⟨i.lo * k, i.hi * k⟩, by simp [mul, mk, hv, hk], hv, ?_⟩
    intro y; simp only [Mem]
    constructor
    · rintro ⟨a, b⟩
      refine ⟨y / k, ⟨?_, ?_⟩, by field_simp⟩
      · rw [le_div_iff₀ hk]; exact a
      · rw [div_le_iff₀ hk]; exact b
    · rintro ⟨x, ⟨a, b⟩, rfl⟩
      exact ⟨mul_le_mul_of_nonneg_right a (le_of_lt hk), mul_le_mul_of_nonneg_right b (le_of_lt hk)⟩

/-- dividing by a non-zero scalar of either sign gives the image set with start ≤ end. -/
theorem C16_div_image (i : I) (k : Rat) (hi : Valid i) (hk0 : k ≠ 0) :
    ∃ r, div i k = .ok r ∧ Valid r ∧ ∀ y, Mem r y ↔ ∃ x, Mem i x ∧ y = x / k := by
  unfold Valid at hi
  rcases lt_or_gt_of_ne hk0 with hk | hk
  · have hv : i.hi / k ≤ i.lo / k := div_le_div_of_nonpos_of_le (le_of_lt hk) hi
    refine ⟨⟨i.hi / k, i.lo / k⟩, by simp [div, mk, hv, hk0, not_lt.mpr (le_of_lt hk)], hv, ?_⟩
    intro y; simp only [Mem]
    constructor
    · rintro ⟨a, b⟩
      refine ⟨y * k, ⟨?_, ?_⟩, by field_simp⟩
      · rw [le_div_iff_of_neg hk] at b; exact b
      · rw [div_le_iff_of_neg hk] at a; exact a
    · rintro ⟨x, ⟨a, b⟩, rfl⟩
      exact ⟨div_le_div_of_nonpos_of_le (le_of_lt hk) b, div_le_div_of_nonpos_of_le (le_of_lt hk) a⟩
  · have hv : i.lo / k ≤ i.hi / k := div_le_div_of_nonneg_right hi (le_of_lt hk)
    refine ⟨⟨i.lo / k, i.hi / k⟩, by simp [div, mk, hv, hk0, hk], hv, ?_⟩
    intro y; simp only [Mem]
    constructor
    · rintro ⟨a, b⟩
      refine ⟨y * k, ⟨?_, ?_⟩, by field_simp⟩
      · rw [div_le_iff₀ hk] at a; exact a
      · rw [le_div_iff₀ hk] at b; exact b
    · rintro ⟨x, ⟨a, b⟩, rfl⟩
      exact ⟨div_le_div_of_nonneg_right a (le_of_lt hk), div_le_div_of_nonneg_right b (le_of_lt hk)⟩

/-- dividing by zero is the only way `/` fails. -/
theorem C16_div_zero (i : I) : div i 0 = .error .zeroDiv := by simp [div]

/-- rounding with any monotone rounding function gives a valid interval containing the image. -/
theorem C16_round_image (rnd : Rat → Rat) (hm : ∀ a b, a ≤ b → rnd a ≤ rnd b) (i : I) (hi : Valid i) :
    ∃ r, round rnd i = .ok r ∧ Valid r ∧ r.lo = rnd i.lo ∧ r.hi = rnd i.hi ∧ ∀ x, Mem i x → Mem r (rnd x) := by
  have hv := hm _ _ hi
  refine ⟨⟨rnd i.lo, rnd i.hi⟩, by simp [round, mk, hv], hv, rfl, rfl, ?_⟩
  rintro x ⟨a, b⟩; exact ⟨hm _ _ a, hm _ _ b⟩

theorem C16_length (i : I) (hi : Valid i) : 0 ≤ length i ∧ length i = i.hi - i.lo := by
  unfold Valid at hi; unfold length; exact ⟨by linarith, rfl⟩

/-- strict order predicates: every point of one lies beyond the other / the number. -/
theorem C16_order (i j : I) (x : Rat) (hi : Valid i) (hj : Valid j) :
    (gtNum i x = true ↔ ∀ y, Mem i y → x < y) ∧ (ltNum i x = true ↔ ∀ y, Mem i y → y < x) ∧
    (gtI i j = true ↔ ∀ y z, Mem i y → Mem j z → z < y) ∧ (ltI i j = true ↔ ∀ y z, Mem i y → Mem j z → y < z) := by
  unfold Valid at hi hj
  simp only [gtNum, ltNum, gtI, ltI, decide_eq_true_eq, Mem]
  refine ⟨⟨fun h y hy => lt_of_lt_of_le h hy.1, fun h => h i.lo ⟨le_refl _, hi⟩⟩,
          ⟨fun h y hy => lt_of_le_of_lt hy.2 h, fun h => h i.hi ⟨hi, le_refl _⟩⟩,
          ⟨fun h y z hy hz => lt_of_le_of_lt hz.2 (lt_of_lt_of_le h hy.1),
           fun h => h i.lo j.hi ⟨le_refl _, hi⟩ ⟨hj, le_refl _⟩⟩,
          ⟨fun h y z hy hz => lt_of_le_of_lt hy.2 (lt_of_lt_of_le h hz.1),
           fun h => h i.hi j.lo ⟨hi, le_refl _⟩ ⟨le_refl _, hj⟩⟩⟩

/-! ### angle intervals -/

/-- The set of angles an angle interval denotes, with end-point tolerance `ε`:
    `θ + kτ ∈ [lo - ε, hi + ε]` for some integer `k`. -/
def AMem (τ ε : Rat) (i : I) (θ : Rat) : Prop := ∃ k : Int, i.lo - ε ≤ θ + k * τ ∧ θ + k * τ ≤ i.hi + ε

/-- Angle membership, for EVERY interval length (also > π), any `θ` (int or float — both are rationals):
    `θ ∈ [lo, hi]` iff `θ + 2πk` lies in `[lo-ε, hi+ε]` for some integer `k`. -/
theorem C16_angle_contains_iff (τ ε : Rat) (hτ : 0 < τ) (hε0 : 0 ≤ ε) (hε : ε < τ) (i : I) (hi : Valid i) (θ : Rat) :
    containsAngle τ ε i θ = true ↔ AMem τ ε i θ := by
  unfold Valid at hi
  obtain ⟨m, hm⟩ := wrap_exists τ (θ - i.lo)
  have h0 := wrap_nonneg hτ (θ - i.lo)
  have h1 := wrap_lt hτ (θ - i.lo)
  simp only [containsAngle, Bool.or_eq_true, decide_eq_true_eq, AMem]
  constructor
  · rintro (h | h)
    · exact ⟨m, by linarith, by linarith⟩
    · refine ⟨m - 1, ?_, ?_⟩ <;> push_cast <;> linarith
  · rintro ⟨k, ha, hb⟩
    have hw : wrap τ (θ - i.lo) = wrap τ (θ + k * τ - i.lo) := by
      rw [show θ + k * τ - i.lo = (θ - i.lo) + k * τ by ring, wrap_add_int hτ]
    set x := θ + k * τ - i.lo with hx
    by_cases hx0 : 0 ≤ x
    · by_cases hx1 : x < τ
      · left
        rw [hw, wrap_unique hτ x 0 (by simpa using hx0) (by simpa using hx1)]
        simp; linarith
      · left; push Not at hx1; linarith
    · right
      push Not at hx0
      rw [hw, wrap_unique hτ x 1 (by push_cast; linarith) (by push_cast; linarith)]
      push_cast; linarith

/-- The exact statement of the property (`ε = 0`). -/
theorem C16_angle_contains_exact (τ : Rat) (hτ : 0 < τ) (i : I) (hi : Valid i) (θ : Rat) :
    containsAngle τ 0 i θ = true ↔ ∃ k : Int, i.lo ≤ θ + k * τ ∧ θ + k * τ ≤ i.hi := by
  have := C16_angle_contains_iff τ 0 hτ (le_refl _) hτ i hi θ
  simpa [AMem] using this

/-- Containment of an angle interval means containment of all its angles (exact, `ε = 0`). -/
theorem C16_angle_containsI_iff (τ : Rat) (hτ : 0 < τ) (i j : I) (hi : Valid i) (hj : Valid j)
    (hli : i.hi - i.lo < τ) :
    containsAngleI τ 0 i j = true ↔ ∀ θ, containsAngle τ 0 j θ = true → containsAngle τ 0 i θ = true := by
  unfold Valid at hi hj
  obtain ⟨m, hm⟩ := wrap_exists τ (j.lo - i.lo)
  have h0 := wrap_nonneg hτ (j.lo - i.lo)
  have h1 := wrap_lt hτ (j.lo - i.lo)
  have hd : containsAngleI τ 0 i j = true ↔ wrap τ (j.lo - i.lo) + (j.hi - j.lo) ≤ i.hi - i.lo := by
    simp only [containsAngleI, sub_zero, add_zero, decide_eq_true_eq, not_le.mpr h1, if_false]
  rw [hd]
  constructor
  · intro h θ hθ
    rw [C16_angle_contains_exact τ hτ j hj] at hθ
    rw [C16_angle_contains_exact τ hτ i hi]
    obtain ⟨k, ha, hb⟩ := hθ
    refine ⟨k + m, ?_, ?_⟩ <;> push_cast <;> linarith
  · intro h
    by_contra hc
    push Not at hc
    -- an angle of j at offset strictly between the length of i and min(τ, offset + length of j)
    set d := wrap τ (j.lo - i.lo) with hdd
    have hdle : d ≤ i.hi - i.lo := by
      have := h j.lo (by rw [C16_angle_contains_exact τ hτ j hj]; exact ⟨0, by simp, by simpa using hj⟩)
      rw [C16_angle_contains_exact τ hτ i hi] at this
      obtain ⟨k, ha, hb⟩ := this
      have : d = j.lo - i.lo + k * τ :=
        wrap_unique hτ (j.lo - i.lo) k (by linarith) (by linarith)
      linarith
    set u := min τ (d + (j.hi - j.lo)) with hu
    have hu1 : i.hi - i.lo < u := lt_min hli hc
    set off := (i.hi - i.lo + u) / 2 with hoff
    have ho1 : i.hi - i.lo < off := by rw [hoff]; linarith
    have ho2 : off < u := by rw [hoff]; linarith
    have ho3 : off < τ := lt_of_lt_of_le ho2 (min_le_left _ _)
    have ho4 : off < d + (j.hi - j.lo) := lt_of_lt_of_le ho2 (min_le_right _ _)
    -- θ := j.lo + (off - d) lies in j
    have hθj : containsAngle τ 0 j (j.lo + (off - d)) = true := by
      rw [C16_angle_contains_exact τ hτ j hj]
      exact ⟨0, by simp; linarith, by simp; linarith⟩
    have hθi := h _ hθj
    -- but its offset from i.lo modulo τ is `off`, which exceeds the length of i
    have hw : wrap τ (j.lo + (off - d) - i.lo) = off := by
      have : j.lo + (off - d) - i.lo = off + (-m : Int) * τ := by
        push_cast; rw [hm]; ring
      rw [this, wrap_add_int hτ]
      have := wrap_unique hτ off 0 (by simp; linarith) (by simpa using ho3)
      simpa using this
    simp only [containsAngle, sub_zero, add_zero, Bool.or_eq_true, decide_eq_true_eq, hw] at hθi
    rcases hθi with h' | h' <;> linarith

/-- With the code's tolerance `ε ≥ 0` the interval-containment test is sandwiched between exact containment and
    containment up to `ε`:  (sound) if the test accepts, every angle of `j` is an angle of `i` up to `ε`;
    (complete) if every angle of `j` is exactly an angle of `i`, the test accepts. -/
theorem C16_angle_containsI_sound (τ ε : Rat) (hτ : 0 < τ) (hε0 : 0 ≤ ε) (i j : I) (hi : Valid i) (hj : Valid j)
    (h : containsAngleI τ ε i j = true) : ∀ θ, AMem τ 0 j θ → AMem τ ε i θ := by
  unfold Valid at hi hj
  obtain ⟨m, hm⟩ := wrap_exists τ (j.lo - i.lo)
  have h0 := wrap_nonneg hτ (j.lo - i.lo)
  have h1 := wrap_lt hτ (j.lo - i.lo)
  intro θ ⟨k, ha, hb⟩
  simp only [sub_zero, add_zero] at ha hb
  simp only [containsAngleI, decide_eq_true_eq] at h
  by_cases hc : τ - ε ≤ wrap τ (j.lo - i.lo)
  · simp only [hc, if_true, zero_add] at h
    refine ⟨k + m - 1, ?_, ?_⟩ <;> push_cast <;> linarith
  · simp only [hc, if_false] at h
    refine ⟨k + m, ?_, ?_⟩ <;> push_cast <;> linarith

theorem C16_angle_containsI_complete (τ ε : Rat) (hτ : 0 < τ) (hε0 : 0 ≤ ε) (i j : I) (hi : Valid i) (hj : Valid j)
    (hli : i.hi - i.lo < τ) (h : ∀ θ, AMem τ 0 j θ → AMem τ 0 i θ) : containsAngleI τ ε i j = true := by
  have hex : containsAngleI τ 0 i j = true := by
    rw [C16_angle_containsI_iff τ hτ i j hi hj hli]
    intro θ hθ
    rw [C16_angle_contains_iff τ 0 hτ (le_refl _) hτ j hj] at hθ
    rw [C16_angle_contains_iff τ 0 hτ (le_refl _) hτ i hi]
    exact h θ hθ
  have h1 := wrap_lt hτ (j.lo - i.lo)
  have h0 := wrap_nonneg hτ (j.lo - i.lo)
  unfold Valid at hj
  simp only [containsAngleI, sub_zero, add_zero, decide_eq_true_eq, not_le.mpr h1, if_false] at hex
  simp only [containsAngleI, decide_eq_true_eq]
  split <;> linarith

/-- `make_valid_orientation_interval`: both ends are shifted by the same integer multiple of `τ`;
    for start ≤ end and length < τ the result lies in `[-τ, τ]` (the loops have exited). -/
theorem C16_angle_norm (τ : Rat) (hτ : 0 < τ) (s e : Rat) (hse : s ≤ e) (hl : e - s < τ) :
    ∃ k : Int, makeValidInterval τ s e = (s + k * τ, e + k * τ)
      ∧ -τ ≤ s + k * τ ∧ e + k * τ ≤ τ := by
  unfold makeValidInterval
  have hfs := abs_le_fuel hτ s
  have hfe := abs_le_fuel hτ e
  set f := fuelFor τ s + fuelFor τ e with hf
  have hfc : (f : Rat) = (fuelFor τ s : Rat) + (fuelFor τ e : Rat) := by rw [hf]; push_cast; ring
  have hn1 : (0 : Rat) ≤ (fuelFor τ s : Rat) * τ := by positivity
  have hn2 : (0 : Rat) ≤ (fuelFor τ e : Rat) * τ := by positivity
  obtain ⟨m, hm, hm1, hm2, hm3⟩ := downLoop2_spec τ hτ (f + f) s e
    (by push_cast; rw [hfc]; nlinarith [hfs.1]) (by push_cast; rw [hfc]; nlinarith [hfe.1])
  simp only [hm]
  -- how far down did the first loop go?  not below -(f+1)τ … we only need a bound for the fuel
  have hmle : (m : Rat) * τ ≤ (f : Rat) * τ + τ ∨ m = 0 := by
    rcases hm3 with h | h
    · right; exact h
    · left
      have hm1' : 1 ≤ m := by
        rcases Nat.eq_zero_or_pos m with h' | h'
        · subst h'; simp at h hm1 hm2; rcases h with h | h <;> linarith
        · exact h'
      have hc : ((m - 1 : Nat) : Rat) = (m : Rat) - 1 := by rw [Nat.cast_sub hm1']; simp
      rw [hc] at h
      rcases h with h | h <;> nlinarith [hfs.1, hfe.1]
  have hlow : -(((f + f : Nat) : Rat) + 1) * τ ≤ s - m * τ := by
    push_cast
    rcases hmle with h | h
    · nlinarith [hfs.2]
    · subst h; simp; nlinarith [hfs.2]
  obtain ⟨m2, hm2', hm21, hm23⟩ := upLoop2_spec τ hτ (f + f) (s - m * τ) (e - m * τ) hlow
  rw [hm2']
  refine ⟨(m2 : Int) - m, ?_, ?_, ?_⟩
  · push_cast; congr 1 <;> ring
  · push_cast; linarith
  · push_cast
    rcases hm23 with h | h
    · subst h; simp; linarith
    · have hm1' : 1 ≤ m2 := by
        rcases Nat.eq_zero_or_pos m2 with h' | h'
        · subst h'; simp at h hm21; linarith
        · exact h'
      have hc : ((m2 - 1 : Nat) : Rat) = (m2 : Rat) - 1 := by rw [Nat.cast_sub hm1']; simp
      rw [hc] at h
      linarith

/-- Constructing an angle interval never raises for admissible arguments (start ≤ end, length < 2π),
    and the constructed interval denotes the same set of angles. -/
theorem C16_mkAngle_ok (τ ε : Rat) (hτ : 0 < τ) (hε0 : 0 ≤ ε) (hε : ε < τ) (s e : Rat) (hse : s ≤ e) (hl : e - s < τ) :
    ∃ r, mkAngle τ s e = .ok r ∧ Valid r ∧ r.hi - r.lo = e - s ∧ -τ ≤ r.lo ∧ r.hi ≤ τ
      ∧ ∀ θ, containsAngle τ ε r θ = true ↔ AMem τ ε ⟨s, e⟩ θ := by
  obtain ⟨k, hk, h1, h2⟩ := C16_angle_norm τ hτ s e hse hl
  have hv : s + k * τ ≤ e + k * τ := by linarith
  refine ⟨⟨s + k * τ, e + k * τ⟩, ?_, hv, by ring, h1, h2, ?_⟩
  · unfold mkAngle
    simp only [hk]
    have c1 : e + k * τ - (s + k * τ) < τ := by linarith
    have c2 : validOrientation τ (s + k * τ) = true := by
      simp only [validOrientation, Bool.and_eq_true, decide_eq_true_eq]; exact ⟨h1, by linarith⟩
    have c3 : validOrientation τ (e + k * τ) = true := by
      simp only [validOrientation, Bool.and_eq_true, decide_eq_true_eq]; exact ⟨by linarith, h2⟩
    simp [c2, c3, hv, hl]
  · intro θ
    rw [C16_angle_contains_iff τ ε hτ hε0 hε ⟨s + k * τ, e + k * τ⟩ hv]
    simp only [AMem]
    constructor
    · rintro ⟨n, a, b⟩; exact ⟨n - k, by push_cast; linarith, by push_cast; linarith⟩
    · rintro ⟨n, a, b⟩; exact ⟨n + k, by push_cast; linarith, by push_cast; linarith⟩

/-- constructing an angle interval with start > end is rejected. -/
theorem C16_mkAngle_rejects (τ : Rat) (s e : Rat) (hse : e < s) : ∃ err, mkAngle τ s e = .error err := by
  have key : ∀ (p : Rat × Rat), p.2 - p.1 = e - s →
      ∃ err, (if ¬ (p.2 - p.1 < τ) then (.error .assert : Res I) else
        if ¬ validOrientation τ p.1 then .error .assert else
        if ¬ validOrientation τ p.2 then .error .assert else
        if ¬ (p.1 ≤ p.2) then .error .assert else .ok ⟨p.1, p.2⟩) = .error err := by
    intro p hp
    have : ¬ p.1 ≤ p.2 := by intro h; linarith
    by_cases c1 : p.2 - p.1 < τ
    · by_cases c2 : validOrientation τ p.1 = true
      · by_cases c3 : validOrientation τ p.2 = true
        · exact ⟨.assert, by simp [c1, c2, c3, this]⟩
        · exact ⟨.assert, by simp [c1, c2, c3]⟩
      · exact ⟨.assert, by simp [c1, c2]⟩
    · exact ⟨.assert, by simp [c1]⟩
  -- both loops shift start and end alike, so the difference stays negative
  have hd2 : ∀ (n : Nat) (a b : Rat), (downLoop2 n τ a b).2 - (downLoop2 n τ a b).1 = b - a := by
    intro n
    induction n with
    | zero => intro a b; simp [downLoop2]
    | succ n ih => intro a b; unfold downLoop2; split
                   · rw [ih]; ring
                   · rfl
  have hu2 : ∀ (n : Nat) (a b : Rat), (upLoop2 n τ a b).2 - (upLoop2 n τ a b).1 = b - a := by
    intro n
    induction n with
    | zero => intro a b; simp [upLoop2]
    | succ n ih => intro a b; unfold upLoop2; split
                   · rw [ih]; ring
                   · rfl
  have hd : (makeValidInterval τ s e).2 - (makeValidInterval τ s e).1 = e - s := by
    unfold makeValidInterval
    simp only []
    rw [hu2, hd2]
  exact key _ hd

/-- An angle interval of length ≥ 2π is rejected (the `assert end - start < TWO_PI`). -/
theorem C16_mkAngle_rejects_long (τ : Rat) (s e : Rat) (hl : τ ≤ e - s) : mkAngle τ s e = .error .assert := by
  have hd2 : ∀ (n : Nat) (a b : Rat), (downLoop2 n τ a b).2 - (downLoop2 n τ a b).1 = b - a := by
    intro n
    induction n with
    | zero => intro a b; simp [downLoop2]
    | succ n ih => intro a b; unfold downLoop2; split
                   · rw [ih]; ring
                   · rfl
  have hu2 : ∀ (n : Nat) (a b : Rat), (upLoop2 n τ a b).2 - (upLoop2 n τ a b).1 = b - a := by
    intro n
    induction n with
    | zero => intro a b; simp [upLoop2]
    | succ n ih => intro a b; unfold upLoop2; split
                   · rw [ih]; ring
                   · rfl
  have hd : (makeValidInterval τ s e).2 - (makeValidInterval τ s e).1 = e - s := by
    unfold makeValidInterval
    simp only []
    rw [hu2, hd2]
  unfold mkAngle
  simp only []
  rw [if_pos (by rw [hd]; exact not_lt.mpr hl)]

/-- Shifting an angle interval never raises and yields the image set (as a set of angles). -/
theorem C16_angle_shift (τ ε : Rat) (hτ : 0 < τ) (hε0 : 0 ≤ ε) (hε : ε < τ) (i : I) (hi : Valid i)
    (hl : i.hi - i.lo < τ) (k : Rat) :
    ∃ r, addAngle τ i k = .ok r ∧ Valid r ∧
      ∀ θ, containsAngle τ ε r θ = true ↔ containsAngle τ ε i (θ - k) = true := by
  unfold Valid at hi
  obtain ⟨r, hr, hv, _, _, _, hmem⟩ := C16_mkAngle_ok τ ε hτ hε0 hε (i.lo + k) (i.hi + k) (by linarith) (by linarith)
  refine ⟨r, hr, hv, ?_⟩
  intro θ
  rw [hmem θ, C16_angle_contains_iff τ ε hτ hε0 hε i hi]
  simp only [AMem]
  constructor
  · rintro ⟨n, a, b⟩; exact ⟨n, by linarith, by linarith⟩
  · rintro ⟨n, a, b⟩; exact ⟨n, by linarith, by linarith⟩

/-- The same for `-`: `A - k` denotes the angles `θ` with `θ + k ∈ A`. -/
theorem C16_angle_shift_sub (τ ε : Rat) (hτ : 0 < τ) (hε0 : 0 ≤ ε) (hε : ε < τ) (i : I) (hi : Valid i)
    (hl : i.hi - i.lo < τ) (k : Rat) :
    ∃ r, subAngle τ i k = .ok r ∧ Valid r ∧
      ∀ θ, containsAngle τ ε r θ = true ↔ containsAngle τ ε i (θ + k) = true := by
  have := C16_angle_shift τ ε hτ hε0 hε i hi hl (-k)
  simpa [addAngle, subAngle, sub_eq_add_neg] using this

/-! ### histories: setters after construction / after queries, results fed into further operations -/

/-- Whatever a step returns is a valid interval (every result passes through `mk` or a checking setter). -/
theorem C16_step_valid (rnd : Int → Rat → Rat) (i : I) (hi : Valid i) (op : Op) (r : I)
    (h : step rnd i op = .ok r) : Valid r := by
  cases op with
  | setStart x =>
    simp only [step, setStart] at h
    split at h
    · cases h; assumption
    · cases h
  | setEnd x =>
    simp only [step, setEnd] at h
    split at h
    · cases h; assumption
    · cases h
  | add k => exact (C16_mk_valid _ _ r h).1
  | sub k => exact (C16_mk_valid _ _ r h).1
  | mul k =>
    simp only [step, mul] at h
    split at h <;> exact (C16_mk_valid _ _ r h).1
  | div k =>
    simp only [step, div] at h
    split at h
    · cases h
    · split at h <;> exact (C16_mk_valid _ _ r h).1
  | round n => exact (C16_mk_valid _ _ r h).1
  | inter j =>
    simp only [step, intersection] at h
    split at h
    · unfold mk at h
      split at h
      · simp only [Except.map] at h; cases h; assumption
      · simp [Except.map] at h
    · simp only [Except.map] at h; cases h; exact hi

/-- A raising step leaves the object as it was (definitional: documents `after`). -/
theorem C16_failed_step_keeps (i : I) (e : Err) : after i (.error e) = i := rfl

/-- Steps that are admissible whatever the current bounds: shifting, scaling, dividing by a non-zero number,
    rounding, intersecting with a valid interval. (The setters are admissible only if they do not cross.) -/
def Admissible : Op → Prop
  | .setStart _ => False
  | .setEnd _ => False
  | .div k => k ≠ 0
  | .inter j => Valid j
  | _ => True

/-- None of the admissible operations raises, on any valid interval, and the result is valid. -/
theorem C16_step_total (rnd : Int → Rat → Rat) (hm : ∀ n a b, a ≤ b → rnd n a ≤ rnd n b) (i : I) (hi : Valid i)
    (op : Op) (ha : Admissible op) : ∃ r, step rnd i op = .ok r ∧ Valid r := by
  cases op with
  | setStart x => exact absurd ha (by simp [Admissible])
  | setEnd x => exact absurd ha (by simp [Admissible])
  | add k => obtain ⟨r, h, hv, _⟩ := C16_add_image i k hi; exact ⟨r, h, hv⟩
  | sub k => obtain ⟨r, h, hv, _⟩ := C16_sub_image i k hi; exact ⟨r, h, hv⟩
  | mul k => obtain ⟨r, h, hv, _⟩ := C16_mul_image i k hi; exact ⟨r, h, hv⟩
  | div k => obtain ⟨r, h, hv, _⟩ := C16_div_image i k hi ha; exact ⟨r, h, hv⟩
  | round n => obtain ⟨r, h, hv, _⟩ := C16_round_image (rnd n) (hm n) i hi; exact ⟨r, h, hv⟩
  | inter j =>
    rcases C16_inter_spec i j hi ha with ⟨k, h, hv, _⟩ | ⟨h, _⟩
    · exact ⟨k, by simp [step, h, Except.map], hv⟩
    · exact ⟨i, by simp [step, h, Except.map], hi⟩

/-- The setters raise exactly when the new bound would cross the other one; otherwise they store it. -/
theorem C16_setter_steps (rnd : Int → Rat → Rat) (i : I) (x : Rat) :
    (x ≤ i.hi → step rnd i (.setStart x) = .ok ⟨x, i.hi⟩) ∧ (i.hi < x → step rnd i (.setStart x) = .error .assert) ∧
    (i.lo ≤ x → step rnd i (.setEnd x) = .ok ⟨i.lo, x⟩) ∧ (x < i.lo → step rnd i (.setEnd x) = .error .assert) := by
  refine ⟨fun h => by simp [step, setStart, h], fun h => by simp [step, setStart, not_le.mpr h],
          fun h => by simp [step, setEnd, h], fun h => by simp [step, setEnd, not_le.mpr h]⟩

/-- Over ANY history (setters, arithmetic, rounding, intersections, in any order, failing steps included) the
    object stays a valid interval, and so is every value a step returns. -/
theorem C16_history_valid (rnd : Int → Rat → Rat) (ops : List Op) : ∀ (i : I), Valid i →
    Valid (finalOps rnd i ops) ∧ ∀ r ∈ runOps rnd i ops, ∀ j, r = .ok j → Valid j := by
  induction ops with
  | nil => intro i hi; exact ⟨hi, by simp [runOps]⟩
  | cons op ops ih =>
    intro i hi
    have hnext : Valid (after i (step rnd i op)) := by
      cases hs : step rnd i op with
      | ok j => exact C16_step_valid rnd i hi op j hs
      | error e => exact hi
    obtain ⟨h1, h2⟩ := ih _ hnext
    refine ⟨h1, ?_⟩
    intro r hr j hj
    simp only [runOps, List.mem_cons] at hr
    rcases hr with hr | hr
    · subst hr; exact C16_step_valid rnd i hi op j hj
    · exact h2 r hr j hj

/-- A history of admissible steps never raises. -/
theorem C16_history_total (rnd : Int → Rat → Rat) (hm : ∀ n a b, a ≤ b → rnd n a ≤ rnd n b) (ops : List Op) :
    ∀ (i : I), Valid i → (∀ op ∈ ops, Admissible op) → ∀ r ∈ runOps rnd i ops, ∃ j, r = .ok j := by
  induction ops with
  | nil => intro i _ _ r hr; simp [runOps] at hr
  | cons op ops ih =>
    intro i hi hall r hr
    obtain ⟨j, hj, hv⟩ := C16_step_total rnd hm i hi op (hall op (by simp))
    simp only [runOps, List.mem_cons] at hr
    rcases hr with hr | hr
    · exact ⟨j, by rw [hr, hj]⟩
    · rw [hj] at hr
      exact ih j hv (fun o ho => hall o (by simp [ho])) r hr

/-- The point map of an affine step. -/
def ptOp : Op → Rat → Rat
  | .add k, x => x + k
  | .sub k, x => x - k
  | .mul k, x => x * k
  | .div k, x => x / k
  | _, x => x

def Affine : Op → Prop
  | .add _ => True
  | .sub _ => True
  | .mul _ => True
  | .div k => k ≠ 0
  | _ => False

/-- Results fed into further operations: after any chain of `+ - * /` (either sign, non-zero divisors) the
    object denotes exactly the image of the original set under the composed point map. -/
theorem C16_chain_image (rnd : Int → Rat → Rat) (ops : List Op) : ∀ (i : I), Valid i → (∀ op ∈ ops, Affine op) →
    Valid (finalOps rnd i ops) ∧
      ∀ y, Mem (finalOps rnd i ops) y ↔ ∃ x, Mem i x ∧ y = ops.foldl (fun v op => ptOp op v) x := by
  induction ops with
  | nil =>
    intro i hi _
    refine ⟨hi, fun y => ⟨fun h => ⟨y, h, rfl⟩, ?_⟩⟩
    rintro ⟨x, h, e⟩
    simp only [List.foldl_nil] at e
    subst e; exact h
  | cons op ops ih =>
    intro i hi hall
    have haff := hall op (by simp)
    have hstep : ∃ r, step rnd i op = .ok r ∧ Valid r ∧ ∀ y, Mem r y ↔ ∃ x, Mem i x ∧ y = ptOp op x := by
      cases op with
      | add k => exact C16_add_image i k hi
      | sub k => exact C16_sub_image i k hi
      | mul k => exact C16_mul_image i k hi
      | div k => exact C16_div_image i k hi haff
      | setStart x => exact absurd haff (by simp [Affine])
      | setEnd x => exact absurd haff (by simp [Affine])
      | round n => exact absurd haff (by simp [Affine])
      | inter j => exact absurd haff (by simp [Affine])
    obtain ⟨r, hr, hv, himg⟩ := hstep
    obtain ⟨h1, h2⟩ := ih r hv (fun o ho => hall o (by simp [ho]))
    simp only [finalOps, hr, after, List.foldl_cons]
    refine ⟨h1, fun y => ?_⟩
    rw [h2 y]
    constructor
    · rintro ⟨z, hz, e⟩
      obtain ⟨x, hx, ez⟩ := (himg z).1 hz
      exact ⟨x, hx, by rw [e, ez]⟩
    · rintro ⟨x, hx, e⟩
      exact ⟨ptOp op x, (himg _).2 ⟨x, hx, rfl⟩, e⟩

/-- Scaling and then dividing by the same non-zero number (either sign) gives the interval back. -/
theorem C16_mul_div_cancel (i : I) (hi : Valid i) (k : Rat) (hk : k ≠ 0) :
    (mul i k).bind (fun r => div r k) = .ok i := by
  unfold Valid at hi
  rcases lt_or_gt_of_ne hk with h | h
  · have hv : i.hi * k ≤ i.lo * k := mul_le_mul_of_nonpos_right hi (le_of_lt h)
    have e1 : i.lo * k / k = i.lo := by field_simp
    have e2 : i.hi * k / k = i.hi := by field_simp
    simp [mul, div, mk, hv, hk, not_lt.mpr (le_of_lt h), Except.bind, e1, e2, hi]
  · have hv : i.lo * k ≤ i.hi * k := mul_le_mul_of_nonneg_right hi (le_of_lt h)
    have e1 : i.lo * k / k = i.lo := by field_simp
    have e2 : i.hi * k / k = i.hi := by field_simp
    simp [mul, div, mk, hv, hk, h, Except.bind, e1, e2, hi]

theorem C16_add_sub_cancel (i : I) (hi : Valid i) (k : Rat) : (add i k).bind (fun r => sub r k) = .ok i := by
  unfold Valid at hi
  simp [add, sub, mk, hi, Except.bind]

/-! ### setters and histories of angle intervals -/

/-- What the object of an `AngleInterval` satisfies at any time: both bounds in `[-τ, τ]`, start ≤ end. -/
def InRange (τ : Rat) (i : I) : Prop := -τ ≤ i.lo ∧ i.lo ≤ i.hi ∧ i.hi ≤ τ

/-- The `AngleInterval` setters store the bound iff it is a valid orientation and does not cross the other bound,
    and raise (leaving the object alone) otherwise. -/
theorem C16_angle_setters (τ : Rat) (i : I) (x : Rat) :
    (setStartAngle τ i x = if -τ ≤ x ∧ x ≤ τ ∧ x ≤ i.hi then .ok ⟨x, i.hi⟩ else .error .assert) ∧
    (setEndAngle τ i x = if -τ ≤ x ∧ x ≤ τ ∧ i.lo ≤ x then .ok ⟨i.lo, x⟩ else .error .assert) := by
  constructor
  · unfold setStartAngle validOrientation
    by_cases h1 : -τ ≤ x <;> by_cases h2 : x ≤ τ <;> by_cases h3 : x ≤ i.hi <;> simp [h1, h2, h3]
  · unfold setEndAngle validOrientation
    by_cases h1 : -τ ≤ x <;> by_cases h2 : x ≤ τ <;> by_cases h3 : i.lo ≤ x <;> simp [h1, h2, h3]

theorem mkAngle_ok_inRange (τ s e : Rat) (r : I) (h : mkAngle τ s e = .ok r) : InRange τ r ∧ r.hi - r.lo < τ := by
  unfold mkAngle at h
  simp only [] at h
  split at h
  · cases h
  · split at h
    · cases h
    · split at h
      · cases h
      · split at h
        · cases h
        · cases h
          rename_i c1 c2 c3 c4
          simp only [validOrientation, Bool.and_eq_true, decide_eq_true_eq, not_not] at c1 c2 c3 c4
          exact ⟨⟨c2.1, c4, c3.2⟩, c1⟩

/-- Every step of a history on an angle interval keeps the bounds in `[-τ, τ]` with start ≤ end. -/
theorem C16_angle_step_inRange (τ : Rat) (i : I) (hi : InRange τ i) (op : OpA) (r : I) (h : stepA τ i op = .ok r) :
    InRange τ r := by
  obtain ⟨h1, h2, h3⟩ := hi
  cases op with
  | setStart x =>
    simp only [stepA, (C16_angle_setters τ i x).1] at h
    split at h
    · cases h; rename_i c; exact ⟨c.1, c.2.2, h3⟩
    · cases h
  | setEnd x =>
    simp only [stepA, (C16_angle_setters τ i x).2] at h
    split at h
    · cases h; rename_i c; exact ⟨h1, c.2.2, c.2.1⟩
    · cases h
  | add k => exact (mkAngle_ok_inRange τ _ _ r h).1
  | sub k => exact (mkAngle_ok_inRange τ _ _ r h).1

theorem C16_angle_history_inRange (τ : Rat) (ops : List OpA) : ∀ (i : I), InRange τ i →
    InRange τ (finalOpsA τ i ops) ∧ ∀ r ∈ runOpsA τ i ops, ∀ j, r = .ok j → InRange τ j := by
  induction ops with
  | nil => intro i hi; exact ⟨hi, by simp [runOpsA]⟩
  | cons op ops ih =>
    intro i hi
    have hnext : InRange τ (after i (stepA τ i op)) := by
      cases hs : stepA τ i op with
      | ok j => exact C16_angle_step_inRange τ i hi op j hs
      | error e => exact hi
    obtain ⟨h1, h2⟩ := ih _ hnext
    refine ⟨h1, ?_⟩
    intro r hr j hj
    simp only [runOpsA, List.mem_cons] at hr
    rcases hr with hr | hr
    · subst hr; exact C16_angle_step_inRange τ i hi op j hj
    · exact h2 r hr j hj

/-- The setters do not re-check the length: an object whose bounds were moved to a length ≥ τ (outside the
    property's quantifier) reports every angle as a member — which is still what the set `{θ | ∃ k, θ+kτ ∈ [lo,hi]}` is. -/
theorem C16_angle_long_all (τ ε : Rat) (hτ : 0 < τ) (hε0 : 0 ≤ ε) (i : I) (hl : τ ≤ i.hi - i.lo) (θ : Rat) :
    containsAngle τ ε i θ = true := by
  have h1 := wrap_lt hτ (θ - i.lo)
  simp only [containsAngle, Bool.or_eq_true, decide_eq_true_eq]
  left; linarith

/-! ### non-vacuity -/

example : Valid ⟨1, 3⟩ := by norm_num [Valid]
example : containsAngle 6 0 ⟨0, 4⟩ 1 = true := by decide +kernel   -- an interval longer than τ/2
example : containsAngle 6 0 ⟨0, 4⟩ (-7) = false := by decide +kernel
example : containsAngle 6 0 ⟨0, 4⟩ (-3) = true := by decide +kernel
example : mkAngle 6 7 8 = .ok ⟨1, 2⟩ := by decide +kernel
example : mul ⟨1, 3⟩ (-2) = .ok ⟨-6, -2⟩ := by decide +kernel

example : runOps (fun _ x => x) ⟨0, 4⟩ [.setStart 5, .setStart 1, .mul (-2), .div 0, .inter ⟨-5, 0⟩] =
    [.error .assert, .ok ⟨1, 4⟩, .ok ⟨-8, -2⟩, .error .zeroDiv, .ok ⟨-5, -2⟩] := by decide +kernel
example : setStartAngle 6 ⟨0, 1⟩ (-6) = .ok ⟨-6, 1⟩ := by decide +kernel     -- length 7 ≥ τ is not re-checked
example : setStartAngle 6 ⟨0, 1⟩ (-7) = .error .assert := by decide +kernel
example : runOpsA 6 ⟨0, 1⟩ [.setEnd 7, .setEnd 5, .add 3] = [.error .assert, .ok ⟨0, 5⟩, .ok ⟨-3, 2⟩] := by decide +kernel

end CR.Iv
