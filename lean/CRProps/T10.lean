/-
  T10 — translator tie for C10: the definitions regenerated on every run (harness/translate/src_c10.py -> Gen/SrcC10.lean)
  from the CURRENT source of commonroad/scenario/lanelet.py and commonroad/scenario/scenario.py equal the hand-written model
  CRModel/Refs.lean the C10 theorems are about.  A source edit that changes what one of these functions does to the id-valued
  references (a relation forgotten in a cleanup, a dropped cleanup call, a changed drop rule for incoming elements, ...) makes
  a `tie_*` theorem fail at build time, for all networks at once.
  No translated function is cut short: `create_from_lanelet_network` is tied as a whole to `Net.cutOut`
  (`tie_create_from_lanelet_network`), `remove_hanging_lanelet_members` to its end to `Scn.removeHanging`
  (`tie_remove_hanging_lanelet_members`), and `Scenario.remove_lanelet` calls that translation, not the model.
-/
import Gen.SrcC10
import CRModel.Refs
namespace CR.Refs
open CR.PyR

theorem eraseDups_filter_aux (P : Id → Bool) : ∀ (n : Nat) (xs : List Id), xs.length ≤ n →
    (xs.eraseDups).filter P = (xs.filter P).eraseDups := by
  intro n
  induction n with
  | zero => intro xs h; cases xs with
    | nil => simp
    | cons a as => simp at h
  | succ n ih =>
    intro xs h
    cases xs with
    | nil => simp
    | cons a as =>
      have hl : (as.filter (fun b => !(b == a))).length ≤ n := by
        have := List.length_filter_le (fun b => !(b == a)) as
        simp at h; omega
      rw [List.eraseDups_cons]
      by_cases hp : P a = true
      · simp only [List.filter_cons, hp, if_true, List.eraseDups_cons]
        rw [ih _ hl]
        congr 2
        simp only [List.filter_filter]
        apply List.filter_congr; intro x _; exact Bool.and_comm _ _
      · have hp' : P a = false := by simpa using hp
        simp only [List.filter_cons, hp', Bool.false_eq_true, if_false]
        rw [ih _ hl]
        congr 1
        simp only [List.filter_filter]
        apply List.filter_congr; intro x _
        by_cases hx : x = a
        · subst hx; simp [hp]
        · simp [hx]

theorem eraseDups_filter (P : Id → Bool) (xs : List Id) : (xs.eraseDups).filter P = (xs.filter P).eraseDups :=
  eraseDups_filter_aux P xs.length xs (Nat.le_refl _)

theorem tie_cleanup_lanelet_references (n : Net) :
    Gen.LaneletNetwork_cleanup_lanelet_references n = n.cleanupLaneletRefs := by
  unfold Gen.LaneletNetwork_cleanup_lanelet_references Net.cleanupLaneletRefs
  simp only [Lanelet.cleanL, Intersection.cleanL, Incoming.cleanL, keepIn, keepInL, PyR.inter, PyR.listOfSet,
    PyR.setOfList, eraseDups_filter]
  congr 1
  apply List.map_congr_left
  intro l _
  rcases hL : l.adjL with _ | a <;> rcases hR : l.adjR with _ | b <;> rcases hLS : l.adjLSame with _ | c <;>
    rcases hRS : l.adjRSame with _ | d <;> simp [optMem, Option.filter] <;>
    (try by_cases ha : n.lids.contains a = true) <;> (try by_cases hb : n.lids.contains b = true) <;> simp_all

theorem tie_cleanup_traffic_sign_references (n : Net) :
    Gen.LaneletNetwork_cleanup_traffic_sign_references n = n.cleanupSignRefs := by
  unfold Gen.LaneletNetwork_cleanup_traffic_sign_references Net.cleanupSignRefs
  simp only [Lanelet.cleanS, keepIn, PyR.inter]
  congr 1
  apply List.map_congr_left
  intro l _
  rcases hs : l.stop with _ | ⟨sr, lr⟩
  · simp
  · rcases sr with _ | r <;> simp [keepIn]

theorem tie_cleanup_traffic_light_references (n : Net) :
    Gen.LaneletNetwork_cleanup_traffic_light_references n = n.cleanupLightRefs := by
  unfold Gen.LaneletNetwork_cleanup_traffic_light_references Net.cleanupLightRefs
  simp only [Lanelet.cleanT, keepIn, PyR.inter]
  congr 1
  apply List.map_congr_left
  intro l _
  rcases hs : l.stop with _ | ⟨sr, lr⟩
  · simp
  · rcases lr with _ | r <;> simp [keepIn]

/-- deleting a key a dict does not hold (`if k in d: del d[k]` skipped) leaves the dict as it is -/
theorem filter_absent {α : Type} (key : α → Id) (xs : List α) (x : Id) (h : (xs.map key).contains x = false) :
    xs.filter (fun e => key e != x) = xs := by
  apply List.filter_eq_self.mpr
  intro e he
  have : ¬ x ∈ xs.map key := by simpa using h
  have hne : key e ≠ x := fun hk => this (hk ▸ List.mem_map_of_mem he)
  simpa using hne

theorem tie_remove_lanelet (n : Net) (x : Id) : Gen.LaneletNetwork_remove_lanelet n x = n.removeLanelet x := by
  unfold Gen.LaneletNetwork_remove_lanelet Net.removeLanelet
  simp [PyR.mem, tie_cleanup_lanelet_references]

theorem tie_remove_traffic_sign (n : Net) (x : Id) : Gen.LaneletNetwork_remove_traffic_sign n x = n.removeSign x := by
  unfold Gen.LaneletNetwork_remove_traffic_sign Net.removeSign
  simp [PyR.mem, tie_cleanup_traffic_sign_references]

theorem tie_remove_traffic_light (n : Net) (x : Id) : Gen.LaneletNetwork_remove_traffic_light n x = n.removeLight x := by
  unfold Gen.LaneletNetwork_remove_traffic_light Net.removeLight
  by_cases h : x ∈ n.tids
  · simp [PyR.mem, h, tie_cleanup_traffic_light_references]
  · have h' : (n.lights.map (·.1)).contains x = false := by simpa [Net.tids] using h
    rw [filter_absent (·.1) n.lights x h']
    simp [PyR.mem, h, tie_cleanup_traffic_light_references]

theorem tie_remove_intersection (n : Net) (x : Id) : Gen.LaneletNetwork_remove_intersection n x = n.removeInter x := by
  unfold Gen.LaneletNetwork_remove_intersection Net.removeInter
  by_cases h : x ∈ n.iids
  · simp [PyR.mem, h]
  · have h' : (n.inters.map (·.id)).contains x = false := by simpa [Net.iids] using h
    rw [filter_absent (·.id) n.inters x h']
    simp [PyR.mem, h]

theorem foldl_addLanelet (ls : List Lanelet) (acc : Net) :
    ls.foldl (fun net la => PyR.addLanelet net la) acc = { acc with lanelets := addLanelets acc.lanelets ls } := by
  induction ls generalizing acc with
  | nil => simp [addLanelets]
  | cons l ls ih =>
    simp only [List.foldl_cons]
    rw [ih]
    by_cases h : (List.map (fun x => x.id) acc.lanelets).contains l.id = true
    · simp only [PyR.addLanelet, addLanelets, Net.lids, h, if_true]
    · simp only [PyR.addLanelet, addLanelets, Net.lids, h, Bool.false_eq_true, if_false]

/-- `create_from_lanelet_list` applied to lanelets of the network `n` picked by id is the model's `fromList`. -/
theorem tie_create_from_lanelet_list (n : Net) (sel : List Id) (c : Bool) :
    Gen.LaneletNetwork_create_from_lanelet_list (sel.filterMap n.findLanelet) c = n.fromList sel c := by
  unfold Gen.LaneletNetwork_create_from_lanelet_list Net.fromList
  simp only [foldl_addLanelet, tie_cleanup_lanelet_references, tie_cleanup_traffic_light_references,
    tie_cleanup_traffic_sign_references, PyR.emptyNet]

/-! ### the cut-out, in pieces -/

theorem foldl_filterMap {α β : Type} (f : α → Option β) (g : List β → α → List β)
    (hg : ∀ acc x, g acc x = match f x with | none => acc | some y => acc ++ [y]) (xs : List α) (acc : List β) :
    xs.foldl g acc = acc ++ xs.filterMap f := by
  induction xs generalizing acc with
  | nil => simp
  | cons x xs ih =>
    simp only [List.foldl_cons, ih, hg, List.filterMap_cons]
    cases f x <;> simp

/-- a loop `for x in s: if c(x): t.add(x)` over a *set* `s` (no duplicates) appends the filtered elements -/
theorem foldl_add_filter (c : Id → Bool) (xs : List Id) (acc : List Id) (hn : xs.Nodup) (hd : ∀ x ∈ xs, x ∉ acc) :
    xs.foldl (fun t x => if c x then PyR.add t x else t) acc = acc ++ xs.filter c := by
  induction xs generalizing acc with
  | nil => simp
  | cons x xs ih =>
    have hx : x ∉ acc := hd x (List.mem_cons_self ..)
    have hn' := (List.nodup_cons.mp hn)
    simp only [List.foldl_cons, List.filter_cons]
    by_cases hc : c x = true
    · have hadd : PyR.add acc x = acc ++ [x] := by simp [PyR.add, hx]
      simp only [hc, if_true, hadd]
      rw [ih _ hn'.2]
      · simp
      · intro y hy
        have := hd y (List.mem_cons_of_mem _ hy)
        intro hmem
        rcases List.mem_append.mp hmem with h | h
        · exact this h
        · have : y = x := by simpa using h
          exact hn'.1 (this ▸ hy)
    · have hc' : c x = false := by simpa using hc
      simp only [hc', Bool.false_eq_true, if_false]
      exact ih _ hn'.2 (fun y hy => hd y (List.mem_cons_of_mem _ hy))

/-- The body of the loop over the old intersections in `create_from_lanelet_network` (which incoming elements survive,
with which sets; when the intersection is dropped; how the crossings are filtered) is the model's `Intersection.cut`.
`hc`: `crossings` is a Python set, i.e. a list without duplicates. -/
theorem tie_cut_intersection (ids : List Id) (i : Intersection) (hc : i.crossings.Nodup) :
    Gen.LaneletNetwork_cut_intersection ids i = i.cut (fun a => ids.contains a) := by
  unfold Gen.LaneletNetwork_cut_intersection Intersection.cut
  dsimp only
  rw [foldl_filterMap (fun k => Incoming.cut (fun a => ids.contains a) k)]
  · simp only [List.nil_append]
    have hcr : i.crossings.foldl (fun t x => if PyR.mem x ids then PyR.add t x else t) [] =
        keepIn (fun a => ids.contains a) i.crossings := by
      rw [foldl_add_filter (fun x => PyR.mem x ids) _ _ hc (by simp)]
      simp [keepIn, PyR.mem]
    simp only [hcr]
    split <;> simp_all
  · intro acc k
    simp only [Incoming.cut, keepIn, PyR.inter]
    grind

theorem mem_add (s : List Id) (x a : Id) : a ∈ PyR.add s x ↔ a ∈ s ∨ a = x := by
  unfold PyR.add
  by_cases h : s.contains x = true
  · have hx : x ∈ s := by simpa using h
    simp only [h, if_true]
    constructor
    · exact Or.inl
    · rintro (h | h)
      · exact h
      · exact h ▸ hx
  · have hx : x ∉ s := by simpa using h
    simp [hx]

theorem mem_foldl_add (xs s : List Id) (a : Id) :
    a ∈ xs.foldl (fun t x => PyR.add t x) s ↔ a ∈ s ∨ a ∈ xs := by
  induction xs generalizing s with
  | nil => simp
  | cons x xs ih => simp only [List.foldl_cons, ih, mem_add, List.mem_cons]; grind

theorem foldl_inv {α σ : Type} (f : σ → α → σ) (I : List α → σ → Prop)
    (hs : ∀ pre x s, I pre s → I (pre ++ [x]) (f s x)) (xs : List α) :
    ∀ pre s, I pre s → I (pre ++ xs) (xs.foldl f s) := by
  induction xs with
  | nil => intro pre s h; simpa using h
  | cons x xs ih =>
    intro pre s h
    have := ih (pre ++ [x]) (f s x) (hs pre x s h)
    simpa using this

/-- The first loop of `create_from_lanelet_network` collects exactly the ids of the lanelets that pass the filter and the
sign / light ids those lanelets reference (as sets: membership). -/
theorem tie_cut_select (n : Net) (keep : Id → Bool) :
    (∀ a, a ∈ (Gen.LaneletNetwork_cut_select n keep).1 ↔ a ∈ (n.cutKept keep).map (·.id)) ∧
    (∀ a, a ∈ (Gen.LaneletNetwork_cut_select n keep).2.1 ↔ a ∈ (n.cutKept keep).flatMap (·.signs)) ∧
    (∀ a, a ∈ (Gen.LaneletNetwork_cut_select n keep).2.2 ↔ a ∈ (n.cutKept keep).flatMap (·.lights)) := by
  unfold Gen.LaneletNetwork_cut_select Net.cutKept
  dsimp only
  let I := fun (pre : List Lanelet) (st : List Id × List Id × List Id) =>
      (∀ a, a ∈ st.1 ↔ a ∈ (pre.filter (fun l => keep l.id)).map (·.id)) ∧
      (∀ a, a ∈ st.2.2 ↔ a ∈ (pre.filter (fun l => keep l.id)).flatMap (·.signs)) ∧
      (∀ a, a ∈ st.2.1 ↔ a ∈ (pre.filter (fun l => keep l.id)).flatMap (·.lights))
  show I n.lanelets (List.foldl _ ([], [], []) n.lanelets)
  refine foldl_inv _ I ?_ n.lanelets [] ([], [], []) (by simp [I])
  rintro pre x ⟨l, tl, ts⟩ ⟨h1, h2, h3⟩
  show I _ _
  simp only [I]
  by_cases hk : keep x.id = true
  · simp only [hk, Bool.not_true, Bool.false_eq_true, if_false, List.filter_append, List.filter_cons, if_true,
      List.filter_nil, List.map_append, List.flatMap_append, List.mem_append, mem_add, mem_foldl_add]
    simp [h1, h2, h3]
  · have hk' : keep x.id = false := by simpa using hk
    simp only [hk', Bool.not_false, if_true, List.filter_append, List.filter_cons, Bool.false_eq_true, if_false,
      List.filter_nil, List.append_nil]
    exact ⟨h1, h2, h3⟩

/-! ### scenario level (scenario/scenario.py): look-up, `KeyError`, network-level removal, id pool -/

theorem andThen_pure (r : Scn × Option Err) : PyR.andThen r (fun s => (s, none)) = r := by
  rcases r with ⟨s, _ | e⟩ <;> rfl

theorem find_isNone {α : Type} (key : α → Id) (xs : List α) (i : Id) :
    (xs.find? (fun s => key s == i)).isNone = !((xs.map key).contains i) := by
  induction xs with
  | nil => simp
  | cons x xs ih =>
    by_cases h : key x = i
    · simp [List.find?_cons, h]
    · have h' : (key x == i) = false := by simpa using h
      have h'' : (i == key x) = false := by simpa using (fun e : i = key x => h e.symm)
      simp only [List.find?_cons, h', ih, List.map_cons, List.contains_cons, h'', Bool.false_or]

theorem forEach_eq {α : Type} (one : Scn → α → Scn × Option Err) (key : α → Id) (g : Scn → List Id → Scn × Option Err)
    (h0 : ∀ s, g s [] = (s, none))
    (hs : ∀ s x is, g s (key x :: is) = PyR.andThen (one s x) (fun s' => g s' is)) (s : Scn) (xs : List α) :
    PyR.forEach one s xs = g s (xs.map key) := by
  induction xs generalizing s with
  | nil => simp only [PyR.forEach, List.map_nil, h0]
  | cons x xs ih =>
    simp only [PyR.forEach, List.map_cons, hs]
    congr 1
    funext s'
    exact ih s'

theorem andThen_match (r : Scn × Option Err) (k : Scn → Scn × Option Err) :
    (match r with | (s2, none) => k s2 | r => r) = PyR.andThen r k := by
  rcases r with ⟨s, _ | e⟩ <;> rfl

theorem tie_scn_remove_traffic_sign_one (s : Scn) (e : Elem) :
    Gen.Scenario_remove_traffic_sign_one s e =
      if s.net.sids.contains e.1 = true then ({ s with net := s.net.removeSign e.1 } : Scn).idsRemove e.1 else (s, some .key) := by
  unfold Gen.Scenario_remove_traffic_sign_one
  have hn : (PyR.findSign s.net e.1).isNone = !(s.net.sids.contains e.1) := find_isNone (fun (x : Elem) => x.1) s.net.signs e.1
  simp only [hn, andThen_pure, PyR.idSetRemove, tie_remove_traffic_sign]
  cases s.net.sids.contains e.1 <;> simp

theorem tie_scn_remove_traffic_sign_list (s : Scn) (es : List Elem) :
    Gen.Scenario_remove_traffic_sign_list s es = s.removeSigns (es.map (·.1)) := by
  unfold Gen.Scenario_remove_traffic_sign_list
  simp only [andThen_pure]
  refine forEach_eq _ (·.1) Scn.removeSigns (fun _ => rfl) ?_ s es
  intro s x is
  rw [tie_scn_remove_traffic_sign_one, Scn.removeSigns]
  by_cases h : s.net.sids.contains x.1 = true
  · rw [if_pos h, if_pos h]; exact andThen_match _ _
  · rw [if_neg h, if_neg h]; rfl

theorem tie_scn_remove_traffic_light_one (s : Scn) (e : Elem) :
    Gen.Scenario_remove_traffic_light_one s e =
      if s.net.tids.contains e.1 = true then ({ s with net := s.net.removeLight e.1 } : Scn).idsRemove e.1 else (s, some .key) := by
  unfold Gen.Scenario_remove_traffic_light_one
  have hn : (PyR.findLight s.net e.1).isNone = !(s.net.tids.contains e.1) := find_isNone (fun (x : Elem) => x.1) s.net.lights e.1
  simp only [hn, andThen_pure, PyR.idSetRemove, tie_remove_traffic_light]
  cases s.net.tids.contains e.1 <;> simp

theorem tie_scn_remove_traffic_light_list (s : Scn) (es : List Elem) :
    Gen.Scenario_remove_traffic_light_list s es = s.removeLights (es.map (·.1)) := by
  unfold Gen.Scenario_remove_traffic_light_list
  simp only [andThen_pure]
  refine forEach_eq _ (·.1) Scn.removeLights (fun _ => rfl) ?_ s es
  intro s x is
  rw [tie_scn_remove_traffic_light_one, Scn.removeLights]
  by_cases h : s.net.tids.contains x.1 = true
  · rw [if_pos h, if_pos h]; exact andThen_match _ _
  · rw [if_neg h, if_neg h]; rfl

theorem forEach_idsRemove (s : Scn) (ks : List Incoming) :
    PyR.forEach (fun self (inc : Incoming) => PyR.idSetRemove self inc.id) s ks = s.idsRemoveAll (ks.map (·.id)) := by
  refine forEach_eq _ (·.id) Scn.idsRemoveAll (fun _ => rfl) ?_ s ks
  intro s x is
  rw [Scn.idsRemoveAll]; exact andThen_match _ _

theorem tie_scn_remove_intersection_one (s : Scn) (i : Intersection) :
    Gen.Scenario_remove_intersection_one s i = s.removeInter i.id := by
  unfold Gen.Scenario_remove_intersection_one Scn.removeInter
  simp only [PyR.findInter, andThen_pure, tie_remove_intersection, forEach_idsRemove]
  rcases hf : List.find? (fun s => s.id == i.id) s.net.inters with _ | c
  · simp [hf]
  · simp only [hf, Option.isNone_some, Bool.false_eq_true, if_false, Option.map_some, Option.getD_some, Scn.idsRemoveAll,
      andThen_match]
    rfl

theorem tie_scn_remove_intersection_list (s : Scn) (is : List Intersection) :
    Gen.Scenario_remove_intersection_list s is = s.removeInters (is.map (·.id)) := by
  unfold Gen.Scenario_remove_intersection_list
  simp only [andThen_pure]
  refine forEach_eq _ (·.id) Scn.removeInters (fun _ => rfl) ?_ s is
  intro s x is
  rw [tie_scn_remove_intersection_one, Scn.removeInters]; exact andThen_match _ _

theorem foldl_append_if (c : Elem → Bool) (xs : List Elem) (acc : List Id) :
    xs.foldl (fun acc t => if c t then acc ++ [t.1] else acc) acc = acc ++ (xs.filter c).map (·.1) := by
  induction xs generalizing acc with
  | nil => simp
  | cons x xs ih =>
    simp only [List.foldl_cons, ih, List.filter_cons]
    by_cases h : c x = true <;> simp [h]

theorem contains_unionAll (ss : List (List Id)) (a : Id) : (PyR.unionAll ss).contains a = ss.flatten.contains a := by
  have : a ∈ PyR.unionAll ss ↔ a ∈ ss.flatten := by simp [PyR.unionAll, List.mem_eraseDups]
  by_cases h : a ∈ ss.flatten
  · have h2 := this.mpr h
    simp [h, h2]
  · have h2 : ¬ a ∈ PyR.unionAll ss := fun x => h (this.mp x)
    simp [h, h2]

theorem mem_diff (D S : List Id) (a : Id) : PyR.mem a (PyR.diff D S) = (D.contains a && !S.contains a) := by
  simp only [PyR.mem, PyR.diff]
  by_cases h1 : a ∈ D <;> by_cases h2 : a ∈ S <;> simp [h1, h2]

/-- What `remove_hanging_lanelet_members` hands to remove_traffic_sign / remove_traffic_light is exactly the model's
`hangingSigns` / `hangingLights` (signs / lights referenced by an argument and by no remaining lanelet). -/
theorem tie_hanging_members (s : Scn) (args : List RmArg) :
    Gen.Scenario_hanging_members s args = (s.net.hangingSigns args, s.net.hangingLights args) := by
  unfold Gen.Scenario_hanging_members Net.hangingSigns Net.hangingLights
  simp only [PyR.idOfFound, mem_diff, contains_unionAll]
  rw [foldl_append_if (fun t => _ && !_), foldl_append_if (fun t => _ && !_)]
  simp only [List.nil_append, Net.sids, Net.tids, List.filter_map, List.flatMap_def, PyR.mem]
  rfl


theorem foldl_append_found (c : Elem → Bool) (g : Id → Elem) (xs : List Elem) (acc : List Elem) :
    xs.foldl (fun acc t => if c t then acc ++ [g t.1] else acc) acc = acc ++ (xs.filter c).map (fun t => g t.1) := by
  induction xs generalizing acc with
  | nil => simp
  | cons x xs ih =>
    simp only [List.foldl_cons, ih, List.filter_cons]
    by_cases h : c x = true <;> simp [h]

theorem foundSign_id (n : Net) (i : Id) : (PyR.foundSign n i).1 = i := by
  unfold PyR.foundSign PyR.findSign
  rcases h : n.signs.find? (fun s => s.1 == i) with _ | e
  · simp [h]
  · have := List.find?_some h
    simpa [h] using this

theorem foundLight_id (n : Net) (i : Id) : (PyR.foundLight n i).1 = i := by
  unfold PyR.foundLight PyR.findLight
  rcases h : n.lights.find? (fun s => s.1 == i) with _ | e
  · simp [h]
  · have := List.find?_some h
    simpa [h] using this

/-- The WHOLE of `remove_hanging_lanelet_members` — which signs / lights are picked AND the two final calls of
remove_traffic_sign / remove_traffic_light (list forms) with them, in this order, the lights only when the signs went
through — is the model's `Scn.removeHanging`. -/
theorem tie_remove_hanging_lanelet_members (s : Scn) (args : List RmArg) :
    Gen.Scenario_remove_hanging_lanelet_members s args = s.removeHanging args := by
  unfold Gen.Scenario_remove_hanging_lanelet_members Scn.removeHanging Net.hangingSigns Net.hangingLights
  simp only [mem_diff, contains_unionAll, andThen_pure, tie_scn_remove_traffic_sign_list, tie_scn_remove_traffic_light_list]
  rw [foldl_append_found (fun t => _ && !_), foldl_append_found (fun t => _ && !_)]
  simp only [List.nil_append, List.map_map, Function.comp_def, foundSign_id, foundLight_id, andThen_match,
    Net.sids, Net.tids, List.filter_map, List.flatMap_def, PyR.mem]
  rfl

/-- `Scenario.remove_lanelet` (list form, calling the TRANSLATED remove_hanging_lanelet_members) is the model's `removeLanelets`. -/
theorem tie_scn_remove_lanelet_list (s : Scn) (args : List RmArg) (r : Bool) :
    Gen.Scenario_remove_lanelet_list s args r = s.removeLanelets args r := by
  have loop : ∀ s : Scn, PyR.forEach (fun self (la : RmArg) =>
        if (PyR.findLanelet self.net la.id).isNone = true then (self, some Err.key)
        else PyR.idSetRemove ({ self with net := Gen.LaneletNetwork_remove_lanelet self.net la.id } : Scn) la.id) s args
      = s.removeLaneletLoop (args.map (·.id)) := by
    intro s
    refine forEach_eq _ (·.id) Scn.removeLaneletLoop (fun _ => rfl) ?_ s args
    intro s x is
    rw [Scn.removeLaneletLoop]
    have hn : (PyR.findLanelet s.net x.id).isNone = !(s.net.lids.contains x.id) :=
      find_isNone (fun (x : Lanelet) => x.id) s.net.lanelets x.id
    simp only [hn, tie_remove_lanelet, PyR.idSetRemove]
    by_cases h : s.net.lids.contains x.id = true
    · rw [if_pos h, if_neg (by rw [h]; decide)]; exact andThen_match _ _
    · rw [if_neg h, if_pos (by cases hc : s.net.lids.contains x.id <;> simp_all)]; rfl
  unfold Gen.Scenario_remove_lanelet_list Scn.removeLanelets
  simp only [andThen_pure, loop, tie_remove_hanging_lanelet_members]
  cases r
  · rfl
  · simp only [if_true]; exact (andThen_match _ _).symm



/-! ### the whole cut-out: `create_from_lanelet_network` = `Net.cutOut` -/

theorem nodup_add (s : List Id) (x : Id) (h : s.Nodup) : (PyR.add s x).Nodup := by
  unfold PyR.add
  by_cases hx : s.contains x = true
  · have hx' : x ∈ s := by simpa using hx
    simp [hx', h]
  · have hx' : x ∉ s := by simpa using hx
    simp only [hx, Bool.false_eq_true, if_false]
    exact List.nodup_append.mpr ⟨h, by simp, by intro a ha b hb; simp at hb; subst hb; exact fun e => hx' (e ▸ ha)⟩

theorem nodup_foldl_add (xs s : List Id) (h : s.Nodup) : (xs.foldl (fun t x => PyR.add t x) s).Nodup := by
  induction xs generalizing s with
  | nil => simpa using h
  | cons x xs ih => exact ih _ (nodup_add s x h)

/-- With pairwise different lanelet ids (dict keys) the first loop collects the ids of the kept lanelets in network order;
the sign / light id sets it builds have no duplicates. -/
theorem cut_select_exact (n : Net) (keep : Id → Bool) :
    (n.lids.Nodup → (Gen.LaneletNetwork_cut_select n keep).1 = (n.cutKept keep).map (·.id)) ∧
    (Gen.LaneletNetwork_cut_select n keep).2.1.Nodup ∧ (Gen.LaneletNetwork_cut_select n keep).2.2.Nodup := by
  unfold Gen.LaneletNetwork_cut_select Net.cutKept Net.lids
  dsimp only
  let I := fun (pre : List Lanelet) (st : List Id × List Id × List Id) =>
      ((pre.map (·.id)).Nodup → st.1 = (pre.filter (fun l => keep l.id)).map (·.id)) ∧ st.2.2.Nodup ∧ st.2.1.Nodup
  show I n.lanelets (List.foldl _ ([], [], []) n.lanelets)
  refine foldl_inv _ I ?_ n.lanelets [] ([], [], []) (by simp [I])
  rintro pre x ⟨l, tl, ts⟩ ⟨h1, h2, h3⟩
  show I _ _
  simp only [I]
  by_cases hk : keep x.id = true
  · simp only [hk, Bool.not_true, Bool.false_eq_true, if_false]
    refine ⟨?_, nodup_foldl_add _ _ h2, nodup_foldl_add _ _ h3⟩
    intro hnd
    rw [List.map_append, List.nodup_append] at hnd
    have hl := h1 hnd.1
    simp only at hl
    have hx : x.id ∉ l := by
      rw [hl]
      intro hm
      rcases List.mem_map.mp hm with ⟨y, hy, hyx⟩
      exact hnd.2.2 y.id (List.mem_map_of_mem (List.mem_filter.mp hy).1) x.id (by simp) hyx
    subst hl
    simp only [PyR.add, List.contains_eq_mem, hx, decide_false, Bool.false_eq_true, if_false]
    simp [List.filter_append, hk]
  · have hk' : keep x.id = false := by simpa using hk
    simp only [hk', Bool.not_false, if_true]
    refine ⟨?_, h2, h3⟩
    intro hnd
    rw [List.map_append, List.nodup_append] at hnd
    have hl := h1 hnd.1
    simp only at hl
    simp [hl, List.filter_append, hk']

theorem find_some_self {α : Type} (key : α → Id) (xs : List α) (h : (xs.map key).Nodup) (e : α) (he : e ∈ xs) :
    xs.find? (fun s => key s == key e) = some e := by
  induction xs with
  | nil => simp at he
  | cons x xs ih =>
    rw [List.map_cons, List.nodup_cons] at h
    by_cases hx : key x = key e
    · have : x = e := by
        rcases List.mem_cons.mp he with h' | h'
        · exact h'.symm
        · exact absurd (hx ▸ List.mem_map_of_mem h') h.1
      simp [List.find?_cons, this]
    · have hx' : (key x == key e) = false := by simpa using hx
      have he' : e ∈ xs := by
        rcases List.mem_cons.mp he with h' | h'
        · exact absurd (h' ▸ rfl) hx
        · exact h'
      simp only [List.find?_cons, hx']
      exact ih h.2 he'

theorem find_some_key {α : Type} (key : α → Id) (xs : List α) (i : Id) (e : α) (h : xs.find? (fun s => key s == i) = some e) :
    key e = i ∧ e ∈ xs := by
  have h1 := List.find?_some h
  exact ⟨by simpa using h1, List.mem_of_find?_eq_some h⟩

theorem all_congr_mem (p : Id → Bool) (xs ys : List Id) (h : ∀ a, a ∈ xs ↔ a ∈ ys) : xs.all p = ys.all p := by
  rw [Bool.eq_iff_iff]
  simp only [List.all_eq_true]
  exact ⟨fun hx a ha => hx a ((h a).mpr ha), fun hy a ha => hy a ((h a).mp ha)⟩

/-- the adding loop over the selected sign ids: AssertionError as soon as one id is not a sign of the source network, else
the looked-up signs are appended in loop order (ids pairwise different and new to the target network) -/
theorem forR_addSign (n : Net) : ∀ (ids : List Id) (acc : Net), ids.Nodup → (∀ i ∈ ids, i ∉ acc.sids) →
    PyR.forR (fun a i => PyR.addSignR a (PyR.findSign n i)) acc ids =
      if ids.all (fun i => n.sids.contains i) then .ok { acc with signs := acc.signs ++ ids.filterMap (PyR.findSign n) }
      else .error .assert := by
  intro ids
  induction ids with
  | nil => intro acc _ _; simp [PyR.forR]
  | cons i is ih =>
    intro acc hnd hdis
    rw [List.nodup_cons] at hnd
    have hn : (PyR.findSign n i).isNone = !(n.sids.contains i) := find_isNone (fun (x : Elem) => x.1) n.signs i
    rcases hf : PyR.findSign n i with _ | e
    · have hc : i ∉ n.sids := by simpa [hf] using hn
      simp only [PyR.forR]
      rw [hf]
      simp [PyR.addSignR, PyR.bindR, hc]
    · have hc : n.sids.contains i = true := by simpa [hf] using hn
      have hid : e.1 = i := (find_some_key (fun (x : Elem) => x.1) n.signs i e hf).1
      have hnot : e.1 ∉ acc.sids := by
        have := hdis i (List.mem_cons_self ..)
        simpa [hid] using this
      have hadd : PyR.addSignR acc (some e) = .ok { acc with signs := acc.signs ++ [e] } := by
        simp [PyR.addSignR, hnot]
      simp only [PyR.forR]
      rw [hf, hadd]
      simp only [PyR.bindR]
      rw [ih _ hnd.2]
      · have hc' : i ∈ n.sids := by simpa using hc
        simp [hc', hf, List.append_assoc]
      · intro j hj
        have hji : j ≠ i := fun e => hnd.1 (e ▸ hj)
        have := hdis j (List.mem_cons_of_mem _ hj)
        simp [Net.sids, hid] at this ⊢
        exact ⟨this, fun e => hji e⟩

theorem forR_addLight (n : Net) : ∀ (ids : List Id) (acc : Net), ids.Nodup → (∀ i ∈ ids, i ∉ acc.tids) →
    PyR.forR (fun a i => PyR.addLightR a (PyR.findLight n i)) acc ids =
      if ids.all (fun i => n.tids.contains i) then .ok { acc with lights := acc.lights ++ ids.filterMap (PyR.findLight n) }
      else .error .assert := by
  intro ids
  induction ids with
  | nil => intro acc _ _; simp [PyR.forR]
  | cons i is ih =>
    intro acc hnd hdis
    rw [List.nodup_cons] at hnd
    have hn : (PyR.findLight n i).isNone = !(n.tids.contains i) := find_isNone (fun (x : Elem) => x.1) n.lights i
    rcases hf : PyR.findLight n i with _ | e
    · have hc : i ∉ n.tids := by simpa [hf] using hn
      simp only [PyR.forR]
      rw [hf]
      simp [PyR.addLightR, PyR.bindR, hc]
    · have hc : n.tids.contains i = true := by simpa [hf] using hn
      have hid : e.1 = i := (find_some_key (fun (x : Elem) => x.1) n.lights i e hf).1
      have hnot : e.1 ∉ acc.tids := by
        have := hdis i (List.mem_cons_self ..)
        simpa [hid] using this
      have hadd : PyR.addLightR acc (some e) = .ok { acc with lights := acc.lights ++ [e] } := by
        simp [PyR.addLightR, hnot]
      simp only [PyR.forR]
      rw [hf, hadd]
      simp only [PyR.bindR]
      rw [ih _ hnd.2]
      · have hc' : i ∈ n.tids := by simpa using hc
        simp [hc', hf, List.append_assoc]
      · intro j hj
        have hji : j ≠ i := fun e => hnd.1 (e ▸ hj)
        have := hdis j (List.mem_cons_of_mem _ hj)
        simp [Net.tids, hid] at this ⊢
        exact ⟨this, fun e => hji e⟩

theorem forR_addLanelet (n : Net) : ∀ (ids : List Id) (acc : Net), ids.Nodup → (∀ i ∈ ids, i ∉ acc.lids) →
    PyR.forR (fun a i => PyR.addLaneletR a (PyR.findLanelet n i)) acc ids =
      if ids.all (fun i => n.lids.contains i) then .ok { acc with lanelets := acc.lanelets ++ ids.filterMap (PyR.findLanelet n) }
      else .error .assert := by
  intro ids
  induction ids with
  | nil => intro acc _ _; simp [PyR.forR]
  | cons i is ih =>
    intro acc hnd hdis
    rw [List.nodup_cons] at hnd
    have hn : (PyR.findLanelet n i).isNone = !(n.lids.contains i) := find_isNone (fun (x : Lanelet) => x.id) n.lanelets i
    rcases hf : PyR.findLanelet n i with _ | e
    · have hc : i ∉ n.lids := by simpa [hf] using hn
      simp only [PyR.forR]
      rw [hf]
      simp [PyR.addLaneletR, PyR.bindR, hc]
    · have hc : n.lids.contains i = true := by simpa [hf] using hn
      have hid : e.id = i := (find_some_key (fun (x : Lanelet) => x.id) n.lanelets i e hf).1
      have hnot : e.id ∉ acc.lids := by
        have := hdis i (List.mem_cons_self ..)
        simpa [hid] using this
      have hadd : PyR.addLaneletR acc (some e) = .ok { acc with lanelets := acc.lanelets ++ [e] } := by
        simp [PyR.addLaneletR, PyR.addLanelet, hnot]
      simp only [PyR.forR]
      rw [hf, hadd]
      simp only [PyR.bindR]
      rw [ih _ hnd.2]
      · have hc' : i ∈ n.lids := by simpa using hc
        simp [hc', hf, List.append_assoc]
      · intro j hj
        have hji : j ≠ i := fun e => hnd.1 (e ▸ hj)
        have := hdis j (List.mem_cons_of_mem _ hj)
        simp [Net.lids, hid] at this ⊢
        exact ⟨this, fun e => hji e⟩

theorem cut_id (P : Id → Bool) (i j : Intersection) (h : i.cut P = some j) : j.id = i.id := by
  unfold Intersection.cut at h
  dsimp only at h
  split at h
  · simp at h
  · simp at h; rw [← h]

/-- the loop over the old intersections (body = the translated piece, `add_intersection` = PyR.addInter): with pairwise
different intersection ids no `add_intersection` is refused, the loop is `filterMap Intersection.cut` -/
theorem foldl_addInter (ids : List Id) : ∀ (xs : List Intersection) (acc : Net), (xs.map (·.id)).Nodup →
    (∀ i ∈ xs, i.id ∉ acc.iids) → (∀ i ∈ xs, i.crossings.Nodup) →
    xs.foldl (fun a i => PyR.addInterO a (Gen.LaneletNetwork_cut_intersection ids i)) acc =
      { acc with inters := acc.inters ++ xs.filterMap (·.cut (fun a => ids.contains a)) } := by
  intro xs
  induction xs with
  | nil => intro acc _ _ _; simp
  | cons x xs ih =>
    intro acc hnd hdis hcr
    rw [List.map_cons, List.nodup_cons] at hnd
    simp only [List.foldl_cons]
    rw [tie_cut_intersection ids x (hcr x (List.mem_cons_self ..))]
    rcases hcut : x.cut (fun a => ids.contains a) with _ | j
    · show List.foldl _ acc xs = _
      rw [ih acc hnd.2 (fun i hi => hdis i (List.mem_cons_of_mem _ hi)) (fun i hi => hcr i (List.mem_cons_of_mem _ hi))]
      simp only [List.filterMap_cons, hcut]
    · have hj : j.id = x.id := cut_id _ x j hcut
      have hnot : j.id ∉ acc.iids := hj ▸ hdis x (List.mem_cons_self ..)
      have hadd : PyR.addInter acc j = { acc with inters := acc.inters ++ [j] } := by simp [PyR.addInter, hnot]
      show List.foldl _ (PyR.addInter acc j) xs = _
      rw [hadd]
      rw [ih _ hnd.2 _ (fun i hi => hcr i (List.mem_cons_of_mem _ hi))]
      · simp only [List.filterMap_cons, hcut]
        simp [List.append_assoc]
      · intro i hi
        have h1 := hdis i (List.mem_cons_of_mem _ hi)
        have h2 : i.id ≠ x.id := fun e => hnd.1 (e ▸ List.mem_map_of_mem hi)
        simp [Net.iids, hj] at h1 ⊢
        exact ⟨h1, fun e => h2 e⟩

theorem filterMap_find_self (n : Net) (hl : n.lids.Nodup) (ys : List Lanelet) (h : ∀ l ∈ ys, l ∈ n.lanelets) :
    (ys.map (·.id)).filterMap (PyR.findLanelet n) = ys := by
  induction ys with
  | nil => rfl
  | cons y ys ih =>
    have hy : PyR.findLanelet n y.id = some y := find_some_self (fun (x : Lanelet) => x.id) n.lanelets hl y (h y (List.mem_cons_self ..))
    simp only [List.map_cons, List.filterMap_cons, hy]
    rw [ih (fun l hl' => h l (List.mem_cons_of_mem _ hl'))]

/-- looking up the ids of a duplicate-free id set `ids` (same members as `R`) in a dict `xs`: the values whose key is in
`R`, up to order -/
theorem found_perm (xs : List Elem) (hx : (xs.map (·.1)).Nodup) (ids R : List Id) (hid : ids.Nodup) (hm : ∀ a, a ∈ ids ↔ a ∈ R) :
    (ids.filterMap (fun i => xs.find? (fun s => s.1 == i))).Perm (xs.filter (fun s => R.contains s.1)) := by
  have hxs : xs.Nodup := List.Pairwise.of_map (·.1) (fun a b hab e => hab (e ▸ rfl)) hx
  apply (List.perm_ext_iff_of_nodup ?_ (List.Nodup.sublist List.filter_sublist hxs)).mpr
  · intro e
    rw [List.mem_filterMap, List.mem_filter]
    constructor
    · rintro ⟨i, hi, hf⟩
      have := find_some_key (·.1) xs i e hf
      refine ⟨this.2, ?_⟩
      have : e.1 ∈ R := (hm _).mp (this.1 ▸ hi)
      simpa using this
    · rintro ⟨he, hr⟩
      have hr' : e.1 ∈ R := by simpa using hr
      exact ⟨e.1, (hm _).mpr hr', find_some_self (·.1) xs hx e he⟩
  · refine List.Pairwise.filterMap _ ?_ hid
    intro a a' hne b hb b' hb' e
    have h1 := (find_some_key (·.1) xs a b hb).1
    have h2 := (find_some_key (·.1) xs a' b' hb').1
    exact hne (by rw [← h1, ← h2, e])

/-- two networks that differ at most in the ORDER of their sign / light dicts (a Python set is iterated in an order the
model does not fix; lanelets and intersections come in network order on both sides) -/
def Net.same (a b : Net) : Prop :=
  a.lanelets = b.lanelets ∧ a.inters = b.inters ∧ a.signs.Perm b.signs ∧ a.lights.Perm b.lights

def sameRes : Res Net → Res Net → Prop
  | .ok a, .ok b => a.same b
  | .error e, .error e' => e = e'
  | _, _ => False

/-- THE WHOLE CUT-OUT.  `create_from_lanelet_network` — first loop, loop over the old intersections with add_intersection,
the adding loops over the selected sign / light / lanelet ids (AssertionError when a kept lanelet references a sign / light
the network does not hold), the `if cleanup_ids: cleanup_lanelet_references()` call, the return — is the model's
`Net.cutOut`: same exception, or the same network up to the order of the sign / light dicts.  Hypotheses = what Python dicts
and sets are: keys pairwise different, `crossings` without duplicates. -/
theorem tie_create_from_lanelet_network (n : Net) (keep : Id → Bool) (c : Bool)
    (hl : n.lids.Nodup) (hs : n.sids.Nodup) (ht : n.tids.Nodup) (hi : n.iids.Nodup) (hc : ∀ i ∈ n.inters, i.crossings.Nodup) :
    sameRes (Gen.LaneletNetwork_create_from_lanelet_network n keep c) (n.cutOut keep c) := by
  obtain ⟨hsel1, hnd1, hnd2⟩ := cut_select_exact n keep
  have hsel1 := hsel1 hl
  obtain ⟨_, m2, m3⟩ := tie_cut_select n keep
  unfold Gen.LaneletNetwork_create_from_lanelet_network Gen.LaneletNetwork_cut_assemble Net.cutOut
  simp only []
  generalize Gen.LaneletNetwork_cut_select n keep = sel at *
  rw [foldl_addInter sel.1 n.inters PyR.emptyNet hi (by simp [PyR.emptyNet, Net.iids]) hc]
  rw [forR_addSign n sel.2.1 _ hnd1 (by simp [PyR.emptyNet, Net.sids])]
  rw [all_congr_mem _ _ _ m2]
  have hkn : ((n.cutKept keep).map (·.id)).Nodup :=
    List.Nodup.sublist (List.Sublist.map _ List.filter_sublist) hl
  have hkall : ((n.cutKept keep).map (·.id)).all (fun i => n.lids.contains i) = true := by
    simp only [List.all_eq_true, List.mem_map]
    rintro i ⟨l, hl', rfl⟩
    have : l.id ∈ n.lids := List.mem_map_of_mem (List.mem_filter.mp hl').1
    simpa using this
  by_cases hA : ((n.cutKept keep).flatMap (·.signs)).all (fun a => n.sids.contains a) = true
  · simp only [hA, if_true, PyR.bindR, Bool.not_true, Bool.false_eq_true, if_false]
    rw [forR_addLight n sel.2.2 _ hnd2 (by simp [PyR.emptyNet, Net.tids])]
    rw [all_congr_mem _ _ _ m3]
    by_cases hB : ((n.cutKept keep).flatMap (·.lights)).all (fun a => n.tids.contains a) = true
    · simp only [hB, if_true, Bool.not_true, Bool.false_eq_true, if_false]
      rw [forR_addLanelet n sel.1 _ (hsel1 ▸ hkn) (by simp [PyR.emptyNet, Net.lids])]
      rw [hsel1, hkall]
      have hfm : ((n.cutKept keep).map (·.id)).filterMap (PyR.findLanelet n) = n.cutKept keep :=
        filterMap_find_self n hl (n.cutKept keep) (fun l h => (List.mem_filter.mp (show l ∈ n.lanelets.filter _ from h)).1)
      simp only [if_true, PyR.emptyNet, List.nil_append, hfm, tie_cleanup_lanelet_references]
      have hS := found_perm n.signs hs sel.2.1 _ hnd1 m2
      have hT := found_perm n.lights ht sel.2.2 _ hnd2 m3
      cases c
      · simp only [sameRes, Net.same, Net.cutBase, Bool.not_false, Bool.not_true, Bool.false_eq_true, if_false, if_true]
        exact ⟨trivial, trivial, hS, hT⟩
      · simp only [sameRes, Net.same, Net.cutBase, Net.cleanupLaneletRefs, Net.lids, Bool.not_false, Bool.not_true,
          Bool.false_eq_true, if_false, if_true]
        exact ⟨trivial, trivial, hS, hT⟩
    · have hB' := (Bool.not_eq_true _).mp hB
      simp only [hB', Bool.false_eq_true, if_false, Bool.not_false, if_true, sameRes]
  · have hA' := (Bool.not_eq_true _).mp hA
    simp only [hA', Bool.false_eq_true, if_false, Bool.not_false, if_true, sameRes, PyR.bindR]

end CR.Refs
