import CRModel.IdPool
namespace CR.IdPool
theorem C09_placeholder : (step init .genId).2 = .id 1 := by decide
end CR.IdPool
