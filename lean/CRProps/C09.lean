/-
  C09 — Object ids in a scenario stay unique and the id pool stays exact.
  Property theorems only (definitions `allIds`, `Inv`, `objIds`, `Contains`, `genOuts` and the helper
  lemmas live in CRProofs/IdPool.lean).  Model: CRModel/IdPool.lean — `step : St → Op → St × Out` mirrors
  Scenario.add_objects / remove_* / replace_lanelet_network / generate_object_id of scenario/scenario.py
  (after the four `fix:` commits recorded in known-findings.txt).

  Reading of the property sentence:
    * "no two contained objects share an id" + "the id pool stays exact"      → `Inv`  (C09_inv_*)
    * "adding an object whose id is in use raises ValueError and leaves the scenario unchanged"
                                                                               → C09_add_used_rejects, C09_add_list_rejects
      (the other way round: an object whose ids are all free is accepted, is itself contained afterwards and nothing
       else changes                                                            → C09_add_free_accepts, C09_add_frame,
                                                                                 C09_add_network_frame)
    * "generate_object_id returns an id that no contained object uses and that was never returned before"
                                                     → C09_gen_fresh (one call), C09_gen_fresh_in_history (any point of
                                                       any history), C09_gen_never_repeats
    * "the ids of removed objects become free again ... can be added again"    → C09_remove_*_then_add, one per removal
      form.  Each of them states, for contained (and, in the list forms, pairwise distinct) arguments: the call RETURNS
      (no `hr : … = ok` hypothesis), and every object that left can be added again.  For remove_lanelet the signs and
      lights that leave with the lanelets are characterised without the model's helper `hangingSigns`.
  The theorems hold for ALL states satisfying the invariant and ALL finite histories of operations — there is no
  admissibility side condition: removal operations handed an object that is not contained raise KeyError (or warn,
  remove_obstacle) before anything changes, see the fourth `fix:` commit.
-/
import CRProofs.IdPool
namespace CR.IdPool

/-! ## 1. ids unique, id pool exact — for every history -/

/-- The invariant says what the property says: the ids of the contained objects (lanelets, signs, lights,
    intersections with their incoming elements, obstacles of every role) are pairwise distinct, and the id set
    is exactly the set of these ids. -/
theorem C09_inv_readable (s : St) :
    Inv s ↔ ((allIds s).Nodup ∧ (∀ x, x ∈ s.idSet ↔ x ∈ allIds s)) ∧ (s.counter = none → s.idSet = []) :=
  inv_iff s

theorem C09_inv_init : Inv init := init_inv

/-- every operation — every object kind, single and list forms, contained argument or not, failing or not — keeps
    the invariant -/
theorem C09_inv_step (s : St) (op : Op) (h : Inv s) : Inv (step s op).1 :=
  step_inv s op h

/-- every finite history keeps the invariant (induction over the history) -/
theorem C09_inv_run (ops : List Op) (s : St) (h : Inv s) : Inv (run s ops).1 :=
  run_inv ops s h

/-- from the empty scenario: after any history no two contained objects share an id and the id pool is exact -/
theorem C09_unique_and_exact (ops : List Op) :
    (allIds (run init ops).1).Nodup ∧ ∀ x, x ∈ (run init ops).1.idSet ↔ x ∈ allIds (run init ops).1 :=
  ((inv_iff _).mp (run_inv ops init init_inv)).1

/-- a removal operation handed an object that is not contained raises KeyError and changes nothing -/
theorem C09_remove_foreign_rejects (s : St) :
    (∀ k, k ∉ s.net.signs → step s (.removeSign k) = (s, .err .key)) ∧
    (∀ k, k ∉ s.net.lights → step s (.removeLight k) = (s, .err .key)) ∧
    (∀ i, (∀ j ∈ s.net.inters, j.id ≠ i.id) → step s (.removeInter i) = (s, .err .key)) ∧
    (∀ l, l.id ∉ lids s.net → step s (.removeLanelets [l] false) = (s, .err .key)) := by
  refine ⟨fun k hk => ?_, fun k hk => ?_, fun i hi => ?_, fun l hl => ?_⟩
  · simp [step, removeSign, hk]
  · simp [step, removeLight, hk]
  · have : s.net.inters.find? (fun j => j.id = i.id) = none :=
      List.find?_eq_none.mpr (fun j hj => by simpa using hi j hj)
    simp [step, removeInter, this]
  · have hl' : l.id ∉ s.net.lanelets.map (·.id) := hl
    simp [step, removeLanelets, andThen, forEach, dropLanelet, hl']

/-! ## 2. adding -/

/-- An object one of whose ids is used by a contained object (or which carries an id twice) is rejected with
    ValueError and the scenario — id set, counter, network, obstacles — is unchanged.  Holds for every object kind
    including Intersection (id + incoming ids) and LaneletNetwork (ids of all members). -/
theorem C09_add_used_rejects (s : St) (o : Obj) (refs : List Nat) (h : Inv s)
    (hu : ¬ (objIds o).Nodup ∨ ∃ x ∈ objIds o, x ∈ allIds s) :
    step s (.add o refs) = (s, .err .value) := by
  apply addObj_used s o refs h
  rw [fresh_iff_allIds s h]
  rintro ⟨h1, h2⟩
  rcases hu with hu | ⟨x, hx, hx'⟩
  · exact hu h1
  · exact h2 x hx hx'

/-- list form of add_objects: the elements in front of the first one with a used id are added, that one is rejected
    with ValueError and leaves the scenario as it was just before it -/
theorem C09_add_list_rejects (s s1 : St) (os1 os2 : List Obj) (o : Obj) (refs : List Nat) (h : Inv s)
    (hpre : step s (.addList os1 refs) = (s1, .ok))
    (hu : ¬ (objIds o).Nodup ∨ ∃ x ∈ objIds o, x ∈ allIds s1) :
    step s (.addList (os1 ++ o :: os2) refs) = (s1, .err .value) := by
  have hi : Inv s1 := fst_of_eq hpre ▸ addList_inv s os1 refs h
  have hrej : addObj s1 o refs = (s1, .err .value) := by
    apply addObj_used s1 o refs hi
    rw [fresh_iff_allIds s1 hi]
    rintro ⟨h1, h2⟩
    rcases hu with hu | ⟨x, hx, hx'⟩
    · exact hu h1
    · exact h2 x hx hx'
  show forEach _ s (os1 ++ o :: os2) = _
  rw [forEach_append]
  have : forEach (fun s o => addObj s o refs) s os1 = (s1, .ok) := hpre
  rw [this]
  show andThen (addObj s1 o refs) _ = _
  rw [hrej]; rfl
/-- anything that is not a scenario object: ValueError, nothing changes
    (definitional: documents the `else: raise ValueError` branch of the model, carries no proof content) -/
theorem C09_add_wrong_type_rejects (s : St) (refs : List Nat) : step s (.add .invalid refs) = (s, .err .value) := rfl

/-- Conversely an object whose ids are distinct and used by no contained object is accepted and is itself contained
    afterwards — `Contains` names the object, not just an id: the lanelet value with its references, the intersection
    with its incoming ids, the obstacle in the dict of its role, the network as THE network (so a ValueError is raised
    exactly when an id is in use). -/
theorem C09_add_free_accepts (s : St) (o : Obj) (refs : List Nat) (h : Inv s) (hv : o ≠ .invalid)
    (hon : ∀ r k on, o ≠ .obstacleOn r k on)
    (hn : (objIds o).Nodup) (hf : ∀ x ∈ objIds o, x ∉ allIds s) :
    (step s (.add o refs)).2 = .ok ∧ Contains (step s (.add o refs)).1 o :=
  addObj_fresh s o refs h hv hon ((fresh_iff_allIds s h _).mpr ⟨hn, hf⟩)

/-- A static / dynamic obstacle that carries a lanelet assignment (`initial_shape_lanelet_ids`), with a free id: it is
    stored and its id reserved exactly like an obstacle without assignment (same state), but the call then registers
    it on its lanelets and raises AttributeError when one of them does not exist while the network has lanelets — an
    operation that fails half-way (`Role.onLanelets`: only the static and the dynamic branch of `add_objects` register;
    an environment / phantom obstacle is never registered, so its outcome is ok).  The invariant holds afterwards all the
    same (C09_inv_step). -/
theorem C09_add_obstacle_with_lanelets (s : St) (r : Role) (k : Nat) (on refs : List Nat) (hf : k ∉ allIds s) (h : Inv s) :
    (step s (.add (.obstacleOn r k on) refs)).1 = (step s (.add (.obstacle r k) refs)).1 ∧
    Contains (step s (.add (.obstacleOn r k on) refs)).1 (.obstacle r k) ∧
    (step s (.add (.obstacleOn r k on) refs)).2
      = if r.onLanelets = false ∨ s.net.lanelets.isEmpty ∨ ∀ x ∈ on, x ∈ lids s.net then .ok else .err .attr := by
  have hk : k ∉ s.idSet := fun hx => hf ((((inv_iff s).mp h).1.2 k).mp hx)
  refine ⟨addObstacleOn_fst s r k on refs, ?_, ?_⟩
  · show Contains (addObj s (.obstacleOn r k on) refs).1 _
    rw [addObstacleOn_fst]
    exact (addObj_fresh s (.obstacle r k) refs h (by simp) (by simp) ⟨by simp [objIds], by simpa [objIds] using hk⟩).2
  · show (addObj s (.obstacleOn r k on) refs).2 = _
    rw [addObstacleOn_snd, if_neg hk]

/-- An environment / phantom obstacle is never registered on lanelets (the branches of `add_objects` for these two roles
    only mark the id and store the obstacle, scenario.py:754-759 — read off the translated source, tie `T09.tie_add_objects`):
    whatever lanelet assignment the object carries, the call behaves exactly like the add of an obstacle without one — same
    state, same outcome, for every state (no invariant needed). -/
theorem C09_add_unregistered_role_ignores_assignment (s : St) (r : Role) (k : Nat) (on refs : List Nat)
    (hr : r.onLanelets = false) :
    step s (.add (.obstacleOn r k on) refs) = step s (.add (.obstacle r k) refs) := by
  show addObstacleOn s r k on = onMarked (mark s k) fun s1 => putObstacle s1 r k
  unfold addObstacleOn onMarked
  rcases mark s k with ⟨s1, _ | e⟩ <;> simp [hr]

/-- Frame of an accepted add (anything but a whole network): every object that was contained is still contained
    (`Keeps`: obstacles per role, lanelets by id, signs, lights, intersections with their incomings), the multiset of
    contained ids grows by exactly the ids of the new object, and so does the id pool. -/
theorem C09_add_frame (s : St) (o : Obj) (refs : List Nat) (h : Inv s) (hnw : ∀ n, o ≠ .network n)
    (hn : (objIds o).Nodup) (hf : ∀ x ∈ objIds o, x ∉ allIds s) :
    Keeps s (step s (.add o refs)).1 ∧
    (∀ x, (allIds (step s (.add o refs)).1).count x = (allIds s).count x + (objIds o).count x) ∧
    (∀ x, x ∈ (step s (.add o refs)).1.idSet ↔ x ∈ s.idSet ∨ x ∈ objIds o) :=
  have hfr := (fresh_iff_allIds s h _).mpr ⟨hn, hf⟩
  ⟨addObj_keeps s o refs hnw, addObj_cnt s o refs h hnw hfr, addObj_idSet s o refs hnw hfr⟩

/-- Frame of an accepted add_objects(LaneletNetwork): it becomes the network, the obstacles are untouched, and the id
    pool is exactly the ids of the new members plus the ids of the obstacles (the replaced network's ids are released). -/
theorem C09_add_network_frame (s : St) (n : Net) (refs : List Nat) (h : Inv s)
    (hn : (netIds n).Nodup) (hf : ∀ x ∈ netIds n, x ∉ allIds s) :
    (step s (.add (.network n) refs)).1.net = n ∧ SameObst s (step s (.add (.network n) refs)).1 ∧
    ∀ x, x ∈ (step s (.add (.network n) refs)).1.idSet ↔ x ∈ netIds n ∨ x ∈ obstIds s :=
  addNetwork_frame s n h ((fresh_iff_allIds s h _).mpr ⟨hn, hf⟩)

/-! ## 3. generate_object_id -/

/-- the returned id is used by no contained object (before and after the call); nothing but the counter changes -/
theorem C09_gen_fresh (s : St) (h : Inv s) :
    ∃ n, (step s .genId).2 = .id n ∧ n ∉ allIds s ∧ n ∉ allIds (step s .genId).1 ∧
      (step s .genId).1.idSet = s.idSet ∧ allIds (step s .genId).1 = allIds s := by
  obtain ⟨n, e, _, h2⟩ := genId_spec s
  have hn : n ∉ allIds s := fun hx => by have := h2 n (h.mem_of_contained hx); omega
  refine ⟨n, ?_, hn, ?_, ?_, ?_⟩ <;> (show _ ; simp only [step, e]) <;> first | rfl | exact hn

/-- Whatever else happens in between — adds, removals, replacements, failing calls — the ids returned by
    `generate_object_id` during a history are strictly increasing, hence never returned twice. -/
theorem C09_gen_never_repeats (ops : List Op) (s : St) :
    (genOuts (run s ops).2).Pairwise (· < ·) ∧ (genOuts (run s ops).2).Nodup := by
  have := (run_gen_increasing ops s).2
  exact ⟨this, this.imp (fun h => Nat.ne_of_lt h)⟩

/-- (definitional: documents `run`) the outcome list of a history splits at any point; `(run s pre).1` is the scenario
    "at that point". -/
theorem C09_run_split (s : St) (pre post : List Op) (op : Op) :
    (run s (pre ++ op :: post)).2
      = (run s pre).2 ++ (step (run s pre).1 op).2 :: (run (step (run s pre).1 op).1 post).2 := by
  rw [run_append]; rfl

/-- At ANY point of ANY history (from a state satisfying the invariant, e.g. the empty scenario): the id that
    `generate_object_id` returns there is used by no object contained at that point and is larger than — hence
    different from — every id returned earlier in the history. -/
theorem C09_gen_fresh_in_history (s : St) (h : Inv s) (pre : List Op) :
    ∃ n, (step (run s pre).1 .genId).2 = .id n ∧ n ∉ allIds (run s pre).1 ∧
      ∀ m ∈ genOuts (run s pre).2, m < n := by
  have hi := run_inv pre s h
  obtain ⟨n, e, h1, h2⟩ := genId_spec (run s pre).1
  refine ⟨n, by simp only [step, e], fun hx => ?_, fun m hm => ?_⟩
  · have := h2 n (hi.mem_of_contained hx); omega
  · have := genOuts_le_cv pre s m hm; omega

/-! ## 4. removed objects can be added again

  One theorem per removal form.  Hypotheses: the invariant, the arguments are objects of the scenario and (list forms)
  pairwise distinct.  Conclusions: the call returns normally, and each removed object can be added again. -/

theorem C09_remove_obstacle_then_add (s : St) (k : Nat) (h : Inv s) (hk : k ∈ obstIds s) (r : Role) (refs : List Nat) :
    (step s (.removeObstacle k)).2 = .ok ∧ (step (step s (.removeObstacle k)).1 (.add (.obstacle r k) refs)).2 = .ok := by
  obtain ⟨h1, h2⟩ := removeObstacle_frees s k h hk
  exact ⟨h1, add_ok_of_free _ _ refs (removeObstacle_good s k h).1 (by simp) (by simp) (by simp [objIds])
    (by simpa [objIds, step] using h2)⟩

/-- list form of remove_obstacle (any list — ids that belong to no obstacle only produce a warning): the call returns,
    every listed obstacle id is used by no contained object afterwards, and an obstacle with that id can be added -/
theorem C09_remove_obstacle_list_then_add (s : St) (ks : List Nat) (h : Inv s) (k : Nat) (hk : k ∈ ks)
    (ho : k ∈ obstIds s) (r : Role) (refs : List Nat) :
    (step s (.removeObstacles ks)).2 = .ok ∧ k ∉ allIds (step s (.removeObstacles ks)).1 ∧
    (step (step s (.removeObstacles ks)).1 (.add (.obstacle r k) refs)).2 = .ok := by
  have hi := (removeObstacles_good s ks h).1
  have hfree := removeObstacles_frees ks s h k hk ho
  exact ⟨removeObstacles_ok s ks h, fun hx => hfree (hi.mem_of_contained hx),
    add_ok_of_free _ _ refs hi (by simp) (by simp) (by simp [objIds]) (by simpa [objIds, step] using hfree)⟩

theorem C09_remove_sign_then_add (s : St) (k : Nat) (h : Inv s) (hk : k ∈ s.net.signs) (refs : List Nat) :
    (step s (.removeSign k)).2 = .ok ∧ (step (step s (.removeSign k)).1 (.add (.sign k) refs)).2 = .ok := by
  have hok := removeSign_ok s k h hk
  exact ⟨hok, add_ok_of_free _ _ refs (removeSign_good s k h).1 (by simp) (by simp) (by simp [objIds])
    (by simpa [objIds, step] using removeSign_frees s _ k (Prod.ext rfl hok))⟩

theorem C09_remove_light_then_add (s : St) (k : Nat) (h : Inv s) (hk : k ∈ s.net.lights) (refs : List Nat) :
    (step s (.removeLight k)).2 = .ok ∧ (step (step s (.removeLight k)).1 (.add (.light k) refs)).2 = .ok := by
  have hok := removeLight_ok s k h hk
  exact ⟨hok, add_ok_of_free _ _ refs (removeLight_good s k h).1 (by simp) (by simp) (by simp [objIds])
    (by simpa [objIds, step] using removeLight_frees s _ k (Prod.ext rfl hok))⟩

/-- single form of remove_intersection: id and incoming ids are free again -/
theorem C09_remove_intersection_then_add (s : St) (i : Inter) (h : Inv s) (hi : i ∈ s.net.inters) (refs : List Nat) :
    (step s (.removeInter i)).2 = .ok ∧ (step (step s (.removeInter i)).1 (.add (.inter i) refs)).2 = .ok := by
  have hok := removeInter_ok s i h hi
  refine ⟨hok, add_ok_of_free _ _ refs (removeInter_good s i h).1 (by simp) (by simp) (h.interIds_nodup hi) ?_⟩
  exact removeInter_frees_contained s _ i h hi (Prod.ext rfl hok)

/-- list form of remove_traffic_sign: contained, pairwise distinct signs — the call returns and each can be added again -/
theorem C09_remove_sign_list_then_add (s : St) (ks : List Nat) (h : Inv s) (hd : ks.Nodup)
    (hc : ∀ k ∈ ks, k ∈ s.net.signs) :
    (step s (.removeSigns ks)).2 = .ok ∧
    ∀ k ∈ ks, ∀ refs, (step (step s (.removeSigns ks)).1 (.add (.sign k) refs)).2 = .ok := by
  have hok := removeSigns_ok s ks h hd hc
  refine ⟨hok, fun k hk refs => ?_⟩
  exact add_ok_of_free _ _ refs (removeSigns_good s ks h).1 (by simp) (by simp) (by simp [objIds])
    (by simpa [objIds, step] using removeSigns_frees s _ ks (Prod.ext rfl hok) k hk)

theorem C09_remove_light_list_then_add (s : St) (ks : List Nat) (h : Inv s) (hd : ks.Nodup)
    (hc : ∀ k ∈ ks, k ∈ s.net.lights) :
    (step s (.removeLights ks)).2 = .ok ∧
    ∀ k ∈ ks, ∀ refs, (step (step s (.removeLights ks)).1 (.add (.light k) refs)).2 = .ok := by
  have hok := removeLights_ok s ks h hd hc
  refine ⟨hok, fun k hk refs => ?_⟩
  exact add_ok_of_free _ _ refs (removeLights_good s ks h).1 (by simp) (by simp) (by simp [objIds])
    (by simpa [objIds, step] using removeLights_frees s _ ks (Prod.ext rfl hok) k hk)

/-- list form of remove_intersection (the form that leaked the incoming ids before the fix): contained, pairwise
    distinct intersections — the call returns and each of them, with its incoming ids, can be added again -/
theorem C09_remove_intersection_list_then_add (s : St) (is : List Inter) (h : Inv s) (hd : is.Nodup)
    (hc : ∀ i ∈ is, i ∈ s.net.inters) :
    (step s (.removeInters is)).2 = .ok ∧
    ∀ i ∈ is, ∀ refs, (step (step s (.removeInters is)).1 (.add (.inter i) refs)).2 = .ok := by
  have hok := removeInters_ok s is h hd hc
  refine ⟨hok, fun i hi refs => ?_⟩
  exact add_ok_of_free _ _ refs (removeInters_good s is h).1 (by simp) (by simp) (h.interIds_nodup (hc i hi))
    (removeInters_frees is s _ h hc (Prod.ext rfl hok) i hi)

/-- remove_lanelet (single form = one-element list, and list form) for contained lanelets with pairwise different ids:
    the call returns; exactly the listed lanelets leave; with `referenced_elements` a traffic sign (light) leaves iff a
    removed lanelet refers to it and no remaining lanelet does, otherwise none leaves; the removed lanelets and every
    sign and light that left can be added again. -/
theorem C09_remove_lanelet_then_add (s : St) (ls : List Lanelet) (refd : Bool) (h : Inv s)
    (hd : (ls.map (·.id)).Nodup) (hc : ∀ l ∈ ls, l.id ∈ lids s.net) :
    let s' := (step s (.removeLanelets ls refd)).1
    (step s (.removeLanelets ls refd)).2 = .ok ∧
    (∀ x, x ∈ lids s'.net ↔ x ∈ lids s.net ∧ x ∉ ls.map (·.id)) ∧
    (∀ x, x ∈ s'.net.signs ↔ x ∈ s.net.signs ∧
      ¬ (refd = true ∧ (∃ l ∈ ls, x ∈ l.signs) ∧ ∀ l' ∈ s.net.lanelets, l'.id ∉ ls.map (·.id) → x ∉ l'.signs)) ∧
    (∀ x, x ∈ s'.net.lights ↔ x ∈ s.net.lights ∧
      ¬ (refd = true ∧ (∃ l ∈ ls, x ∈ l.lights) ∧ ∀ l' ∈ s.net.lanelets, l'.id ∉ ls.map (·.id) → x ∉ l'.lights)) ∧
    (∀ l ∈ ls, ∀ refs, (step s' (.add (.lanelet l) refs)).2 = .ok) ∧
    (∀ k ∈ s.net.signs, k ∉ s'.net.signs → ∀ refs, (step s' (.add (.sign k) refs)).2 = .ok) ∧
    (∀ k ∈ s.net.lights, k ∉ s'.net.lights → ∀ refs, (step s' (.add (.light k) refs)).2 = .ok) := by
  intro s'
  have hok : (removeLanelets s ls refd).2 = .ok := removeLanelets_ok s ls refd h hd hc
  have hr : removeLanelets s ls refd = (s', .ok) := Prod.ext rfl hok
  have g : Good s s' := removeLanelets_good s ls refd h
  obtain ⟨e1, e2, e3⟩ := removeLanelets_effect s s' ls refd hr
  obtain ⟨f1, _⟩ := removeLanelets_frees s s' ls refd hr
  refine ⟨hok, e1, fun x => ?_, fun x => ?_, fun l hl refs => ?_, fun k hk hk' refs => ?_, fun k hk hk' refs => ?_⟩
  · rw [e2 x]
    have := mem_hangingSigns s ls x
    constructor
    · rintro ⟨a, b⟩; exact ⟨a, fun ⟨r, c, d⟩ => b r (this.mpr ⟨a, c, d⟩)⟩
    · rintro ⟨a, b⟩; exact ⟨a, fun r hm => b ⟨r, (this.mp hm).2.1, (this.mp hm).2.2⟩⟩
  · rw [e3 x]
    have := mem_hangingLights s ls x
    constructor
    · rintro ⟨a, b⟩; exact ⟨a, fun ⟨r, c, d⟩ => b r (this.mpr ⟨a, c, d⟩)⟩
    · rintro ⟨a, b⟩; exact ⟨a, fun r hm => b ⟨r, (this.mp hm).2.1, (this.mp hm).2.2⟩⟩
  · exact add_ok_of_free _ _ refs g.1 (by simp) (by simp) (by simp [objIds]) (by simpa [objIds] using f1 l hl)
  · rcases g.2.signs k hk with q | q
    · exact absurd q hk'
    · exact add_ok_of_free _ _ refs g.1 (by simp) (by simp) (by simp [objIds]) (by simpa [objIds] using q)
  · rcases g.2.lights k hk with q | q
    · exact absurd q hk'
    · exact add_ok_of_free _ _ refs g.1 (by simp) (by simp) (by simp [objIds]) (by simpa [objIds] using q)

/-- replace_lanelet_network: it returns exactly when the ids of the new network are pairwise distinct and none of them
    belongs to an obstacle — ids of the replaced network may be reused (otherwise ValueError); then the new network is
    installed, the obstacles are untouched, the id pool is the new members' ids plus the obstacles' ids, and every
    object whose ids belonged to the old network and are not taken by a member of the new one can be added again. -/
theorem C09_replace_network_then_add (s : St) (n : Net) (h : Inv s) :
    ((netIds n).Nodup ∧ (∀ k ∈ netIds n, k ∉ obstIds s) →
      (step s (.replaceNet n)).2 = .ok ∧ (step s (.replaceNet n)).1.net = n ∧ SameObst s (step s (.replaceNet n)).1 ∧
      (∀ x, x ∈ (step s (.replaceNet n)).1.idSet ↔ x ∈ netIds n ∨ x ∈ obstIds s) ∧
      ∀ o refs, o ≠ .invalid → (∀ r k on, o ≠ .obstacleOn r k on) → (objIds o).Nodup →
        (∀ x ∈ objIds o, x ∈ netIds s.net ∧ x ∉ netIds n) →
        (step (step s (.replaceNet n)).1 (.add o refs)).2 = .ok) ∧
    (¬ ((netIds n).Nodup ∧ ∀ k ∈ netIds n, k ∉ obstIds s) → (step s (.replaceNet n)).2 = .err .value) := by
  constructor
  · rintro ⟨hn, hf⟩
    obtain ⟨hok, hnet, hobst, hid⟩ := replaceNet_ok s n h hn hf
    refine ⟨hok, hnet, hobst, hid, fun o refs hv hon hno hold => ?_⟩
    exact add_ok_of_free _ _ refs (replaceNet_inv s n h) hv hon hno
      (fun x hx => replaceNet_frees s _ n h (Prod.ext rfl hok) x (hold x hx).1 (hold x hx).2)
  · intro hnot
    have hok := erase_ok s h
    have hnf : ¬ Fresh (erase s).1 (netIds n) := fun hf =>
      hnot ⟨hf.1, fun k hk hx => hf.2 k hk ((erase_idSet s h k).mpr hx)⟩
    show (replaceNet s n).2 = _
    unfold replaceNet
    rw [andThen_eq_of_ok hok]
    unfold addNetwork
    rw [markMany_used _ _ hnf]; rfl

/-- erase_lanelet_network (public entry point of its own): it returns, the network is empty afterwards, the obstacles
    are untouched, exactly the obstacle ids stay reserved, and every object whose ids belonged to the network can be added -/
theorem C09_erase_network_then_add (s : St) (h : Inv s) :
    (step s .eraseNet).2 = .ok ∧ (step s .eraseNet).1.net = {} ∧ SameObst s (step s .eraseNet).1 ∧
    (∀ x, x ∈ (step s .eraseNet).1.idSet ↔ x ∈ obstIds s) ∧
    ∀ o refs, o ≠ .invalid → (∀ r k on, o ≠ .obstacleOn r k on) → (objIds o).Nodup → (∀ x ∈ objIds o, x ∈ netIds s.net) →
      (step (step s .eraseNet).1 (.add o refs)).2 = .ok := by
  have hok := erase_ok s h
  have he : erase s = ((erase s).1, .ok) := Prod.ext rfl hok
  refine ⟨hok, erase_ok_net s _ he, erase_obst s, erase_idSet s h, fun o refs hv hon hn hold => ?_⟩
  exact add_ok_of_free _ _ refs (erase_inv s h) hv hon hn (fun x hx => erase_frees s _ h he x (hold x hx))

/-- add_objects(LaneletNetwork) replaces the network as well: the ids of the network it drops are free afterwards -/
theorem C09_add_network_releases_old (s : St) (n : Net) (hok : (step s (.add (.network n) [])).2 = .ok)
    (x : Nat) (hx : x ∈ netIds s.net) : x ∉ (step s (.add (.network n) [])).1.idSet := by
  show x ∉ (addNetwork s n).1.idSet
  have hok' : (addNetwork s n).2 = .ok := hok
  unfold addNetwork at hok' ⊢
  by_cases hf : Fresh s (netIds n)
  · rw [markMany_fresh s _ hf, onMarked_none]
    simp [hx]
  · rw [markMany_used s _ hf] at hok'; simp [onMarked] at hok'

/-! ## non-vacuity and the repaired defects, on concrete histories
  (`decide`d facts about these literals only — tests of the model, not general statements) -/

/-- a history that uses every kind of operation (also removals of objects that are not contained); its outcomes -/
def demoOps : List Op :=
  [.add (.lanelet ⟨1, [5], [7]⟩) [], .add (.lanelet ⟨2, [5, 6], []⟩) [], .add (.sign 5) [], .add (.sign 6) [2],
   .add (.light 7) [1], .add (.inter ⟨10, [11, 12]⟩) [], .add (.obstacle .stat 20) [], .add (.obstacle .phan 11) [],
   .genId, .removeInters [⟨10, [11, 12]⟩], .add (.inter ⟨10, [11, 12]⟩) [], .removeLanelets [⟨2, [5, 6], []⟩] true,
   .add (.sign 6) [], .genId, .addList [.obstacle .dyn 30, .obstacle .env 20, .obstacle .env 31] [],
   .replaceNet { lanelets := [⟨1, [], []⟩], signs := [40] }, .add (.sign 5) [], .removeSign 99, .removeObstacles [20, 77],
   .removeLight 1, .removeInter ⟨10, [1]⟩, .add (.inter ⟨10, [11, 12]⟩) []]

example : (run init demoOps).2 =
    [.ok, .ok, .ok, .ok, .ok, .ok, .ok, .err .value, .id 21, .ok, .ok, .ok, .ok, .id 22, .err .value, .ok, .ok,
     .err .key, .ok, .err .key, .err .key, .ok] := by decide
example : Inv (run init demoOps).1 := C09_inv_run demoOps init C09_inv_init

/-- the hypotheses of the removal theorems are satisfiable together: a state reached by a history (so `Inv` holds),
    two contained lanelets with different ids sharing / owning signs, two contained intersections -/
def demoState : St := (run init (demoOps.take 8)).1
example : Inv demoState := C09_inv_run _ init C09_inv_init
example : ((demoState.net.lanelets.map (·.id)).Nodup ∧ ∀ l ∈ demoState.net.lanelets, l.id ∈ lids demoState.net) ∧
    demoState.net.lanelets.length = 2 ∧ demoState.net.signs = [5, 6] ∧ demoState.net.inters = [⟨10, [11, 12]⟩] ∧
    demoState.stat = [20] := by decide
example : (step demoState (.removeLanelets demoState.net.lanelets true)).2 = .ok :=
  (C09_remove_lanelet_then_add demoState _ true (C09_inv_run _ init C09_inv_init) (by decide) (by decide)).1
example : (step demoState (.replaceNet { lanelets := [⟨1, [], []⟩], signs := [5, 40] })).2 = .ok :=
  ((C09_replace_network_then_add demoState _ (C09_inv_run _ init C09_inv_init)).1 (by decide)).1

/-- defect 1 (repaired): list-form remove_intersection, then adding the intersection again -/
example : (run init [.add (.inter ⟨51, [52, 53]⟩) [], .removeInters [⟨51, [52, 53]⟩], .add (.inter ⟨51, [52, 53]⟩) []]).2
    = [.ok, .ok, .ok] := by decide
/-- defect 2 (repaired): a failed add of an Intersection / LaneletNetwork leaves the scenario unchanged -/
example : step (step init (.add (.obstacle .stat 12) [])).1 (.add (.inter ⟨10, [11, 12]⟩) [])
    = ((step init (.add (.obstacle .stat 12) [])).1, .err .value) := by decide
example : step init (.add (.network { lanelets := [⟨2, [], []⟩], signs := [3], lights := [3] }) []) = (init, .err .value) := by
  decide
/-- defect 3 (repaired): add_objects(LaneletNetwork) over a non-empty network frees the ids of the old members -/
example : (run init [.add (.lanelet ⟨1, [], []⟩) [], .add (.network { lanelets := [⟨2, [], []⟩] }) [],
    .add (.lanelet ⟨1, [], []⟩) []]).2 = [.ok, .ok, .ok] := by decide

end CR.IdPool
