/-
  C09 — Object ids in a scenario stay unique and the id pool stays exact.
  Property theorems only (definitions `allIds`, `Inv`, `objIds`, `Contains`, `genOuts` and the helper
  lemmas live in CRProofs/IdPool.lean).  Model: CRModel/IdPool.lean — `step : St → Op → St × Out` mirrors
  Scenario.add_objects / remove_* / replace_lanelet_network / generate_object_id of scenario/scenario.py
  (after the four `fix:` commits recorded in known-findings.txt).

  Reading of the property sentence:
    * "no two contained objects share an id" + "the id pool stays exact"      → `Inv`  (C09_inv_*)
    * "adding an object whose id is in use raises ValueError and leaves the scenario unchanged"
                                                                               → C09_add_used_rejects
      (and, the other way round, an object whose ids are all free is accepted  → C09_add_free_accepts)
    * "generate_object_id returns an id that no contained object uses and that was never returned before"
                                                                               → C09_gen_fresh, C09_gen_never_repeats
    * "the ids of removed objects become free again ... can be added again"    → C09_removed_can_be_added_again and
                                                                                 C09_remove_*_then_add (every form)
  The theorems hold for ALL states satisfying the invariant and ALL finite histories of operations — there is no
  admissibility side condition: removal operations handed an object that is not contained raise KeyError (or warn,
  remove_obstacle) before anything changes, see the fourth `fix:` commit.
-/
import CRProofs.IdPool
namespace CR.IdPool

/-! ## 1. ids unique, id pool exact — for every history -/

/-- The invariant says what the property says: the ids of the contained objects (lanelets, signs, lights,
    intersections with their incoming elements, obstacles of every role) are pairwise distinct, and the id set
    is exactly the set of these ids. -/
theorem C09_inv_readable (s : St) :
    Inv s ↔ ((allIds s).Nodup ∧ (∀ x, x ∈ s.idSet ↔ x ∈ allIds s)) ∧ (s.counter = none → s.idSet = []) :=
  inv_iff s

theorem C09_inv_init : Inv init := init_inv

/-- every operation — every object kind, single and list forms, contained argument or not, failing or not — keeps
    the invariant -/
theorem C09_inv_step (s : St) (op : Op) (h : Inv s) : Inv (step s op).1 :=
  step_inv s op h

/-- every finite history keeps the invariant (induction over the history) -/
theorem C09_inv_run (ops : List Op) (s : St) (h : Inv s) : Inv (run s ops).1 :=
  run_inv ops s h

/-- from the empty scenario: after any history no two contained objects share an id and the id pool is exact -/
theorem C09_unique_and_exact (ops : List Op) :
    (allIds (run init ops).1).Nodup ∧ ∀ x, x ∈ (run init ops).1.idSet ↔ x ∈ allIds (run init ops).1 :=
  ((inv_iff _).mp (run_inv ops init init_inv)).1

/-- a removal operation handed an object that is not contained raises KeyError and changes nothing -/
theorem C09_remove_foreign_rejects (s : St) :
    (∀ k, k ∉ s.net.signs → step s (.removeSign k) = (s, .err .key)) ∧
    (∀ k, k ∉ s.net.lights → step s (.removeLight k) = (s, .err .key)) ∧
    (∀ i, (∀ j ∈ s.net.inters, j.id ≠ i.id) → step s (.removeInter i) = (s, .err .key)) ∧
    (∀ l, l.id ∉ lids s.net → step s (.removeLanelets [l] false) = (s, .err .key)) := by
  refine ⟨fun k hk => ?_, fun k hk => ?_, fun i hi => ?_, fun l hl => ?_⟩
  · simp [step, removeSign, hk]
  · simp [step, removeLight, hk]
  · have : s.net.inters.find? (fun j => j.id = i.id) = none :=
      List.find?_eq_none.mpr (fun j hj => by simpa using hi j hj)
    simp [step, removeInter, this]
  · have hl' : l.id ∉ s.net.lanelets.map (·.id) := hl
    simp [step, removeLanelets, andThen, forEach, dropLanelet, hl']

/-! ## 2. adding -/

/-- An object one of whose ids is used by a contained object (or which carries an id twice) is rejected with
    ValueError and the scenario — id set, counter, network, obstacles — is unchanged.  Holds for every object kind
    including Intersection (id + incoming ids) and LaneletNetwork (ids of all members). -/
theorem C09_add_used_rejects (s : St) (o : Obj) (refs : List Nat) (h : Inv s)
    (hu : ¬ (objIds o).Nodup ∨ ∃ x ∈ objIds o, x ∈ allIds s) :
    step s (.add o refs) = (s, .err .value) := by
  apply addObj_used s o refs h
  rw [fresh_iff_allIds s h]
  rintro ⟨h1, h2⟩
  rcases hu with hu | ⟨x, hx, hx'⟩
  · exact hu h1
  · exact h2 x hx hx'

/-- list form of add_objects: the elements in front of the first one with a used id are added, that one is rejected
    with ValueError and leaves the scenario as it was just before it -/
theorem C09_add_list_rejects (s s1 : St) (os1 os2 : List Obj) (o : Obj) (refs : List Nat) (h : Inv s)
    (hpre : step s (.addList os1 refs) = (s1, .ok))
    (hu : ¬ (objIds o).Nodup ∨ ∃ x ∈ objIds o, x ∈ allIds s1) :
    step s (.addList (os1 ++ o :: os2) refs) = (s1, .err .value) := by
  have hi : Inv s1 := fst_of_eq hpre ▸ addList_inv s os1 refs h
  have hrej : addObj s1 o refs = (s1, .err .value) := by
    apply addObj_used s1 o refs hi
    rw [fresh_iff_allIds s1 hi]
    rintro ⟨h1, h2⟩
    rcases hu with hu | ⟨x, hx, hx'⟩
    · exact hu h1
    · exact h2 x hx hx'
  show forEach _ s (os1 ++ o :: os2) = _
  rw [forEach_append]
  have : forEach (fun s o => addObj s o refs) s os1 = (s1, .ok) := hpre
  rw [this]
  show andThen (addObj s1 o refs) _ = _
  rw [hrej]; rfl
/-- anything that is not a scenario object: ValueError, nothing changes -/
theorem C09_add_wrong_type_rejects (s : St) (refs : List Nat) : step s (.add .invalid refs) = (s, .err .value) := rfl

/-- Conversely an object whose ids are distinct and used by no contained object is accepted and contained afterwards
    (so a ValueError is raised exactly when an id is in use). -/
theorem C09_add_free_accepts (s : St) (o : Obj) (refs : List Nat) (h : Inv s) (hv : o ≠ .invalid)
    (hn : (objIds o).Nodup) (hf : ∀ x ∈ objIds o, x ∉ allIds s) :
    (step s (.add o refs)).2 = .ok ∧ Contains (step s (.add o refs)).1 o :=
  addObj_fresh s o refs h hv ((fresh_iff_allIds s h _).mpr ⟨hn, hf⟩)

/-! ## 3. generate_object_id -/

/-- the returned id is used by no contained object (before and after the call); nothing but the counter changes -/
theorem C09_gen_fresh (s : St) (h : Inv s) :
    ∃ n, (step s .genId).2 = .id n ∧ n ∉ allIds s ∧ n ∉ allIds (step s .genId).1 ∧
      (step s .genId).1.idSet = s.idSet ∧ allIds (step s .genId).1 = allIds s := by
  obtain ⟨n, e, _, h2⟩ := genId_spec s
  have hn : n ∉ allIds s := fun hx => by have := h2 n (h.mem_of_contained hx); omega
  refine ⟨n, ?_, hn, ?_, ?_, ?_⟩ <;> (show _ ; simp only [step, e]) <;> first | rfl | exact hn

/-- Whatever else happens in between — adds, removals, replacements, failing calls — the ids returned by
    `generate_object_id` during a history are strictly increasing, hence never returned twice. -/
theorem C09_gen_never_repeats (ops : List Op) (s : St) :
    (genOuts (run s ops).2).Pairwise (· < ·) ∧ (genOuts (run s ops).2).Nodup := by
  have := (run_gen_increasing ops s).2
  exact ⟨this, this.imp (fun h => Nat.ne_of_lt h)⟩

/-! ## 4. removed objects can be added again -/

/-- General form: after ANY operation (a removal of any form, a removal as a consequence of removing a
    lanelet, a replacement of the network, ...) every object whose ids are used by no object that is contained now
    can be added — in particular every object that has just left the scenario, unless a new member took its id. -/
theorem C09_removed_can_be_added_again (s : St) (op : Op) (h : Inv s) (o : Obj) (refs : List Nat)
    (hv : o ≠ .invalid) (hn : (objIds o).Nodup) (hf : ∀ x ∈ objIds o, x ∉ allIds (step s op).1) :
    (step (step s op).1 (.add o refs)).2 = .ok :=
  (C09_add_free_accepts _ o refs (step_inv s op h) hv hn hf).1

/-- and the removals do release the ids; form by form: -/
theorem C09_remove_obstacle_then_add (s : St) (k : Nat) (h : Inv s) (hk : k ∈ obstIds s) (r : Role) (refs : List Nat) :
    (step s (.removeObstacle k)).2 = .ok ∧ (step (step s (.removeObstacle k)).1 (.add (.obstacle r k) refs)).2 = .ok := by
  obtain ⟨h1, h2⟩ := removeObstacle_frees s k h hk
  exact ⟨h1, add_ok_of_free _ _ refs (removeObstacle_good s k h).1 (by simp) (by simp [objIds])
    (by simpa [objIds, step] using h2)⟩

theorem C09_remove_sign_then_add (s : St) (k : Nat) (h : Inv s) (hk : k ∈ s.net.signs) (refs : List Nat) :
    (step s (.removeSign k)).2 = .ok ∧ (step (step s (.removeSign k)).1 (.add (.sign k) refs)).2 = .ok := by
  have hok := removeSign_ok s k h hk
  exact ⟨hok, add_ok_of_free _ _ refs (removeSign_good s k h).1 (by simp) (by simp [objIds])
    (by simpa [objIds, step] using removeSign_frees s _ k (Prod.ext rfl hok))⟩

theorem C09_remove_light_then_add (s : St) (k : Nat) (h : Inv s) (hk : k ∈ s.net.lights) (refs : List Nat) :
    (step s (.removeLight k)).2 = .ok ∧ (step (step s (.removeLight k)).1 (.add (.light k) refs)).2 = .ok := by
  have hok := removeLight_ok s k h hk
  exact ⟨hok, add_ok_of_free _ _ refs (removeLight_good s k h).1 (by simp) (by simp [objIds])
    (by simpa [objIds, step] using removeLight_frees s _ k (Prod.ext rfl hok))⟩

/-- single form of remove_intersection: id and incoming ids are free again -/
theorem C09_remove_intersection_then_add (s : St) (i : Inter) (h : Inv s) (hi : i ∈ s.net.inters) (refs : List Nat) :
    (step s (.removeInter i)).2 = .ok ∧ (step (step s (.removeInter i)).1 (.add (.inter i) refs)).2 = .ok := by
  have hok := removeInter_ok s i h hi
  refine ⟨hok, add_ok_of_free _ _ refs (removeInter_good s i h).1 (by simp) (h.interIds_nodup hi) ?_⟩
  exact removeInter_frees_contained s _ i h hi (Prod.ext rfl hok)

/-- list forms: when the call returns, every listed object can be added again -/
theorem C09_remove_sign_list_then_add (s s' : St) (ks : List Nat) (h : Inv s)
    (hr : step s (.removeSigns ks) = (s', .ok)) (k : Nat) (hk : k ∈ ks) (refs : List Nat) :
    (step s' (.add (.sign k) refs)).2 = .ok :=
  add_ok_of_free _ _ refs (fst_of_eq hr ▸ (removeSigns_good s ks h).1) (by simp) (by simp [objIds])
    (by simpa [objIds] using removeSigns_frees s s' ks hr k hk)

theorem C09_remove_light_list_then_add (s s' : St) (ks : List Nat) (h : Inv s)
    (hr : step s (.removeLights ks) = (s', .ok)) (k : Nat) (hk : k ∈ ks) (refs : List Nat) :
    (step s' (.add (.light k) refs)).2 = .ok :=
  add_ok_of_free _ _ refs (fst_of_eq hr ▸ (removeLights_good s ks h).1) (by simp) (by simp [objIds])
    (by simpa [objIds] using removeLights_frees s s' ks hr k hk)

/-- list form of remove_intersection (the form that leaked the incoming ids before the fix) -/
theorem C09_remove_intersection_list_then_add (s s' : St) (is : List Inter) (h : Inv s)
    (hc : ∀ i ∈ is, i ∈ s.net.inters) (hr : step s (.removeInters is) = (s', .ok)) (i : Inter) (hi : i ∈ is)
    (refs : List Nat) : (step s' (.add (.inter i) refs)).2 = .ok :=
  add_ok_of_free _ _ refs (fst_of_eq hr ▸ (removeInters_good s is h).1) (by simp)
    (h.interIds_nodup (hc i hi)) (removeInters_frees is s s' h hc hr i hi)

theorem C09_remove_obstacle_list_then_add (s : St) (ks : List Nat) (h : Inv s) (k : Nat) (r : Role) (refs : List Nat)
    (hfree : k ∉ allIds (step s (.removeObstacles ks)).1) :
    (step (step s (.removeObstacles ks)).1 (.add (.obstacle r k) refs)).2 = .ok :=
  C09_removed_can_be_added_again s (.removeObstacles ks) h _ refs (by simp) (by simp [objIds])
    (by simpa [objIds] using hfree)

/-- remove_lanelet (single = one-element list, and list form): the lanelets, and the traffic signs and lights that
    went with them as "hanging members", can be added again -/
theorem C09_remove_lanelet_then_add (s s' : St) (ls : List Lanelet) (refd : Bool) (h : Inv s)
    (hr : step s (.removeLanelets ls refd) = (s', .ok)) (refs : List Nat) :
    (∀ l ∈ ls, (step s' (.add (.lanelet l) refs)).2 = .ok) ∧
    (refd = true → (∀ k ∈ hangingSigns s ls, (step s' (.add (.sign k) refs)).2 = .ok) ∧
                   (∀ k ∈ hangingLights s ls, (step s' (.add (.light k) refs)).2 = .ok)) := by
  have hi : Inv s' := fst_of_eq hr ▸ (removeLanelets_good s ls refd h).1
  obtain ⟨f1, f2⟩ := removeLanelets_frees s s' ls refd hr
  refine ⟨fun l hl => add_ok_of_free _ _ refs hi (by simp) (by simp [objIds]) (by simpa [objIds] using f1 l hl),
    fun hrf => ⟨fun k hk => ?_, fun k hk => ?_⟩⟩
  · exact add_ok_of_free _ _ refs hi (by simp) (by simp [objIds]) (by simpa [objIds] using (f2 hrf).1 k hk)
  · exact add_ok_of_free _ _ refs hi (by simp) (by simp [objIds]) (by simpa [objIds] using (f2 hrf).2 k hk)

/-- replace_lanelet_network: every object whose ids belonged to the old network and are not taken by a member of the
    new one can be added again -/
theorem C09_replace_network_then_add (s s' : St) (n : Net) (h : Inv s) (hr : step s (.replaceNet n) = (s', .ok))
    (o : Obj) (refs : List Nat) (hv : o ≠ .invalid) (hn : (objIds o).Nodup)
    (hold : ∀ x ∈ objIds o, x ∈ netIds s.net ∧ x ∉ netIds n) : (step s' (.add o refs)).2 = .ok :=
  add_ok_of_free _ _ refs (fst_of_eq hr ▸ replaceNet_inv s n h) hv hn
    (fun x hx => replaceNet_frees s s' n h hr x (hold x hx).1 (hold x hx).2)

/-- add_objects(LaneletNetwork) replaces the network as well: the ids of the network it drops are free afterwards -/
theorem C09_add_network_releases_old (s : St) (n : Net) (hok : (step s (.add (.network n) [])).2 = .ok)
    (x : Nat) (hx : x ∈ netIds s.net) : x ∉ (step s (.add (.network n) [])).1.idSet := by
  show x ∉ (addNetwork s n).1.idSet
  have hok' : (addNetwork s n).2 = .ok := hok
  unfold addNetwork at hok' ⊢
  by_cases hf : Fresh s (netIds n)
  · rw [markMany_fresh s _ hf, onMarked_none]
    simp [hx]
  · rw [markMany_used s _ hf] at hok'; simp [onMarked] at hok'

/-! ## non-vacuity and the three repaired defects, on concrete histories -/

/-- a history that uses every kind of operation (also removals of objects that are not contained); its outcomes -/
def demoOps : List Op :=
  [.add (.lanelet ⟨1, [5], [7]⟩) [], .add (.lanelet ⟨2, [5, 6], []⟩) [], .add (.sign 5) [], .add (.sign 6) [2],
   .add (.light 7) [1], .add (.inter ⟨10, [11, 12]⟩) [], .add (.obstacle .stat 20) [], .add (.obstacle .phan 11) [],
   .genId, .removeInters [⟨10, [11, 12]⟩], .add (.inter ⟨10, [11, 12]⟩) [], .removeLanelets [⟨2, [5, 6], []⟩] true,
   .add (.sign 6) [], .genId, .addList [.obstacle .dyn 30, .obstacle .env 20, .obstacle .env 31] [],
   .replaceNet { lanelets := [⟨1, [], []⟩], signs := [40] }, .add (.sign 5) [], .removeSign 99, .removeObstacles [20, 77],
   .removeLight 1, .removeInter ⟨10, [1]⟩, .add (.inter ⟨10, [11, 12]⟩) []]

example : (run init demoOps).2 =
    [.ok, .ok, .ok, .ok, .ok, .ok, .ok, .err .value, .id 21, .ok, .ok, .ok, .ok, .id 22, .err .value, .ok, .ok,
     .err .key, .ok, .err .key, .err .key, .ok] := by decide
example : Inv (run init demoOps).1 := C09_inv_run demoOps init C09_inv_init

/-- defect 1 (repaired): list-form remove_intersection, then adding the intersection again -/
example : (run init [.add (.inter ⟨51, [52, 53]⟩) [], .removeInters [⟨51, [52, 53]⟩], .add (.inter ⟨51, [52, 53]⟩) []]).2
    = [.ok, .ok, .ok] := by decide
/-- defect 2 (repaired): a failed add of an Intersection / LaneletNetwork leaves the scenario unchanged -/
example : step (step init (.add (.obstacle .stat 12) [])).1 (.add (.inter ⟨10, [11, 12]⟩) [])
    = ((step init (.add (.obstacle .stat 12) [])).1, .err .value) := by decide
example : step init (.add (.network { lanelets := [⟨2, [], []⟩], signs := [3], lights := [3] }) []) = (init, .err .value) := by
  decide
/-- defect 3 (repaired): add_objects(LaneletNetwork) over a non-empty network frees the ids of the old members -/
example : (run init [.add (.lanelet ⟨1, [], []⟩) [], .add (.network { lanelets := [⟨2, [], []⟩] }) [],
    .add (.lanelet ⟨1, [], []⟩) []]).2 = [.ok, .ok, .ok] := by decide

end CR.IdPool
