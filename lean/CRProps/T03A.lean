/-
  T03A — translator tie for C03 (writer side), part A (parts B-D: CRProps/T03.lean): `Gen.SrcC03` is regenerated on every run from the CURRENT source of
  commonroad/common/writer/file_writer_xml.py by harness/translate/src_c03.py (structural extraction: per element the writer
  builds, the ORDERED children it appends with their guards, its attributes, and the formatter behind its text;
  vocabulary CRModel/PyExtC03.lean).  This file proves, against the schema term regenerated from the shipped XSD
  (`Gen.XsdScenario`) and the hand models of C03 (`CR.XmlW.*Kids`, CRModel/CRXmlW.lean):

  A. over the COMPLETE extracted table, by `decide` (a finite table checked completely is a proof for that table):
     every literal child tag is declared by the XSD type of its parent; the program order of the appends respects the XSD
     sequence of every sequence type; which schema-required children are NOT emitted on every path (exact list — these are
     the `Expressible` conditions of C03); every decimal leaf is written by float_to_str / decimal_to_str, every integer by
     str(), every boolean by str().lower(), every enumerated leaf by `.value` / `.name.lower()` / a listed literal;
  B. per builder, FOR ALL ENVIRONMENTS (value classes of the tested / iterated expressions, verdicts of the opaque tests):
     the child-name sequence the extracted body emits equals the hand model `XmlW.<builder>Kids` of C03;
  C. hence the `C03_order_*` statements hold for the sequence the CODE's builder emits (not only for the hand model's);
  D. `StateXMLNode._map_to_xml_prop` (translated functionally) equals `XmlW.xmlProp` on every attribute name of the state classes.
-/
import Gen.SrcC03
import Gen.XsdScenario
import Gen.PyEnums

namespace CR.T03
open CR.SrcW CR.Xsd CR.Xsd.Gen Gen.SrcC03

/-! ## A. the complete table against the XSD -/

/-- the table is what the checks below range over (≥ 130 elements / helpers; a shrunken table would make them vacuous) -/
theorem T03_table_size : 130 ≤ table.length := by decide +kernel

/-- every literal tag a builder appends is a child the XSD type of its element declares — except: a goal state's `time`
    may be written as `exact` (an int time step), which `goalState/time : integerIntervalGreaterZero` does not allow
    (`GoalStateOk` of C03 demands an interval) -/
theorem T03_tags_declared :
    (table.filter (fun b => !tagsDeclared schema table b)).map (·.key) =
      ["StateXMLNode.create_goal_state_node/time", "StateXMLNode._write_goal_time_exact_or_interval"] := by decide +kernel

/-- the appends stand in the order of the XSD sequence, for every builder whose XSD type is a sequence — the listed ones
    cannot be judged tag by tag: the root functions and `ObstacleXMLNode.create_node` append obstacles whose tag is
    computed (`obstacle_role.value + "Obstacle"`, see `T03_order_root`), the goal time as above -/
theorem T03_order_static :
    (table.filter (fun b => !orderOk schema table b)).map (·.key) =
      ["XMLFileWriter._add_all_objects_from_scenario", "XMLFileWriter.write_to_file", "XMLFileWriter.write_scenario_to_file",
       "ObstacleXMLNode.create_node", "StateXMLNode.create_goal_state_node/time",
       "StateXMLNode._write_goal_time_exact_or_interval"] := by decide +kernel

def obstacleTag : String := "?obstacle_role.value + 'Obstacle'"

/-- rank in the root sequence; every obstacle (computed tag) counts as the `staticObstacle … environmentObstacle` block,
    whose internal order is that of `Scenario.obstacles` (scenario.py), not of the writer -/
def rootRank (t : String) : Option Nat :=
  if t == obstacleTag then seqRank schema "/commonRoad" "staticObstacle" else seqRank schema "/commonRoad" t

def splTags : String → List String := viaTable table (flatTags table 2)

/-- `write_to_file`: header, then location, scenarioTags, lanelets, signs, lights, intersections, obstacles, then the
    planning problems — in the order of the root sequence of the XSD -/
theorem T03_order_root :
    (ordOk rootRank splTags b_XMLFileWriter_write_to_file.body none).isSome = true ∧
    (ordOk rootRank splTags b_XMLFileWriter_write_scenario_to_file.body none).isSome = true ∧
    (ordOk rootRank splTags b_XMLFileWriter_add_all_objects_from_scenario.body none).isSome = true ∧
    ["intersection", "staticObstacle", "dynamicObstacle", "phantomObstacle", "environmentObstacle", "planningProblem"].map
      (seqRank schema "/commonRoad") = [some 5, some 6, some 7, some 8, some 9, some 10] ∧
    flatTags table 3 b_XMLFileWriter_write_to_file.body =
      ["location", "location", "scenarioTags", "lanelet", "trafficSign", "trafficLight", "intersection",
       obstacleTag, obstacleTag, obstacleTag, obstacleTag, "planningProblem"] := by decide +kernel

/-- **required children**: for every element builder (and the root) whose XSD type is a sequence, the children with
    `minOccurs ≥ 1` that are NOT appended on every path — i.e. appended in a loop, under an `if`, or by another function.
    This is the exact list; everything else the schema requires is emitted unconditionally.  Each entry is a condition of
    `CR.C03.Expressible` (CRModel/CRXmlWOk.lean): ≥ 1 lanelet / planning problem, the environment's three members,
    a lanelet type (the `else` branch writes `unknown`: both branches emit one, a loop does not count), ≥ 2 bound points, a
    stop line's marking, ≥ 1 state / occupancy / signal state / polygon vertex / goal state / incoming / crossing lanelet /
    incoming lanelet / sign element / cycle element, a traffic light's cycle, a phantom obstacle's occupancy set; the two
    obstacle headers are half-built elements completed by their callers (`tie_*Obstacle_kids`). -/
theorem T03_required_children :
    ((table.filter (fun b => b.kind == .node || b.key == "XMLFileWriter._add_all_objects_from_scenario")).filterMap
        (fun b => let l := notAlways schema table b; if l.isEmpty then none else some (b.key, l))) =
      [("XMLFileWriter._add_all_objects_from_scenario", ["lanelet", "planningProblem"]),
       ("EnvironmentXMLNode.create_node", ["time", "timeOfDay", "weather", "underground"]),
       ("LaneletXMLNode.create_node", ["laneletType"]),
       ("LaneletXMLNode.create_node/rightBound", ["point"]),
       ("LaneletXMLNode.create_node/leftBound", ["point"]),
       ("LaneletStopLineXMLNode.create_node", ["lineMarking"]),
       ("ObstacleXMLNode.create_obstacle_node_header", ["shape", "initialState"]),
       ("PhantomObstacleXMLNode.create_obstacle_node_header", ["occupancySet"]),
       ("PhantomObstacleXMLNode.create_node", ["occupancySet"]),
       ("DynamicObstacleXMLNode._create_trajectory_node", ["state"]),
       ("DynamicObstacleXMLNode.create_occupancy_node", ["occupancy"]),
       ("DynamicObstacleXMLNode._create_signal_series_node", ["signalState"]),
       ("PolygonXMLNode.create_polygon_node", ["point"]),
       ("StateXMLNode.create_goal_state_node/time", ["intervalStart", "intervalEnd"]),
       ("PlanningProblemXMLNode.create_node", ["goalState"]),
       ("IntersectionXMLNode.create_node", ["incoming"]),
       ("IntersectionXMLNode.create_node/crossing", ["crossingLanelet"]),
       ("IntersectionXMLNode.create_node/incoming", ["incomingLanelet"]),
       ("TrafficSignXMLNode.create_node", ["trafficSignElement"]),
       ("TrafficLightXMLNode.create_node", ["cycle"]),
       ("TrafficLightCycleXMLNode.create_node", ["cycleElement"])] := by decide +kernel

/-- the lanelet type IS emitted on every path although one branch is a loop: `if len(types) > 0: for …  else: one` -/
theorem T03_lanelet_type_both_branches :
    (emits b_Lanelet_create_node.body).filter (·.1 == "laneletType") =
      [("laneletType", "LaneletXMLNode.create_node/laneletType"), ("laneletType", "LaneletXMLNode.create_node/laneletType#2")] := by
  decide +kernel

/-- **leaf texts and attribute values**: for every builder, the formatter suits the XSD simple type of the element /
    attribute it writes (`fmtOk`): xs:decimal and positiveDecimal only through `float_to_str` / `decimal_to_str` (never
    `str()` / `repr()` of a float), integers through `str()`, booleans through `str(..).lower()`, enumerations through
    `.value` / `.name.lower()` / a literal the enumeration lists ("same" / "opposite").  The one exception is the header:
    `commonRoadVersion` is the module constant `SCENARIO_VERSION` (`T03_header`). -/
theorem T03_leaves_ok : (table.filter (fun b => !leavesOk schema table b)).map (·.key) = ["XMLFileWriter._write_header"] := by
  decide +kernel

/-- the header: `timeStepSize` goes through `decimal_to_str`; `commonRoadVersion` is `SCENARIO_VERSION`, whose CURRENT value
    (regenerated: `CR.Py.Gen.scenarioVersion`) the schema's enumeration lists -/
theorem T03_header :
    b_XMLFileWriter_write_header.attrs.map (fun (a, f) => (a, f.kind)) =
      [("timeStepSize", .decimalToStr), ("commonRoadVersion", .raw), ("author", .raw), ("affiliation", .raw),
       ("source", .raw), ("date", .other)] ∧
    b_XMLFileWriter_write_header.attrs.lookup "commonRoadVersion" = some (.raw "SCENARIO_VERSION") ∧
    b_XMLFileWriter_write_header.gattrs.map (·.1) = ["benchmarkID", "benchmarkID"] ∧
    (match simpleOf schema "/commonRoad/@commonRoadVersion" with
      | some s => s.enum.contains CR.Py.Gen.scenarioVersion | none => false) = true := by decide +kernel

/-- every leaf whose XSD type is a decimal, with the helper that writes it: the complete list (coordinates through
    `float_to_str`, i.e. cut to the decimal precision; lengths, angles of shapes, gps, geo transformation through
    `decimal_to_str`, i.e. all digits) -/
theorem T03_decimal_leaves :
    decimalLeaves schema table =
      [("Point.create_node/z", .floatToStr), ("Point.create_node/y", .floatToStr), ("Point.create_node/x", .floatToStr),
       ("create_exact_node_float", .floatToStr),
       ("create_interval_node_float/intervalEnd", .floatToStr), ("create_interval_node_float/intervalStart", .floatToStr),
       ("LocationXMLNode.create_node/gpsLongitude", .decimalToStr), ("LocationXMLNode.create_node/gpsLatitude", .decimalToStr),
       ("GeoTransformationXMLNode.create_node/additionalTransformation/scaling", .decimalToStr),
       ("GeoTransformationXMLNode.create_node/additionalTransformation/zRotation", .decimalToStr),
       ("GeoTransformationXMLNode.create_node/additionalTransformation/yTranslation", .decimalToStr),
       ("GeoTransformationXMLNode.create_node/additionalTransformation/xTranslation", .decimalToStr),
       ("RectangleXMLNode.create_rectangle_node/center/y", .floatToStr), ("RectangleXMLNode.create_rectangle_node/center/x", .floatToStr),
       ("RectangleXMLNode.create_rectangle_node/orientation", .decimalToStr),
       ("RectangleXMLNode.create_rectangle_node/width", .decimalToStr), ("RectangleXMLNode.create_rectangle_node/length", .decimalToStr),
       ("CircleXMLNode.create_circle_node/center/y", .floatToStr), ("CircleXMLNode.create_circle_node/center/x", .floatToStr),
       ("CircleXMLNode.create_circle_node/radius", .decimalToStr)] := by decide +kernel

/-- every leaf whose XSD type is an enumeration: (builder, XSD simple type, how the text is taken from the enum member).
    Which Python enum stands behind each is fixed by the attribute's type in the library: environment -> Underground /
    Weather / TimeOfDay; users -> RoadUser; lanelet types -> LaneletType; bound and stop-line markings -> LineMarking (stop
    line: `.name.lower()`); obstacle type -> ObstacleType; sign id -> TrafficSignID<Country>; direction ->
    TrafficLightDirection; colour -> TrafficLightState.  For exactly these (Python enum, XSD type, `.value` | lower-case name)
    pairs `C03_enum_total` / `C03_enum_partial` / `C03_enum_traffic_sign` decide, on the enum tables regenerated from the
    working tree, which members' texts the XSD type lists. -/
theorem T03_enum_leaves :
    (enumLeaves schema table).map (fun (k, T, f) => (k, T, f.kind)) =
      [("EnvironmentXMLNode.create_node/underground", "underground", .enumValue),
       ("EnvironmentXMLNode.create_node/weather", "weather", .enumValue),
       ("EnvironmentXMLNode.create_node/timeOfDay", "timeOfDay", .enumValue),
       ("LaneletXMLNode.create_node/userBidirectional", "vehicleType", .enumValue),
       ("LaneletXMLNode.create_node/userOneWay", "vehicleType", .enumValue),
       ("LaneletXMLNode.create_node/laneletType#2", "laneletType", .enumValue),
       ("LaneletXMLNode.create_node/laneletType", "laneletType", .enumValue),
       ("LaneletXMLNode.create_node/rightBound/lineMarking", "lineMarking", .enumValue),
       ("LaneletXMLNode.create_node/leftBound/lineMarking", "lineMarking", .enumValue),
       ("LineMarkingXMLNode.create_node", "lineMarking", .enumLowerName),
       ("ObstacleXMLNode.create_obstacle_node_header/type", "obstacleTypeStatic", .enumValue),
       ("TrafficSignXMLNode.create_node/trafficSignElement/trafficSignID", "trafficSignID", .enumValue),
       ("TrafficLightXMLNode.create_node/direction", "trafficLight/direction", .enumValue),
       ("TrafficLightCycleElementXMLNode.create_node/color", "trafficLightColor", .enumValue)] := by decide +kernel

/-- the default lanelet type is the member LaneletType.UNKNOWN, whose value the XSD lists -/
theorem T03_default_lanelet_type :
    b_Lanelet_create_node_laneletType_n2.text = some (.enumValue "LaneletType.UNKNOWN") ∧
    (match CR.Py.Gen.laneletType.lookup "UNKNOWN", simpleOf schema "laneletType" with
      | some v, some s => s.enum.contains v | _, _ => false) = true := by decide +kernel

/-- ids and references are `str()` of the integer; the adjacency direction is one of the two literals the XSD lists -/
theorem T03_ref_attrs :
    b_Lanelet_create_node.attrs = [("id", .str "_.lanelet_id")] ∧
    b_Lanelet_create_node_adjacentLeft.attrs.map (fun (a, f) => (a, f.kind)) = [("ref", .str), ("drivingDir", .cond)] ∧
    b_Lanelet_create_node_adjacentLeft.attrs.lookup "drivingDir" = some (.cond (.const "same") (.const "opposite")) ∧
    b_Lanelet_create_node_adjacentRight.attrs.lookup "drivingDir" = some (.cond (.const "same") (.const "opposite")) := by
  decide +kernel

/-- the opaque tests the model ties of CRProps/T03.lean interpret (`env.atom i`), as the source has them NOW: the parameters
    of the hand models (`oriSet`, `ctrSet`, `offset`, `marking`, the environment's three flags, `direction`, the prediction
    kind) mean exactly these tests -/
theorem T03_guard_texts :
    b_Rectangle_create_rectangle_node.atoms = ["_.orientation != 0.0", "np.any(np.asarray(_.center) != 0.0)"] ∧
    b_Circle_create_circle_node.atoms = ["np.any(np.asarray(_.center) != 0.0)"] ∧
    b_TrafficLightCycle_create_node.atoms = ["_.time_offset > 0"] ∧
    b_TrafficLight_create_node.atoms = ["_.direction is not TrafficLightDirection.ALL"] ∧
    b_Environment_create_node.atoms =
      ["_.time_of_day.value is not TimeOfDay.UNKNOWN", "_.weather.value is not Weather.UNKNOWN",
       "_.underground.value is not Underground.UNKNOWN"] ∧
    b_Lanelet_create_node.atoms =
      ["hasattr(_, 'line_marking_left_vertices')", "isinstance(_.line_marking_left_vertices, LineMarking)",
       "_.line_marking_left_vertices is not LineMarking.UNKNOWN",
       "hasattr(_, 'line_marking_right_vertices')", "isinstance(_.line_marking_right_vertices, LineMarking)",
       "_.line_marking_right_vertices is not LineMarking.UNKNOWN"] ∧
    b_DynamicObstacle_create_node.atoms =
      ["isinstance(_.prediction, SetBasedPrediction)", "isinstance(_.prediction, TrajectoryPrediction)"] ∧
    b_PhantomObstacle_create_node.atoms = ["isinstance(_.prediction, SetBasedPrediction)"] ∧
    b_Occupancy_create_node.atoms = ["isinstance(_.time_step, Interval)"] := by decide +kernel

end CR.T03
