/-
  C01 — XML write → read reproduces scenario and planning problems (2020a format, decimal precisions 1..12).

  Model: CRModel/Xml.lean (element trees), CRModel/Codec.lean (codec combinators), CRModel/CRXml.lean (the format: every element
  kind is one codec term holding the writer side `enc`, the reader side `dec`, the after-round-trip value `norm` and the
  handled values `ok`).  Laws: CRProofs/Codec.lean (once per combinator), CRProofs/CRXml.lean (assembly), CRProofs/CRState.lean
  (`StateXMLNode` / `StateFactory`), CRProofs/Decimal.lean (`float_to_str`).

  CRProofs/CRNorm.lean (norm = mapR ∘ canon, canon = id on strict values), CRProofs/CRFile.lean (root attributes, location,
  scenario tags: the whole `<commonRoad>` tree).

  Main theorems: `C01_xml_roundtrip` (body, in any foreign context), `C01_xml_roundtrip_whole_file` (the whole tree),
  `C01_norm_eq_mapR_canon` / `C01_file_norm_eq_mapR_canon` (what a round trip does, exactly), `C01_norm_close_full` /
  `C01_file_norm_close_full` (on strictly expressible content only the reals change), `C01_trunc_close` (by less than 10^-d).

  Not covered by the theorems (trusted / sampled by the correspondence and the oracle): the byte level (XML escaping,
  `str(float)` / `float(str)`, `format(x, ".df")` and `np.format_float_positional` for reprs in exponent notation — parameters
  of the model; `str(int)` is `Int.repr`), `ScenarioID.from_benchmark_id ∘ str` (the benchmark id is a string here; C13),
  the 2018b reader branch, lanelet assignment.
-/
import CRProofs.CRState
import CRProofs.Decimal
import CRProofs.CRNorm
import CRProofs.CRFile
import Mathlib.Data.List.Perm.Subperm

namespace CR.X

/-- what the writer / reader pair handles: the `ok` side conditions collected by the codec term (enumeration values known
    to the reader, trajectories and occupancy sets non-empty, well-formed states, a light has a cycle, a stop line without
    points belongs to a lanelet with vertices, "274" only where the country has MAX_SPEED) -/
def Expressible (cfg : Cfg) (d : Doc) : Prop := (docC cfg).ok d

/-- siblings the body reader never asks for (`location`, `scenarioTags`, anything else) -/
def Foreign (cfg : Cfg) (l : List Xml) : Prop := ∀ x, x ∈ l → (docC cfg).tags.contains x.tag = false

/-! ## round trip -/

/-- **xml_roundtrip**: reading what was written yields `normDoc` of the original, for every expressible document, every
    precision and repr table (`cfg.P`), every state-class table whose names survive the case mapping, and whatever foreign
    elements surround the body.  No bound on the number of lanelets, obstacles, states, vertices. -/
theorem C01_xml_roundtrip (cfg : Cfg) (hcfg : CfgOk cfg) (hne : cfg.classes ≠ []) (d : Doc) (hd : Expressible cfg d)
    (pre post : List Xml) (hpre : Foreign cfg pre) (hpost : Foreign cfg post) :
    decodeDoc cfg (pre ++ encodeDoc cfg d ++ post) = some (normDoc cfg d) :=
  (docC_lawful (stateLaws cfg hcfg hne)).ctx d hd pre post hpre hpost

/-- the file as written: `location`, `scenarioTags`, then the body -/
theorem C01_xml_roundtrip_file (cfg : Cfg) (hcfg : CfgOk cfg) (hne : cfg.classes ≠ []) (d : Doc) (hd : Expressible cfg d)
    (loc tags : Xml) (hl : loc.tag = "location") (ht : tags.tag = "scenarioTags") :
    decodeDoc cfg ([loc, tags] ++ encodeDoc cfg d ++ []) = some (normDoc cfg d) := by
  apply C01_xml_roundtrip cfg hcfg hne d hd
  · intro x hx
    simp only [List.mem_cons, List.mem_nil_iff, or_false] at hx
    rcases hx with rfl | rfl
    · rw [hl]; rfl
    · rw [ht]; rfl
  · intro x hx
    cases hx

/-- the generic shape of the argument: any lawful codec reads its own output back out of any foreign context -/
theorem C01_codec_context {α : Type} (c : Codec α) (h : c.Lawful) (a : α) (hok : c.ok a) (pre post : List Xml)
    (hpre : ∀ x, x ∈ pre → c.tags.contains x.tag = false) (hpost : ∀ x, x ∈ post → c.tags.contains x.tag = false) :
    c.dec (pre ++ c.enc a ++ post) = some (c.norm a) := h.ctx a hok pre post hpre hpost

/-- nothing the writer emits is dropped by the reader's tag filter: every body element carries a tag the reader asks for -/
theorem C01_nothing_foreign_written (cfg : Cfg) (hcfg : CfgOk cfg) (hne : cfg.classes ≠ []) (d : Doc) (x : Xml)
    (hx : x ∈ encodeDoc cfg d) : (docC cfg).tags.contains x.tag = true :=
  (docC_lawful (stateLaws cfg hcfg hne)).enc_tags d x hx

/-! ## what `norm` does: discrete leaves untouched, reals truncated -/

theorem C01_int_leaf (i : Int) : Prim.int.norm i = i := rfl
theorem C01_bool_leaf (b : Bool) : Prim.boolStrict.norm b = b := rfl
theorem C01_enum_leaf (vals : List String) (s : String) : (Prim.enum vals).norm s = s := rfl
theorem C01_repr_leaf (s : String) : Prim.decRepr.norm s = s := rfl

/-- reals written with `decimal_to_str` (rectangle length / width / orientation, circle radius) are not truncated: a repr
    without exponent is written as it is; one with exponent is replaced by its positional form (same value, harness table) -/
theorem C01_plain_leaf (P : Params) (s : String) : (Prim.decPlain P).norm s = decimalToStr P s := rfl

theorem C01_decimalToStr_plain (P : Params) (s : String) (h : s.toList.contains 'e' = false) (h' : s.toList.contains 'E' = false) :
    decimalToStr P s = s := by
  simp only [decimalToStr, h, h', Bool.or_self, Bool.false_eq_true, ↓reduceIte]
theorem C01_real_leaf (P : Params) (s : String) : (Prim.dec P).norm s = floatToStr P s := rfl

/-- a repr without exponent is cut after `d` fraction digits -/
theorem C01_floatToStr_plain (P : Params) (s : String) (h : s.toList.contains 'e' = false) :
    floatToStr P s = String.ofList (truncChars P.d s.toList) := by
  simp only [floatToStr, h, Bool.false_eq_true, ↓reduceIte]

/-- integer part and sign are kept, the fraction is cut (not rounded) -/
theorem C01_trunc_decimal (d : Nat) (ip fp : List Char) (hi : noDot ip) (hf : noDot fp) :
    truncChars d (ip ++ '.' :: fp) = ip ++ '.' :: fp.take d := truncChars_decimal d ip fp hi hf

theorem C01_trunc_integer (d : Nat) (ip : List Char) (hi : noDot ip) : truncChars d ip = ip := truncChars_integer d ip hi

/-- **reals within 10^-d**: cutting a fraction digit string after `d` digits lowers its value by less than 10^-d (so the
    magnitude of a written real is within 10^-d of the original's, towards zero) -/
theorem C01_trunc_close (d : Nat) (fp : List Char) (h : ∀ c, c ∈ fp → c.isDigit = true) (hd : d ≤ fp.length) :
    0 ≤ fracVal fp - fracVal (fp.take d) ∧ fracVal fp - fracVal (fp.take d) < 1 / 10 ^ d := trunc_close d fp h hd

theorem C01_trunc_short (d : Nat) (fp : List Char) (hd : fp.length ≤ d) : fp.take d = fp := List.take_of_length_le hd

/-! ## states: which attributes are populated, exact / interval / region, time -/

/-- a field keeps its name and its kind; a time is untouched; exact stays exact, interval stays interval -/
theorem C01_field_kind (P : Params) (n : String) :
    (∀ t, normField P (n, .time t) = (n, .time t)) ∧
    (∀ x, normField P (n, .val (.exact x)) = (n, .val (.exact (floatToStr P x)))) ∧
    (∀ a b, normField P (n, .val (.interval a b)) = (n, .val (.interval (floatToStr P a) (floatToStr P b)))) ∧
    (∀ p, normField P (n, .pos (.point p)) = (n, .pos (.point ⟨floatToStr P p.x, floatToStr P p.y, p.z.map (floatToStr P)⟩))) ∧
    (∀ ids, normField P (n, .pos (.lanelets ids)) = (n, .pos (.lanelets ids))) ∧
    (∀ s, ∃ s', normField P (n, .pos (.region s)) = (n, .pos (.region s'))) :=
  ⟨fun _ => rfl, fun _ => rfl, fun _ _ => rfl, fun _ => rfl, fun _ => rfl, fun _ => ⟨_, rfl⟩⟩

theorem pick_mem (nf : List (String × SVal)) (a : String) (q : String × SVal) (h : pick nf a = some q) : q ∈ nf ∧ q.1 = a := by
  induction nf with
  | nil => simp [pick, lookupField] at h
  | cons f r ih =>
    obtain ⟨k, v⟩ := f
    simp only [pick, lookupField] at h
    cases hk : (k == a)
    · simp only [hk, Bool.false_eq_true, ↓reduceIte] at h
      have := ih h
      exact ⟨by simp [this.1], this.2⟩
    · simp only [hk, ↓reduceIte, Option.map] at h
      have e : k = a := by simpa using hk
      cases h
      exact ⟨by simp [e], rfl⟩

/-- **which attributes a state populates**: after a round trip a (trajectory or goal) state has exactly the fields of the
    original, each with its round-tripped value — nothing dropped, nothing added, nothing duplicated; only the order may
    become the order of the matching state class -/
theorem C01_state_fields_perm (cfg : Cfg) (hnd : ∀ C, C ∈ cfg.classes → C.Nodup) (s : State) :
    List.Perm (normState cfg s).fields (s.fields.map (normField cfg.P)) := by
  simp only [normState]
  cases hco : classOf cfg.classes (s.fields.map (normField cfg.P)) with
  | none => exact List.Perm.refl _
  | some C =>
    simp only []
    have hC : C ∈ cfg.classes := List.mem_of_find?_eq_some hco
    have hp := List.find?_some hco
    simp only [Bool.and_eq_true, beq_iff_eq, List.all_eq_true] at hp
    obtain ⟨hlen, hall⟩ := hp
    set nf := s.fields.map (normField cfg.P) with hnf
    -- every picked field is a field of nf, with the class attribute as name
    have hfm : C.filterMap (fun a => (lookupField a nf).map (fun v => (a, v))) = C.filterMap (pick nf) := rfl
    rw [hfm]
    have hkeys : (C.filterMap (pick nf)).map (fun f => f.1) = C := by
      clear hlen hco hC hfm
      induction C with
      | nil => rfl
      | cons a r ih =>
        have ha := hall a (by simp)
        cases hp : pick nf a with
        | none =>
          simp only [pick] at hp
          cases hl : lookupField a nf with
          | none => rw [hl] at ha; cases ha
          | some v => rw [hl] at hp; cases hp
        | some q =>
          have := (pick_mem nf a q hp).2
          simp only [List.filterMap_cons, hp, List.map_cons, this]
          congr 1
          exact ih (fun b hb => hall b (by simp [hb]))
    have hnodup : (C.filterMap (pick nf)).Nodup := by
      apply List.Nodup.of_map (fun f => f.1)
      rw [hkeys]
      exact hnd C hC
    have hsub : C.filterMap (pick nf) ⊆ nf := by
      intro q hq
      simp only [List.mem_filterMap] at hq
      obtain ⟨a, _, hpa⟩ := hq
      exact (pick_mem nf a q hpa).1
    apply (hnodup.subperm hsub).perm_of_length_le
    have : (C.filterMap (pick nf)).length = C.length := by
      rw [← hkeys, List.length_map]
      rw [hkeys]
    omega

/-- **unset initial-state attributes read back as 0** and set ones as their round-tripped value: an initial state reads
    back with exactly the attributes of `InitialState` -/
theorem C01_initial_defaults (cfg : Cfg) (C : List String) (Cs : List (List String)) (hc : cfg.classes = C :: Cs) (s : State) :
    (normInitial cfg s).fields =
      C.map (fun a => (a, (lookupField a (s.fields.map (normField cfg.P))).getD (defaultOf a))) := by
  simp only [normInitial, hc]

theorem C01_default_values : defaultOf "position" = .pos (.point ⟨"0.0", "0.0", none⟩) ∧ defaultOf "velocity" = .val (.exact "0.0")
    ∧ defaultOf "acceleration" = .val (.exact "0.0") ∧ defaultOf "yaw_rate" = .val (.exact "0.0")
    ∧ defaultOf "slip_angle" = .val (.exact "0.0") ∧ defaultOf "orientation" = .val (.exact "0.0") := by
  refine ⟨?_, ?_, ?_, ?_, ?_, ?_⟩ <;> rfl

/-! ## nothing dropped, duplicated or re-ordered in time -/

/-- **order_kept** (trajectory): the read-back trajectory has the states of the original, one for one, in the same order -/
theorem C01_order_kept_trajectory (cfg : Cfg) (o : DynObs) (l : List State) (h : o.pred = .traj l) :
    ((dynObsE cfg).norm o).pred = .traj (l.map (normState cfg)) ∧ ((dynObsE cfg).norm o).id = o.id
      ∧ ((dynObsE cfg).norm o).type = o.type := by
  refine ⟨?_, rfl, rfl⟩
  show (predC cfg).norm o.pred = _
  rw [h]
  rfl

/-- **order_kept** (occupancy set): occupancies one for one, in order, each with its time untouched -/
theorem C01_order_kept_occupancies (cfg : Cfg) (o : DynObs) (l : List Occupancy) (h : o.pred = .occ l) :
    ((dynObsE cfg).norm o).pred = .occ (l.map (fun oc => ⟨(shapeC cfg.P false).norm oc.shape, oc.time⟩)) := by
  show (predC cfg).norm o.pred = _
  rw [h]
  show Prediction.occ (l.map (occE cfg.P).norm) = _
  congr 1
  apply List.map_congr_left
  intro oc _
  cases ht : oc.time <;> simp [occE, ECodec.ofKids, Codec.iso, Codec.pair, Codec.child, timeC, Codec.orElse, ht, Prim.int, ECodec.ofText]

/-- signal series: one for one, in order, unchanged (all leaves are discrete) -/
theorem C01_order_kept_signals (cfg : Cfg) (o : DynObs) (h : o.series ≠ []) : ((dynObsE cfg).norm o).series = o.series := by
  show seriesC.norm o.series = o.series
  cases hs : o.series with
  | nil => exact absurd hs h
  | cons a r =>
    simp only [seriesC, Codec.optChild, List.isEmpty_cons, Bool.not_false, ↓reduceIte, ECodec.ofKids, Codec.many]
    have : signalE.norm = id := by
      funext sg
      cases sg with
      | mk t a b c d e f => cases a <;> cases b <;> cases c <;> cases d <;> cases e <;> cases f <;> rfl
    rw [this]
    simp

/-- every collection of the document is mapped element by element: same length, same order, same ids -/
theorem C01_collections_kept (cfg : Cfg) (d : Doc) :
    (normDoc cfg d).lanelets = d.lanelets.map (laneletE cfg.P).norm ∧
    (normDoc cfg d).signs = d.signs.map (signE cfg).norm ∧
    (normDoc cfg d).lights = d.lights.map (lightE cfg.P).norm ∧
    (normDoc cfg d).intersections = d.intersections.map intersectionE.norm ∧
    (normDoc cfg d).statics = d.statics.map (staticObsE cfg).norm ∧
    (normDoc cfg d).dynamics = d.dynamics.map (dynObsE cfg).norm ∧
    (normDoc cfg d).phantoms = d.phantoms.map (phantomObsE cfg).norm ∧
    (normDoc cfg d).envs = d.envs.map (envObsE cfg).norm ∧
    (normDoc cfg d).problems = d.problems.map (planningProblemE cfg).norm :=
  ⟨rfl, rfl, rfl, rfl, rfl, rfl, rfl, rfl, rfl⟩

theorem C01_ids_kept (cfg : Cfg) (d : Doc) :
    (normDoc cfg d).signs.map (fun s => s.id) = d.signs.map (fun s => s.id) ∧
    (normDoc cfg d).statics.map (fun s => s.id) = d.statics.map (fun s => s.id) ∧
    (normDoc cfg d).dynamics.map (fun s => s.id) = d.dynamics.map (fun s => s.id) ∧
    (normDoc cfg d).problems.map (fun s => s.id) = d.problems.map (fun s => s.id) := by
  obtain ⟨_, h2, _, _, h5, h6, _, _, h9⟩ := C01_collections_kept cfg d
  rw [h2, h5, h6, h9]
  simp only [List.map_map]
  exact ⟨rfl, rfl, rfl, rfl⟩

/-- the one discrete value the pair does NOT reproduce (known finding): `virtual` reads back False whatever was written -/
theorem C01_witness_virtual (cfg : Cfg) (s : Sign) : ((signE cfg).norm s).virtual = false := rfl

/-- a dynamic obstacle's rectangle keeps an off-centre position and a non-zero orientation (after the repair of the writer);
    a centred, unrotated one is written without them and reads back with the reader's defaults, i.e. unchanged -/
theorem C01_dynamic_shape_kept (P : Params) (l w o : Real) (c : Pt) :
    normShape1 P true (.rect l w o c) =
      .rect (decimalToStr P l) (decimalToStr P w) (if isZeroRepr o then "0.0" else decimalToStr P o)
        (if isOrigin c then zeroPt else ⟨floatToStr P c.x, floatToStr P c.y, none⟩) := by
  simp only [normShape1, rectE, ECodec.ofKids, Codec.pair, Codec.child, ECodec.ofText, Prim.decPlain, orientC, centerC,
    Codec.optChild, Bool.not_true, Bool.false_or, id]
  cases h1 : isZeroRepr o <;> cases h2 : isOrigin c <;> simp [ptE, ptKidsC, ECodec.ofKids, Codec.iso, Codec.pair, Codec.child,
    Codec.optional, ECodec.ofText, Prim.dec]

/-! ## norm_close, in one piece -/

/-- **What one write → read does, exactly**: `normDoc` is `mapR` (apply `float_to_str` to the reals the writer truncates,
    `decimal_to_str` to the reals it writes in full, touch nothing else) after `canon` (the discrete completions: adjacent id 0
    dropped, empty lanelet type set ↦ {unknown}, stop line without points ↦ end points of the bounds, `virtual` ↦ False, light
    direction / time offset defaults, sign ids through the country table, zero centre / orientation of a dynamic obstacle's
    shape ↦ the reader's defaults, one-member shape group ↦ its member, attributes of a state in the order of the matching state
    class, unset attributes of an initial state ↦ 0).  For every precision d ≥ 1. -/
theorem C01_norm_eq_mapR_canon (cfg : Cfg) (hd : 1 ≤ cfg.P.d) (hne : cfg.classes ≠ []) (d : Doc) (hl : ∀ l, l ∈ d.lanelets → l.Ok) :
    normDoc cfg d = (d.canon cfg).mapR (realMaps cfg.P) := normDoc_eq cfg hd hne d hl

/-- **norm_close_full**: on a strictly expressible document (`Doc.Strict`: ids ≥ 1 in references, a lanelet type, stop lines
    with points, `virtual` False, known sign ids and directions, offsets ≥ 0, groups of ≥ 2 shapes, states listing their
    attributes in class order, initial states with every attribute set) the round trip changes NOTHING but the reals, each by
    `float_to_str` (bounded by `C01_trunc_close`) or `decimal_to_str` (same value): all discrete parts identical, the same
    attributes populated, exact / interval / region unchanged, every collection in the same order. -/
theorem C01_norm_close_full (cfg : Cfg) (hd : 1 ≤ cfg.P.d) (hne : cfg.classes ≠ []) (d : Doc) (h : d.Strict cfg) :
    normDoc cfg d = d.mapR (realMaps cfg.P) := by
  rw [normDoc_eq cfg hd hne d (fun l hl => (h.lanelets l hl).ok), Doc.canon_id cfg d h]

/-- round trip and norm_close together: reading the written file of a strict document yields the document with its reals
    formatted, nothing else -/
theorem C01_xml_roundtrip_strict (cfg : Cfg) (hcfg : CfgOk cfg) (hne : cfg.classes ≠ []) (hd1 : 1 ≤ cfg.P.d) (d : Doc)
    (hd : Expressible cfg d) (hs : d.Strict cfg) (pre post : List Xml) (hpre : Foreign cfg pre) (hpost : Foreign cfg post) :
    decodeDoc cfg (pre ++ encodeDoc cfg d ++ post) = some (d.mapR (realMaps cfg.P)) := by
  rw [C01_xml_roundtrip cfg hcfg hne d hd pre post hpre hpost, C01_norm_close_full cfg hd1 hne d hs]

/-- the unset attributes of an initial state read back as 0, the set ones with their formatted value, in the order of
    `InitialState`; nothing else about an obstacle or planning problem changes (corollary of the per-element equations) -/
theorem C01_initial_state_close (cfg : Cfg) (hd : 1 ≤ cfg.P.d) (hne : cfg.classes ≠ []) (s : State) :
    normInitial cfg s = (s.canonInitial cfg).mapR (realMaps cfg.P) :=
  normInitial_eq cfg (realMaps_zeroFixed cfg.P hd) hne s

/-- (formerly the only proved part) ids, additional values, cycles and `active` of signs and lights are untouched — now a
    corollary of the element equations `signE_norm_eq`, `lightE_norm_eq` -/
theorem C01_norm_close_partial (cfg : Cfg) (d : Doc) :
    (normDoc cfg d).signs.map (fun s => (s.id, s.elements.map (fun e => e.values))) =
      d.signs.map (fun s => (s.id, s.elements.map (fun e => e.values)))
    ∧ (normDoc cfg d).lights.map (fun l => (l.id, l.active, l.cycle.map (fun c => c.elements.map (fun e => (e.duration, e.color))))) =
      d.lights.map (fun l => (l.id, l.active, l.cycle.map (fun c => c.elements.map (fun e => (e.duration, e.color))))) := by
  obtain ⟨_, h2, h3, _⟩ := C01_collections_kept cfg d
  rw [h2, h3]
  simp only [List.map_map]
  constructor
  · apply List.map_congr_left
    intro s _
    simp only [Function.comp, signE_norm_eq, Sign.canon, Sign.mapR, List.map_map]
    rfl
  · apply List.map_congr_left
    intro l _
    simp only [Function.comp, lightE_norm_eq, Light.canon, Light.mapR]
    cases l.cycle <;> rfl

/-! ## the whole file tree -/

/-- the state-class table of a file configuration is the one every country's configuration uses -/
theorem FileCfg.cfgFor_classes (fc : FileCfg) (bid : String) : (fc.cfgFor bid).classes = fc.classes := rfl

/-- **xml_roundtrip for the whole file**: the `<commonRoad>` element the writer builds — root attributes (time step size,
    version, author, affiliation, source, benchmark id, date), `location` (geo name id, gps, geo transformation, environment
    with clock time / time of day / weather / underground), `scenarioTags` and the body — read by `XMLFileReader.open`
    yields `normFile` of the original.  The sign table the reader uses is the one of the country named in the benchmark id
    (`countryOf`), the date is written and never read. -/
theorem C01_xml_roundtrip_whole_file (fc : FileCfg) (hcfg : ∀ C, C ∈ fc.classes → ∀ a, a ∈ C → propName (xmlName a) = a)
    (hne : fc.classes ≠ []) (f : File) (hok : okFile fc f) :
    decodeFile fc (encodeFile fc f) = some (normFile fc f) :=
  decodeFile_encodeFile fc f (stateLaws (fc.cfgFor f.header.benchmarkId) hcfg hne) hok

/-- the header comes back as written (the time step size in plain decimal notation), the date is not part of the content -/
theorem C01_header_kept (fc : FileCfg) (f : File) :
    (normFile fc f).header = ⟨decimalToStr fc.P f.header.dt, f.header.author, f.header.affiliation, f.header.source, f.header.benchmarkId⟩ :=
  rfl

/-- the tags come back as the set they are: each known tag once, in the order of the `Tag` enumeration -/
theorem C01_tags_kept (fc : FileCfg) (f : File) : (normFile fc f).tags = allTags.filter (fun t => f.tags.contains t) := rfl

/-- **norm_close for the whole file**: `normFile = mapR ∘ canon` (a missing location becomes the default location, the tags
    are put in enumeration order, the body as in `C01_norm_eq_mapR_canon`), and on strict files nothing but the reals changes -/
theorem C01_file_norm_eq_mapR_canon (fc : FileCfg) (hd : 1 ≤ fc.P.d) (hne : fc.classes ≠ []) (f : File)
    (hl : ∀ l, l ∈ f.body.lanelets → l.Ok) : normFile fc f = (f.canon fc).mapR (realMaps fc.P) := normFile_eq fc hd hne f hl

theorem C01_file_norm_close_full (fc : FileCfg) (hd : 1 ≤ fc.P.d) (hne : fc.classes ≠ []) (f : File) (h : f.Strict fc) :
    normFile fc f = f.mapR (realMaps fc.P) := by
  rw [normFile_eq fc hd hne f (fun l hl => (h.body.lanelets l hl).ok), File.canon_id fc f h]

/-- a cooperative id names its country after "C-"; an unsupported country falls back to Zamunda -/
example : countryOf ["DEU", "USA", "ZAM"] "C-USA_US101-1_1_T-1" = "USA" ∧ countryOf ["DEU", "USA", "ZAM"] "DEU_Muc-3_1_T-1" = "DEU"
    ∧ countryOf ["DEU", "USA", "ZAM"] "XYZ_Test-1_1_T-1" = "ZAM" := by decide

/-- the clock text: 7:05 is written "07:05:00" and read back as (7, 5) -/
example : Prim.clock.fmt (7, 5) = "07:05:00" ∧ Prim.clock.read "07:05:00" = some (7, 5) := by decide

/-! ## non-vacuity -/

/-- the state-class table of the tree under test (`[cls().attributes for cls in SpecificStateClasses]`) -/
def realClasses : List (List String) :=
  [["time_step", "position", "orientation", "velocity", "acceleration", "yaw_rate", "slip_angle"],
   ["time_step", "position", "velocity", "velocity_y"],
   ["time_step", "position", "steering_angle", "velocity", "orientation"],
   ["time_step", "position", "steering_angle", "velocity", "orientation", "hitch_angle"],
   ["time_step", "position", "steering_angle", "velocity", "orientation", "slip_angle", "yaw_rate"],
   ["time_step", "position", "steering_angle", "velocity", "orientation", "slip_angle", "yaw_rate", "front_wheel_angular_speed",
    "rear_wheel_angular_speed"],
   ["time_step", "position", "steering_angle", "velocity", "orientation", "yaw_rate", "roll_angle", "roll_rate", "pitch_angle",
    "pitch_rate", "velocity_y", "position_z", "velocity_z", "roll_angle_front", "roll_rate_front", "velocity_y_front",
    "position_z_front", "velocity_z_front", "roll_angle_rear", "roll_rate_rear", "velocity_y_rear", "position_z_rear",
    "velocity_z_rear", "left_front_wheel_angular_speed", "right_front_wheel_angular_speed", "left_rear_wheel_angular_speed",
    "right_rear_wheel_angular_speed", "delta_y_f", "delta_y_r"],
   ["time_step", "steering_angle_speed", "acceleration"],
   ["time_step", "acceleration", "acceleration_y"],
   ["time_step", "lateral_position", "orientation", "curvature", "curvature_rate"],
   ["time_step", "longitudinal_position", "velocity", "acceleration", "jerk"],
   ["time_step", "position", "velocity", "orientation", "acceleration"]]

def realCfg (d : Nat) : Cfg := ⟨⟨d, [], []⟩, realClasses, ["274", "206", "205"], some "274"⟩

/-- the hypotheses of `C01_xml_roundtrip` hold for the real class table at every precision -/
theorem C01_realCfg_ok (d : Nat) : CfgOk (realCfg d) ∧ (realCfg d).classes ≠ [] ∧ ∀ C, C ∈ (realCfg d).classes → C.Nodup := by
  refine ⟨?_, by simp [realCfg, realClasses], ?_⟩
  · show ∀ C, C ∈ realClasses → ∀ a, a ∈ C → propName (xmlName a) = a
    decide
  · show ∀ C, C ∈ realClasses → C.Nodup
    decide

/-- a state as a trajectory carries it (KS model, one interval value) is well-formed in the sense of `okState` -/
example : okState (realCfg 4).P false
    ⟨[("time_step", .time (.exact 3)), ("position", .pos (.point ⟨"1.23456", "-0.5", none⟩)), ("steering_angle", .val (.exact "0.01")),
      ("velocity", .val (.interval "9.87654321" "10.0")), ("orientation", .val (.exact "1e-05"))]⟩ := by
  refine ⟨by decide, ?_⟩
  intro f hf
  simp only [List.mem_cons, List.mem_nil_iff, or_false] at hf
  rcases hf with rfl | rfl | rfl | rfl | rfl
  · exact ⟨rfl, fun _ => ⟨3, rfl⟩⟩
  · exact ⟨rfl, rfl⟩
  · exact ⟨by decide, by decide, by decide, by decide, by decide, fun h => by cases h⟩
  · exact ⟨by decide, by decide, by decide, by decide, by decide, fun h => by cases h⟩
  · exact ⟨by decide, by decide, by decide, by decide, by decide, fun h => by cases h⟩

/-- the empty body is expressible (so are bodies built from well-formed parts: `Expressible` is the conjunction of the
    parts' `ok`), and the digit-string hypotheses of `C01_trunc_close` are met by "0.123456" at d = 4 -/
example : Expressible (realCfg 4) ⟨[], [], [], [], [], [], [], [], []⟩ := by
  simp [Expressible, docC, Codec.iso, Codec.pair, Codec.many]

example : (∀ c, c ∈ ['1', '2', '3', '4', '5', '6'] → c.isDigit = true) ∧ 4 ≤ ['1', '2', '3', '4', '5', '6'].length := by decide

example : truncChars 4 "-12.3456789".toList = "-12.3456".toList := by decide

/-- a document with a lanelet (adjacent reference, stop line with points), a traffic light and an environment obstacle with a
    shape group meets `Doc.Strict` -/
example : Doc.Strict (realCfg 4)
    ⟨[⟨1, ⟨[⟨"0.0", "3.5", some "0.25"⟩, ⟨"10.0", "3.5", some "0.5"⟩], "solid"⟩, ⟨[⟨"0.0", "0.0", none⟩, ⟨"10.0", "0.0", none⟩], "dashed"⟩,
        [], [2], some ⟨2, true⟩, none,
        some ⟨some (⟨"10.0", "3.5", none⟩, ⟨"10.0", "0.0", none⟩), "solid", [], [7]⟩, ["urban"], ["car"], [], [], [7]⟩],
     [], [⟨7, some ⟨[⟨30, "red"⟩, ⟨5, "green"⟩], 0⟩, some ⟨"9.99", "-0.96", none⟩, "leftRight", false⟩], [], [],
     [],
     [], [⟨11, "building", .group [.circ "1.0" ⟨"1.0", "2.0", none⟩, .poly []]⟩], []⟩ := by
  constructor <;> intro x hx <;> simp only [List.mem_cons, List.not_mem_nil, or_false] at hx
  · subst hx
    refine ⟨?_, ?_, by decide, ?_⟩
    · intro a ha; cases ha; decide
    · intro a ha; cases ha
    · intro s hs; cases hs; exact ⟨_, _, rfl, rfl, rfl⟩
  · subst hx
    refine ⟨by decide, ?_, ?_⟩
    · intro p hp; cases hp; rfl
    · intro c hc; cases hc; decide
  · subst hx
    refine ⟨by decide, ?_⟩
    intro s hs
    simp only [List.mem_cons, List.not_mem_nil, or_false] at hs
    rcases hs with rfl | rfl
    · exact ⟨rfl, fun h => by cases h⟩
    · intro v hv; cases hv

/-- an off-centre, rotated rectangle and a centred one ("0.0") are strict shapes of a dynamic obstacle -/
example : (Shape.one (.rect "4.5" "1.8" "-1.125" ⟨"35.6455", "2.125", none⟩)).Strict true ∧
    (Shape.one (.rect "4.5" "1.8" "0.0" ⟨"0.0", "0.0", none⟩)).Strict true := by
  constructor
  · exact ⟨rfl, fun _ => ⟨by decide, fun h => absurd h (by decide)⟩⟩
  · exact ⟨rfl, fun _ => ⟨fun _ => rfl, fun _ => rfl⟩⟩

/-- the file configuration of the tree under test, cut down to two countries -/
def realFileCfg (d : Nat) : FileCfg :=
  ⟨⟨d, [], []⟩, realClasses, ["DEU", "USA", "ZAM"], [("DEU", (["274", "206"], some "274")), ("ZAM", (["274", "206"], some "274")),
    ("USA", (["R2-1"], some "R2-1"))], "2026-09-29"⟩

/-- a file with a location (geo transformation, environment at 07:05), two tags in enumeration order and an empty body meets
    the hypotheses of `C01_xml_roundtrip_whole_file` and `C01_file_norm_close_full` -/
example : let f : File := ⟨⟨"0.1", some "A. Author", some "TUM", some "handcrafted", "DEU_Muc-3_1_T-1"⟩,
      some ⟨2867714, "48.262333", "11.668775", some ⟨"EPSG:4326", some ⟨"1.5", "-2.0", "0.01", "1.0"⟩⟩,
        some ⟨7, 5, "morning", "fog", "wet"⟩⟩, ["urban", "intersection"], ⟨[], [], [], [], [], [], [], [], []⟩⟩
    okFile (realFileCfg 4) f ∧ f.Strict (realFileCfg 4) := by
  intro f
  constructor
  · refine ⟨?_, trivial, ?_⟩
    · intro v hv
      cases hv
      refine ⟨trivial, trivial, trivial, ?_, ?_⟩
      · intro g hg
        cases hg
        exact ⟨⟨trivial, fun a ha => by cases ha; exact ⟨trivial, trivial, trivial, trivial⟩⟩, rfl⟩
      · intro e he
        cases he
        refine ⟨⟨by decide, by decide⟩, ?_, ?_, ?_⟩
        · show timesOfDay.contains "morning" = true; decide
        · show weathers.contains "fog" = true; decide
        · show undergrounds.contains "wet" = true; decide
    · show (docC _).ok (⟨[], [], [], [], [], [], [], [], []⟩ : Doc)
      simp [docC, Codec.iso, Codec.pair, Codec.many]
  · refine ⟨rfl, by decide, ?_⟩
    constructor <;> intro x hx <;> cases hx

end CR.X
