/-
  C01 — XML write → read reproduces scenario and planning problems (2020a format, decimal precisions 1..12).

  Model: CRModel/Xml.lean (element trees), CRModel/Codec.lean (codec combinators), CRModel/CRXml.lean (the format: every element
  kind is one codec term holding the writer side `enc`, the reader side `dec`, the after-round-trip value `norm` and the
  handled values `ok`).  Laws: CRProofs/Codec.lean (once per combinator), CRProofs/CRXml.lean (assembly), CRProofs/CRState.lean
  (`StateXMLNode` / `StateFactory`), CRProofs/Decimal.lean (`float_to_str`).

  CRProofs/CRNorm.lean (norm = mapR ∘ canon, canon = id on strict values), CRProofs/CRFile.lean (root attributes, location,
  scenario tags: the whole `<commonRoad>` tree).

  Main theorems: `C01_xml_roundtrip` (body, in any foreign context), `C01_xml_roundtrip_whole_file` (the whole tree),
  `C01_norm_eq_mapR_canon` / `C01_file_norm_eq_mapR_canon` (what a round trip does, exactly), `C01_norm_close_full` /
  `C01_file_norm_close_full` (on strictly expressible content only the reals change), `C01_trunc_close` (by less than 10^-d).

  `enc` and `dec` of `child` / `many` / `optional` share one tag string by construction, so a writer / reader tag mismatch is not
  expressible in the model: that the CODE has no such mismatch is what the two-sided correspondence is for (model encode = the
  real written tree, and independently model decode of the real file = the real reader's result) — `virtual` is the one place
  where it found one, and the model has a dedicated codec for it (`virtualC`).

  Not covered by the theorems (trusted / sampled by the correspondence and the oracle): the byte level (XML escaping,
  `str(float)` / `float(str)`, `format(x, ".df")` and `np.format_float_positional` for reprs in exponent notation — parameters
  of the model; `str(int)` is `Int.repr`), `ScenarioID.from_benchmark_id ∘ str` (the benchmark id is a string here; C13),
  the 2018b reader branch, lanelet assignment.
-/
import CRProofs.CRState
import CRProofs.Decimal
import CRProofs.CRNorm
import CRProofs.CRFile
import CRProofs.DecVal
import CRProofs.CRReals
import Mathlib.Data.List.Perm.Subperm

namespace CR.X

/-- what the writer / reader pair handles: the `ok` side conditions collected by the codec term (enumeration values known
    to the reader, trajectories and occupancy sets non-empty, well-formed states, a light has a cycle, a stop line without
    points belongs to a lanelet with vertices, "274" only where the country has MAX_SPEED) -/
def Expressible (cfg : Cfg) (d : Doc) : Prop := (docC cfg).ok d

/-- siblings the body reader never asks for (`location`, `scenarioTags`, anything else) -/
def Foreign (cfg : Cfg) (l : List Xml) : Prop := ∀ x, x ∈ l → (docC cfg).tags.contains x.tag = false

/-! ## round trip -/

/-- **xml_roundtrip**: reading what was written yields `normDoc` of the original, for every expressible document, every
    precision and repr table (`cfg.P`), every state-class table whose names survive the case mapping, and whatever foreign
    elements surround the body.  No bound on the number of lanelets, obstacles, states, vertices. -/
theorem C01_xml_roundtrip (cfg : Cfg) (hcfg : CfgOk cfg) (hne : cfg.classes ≠ []) (d : Doc) (hd : Expressible cfg d)
    (pre post : List Xml) (hpre : Foreign cfg pre) (hpost : Foreign cfg post) :
    decodeDoc cfg (pre ++ encodeDoc cfg d ++ post) = some (normDoc cfg d) :=
  (docC_lawful (stateLaws cfg hcfg hne)).ctx d hd pre post hpre hpost

/-- the file as written: `location`, `scenarioTags`, then the body -/
theorem C01_xml_roundtrip_file (cfg : Cfg) (hcfg : CfgOk cfg) (hne : cfg.classes ≠ []) (d : Doc) (hd : Expressible cfg d)
    (loc tags : Xml) (hl : loc.tag = "location") (ht : tags.tag = "scenarioTags") :
    decodeDoc cfg ([loc, tags] ++ encodeDoc cfg d ++ []) = some (normDoc cfg d) := by
  apply C01_xml_roundtrip cfg hcfg hne d hd
  · intro x hx
    simp only [List.mem_cons, List.mem_nil_iff, or_false] at hx
    rcases hx with rfl | rfl
    · rw [hl]; rfl
    · rw [ht]; rfl
  · intro x hx
    cases hx

/-- the generic shape of the argument: any lawful codec reads its own output back out of any foreign context -/
theorem C01_codec_context {α : Type} (c : Codec α) (h : c.Lawful) (a : α) (hok : c.ok a) (pre post : List Xml)
    (hpre : ∀ x, x ∈ pre → c.tags.contains x.tag = false) (hpost : ∀ x, x ∈ post → c.tags.contains x.tag = false) :
    c.dec (pre ++ c.enc a ++ post) = some (c.norm a) := h.ctx a hok pre post hpre hpost

/-- nothing the writer emits is dropped by the reader's tag filter: every body element carries a tag the reader asks for -/
theorem C01_nothing_foreign_written (cfg : Cfg) (hcfg : CfgOk cfg) (hne : cfg.classes ≠ []) (d : Doc) (x : Xml)
    (hx : x ∈ encodeDoc cfg d) : (docC cfg).tags.contains x.tag = true :=
  (docC_lawful (stateLaws cfg hcfg hne)).enc_tags d x hx

/-! ## what `norm` does: discrete leaves untouched, reals truncated -/

/-- (definitional: documents the model, carries no proof content) the `norm` field of each leaf codec: integers, booleans,
    enumeration values and bare-`str()` reals come back as they are; a `float_to_str` real as `floatToStr P s`, a
    `decimal_to_str` real as `decimalToStr P s`.  What these two functions do to the VALUE is `C01_floatToStr_close` and
    `C01_decimalToStr_val` below. -/
theorem C01_leaf_norms (P : Params) :
    (∀ i, Prim.int.norm i = i) ∧ (∀ b, Prim.boolStrict.norm b = b) ∧ (∀ vals s, (Prim.enum vals).norm s = s) ∧
    (∀ s, Prim.decRepr.norm s = s) ∧ (∀ s, (Prim.decPlain P).norm s = decimalToStr P s) ∧ (∀ s, (Prim.dec P).norm s = floatToStr P s) :=
  ⟨fun _ => rfl, fun _ => rfl, fun _ _ => rfl, fun _ => rfl, fun _ => rfl, fun _ => rfl⟩

/-- a repr without exponent is cut after `d` fraction digits -/
theorem C01_floatToStr_plain (P : Params) (s : String) (h : s.toList.contains 'e' = false) :
    floatToStr P s = String.ofList (truncChars P.d s.toList) := by
  simp only [floatToStr, h, Bool.false_eq_true, ↓reduceIte]

/-- integer part and sign are kept, the fraction is cut (not rounded) -/
theorem C01_trunc_decimal (d : Nat) (ip fp : List Char) (hi : noDot ip) (hf : noDot fp) :
    truncChars d (ip ++ '.' :: fp) = ip ++ '.' :: fp.take d := truncChars_decimal d ip fp hi hf

theorem C01_trunc_integer (d : Nat) (ip : List Char) (hi : noDot ip) : truncChars d ip = ip := truncChars_integer d ip hi

/-- **reals within 10^-d**: cutting a fraction digit string after `d` digits lowers its value by less than 10^-d (so the
    magnitude of a written real is within 10^-d of the original's, towards zero) -/
theorem C01_trunc_close (d : Nat) (fp : List Char) (h : ∀ c, c ∈ fp → c.isDigit = true) (hd : d ≤ fp.length) :
    0 ≤ fracVal fp - fracVal (fp.take d) ∧ fracVal fp - fracVal (fp.take d) < 1 / 10 ^ d := trunc_close d fp h hd

theorem C01_trunc_short (d : Nat) (fp : List Char) (hd : fp.length ≤ d) : fp.take d = fp := List.take_of_length_le hd

/-! ## the value of a written real: `realVal : String → ℚ` (CRModel/DecVal.lean) -/

/-- **reals within 10^-d, on the text the codec handles**: for a plain decimal repr `s` (`[-]digits[.digits]`), the text
    `float_to_str` writes is a plain decimal whose exact value differs from the value of `s` by less than 10^-d and is not
    larger in magnitude (truncation towards zero).  This composes `C01_floatToStr_plain`, `C01_trunc_decimal` and
    `C01_trunc_close` and passes from digit lists to `realVal` of strings. -/
theorem C01_floatToStr_plain_close (P : Params) (s : String) (h : PlainDec s) :
    PlainDec (floatToStr P s) ∧ |realVal (floatToStr P s) - realVal s| < 1 / 10 ^ P.d ∧ |realVal (floatToStr P s)| ≤ |realVal s| :=
  floatToStr_plain_close P s h

/-- the same for EVERY repr (plain or exponent notation), under the contract `FixOk` of the exponent-notation tables
    (`format(x, ".<d>f")` is a plain decimal within 10^-d of x) and coverage of the repr by the table -/
theorem C01_floatToStr_close (P : Params) (hP : FixOk P) (s : String) (hs : ReprForm s) (hc : FixCovered P s) :
    PlainDec (floatToStr P s) ∧ |realVal (floatToStr P s) - realVal s| < 1 / 10 ^ P.d := floatToStr_close P hP s hs hc

/-- a real written with `decimal_to_str` keeps its exact value (contract: the positional form denotes the same number) -/
theorem C01_decimalToStr_val (P : Params) (hP : FixOk P) (s : String) (hc : PosCovered P s) :
    realVal (decimalToStr P s) = realVal s := decimalToStr_val P hP s hc

/-! ## states: which attributes are populated, exact / interval / region, time -/

/-- (definitional: documents the model, carries no proof content) a field keeps its name and its kind; a time is untouched;
    exact stays exact, interval stays interval, a region stays a region (its shape goes through the static shape codec) -/
theorem C01_field_kind (P : Params) (n : String) :
    (∀ t, normField P (n, .time t) = (n, .time t)) ∧
    (∀ x, normField P (n, .val (.exact x)) = (n, .val (.exact (floatToStr P x)))) ∧
    (∀ a b, normField P (n, .val (.interval a b)) = (n, .val (.interval (floatToStr P a) (floatToStr P b)))) ∧
    (∀ p, normField P (n, .pos (.point p)) = (n, .pos (.point ⟨floatToStr P p.x, floatToStr P p.y, p.z.map (floatToStr P)⟩))) ∧
    (∀ ids, normField P (n, .pos (.lanelets ids)) = (n, .pos (.lanelets ids))) ∧
    (∀ s, normField P (n, .pos (.region s)) = (n, .pos (.region ((shapeC P false).norm s)))) :=
  ⟨fun _ => rfl, fun _ => rfl, fun _ _ => rfl, fun _ => rfl, fun _ => rfl, fun _ => rfl⟩

theorem pick_mem (nf : List (String × SVal)) (a : String) (q : String × SVal) (h : pick nf a = some q) : q ∈ nf ∧ q.1 = a := by
  induction nf with
  | nil => simp [pick, lookupField] at h
  | cons f r ih =>
    obtain ⟨k, v⟩ := f
    simp only [pick, lookupField] at h
    cases hk : (k == a)
    · simp only [hk, Bool.false_eq_true, ↓reduceIte] at h
      have := ih h
      exact ⟨by simp [this.1], this.2⟩
    · simp only [hk, ↓reduceIte, Option.map] at h
      have e : k = a := by simpa using hk
      cases h
      exact ⟨by simp [e], rfl⟩

/-- **which attributes a state populates**: after a round trip a (trajectory or goal) state has exactly the fields of the
    original, each with its round-tripped value — nothing dropped, nothing added, nothing duplicated; only the order may
    become the order of the matching state class -/
theorem C01_state_fields_perm (cfg : Cfg) (hnd : ∀ C, C ∈ cfg.classes → C.Nodup) (s : State) :
    List.Perm (normState cfg s).fields (s.fields.map (normField cfg.P)) := by
  simp only [normState]
  cases hco : classOf cfg.classes (s.fields.map (normField cfg.P)) with
  | none => exact List.Perm.refl _
  | some C =>
    simp only []
    have hC : C ∈ cfg.classes := List.mem_of_find?_eq_some hco
    have hp := List.find?_some hco
    simp only [Bool.and_eq_true, beq_iff_eq, List.all_eq_true] at hp
    obtain ⟨hlen, hall⟩ := hp
    set nf := s.fields.map (normField cfg.P) with hnf
    -- every picked field is a field of nf, with the class attribute as name
    have hfm : C.filterMap (fun a => (lookupField a nf).map (fun v => (a, v))) = C.filterMap (pick nf) := rfl
    rw [hfm]
    have hkeys : (C.filterMap (pick nf)).map (fun f => f.1) = C := by
      clear hlen hco hC hfm
      induction C with
      | nil => rfl
      | cons a r ih =>
        have ha := hall a (by simp)
        cases hp : pick nf a with
        | none =>
          simp only [pick] at hp
          cases hl : lookupField a nf with
          | none => rw [hl] at ha; cases ha
          | some v => rw [hl] at hp; cases hp
        | some q =>
          have := (pick_mem nf a q hp).2
          simp only [List.filterMap_cons, hp, List.map_cons, this]
          congr 1
          exact ih (fun b hb => hall b (by simp [hb]))
    have hnodup : (C.filterMap (pick nf)).Nodup := by
      apply List.Nodup.of_map (fun f => f.1)
      rw [hkeys]
      exact hnd C hC
    have hsub : C.filterMap (pick nf) ⊆ nf := by
      intro q hq
      simp only [List.mem_filterMap] at hq
      obtain ⟨a, _, hpa⟩ := hq
      exact (pick_mem nf a q hpa).1
    apply (hnodup.subperm hsub).perm_of_length_le
    have : (C.filterMap (pick nf)).length = C.length := by
      rw [← hkeys, List.length_map]
      rw [hkeys]
    omega

/-- (definitional: documents the model, carries no proof content) **unset initial-state attributes read back as 0** and set
    ones as their round-tripped value: an initial state reads back with exactly the attributes of `InitialState`.  The content
    is in `decInitial_encState` (this IS what the reader does, part of `C01_xml_roundtrip`) and `C01_initial_extra_dropped`. -/
theorem C01_initial_defaults (cfg : Cfg) (C : List String) (Cs : List (List String)) (hc : cfg.classes = C :: Cs) (s : State) :
    (normInitial cfg s).fields =
      C.map (fun a => (a, (lookupField a (s.fields.map (normField cfg.P))).getD (defaultOf a))) := by
  simp only [normInitial, hc]

/-- (definitional: documents the model, carries no proof content) the defaults of `State.fill_with_defaults` -/
theorem C01_default_values : defaultOf "position" = .pos (.point ⟨"0.0", "0.0", none⟩) ∧ defaultOf "velocity" = .val (.exact "0.0")
    ∧ defaultOf "acceleration" = .val (.exact "0.0") ∧ defaultOf "yaw_rate" = .val (.exact "0.0")
    ∧ defaultOf "slip_angle" = .val (.exact "0.0") ∧ defaultOf "orientation" = .val (.exact "0.0") := by
  refine ⟨?_, ?_, ?_, ?_, ?_, ?_⟩ <;> rfl

theorem lookupField_map_none (C : List String) (g : String → SVal) (a : String) (h : ¬ a ∈ C) :
    lookupField a (C.map (fun c => (c, g c))) = none := by
  induction C with
  | nil => rfl
  | cons c r ih =>
    have hne : c ≠ a := fun e => h (by simp [e])
    have hb : (c == a) = false := by simpa using hne
    simp only [List.map_cons, lookupField, hb, Bool.false_eq_true, ↓reduceIte]
    exact ih (fun hm => h (by simp [hm]))

/-- **What an initial state LOSES**: every attribute that is not an attribute of the first state class (`InitialState`) is
    absent after the round trip — the reader fills an `InitialState` and ignores the other children of `<initialState>`
    (file_reader_xml.py `StateFactory.create_from_xml_node(..., is_initial_state=True)`).  This is a genuine loss of the
    writer / reader pair, outside the quantifier of the property for the following reason, checked on the real code
    (harness `witness_initial_extra`): `Obstacle.initial_state` only accepts `InitialState` objects, whose dataclass fields are
    exactly the six of the class (AssertionError otherwise), and the XSD type `initialStateExact` of a planning problem's
    `<initialState>` admits no further element; such an attribute can only get there by passing a different state class
    to `PlanningProblem` (schema-invalid file) or by `setattr` on an `InitialState` instance.  `State.StrictInitial` (used by
    `C01_norm_close_full`) excludes these states; `C01_xml_roundtrip` covers them (with this `norm`). -/
theorem C01_initial_extra_dropped (cfg : Cfg) (C : List String) (Cs : List (List String)) (hc : cfg.classes = C :: Cs) (s : State)
    (a : String) (ha : ¬ a ∈ C) : lookupField a (normInitial cfg s).fields = none := by
  simp only [normInitial, hc]
  exact lookupField_map_none C _ a ha

/-! ## nothing dropped, duplicated or re-ordered in time -/

/-- (definitional for the list structure: `norm` of a trajectory is `List.map`, so length and order are kept by construction;
    the content is that `decode ∘ encode` equals this `norm`, `C01_xml_roundtrip`) **order_kept** (trajectory): the read-back
    trajectory has the states of the original, one for one, in the same order -/
theorem C01_order_kept_trajectory (cfg : Cfg) (o : DynObs) (l : List State) (h : o.pred = .traj l) :
    ((dynObsE cfg).norm o).pred = .traj (l.map (normState cfg)) ∧ ((dynObsE cfg).norm o).id = o.id
      ∧ ((dynObsE cfg).norm o).type = o.type := by
  refine ⟨?_, rfl, rfl⟩
  show (predC cfg).norm o.pred = _
  rw [h]
  rfl

/-- **order_kept** (occupancy set): occupancies one for one, in order, each with its time untouched -/
theorem C01_order_kept_occupancies (cfg : Cfg) (o : DynObs) (l : List Occupancy) (h : o.pred = .occ l) :
    ((dynObsE cfg).norm o).pred = .occ (l.map (fun oc => ⟨(shapeC cfg.P false).norm oc.shape, oc.time⟩)) := by
  show (predC cfg).norm o.pred = _
  rw [h]
  show Prediction.occ (l.map (occE cfg.P).norm) = _
  congr 1
  apply List.map_congr_left
  intro oc _
  cases ht : oc.time <;> simp [occE, ECodec.ofKids, Codec.iso, Codec.pair, Codec.child, timeC, Codec.orElse, ht, Prim.int, ECodec.ofText]

/-- signal series: one for one, in order, unchanged (all leaves are discrete) -/
theorem C01_order_kept_signals (cfg : Cfg) (o : DynObs) (h : o.series ≠ []) : ((dynObsE cfg).norm o).series = o.series := by
  show seriesC.norm o.series = o.series
  cases hs : o.series with
  | nil => exact absurd hs h
  | cons a r =>
    simp only [seriesC, Codec.optChild, List.isEmpty_cons, Bool.not_false, ↓reduceIte, ECodec.ofKids, Codec.many]
    have : signalE.norm = id := by
      funext sg
      cases sg with
      | mk t a b c d e f => cases a <;> cases b <;> cases c <;> cases d <;> cases e <;> cases f <;> rfl
    rw [this]
    simp

/-- (definitional: documents the model, carries no proof content) every collection of the document is mapped element by
    element: same length, same order -/
theorem C01_collections_kept (cfg : Cfg) (d : Doc) :
    (normDoc cfg d).lanelets = d.lanelets.map (laneletE cfg.P).norm ∧
    (normDoc cfg d).signs = d.signs.map (signE cfg).norm ∧
    (normDoc cfg d).lights = d.lights.map (lightE cfg.P).norm ∧
    (normDoc cfg d).intersections = d.intersections.map intersectionE.norm ∧
    (normDoc cfg d).statics = d.statics.map (staticObsE cfg).norm ∧
    (normDoc cfg d).dynamics = d.dynamics.map (dynObsE cfg).norm ∧
    (normDoc cfg d).phantoms = d.phantoms.map (phantomObsE cfg).norm ∧
    (normDoc cfg d).envs = d.envs.map (envObsE cfg).norm ∧
    (normDoc cfg d).problems = d.problems.map (planningProblemE cfg).norm :=
  ⟨rfl, rfl, rfl, rfl, rfl, rfl, rfl, rfl, rfl⟩

/-- a lanelet keeps its id on BOTH branches of `laneletE.norm` (the stop line could be completed, or it could not and the
    codec's side condition `Lanelet.Ok` fails): the `getD` fall-through cannot change an id -/
theorem C01_lanelet_id_kept (P : Params) (l : Lanelet) : ((laneletE P).norm l).id = l.id := by
  show ((laneletOfTuple ((ECodec.attrKids "id" Prim.int (laneletKidsC P)).norm (laneletToTuple l))).getD l).id = l.id
  generalize hn : (ECodec.attrKids "id" Prim.int (laneletKidsC P)).norm (laneletToTuple l) = t
  have hid : t.1 = l.id := by rw [← hn]; rfl
  obtain ⟨id, left, right, pred, succ, adjL, adjR, stop, types, oneWay, bidir, signs, lights⟩ := t
  simp only [laneletOfTuple]
  simp only at hid
  cases completeStop left right stop with
  | none => rfl
  | some st => exact hid

/-- ids of lanelets, signs, lights, intersections, obstacles and planning problems are kept, in order -/
theorem C01_ids_kept (cfg : Cfg) (d : Doc) :
    (normDoc cfg d).lanelets.map (fun s => s.id) = d.lanelets.map (fun s => s.id) ∧
    (normDoc cfg d).signs.map (fun s => s.id) = d.signs.map (fun s => s.id) ∧
    (normDoc cfg d).lights.map (fun s => s.id) = d.lights.map (fun s => s.id) ∧
    (normDoc cfg d).intersections.map (fun s => s.id) = d.intersections.map (fun s => s.id) ∧
    (normDoc cfg d).statics.map (fun s => s.id) = d.statics.map (fun s => s.id) ∧
    (normDoc cfg d).dynamics.map (fun s => s.id) = d.dynamics.map (fun s => s.id) ∧
    (normDoc cfg d).phantoms.map (fun s => s.id) = d.phantoms.map (fun s => s.id) ∧
    (normDoc cfg d).envs.map (fun s => s.id) = d.envs.map (fun s => s.id) ∧
    (normDoc cfg d).problems.map (fun s => s.id) = d.problems.map (fun s => s.id) := by
  obtain ⟨h1, h2, h3, h4, h5, h6, h7, h8, h9⟩ := C01_collections_kept cfg d
  rw [h1, h2, h3, h4, h5, h6, h7, h8, h9]
  simp only [List.map_map]
  refine ⟨?_, rfl, rfl, rfl, rfl, rfl, rfl, rfl, rfl⟩
  apply List.map_congr_left
  intro l _
  exact C01_lanelet_id_kept cfg.P l

/-- the one discrete value the pair does NOT reproduce (known finding): `virtual` reads back False whatever was written -/
theorem C01_witness_virtual (cfg : Cfg) (s : Sign) : ((signE cfg).norm s).virtual = false := rfl

/-- a dynamic obstacle's rectangle keeps an off-centre position and a non-zero orientation (after the repair of the writer);
    a centred, unrotated one is written without them and reads back with the reader's defaults, i.e. unchanged -/
theorem C01_dynamic_shape_kept (P : Params) (l w o : Real) (c : Pt) :
    normShape1 P true (.rect l w o c) =
      .rect (decimalToStr P l) (decimalToStr P w) (if isZeroRepr o then "0.0" else decimalToStr P o)
        (if isOrigin c then zeroPt else ⟨floatToStr P c.x, floatToStr P c.y, none⟩) := by
  simp only [normShape1, rectE, ECodec.ofKids, Codec.pair, Codec.child, ECodec.ofText, Prim.decPlain, orientC, centerC,
    Codec.optChild, Bool.not_true, Bool.false_or, id]
  cases h1 : isZeroRepr o <;> cases h2 : isOrigin c <;> simp [ptE, ptKidsC, ECodec.ofKids, Codec.iso, Codec.pair, Codec.child,
    Codec.optional, ECodec.ofText, Prim.dec]

/-! ## norm_close, in one piece -/

/-- **What one write → read does, exactly**: `normDoc` is `mapR` (apply `float_to_str` to the reals the writer truncates,
    `decimal_to_str` to the reals it writes in full, touch nothing else) after `canon` (the discrete completions: adjacent id 0
    dropped, empty lanelet type set ↦ {unknown}, stop line without points ↦ end points of the bounds, `virtual` ↦ False, light
    direction / time offset defaults, sign ids through the country table, zero centre / orientation of a dynamic obstacle's
    shape ↦ the reader's defaults, one-member shape group ↦ its member, attributes of a state in the order of the matching state
    class, unset attributes of an initial state ↦ 0).  For every precision d ≥ 1. -/
theorem C01_norm_eq_mapR_canon (cfg : Cfg) (hd : 1 ≤ cfg.P.d) (hne : cfg.classes ≠ []) (d : Doc) (hl : ∀ l, l ∈ d.lanelets → l.Ok) :
    normDoc cfg d = (d.canon cfg).mapR (realMaps cfg.P) := normDoc_eq cfg hd hne d hl

/-- **norm_close_full**: on a strictly expressible document (`Doc.Strict`: ids ≥ 1 in references, a lanelet type, stop lines
    with points, `virtual` False, known sign ids and directions, offsets ≥ 0, groups of ≥ 2 shapes, states listing their
    attributes in class order, initial states with every attribute set) the round trip changes NOTHING but the reals, each by
    `float_to_str` (bounded by `C01_trunc_close`) or `decimal_to_str` (same value): all discrete parts identical, the same
    attributes populated, exact / interval / region unchanged, every collection in the same order. -/
theorem C01_norm_close_full (cfg : Cfg) (hd : 1 ≤ cfg.P.d) (hne : cfg.classes ≠ []) (d : Doc) (h : d.Strict cfg) :
    normDoc cfg d = d.mapR (realMaps cfg.P) := by
  rw [normDoc_eq cfg hd hne d (fun l hl => (h.lanelets l hl).ok), Doc.canon_id cfg d h]

/-- round trip and norm_close together: reading the written file of a strict document yields the document with its reals
    formatted, nothing else -/
theorem C01_xml_roundtrip_strict (cfg : Cfg) (hcfg : CfgOk cfg) (hne : cfg.classes ≠ []) (hd1 : 1 ≤ cfg.P.d) (d : Doc)
    (hd : Expressible cfg d) (hs : d.Strict cfg) (pre post : List Xml) (hpre : Foreign cfg pre) (hpost : Foreign cfg post) :
    decodeDoc cfg (pre ++ encodeDoc cfg d ++ post) = some (d.mapR (realMaps cfg.P)) := by
  rw [C01_xml_roundtrip cfg hcfg hne d hd pre post hpre hpost, C01_norm_close_full cfg hd1 hne d hs]

/-- the unset attributes of an initial state read back as 0, the set ones with their formatted value, in the order of
    `InitialState`; nothing else about an obstacle or planning problem changes (corollary of the per-element equations) -/
theorem C01_initial_state_close (cfg : Cfg) (hd : 1 ≤ cfg.P.d) (hne : cfg.classes ≠ []) (s : State) :
    normInitial cfg s = (s.canonInitial cfg).mapR (realMaps cfg.P) :=
  normInitial_eq cfg (realMaps_zeroFixed cfg.P hd) hne s

/-- (formerly the only proved part) ids, additional values, cycles and `active` of signs and lights are untouched — now a
    corollary of the element equations `signE_norm_eq`, `lightE_norm_eq` -/
theorem C01_norm_close_partial (cfg : Cfg) (d : Doc) :
    (normDoc cfg d).signs.map (fun s => (s.id, s.elements.map (fun e => e.values))) =
      d.signs.map (fun s => (s.id, s.elements.map (fun e => e.values)))
    ∧ (normDoc cfg d).lights.map (fun l => (l.id, l.active, l.cycle.map (fun c => c.elements.map (fun e => (e.duration, e.color))))) =
      d.lights.map (fun l => (l.id, l.active, l.cycle.map (fun c => c.elements.map (fun e => (e.duration, e.color))))) := by
  obtain ⟨_, h2, h3, _⟩ := C01_collections_kept cfg d
  rw [h2, h3]
  simp only [List.map_map]
  constructor
  · apply List.map_congr_left
    intro s _
    simp only [Function.comp, signE_norm_eq, Sign.canon, Sign.mapR, List.map_map]
    rfl
  · apply List.map_congr_left
    intro l _
    simp only [Function.comp, lightE_norm_eq, Light.canon, Light.mapR]
    cases l.cycle <;> rfl

/-! ## the whole file tree -/

/-- (definitional: documents the model, carries no proof content) the state-class table of a file configuration is the one
    every country's configuration uses -/
theorem FileCfg.cfgFor_classes (fc : FileCfg) (bid : String) : (fc.cfgFor bid).classes = fc.classes := rfl

/-- **xml_roundtrip for the whole file**: the `<commonRoad>` element the writer builds — root attributes (time step size,
    version, author, affiliation, source, benchmark id, date), `location` (geo name id, gps, geo transformation, environment
    with clock time / time of day / weather / underground), `scenarioTags` and the body — read by `XMLFileReader.open`
    yields `normFile` of the original.  The sign table the reader uses is the one of the country named in the benchmark id
    (`countryOf`), the date is written and never read. -/
theorem C01_xml_roundtrip_whole_file (fc : FileCfg) (hcfg : ∀ C, C ∈ fc.classes → ∀ a, a ∈ C → propName (xmlName a) = a)
    (hne : fc.classes ≠ []) (f : File) (htab : hasTable (countryOf fc.countries f.header.benchmarkId) fc.tables = true)
    (hok : okFile fc f) :
    decodeFile fc (encodeFile fc f) = some (normFile fc f) :=
  decodeFile_encodeFile fc f (stateLaws (fc.cfgFor f.header.benchmarkId) hcfg hne) htab hok

/-- without the sign table of the file's country the reader raises (`TrafficSignIDCountries[country.value]` is a dictionary
    access): the hypothesis `htab` above is necessary, the `lookupTable` default is never what a successful read used -/
theorem C01_no_table_no_read (fc : FileCfg) (f : File)
    (htab : hasTable (countryOf fc.countries f.header.benchmarkId) fc.tables = false) : decodeFile fc (encodeFile fc f) = none := by
  obtain ⟨h1, h2, h3, _⟩ := rootAttrs (decimalToStr fc.P f.header.dt) "2020a" f.header.benchmarkId fc.today f.header.author
    f.header.affiliation f.header.source "" ((fileKidsC (fc.cfgFor f.header.benchmarkId)).enc (f.location, f.tags, f.body))
  simp only [decodeFile, encodeFile]
  rw [h1, h2, h3]
  simp [htab]

/-- (definitional: documents the model, carries no proof content) the header comes back as written (the time step size in
    plain decimal notation), the date is not part of the content -/
theorem C01_header_kept (fc : FileCfg) (f : File) :
    (normFile fc f).header = ⟨decimalToStr fc.P f.header.dt, f.header.author, f.header.affiliation, f.header.source, f.header.benchmarkId⟩ :=
  rfl

/-- (definitional: documents the model, carries no proof content) the tags come back as the set they are: each known tag once,
    in the order of the `Tag` enumeration -/
theorem C01_tags_kept (fc : FileCfg) (f : File) : (normFile fc f).tags = allTags.filter (fun t => f.tags.contains t) := rfl

/-- **norm_close for the whole file**: `normFile = mapR ∘ canon` (a missing location becomes the default location, the tags
    are put in enumeration order, the body as in `C01_norm_eq_mapR_canon`), and on strict files nothing but the reals changes -/
theorem C01_file_norm_eq_mapR_canon (fc : FileCfg) (hd : 1 ≤ fc.P.d) (hne : fc.classes ≠ []) (f : File)
    (hl : ∀ l, l ∈ f.body.lanelets → l.Ok) : normFile fc f = (f.canon fc).mapR (realMaps fc.P) := normFile_eq fc hd hne f hl

theorem C01_file_norm_close_full (fc : FileCfg) (hd : 1 ≤ fc.P.d) (hne : fc.classes ≠ []) (f : File) (h : f.Strict fc) :
    normFile fc f = f.mapR (realMaps fc.P) := by
  rw [normFile_eq fc hd hne f (fun l hl => (h.body.lanelets l hl).ok), File.canon_id fc f h]

/-- a cooperative id names its country after "C-"; an unsupported country falls back to Zamunda -/
example : countryOf ["DEU", "USA", "ZAM"] "C-USA_US101-1_1_T-1" = "USA" ∧ countryOf ["DEU", "USA", "ZAM"] "DEU_Muc-3_1_T-1" = "DEU"
    ∧ countryOf ["DEU", "USA", "ZAM"] "XYZ_Test-1_1_T-1" = "ZAM" := by decide

/-- the clock text: 7:05 is written "07:05:00" and read back as (7, 5) -/
example : Prim.clock.fmt (7, 5) = "07:05:00" ∧ Prim.clock.read "07:05:00" = some (7, 5) := by decide

/-! ## the "< 10^-d" clause, for every real of a read-back document -/

/-- a `float_to_str` real read back: a plain decimal text whose exact value is within 10^-d of the original's -/
def CloseF (P : Params) (s t : String) : Prop := PlainDec t ∧ |realVal t - realVal s| < 1 / 10 ^ P.d

/-- a `decimal_to_str` real read back: the same exact value -/
def SameVal (s t : String) : Prop := realVal t = realVal s

/-- `mapR` with the two writer formats relates every real leaf of `x` to the corresponding leaf of the result (same number of
    leaves, same order): within 10^-d for the truncated ones, equal value for the ones written in full -/
theorem C01_mapR_reals_close (P : Params) (hP : FixOk P) (x : Doc)
    (hF : ∀ s, s ∈ x.realsF → ReprForm s ∧ FixCovered P s) (hG : ∀ s, s ∈ x.realsG → PosCovered P s) :
    List.Forall₂ (CloseF P) x.realsF (x.mapR (realMaps P)).realsF ∧ List.Forall₂ SameVal x.realsG (x.mapR (realMaps P)).realsG := by
  rw [Doc.realsF_mapR, Doc.realsG_mapR]
  exact ⟨forall₂_map_of _ _ (fun s hs => floatToStr_close P hP s (hF s hs).1 (hF s hs).2),
    forall₂_map_of _ _ (fun s hs => decimalToStr_val P hP s (hG s hs))⟩

/-- **norm_close with the bound, strict documents**: the read-back document IS the original with its reals formatted
    (`C01_norm_close_full`), and every real leaf (listed by `Doc.realsF` / `Doc.realsG`) of the read-back document has an
    exact value within 10^-d of (resp. equal to) the value of the corresponding leaf of the original.  Hypotheses on the reals:
    each is a float repr (plain or exponent notation) that the harness tables cover, and the tables meet `FixOk`. -/
theorem C01_norm_reals_close (cfg : Cfg) (hP : FixOk cfg.P) (hd : 1 ≤ cfg.P.d) (hne : cfg.classes ≠ []) (d : Doc) (hs : d.Strict cfg)
    (hF : ∀ s, s ∈ d.realsF → ReprForm s ∧ FixCovered cfg.P s) (hG : ∀ s, s ∈ d.realsG → PosCovered cfg.P s) :
    normDoc cfg d = d.mapR (realMaps cfg.P) ∧
    List.Forall₂ (CloseF cfg.P) d.realsF (normDoc cfg d).realsF ∧ List.Forall₂ SameVal d.realsG (normDoc cfg d).realsG := by
  have h := C01_norm_close_full cfg hd hne d hs
  rw [h]
  exact ⟨rfl, C01_mapR_reals_close cfg.P hP d hF hG⟩

/-- the same without strictness: the leaves are those of `canon d` (the document after the discrete completions) -/
theorem C01_norm_reals_close_canon (cfg : Cfg) (hP : FixOk cfg.P) (hd : 1 ≤ cfg.P.d) (hne : cfg.classes ≠ []) (d : Doc)
    (hl : ∀ l, l ∈ d.lanelets → l.Ok)
    (hF : ∀ s, s ∈ (d.canon cfg).realsF → ReprForm s ∧ FixCovered cfg.P s) (hG : ∀ s, s ∈ (d.canon cfg).realsG → PosCovered cfg.P s) :
    List.Forall₂ (CloseF cfg.P) (d.canon cfg).realsF (normDoc cfg d).realsF ∧
      List.Forall₂ SameVal (d.canon cfg).realsG (normDoc cfg d).realsG := by
  rw [normDoc_eq cfg hd hne d hl]
  exact C01_mapR_reals_close cfg.P hP (d.canon cfg) hF hG

/-- **the property sentence for the body, in one statement**: what the reader returns for the written file of a strict,
    expressible document is a document `d'` with exactly the discrete content of `d` (`d' = d.mapR …`: `mapR` changes reals
    only) whose reals are within 10^-d of / equal in value to those of `d` -/
theorem C01_xml_roundtrip_close (cfg : Cfg) (hcfg : CfgOk cfg) (hne : cfg.classes ≠ []) (hP : FixOk cfg.P) (hd1 : 1 ≤ cfg.P.d) (d : Doc)
    (hd : Expressible cfg d) (hs : d.Strict cfg) (hF : ∀ s, s ∈ d.realsF → ReprForm s ∧ FixCovered cfg.P s)
    (hG : ∀ s, s ∈ d.realsG → PosCovered cfg.P s) (pre post : List Xml) (hpre : Foreign cfg pre) (hpost : Foreign cfg post) :
    ∃ d', decodeDoc cfg (pre ++ encodeDoc cfg d ++ post) = some d' ∧ d' = d.mapR (realMaps cfg.P) ∧
      List.Forall₂ (CloseF cfg.P) d.realsF d'.realsF ∧ List.Forall₂ SameVal d.realsG d'.realsG := by
  obtain ⟨h1, h2, h3⟩ := C01_norm_reals_close cfg hP hd1 hne d hs hF hG
  exact ⟨normDoc cfg d, C01_xml_roundtrip cfg hcfg hne d hd pre post hpre hpost, h1, h2, h3⟩

/-- the whole file: time step size, gps and geo-transformation numbers keep their value, the body as above -/
theorem C01_file_reals_close (fc : FileCfg) (hP : FixOk fc.P) (hd : 1 ≤ fc.P.d) (hne : fc.classes ≠ []) (f : File) (hs : f.Strict fc)
    (hF : ∀ s, s ∈ f.realsF → ReprForm s ∧ FixCovered fc.P s) (hG : ∀ s, s ∈ f.realsG → PosCovered fc.P s) :
    normFile fc f = f.mapR (realMaps fc.P) ∧
    List.Forall₂ (CloseF fc.P) f.realsF (normFile fc f).realsF ∧ List.Forall₂ SameVal f.realsG (normFile fc f).realsG := by
  have h := C01_file_norm_close_full fc hd hne f hs
  rw [h, File.realsF_mapR, File.realsG_mapR]
  exact ⟨rfl, forall₂_map_of _ _ (fun s hm => floatToStr_close fc.P hP s (hF s hm).1 (hF s hm).2),
    forall₂_map_of _ _ (fun s hm => decimalToStr_val fc.P hP s (hG s hm))⟩

/-! ## non-vacuity -/

/-- the state-class table of the tree under test (`[cls().attributes for cls in SpecificStateClasses]`) -/
def realClasses : List (List String) :=
  [["time_step", "position", "orientation", "velocity", "acceleration", "yaw_rate", "slip_angle"],
   ["time_step", "position", "velocity", "velocity_y"],
   ["time_step", "position", "steering_angle", "velocity", "orientation"],
   ["time_step", "position", "steering_angle", "velocity", "orientation", "hitch_angle"],
   ["time_step", "position", "steering_angle", "velocity", "orientation", "slip_angle", "yaw_rate"],
   ["time_step", "position", "steering_angle", "velocity", "orientation", "slip_angle", "yaw_rate", "front_wheel_angular_speed",
    "rear_wheel_angular_speed"],
   ["time_step", "position", "steering_angle", "velocity", "orientation", "yaw_rate", "roll_angle", "roll_rate", "pitch_angle",
    "pitch_rate", "velocity_y", "position_z", "velocity_z", "roll_angle_front", "roll_rate_front", "velocity_y_front",
    "position_z_front", "velocity_z_front", "roll_angle_rear", "roll_rate_rear", "velocity_y_rear", "position_z_rear",
    "velocity_z_rear", "left_front_wheel_angular_speed", "right_front_wheel_angular_speed", "left_rear_wheel_angular_speed",
    "right_rear_wheel_angular_speed", "delta_y_f", "delta_y_r"],
   ["time_step", "steering_angle_speed", "acceleration"],
   ["time_step", "acceleration", "acceleration_y"],
   ["time_step", "lateral_position", "orientation", "curvature", "curvature_rate"],
   ["time_step", "longitudinal_position", "velocity", "acceleration", "jerk"],
   ["time_step", "position", "velocity", "orientation", "acceleration"]]

def realCfgT (P : Params) : Cfg := ⟨P, realClasses, ["274", "206", "205"], some "274"⟩

def realCfg (d : Nat) : Cfg := realCfgT ⟨d, [], []⟩

/-- precision 4 with the table entries Python produces for the repr "1e-05": `format(1e-05, ".4f")` and
    `np.format_float_positional(1e-05, trim="0")` -/
def realCfg4 : Cfg := realCfgT ⟨4, [("1e-05", "0.0000")], [("1e-05", "0.00001")]⟩

/-- the hypotheses of `C01_xml_roundtrip` hold for the real class table at every precision -/
theorem C01_realCfg_ok (d : Nat) : CfgOk (realCfg d) ∧ (realCfg d).classes ≠ [] ∧ ∀ C, C ∈ (realCfg d).classes → C.Nodup := by
  refine ⟨?_, by simp [realCfg, realCfgT, realClasses], ?_⟩
  · show ∀ C, C ∈ realClasses → ∀ a, a ∈ C → propName (xmlName a) = a
    decide
  · show ∀ C, C ∈ realClasses → C.Nodup
    decide

/-! ### a non-trivial document: one lanelet, one dynamic obstacle with a two-state trajectory, one planning problem -/

def exLanelet : Lanelet :=
  ⟨1, ⟨[⟨"0.0", "3.5", none⟩, ⟨"10.0", "3.5", none⟩], "solid"⟩, ⟨[⟨"0.0", "0.0", none⟩, ⟨"10.0", "0.0", none⟩], "dashed"⟩, [], [], none, none,
   none, ["urban"], ["car"], [], [], []⟩

def exInit (x y : String) : State :=
  ⟨[("time_step", .time (.exact 0)), ("position", .pos (.point ⟨x, y, none⟩)), ("orientation", .val (.exact "0.1")),
    ("velocity", .val (.exact "8.0")), ("acceleration", .val (.exact "0.0")), ("yaw_rate", .val (.exact "0.25")),
    ("slip_angle", .val (.exact "0.0"))]⟩

/-- a KS state with an interval velocity and an orientation whose repr is in exponent notation -/
def exKS (t : Int) (x : String) : State :=
  ⟨[("time_step", .time (.exact t)), ("position", .pos (.point ⟨x, "1.75", none⟩)), ("steering_angle", .val (.exact "0.01")),
    ("velocity", .val (.interval "7.123456" "8.0")), ("orientation", .val (.exact "1e-05"))]⟩

def exDyn : DynObs :=
  ⟨7, "car", .one (.rect "4.5" "1.8" "0.0" zeroPt), exInit "2.0" "1.75", none, .traj [exKS 1 "2.8123456", exKS 2 "3.6"], []⟩

def exGoal : State := ⟨[("time_step", .time (.interval 10 20)), ("position", .pos (.lanelets [1]))]⟩

def exPP : PlanningProblem := ⟨100, exInit "1.0" "1.75", [exGoal]⟩

def exDoc : Doc := ⟨[exLanelet], [], [], [], [], [exDyn], [], [], [exPP]⟩

theorem rv_sci : realVal "1e-05" = 1 / 100000 := by
  have h : ("1e-05" : String).toList = ['1', 'e', '-', '0', '5'] := by decide
  have d1 : ('1' : Char).toNat = 49 := by decide
  have d0 : ('0' : Char).toNat = 48 := by decide
  have d5 : ('5' : Char).toNat = 53 := by decide
  simp [realVal, h, realValChars, splitE, decValChars, unsignedVal, splitDot, natOf, intOfChars, scale10, d1, d0, d5]

theorem rv_fix : realVal "0.0000" = 0 := by
  have h : ("0.0000" : String).toList = ['0', '.', '0', '0', '0', '0'] := by decide
  have d0 : ('0' : Char).toNat = 48 := by decide
  simp [realVal, h, realValChars, splitE, decValChars, unsignedVal, splitDot, natOf, fracValR, d0]

theorem rv_pos : realVal "0.00001" = 1 / 100000 := by
  have h : ("0.00001" : String).toList = ['0', '.', '0', '0', '0', '0', '1'] := by decide
  have d0 : ('0' : Char).toNat = 48 := by decide
  have d1 : ('1' : Char).toNat = 49 := by decide
  simp [realVal, h, realValChars, splitE, decValChars, unsignedVal, splitDot, natOf, fracValR, d0, d1]

theorem fc4 (s : String) (h : s.toList.contains 'e' = false) : FixCovered realCfg4.P s := fixCovered_plain _ s h
theorem fc4_e : FixCovered realCfg4.P "1e-05" := fun _ => by decide

theorem okVal_ex (n : String) (v : Val) (goal : Bool) (hn : n ≠ "position" ∧ n ≠ "time_step" ∧ propName (xmlName n) = n ∧ xmlName n ≠ "position"
    ∧ xmlName n ≠ "time" ∧ xmlNameGoal n = xmlName n) (hv : (valC realCfg4.P).ok v) : okField realCfg4.P goal (n, .val v) :=
  ⟨hn.1, hn.2.1, hn.2.2.1, hn.2.2.2.1, hn.2.2.2.2.1, fun _ => hn.2.2.2.2.2, hv⟩

theorem okPoint_ex (x y : String) (hx : FixCovered realCfg4.P x) (hy : FixCovered realCfg4.P y) :
    okField realCfg4.P false ("position", .pos (.point ⟨x, y, none⟩)) :=
  ⟨rfl, rfl, hx, hy, fun v hv => by cases hv⟩

theorem okInit_ex (x y : String) (hx : FixCovered realCfg4.P x) (hy : FixCovered realCfg4.P y) : okState realCfg4.P false (exInit x y) := by
  refine ⟨?_, ?_⟩
  · show (["time_step", "position", "orientation", "velocity", "acceleration", "yaw_rate", "slip_angle"] : List String).Nodup
    decide
  intro f hf
  simp only [exInit, List.mem_cons, List.not_mem_nil, or_false] at hf
  rcases hf with rfl | rfl | rfl | rfl | rfl | rfl | rfl
  · exact ⟨rfl, fun _ => ⟨0, rfl⟩⟩
  · exact okPoint_ex x y hx hy
  all_goals exact okVal_ex _ _ false (by decide) (fc4 _ (by decide))

theorem okKS_ex (t : Int) (x : String) (hx : FixCovered realCfg4.P x) : okState realCfg4.P false (exKS t x) := by
  refine ⟨?_, ?_⟩
  · show (["time_step", "position", "steering_angle", "velocity", "orientation"] : List String).Nodup
    decide
  intro f hf
  simp only [exKS, List.mem_cons, List.not_mem_nil, or_false] at hf
  rcases hf with rfl | rfl | rfl | rfl | rfl
  · exact ⟨rfl, fun _ => ⟨t, rfl⟩⟩
  · exact okPoint_ex x "1.75" hx (fc4 _ (by decide))
  · exact okVal_ex _ _ false (by decide) (fc4 _ (by decide))
  · exact okVal_ex _ (.interval "7.123456" "8.0") false (by decide) ⟨fc4 _ (by decide), fc4 _ (by decide)⟩
  · exact okVal_ex _ _ false (by decide) fc4_e

theorem okGoal_ex : okState realCfg4.P true exGoal := by
  refine ⟨by decide, ?_⟩
  intro f hf
  simp only [exGoal, List.mem_cons, List.not_mem_nil, or_false] at hf
  rcases hf with rfl | rfl
  · exact ⟨rfl, fun h => by cases h⟩
  · exact ⟨rfl, rfl, by decide⟩

set_option maxRecDepth 4000 in
/-- **the hypotheses of the round-trip theorems are jointly satisfiable on a non-trivial document**: `exDoc` (a lanelet, a
    dynamic obstacle with a trajectory whose states carry an interval value and an exponent-notation repr, a planning problem
    with a lanelet goal) is `Expressible` -/
theorem C01_exDoc_expressible : Expressible realCfg4 exDoc := by
  have h1 := okInit_ex "2.0" "1.75" (fc4 _ (by decide)) (fc4 _ (by decide))
  have h2 := okInit_ex "1.0" "1.75" (fc4 _ (by decide)) (fc4 _ (by decide))
  have h3 := okKS_ex 1 "2.8123456" (fc4 _ (by decide))
  have h4 := okKS_ex 2 "3.6" (fc4 _ (by decide))
  have h5 := okGoal_ex
  simp only [Expressible, docC, laneletE, ECodec.pmap, ECodec.attrKids, laneletKidsC, Codec.pair, Codec.child, boundE, ECodec.ofKids, Codec.iso,
    Codec.many, Codec.optChild, Codec.optional, refsC, adjC, typesC, usersC, stopLineE, refE, ECodec.attr1, ECodec.ofText, Prim.int, Prim.enum,
    pt3E, ptE, ptKidsC, Prim.dec, Prim.decPlain, laneletToTuple, exLanelet, exDoc, exDyn, exPP, dynObsE, planningProblemE, signE, lightE,
    intersectionE, staticObsE, envObsE, phantomObsE, typeC, shapeC, Codec.pmap, Codec.manyOf, okShape1, rectE, orientC, centerC,
    initialStateE, goalStateE, stateE, predC, trajE, occSetE, seriesC, signalE, zeroPt]
  simp +decide [FixCovered, PosCovered, h1, h2, h3, h4, h5]

theorem strictInit_ex (x y : String) : (exInit x y).StrictInitial realCfg4 := by
  refine ⟨?_, ?_, ?_⟩
  · show (["time_step", "position", "orientation", "velocity", "acceleration", "yaw_rate", "slip_angle"] : List String).Nodup
    decide
  · intro f hf
    simp only [exInit, List.mem_cons, List.not_mem_nil, or_false] at hf
    rcases hf with rfl | rfl | rfl | rfl | rfl | rfl | rfl <;> trivial
  · intro C Cs h
    cases h
    rfl

theorem strictKS_ex (t : Int) (x : String) : (exKS t x).Strict realCfg4 := by
  refine ⟨?_, ?_, ?_⟩
  · show (["time_step", "position", "steering_angle", "velocity", "orientation"] : List String).Nodup
    decide
  · intro f hf
    simp only [exKS, List.mem_cons, List.not_mem_nil, or_false] at hf
    rcases hf with rfl | rfl | rfl | rfl | rfl <;> trivial
  · intro C hC
    have : classOf realCfg4.classes (exKS t x).fields = some ["time_step", "position", "steering_angle", "velocity", "orientation"] := by
      rfl
    rw [this] at hC
    cases hC
    rfl

/-- … and `Strict` -/
theorem C01_exDoc_strict : exDoc.Strict realCfg4 := by
  constructor <;> intro x hx <;> simp only [exDoc, List.mem_singleton, List.not_mem_nil] at hx
  · subst hx
    refine ⟨?_, ?_, by decide, ?_⟩
    · intro a h; simp [exLanelet] at h
    · intro a h; simp [exLanelet] at h
    · intro s h; simp [exLanelet] at h
  · subst hx
    refine ⟨⟨rfl, fun _ => ⟨fun _ => rfl, fun _ => rfl⟩⟩, strictInit_ex _ _, ?_⟩
    intro s hs
    simp only [List.mem_cons, List.not_mem_nil, or_false] at hs
    rcases hs with rfl | rfl <;> exact strictKS_ex _ _
  · subst hx
    refine ⟨strictInit_ex _ _, ?_⟩
    intro g hg
    simp only [exPP, List.mem_singleton] at hg
    subst hg
    refine ⟨by decide, ?_, ?_⟩
    · intro f hf
      simp only [exGoal, List.mem_cons, List.not_mem_nil, or_false] at hf
      rcases hf with rfl | rfl <;> trivial
    · intro C hC
      have : classOf realCfg4.classes exGoal.fields = none := by rfl
      rw [this] at hC
      cases hC

/-- the table entries of `realCfg4` meet the contract `FixOk`: "0.0000" is a plain decimal within 10^-4 of 1e-05,
    "0.00001" is a plain decimal of the same value -/
theorem C01_exCfg_fixOk : FixOk realCfg4.P := by
  constructor
  · intro k v h
    have hk : k = "1e-05" ∧ v = "0.0000" := by
      simp only [realCfg4, realCfgT, lookupFix] at h
      split at h
      · next hk => exact ⟨(show "1e-05" = k by simpa using hk).symm, by cases h; rfl⟩
      · cases h
    obtain ⟨rfl, rfl⟩ := hk
    refine ⟨isPlainB_sound _ (by decide), ?_⟩
    rw [rv_fix, rv_sci]
    norm_num [realCfg4, realCfgT]
  · intro k v h
    have hk : k = "1e-05" ∧ v = "0.00001" := by
      simp only [realCfg4, realCfgT, lookupFix] at h
      split at h
      · next hk => exact ⟨(show "1e-05" = k by simpa using hk).symm, by cases h; rfl⟩
      · cases h
    obtain ⟨rfl, rfl⟩ := hk
    exact ⟨isPlainB_sound _ (by decide), by rw [rv_pos, rv_sci]⟩

/-- every real leaf of `exDoc` is a float repr covered by the tables (among them "1e-05" and "7.123456") -/
theorem C01_exDoc_reals : (∀ s, s ∈ exDoc.realsF → ReprForm s ∧ FixCovered realCfg4.P s) ∧ (∀ s, s ∈ exDoc.realsG → PosCovered realCfg4.P s) := by
  have hF : exDoc.realsF.all (fun s => reprFormB s && (!s.toList.contains 'e' || (lookupFix s realCfg4.P.fix).isSome)) = true := by decide
  have hG : exDoc.realsG.all (fun s => !(s.toList.contains 'e' || s.toList.contains 'E') || (lookupFix s realCfg4.P.pos).isSome) = true := by decide
  constructor
  · intro s hs
    have := List.all_eq_true.1 hF s hs
    simp only [Bool.and_eq_true, Bool.or_eq_true, Bool.not_eq_true'] at this
    refine ⟨reprFormB_sound s this.1, fun he => ?_⟩
    rcases this.2 with h | h
    · rw [h] at he; cases he
    · exact h
  · intro s hs
    have := List.all_eq_true.1 hG s hs
    simp only [Bool.or_eq_true, Bool.not_eq_true'] at this
    intro he
    rcases this with h | h
    · rw [h] at he; cases he
    · exact h

/-- all hypotheses of `C01_xml_roundtrip_close` hold together for `exDoc`: its conclusion is not vacuous -/
theorem C01_exDoc_roundtrip_close :
    ∃ d', decodeDoc realCfg4 (encodeDoc realCfg4 exDoc) = some d' ∧ d' = exDoc.mapR (realMaps realCfg4.P) ∧
      List.Forall₂ (CloseF realCfg4.P) exDoc.realsF d'.realsF ∧ List.Forall₂ SameVal exDoc.realsG d'.realsG := by
  have hcfg : CfgOk realCfg4 ∧ realCfg4.classes ≠ [] := ⟨(C01_realCfg_ok 4).1, (C01_realCfg_ok 4).2.1⟩
  have := C01_xml_roundtrip_close realCfg4 hcfg.1 hcfg.2 C01_exCfg_fixOk (by decide) exDoc C01_exDoc_expressible C01_exDoc_strict
    C01_exDoc_reals.1 C01_exDoc_reals.2 [] [] (fun _ h => by cases h) (fun _ h => by cases h)
  simpa using this

/-- **witness of the initial-state attribute loss**: an initial state that also carries `steering_angle` (what
    `PlanningProblem(…, STState(…), …)` hands to the writer) reads back without it.  Replayed on the real code by the harness
    (`witness_initial_extra`); outside the property's quantifier, see `C01_initial_extra_dropped`. -/
theorem C01_witness_initial_extra_dropped :
    let s : State := ⟨(exInit "1.0" "1.75").fields ++ [("steering_angle", .val (.exact "0.25"))]⟩
    (lookupField "steering_angle" s.fields).isSome = true ∧ lookupField "steering_angle" (normInitial realCfg4 s).fields = none := by
  intro s
  exact ⟨rfl, C01_initial_extra_dropped realCfg4 _ _ rfl s "steering_angle" (by decide)⟩

example : truncChars 4 "-12.3456789".toList = "-12.3456".toList := by decide

/-- the two exact values: "7.123456" is written "7.1234" at d = 4 -/
example : floatToStr realCfg4.P "7.123456" = "7.1234" ∧ floatToStr realCfg4.P "1e-05" = "0.0000" ∧ decimalToStr realCfg4.P "1e-05" = "0.00001" := by
  decide

/-- a document with a lanelet (adjacent reference, stop line with points), a traffic light and an environment obstacle with a
    shape group meets `Doc.Strict` -/
example : Doc.Strict (realCfg 4)
    ⟨[⟨1, ⟨[⟨"0.0", "3.5", some "0.25"⟩, ⟨"10.0", "3.5", some "0.5"⟩], "solid"⟩, ⟨[⟨"0.0", "0.0", none⟩, ⟨"10.0", "0.0", none⟩], "dashed"⟩,
        [], [2], some ⟨2, true⟩, none,
        some ⟨some (⟨"10.0", "3.5", none⟩, ⟨"10.0", "0.0", none⟩), "solid", [], [7]⟩, ["urban"], ["car"], [], [], [7]⟩],
     [], [⟨7, some ⟨[⟨30, "red"⟩, ⟨5, "green"⟩], 0⟩, some ⟨"9.99", "-0.96", none⟩, "leftRight", false⟩], [], [],
     [],
     [], [⟨11, "building", .group [.circ "1.0" ⟨"1.0", "2.0", none⟩, .poly []]⟩], []⟩ := by
  constructor <;> intro x hx <;> simp only [List.mem_cons, List.not_mem_nil, or_false] at hx
  · subst hx
    refine ⟨?_, ?_, by decide, ?_⟩
    · intro a ha; cases ha; decide
    · intro a ha; cases ha
    · intro s hs; cases hs; exact ⟨_, _, rfl, rfl, rfl⟩
  · subst hx
    refine ⟨by decide, ?_, ?_⟩
    · intro p hp; cases hp; rfl
    · intro c hc; cases hc; decide
  · subst hx
    refine ⟨by decide, ?_⟩
    intro s hs
    simp only [List.mem_cons, List.not_mem_nil, or_false] at hs
    rcases hs with rfl | rfl
    · exact ⟨rfl, fun h => by cases h⟩
    · intro v hv; cases hv

/-- an off-centre, rotated rectangle and a centred one ("0.0") are strict shapes of a dynamic obstacle -/
example : (Shape.one (.rect "4.5" "1.8" "-1.125" ⟨"35.6455", "2.125", none⟩)).Strict true ∧
    (Shape.one (.rect "4.5" "1.8" "0.0" ⟨"0.0", "0.0", none⟩)).Strict true := by
  constructor
  · exact ⟨rfl, fun _ => ⟨by decide, fun h => absurd h (by decide)⟩⟩
  · exact ⟨rfl, fun _ => ⟨fun _ => rfl, fun _ => rfl⟩⟩

/-- the file configuration of the tree under test, cut down to two countries -/
def realFileCfg (d : Nat) : FileCfg :=
  ⟨⟨d, [], []⟩, realClasses, ["DEU", "USA", "ZAM"], [("DEU", (["274", "206"], some "274")), ("ZAM", (["274", "206"], some "274")),
    ("USA", (["R2-1"], some "R2-1"))], "2026-09-29"⟩

/-- a file with a location (geo transformation, environment at 07:05), two tags in enumeration order and an empty body meets
    the hypotheses of `C01_xml_roundtrip_whole_file` and `C01_file_norm_close_full` -/
example : let f : File := ⟨⟨"0.1", some "A. Author", some "TUM", some "handcrafted", "DEU_Muc-3_1_T-1"⟩,
      some ⟨2867714, "48.262333", "11.668775", some ⟨"EPSG:4326", some ⟨"1.5", "-2.0", "0.01", "1.0"⟩⟩,
        some ⟨7, 5, "morning", "fog", "wet"⟩⟩, ["urban", "intersection"], ⟨[], [], [], [], [], [], [], [], []⟩⟩
    okFile (realFileCfg 4) f ∧ f.Strict (realFileCfg 4) := by
  intro f
  constructor
  · refine ⟨?_, trivial, ?_⟩
    · intro v hv
      cases hv
      refine ⟨trivial, posCovered_plain _ _ (by decide), posCovered_plain _ _ (by decide), ?_, ?_⟩
      · intro g hg
        cases hg
        exact ⟨⟨trivial, fun a ha => by
          cases ha
          exact ⟨posCovered_plain _ _ (by decide), posCovered_plain _ _ (by decide), posCovered_plain _ _ (by decide),
            posCovered_plain _ _ (by decide)⟩⟩, rfl⟩
      · intro e he
        cases he
        refine ⟨⟨by decide, by decide⟩, ?_, ?_, ?_⟩
        · show timesOfDay.contains "morning" = true; decide
        · show weathers.contains "fog" = true; decide
        · show undergrounds.contains "wet" = true; decide
    · show (docC _).ok (⟨[], [], [], [], [], [], [], [], []⟩ : Doc)
      simp [docC, Codec.iso, Codec.pair, Codec.many]
  · refine ⟨rfl, by decide, ?_⟩
    constructor <;> intro x hx <;> cases hx

end CR.X
