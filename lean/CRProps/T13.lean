/-
  T13 — translator tie for C13: every definition harness/translate/src_c13.py regenerates from the CURRENT source of
  commonroad/scenario/scenario.py (class ScenarioID), commonroad/common/solution.py and commonroad/__init__.py
  (module Gen.SrcC13, rebuilt on every run) equals the hand-written model CRModel/BenchId.lean the C13 theorems are
  about — for all arguments.  A source edit that changes what one of these functions computes breaks the
  corresponding `tie_*` theorem (a broken obligation, which starts the failing-input search).

  Finite tables (enum members, compared / hashed attribute lists, constants, signature defaults, regex group names)
  are compared completely by `decide` / `rfl`: a finite table checked completely is a proof for that table.
-/
import Gen.SrcC13
import CRProofs.BenchId
import CRProofs.BenchIdGrammar
import CRProofs.BenchIdValid
set_option linter.unusedSimpArgs false
set_option linter.unusedVariables false
namespace CR.BenchId
open CR.PyC13

/-! ## constants, tables -/

theorem tie_scenario_version : Gen.SCENARIO_VERSION = defaultVersion := rfl

theorem tie_supported_versions : Gen.SUPPORTED_COMMONROAD_VERSIONS = supported := rfl

/-- the signature defaults of `ScenarioID.__init__` are the model's `Kw.fill` of "nothing given" -/
theorem tie_init_defaults : Gen.ScenarioID_init_defaults = rawToArgs ({} : Kw).fill := by decide

/-- Python attribute names of the eight fields of the model's `Id`, in field order -/
def idAttrs : List String :=
  ["cooperative", "country_id", "map_name", "map_id", "configuration_id", "obstacle_behavior", "prediction_id", "scenario_version"]

/-- `__eq__` compares exactly the eight attributes the model's `Id` consists of, `__hash__` hashes the same ones. -/
theorem tie_eq_hash_attrs : Gen.ScenarioID_eq_attrs = idAttrs ∧ Gen.ScenarioID_hash_attrs = Gen.ScenarioID_eq_attrs := by decide

theorem tie_vehicle_model_enum : Gen.VehicleModel_members.map Prod.fst = VModel.all.map VModel.name := by decide
theorem tie_vehicle_type_enum : Gen.VehicleType_members.map Prod.snd = VType.all.map (fun t => (t.value : Int)) := by decide
theorem tie_cost_function_enum : Gen.CostFunction_members.map Prod.fst = Cost.all.map Cost.name := by decide
theorem tie_supported_cost_functions :
    Gen.SupportedCostFunctions_members = VModel.all.map (fun m => (m.name, (supportedCosts m).map Cost.name)) := by decide

/-! ## character classes and the regex text -/

theorem char_eq_iff (c d : Char) : c = d ↔ c.val.toNat = d.val.toNat := by
  constructor
  · intro h; rw [h]
  · intro h; exact Char.ext (UInt32.toNat_inj.1 h)
theorem cls_upper : inClass [('A', 'Z')] = Char.isUpper := by
  funext c; simp [inClass, Char.isUpper]
theorem cls_alnum : inClass [('a', 'z'), ('A', 'Z'), ('0', '9')] = Char.isAlphanum := by
  funext c
  simp [inClass, Char.isAlphanum, Char.isAlpha, Char.isUpper, Char.isLower, Char.isDigit, Bool.or_comm, Bool.or_assoc]
theorem cls_digit : inClass [('0', '9')] = Char.isDigit := by
  funext c; simp [inClass, Char.isDigit]
theorem cls_digit19 : inClass [('1', '9')] = isDigit19 := by
  funext c
  rw [Bool.eq_iff_iff]
  simp [inClass, isDigit19, Char.isDigit, UInt32.le_iff_toNat_le, char_eq_iff]
  omega
theorem cls_stpi : inClass [('S', 'S'), ('T', 'T'), ('P', 'P'), ('I', 'I')] = isSTPI := by
  funext c
  rw [Bool.eq_iff_iff]
  simp [inClass, isSTPI, UInt32.le_iff_toNat_le, char_eq_iff]
  omega

theorem matches_seq_iff {a b : RE} {s : Str} :
    Matches (.seq a b) s ↔ ∃ s1 s2, s = s1 ++ s2 ∧ Matches a s1 ∧ Matches b s2 := by
  constructor
  · intro h
    cases h with
    | seq h1 h2 => exact ⟨_, _, rfl, h1, h2⟩
  · rintro ⟨s1, s2, rfl, h1, h2⟩
    exact .seq h1 h2

theorem seq_congr_right {a b b' : RE} (h : ∀ s, Matches b s ↔ Matches b' s) (s : Str) :
    Matches (.seq a b) s ↔ Matches (.seq a b') s := by
  simp only [matches_seq_iff, h]

theorem seq_assoc3 (a b c r : RE) (s : Str) :
    Matches (.seq (.seq a (.seq b c)) r) s ↔ Matches (.seq a (.seq b (.seq c r))) s := by
  simp only [matches_seq_iff]
  constructor
  · rintro ⟨s1, s2, rfl, ⟨t1, t2, rfl, h1, u1, u2, rfl, h2, h3⟩, h4⟩
    exact ⟨t1, u1 ++ (u2 ++ s2), by simp [List.append_assoc], h1, u1, u2 ++ s2, rfl, h2, u2, s2, rfl, h3, h4⟩
  · rintro ⟨t1, x, rfl, h1, u1, y, rfl, h2, u2, s2, rfl, h3, h4⟩
    exact ⟨t1 ++ (u1 ++ u2), s2, by simp [List.append_assoc], ⟨t1, u1 ++ u2, rfl, h1, u1, u2, rfl, h2, h3⟩, h4⟩

/-- the id grammar with the three country letters grouped as the pattern text groups them: `([A-Z]{3})` -/
def idRE' : RE :=
  .seq (RE.opt (.seq (.chr 'C') (.chr '-')))
  (.seq (.seq (.cls Char.isUpper) (.seq (.cls Char.isUpper) (.cls Char.isUpper))) (.seq (.chr '_')
  (.seq (RE.plus (.cls Char.isAlphanum)) (.seq (.chr '-') (.seq numRE
  (RE.opt (.seq (.chr '_') (.seq numRE
    (RE.opt (.seq (.chr '_') (.seq (.cls isSTPI) (RE.plus (.seq (.chr '-') numRE)))))))))))))

theorem tie_pattern_shape : Gen.ScenarioID_benchmark_id_pattern.toRE = idRE' := by
  simp only [Gen.ScenarioID_benchmark_id_pattern, RX.toRE, cls_upper, cls_alnum, cls_digit, cls_digit19, cls_stpi]
  rfl

/-- the regex text of `ScenarioID.benchmark_id_pattern` denotes exactly the model's id grammar `idRE` -/
theorem tie_pattern (s : Str) : Matches Gen.ScenarioID_benchmark_id_pattern.toRE s ↔ Matches idRE s := by
  rw [tie_pattern_shape]
  exact seq_congr_right (fun s => seq_assoc3 _ _ _ _ s) s

/-- … hence the deterministic matcher `matchId` the translated `from_benchmark_id` calls accepts exactly the strings the
    pattern text matches (`fullmatch`) -/
theorem tie_pattern_matchId (s : Str) : (matchId s).isSome = true ↔ Matches Gen.ScenarioID_benchmark_id_pattern.toRE s := by
  rw [tie_pattern]
  constructor
  · intro h
    cases hg : matchId s with
    | none => simp [hg] at h
    | some g => exact matchId_sound hg
  · intro h
    obtain ⟨g, hg⟩ := matchId_complete h
    simp [hg]

/-- the named groups of the pattern text are the fields of the model's `Groups`, in order -/
theorem tie_pattern_groups : Gen.ScenarioID_benchmark_id_pattern.names =
    ["cooperative", "country_id", "map_name", "map_id", "configuration_id", "prediction_type", "prediction_ids"] := by decide

/-! ## ScenarioID: setters, __str__, __init__, from_benchmark_id -/

theorem tie_set_map_name (s : Str) : Gen.ScenarioID_set_map_name s = s.filter Char.isAlphanum := by
  simp [Gen.ScenarioID_set_map_name, delClass, Id.run, pure, cls_alnum]

theorem tie_set_country_id (cs : List Str) (c : Option Str) : Gen.ScenarioID_set_country_id cs c = setCountry cs c := by
  unfold Gen.ScenarioID_set_country_id setCountry
  cases c with
  | none => rfl
  | some c => 
    simp only [ZAM]
    -- robust against the order of the two tests
    by_cases h1 : c ∈ cs <;> by_cases h2 : c = ['Z', 'A', 'M'] <;> simp [h1, h2] <;> rfl

theorem joinS_single (c : Char) : ∀ l : List Str, joinS [c] l = join c l
  | [] => rfl
  | [a] => rfl
  | a :: b :: t => by simp [joinS, join, joinS_single c (b :: t)]

theorem pyStr_none : Sc.pyStr .none = ['N', 'o', 'n', 'e'] := rfl
theorem pyStr_int (n : Int) : Sc.pyStr (.int n) = intRepr n := rfl
theorem pyStr_str (s : Str) : Sc.pyStr (.str s) = s := rfl
theorem map_pyStr_int (l : List Int) : (l.map Sc.int).map Sc.pyStr = l.map intRepr := by
  simp [List.map_map, Function.comp_def, pyStr_int]

theorem tie_str (i : Id) : Gen.ScenarioID_str i = .ok (print i) := by
  unfold Gen.ScenarioID_str print
  obtain ⟨coop, country, mapName, mapId, config, beh, pred, version⟩ := i
  cases beh with
  | none =>
    cases config <;> cases coop <;>
      simp [joinS_single, join, Sc.ofOptInt, Sc.isNone, pyStr_none, pyStr_int, pyStr_str, pure, Except.pure]
  | some b =>
    cases pred <;> cases config <;> cases coop <;>
      simp [joinS_single, join, Sc.ofOptInt, Sc.isNone, pyStr_none, pyStr_int, pyStr_str, map_pyStr_int, pure, Except.pure, predToPV, PV.isList, PV.list1, PV.iter,
        bind, Except.bind, Pred.strs, Function.comp_def]

theorem allM_gt0 (f : Sc → Res Bool) (hf : ∀ n : Int, f (.int n) = .ok (decide (n > 0))) :
    ∀ l : List Int, allM f (l.map Sc.int) = .ok (l.all fun n => decide (0 < n))
  | [] => rfl
  | a :: t => by
    simp only [List.map_cons, allM, hf, List.all_cons]
    by_cases h : a > 0
    · simp [h, allM_gt0 f hf t]
    · simp [h]

theorem tie_init (cs : List Str) (r : Raw) :
    Gen.ScenarioID_init cs r.coop r.country r.mapName r.mapId r.config r.beh (predToPV r.pred) r.version
      = (mk cs r).map idToS := by
  obtain ⟨coop, country, mapName, mapId, config, beh, pred, version⟩ := r
  unfold Gen.ScenarioID_init mk
  simp only [tie_set_country_id, tie_set_map_name, Gen.SUPPORTED_COMMONROAD_VERSIONS, supported]
  by_cases hv : version ∈ supported
  · have hv2 : version = ['2', '0', '1', '8', 'b'] ∨ version = ['2', '0', '2', '0', 'a'] := by simpa [supported] using hv
    cases hc : setCountry cs country with
    | error e =>
      simp [CR.Py.assert, hv2, bind, Except.bind, Except.map, pure, Except.pure]
    | ok c =>
      have hall := allM_gt0 (fun p => p.gt 0) (fun _ => rfl)
      have hall1 : ∀ n : Int, allM (fun p => p.gt 0) [Sc.int n] = .ok (decide (0 < n)) := fun n => by simpa using hall [n]
      by_cases hm : 0 < mapId <;>
      rcases config with _ | k <;> rcases beh with _ | b <;> rcases pred with _ | n | l <;>
      (try by_cases hb : b = ['S'] ∨ b = ['T'] ∨ b = ['P'] ∨ b = ['I']) <;>
      (try by_cases hn : n = 0) <;>
      (try by_cases hn2 : 0 < n) <;>
      (try by_cases hk : k = 0) <;>
      (try by_cases hk2 : 0 < k) <;>
      (try by_cases hl : l = []) <;>
      (try by_cases hp : (l.all fun n => decide (0 < n)) = true) <;>
      simp [CR.Py.assert, hv2, bind, Except.bind, Except.map, pure, Except.pure, predToPV, PV.isNone, Sc.isNone, PV.isList, PV.list1,
        PV.iter, PV.orElse, PV.truthy, Sc.truthy, optIntOr, optGt, cfgOrOne, Pred.orOne, Pred.allPos, behOk, behaviours, idToS,
        hall, hall1, *]
  · simp [CR.Py.assert, supported] at hv ⊢
    simp [hv, bind, Except.bind, Except.map]

theorem tie_init' (cs : List Str) (coop : Bool) (country : Option Str) (mapName : Str) (mapId : Int) (config : Option Int)
    (beh : Option Str) (pred : Pred) (version : Str) (pv : PV) (h : pv = predToPV pred) :
    Gen.ScenarioID_init cs coop country mapName mapId config beh pv version
      = (mk cs ⟨coop, country, mapName, mapId, config, beh, pred, version⟩).map idToS := by
  subst h; exact tie_init cs ⟨coop, country, mapName, mapId, config, beh, pred, version⟩

theorem tie_from_benchmark_id (cs : List Str) (s v : Str) :
    Gen.ScenarioID_from_benchmark_id cs s v = (parse cs s v).map idToS := by
  unfold Gen.ScenarioID_from_benchmark_id parse
  cases hm : matchId s with
  | none =>
    exact tie_init cs ⟨false, some ZAM, s, 1, none, none, .none, defaultVersion⟩
  | some g =>
    obtain ⟨coop, country, mapName, mapId, config, predType, predIds⟩ := g
    have hc : ((if coop = true then some (['C', '-'] : Str) else none).isSome) = coop := by cases coop <;> rfl
    cases predIds with
    | none =>
      simp only [hc]
      cases config <;>
      exact tie_init cs ⟨coop, some country, mapName, (digitsToNat mapId : Int), _,
        predType.map fun t => [t], .none, v⟩
    | some raw =>
      simp only [hc, predOfGroup, split, List.drop_one]
      generalize (splitOn '-' raw).tail = L
      rcases L with _ | ⟨a, _ | ⟨b, t⟩⟩ <;> cases config
      all_goals simp [intOfDigits, Py.getItem, pyGet?, bind, Except.bind, pure, Except.pure]
      all_goals try rw [if_neg (by omega)]
      all_goals (apply tie_init'; simp [predToPV, List.map_map])

/-! ## solution benchmark ids -/

theorem tie_vehicle_id (m : VModel) (t : VType) : Gen.PlanningProblemSolution_vehicle_id m t = vehicleId (m, t) := by
  simp [Gen.PlanningProblemSolution_vehicle_id, vehicleId, intRepr_ofNat, Id.run, pure]

theorem tie_cost_id (c : Cost) : Gen.PlanningProblemSolution_cost_id c = c.name := rfl

theorem tie_vehicle_ids (pps : List Pps) :
    Gen.Solution_vehicle_ids pps = (pps.map fun p => (p.model, p.vtype)).map vehicleId := by
  simp [Gen.Solution_vehicle_ids, tie_vehicle_id, Id.run, pure, List.map_map, Function.comp_def]

theorem tie_cost_ids (pps : List Pps) : Gen.Solution_cost_ids pps = (pps.map Pps.cost).map Cost.name := by
  simp [Gen.Solution_cost_ids, tie_cost_id, Id.run, pure, List.map_map, Function.comp_def]

theorem bracket_eq (l : List Str) :
    (if decide (((l.length : Nat) : Int) = (1 : Int)) then (do return (← CR.Py.getItem l (0 : Int)))
      else (pure ((['['] : Str) ++ (joinS ([','] : Str) l) ++ ([']'] : Str))) : Res Str) = .ok (bracket l) := by
  rcases l with _ | ⟨a, _ | ⟨b, t⟩⟩
  · simp [bracket, joinS_single, pure, Except.pure]
  · simp [bracket, Py.getItem, pyGet?, bind, Except.bind, pure, Except.pure]
  · have : ¬ ((t.length : Int) + 1 + 1 = 1) := by omega
    simp [bracket, joinS_single, pure, Except.pure, this]

theorem tie_benchmark_id (pps : List Pps) (i : Id) :
    Gen.Solution_benchmark_id pps i = .ok (benchmarkId (pps.map fun p => (p.model, p.vtype)) (pps.map Pps.cost) i) := by
  unfold Gen.Solution_benchmark_id benchmarkId
  simp only [bracket_eq, tie_str, tie_vehicle_ids, tie_cost_ids]
  simp [bind, Except.bind, pure, Except.pure]

/-- `Solution.benchmark_id` of a Solution that was given the list `l` (the dict built by the setter is the model's `solutionPps`) -/
theorem tie_solution_benchmark_id (l : List Pps) (i : Id) :
    Gen.Solution_benchmark_id (solutionPps l) i = .ok (solutionBenchmarkId l i) := tie_benchmark_id _ i

theorem delClass_brackets (s : Str) : delClass false [('[', '['), (']', ']')] s = s.filter notBracket := by
  unfold delClass
  congr 1
  funext c
  rw [Bool.eq_iff_iff]
  simp [inClass, notBracket, UInt32.le_iff_toNat_le, char_eq_iff]
  omega

def parseSegs (cs : List Str) (L : List Str) : Res (List Str × List Str × Id) :=
  match L with
  | [a, b, c, d] =>
    match parse cs c d with
    | .error e => .error e
    | .ok i => .ok (splitOn ',' (a.filter notBracket), splitOn ',' (b.filter notBracket), i)
  | _ => .error .other

theorem parseBenchmarkId_eq (cs : List Str) (s : Str) :
    parseBenchmarkId cs s = parseSegs cs (splitOn ':' (s.filter fun c => c != ' ')) := rfl

theorem tie_parse_benchmark_id (cs : List Str) (s : Str) :
    Gen.Reader_parse_benchmark_id cs s = (parseBenchmarkId cs s).map (fun x => (x.1, x.2.1, idToS x.2.2)) := by
  have e : splitOn ':' (s.filter fun c => c != ' ') = split (removeChar ' ' s) ':' := rfl
  rw [parseBenchmarkId_eq, e]
  unfold Gen.Reader_parse_benchmark_id
  try dsimp only []       -- local names for intermediate strings (`let`) are unfolded first
  generalize split (removeChar ' ' s) ':' = L
  simp only [split, tie_from_benchmark_id, delClass_brackets]
  rcases L with _ | ⟨a, _ | ⟨b, _ | ⟨c, _ | ⟨d, _ | ⟨e, t⟩⟩⟩⟩⟩
  all_goals simp [parseSegs, Py.getItem, pyGet?, bind, Except.bind, pure, Except.pure, Except.map, throw, throwThe, MonadExceptOf.throw]
  all_goals try omega
  cases parse cs c d <;> rfl

theorem contains_map_find {α β : Type} [BEq β] [LawfulBEq β] [DecidableEq β] (all : List α) (f : α → β) (x : β) :
    ((all.map f).contains x) = (all.find? (fun m => decide (f m = x))).isSome := by
  induction all with
  | nil => rfl
  | cons a t ih =>
    rw [List.map_cons, List.contains_cons, List.find?_cons, ih]
    by_cases h : f a = x
    · simp [h]
    · have h' : ¬ x = f a := fun e => h e.symm
      simp [h, h']

theorem getItem_last (v : Str) (c : Char) (h : v.getLast? = some c) : CR.Py.getItem v (-1) = .ok c := by
  have hne : v ≠ [] := by intro e; subst e; simp at h
  have hl : 0 < v.length := List.length_pos_iff.2 hne
  have : pyGet? v (-1) = some c := by
    simp [pyGet?]
    rw [List.getLast?_eq_getElem?] at h
    constructor
    · omega
    · exact h
  simp [CR.Py.getItem, this]

theorem pyInt_char (c : Char) : pyInt [c] = if c.isDigit then .ok (digitVal c : Int) else .error .value := by
  by_cases h : c.isDigit <;> simp [pyInt, h, digitsToNat]

theorem find_value_cast (n : Nat) :
    VType.all.find? (fun m => decide (((m.value : Nat) : Int) = (n : Int))) = VType.all.find? (fun t => decide (t.value = n)) := by
  congr 1; funext m; simp [Int.natCast_inj]

theorem tie_parse_vehicle_id (v : Str) : Gen.Reader_parse_vehicle_id v = parseVehicleId v := by
  unfold Gen.Reader_parse_vehicle_id parseVehicleId
  simp only [contains_map_find, enumByName, enumByValue]
  by_cases hlen : v.length ≠ 3 ∧ v.length ≠ 4
  · have h3 : ¬ ((v.length : Int) = 3) := by omega
    have h4 : ¬ ((v.length : Int) = 4) := by omega
    simp [hlen, h3, h4, throw, throwThe, MonadExceptOf.throw]
  · have h34 : ((v.length : Int) = 3) ∨ ((v.length : Int) = 4) := by omega
    have hne : v ≠ [] := by intro e; subst e; simp at h34
    obtain ⟨c, hc⟩ : ∃ c, v.getLast? = some c := by
      cases h : v.getLast? with
      | none => simp [List.getLast?_eq_none_iff] at h; exact absurd h hne
      | some c => exact ⟨c, rfl⟩
    simp only [hlen, getItem_last v c hc, pyInt_char, hc]
    -- the guard on the length, however it is spelled (`not len == 3 and not len == 4`, `len not in (3, 4)`, …), is false here
    rcases h34 with hI | hI <;> simp only [hI] <;>
    · cases hm : VModel.all.find? (fun m => decide (m.name = v.dropLast)) with
      | none => simp [throw, throwThe, MonadExceptOf.throw]
      | some m =>
        by_cases hd : c.isDigit = true
        · simp only [hd, bind, Except.bind, if_true, find_value_cast]
          cases ht : VType.all.find? (fun t => decide (t.value = digitVal c)) with
          | none => simp [throw, throwThe, MonadExceptOf.throw]
          | some t => simp [pure, Except.pure]
        · simp [hd, bind, Except.bind]

/-- the id part of `_parse_planning_problem_solution` (before the trajectory node is read) is one step of the model's
    `readPps`: `parseVehicleId`, then `parseCostId` -/
theorem tie_parse_pps_ids (v c : Str) :
    Gen.Reader_parse_pps_ids v c () =
      (match parseVehicleId v with
       | .error e => .error e
       | .ok (m, t) =>
         match parseCostId c with
         | .error e => .error e
         | .ok k => .ok (m, t, k)) := by
  unfold Gen.Reader_parse_pps_ids parseCostId
  simp only [tie_parse_vehicle_id, contains_map_find, enumByName]
  cases parseVehicleId v with
  | error e => rfl
  | ok mt =>
    obtain ⟨m, t⟩ := mt
    cases hk : Cost.all.find? (fun k => decide (k.name = c)) with
    | none => simp [bind, Except.bind, throw, throwThe, MonadExceptOf.throw]
    | some k => simp [bind, Except.bind, pure, Except.pure]

/-! ## the property on the generated definitions -/

/-- C13 stated on the GENERATED definitions: for valid constructor arguments the translated constructor builds `norm r`,
    the translated `__str__` prints it, and the translated `from_benchmark_id` turns the print back into the same
    attribute values. -/
theorem T13_generated_roundtrip {cs : List Str} (hcs : CountriesOk cs) {r : Raw} (hv : Valid cs r) :
    Gen.ScenarioID_init cs r.coop r.country r.mapName r.mapId r.config r.beh (predToPV r.pred) r.version = .ok (idToS (norm r)) ∧
    (Gen.ScenarioID_str (norm r) >>= fun s => Gen.ScenarioID_from_benchmark_id cs s r.version) = .ok (idToS (norm r)) := by
  constructor
  · rw [tie_init, mk_valid hv]; rfl
  · rw [tie_str]
    show Gen.ScenarioID_from_benchmark_id cs (print (norm r)) r.version = _
    rw [tie_from_benchmark_id, parse_print_valid hcs hv]; rfl

/-- … and for solutions: the translated `Solution.benchmark_id` followed by the translated `_parse_benchmark_id` and
    `_parse_vehicle_id` gives back the vehicle models / types, the cost function names and the scenario id. -/
theorem T13_generated_solution_roundtrip {cs : List Str} (hcs : CountriesOk cs) {r : Raw} (hv : Valid cs r)
    (pps : List Pps) (hne : pps ≠ []) :
    (Gen.Solution_benchmark_id pps (norm r) >>= Gen.Reader_parse_benchmark_id cs)
      = .ok (Gen.Solution_vehicle_ids pps, Gen.Solution_cost_ids pps, idToS (norm r)) ∧
    ∀ p ∈ pps, Gen.Reader_parse_vehicle_id (Gen.PlanningProblemSolution_vehicle_id p.model p.vtype) = .ok (p.model, p.vtype) := by
  constructor
  · rw [tie_benchmark_id]
    show Gen.Reader_parse_benchmark_id cs _ = _
    rw [tie_parse_benchmark_id, parseBenchmarkId_benchmarkId hcs hv _ _ (by simpa using hne) (by simpa using hne),
      tie_vehicle_ids, tie_cost_ids]
    rfl
  · intro p _
    rw [tie_parse_vehicle_id, tie_vehicle_id, parseVehicleId_vehicleId]

end CR.BenchId
