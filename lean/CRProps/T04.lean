/-
  T04 — translator tie for C04: the obstacle dispatch regenerated on every run from the CURRENT source of
  commonroad/scenario/obstacle.py (DynamicObstacle.occupancy_at_time / state_at_time,
  PhantomObstacle.occupancy_at_time) equals the hand-written model CRModel/Occupancy.lean the C04 theorems are
  about. `Occupancy(t, initial occupancy shape)` is the symbolic `Occ.init`; the prediction's own lookups
  (`occupancy_at_time_step`, `trajectory.state_at_time_step`) are the model functions `predOccAt`, `trajStateAt`
  (the latter tied in T17).
-/
import Gen.Src
import Gen.SrcC04
import CRModel.Occupancy
namespace CR.Occ

theorem tie_dyn_occupancy (tInit : Int) (p : Pred) (t : Int) :
    Gen.DynamicObstacle_occupancy_at_time tInit p t = occupancyAt (.dynamic tInit p) t := by
  unfold Gen.DynamicObstacle_occupancy_at_time occupancyAt
  by_cases h1 : t = tInit
  · simp [h1, Id.run, pure]
  · by_cases h2 : t > tInit
    · cases p <;> simp [h1, h2, Id.run, pure, Pred.isSome, predOccAt]
    · cases p <;> simp [h1, h2, Id.run, pure, Pred.isSome]

theorem tie_dyn_state (tInit : Int) (p : Pred) (t : Int) :
    Gen.DynamicObstacle_state_at_time tInit p t = stateAt (.dynamic tInit p) t := by
  unfold Gen.DynamicObstacle_state_at_time stateAt
  by_cases h1 : t = tInit
  · simp [h1, Id.run, pure]
  · by_cases h2 : t > tInit
    · cases p <;> simp [h1, h2, Id.run, pure, Pred.isSome, Pred.isSetBased, Pred.trajStateAt]
    · cases p <;> simp [h1, h2, Id.run, pure, Pred.isSome, Pred.isSetBased, Pred.trajStateAt]

theorem tie_phantom_occupancy (p : Option (List TS)) (t : Int) :
    Gen.PhantomObstacle_occupancy_at_time p t = occupancyAt (.phantom p) t := by
  unfold Gen.PhantomObstacle_occupancy_at_time occupancyAt
  cases p with
  | none => simp [Id.run, pure]
  | some occs =>
    cases h : predOccAt (.setBased occs) t <;> simp [h, Id.run, pure]

/-! ### scenario-level queries (scenario/scenario.py), translated with their `for` loops as left folds -/

/-- a loop `for x in xs: if p x: acc.append(f x)` collects `f` over the filtered list -/
theorem foldl_append_filter {α β : Type} (p : α → Bool) (f : α → β) (xs : List α) (acc : List β) :
    xs.foldl (fun acc x => if p x then acc ++ [f x] else acc) acc = acc ++ (xs.filter p).map f := by
  induction xs generalizing acc with
  | nil => simp
  | cons x xs ih =>
    simp only [List.foldl_cons, ih]
    by_cases h : p x <;> simp [h]

theorem foldl_append_all {α β : Type} (f : α → β) (xs : List α) (acc : List β) :
    xs.foldl (fun acc x => acc ++ [f x]) acc = acc ++ xs.map f := by
  induction xs generalizing acc with
  | nil => simp
  | cons x xs ih => simp [List.foldl_cons, ih]

/-- `Scenario.occupancies_at_time_step(t, role)` of the current source: for a natural time step, the per-obstacle occupancies of
    the obstacles passing the role filter, in the order of `self.obstacles` — the hand model `occupanciesAt` without the ids. -/
theorem tie_scenario_occupancies (obs : List (Nat × Obst)) (t : Int) (role : Option Role) (ht : 0 ≤ t) :
    Gen.Scenario_occupancies_at_time_step obs t role = .ok ((occupanciesAt obs t role).map (fun x => some x.2)) := by
  unfold Gen.Scenario_occupancies_at_time_step
  simp only [CR.Py.assert, CR.Py.isNat, ht, decide_true, if_true, bind, Except.bind, pure, Except.pure]
  rw [foldl_append_filter (fun (o : Nat × Obst) => ((role.isNone || decide (some o.2.role = role)) && (occupancyAt o.2 t).isSome))
        (fun o => occupancyAt o.2 t)]
  simp only [List.nil_append, occupanciesAt]
  congr 1
  induction obs with
  | nil => rfl
  | cons o os ih =>
    obtain ⟨i, ob⟩ := o
    simp only [List.filter_cons, List.filterMap_cons]
    by_cases hr : (role = none ∨ role = some ob.role)
    · have hr' : (role.isNone || decide (some ob.role = role)) = true := by
        rcases hr with h | h
        · simp [h]
        · simp [h]
      cases ho : occupancyAt ob t with
      | none => simp [hr, hr', ho, ih]
      | some oc => simp [hr, hr', ho, ih]
    · have hr' : (role.isNone || decide (some ob.role = role)) = false := by
        cases role with
        | none => simp at hr
        | some r =>
          have : ¬ (ob.role = r) := fun h => hr (Or.inr (by rw [h]))
          simp [this]
      simp [hr, hr', ih]

theorem tie_scenario_occupancies_neg (obs : List (Nat × Obst)) (t : Int) (role : Option Role) (ht : t < 0) :
    Gen.Scenario_occupancies_at_time_step obs t role = .error .assert := by
  unfold Gen.Scenario_occupancies_at_time_step
  have : ¬ (0 ≤ t) := by omega
  simp [CR.Py.assert, CR.Py.isNat, this, bind, Except.bind]

/-- `Scenario.obstacles_by_role_and_type(role, type)` of the current source returns, in the order of `self.obstacles`, exactly the
    obstacles whose ids the hand model `byRoleType` lists. -/
theorem tie_scenario_filter (obs : List (Nat × Obst × Option Nat)) (role : Option Role) (ty : Option Nat) :
    ∃ l, Gen.Scenario_obstacles_by_role_and_type obs role ty = .ok l ∧ l.map (·.1) = byRoleType obs role ty ∧
      l.Sublist obs := by
  unfold Gen.Scenario_obstacles_by_role_and_type
  simp only [CR.Py.assert, if_true, bind, Except.bind, pure, Except.pure]
  rw [foldl_append_filter (fun (o : Nat × Obst × Option Nat) =>
        ((role.isNone || decide (some o.2.1.role = role)) && (ty.isNone || decide (o.2.2 = ty)))) (fun o => o)]
  refine ⟨_, rfl, ?_, ?_⟩
  · simp only [List.nil_append, List.map_id', byRoleType]
    induction obs with
    | nil => rfl
    | cons o os ih =>
      obtain ⟨i, ob, oty⟩ := o
      simp only [List.filter_cons, List.filterMap_cons]
      have e1 : (role.isNone || decide (some ob.role = role)) = decide (role = none ∨ role = some ob.role) := by
        cases role with
        | none => simp
        | some r => simp [eq_comm]
      have e2 : (ty.isNone || decide (oty = ty)) = decide (ty = none ∨ (ty.isSome ∧ ty = oty)) := by
        cases ty with
        | none => simp
        | some k => simp [eq_comm]
      rw [e1, e2]
      by_cases h : (role = none ∨ role = some ob.role) ∧ (ty = none ∨ (ty.isSome ∧ ty = oty))
      · have : (decide (role = none ∨ role = some ob.role) && decide (ty = none ∨ (ty.isSome ∧ ty = oty))) = true := by
          simp only [Bool.and_eq_true, decide_eq_true_eq]; exact h
        simp [this, h, ih]
      · have : (decide (role = none ∨ role = some ob.role) && decide (ty = none ∨ (ty.isSome ∧ ty = oty))) = false := by
          rw [Bool.eq_false_iff]; intro hc
          simp only [Bool.and_eq_true, decide_eq_true_eq] at hc; exact h hc
        simp [this, h, ih]
  · simp only [List.nil_append, List.map_id']
    exact List.filter_sublist

/-- `Scenario.obstacle_states_at_time_step(t)` of the current source: for a natural time step the returned dict (as an association
    list: dynamic obstacles with a state at `t` first, then all static ones) has exactly the entries of the hand model `statesAt`. -/
theorem tie_scenario_states (obs : List (Nat × Obst)) (t : Int) (ht : 0 ≤ t) :
    ∃ l, Gen.Scenario_obstacle_states_at_time_step obs t = .ok l ∧
      (∀ e ∈ l, e.2.isSome) ∧ ∀ i s, (i, some s) ∈ l ↔ (i, s) ∈ statesAt obs t := by
  unfold Gen.Scenario_obstacle_states_at_time_step
  simp only [CR.Py.assert, CR.Py.isNat, ht, decide_true, if_true, bind, Except.bind, pure, Except.pure]
  rw [foldl_append_filter (fun (o : Nat × Obst) => (stateAt o.2 t).isSome) (fun o => (o.1, stateAt o.2 t)),
      foldl_append_all (fun (o : Nat × Obst) => (o.1, some StRef.init))]
  refine ⟨_, rfl, ?_, ?_⟩
  · intro e he
    simp only [List.nil_append, List.mem_append, List.mem_map, List.mem_filter] at he
    rcases he with ⟨o, ⟨_, ho⟩, rfl⟩ | ⟨o, _, rfl⟩
    · exact ho
    · rfl
  · intro i s
    simp only [List.nil_append, List.mem_append, List.mem_map, List.mem_filter, statesAt, List.mem_filterMap,
      decide_eq_true_eq]
    constructor
    · rintro (⟨o, ⟨⟨hm, hr⟩, _⟩, he⟩ | ⟨o, ⟨hm, hr⟩, he⟩)
      · obtain ⟨j, ob⟩ := o
        simp only [Prod.mk.injEq] at he
        obtain ⟨rfl, hs⟩ := he
        refine ⟨(j, ob), hm, ?_⟩
        cases ob <;> simp_all [Obst.role]
      · obtain ⟨j, ob⟩ := o
        simp only [Prod.mk.injEq, Option.some.injEq] at he
        obtain ⟨rfl, rfl⟩ := he
        refine ⟨(j, ob), hm, ?_⟩
        cases ob <;> simp_all [Obst.role]
    · rintro ⟨⟨j, ob⟩, hm, h⟩
      cases ob with
      | static ti =>
        simp only [Option.some.injEq, Prod.mk.injEq] at h
        obtain ⟨rfl, rfl⟩ := h
        exact Or.inr ⟨(j, .static ti), ⟨hm, rfl⟩, rfl⟩
      | dynamic ti p =>
        simp only [Option.map_eq_some_iff] at h
        obtain ⟨s', hs, he⟩ := h
        simp only [Prod.mk.injEq] at he
        obtain ⟨rfl, rfl⟩ := he
        exact Or.inl ⟨(j, .dynamic ti p), ⟨⟨hm, rfl⟩, by simp [hs]⟩, by simp [hs]⟩
      | phantom p => simp at h
      | environment => simp at h

theorem tie_scenario_states_neg (obs : List (Nat × Obst)) (t : Int) (ht : t < 0) :
    Gen.Scenario_obstacle_states_at_time_step obs t = .error .assert := by
  unfold Gen.Scenario_obstacle_states_at_time_step
  have : ¬ (0 ≤ t) := by omega
  simp [CR.Py.assert, CR.Py.isNat, this, bind, Except.bind]

/-- the checked form the scenario histories of the harness are compared with (`occupanciesAtChk`): for EVERY integer step the
    current source answers what the hand model answers, the AssertionError for negative steps included. -/
theorem tie_scenario_occupancies_chk (obs : List (Nat × Obst)) (t : Int) (role : Option Role) :
    Gen.Scenario_occupancies_at_time_step obs t role =
      (occupanciesAtChk obs t role).map (fun l => l.map (fun x => some x.2)) := by
  unfold occupanciesAtChk
  by_cases h : t < 0
  · rw [tie_scenario_occupancies_neg obs t role h]; simp [h, Except.map]
  · rw [tie_scenario_occupancies obs t role (by omega)]; simp [h, Except.map]

theorem tie_scenario_states_chk (obs : List (Nat × Obst)) (t : Int) :
    (t < 0 → Gen.Scenario_obstacle_states_at_time_step obs t = .error .assert ∧ statesAtChk obs t = .error .assert) ∧
    (0 ≤ t → ∃ l, Gen.Scenario_obstacle_states_at_time_step obs t = .ok l ∧ statesAtChk obs t = .ok (statesAt obs t) ∧
      ∀ i s, (i, some s) ∈ l ↔ (i, s) ∈ statesAt obs t) := by
  constructor
  · intro h; exact ⟨tie_scenario_states_neg obs t h, by simp [statesAtChk, h]⟩
  · intro h
    obtain ⟨l, hl, _, hm⟩ := tie_scenario_states obs t h
    exact ⟨l, hl, by simp [statesAtChk, show ¬ t < 0 by omega], hm⟩

end CR.Occ

/-! ## second part: the functions translated by harness/translate/src_c04.py (module Gen.SrcC04) -/
namespace CR.Occ
open CR.PyC04

/-! ### per-obstacle dispatch of the remaining obstacle classes (scenario/obstacle.py) -/

/-- `StaticObstacle.occupancy_at_time(t)` of the current source: `Occupancy(t, initial occupancy shape)` for EVERY `t`. -/
theorem tie_static_occupancy (tInit t : Int) :
    Gen.StaticObstacle_occupancy_at_time t = (occupancyAt (.static tInit) t).map (fun o => (t, o)) := by
  simp [Gen.StaticObstacle_occupancy_at_time, occupancyAt, occupancy, Id.run, pure]

theorem tie_static_state (tInit t : Int) : Gen.StaticObstacle_state_at_time t = stateAt (.static tInit) t := by
  simp [Gen.StaticObstacle_state_at_time, stateAt, Id.run, pure]

/-- `EnvironmentObstacle.occupancy_at_time(t)`: `Occupancy(t, the bare obstacle shape)`. -/
theorem tie_environment_occupancy (t : Int) :
    Gen.EnvironmentObstacle_occupancy_at_time t = (occupancyAt .environment t).map (fun o => (t, o)) := by
  simp [Gen.EnvironmentObstacle_occupancy_at_time, occupancyAt, occupancy, Id.run, pure]

theorem tie_phantom_state (p : Option (List TS)) (t : Int) : Gen.PhantomObstacle_state_at_time = stateAt (.phantom p) t := by
  simp [Gen.PhantomObstacle_state_at_time, stateAt, Id.run, pure]

/-! ### `Prediction.occupancy_at_time_step` and the occupancy set of a trajectory prediction (prediction/prediction.py) -/

theorem firstIdxFrom_eq_findIdx {α : Type} (p q : α → Bool) (h : ∀ a, p a = q a) :
    ∀ (l : List α) (k : Nat), firstIdxFrom p l k = findIdx q l k
  | [], _ => rfl
  | a :: as, k => by
    unfold firstIdxFrom findIdx
    rw [h a, firstIdxFrom_eq_findIdx p q h as (k + 1)]

/-- `Prediction.occupancy_at_time_step(t)` of the current source returns the FIRST stored occupancy whose time stamp contains
    `t` (an int by equality, an Interval by closed containment — the translated `Interval.contains` of Gen.Src, tied in T16),
    `None` when the loop runs to its end. -/
theorem tie_prediction_occupancy (occs : List TS) (t : Int) :
    Gen.Prediction_occupancy_at_time_step occs t = .ok (findIdx (fun o => o.contains t) occs 0) := by
  unfold Gen.Prediction_occupancy_at_time_step
  simp only [CR.Py.assert, if_true, bind, Except.bind, firstIdx]
  rw [firstIdxFrom_eq_findIdx _ (fun o => o.contains t) ?h]
  · cases findIdx (fun o => o.contains t) occs 0 <;> rfl
  case h =>
    intro o
    cases o with
    | step s =>
      by_cases h : s = t
      · simp [tsIsInterval, tsIsInt, tsInt, TS.contains, h]
      · have h' : ¬ t = s := fun e => h e.symm
        simp [tsIsInterval, tsIsInt, tsInt, TS.contains, h, h']
    | ival lo hi =>
      simp [tsIsInterval, tsIsInt, tsInterval, TS.contains, Gen.Interval_contains_num, Id.run, pure, Rat.intCast_le_intCast]

/-- … which is the model's answer for a set-based prediction. -/
theorem tie_prediction_set_based (occs : List TS) (t : Int) :
    (Gen.Prediction_occupancy_at_time_step (Gen.SetBasedPrediction_occupancy_set occs) t).map (·.map Occ.stored)
      = .ok (predOccAt (.setBased occs) t) := by
  rw [show Gen.SetBasedPrediction_occupancy_set occs = occs from rfl, tie_prediction_occupancy]
  rfl

/-- what `_create_occupancy_set` makes of one state -/
def occOfState (wb : Option (List Rat)) (st : TState) : Int × Region :=
  (st.time_step, ⟨if wb.isSome then .members else .own, st.idx,
    if st.heading = .absent then .atan2 "velocity_y" "velocity" else st.heading⟩)

/-- `TrajectoryPrediction._create_occupancy_set` of the current source: one occupancy per state, in the order of the state list;
    occupancy `i` carries the time step of state `i` and the region obtained by placing the shape at state `i` itself; a state
    without `orientation` is placed with `atan2(velocity_y, velocity)` (these two attributes, in this order); with wheelbase
    lengths the member shapes are placed instead (outside the property's quantifier, kept for completeness). -/
theorem tie_create_occupancy_set (wb : Option (List Rat)) (states : List TState) :
    Gen.TrajectoryPrediction_create_occupancy_set wb states = states.map (occOfState wb) := by
  unfold Gen.TrajectoryPrediction_create_occupancy_set
  simp only [Id.run, pure]
  rw [show (fun (acc : List (Int × Region)) (state : TState) => _) = fun acc state => acc ++ [occOfState wb state] from ?_]
  · rw [foldl_append_all]; simp
  · funext acc st
    obtain ⟨i, t, h⟩ := st
    cases wb <;> cases h <;>
      simp [occOfState, TState.hasOrientation, copyState, regionOf, regionTrailer, occupancy]

theorem tie_trajectory_occupancy_set (wb : Option (List Rat)) (states : List TState) :
    Gen.TrajectoryPrediction_occupancy_set wb states = states.map (occOfState wb) := by
  unfold Gen.TrajectoryPrediction_occupancy_set
  simp only [Id.run, pure]
  exact tie_create_occupancy_set wb states

/-- the states of a trajectory whose i-th state carries time step `ts[i]` (numbered from `i`) -/
def statesFrom (h : Nat → Heading) : List Int → Nat → List TState
  | [], _ => []
  | t :: r, i => ⟨i, t, h i⟩ :: statesFrom h r (i + 1)

/-- The model's occupancy set of a trajectory prediction (`occSetOf`: entry `i` = time step of state `i`, shape placed at
    state `i`) is what the translated `_create_occupancy_set` produces, entry by entry. -/
theorem tie_occSetOf (ts : List Int) (h : Nat → Heading) :
    (Gen.TrajectoryPrediction_create_occupancy_set none (statesFrom h ts 0)).map (fun e => (TS.step e.1, Occ.placed e.2.idx))
      = occSetOf ts := by
  rw [tie_create_occupancy_set, occSetOf]
  generalize 0 = i
  induction ts generalizing i with
  | nil => rfl
  | cons t r ih => simp [statesFrom, occSetFrom, occOfState, ih (i + 1)]

/-! ### scenario level (scenario/scenario.py) -/

/-- `Scenario.obstacles` of the current source chains the four dictionaries in the model's order. -/
theorem tie_scenario_obstacles (s : Scn) : Gen.Scenario_obstacles s = s.obstacles := by
  simp [Gen.Scenario_obstacles, Scn.obstacles, chain4, values, Id.run, pure]

theorem tie_scenario_role_lists (s : Scn) :
    Gen.Scenario_static_obstacles s = s.st ∧ Gen.Scenario_dynamic_obstacles s = s.dy ∧
    Gen.Scenario_phantom_obstacle s = s.ph ∧ Gen.Scenario_environment_obstacle s = s.en := by
  simp [Gen.Scenario_static_obstacles, Gen.Scenario_dynamic_obstacles, Gen.Scenario_phantom_obstacle,
    Gen.Scenario_environment_obstacle, values, Id.run, pure]

theorem findOpt_isSome_eq_any {α : Type} (p : α → Bool) (l : List α) : (l.find? p).isSome = l.any p := by
  induction l with
  | nil => rfl
  | cons a as ih => by_cases h : p a <;> simp [List.find?, h, ih]

/-- `Scenario.obstacle_by_id(i)` of the current source = the model's `Scn.byId`: static, dynamic, phantom, environment
    dictionaries in this order, `None` when none has the id. -/
theorem tie_scenario_obstacle_by_id (s : Scn) (i : Nat) : Gen.Scenario_obstacle_by_id s i = .ok (s.byId i) := by
  unfold Gen.Scenario_obstacle_by_id Scn.byId Scn.obstacles
  simp only [CR.Py.assert, if_true, bind, Except.bind, hasKey, getKey, List.find?_append, pure, Except.pure]
  simp only [← findOpt_isSome_eq_any]
  cases h1 : s.st.find? (fun x => x.1 == i) <;> cases h2 : s.dy.find? (fun x => x.1 == i) <;>
    cases h3 : s.ph.find? (fun x => x.1 == i) <;> cases h4 : s.en.find? (fun x => x.1 == i) <;> simp

/-! #### `Scenario.obstacles_by_position_intervals` (four role passes, each a filtered loop) -/

theorem foldl_congr_mem {α β : Type} (f g : β → α → β) (l : List α) (h : ∀ b, ∀ a ∈ l, f b a = g b a) (b : β) :
    l.foldl f b = l.foldl g b := by
  induction l generalizing b with
  | nil => rfl
  | cons a as ih =>
    simp only [List.foldl_cons]
    rw [h b a (by simp)]
    exact ih (fun b a ha => h b a (by simp [ha])) _

theorem filter_filter_map_eq_filterMap {α β : Type} (q p : α → Bool) (f : α → β) (l : List α) :
    ((l.filter q).filter p).map f = l.filterMap (fun x => if q x && p x then some (f x) else none) := by
  induction l with
  | nil => rfl
  | cons a as ih =>
    cases hq : q a <;> cases hp : p a <;>
      simp only [List.filter_cons, List.filterMap_cons, hq, hp, ih, if_true, Bool.false_eq_true, if_false, List.map_cons,
        Bool.and_self, Bool.and_false, Bool.and_true]

theorem filterMap_congr_mem {α β : Type} (f g : α → Option β) (l : List α) (h : ∀ x ∈ l, f x = g x) :
    l.filterMap f = l.filterMap g := by
  induction l with
  | nil => rfl
  | cons a as ih =>
    simp only [List.filterMap_cons, h a (by simp)]
    rw [ih (fun x hx => h x (by simp [hx]))]

/-- one role pass as the translator renders it (`if ROLE in obstacle_role: for obstacle in self.<role list>: <body>`), for any
    loop body that appends the obstacle exactly when `P` holds, is the model's `posPass` of that role appended to what was
    collected before -/
theorem pass_eq (obs : List (Nat × Obst)) (ctr : Nat → Option (Rat × Rat)) (ix iy : CR.Iv.I) (roles : List Role) (t : Int)
    (r : Role) (P : Nat × Obst → Bool) (body : List (Nat × Obst) → Nat × Obst → List (Nat × Obst)) (acc : List (Nat × Obst))
    (hbody : ∀ acc o, o ∈ obs → o.2.role = r → body acc o = if P o then acc ++ [o] else acc)
    (hP : ∀ o, o ∈ obs → o.2.role = r →
      P o = (decide ((r = .dynamic ∨ r = .phantom) → (occupancyAt o.2 t).isSome) && centreIn ix iy (ctr o.1))) :
    (if decide (r ∈ roles) then (obs.filter (fun o => decide (o.2.role = r))).foldl body acc else acc).map (·.1)
      = acc.map (·.1) ++ posPass obs ctr ix iy roles t r := by
  by_cases hr : r ∈ roles
  · simp only [hr, decide_true, if_true, posPass]
    rw [foldl_congr_mem body (fun acc o => if P o then acc ++ [o] else acc) _
          (fun b a ha => hbody b a (List.mem_filter.1 ha).1 (by simpa using (List.mem_filter.1 ha).2)),
        foldl_append_filter P (fun o => o)]
    simp only [List.map_append, List.map_id']
    congr 1
    rw [filter_filter_map_eq_filterMap]
    apply filterMap_congr_mem
    intro x hx
    by_cases hrole : x.2.role = r
    · rw [hP x hx hrole]
      simp only [Bool.and_eq_true, decide_eq_true_eq]
    · simp [hrole]
  · simp [hr, posPass]

/-- `Scenario.obstacles_by_position_intervals([ix, iy], roles, t)` of the current source lists exactly the ids of the model's
    `byPosition`, in the same order: four passes (dynamic, phantom, static, environment — each only when its role was asked
    for), dynamic and phantom obstacles need an occupancy at `t`, a shape without `center` is listed unconditionally,
    otherwise the centre must lie in both closed intervals (`Interval.contains` as translated in Gen.Src).  Static obstacles
    always offer a centre (their initial position). -/
theorem tie_scenario_by_position (obs : List (Nat × Obst)) (ctr : Nat → Option (Rat × Rat)) (ix iy : CR.Iv.I)
    (roles : List Role) (t : Int) (hst : ∀ x ∈ obs, x.2.role = .static → (ctr x.1).isSome) :
    (Gen.Scenario_obstacles_by_position_intervals obs ctr ix iy roles t).map (·.1) = byPosition obs ctr ix iy roles t := by
  unfold Gen.Scenario_obstacles_by_position_intervals byPosition
  simp only [Id.run, pure]
  rw [pass_eq obs ctr ix iy roles t .environment (fun o => centreIn ix iy (ctr o.1)),
      pass_eq obs ctr ix iy roles t .static (fun o => centreIn ix iy (ctr o.1)),
      pass_eq obs ctr ix iy roles t .phantom (fun o => (occupancyAt o.2 t).isSome && centreIn ix iy (ctr o.1)),
      pass_eq obs ctr ix iy roles t .dynamic (fun o => (occupancyAt o.2 t).isSome && centreIn ix iy (ctr o.1))]
  · simp
  case hP => intro o ho hr; simp
  case hP => intro o ho hr; simp
  case hP => intro o ho hr; simp
  case hP => intro o ho hr; simp
  all_goals (intro acc o ho hr)
  all_goals (cases hc : ctr o.1 <;> cases hocc : occupancyAt o.2 t <;>
    first
    | (simp [centreIn, hc, hocc, Gen.Interval_contains_num, CR.Iv.contains, Id.run, pure]; done)
    | (have h := hst o ho hr; simp [hc] at h))

end CR.Occ

/-! ### placement geometry: `rotate_translate_local` of the four shape classes (geometry/shape.py) = CRModel/Place.lean -/
namespace CR.Place
open CR.Rigid CR.Iv CR.PyC04

/-- `Rectangle.rotate_translate_local`: centre moved by the translation, orientation wrapped into [-τ, τ]; no assertion. -/
theorem tie_rect_place (τ l w : Rat) (ctr : Pt) (θ : Rat) (t : Pt) (a c s : Rat) :
    Gen.Rectangle_rotate_translate_local τ l w ctr θ t a = place c s a τ t (.rect l w ctr θ) := by
  simp [Gen.Rectangle_rotate_translate_local, place, Id.run, pure]

/-- `Circle.rotate_translate_local`: centre moved by the translation; the angle is not looked at. -/
theorem tie_circ_place (τ r : Rat) (ctr t : Pt) (a c s : Rat) :
    Gen.Circle_rotate_translate_local r ctr t a = .ok (place c s a τ t (.circ r ctr)) := by
  simp [Gen.Circle_rotate_translate_local, place, CR.Py.assert, bind, Except.bind, pure, Except.pure]

theorem about_zero_add (c s : Rat) (g t p : Pt) : Pt.add (about c s g ⟨0, 0⟩ p) t = about c s g t p := by
  simp [about, Pt.add, Rat.add_zero]

/-- `Polygon.rotate_translate_local`: every vertex rotated about the polygon's AREA CENTROID (shapely `origin="centroid"`, angle
    in radians), then moved by the translation; AssertionError for an angle outside [-τ, τ]. -/
theorem tie_poly_place (τ : Rat) (cosf sinf : Rat → Rat) (vs : List Pt) (t : Pt) (a : Rat) :
    Gen.Polygon_rotate_translate_local τ cosf sinf vs t a = placeChk (cosf a) (sinf a) a τ t (.poly vs) := by
  unfold Gen.Polygon_rotate_translate_local placeChk
  by_cases h : validOrientation τ a = true
  · simp [h, CR.Py.assert, bind, Except.bind, pure, Except.pure, place, shapelyRotate, addAll, List.map_map,
      Function.comp_def, about_zero_add]
  · simp [h, CR.Py.assert, bind, Except.bind]

theorem placeList_eq_map (c s a τ : Rat) (t : Pt) : ∀ ss : List Shape, place.placeList c s a τ t ss = ss.map (place c s a τ t)
  | [] => rfl
  | x :: xs => by simp [place.placeList, placeList_eq_map c s a τ t xs]

/-- `ShapeGroup.rotate_translate_local`: every member placed by ITS OWN `rotate_translate_local` with the same translation and
    angle, in order; AssertionError for an angle outside [-τ, τ]. -/
theorem tie_group_place (τ : Rat) (cosf sinf : Rat → Rat) (ss : List Shape) (t : Pt) (a : Rat) :
    Gen.ShapeGroup_rotate_translate_local τ cosf sinf ss t a = placeChk (cosf a) (sinf a) a τ t (.group ss) := by
  unfold Gen.ShapeGroup_rotate_translate_local placeChk
  by_cases h : validOrientation τ a = true
  · simp only [h, CR.Py.assert, if_true, bind, Except.bind, pure, Except.pure]
    try rw [CR.Occ.foldl_append_all]
    simp [place, placeList_eq_map]
  · simp [h, CR.Py.assert, bind, Except.bind]

/-- for an admissible orientation (within [-τ, τ], what `is_valid_orientation` demands of every angle) the checked placement is
    the placement the P04 theorems are about, for every shape kind -/
theorem placeChk_valid (c s a τ : Rat) (t : Pt) (sh : Shape) (h : validOrientation τ a = true) :
    placeChk c s a τ t sh = .ok (place c s a τ t sh) := by
  cases sh <;> simp [placeChk, h]


/-- `occupancy_shape_from_state(shape, state)` for an EXACT state is ONE call `shape.rotate_translate_local(state.position,
    state.orientation)` — position as translation, orientation as angle, in this order; the uncertain branches are not taken. -/
theorem tie_occupancy_shape_exact (τ : Rat) (cosf sinf : Rat → Rat) (sh : Shape) (pos : Pt) (ori : Rat) :
    Gen.occupancy_shape_from_state_exact τ cosf sinf sh pos ori = placeChk (cosf ori) (sinf ori) ori τ pos sh := by
  unfold Gen.occupancy_shape_from_state_exact
  cases placeChk (cosf ori) (sinf ori) ori τ pos sh <;> rfl

/-- `occupancy_shape_from_state` for an UNCERTAIN pose of a rectangle / polygon shape (orientation interval [olo, ohi], position
    region of rectangle / polygon kind) as the CURRENT source computes it: the model's `enclose` — the rectangle
    `(ls + lv + |(1 - cos δ_l)·lv - sin δ_l·wv|) × (ws + wv + |(1 - cos δ_w)·wv - sin δ_w·lv|)` with `δ_l = min(Δψ, arctan(wv/lv))`,
    `δ_w = min(Δψ, arctan(lv/wv))`, `Δψ` half the interval length, centred at region centre + shape centre, oriented along the
    middle of the interval; the position region is measured after turning it by MINUS that middle orientation.  This is the
    formula `C04_enclosure` (CRProps/C04.lean) is about: `C04_enclose_encloses`. -/
theorem tie_uncertain_enclosure (cosf sinf arctanf : Rat → Rat) (lv wv : Rat) (sc : Pt) (olo ohi ls ws : Rat) (pc : Pt)
    (hl : lv ≠ 0) (hw : wv ≠ 0) :
    Gen.occupancy_shape_from_state_uncertain cosf sinf arctanf lv wv sc olo ohi ls ws pc =
      .ok (enclose (cosf (min ((1 / 2) * (ohi - olo)) (arctanf (wv / lv)))) (sinf (min ((1 / 2) * (ohi - olo)) (arctanf (wv / lv))))
            (cosf (min ((1 / 2) * (ohi - olo)) (arctanf (lv / wv)))) (sinf (min ((1 / 2) * (ohi - olo)) (arctanf (lv / wv))))
            lv wv ls ws (Pt.add pc sc) (olo + (1 / 2) * (ohi - olo))) := by
  unfold Gen.occupancy_shape_from_state_uncertain
  simp only [CR.Py.div, hl, hw, if_false, extentOf, absR, absQ, enclose, bind, Except.bind, pure, Except.pure]
  first | rfl | (congr 1) | (simp; exact ⟨rfl, rfl⟩)

end CR.Place
