/-
  T04 — translator tie for C04: the obstacle dispatch regenerated on every run from the CURRENT source of
  commonroad/scenario/obstacle.py (DynamicObstacle.occupancy_at_time / state_at_time,
  PhantomObstacle.occupancy_at_time) equals the hand-written model CRModel/Occupancy.lean the C04 theorems are
  about. `Occupancy(t, initial occupancy shape)` is the symbolic `Occ.init`; the prediction's own lookups
  (`occupancy_at_time_step`, `trajectory.state_at_time_step`) are the model functions `predOccAt`, `trajStateAt`
  (the latter tied in T17).
-/
import Gen.Src
import CRModel.Occupancy
namespace CR.Occ

theorem tie_dyn_occupancy (tInit : Int) (p : Pred) (t : Int) :
    Gen.DynamicObstacle_occupancy_at_time tInit p t = occupancyAt (.dynamic tInit p) t := by
  unfold Gen.DynamicObstacle_occupancy_at_time occupancyAt
  by_cases h1 : t = tInit
  · simp [h1, Id.run, pure]
  · by_cases h2 : t > tInit
    · cases p <;> simp [h1, h2, Id.run, pure, Pred.isSome, predOccAt]
    · cases p <;> simp [h1, h2, Id.run, pure, Pred.isSome]

theorem tie_dyn_state (tInit : Int) (p : Pred) (t : Int) :
    Gen.DynamicObstacle_state_at_time tInit p t = stateAt (.dynamic tInit p) t := by
  unfold Gen.DynamicObstacle_state_at_time stateAt
  by_cases h1 : t = tInit
  · simp [h1, Id.run, pure]
  · by_cases h2 : t > tInit
    · cases p <;> simp [h1, h2, Id.run, pure, Pred.isSome, Pred.isSetBased, Pred.trajStateAt]
    · cases p <;> simp [h1, h2, Id.run, pure, Pred.isSome, Pred.isSetBased, Pred.trajStateAt]

theorem tie_phantom_occupancy (p : Option (List TS)) (t : Int) :
    Gen.PhantomObstacle_occupancy_at_time p t = occupancyAt (.phantom p) t := by
  unfold Gen.PhantomObstacle_occupancy_at_time occupancyAt
  cases p with
  | none => simp [Id.run, pure]
  | some occs =>
    cases h : predOccAt (.setBased occs) t <;> simp [h, Id.run, pure]

end CR.Occ
