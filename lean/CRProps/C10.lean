/-
  C10 — removing or cutting out lanelet-network elements leaves no dangling references.

  Model: CRModel.Refs (LaneletNetwork.remove_* / cleanup_*_references / create_from_lanelet_network /
  create_from_lanelet_list, Scenario.remove_lanelet + remove_hanging_lanelet_members, Scenario.remove_traffic_sign /
  remove_traffic_light / remove_intersection).  Lemmas: CRProofs.Refs, RefsDang, RefsFrame, RefsPresent.

  All theorems are for arbitrary networks, arbitrary arguments and arbitrary operation sequences (no size bound).

  What "well-formed network" means here (`Inv`): the property's stated precondition `Wf` (a stop line refers only to
  signs / lights its lanelet also references), no dangling reference to begin with (`NoDangling`), and pairwise
  different ids (`Uniq`: what `Scenario._mark_object_id_as_used` enforces; the dicts of a `LaneletNetwork` have unique
  keys anyway).  The core theorems need less and say so:
    * `C10_noNewDangling_step/_run` need only `Wf`: whatever dangled before, no operation makes an id dangle that did
      not dangle before — in particular nothing refers to an id the history removed (`C10_no_ref_to_removed_run`);
    * `C10_frame_step/_run` need no hypothesis on the network at all;
    * `Uniq` is needed only to speak of "the" element with a given id (`C10_present_run`) and for the id pool
      (`C10_removeLanelets_ok`).
  Declared limits: `cleanup_ids=True` (`Op.cleans`; `C10_witness_cleanup_needed` shows the claim is false without);
  relations are compared as sets (membership), not as lists; `left_of` is not one of the listed relations and can be
  left dangling by a cut-out (`C10_witness_leftOf_dangles`, observation only).
-/
import CRModel.Refs
import CRProofs.Refs
import CRProofs.RefsDang
import CRProofs.RefsFrame
import CRProofs.RefsPresent

namespace CR.Refs

/-- pairwise different ids over lanelets, signs, lights, intersections and incoming elements -/
def Uniq (n : Net) : Prop := n.allIds.Nodup

instance (n : Net) : Decidable (Uniq n) := by unfold Uniq; exact inferInstance

/-- A *well-formed* network, the start state the property quantifies over: no dangling reference, the property's
precondition on stop lines, pairwise different ids.  A network that already holds dangling references is outside
"well-formed"; for it only `C10_noNewDangling_*` (no *new* dangling reference) and the frame theorems apply. -/
def Inv (n : Net) : Prop := NoDangling n ∧ Wf n ∧ Uniq n

/-- `cleanup_ids=True` (the default) for the two constructors; every other operation always cleans up. -/
def Op.cleans : Op → Prop
  | .cutOut _ c => c = true
  | .fromList _ c => c = true
  | _ => True

instance (op : Op) : Decidable op.cleans := by cases op <;> unfold Op.cleans <;> exact inferInstance

/-! ## No new dangling reference (hypothesis: only the stop-line precondition `Wf`) -/

/-- One operation: `Wf` is kept, and every id that dangles afterwards (is mentioned in a listed relation but is not an
element of the network) dangled before already — also in the state a scenario-level call leaves behind when it raises
`KeyError` half-way. -/
theorem C10_noNewDangling_step (s : Scn) (op : Op) (hw : Wf s.net) (hc : op.cleans) :
    Wf (s.step op).1.net ∧ NoNewDangling s.net (s.step op).1.net := by
  have key : ∀ (f : Net → Id → Net), (∀ m i, Wf m → Wf (f m i)) → (∀ m i, NoNewDangling m (f m i)) →
      ∀ m i, (Wf m ∧ NoNewDangling s.net m) → (Wf (f m i) ∧ NoNewDangling s.net (f m i)) :=
    fun f hi hf m i hq => ⟨hi m i hq.1, hq.2.trans (hf m i)⟩
  have kl := key Net.removeLanelet (fun m i h => wf_removeLanelet h i) nnd_removeLanelet
  have ks := key Net.removeSign (fun m i h => wf_removeSign h i) nnd_removeSign
  have kt := key Net.removeLight (fun m i h => wf_removeLight h i) nnd_removeLight
  have h0 : Wf s.net ∧ NoNewDangling s.net s.net := ⟨hw, NoNewDangling.refl _⟩
  cases op with
  | netRemoveLanelet x => exact ⟨wf_removeLanelet hw x, nnd_removeLanelet _ x⟩
  | netRemoveSign x => exact ⟨wf_removeSign hw x, nnd_removeSign _ x⟩
  | netRemoveLight x => exact ⟨wf_removeLight hw x, nnd_removeLight _ x⟩
  | netRemoveInter x => exact ⟨wf_removeInter hw x, nnd_removeInter _ x⟩
  | scnRemoveLanelets args r =>
    exact Scn.removeLanelets_inv (fun m => Wf m ∧ NoNewDangling s.net m) kl ks kt s args r h0
  | scnRemoveSigns xs => exact Scn.removeSigns_inv (fun m => Wf m ∧ NoNewDangling s.net m) ks s xs h0
  | scnRemoveLights xs => exact Scn.removeLights_inv (fun m => Wf m ∧ NoNewDangling s.net m) kt s xs h0
  | scnRemoveInters xs =>
    exact Scn.removeInters_inv (fun m => Wf m ∧ NoNewDangling s.net m)
      (fun m x hq => ⟨wf_removeInter hq.1 x, hq.2.trans (nnd_removeInter m x)⟩) s xs h0
  | scnRemoveHanging args => exact Scn.removeHanging_inv (fun m => Wf m ∧ NoNewDangling s.net m) ks kt s args h0
  | cutOut keep c =>
    have hc' : c = true := hc
    subst hc'
    show Wf (match s.net.cutOut (fun a => keep.contains a) true with
        | .ok n' => (({ net := n', ids := n'.allIds } : Scn), (none : Option Err))
        | .error e => (s, some e)).1.net ∧
      NoNewDangling s.net (match s.net.cutOut (fun a => keep.contains a) true with
        | .ok n' => (({ net := n', ids := n'.allIds } : Scn), (none : Option Err))
        | .error e => (s, some e)).1.net
    cases hr : s.net.cutOut (fun a => keep.contains a) true with
    | ok n' => exact ⟨wf_cutOut hw hr, nnd_cutOut hw hr⟩
    | error e => exact h0
  | fromList sel c =>
    have hc' : c = true := hc
    subst hc'
    exact ⟨wf_fromList hw sel true, nnd_fromList _ sel⟩

/-- **No new dangling reference after any sequence of removals and cut-outs.** -/
theorem C10_noNewDangling_run (s : Scn) (ops : List Op) (hw : Wf s.net) (hc : ∀ op ∈ ops, op.cleans) :
    Wf (s.run ops).net ∧ NoNewDangling s.net (s.run ops).net := by
  induction ops generalizing s with
  | nil => exact ⟨hw, NoNewDangling.refl _⟩
  | cons o os ih =>
    have h1 := C10_noNewDangling_step s o hw (hc o List.mem_cons_self)
    have h2 := ih (s.step o).1 h1.1 (fun op hop => hc op (List.mem_cons_of_mem _ hop))
    exact ⟨h2.1, h1.2.trans h2.2⟩

/-- **No remaining element refers to a removed id** — the property's first sentence, for whole histories and without
assuming that nothing dangled at the start: an id that was an element of the start network and is not an element of the
final network is mentioned by no listed relation of the final network. -/
theorem C10_no_ref_to_removed_run (s : Scn) (ops : List Op) (hw : Wf s.net) (hc : ∀ op ∈ ops, op.cleans) :
    (∀ x ∈ s.net.lids, x ∉ (s.run ops).net.lids → ¬ RefL (s.run ops).net x) ∧
    (∀ x ∈ s.net.sids, x ∉ (s.run ops).net.sids → ¬ RefS (s.run ops).net x) ∧
    (∀ x ∈ s.net.tids, x ∉ (s.run ops).net.tids → ¬ RefT (s.run ops).net x) := by
  have h := (C10_noNewDangling_run s ops hw hc).2
  exact ⟨fun x hx hn hr => (h.lan x ⟨hr, hn⟩).2 hx, fun x hx hn hr => (h.sign x ⟨hr, hn⟩).2 hx,
    fun x hx hn hr => (h.light x ⟨hr, hn⟩).2 hx⟩

/-- (definitional: documents the model, carries no proof content) what `RefL` / `RefS` / `RefT` range over, relation by
relation: predecessor / successor / adjacency, intersection crossing / incoming / successor sets, lanelet sign and
light references, stop-line references. -/
theorem C10_refs_spelled_out (n : Net) (x : Id) :
    (RefL n x ↔ (∃ l ∈ n.lanelets, x ∈ l.pred ∨ x ∈ l.succ ∨ l.adjL = some x ∨ l.adjR = some x) ∨
      (∃ i ∈ n.inters, x ∈ i.crossings ∨ ∃ k ∈ i.incomings, x ∈ k.inc ∨ x ∈ k.right ∨ x ∈ k.straight ∨ x ∈ k.left)) ∧
    (RefS n x ↔ ∃ l ∈ n.lanelets, x ∈ l.signs ∨ ∃ st, l.stop = some st ∧ ∃ r, st.signRef = some r ∧ x ∈ r) ∧
    (RefT n x ↔ ∃ l ∈ n.lanelets, x ∈ l.lights ∨ ∃ st, l.stop = some st ∧ ∃ r, st.lightRef = some r ∧ x ∈ r) := by
  refine ⟨?_, ?_, ?_⟩
  · unfold RefL
    refine or_congr ?_ ?_
    · exact exists_congr fun l => and_congr_right fun _ => mem_lrefs
    · refine exists_congr fun i => and_congr_right fun _ => ?_
      simp only [Intersection.lrefs, Incoming.lrefs, List.mem_append, List.mem_flatMap]
      refine or_congr Iff.rfl (exists_congr fun k => and_congr_right fun _ => ?_)
      constructor
      · rintro (((h | h) | h) | h)
        · exact Or.inl h
        · exact Or.inr (Or.inl h)
        · exact Or.inr (Or.inr (Or.inl h))
        · exact Or.inr (Or.inr (Or.inr h))
      · rintro (h | h | h | h)
        · exact Or.inl (Or.inl (Or.inl h))
        · exact Or.inl (Or.inl (Or.inr h))
        · exact Or.inl (Or.inr h)
        · exact Or.inr h
  · unfold RefS
    refine exists_congr fun l => and_congr_right fun _ => ?_
    rw [List.mem_append]
    refine or_congr Iff.rfl ?_
    unfold Lanelet.stopS StopLine.srefs
    cases hst : l.stop with
    | none => simp
    | some st => cases hr : st.signRef <;> simp [hr]
  · unfold RefT
    refine exists_congr fun l => and_congr_right fun _ => ?_
    rw [List.mem_append]
    refine or_congr Iff.rfl ?_
    unfold Lanelet.stopT StopLine.trefs
    cases hst : l.stop with
    | none => simp
    | some st => cases hr : st.lightRef <;> simp [hr]

/-! ## Unique ids are kept -/

theorem uniq_of_sublist {n n' : Net} (h : List.Sublist n'.allIds n.allIds) (hu : Uniq n) : Uniq n' :=
  List.Nodup.sublist h hu

theorem C10_uniq_step (s : Scn) (op : Op) (hu : Uniq s.net) : Uniq (s.step op).1.net := by
  have kl : ∀ m i, Uniq m → Uniq (Net.removeLanelet m i) := fun m i h => uniq_of_sublist (allIds_removeLanelet m i) h
  have ks : ∀ m i, Uniq m → Uniq (Net.removeSign m i) := fun m i h => uniq_of_sublist (allIds_removeSign m i) h
  have kt : ∀ m i, Uniq m → Uniq (Net.removeLight m i) := fun m i h => uniq_of_sublist (allIds_removeLight m i) h
  cases op with
  | netRemoveLanelet x => exact kl _ x hu
  | netRemoveSign x => exact ks _ x hu
  | netRemoveLight x => exact kt _ x hu
  | netRemoveInter x => exact uniq_of_sublist (allIds_removeInter _ x) hu
  | scnRemoveLanelets args r => exact Scn.removeLanelets_inv Uniq kl ks kt s args r hu
  | scnRemoveSigns xs => exact Scn.removeSigns_inv Uniq ks s xs hu
  | scnRemoveLights xs => exact Scn.removeLights_inv Uniq kt s xs hu
  | scnRemoveInters xs =>
    exact Scn.removeInters_inv Uniq (fun m x h => uniq_of_sublist (allIds_removeInter m x) h) s xs hu
  | scnRemoveHanging args => exact Scn.removeHanging_inv Uniq ks kt s args hu
  | cutOut keep c =>
    show Uniq (match s.net.cutOut (fun a => keep.contains a) c with
        | .ok n' => (({ net := n', ids := n'.allIds } : Scn), (none : Option Err))
        | .error e => (s, some e)).1.net
    cases hr : s.net.cutOut (fun a => keep.contains a) c with
    | ok n' => exact uniq_of_sublist (allIds_cutOut hr) hu
    | error e => exact hu
  | fromList sel c => exact allIds_fromList_nodup _ sel c

theorem C10_uniq_run (s : Scn) (ops : List Op) (hu : Uniq s.net) : Uniq (s.run ops).net := by
  induction ops generalizing s with
  | nil => exact hu
  | cons o os ih => exact ih (s.step o).1 (C10_uniq_step s o hu)

/-! ## The well-formedness invariant -/

/-- **A well-formed network stays well-formed under every single operation** (network level and scenario level,
including the state a scenario-level call leaves behind when it raises `KeyError` half-way): no dangling reference,
the stop-line precondition and unique ids are all kept, so the statement can be iterated. -/
theorem C10_inv_step (s : Scn) (op : Op) (h : Inv s.net) (hc : op.cleans) : Inv (s.step op).1.net := by
  have h1 := C10_noNewDangling_step s op h.2.1 hc
  exact ⟨h1.2.noDangling h.1, h1.1, C10_uniq_step s op h.2.2⟩

theorem C10_nodangling_step (s : Scn) (op : Op) (hnd : NoDangling s.net) (hw : Wf s.net) (hc : op.cleans) :
    NoDangling (s.step op).1.net := (C10_noNewDangling_step s op hw hc).2.noDangling hnd

/-- **No dangling reference after any sequence of removals and cut-outs** (induction over the history). -/
theorem C10_inv_run (s : Scn) (ops : List Op) (h : Inv s.net) (hc : ∀ op ∈ ops, op.cleans) : Inv (s.run ops).net := by
  have h1 := C10_noNewDangling_run s ops h.2.1 hc
  exact ⟨h1.2.noDangling h.1, h1.1, C10_uniq_run s ops h.2.2⟩

theorem C10_nodangling_run (s : Scn) (ops : List Op) (hnd : NoDangling s.net) (hw : Wf s.net)
    (hc : ∀ op ∈ ops, op.cleans) : NoDangling (s.run ops).net :=
  (C10_noNewDangling_run s ops hw hc).2.noDangling hnd

/-- every intermediate state of a history, too (the `trace` is what the correspondence compares) -/
theorem C10_nodangling_trace (s : Scn) (ops : List Op) (hnd : NoDangling s.net) (hw : Wf s.net)
    (hc : ∀ op ∈ ops, op.cleans) : ∀ r ∈ s.trace ops, NoDangling r.1.net := by
  induction ops generalizing s with
  | nil => intro r hr; cases hr
  | cons o os ih =>
    intro r hr
    have h1 := C10_noNewDangling_step s o hw (hc o List.mem_cons_self)
    rcases List.mem_cons.1 hr with rfl | hr
    · exact h1.2.noDangling hnd
    · exact ih (s.step o).1 (h1.2.noDangling hnd) h1.1 (fun op hop => hc op (List.mem_cons_of_mem _ hop)) r hr

/-! ## Frame: relations between remaining elements untouched, content unchanged (no hypothesis on the network)

`Frame n n'` (CRProofs.RefsFrame): every lanelet / sign / light / intersection / incoming element of `n'` is one of
`n` with the same id and the same content; none of its relations has gained a member, and every old member that names
an element still present in `n'` is still a member (membership; order and multiplicity are not claimed); an adjacency
that survives keeps its direction flag.  `left_of` is copied verbatim — it is not among the relations the property
lists and may name an incoming element that a cut-out dropped (`C10_witness_leftOf_dangles`). -/

theorem C10_frame_step (s : Scn) (op : Op) (hc : op.cleans) : Frame s.net (s.step op).1.net := by
  have key : ∀ (f : Net → Id → Net), (∀ m i, Frame m (f m i)) → ∀ m i, Frame s.net m → Frame s.net (f m i) :=
    fun f hf m i hq => Frame.trans hq (hf m i)
  have kl := key Net.removeLanelet frame_removeLanelet
  have ks := key Net.removeSign frame_removeSign
  have kt := key Net.removeLight frame_removeLight
  cases op with
  | netRemoveLanelet x => exact frame_removeLanelet _ x
  | netRemoveSign x => exact frame_removeSign _ x
  | netRemoveLight x => exact frame_removeLight _ x
  | netRemoveInter x => exact frame_removeInter _ x
  | scnRemoveLanelets args r => exact Scn.removeLanelets_inv (Frame s.net) kl ks kt s args r Frame.refl
  | scnRemoveSigns xs => exact Scn.removeSigns_inv (Frame s.net) ks s xs Frame.refl
  | scnRemoveLights xs => exact Scn.removeLights_inv (Frame s.net) kt s xs Frame.refl
  | scnRemoveInters xs =>
    exact Scn.removeInters_inv (Frame s.net) (fun m x hq => Frame.trans hq (frame_removeInter m x)) s xs Frame.refl
  | scnRemoveHanging args => exact Scn.removeHanging_inv (Frame s.net) ks kt s args Frame.refl
  | cutOut keep c =>
    have hc' : c = true := hc
    subst hc'
    show Frame s.net (match s.net.cutOut (fun a => keep.contains a) true with
      | .ok n' => (({ net := n', ids := n'.allIds } : Scn), (none : Option Err))
      | .error e => (s, some e)).1.net
    cases hr : s.net.cutOut (fun a => keep.contains a) true with
    | ok n' => exact frame_cutOut hr
    | error e => exact Frame.refl
  | fromList sel c =>
    have hc' : c = true := hc
    subst hc'
    exact frame_fromList _ sel

/-- **Frame over any sequence of removals and cut-outs**: whatever is left at the end is an element of the initial
network with unchanged content, and its relations are the initial ones restricted to what is left. -/
theorem C10_frame_run (s : Scn) (ops : List Op) (hc : ∀ op ∈ ops, op.cleans) : Frame s.net (s.run ops).net := by
  induction ops generalizing s with
  | nil => exact Frame.refl
  | cons o os ih =>
    exact Frame.trans (C10_frame_step s o (hc o List.mem_cons_self))
      (ih (s.step o).1 (fun op hop => hc op (List.mem_cons_of_mem _ hop)))

/-- reading `Frame` for one relation when nothing dangles afterwards: the successors of a remaining lanelet are
exactly its old successors that are still there -/
theorem C10_frame_succ {n n' : Net} (f : Frame n n') (hnd : NoDangling n') {l' : Lanelet} (hl' : l' ∈ n'.lanelets) :
    ∃ l ∈ n.lanelets, l.id = l'.id ∧ l.content = l'.content ∧ ∀ b, b ∈ l'.succ ↔ b ∈ l.succ ∧ b ∈ n'.lids := by
  obtain ⟨l, hl, lf⟩ := f.lan l' hl'
  exact ⟨l, hl, lf.id.symm, lf.content.symm,
    lf.succ.iff fun b hb => hnd.1 l' hl' b (mem_lrefs.2 (Or.inr (Or.inl hb)))⟩

/-! ## Presence: every element not selected for removal is still there; the selected ones are gone -/

/-- `LaneletNetwork.remove_lanelet(x)`: exactly lanelet `x` goes; signs, lights, intersections and their incoming
elements all stay. -/
theorem C10_present_netRemoveLanelet (n : Net) (x : Id) :
    (n.removeLanelet x).lids = n.lids.filter (· != x) ∧ (n.removeLanelet x).signs = n.signs ∧
    (n.removeLanelet x).lights = n.lights ∧ (n.removeLanelet x).shapes = n.shapes :=
  ⟨removeLanelet_lids n x, removeLanelet_signs n x, removeLanelet_lights n x, removeLanelet_shapes n x⟩

theorem C10_present_netRemoveSign (n : Net) (x : Id) :
    (n.removeSign x).lids = n.lids ∧ (n.removeSign x).signs = n.signs.filter (fun s => s.1 != x) ∧
    (n.removeSign x).lights = n.lights ∧ (n.removeSign x).inters = n.inters :=
  ⟨removeSign_lids n x, removeSign_signs n x, removeSign_lights n x, removeSign_inters n x⟩

/-- (definitional: documents the model — three of the four parts hold by `rfl` — carries no proof content beyond
`removeLight_lids`) -/
theorem C10_present_netRemoveLight (n : Net) (x : Id) :
    (n.removeLight x).lids = n.lids ∧ (n.removeLight x).signs = n.signs ∧
    (n.removeLight x).lights = n.lights.filter (fun s => s.1 != x) ∧ (n.removeLight x).inters = n.inters :=
  ⟨removeLight_lids n x, rfl, rfl, rfl⟩

/-- (definitional: documents the model, carries no proof content) -/
theorem C10_present_netRemoveInter (n : Net) (x : Id) :
    (n.removeInter x).lanelets = n.lanelets ∧ (n.removeInter x).signs = n.signs ∧
    (n.removeInter x).lights = n.lights ∧ (n.removeInter x).inters = n.inters.filter (fun i => i.id != x) :=
  ⟨rfl, rfl, rfl, rfl⟩

/-- the removed id is really gone (with `NoDangling` this gives "no remaining element refers to the removed id") -/
theorem C10_removed_absent (n : Net) (x : Id) :
    x ∉ (n.removeLanelet x).lids ∧ x ∉ (n.removeSign x).sids ∧ x ∉ (n.removeLight x).tids ∧
    x ∉ (n.removeInter x).iids := by
  refine ⟨?_, ?_, ?_, ?_⟩
  · rw [removeLanelet_lids]; simp
  · rw [removeSign_sids]; simp
  · rw [removeLight_tids]; simp
  · simp [Net.iids, removeInter_inters]

/-- `Scenario.remove_lanelet(args, referenced_elements)` — also when it raises half-way:
lanelets that were not handed in stay; a sign / light can only go if it is *hanging*; intersections stay. -/
theorem C10_present_scnRemoveLanelets (s : Scn) (args : List RmArg) (r : Bool) :
    (∀ a ∈ s.net.lids, a ∉ args.map (·.id) → a ∈ (s.removeLanelets args r).1.net.lids) ∧
    (∀ e ∈ s.net.signs, e.1 ∉ s.net.hangingSigns args → e ∈ (s.removeLanelets args r).1.net.signs) ∧
    (∀ e ∈ s.net.lights, e.1 ∉ s.net.hangingLights args → e ∈ (s.removeLanelets args r).1.net.lights) ∧
    (s.removeLanelets args r).1.net.shapes = s.net.shapes := by
  refine Scn.removeLanelets_inv' (fun m =>
      (∀ a ∈ s.net.lids, a ∉ args.map (·.id) → a ∈ m.lids) ∧
      (∀ e ∈ s.net.signs, e.1 ∉ s.net.hangingSigns args → e ∈ m.signs) ∧
      (∀ e ∈ s.net.lights, e.1 ∉ s.net.hangingLights args → e ∈ m.lights) ∧ m.shapes = s.net.shapes)
    s args r ?_ ?_ ?_ ⟨fun _ h _ => h, fun _ h _ => h, fun _ h _ => h, rfl⟩
  · rintro m i hi ⟨q1, q2, q3, q4⟩
    refine ⟨fun a ha hna => ?_, ?_, ?_, ?_⟩
    · rw [removeLanelet_lids, List.mem_filter]
      refine ⟨q1 a ha hna, ?_⟩
      simp only [bne_iff_ne, ne_eq]
      rintro rfl
      exact hna hi
    · rw [removeLanelet_signs]; exact q2
    · rw [removeLanelet_lights]; exact q3
    · rw [removeLanelet_shapes]; exact q4
  · rintro m i hi ⟨q1, q2, q3, q4⟩
    refine ⟨?_, fun e he hne => ?_, ?_, ?_⟩
    · rw [removeSign_lids]; exact q1
    · rw [removeSign_signs, List.mem_filter]
      refine ⟨q2 e he hne, ?_⟩
      simp only [bne_iff_ne, ne_eq]
      intro heq
      exact hne (heq ▸ hi)
    · rw [removeSign_lights]; exact q3
    · rw [removeSign_shapes]; exact q4
  · rintro m i hi ⟨q1, q2, q3, q4⟩
    refine ⟨?_, q2, fun e he hne => ?_, q4⟩
    · rw [removeLight_lids]; exact q1
    · rw [removeLight_lights, List.mem_filter]
      refine ⟨q3 e he hne, ?_⟩
      simp only [bne_iff_ne, ne_eq]
      intro heq
      exact hne (heq ▸ hi)

/-- without `referenced_elements` no sign or light is touched -/
theorem C10_present_scnRemoveLanelets_unreferenced (s : Scn) (args : List RmArg) :
    (s.removeLanelets args false).1.net.signs = s.net.signs ∧ (s.removeLanelets args false).1.net.lights = s.net.lights := by
  have := Scn.removeLaneletLoop_inv (fun m => m.signs = s.net.signs ∧ m.lights = s.net.lights)
    (fun m i h => ⟨(removeLanelet_signs m i).trans h.1, (removeLanelet_lights m i).trans h.2⟩) s (args.map (·.id)) ⟨rfl, rfl⟩
  simpa [Scn.removeLanelets] using this

/-- **hanging, "only if"** (always, even when the call raises): a sign that `Scenario.remove_lanelet` takes out of the
network was referenced by one of the lanelets handed in and is referenced by no lanelet that remains. -/
theorem C10_hanging_only_if (s : Scn) (args : List RmArg) (r : Bool) (e : Elem) (he : e ∈ s.net.signs)
    (hgone : e ∉ (s.removeLanelets args r).1.net.signs) :
    (∃ a ∈ args, e.1 ∈ a.signs) ∧ ∀ l ∈ s.net.lanelets, l.id ∉ args.map (·.id) → e.1 ∉ l.signs := by
  have h := (C10_present_scnRemoveLanelets s args r).2.1 e he
  have hm : e.1 ∈ s.net.hangingSigns args := Classical.byContradiction fun hn => hgone (h hn)
  exact (mem_hangingSigns.1 hm).2

theorem C10_hanging_only_if_light (s : Scn) (args : List RmArg) (r : Bool) (e : Elem) (he : e ∈ s.net.lights)
    (hgone : e ∉ (s.removeLanelets args r).1.net.lights) :
    (∃ a ∈ args, e.1 ∈ a.lights) ∧ ∀ l ∈ s.net.lanelets, l.id ∉ args.map (·.id) → e.1 ∉ l.lights := by
  have h := (C10_present_scnRemoveLanelets s args r).2.2.1 e he
  have hm : e.1 ∈ s.net.hangingLights args := Classical.byContradiction fun hn => hgone (h hn)
  exact (mem_hangingLights.1 hm).2

/-- when `Scenario.remove_lanelet(args, True)` returns normally, every lanelet handed in and every hanging sign and
light is gone -/
theorem C10_done_scnRemoveLanelets (s : Scn) (args : List RmArg) (hok : (s.removeLanelets args true).2 = none) :
    (∀ a ∈ args, a.id ∉ (s.removeLanelets args true).1.net.lids) ∧
    (∀ t ∈ s.net.hangingSigns args, t ∉ (s.removeLanelets args true).1.net.sids) ∧
    (∀ t ∈ s.net.hangingLights args, t ∉ (s.removeLanelets args true).1.net.tids) := by
  obtain ⟨s1, s2, e1, e2, e3⟩ := Scn.removeLanelets_done s args hok
  rw [e3] at hok ⊢
  have d3 := Scn.loop_done loopShape_lanelets
    (fun i m => i ∉ m.lids) (fun m i => by rw [removeLanelet_lids]; simp)
    (fun m i j h => by rw [removeLanelet_lids]; exact fun c => h (List.mem_filter.1 c).1) s2 _ hok
  have d1 := Scn.loop_done loopShape_signs
    (fun i m => i ∉ m.sids) (fun m i => by rw [removeSign_sids]; simp)
    (fun m i j h => by rw [removeSign_sids]; exact fun c => h (List.mem_filter.1 c).1) s _ (by rw [e1])
  have d2 := Scn.loop_done loopShape_lights
    (fun i m => i ∉ m.tids) (fun m i => by rw [removeLight_tids]; simp)
    (fun m i j h => by rw [removeLight_tids]; exact fun c => h (List.mem_filter.1 c).1) s1 _ (by rw [e2])
  rw [e1] at d1
  rw [e2] at d2
  refine ⟨fun a ha => d3 a.id (List.mem_map.2 ⟨a, ha, rfl⟩), fun t ht => ?_, fun t ht => ?_⟩
  · -- gone after the sign loop, and neither the light loop nor the lanelet loop brings a sign back
    have a2 : t ∉ s2.net.sids := by
      have := Scn.removeLights_inv (fun m => t ∉ m.sids) (fun m i h => by rw [removeLight_sids]; exact h) s1
        (s.net.hangingLights args) (d1 t ht)
      rw [e2] at this; exact this
    exact Scn.removeLaneletLoop_inv (fun m => t ∉ m.sids) (fun m i h => by rw [removeLanelet_sids]; exact h) s2 _ a2
  · exact Scn.removeLaneletLoop_inv (fun m => t ∉ m.tids) (fun m i h => by rw [removeLanelet_tids]; exact h) s2 _
      (d2 t ht)

/-- **hanging, "iff"**: on a normal return (`hok`; discharged from id-pool consistency by `C10_removeLanelets_ok`, see
`C10_hanging_iff_idpool`) of `Scenario.remove_lanelet(args, referenced_elements=True)` a sign of the network is removed
exactly when a lanelet handed in references it and no remaining lanelet does. -/
theorem C10_hanging_iff (s : Scn) (args : List RmArg) (hok : (s.removeLanelets args true).2 = none) (e : Elem)
    (he : e ∈ s.net.signs) :
    e.1 ∉ (s.removeLanelets args true).1.net.sids ↔
      (∃ a ∈ args, e.1 ∈ a.signs) ∧ ∀ l ∈ s.net.lanelets, l.id ∉ args.map (·.id) → e.1 ∉ l.signs := by
  have hin : e.1 ∈ s.net.sids := List.mem_map.2 ⟨e, he, rfl⟩
  constructor
  · intro hgone
    have h := (C10_present_scnRemoveLanelets s args true).2.1 e he
    have hm : e.1 ∈ s.net.hangingSigns args :=
      Classical.byContradiction fun hn => hgone (List.mem_map.2 ⟨e, h hn, rfl⟩)
    exact (mem_hangingSigns.1 hm).2
  · intro h
    exact (C10_done_scnRemoveLanelets s args hok).2.1 e.1 (mem_hangingSigns.2 ⟨hin, h⟩)

theorem C10_hanging_iff_light (s : Scn) (args : List RmArg) (hok : (s.removeLanelets args true).2 = none) (e : Elem)
    (he : e ∈ s.net.lights) :
    e.1 ∉ (s.removeLanelets args true).1.net.tids ↔
      (∃ a ∈ args, e.1 ∈ a.lights) ∧ ∀ l ∈ s.net.lanelets, l.id ∉ args.map (·.id) → e.1 ∉ l.lights := by
  have hin : e.1 ∈ s.net.tids := List.mem_map.2 ⟨e, he, rfl⟩
  constructor
  · intro hgone
    have h := (C10_present_scnRemoveLanelets s args true).2.2.1 e he
    have hm : e.1 ∈ s.net.hangingLights args :=
      Classical.byContradiction fun hn => hgone (List.mem_map.2 ⟨e, h hn, rfl⟩)
    exact (mem_hangingLights.1 hm).2
  · intro h
    exact (C10_done_scnRemoveLanelets s args hok).2.2 e.1 (mem_hangingLights.2 ⟨hin, h⟩)

/-- `Scenario.remove_traffic_sign` / `remove_traffic_light` (object or list): only the signs / lights handed in go. -/
theorem C10_present_scnRemoveSigns (s : Scn) (xs : List Id) :
    (s.removeSigns xs).1.net.lids = s.net.lids ∧ (∀ e ∈ s.net.signs, e.1 ∉ xs → e ∈ (s.removeSigns xs).1.net.signs) ∧
    (s.removeSigns xs).1.net.lights = s.net.lights ∧ (s.removeSigns xs).1.net.inters = s.net.inters := by
  refine Scn.loop_inv' loopShape_signs
    (fun m => m.lids = s.net.lids ∧ (∀ e ∈ s.net.signs, e.1 ∉ xs → e ∈ m.signs) ∧ m.lights = s.net.lights ∧
      m.inters = s.net.inters) s xs ?_ ⟨rfl, fun _ h _ => h, rfl, rfl⟩
  rintro m i hi ⟨q1, q2, q3, q4⟩
  refine ⟨(removeSign_lids m i).trans q1, fun e he hne => ?_, (removeSign_lights m i).trans q3,
    (removeSign_inters m i).trans q4⟩
  rw [removeSign_signs, List.mem_filter]
  refine ⟨q2 e he hne, ?_⟩
  simp only [bne_iff_ne, ne_eq]
  intro heq
  exact hne (heq ▸ hi)

theorem C10_present_scnRemoveLights (s : Scn) (xs : List Id) :
    (s.removeLights xs).1.net.lids = s.net.lids ∧ (s.removeLights xs).1.net.signs = s.net.signs ∧
    (∀ e ∈ s.net.lights, e.1 ∉ xs → e ∈ (s.removeLights xs).1.net.lights) ∧
    (s.removeLights xs).1.net.inters = s.net.inters := by
  refine Scn.loop_inv' loopShape_lights
    (fun m => m.lids = s.net.lids ∧ m.signs = s.net.signs ∧ (∀ e ∈ s.net.lights, e.1 ∉ xs → e ∈ m.lights) ∧
      m.inters = s.net.inters) s xs ?_ ⟨rfl, rfl, fun _ h _ => h, rfl⟩
  rintro m i hi ⟨q1, q2, q3, q4⟩
  refine ⟨(removeLight_lids m i).trans q1, q2, fun e he hne => ?_, q4⟩
  rw [removeLight_lights, List.mem_filter]
  refine ⟨q3 e he hne, ?_⟩
  simp only [bne_iff_ne, ne_eq]
  intro heq
  exact hne (heq ▸ hi)

/-- `Scenario.remove_hanging_lanelet_members(args)` called directly: lanelets and intersections stay, only hanging signs /
lights can go -/
theorem C10_present_scnRemoveHanging (s : Scn) (args : List RmArg) :
    (s.removeHanging args).1.net.lids = s.net.lids ∧
    (∀ e ∈ s.net.signs, e.1 ∉ s.net.hangingSigns args → e ∈ (s.removeHanging args).1.net.signs) ∧
    (∀ e ∈ s.net.lights, e.1 ∉ s.net.hangingLights args → e ∈ (s.removeHanging args).1.net.lights) ∧
    (s.removeHanging args).1.net.shapes = s.net.shapes := by
  refine Scn.removeHanging_inv' (fun m => m.lids = s.net.lids ∧
      (∀ e ∈ s.net.signs, e.1 ∉ s.net.hangingSigns args → e ∈ m.signs) ∧
      (∀ e ∈ s.net.lights, e.1 ∉ s.net.hangingLights args → e ∈ m.lights) ∧ m.shapes = s.net.shapes)
    s args ?_ ?_ ⟨rfl, fun _ h _ => h, fun _ h _ => h, rfl⟩
  · rintro m i hi ⟨q1, q2, q3, q4⟩
    refine ⟨(removeSign_lids m i).trans q1, fun e he hne => ?_, ?_, (removeSign_shapes m i).trans q4⟩
    · rw [removeSign_signs, List.mem_filter]
      refine ⟨q2 e he hne, ?_⟩
      simp only [bne_iff_ne, ne_eq]
      intro heq
      exact hne (heq ▸ hi)
    · rw [removeSign_lights]; exact q3
  · rintro m i hi ⟨q1, q2, q3, q4⟩
    refine ⟨(removeLight_lids m i).trans q1, q2, fun e he hne => ?_, q4⟩
    rw [removeLight_lights, List.mem_filter]
    refine ⟨q3 e he hne, ?_⟩
    simp only [bne_iff_ne, ne_eq]
    intro heq
    exact hne (heq ▸ hi)

/-- `Scenario.remove_intersection` (object or list, also when it raises half-way): lanelets, signs and lights stay; an
intersection that was not handed in stays with all its incoming elements -/
theorem C10_present_scnRemoveInters (s : Scn) (xs : List Id) :
    (s.removeInters xs).1.net.lanelets = s.net.lanelets ∧ (s.removeInters xs).1.net.signs = s.net.signs ∧
    (s.removeInters xs).1.net.lights = s.net.lights ∧
    (∀ i ∈ s.net.inters, i.id ∉ xs → i ∈ (s.removeInters xs).1.net.inters) := by
  refine Scn.removeInters_inv' (fun m => m.lanelets = s.net.lanelets ∧ m.signs = s.net.signs ∧ m.lights = s.net.lights ∧
      (∀ i ∈ s.net.inters, i.id ∉ xs → i ∈ m.inters)) s xs ?_ ⟨rfl, rfl, rfl, fun _ h _ => h⟩
  rintro m x hx ⟨q1, q2, q3, q4⟩
  refine ⟨q1, q2, q3, fun i hi hne => List.mem_filter.2 ⟨q4 i hi hne, ?_⟩⟩
  simp only [bne_iff_ne, ne_eq]
  rintro rfl
  exact hne hx

theorem C10_present_scnRemoveInter (s : Scn) (x : Id) :
    (s.removeInter x).1.net = s.net.removeInter x := Scn.removeInter_net s x

/-- `create_from_lanelet_network` (any `cleanup_ids`, arbitrary filter result `keep`): the lanelets of the new network
are exactly those that pass the filter; a sign / light is taken over exactly when a kept lanelet references it; an
incoming element is taken over **exactly when** it keeps an incoming lanelet and a successor, and an intersection
exactly when one of its incoming elements is taken over. -/
theorem C10_present_cutOut {n n' : Net} {keep : Id → Bool} {c : Bool} (h : n.cutOut keep c = .ok n') :
    n'.lids = n.lids.filter keep ∧
    (∀ e, e ∈ n'.signs ↔ e ∈ n.signs ∧ ∃ l ∈ n.lanelets, keep l.id = true ∧ e.1 ∈ l.signs) ∧
    (∀ e, e ∈ n'.lights ↔ e ∈ n.lights ∧ ∃ l ∈ n.lanelets, keep l.id = true ∧ e.1 ∈ l.lights) ∧
    (∀ x kid, n'.hasInc x kid ↔ ∃ i ∈ n.inters, i.id = x ∧ ∃ k ∈ i.incomings, k.id = kid ∧
      (∃ a ∈ k.inc, a ∈ n'.lids) ∧ (∃ a ∈ k.right ++ k.straight ++ k.left, a ∈ n'.lids)) ∧
    (∀ x, x ∈ n'.iids ↔ ∃ i ∈ n.inters, i.id = x ∧ ∃ k ∈ i.incomings,
      (∃ a ∈ k.inc, a ∈ n'.lids) ∧ (∃ a ∈ k.right ++ k.straight ++ k.left, a ∈ n'.lids)) := by
  refine ⟨cutOut_lids h, cutOut_signs h, cutOut_lights h, fun x kid => ⟨?_, ?_⟩, fun x => ⟨?_, ?_⟩⟩
  · rintro ⟨i', hi', rfl, k', hk', rfl⟩
    obtain ⟨i, hi, hid, _, hks⟩ := cutOut_inter_origin h hi'
    obtain ⟨k, hk, hkid, h1, h2⟩ := hks k' hk'
    exact ⟨i, hi, hid, k, hk, hkid, h1, h2⟩
  · rintro ⟨i, hi, rfl, k, hk, rfl, h1, h2⟩
    obtain ⟨i', hi', hid, k', hk', hkid⟩ := cutOut_inter_present h hi hk h1 h2
    exact ⟨i', hi', hid, k', hk', hkid⟩
  · intro hx
    obtain ⟨i', hi', rfl⟩ := List.mem_map.1 hx
    obtain ⟨i, hi, hid, ⟨k0, hk0⟩, hks⟩ := cutOut_inter_origin h hi'
    obtain ⟨k, hk, _, h1, h2⟩ := hks k0 hk0
    exact ⟨i, hi, hid, k, hk, h1, h2⟩
  · rintro ⟨i, hi, rfl, k, hk, h1, h2⟩
    obtain ⟨i', hi', hid, _⟩ := cutOut_inter_present h hi hk h1 h2
    exact List.mem_map.2 ⟨i', hi', hid⟩

/-- a cut-out of a well-formed network without dangling references never raises -/
theorem C10_cutOut_total {n : Net} (hnd : NoDangling n) (keep : Id → Bool) (c : Bool) : ∃ n', n.cutOut keep c = .ok n' := by
  unfold Net.cutOut
  have h1 : ((n.cutKept keep).flatMap (·.signs)).all (fun a => n.sids.contains a) = true := by
    simp only [List.all_eq_true, List.mem_flatMap, contains_eq_true_iff]
    rintro a ⟨l, hl, ha⟩
    exact hnd.2.1 l (List.mem_filter.1 hl).1 a (List.mem_append_left _ ha)
  have h2 : ((n.cutKept keep).flatMap (·.lights)).all (fun a => n.tids.contains a) = true := by
    simp only [List.all_eq_true, List.mem_flatMap, contains_eq_true_iff]
    rintro a ⟨l, hl, ha⟩
    exact hnd.2.2.1 l (List.mem_filter.1 hl).1 a (List.mem_append_left _ ha)
  dsimp only
  rw [h1, h2]
  exact ⟨_, rfl⟩

/-- `create_from_lanelet_list`: exactly the selected lanelets of the network; no sign, light or intersection. -/
theorem C10_present_fromList (n : Net) (sel : List Id) (c : Bool) :
    (∀ a, a ∈ (n.fromList sel c).lids ↔ a ∈ sel ∧ a ∈ n.lids) ∧ (n.fromList sel c).signs = [] ∧
    (n.fromList sel c).lights = [] ∧ (n.fromList sel c).inters = [] := by
  refine ⟨fromList_lids n sel c, ?_, ?_, ?_⟩ <;> (unfold Net.fromList; cases c <;> rfl)

/-! ## The scenario-level precondition under which `Scenario.remove_lanelet` returns normally -/

/-- Id-pool consistency of a scenario (the invariant of property C09 — `C09_inv_run` proves it for every history of
`Scenario` operations over C09's own model — restricted to the lanelet network): the ids of all lanelets, signs, lights,
intersections and incoming elements are pairwise different and all recorded in `Scenario._id_set`.  It is the
scenario-level precondition under which `Scenario.remove_lanelet` returns normally (`C10_removeLanelets_ok`); its
preservation along histories is cited from C09, not re-proved here (`C10_idpool_fresh` covers the fresh scenario the
history builds after each cut-out). -/
def IdPool (s : Scn) : Prop := Uniq s.net ∧ ∀ x ∈ s.net.allIds, x ∈ s.ids

/-- **`hok` discharged**: on a scenario with a consistent id pool, `Scenario.remove_lanelet(args, True)` does not raise
when the lanelets handed in are pairwise different lanelets of the network. -/
theorem C10_removeLanelets_ok (s : Scn) (args : List RmArg) (hp : IdPool s) (hnd : (args.map (·.id)).Nodup)
    (hin : ∀ a ∈ args, a.id ∈ s.net.lids) : (s.removeLanelets args true).2 = none := by
  obtain ⟨hu, hids⟩ := hp
  obtain ⟨_, us, ut, _, dls, dlt, dst⟩ := uniq_parts hu
  have inL : ∀ x ∈ s.net.lids, x ∈ s.ids := fun x hx => hids x (by simp [Net.allIds, hx])
  have inS : ∀ x ∈ s.net.sids, x ∈ s.ids := fun x hx => hids x (by simp [Net.allIds, hx])
  have inT : ∀ x ∈ s.net.tids, x ∈ s.ids := fun x hx => hids x (by simp [Net.allIds, hx])
  have hsS : ∀ x ∈ s.net.hangingSigns args, x ∈ s.net.sids := fun x hx => (mem_hangingSigns.1 hx).1
  have hsT : ∀ x ∈ s.net.hangingLights args, x ∈ s.net.tids := fun x hx => (mem_hangingLights.1 hx).1
  have ndS : (s.net.hangingSigns args).Nodup := List.Nodup.sublist List.filter_sublist us
  have ndT : (s.net.hangingLights args).Nodup := List.Nodup.sublist List.filter_sublist ut
  have kS : ∀ m i j, j ≠ i → j ∈ Net.sids m → j ∈ Net.sids (Net.removeSign m i) := fun m i j hne hj => by
    rw [removeSign_sids, List.mem_filter]; exact ⟨hj, by simpa using hne⟩
  have kT : ∀ m i j, j ≠ i → j ∈ Net.tids m → j ∈ Net.tids (Net.removeLight m i) := fun m i j hne hj => by
    rw [removeLight_tids, List.mem_filter]; exact ⟨hj, by simpa using hne⟩
  have kL : ∀ m i j, j ≠ i → j ∈ Net.lids m → j ∈ Net.lids (Net.removeLanelet m i) := fun m i j hne hj => by
    rw [removeLanelet_lids, List.mem_filter]; exact ⟨hj, by simpa using hne⟩
  have o1 := Scn.loop_ok loopShape_signs kS s _ ndS hsS (fun x hx => inS x (hsS x hx))
  have t1 := Scn.removeSigns_inv (fun m => m.tids = s.net.tids ∧ m.lids = s.net.lids)
    (fun m i h => ⟨(removeSign_tids m i).trans h.1, (removeSign_lids m i).trans h.2⟩) s (s.net.hangingSigns args) ⟨rfl, rfl⟩
  unfold Scn.removeLanelets Scn.removeHanging
  simp only [if_true]
  cases hr : s.removeSigns (s.net.hangingSigns args) with
  | mk s1 e1 =>
    rw [hr] at o1 t1
    obtain ⟨o1e, o1i⟩ := o1
    simp only at o1e o1i
    subst o1e
    dsimp only
    have o2 := Scn.loop_ok loopShape_lights kT s1 _ ndT (fun x hx => by rw [t1.1]; exact hsT x hx)
      (fun x hx => (o1i x).2 ⟨inT x (hsT x hx), fun hc => dst x (hsS x hc) (hsT x hx)⟩)
    have t2 := Scn.removeLights_inv (fun m => m.lids = s.net.lids)
      (fun m i h => (removeLight_lids m i).trans h) s1 (s.net.hangingLights args) t1.2
    cases hr2 : s1.removeLights (s.net.hangingLights args) with
    | mk s2 e2 =>
      rw [hr2] at o2 t2
      obtain ⟨o2e, o2i⟩ := o2
      simp only at o2e o2i
      subst o2e
      dsimp only
      refine (Scn.loop_ok loopShape_lanelets kL s2 _ hnd (fun x hx => ?_) ?_).1
      · obtain ⟨a, ha, rfl⟩ := List.mem_map.1 hx
        rw [t2]; exact hin a ha
      intro x hx
      obtain ⟨a, ha, rfl⟩ := List.mem_map.1 hx
      have hl := hin a ha
      exact (o2i _).2 ⟨(o1i _).2 ⟨inL _ hl, fun hc => dls _ hl (hsS _ hc)⟩, fun hc => dlt _ hl (hsT _ hc)⟩

/-- **hanging, "iff", with the precondition spelled out**: consistent id pool, pairwise different lanelets of the network
handed in. -/
theorem C10_hanging_iff_idpool (s : Scn) (args : List RmArg) (hp : IdPool s) (hnd : (args.map (·.id)).Nodup)
    (hin : ∀ a ∈ args, a.id ∈ s.net.lids) (e : Elem) (he : e ∈ s.net.signs) :
    e.1 ∉ (s.removeLanelets args true).1.net.sids ↔
      (∃ a ∈ args, e.1 ∈ a.signs) ∧ ∀ l ∈ s.net.lanelets, l.id ∉ args.map (·.id) → e.1 ∉ l.signs :=
  C10_hanging_iff s args (C10_removeLanelets_ok s args hp hnd hin) e he

theorem C10_hanging_iff_light_idpool (s : Scn) (args : List RmArg) (hp : IdPool s) (hnd : (args.map (·.id)).Nodup)
    (hin : ∀ a ∈ args, a.id ∈ s.net.lids) (e : Elem) (he : e ∈ s.net.lights) :
    e.1 ∉ (s.removeLanelets args true).1.net.tids ↔
      (∃ a ∈ args, e.1 ∈ a.lights) ∧ ∀ l ∈ s.net.lanelets, l.id ∉ args.map (·.id) → e.1 ∉ l.lights :=
  C10_hanging_iff_light s args (C10_removeLanelets_ok s args hp hnd hin) e he

/-- a fresh scenario built from a network with unique ids (`add_objects(network)`, what the history does after every
cut-out) has a consistent id pool -/
theorem C10_idpool_fresh (n : Net) (hu : Uniq n) : IdPool { net := n, ids := n.allIds } := ⟨hu, fun _ h => h⟩

/-! ## Presence at history level: what was never selected for removal is still there, with equal content -/

/-- a cut-out drops an incoming element that keeps no incoming lanelet or no successor (`L` = the kept lanelets) -/
def cutDrops (L : Id → Prop) (k : Incoming) : Prop :=
  (∀ a ∈ k.inc, ¬ L a) ∨ (∀ a ∈ k.right ++ k.straight ++ k.left, ¬ L a)

/-- lanelet ids an operation selects for removal -/
def Op.selL (_ : Scn) : Op → Id → Prop
  | .netRemoveLanelet x, a => a = x
  | .scnRemoveLanelets args _, a => a ∈ args.map (·.id)
  | .cutOut keep _, a => a ∉ keep
  | .fromList sel _, a => a ∉ sel
  | _, _ => False

/-- sign ids an operation selects for removal (with a lanelet: the hanging ones; in a cut-out: those no kept lanelet
references; `create_from_lanelet_list` takes no sign at all) -/
def Op.selS (s : Scn) : Op → Id → Prop
  | .netRemoveSign x, t => t = x
  | .scnRemoveSigns xs, t => t ∈ xs
  | .scnRemoveLanelets args r, t => r = true ∧ t ∈ s.net.hangingSigns args
  | .scnRemoveHanging args, t => t ∈ s.net.hangingSigns args
  | .cutOut keep _, t => ¬ ∃ l ∈ s.net.lanelets, keep.contains l.id = true ∧ t ∈ l.signs
  | .fromList _ _, _ => True
  | _, _ => False

def Op.selT (s : Scn) : Op → Id → Prop
  | .netRemoveLight x, t => t = x
  | .scnRemoveLights xs, t => t ∈ xs
  | .scnRemoveLanelets args r, t => r = true ∧ t ∈ s.net.hangingLights args
  | .scnRemoveHanging args, t => t ∈ s.net.hangingLights args
  | .cutOut keep _, t => ¬ ∃ l ∈ s.net.lanelets, keep.contains l.id = true ∧ t ∈ l.lights
  | .fromList _ _, _ => True
  | _, _ => False

/-- (intersection id, incoming id) pairs an operation selects for removal -/
def Op.selK (s : Scn) : Op → Id × Id → Prop
  | .netRemoveInter x, y => y.1 = x
  | .scnRemoveInters xs, y => y.1 ∈ xs
  | .cutOut keep _, y => ∀ i ∈ s.net.inters, i.id = y.1 → ∀ k ∈ i.incomings, k.id = y.2 →
      cutDrops (fun a => a ∈ s.net.lids ∧ keep.contains a = true) k
  | .fromList _ _, _ => True
  | _, _ => False

/-- intersection ids an operation selects for removal (in a cut-out: all incoming elements are dropped) -/
def Op.selI (s : Scn) : Op → Id → Prop
  | .netRemoveInter x, y => y = x
  | .scnRemoveInters xs, y => y ∈ xs
  | .cutOut keep _, y => ∀ i ∈ s.net.inters, i.id = y → ∀ k ∈ i.incomings,
      cutDrops (fun a => a ∈ s.net.lids ∧ keep.contains a = true) k
  | .fromList _ _, _ => True
  | _, _ => False

theorem cutDropsB_iff (L : Id → Bool) (k : Incoming) : cutDropsB L k = true ↔ cutDrops (fun a => L a = true) k := by
  simp [cutDropsB, cutDrops, List.all_eq_true]
  grind

/-- the executable selection functions of the model (`Op.sel?B`, compared with the oracle's reading of "selected for
removal" on every step of every history) decide the selection predicates used below -/
theorem C10_sel_bool_iff (s : Scn) (op : Op) :
    (∀ a, op.selLB s a = true ↔ op.selL s a) ∧ (∀ t, op.selSB s t = true ↔ op.selS s t) ∧
    (∀ t, op.selTB s t = true ↔ op.selT s t) ∧ (∀ y, op.selIB s y = true ↔ op.selI s y) ∧
    (∀ y, op.selKB s y = true ↔ op.selK s y) := by
  refine ⟨fun a => ?_, fun t => ?_, fun t => ?_, fun y => ?_, fun y => ?_⟩
  · cases op <;> simp [Op.selLB, Op.selL]
  · cases op <;> simp [Op.selSB, Op.selS]
  · cases op <;> simp [Op.selTB, Op.selT]
  · cases op <;> simp [Op.selIB, Op.selI, cutDropsB_iff, List.all_eq_true] <;> grind
  · cases op <;> simp [Op.selKB, Op.selK, cutDropsB_iff, List.all_eq_true] <;> grind

/-- `a` is selected for removal by no operation of the history (selection evaluated in the state the operation meets) -/
def NeverSel {α : Type} (sel : Scn → Op → α → Prop) : Scn → List Op → α → Prop
  | _, [], _ => True
  | s, o :: os, a => ¬ sel s o a ∧ NeverSel sel (s.step o).1 os a

theorem neverSel_run {α : Type} (sel : Scn → Op → α → Prop) (a : α) (P : Net → Prop)
    (hstep : ∀ s op, P s.net → ¬ sel s op a → P (s.step op).1.net) :
    ∀ (s : Scn) (ops : List Op), P s.net → NeverSel sel s ops a → P (s.run ops).net := by
  intro s ops
  induction ops generalizing s with
  | nil => intro h _; exact h
  | cons o os ih => intro h hn; exact ih (s.step o).1 (hstep s o h hn.1) hn.2

theorem step_cutOut_eq (s : Scn) (keep : List Id) (c : Bool) :
    (s.step (.cutOut keep c)).1.net = (match s.net.cutOut (fun a => keep.contains a) c with
      | .ok n' => n'
      | .error _ => s.net) := by
  show (match s.net.cutOut (fun a => keep.contains a) c with
      | .ok n' => (({ net := n', ids := n'.allIds } : Scn), (none : Option Err))
      | .error e => (s, some e)).1.net = _
  cases s.net.cutOut (fun a => keep.contains a) c <;> rfl

theorem not_cutDrops {L : Id → Prop} {k : Incoming} (h : ¬ cutDrops L k) :
    (∃ a ∈ k.inc, L a) ∧ (∃ a ∈ k.right ++ k.straight ++ k.left, L a) := by
  unfold cutDrops at h
  constructor
  · exact Classical.byContradiction fun hn => h (Or.inl fun a ha hl => hn ⟨a, ha, hl⟩)
  · exact Classical.byContradiction fun hn => h (Or.inr fun a ha hl => hn ⟨a, ha, hl⟩)

/-- one step: a lanelet that the operation does not select stays -/
theorem C10_present_step_lanelet (s : Scn) (op : Op) (a : Id) (ha : a ∈ s.net.lids) (hs : ¬ op.selL s a) :
    a ∈ (s.step op).1.net.lids := by
  cases op with
  | netRemoveLanelet x =>
    show a ∈ (s.net.removeLanelet x).lids
    rw [removeLanelet_lids, List.mem_filter]; exact ⟨ha, by simpa [Op.selL] using hs⟩
  | netRemoveSign x => show a ∈ (s.net.removeSign x).lids; rw [removeSign_lids]; exact ha
  | netRemoveLight x => show a ∈ (s.net.removeLight x).lids; rw [removeLight_lids]; exact ha
  | netRemoveInter x => exact ha
  | scnRemoveLanelets args r => exact (C10_present_scnRemoveLanelets s args r).1 a ha hs
  | scnRemoveSigns xs => show a ∈ (s.removeSigns xs).1.net.lids; rw [(C10_present_scnRemoveSigns s xs).1]; exact ha
  | scnRemoveLights xs => show a ∈ (s.removeLights xs).1.net.lids; rw [(C10_present_scnRemoveLights s xs).1]; exact ha
  | scnRemoveInters xs =>
    show a ∈ (s.removeInters xs).1.net.lids
    unfold Net.lids; rw [(C10_present_scnRemoveInters s xs).1]; exact ha
  | scnRemoveHanging args => show a ∈ (s.removeHanging args).1.net.lids; rw [(C10_present_scnRemoveHanging s args).1]; exact ha
  | cutOut keep c =>
    rw [step_cutOut_eq]
    cases hr : s.net.cutOut (fun a => keep.contains a) c with
    | ok n' =>
      show a ∈ n'.lids
      rw [cutOut_lids hr, List.mem_filter]
      exact ⟨ha, by simpa [Op.selL] using hs⟩
    | error e => exact ha
  | fromList sel c =>
    show a ∈ (s.net.fromList sel c).lids
    rw [fromList_lids]
    exact ⟨by simpa [Op.selL] using hs, ha⟩

/-- one step: a sign (id and content) that the operation does not select stays -/
theorem C10_present_step_sign (s : Scn) (op : Op) (e : Elem) (he : e ∈ s.net.signs) (hs : ¬ op.selS s e.1) :
    e ∈ (s.step op).1.net.signs := by
  cases op with
  | netRemoveLanelet x => show e ∈ (s.net.removeLanelet x).signs; rw [removeLanelet_signs]; exact he
  | netRemoveSign x =>
    show e ∈ (s.net.removeSign x).signs
    rw [removeSign_signs, List.mem_filter]; exact ⟨he, by simpa [Op.selS] using hs⟩
  | netRemoveLight x => exact he
  | netRemoveInter x => exact he
  | scnRemoveLanelets args r =>
    cases r
    · show e ∈ (s.removeLanelets args false).1.net.signs
      rw [(C10_present_scnRemoveLanelets_unreferenced s args).1]; exact he
    · exact (C10_present_scnRemoveLanelets s args true).2.1 e he (fun hm => hs ⟨rfl, hm⟩)
  | scnRemoveSigns xs => exact (C10_present_scnRemoveSigns s xs).2.1 e he hs
  | scnRemoveLights xs => show e ∈ (s.removeLights xs).1.net.signs; rw [(C10_present_scnRemoveLights s xs).2.1]; exact he
  | scnRemoveInters xs => show e ∈ (s.removeInters xs).1.net.signs; rw [(C10_present_scnRemoveInters s xs).2.1]; exact he
  | scnRemoveHanging args => exact (C10_present_scnRemoveHanging s args).2.1 e he hs
  | cutOut keep c =>
    rw [step_cutOut_eq]
    cases hr : s.net.cutOut (fun a => keep.contains a) c with
    | ok n' =>
      show e ∈ n'.signs
      rw [cutOut_signs hr]
      exact ⟨he, Classical.byContradiction fun hn => hs hn⟩
    | error e' => exact he
  | fromList sel c => exact absurd trivial hs

theorem C10_present_step_light (s : Scn) (op : Op) (e : Elem) (he : e ∈ s.net.lights) (hs : ¬ op.selT s e.1) :
    e ∈ (s.step op).1.net.lights := by
  cases op with
  | netRemoveLanelet x => show e ∈ (s.net.removeLanelet x).lights; rw [removeLanelet_lights]; exact he
  | netRemoveSign x => show e ∈ (s.net.removeSign x).lights; rw [removeSign_lights]; exact he
  | netRemoveLight x =>
    show e ∈ (s.net.removeLight x).lights
    rw [removeLight_lights, List.mem_filter]; exact ⟨he, by simpa [Op.selT] using hs⟩
  | netRemoveInter x => exact he
  | scnRemoveLanelets args r =>
    cases r
    · show e ∈ (s.removeLanelets args false).1.net.lights
      rw [(C10_present_scnRemoveLanelets_unreferenced s args).2]; exact he
    · exact (C10_present_scnRemoveLanelets s args true).2.2.1 e he (fun hm => hs ⟨rfl, hm⟩)
  | scnRemoveSigns xs => show e ∈ (s.removeSigns xs).1.net.lights; rw [(C10_present_scnRemoveSigns s xs).2.2.1]; exact he
  | scnRemoveLights xs => exact (C10_present_scnRemoveLights s xs).2.2.1 e he hs
  | scnRemoveInters xs => show e ∈ (s.removeInters xs).1.net.lights; rw [(C10_present_scnRemoveInters s xs).2.2.1]; exact he
  | scnRemoveHanging args => exact (C10_present_scnRemoveHanging s args).2.2.1 e he hs
  | cutOut keep c =>
    rw [step_cutOut_eq]
    cases hr : s.net.cutOut (fun a => keep.contains a) c with
    | ok n' =>
      show e ∈ n'.lights
      rw [cutOut_lights hr]
      exact ⟨he, Classical.byContradiction fun hn => hs hn⟩
    | error e' => exact he
  | fromList sel c => exact absurd trivial hs

/-- one step: an incoming element (with its intersection) that the operation does not select stays -/
theorem C10_present_step_incoming (s : Scn) (op : Op) (y : Id × Id) (hy : s.net.hasInc y.1 y.2) (hs : ¬ op.selK s y) :
    (s.step op).1.net.hasInc y.1 y.2 := by
  have viaShapes : ∀ n' : Net, n'.shapes = s.net.shapes → n'.hasInc y.1 y.2 :=
    fun n' h => (hasInc_of_shapes_eq h _ _).2 hy
  cases op with
  | netRemoveLanelet x => exact viaShapes _ (removeLanelet_shapes _ x)
  | netRemoveSign x => exact viaShapes _ (removeSign_shapes _ x)
  | netRemoveLight x => exact viaShapes _ (removeLight_shapes _ x)
  | netRemoveInter x =>
    obtain ⟨i, hi, hid, hk⟩ := hy
    exact ⟨i, List.mem_filter.2 ⟨hi, by simpa [Op.selK, hid] using hs⟩, hid, hk⟩
  | scnRemoveLanelets args r => exact viaShapes _ (C10_present_scnRemoveLanelets s args r).2.2.2
  | scnRemoveSigns xs => exact viaShapes _ (shapes_of_inters_eq (C10_present_scnRemoveSigns s xs).2.2.2)
  | scnRemoveLights xs => exact viaShapes _ (shapes_of_inters_eq (C10_present_scnRemoveLights s xs).2.2.2)
  | scnRemoveInters xs =>
    obtain ⟨i, hi, hid, hk⟩ := hy
    exact ⟨i, (C10_present_scnRemoveInters s xs).2.2.2 i hi (by simpa [Op.selK, hid] using hs), hid, hk⟩
  | scnRemoveHanging args => exact viaShapes _ (C10_present_scnRemoveHanging s args).2.2.2
  | cutOut keep c =>
    rw [step_cutOut_eq]
    cases hr : s.net.cutOut (fun a => keep.contains a) c with
    | ok n' =>
      show n'.hasInc y.1 y.2
      have hsel : ¬ ∀ i ∈ s.net.inters, i.id = y.1 → ∀ k ∈ i.incomings, k.id = y.2 →
          cutDrops (fun a => a ∈ s.net.lids ∧ keep.contains a = true) k := hs
      have : ∃ i ∈ s.net.inters, i.id = y.1 ∧ ∃ k ∈ i.incomings, k.id = y.2 ∧
          ¬ cutDrops (fun a => a ∈ s.net.lids ∧ keep.contains a = true) k :=
        Classical.byContradiction fun hn => hsel fun i hi hid k hk hkid =>
          Classical.byContradiction fun hd => hn ⟨i, hi, hid, k, hk, hkid, hd⟩
      obtain ⟨i, hi, hid, k, hk, hkid, hd⟩ := this
      obtain ⟨⟨a, ha, hla⟩, ⟨b, hb, hlb⟩⟩ := not_cutDrops hd
      have hl := cutOut_lids hr
      refine ((C10_present_cutOut hr).2.2.2.1 y.1 y.2).2 ⟨i, hi, hid, k, hk, hkid, ⟨a, ha, ?_⟩, ⟨b, hb, ?_⟩⟩
      · rw [hl, List.mem_filter]; exact hla
      · rw [hl, List.mem_filter]; exact hlb
    | error e' => exact hy
  | fromList sel c => exact absurd trivial hs

/-- one step: an intersection that the operation does not select stays -/
theorem C10_present_step_inter (s : Scn) (op : Op) (x : Id) (hx : x ∈ s.net.iids) (hs : ¬ op.selI s x) :
    x ∈ (s.step op).1.net.iids := by
  have viaShapes : ∀ n' : Net, n'.shapes = s.net.shapes → x ∈ n'.iids :=
    fun n' h => by rw [iids_of_shapes_eq h]; exact hx
  cases op with
  | netRemoveLanelet x' => exact viaShapes _ (removeLanelet_shapes _ x')
  | netRemoveSign x' => exact viaShapes _ (removeSign_shapes _ x')
  | netRemoveLight x' => exact viaShapes _ (removeLight_shapes _ x')
  | netRemoveInter x' =>
    obtain ⟨i, hi, hid⟩ := List.mem_map.1 hx
    exact List.mem_map.2 ⟨i, List.mem_filter.2 ⟨hi, by simpa [Op.selI, hid] using hs⟩, hid⟩
  | scnRemoveLanelets args r => exact viaShapes _ (C10_present_scnRemoveLanelets s args r).2.2.2
  | scnRemoveSigns xs => exact viaShapes _ (shapes_of_inters_eq (C10_present_scnRemoveSigns s xs).2.2.2)
  | scnRemoveLights xs => exact viaShapes _ (shapes_of_inters_eq (C10_present_scnRemoveLights s xs).2.2.2)
  | scnRemoveInters xs =>
    obtain ⟨i, hi, hid⟩ := List.mem_map.1 hx
    exact List.mem_map.2 ⟨i, (C10_present_scnRemoveInters s xs).2.2.2 i hi (by simpa [Op.selI, hid] using hs), hid⟩
  | scnRemoveHanging args => exact viaShapes _ (C10_present_scnRemoveHanging s args).2.2.2
  | cutOut keep c =>
    rw [step_cutOut_eq]
    cases hr : s.net.cutOut (fun a => keep.contains a) c with
    | ok n' =>
      show x ∈ n'.iids
      have hsel : ¬ ∀ i ∈ s.net.inters, i.id = x → ∀ k ∈ i.incomings,
          cutDrops (fun a => a ∈ s.net.lids ∧ keep.contains a = true) k := hs
      have : ∃ i ∈ s.net.inters, i.id = x ∧ ∃ k ∈ i.incomings,
          ¬ cutDrops (fun a => a ∈ s.net.lids ∧ keep.contains a = true) k :=
        Classical.byContradiction fun hn => hsel fun i hi hid k hk =>
          Classical.byContradiction fun hd => hn ⟨i, hi, hid, k, hk, hd⟩
      obtain ⟨i, hi, hid, k, hk, hd⟩ := this
      obtain ⟨⟨a, ha, hla⟩, ⟨b, hb, hlb⟩⟩ := not_cutDrops hd
      have hl := cutOut_lids hr
      refine ((C10_present_cutOut hr).2.2.2.2 x).2 ⟨i, hi, hid, k, hk, ⟨a, ha, ?_⟩, ⟨b, hb, ?_⟩⟩
      · rw [hl, List.mem_filter]; exact hla
      · rw [hl, List.mem_filter]; exact hlb
    | error e' => exact hx
  | fromList sel c => exact absurd trivial hs

/-- **After any history, every element that no operation selected for removal is still present with equal content.**
Start network with pairwise different ids (`Uniq`), `cleanup_ids=True`; nothing is assumed about dangling references.
* lanelet: the *old lanelet itself* is framed by a lanelet of the final network (same id, same content, relations
  restricted to what is left);
* sign / light: the very same (id, content) pair is in the final network;
* intersection: the old intersection itself is framed by one of the final network (same id, crossings restricted);
* incoming element: the old incoming element itself is framed by one of the final network inside the intersection with
  the same id (same incoming id, same `left_of`, sets restricted). -/
theorem C10_present_run (s : Scn) (ops : List Op) (hu : Uniq s.net) (hc : ∀ op ∈ ops, op.cleans) :
    (∀ l ∈ s.net.lanelets, NeverSel Op.selL s ops l.id →
      ∃ l' ∈ (s.run ops).net.lanelets,
        LaneletFrame (· ∈ (s.run ops).net.lids) (· ∈ (s.run ops).net.sids) (· ∈ (s.run ops).net.tids) l l') ∧
    (∀ e ∈ s.net.signs, NeverSel Op.selS s ops e.1 → e ∈ (s.run ops).net.signs) ∧
    (∀ e ∈ s.net.lights, NeverSel Op.selT s ops e.1 → e ∈ (s.run ops).net.lights) ∧
    (∀ i ∈ s.net.inters, NeverSel Op.selI s ops i.id →
      ∃ i' ∈ (s.run ops).net.inters, InterFrame (· ∈ (s.run ops).net.lids) i i') ∧
    (∀ i ∈ s.net.inters, ∀ k ∈ i.incomings, NeverSel Op.selK s ops (i.id, k.id) →
      ∃ i' ∈ (s.run ops).net.inters, i'.id = i.id ∧ ∃ k' ∈ i'.incomings, IncFrame (· ∈ (s.run ops).net.lids) k k') := by
  have f := C10_frame_run s ops hc
  obtain ⟨ul, _, _, ui, _⟩ := uniq_parts hu
  obtain ⟨uii, uik⟩ := interIds_parts ui
  have ul' : (s.net.lanelets.map (·.id)).Nodup := ul
  refine ⟨fun l hl hn => ?_, fun e he hn => ?_, fun e he hn => ?_, fun i hi hn => ?_, fun i hi k hk hn => ?_⟩
  · have hp := neverSel_run Op.selL l.id (fun n => l.id ∈ n.lids)
      (fun s op h hs => C10_present_step_lanelet s op l.id h hs) s ops (List.mem_map.2 ⟨l, hl, rfl⟩) hn
    obtain ⟨l', hl', hid⟩ := List.mem_map.1 hp
    obtain ⟨l0, hl0, lf⟩ := f.lan l' hl'
    have : l0 = l := eq_of_nodup_map (·.id) ul' hl0 hl (lf.id.symm.trans hid)
    exact ⟨l', hl', this ▸ lf⟩
  · exact neverSel_run Op.selS e.1 (fun n => e ∈ n.signs)
      (fun s op h hs => C10_present_step_sign s op e h hs) s ops he hn
  · exact neverSel_run Op.selT e.1 (fun n => e ∈ n.lights)
      (fun s op h hs => C10_present_step_light s op e h hs) s ops he hn
  · have hp := neverSel_run Op.selI i.id (fun n => i.id ∈ n.iids)
      (fun s op h hs => C10_present_step_inter s op i.id h hs) s ops (List.mem_map.2 ⟨i, hi, rfl⟩) hn
    obtain ⟨i', hi', hid⟩ := List.mem_map.1 hp
    obtain ⟨i0, hi0, jf⟩ := f.inter i' hi'
    have : i0 = i := eq_of_nodup_map (·.id) uii hi0 hi (jf.id.symm.trans hid)
    exact ⟨i', hi', this ▸ jf⟩
  · have hp := neverSel_run Op.selK (i.id, k.id) (fun n => n.hasInc i.id k.id)
      (fun s op h hs => C10_present_step_incoming s op (i.id, k.id) h hs) s ops ⟨i, hi, rfl, k, hk, rfl⟩ hn
    obtain ⟨i', hi', hid, k', hk', hkid⟩ := hp
    obtain ⟨i0, hi0, jf⟩ := f.inter i' hi'
    have e0 : i0 = i := eq_of_nodup_map (·.id) uii hi0 hi (jf.id.symm.trans hid)
    subst e0
    obtain ⟨k0, hk0, kf⟩ := jf.incs k' hk'
    have e1 : k0 = k := eq_of_nodup_map (·.id) (uik i0 hi) hk0 hk (kf.id.symm.trans hkid)
    exact ⟨i', hi', hid, k', hk', e1 ▸ kf⟩

/-- per-step form of the lanelet clause, kept for reference: with unique lanelet ids the old lanelet itself is framed -/
theorem C10_unselected_unchanged {n n' : Net} (hn : n.lids.Nodup) (f : Frame n n') {l : Lanelet} (hl : l ∈ n.lanelets)
    (hs : l.id ∈ n'.lids) :
    ∃ l' ∈ n'.lanelets, LaneletFrame (· ∈ n'.lids) (· ∈ n'.sids) (· ∈ n'.tids) l l' := by
  obtain ⟨l', hl', hid⟩ := List.mem_map.1 hs
  obtain ⟨l0, hl0, lf⟩ := f.lan l' hl'
  have hn' : (n.lanelets.map (·.id)).Nodup := hn
  have : l0 = l := eq_of_nodup_map (·.id) hn' hl0 hl (lf.id.symm.trans hid)
  exact ⟨l', hl', this ▸ lf⟩

/-! ## Non-vacuity: a concrete well-formed network, and what goes wrong outside the hypotheses -/

namespace Ex

def la (id : Id) (pred succ : List Id) (adjL adjR : Option Id) (signs lights : List Id) (stop : Option StopLine) : Lanelet :=
  { id := id, content := 100 + id, pred := pred, succ := succ, adjL := adjL, adjLSame := adjL.map fun _ => true,
    adjR := adjR, adjRSame := adjR.map fun _ => false, signs := signs, lights := lights, stop := stop }

/-- 1 → 2 → 3, 4 left of 2 (mutual adjacency), sign 10 shared by 1 and 2, sign 11 only on 2, light 20 on 2 and 3,
stop line on 2 referring to sign 11 and light 20, one intersection whose incomings span lanelets 1..4. -/
def net : Net :=
  { lanelets := [la 1 [] [2] none none [10] [] none,
                 la 2 [1] [3, 3] (some 4) none [10, 11] [20] (some { signRef := some [11], lightRef := some [20] }),
                 la 3 [2] [] none none [] [20] (some { signRef := none, lightRef := some [] }),
                 la 4 [] [] none (some 2) [] [] none]
    signs := [(10, 7), (11, 8)]
    lights := [(20, 9)]
    inters := [{ id := 30, crossings := [4],
                 incomings := [{ id := 31, inc := [1], right := [], straight := [2], left := [4], leftOf := some 32 },
                               { id := 32, inc := [4], right := [3], straight := [], left := [], leftOf := none }] }] }

def scn : Scn := { net := net, ids := net.allIds }

example : Inv net := by unfold Inv; decide
example : net.lids.Nodup := by decide
-- the hypotheses of the step / run theorems are met by a history that uses every kind of operation
example : ∀ op ∈ [Op.scnRemoveLanelets [⟨2, [10, 11], [20]⟩] true, .netRemoveSign 10, .cutOut [1, 3, 4] true,
    .netRemoveLight 20, .scnRemoveInters [30], .scnRemoveHanging [⟨1, [10], []⟩], .fromList [1, 4] true], op.cleans := by decide
-- removing lanelet 2 with its referenced elements: sign 11 (only on 2) goes, sign 10 (shared with 1) and light 20
-- (shared with 3) stay, every reference to 2 is gone
example : ((scn.step (.scnRemoveLanelets [⟨2, [10, 11], [20]⟩] true)).1.net.sids,
           (scn.step (.scnRemoveLanelets [⟨2, [10, 11], [20]⟩] true)).1.net.tids,
           (scn.step (.scnRemoveLanelets [⟨2, [10, 11], [20]⟩] true)).1.net.lids,
           (scn.step (.scnRemoveLanelets [⟨2, [10, 11], [20]⟩] true)).2) = ([10], [20], [1, 3, 4], none) := by decide
example : ((scn.step (.scnRemoveLanelets [⟨2, [10, 11], [20]⟩] true)).1.net.lanelets.map fun l => (l.id, l.pred, l.succ, l.adjL, l.adjR))
    = [(1, [], [], none, none), (3, [], [], none, none), (4, [], [], none, none)] := by decide
-- handing the same lanelet in twice raises KeyError after the first removal; the state left behind has no dangling reference
example : (scn.step (.scnRemoveLanelets [⟨2, [10, 11], [20]⟩, ⟨2, [10, 11], [20]⟩] true)).2 = some .key ∧
    NoDangling (scn.step (.scnRemoveLanelets [⟨2, [10, 11], [20]⟩, ⟨2, [10, 11], [20]⟩] true)).1.net := by decide
-- cutting out {1, 3, 4}: incoming 31 keeps lanelet 1 and successor 4, incoming 32 keeps 4 and successor 3
example : ((net.cutOut (fun a => [1, 3, 4].contains a) true).toOption.map fun n => (n.lids, n.sids, n.tids, n.shapes)) =
    some ([1, 3, 4], [10], [20], [(30, [31, 32])]) := by decide
-- cutting out {2, 3}: incoming 31 loses its incoming lanelet, 32 too: the intersection is not taken over
example : ((net.cutOut (fun a => [2, 3].contains a) true).toOption.map fun n => (n.lids, n.sids, n.inters)) =
    some ([2, 3], [10, 11], []) := by decide

/-- Outside the precondition the conclusion fails: a stop line that refers to a sign its lanelet does not reference
keeps that reference in the cut-out although the sign is not taken over. -/
def notWf : Net :=
  { lanelets := [la 1 [] [] none none [] [] (some { signRef := some [10], lightRef := none })],
    signs := [(10, 7)], lights := [], inters := [] }

theorem C10_witness_wf_needed : NoDangling notWf ∧ ¬ Wf notWf ∧
    ∃ n', notWf.cutOut (fun _ => true) true = .ok n' ∧ ¬ NoDangling n' := by
  refine ⟨by decide, by decide, _, rfl, by decide⟩

/-- `cleanup_ids=False` is outside the property as well: predecessor / successor references to lanelets that were cut
away stay. -/
theorem C10_witness_cleanup_needed :
    ∃ n', net.cutOut (fun a => [1, 3, 4].contains a) false = .ok n' ∧ ¬ NoDangling n' := by
  refine ⟨_, rfl, by decide⟩

/-- **Observation (not demanded by the property: `left_of` is not among the listed relations).**  Cutting `{1, 2, 4}`
out of the well-formed example network keeps incoming element 31 (incoming lanelet 1, successors 2 and 4) and drops
incoming element 32 (its only successor, lanelet 3, is cut away); 31 is copied with `left_of = 32`, which now names no
incoming element of the new network — while no *listed* relation dangles (`NoDangling`).  Replayed on the real
`create_from_lanelet_network` by corpus/C10/lean_example_cut_124_leftof.json. -/
theorem C10_witness_leftOf_dangles : Inv net ∧
    ∃ n', net.cutOut (fun a => [1, 2, 4].contains a) true = .ok n' ∧ NoDangling n' ∧
      ∃ i ∈ n'.inters, ∃ k ∈ i.incomings, k.leftOf = some 32 ∧ 32 ∉ i.incomings.map (·.id) := by
  refine ⟨by unfold Inv; decide, _, rfl, by decide, ?_⟩
  decide

-- the scenario-level precondition of `C10_removeLanelets_ok` / `C10_hanging_iff_idpool` is met by the example scenario
example : IdPool scn := by unfold IdPool; decide
-- lanelet 1 and sign 10 are selected by neither operation of this history, lanelet 2 by the first one
example : NeverSel Op.selL scn [.netRemoveLanelet 2, .cutOut [1, 3, 4] true] 1 := by
  simp [NeverSel, Op.selL]
example : ¬ NeverSel Op.selL scn [.netRemoveLanelet 2, .cutOut [1, 3, 4] true] 2 := by
  simp [NeverSel, Op.selL]
example : (scn.selections [.scnRemoveLanelets [⟨2, [10, 11], [20]⟩] true, .cutOut [1, 4] true]) =
    [⟨[2], [11], [], [], []⟩, ⟨[3], [], [20], [], [(30, 32)]⟩] := by decide

-- id 0 is an id like any other (the theorems are over `Nat`): removing lanelet 0 clears the adjacency that names it
example : (({ lanelets := [la 0 [] [] none (some 1) [] [] none, la 1 [] [] (some 0) none [] [] none],
              signs := [], lights := [], inters := [] } : Net).removeLanelet 0).lanelets.map
    (fun l => (l.id, l.adjL, l.adjLSame)) = [(1, none, none)] := by decide

end Ex

end CR.Refs
