/-
  C10 — removing or cutting out lanelet-network elements leaves no dangling references.

  Model: CRModel.Refs (LaneletNetwork.remove_* / cleanup_*_references / create_from_lanelet_network /
  create_from_lanelet_list, Scenario.remove_lanelet + remove_hanging_lanelet_members, Scenario.remove_traffic_sign /
  remove_traffic_light / remove_intersection).  Lemmas: CRProofs.Refs.

  All theorems are for arbitrary networks, arbitrary arguments and arbitrary operation sequences (no size bound).
-/
import CRModel.Refs
import CRProofs.Refs

namespace CR.Refs

/-- The invariant of a history: no dangling reference, and the property's precondition (a stop line refers only to
signs / lights its lanelet also references). -/
def Inv (n : Net) : Prop := NoDangling n ∧ Wf n

/-- `cleanup_ids=True` (the default) for the two constructors; every other operation always cleans up. -/
def Op.cleans : Op → Prop
  | .cutOut _ c => c = true
  | .fromList _ c => c = true
  | _ => True

theorem inv_removeLanelet (n : Net) (x : Id) (h : Inv n) : Inv (n.removeLanelet x) :=
  ⟨nd_removeLanelet h.1 x, wf_removeLanelet h.2 x⟩
theorem inv_removeSign (n : Net) (x : Id) (h : Inv n) : Inv (n.removeSign x) :=
  ⟨nd_removeSign h.1 x, wf_removeSign h.2 x⟩
theorem inv_removeLight (n : Net) (x : Id) (h : Inv n) : Inv (n.removeLight x) :=
  ⟨nd_removeLight h.1 x, wf_removeLight h.2 x⟩
theorem inv_removeInter (n : Net) (x : Id) (h : Inv n) : Inv (n.removeInter x) :=
  ⟨nd_removeInter h.1 x, wf_removeInter h.2 x⟩

/-- **No dangling reference after any single operation** (network level and scenario level, including the state a
scenario-level call leaves behind when it raises `KeyError` half-way), and the precondition is kept, so that the
statement can be iterated. -/
theorem C10_inv_step (s : Scn) (op : Op) (h : Inv s.net) (hc : op.cleans) : Inv (s.step op).1.net := by
  cases op with
  | netRemoveLanelet x => exact inv_removeLanelet _ x h
  | netRemoveSign x => exact inv_removeSign _ x h
  | netRemoveLight x => exact inv_removeLight _ x h
  | netRemoveInter x => exact inv_removeInter _ x h
  | scnRemoveLanelets args r =>
    exact Scn.removeLanelets_inv Inv inv_removeLanelet inv_removeSign inv_removeLight s args r h
  | scnRemoveSigns xs => exact Scn.removeSigns_inv Inv inv_removeSign s xs h
  | scnRemoveLights xs => exact Scn.removeLights_inv Inv inv_removeLight s xs h
  | scnRemoveInter x incs =>
    show Inv (Scn.idsRemoveAll _ _).1.net
    rw [Scn.idsRemoveAll_net]
    exact inv_removeInter _ x h
  | cutOut keep c =>
    have hc' : c = true := hc
    subst hc'
    show Inv (match s.net.cutOut (fun a => keep.contains a) true with
      | .ok n' => (({ net := n', ids := n'.allIds } : Scn), (none : Option Err))
      | .error e => (s, some e)).1.net
    cases hr : s.net.cutOut (fun a => keep.contains a) true with
    | ok n' => exact ⟨nd_cutOut h.2 hr, wf_cutOut h.2 hr⟩
    | error e => exact h
  | fromList sel c =>
    have hc' : c = true := hc
    subst hc'
    exact ⟨nd_fromList _ sel, wf_fromList h.2 sel true⟩

theorem C10_nodangling_step (s : Scn) (op : Op) (hnd : NoDangling s.net) (hw : Wf s.net) (hc : op.cleans) :
    NoDangling (s.step op).1.net := (C10_inv_step s op ⟨hnd, hw⟩ hc).1

/-- **No dangling reference after any sequence of removals and cut-outs** (induction over the history). -/
theorem C10_inv_run (s : Scn) (ops : List Op) (h : Inv s.net) (hc : ∀ op ∈ ops, op.cleans) : Inv (s.run ops).net := by
  induction ops generalizing s with
  | nil => exact h
  | cons o os ih =>
    exact ih (s.step o).1 (C10_inv_step s o h (hc o List.mem_cons_self))
      (fun op hop => hc op (List.mem_cons_of_mem _ hop))

theorem C10_nodangling_run (s : Scn) (ops : List Op) (hnd : NoDangling s.net) (hw : Wf s.net)
    (hc : ∀ op ∈ ops, op.cleans) : NoDangling (s.run ops).net := (C10_inv_run s ops ⟨hnd, hw⟩ hc).1

/-- every intermediate state of a history, too (the `trace` is what the correspondence compares) -/
theorem C10_nodangling_trace (s : Scn) (ops : List Op) (h : Inv s.net) (hc : ∀ op ∈ ops, op.cleans) :
    ∀ r ∈ s.trace ops, NoDangling r.1.net := by
  induction ops generalizing s with
  | nil => intro r hr; cases hr
  | cons o os ih =>
    intro r hr
    have h1 := C10_inv_step s o h (hc o List.mem_cons_self)
    rcases List.mem_cons.1 hr with rfl | hr
    · exact h1.1
    · exact ih (s.step o).1 h1 (fun op hop => hc op (List.mem_cons_of_mem _ hop)) r hr

/-- "no remaining element refers to a removed id", spelled out relation by relation: in a network without dangling
references an id that is not (any more) an element of the network occurs in no relation at all. -/
theorem C10_no_ref_to_absent {n : Net} (h : NoDangling n) :
    (∀ x, x ∉ n.lids → ∀ l ∈ n.lanelets, x ∉ l.pred ∧ x ∉ l.succ ∧ l.adjL ≠ some x ∧ l.adjR ≠ some x) ∧
    (∀ x, x ∉ n.lids → ∀ i ∈ n.inters, x ∉ i.crossings ∧
        ∀ k ∈ i.incomings, x ∉ k.inc ∧ x ∉ k.right ∧ x ∉ k.straight ∧ x ∉ k.left) ∧
    (∀ x, x ∉ n.sids → ∀ l ∈ n.lanelets, x ∉ l.signs ∧ ∀ st, l.stop = some st → ∀ r, st.signRef = some r → x ∉ r) ∧
    (∀ x, x ∉ n.tids → ∀ l ∈ n.lanelets, x ∉ l.lights ∧ ∀ st, l.stop = some st → ∀ r, st.lightRef = some r → x ∉ r) := by
  obtain ⟨h1, h2, h3, h4⟩ := h
  refine ⟨fun x hx l hl => ?_, fun x hx i hi => ?_, fun x hx l hl => ?_, fun x hx l hl => ?_⟩
  · have := h1 l hl x
    simp only [Lanelet.lrefs, List.mem_append, Option.mem_toList] at this
    refine ⟨fun c => hx (this (Or.inl (Or.inl (Or.inl c)))), fun c => hx (this (Or.inl (Or.inl (Or.inr c)))),
      fun c => hx (this (Or.inl (Or.inr (by simp [c])))), fun c => hx (this (Or.inr (by simp [c])))⟩
  · have := h4 i hi x
    simp only [Intersection.lrefs, Incoming.lrefs, List.mem_append, List.mem_flatMap] at this
    refine ⟨fun c => hx (this (Or.inl c)), fun k hk => ⟨fun c => hx (this (Or.inr ⟨k, hk, ?_⟩)),
      fun c => hx (this (Or.inr ⟨k, hk, ?_⟩)), fun c => hx (this (Or.inr ⟨k, hk, ?_⟩)),
      fun c => hx (this (Or.inr ⟨k, hk, ?_⟩))⟩⟩ <;> simp [c]
  · have := h2 l hl x
    simp only [List.mem_append] at this
    refine ⟨fun c => hx (this (Or.inl c)), fun st hst r hr c => hx (this (Or.inr ?_))⟩
    simp [Lanelet.stopS, hst, StopLine.srefs, hr, c]
  · have := h3 l hl x
    simp only [List.mem_append] at this
    refine ⟨fun c => hx (this (Or.inl c)), fun st hst r hr c => hx (this (Or.inr ?_))⟩
    simp [Lanelet.stopT, hst, StopLine.trefs, hr, c]

end CR.Refs
