/-
  C10 — removing or cutting out lanelet-network elements leaves no dangling references.

  Model: CRModel.Refs (LaneletNetwork.remove_* / cleanup_*_references / create_from_lanelet_network /
  create_from_lanelet_list, Scenario.remove_lanelet + remove_hanging_lanelet_members, Scenario.remove_traffic_sign /
  remove_traffic_light / remove_intersection).  Lemmas: CRProofs.Refs.

  All theorems are for arbitrary networks, arbitrary arguments and arbitrary operation sequences (no size bound).
-/
import CRModel.Refs
import CRProofs.Refs
import CRProofs.RefsFrame
import CRProofs.RefsPresent

namespace CR.Refs

/-- The invariant of a history: no dangling reference, and the property's precondition (a stop line refers only to
signs / lights its lanelet also references). -/
def Inv (n : Net) : Prop := NoDangling n ∧ Wf n

/-- `cleanup_ids=True` (the default) for the two constructors; every other operation always cleans up. -/
def Op.cleans : Op → Prop
  | .cutOut _ c => c = true
  | .fromList _ c => c = true
  | _ => True

instance (op : Op) : Decidable op.cleans := by cases op <;> unfold Op.cleans <;> exact inferInstance

theorem inv_removeLanelet (n : Net) (x : Id) (h : Inv n) : Inv (n.removeLanelet x) :=
  ⟨nd_removeLanelet h.1 x, wf_removeLanelet h.2 x⟩
theorem inv_removeSign (n : Net) (x : Id) (h : Inv n) : Inv (n.removeSign x) :=
  ⟨nd_removeSign h.1 x, wf_removeSign h.2 x⟩
theorem inv_removeLight (n : Net) (x : Id) (h : Inv n) : Inv (n.removeLight x) :=
  ⟨nd_removeLight h.1 x, wf_removeLight h.2 x⟩
theorem inv_removeInter (n : Net) (x : Id) (h : Inv n) : Inv (n.removeInter x) :=
  ⟨nd_removeInter h.1 x, wf_removeInter h.2 x⟩

/-- **No dangling reference after any single operation** (network level and scenario level, including the state a
scenario-level call leaves behind when it raises `KeyError` half-way), and the precondition is kept, so that the
statement can be iterated. -/
theorem C10_inv_step (s : Scn) (op : Op) (h : Inv s.net) (hc : op.cleans) : Inv (s.step op).1.net := by
  cases op with
  | netRemoveLanelet x => exact inv_removeLanelet _ x h
  | netRemoveSign x => exact inv_removeSign _ x h
  | netRemoveLight x => exact inv_removeLight _ x h
  | netRemoveInter x => exact inv_removeInter _ x h
  | scnRemoveLanelets args r =>
    exact Scn.removeLanelets_inv Inv inv_removeLanelet inv_removeSign inv_removeLight s args r h
  | scnRemoveSigns xs => exact Scn.removeSigns_inv Inv inv_removeSign s xs h
  | scnRemoveLights xs => exact Scn.removeLights_inv Inv inv_removeLight s xs h
  | scnRemoveInter x incs =>
    show Inv (Scn.idsRemoveAll _ _).1.net
    rw [Scn.idsRemoveAll_net]
    exact inv_removeInter _ x h
  | cutOut keep c =>
    have hc' : c = true := hc
    subst hc'
    show Inv (match s.net.cutOut (fun a => keep.contains a) true with
      | .ok n' => (({ net := n', ids := n'.allIds } : Scn), (none : Option Err))
      | .error e => (s, some e)).1.net
    cases hr : s.net.cutOut (fun a => keep.contains a) true with
    | ok n' => exact ⟨nd_cutOut h.2 hr, wf_cutOut h.2 hr⟩
    | error e => exact h
  | fromList sel c =>
    have hc' : c = true := hc
    subst hc'
    exact ⟨nd_fromList _ sel, wf_fromList h.2 sel true⟩

theorem C10_nodangling_step (s : Scn) (op : Op) (hnd : NoDangling s.net) (hw : Wf s.net) (hc : op.cleans) :
    NoDangling (s.step op).1.net := (C10_inv_step s op ⟨hnd, hw⟩ hc).1

/-- **No dangling reference after any sequence of removals and cut-outs** (induction over the history). -/
theorem C10_inv_run (s : Scn) (ops : List Op) (h : Inv s.net) (hc : ∀ op ∈ ops, op.cleans) : Inv (s.run ops).net := by
  induction ops generalizing s with
  | nil => exact h
  | cons o os ih =>
    exact ih (s.step o).1 (C10_inv_step s o h (hc o List.mem_cons_self))
      (fun op hop => hc op (List.mem_cons_of_mem _ hop))

theorem C10_nodangling_run (s : Scn) (ops : List Op) (hnd : NoDangling s.net) (hw : Wf s.net)
    (hc : ∀ op ∈ ops, op.cleans) : NoDangling (s.run ops).net := (C10_inv_run s ops ⟨hnd, hw⟩ hc).1

/-- every intermediate state of a history, too (the `trace` is what the correspondence compares) -/
theorem C10_nodangling_trace (s : Scn) (ops : List Op) (h : Inv s.net) (hc : ∀ op ∈ ops, op.cleans) :
    ∀ r ∈ s.trace ops, NoDangling r.1.net := by
  induction ops generalizing s with
  | nil => intro r hr; cases hr
  | cons o os ih =>
    intro r hr
    have h1 := C10_inv_step s o h (hc o List.mem_cons_self)
    rcases List.mem_cons.1 hr with rfl | hr
    · exact h1.1
    · exact ih (s.step o).1 h1 (fun op hop => hc op (List.mem_cons_of_mem _ hop)) r hr

/-- "no remaining element refers to a removed id", spelled out relation by relation: in a network without dangling
references an id that is not (any more) an element of the network occurs in no relation at all. -/
theorem C10_no_ref_to_absent {n : Net} (h : NoDangling n) :
    (∀ x, x ∉ n.lids → ∀ l ∈ n.lanelets, x ∉ l.pred ∧ x ∉ l.succ ∧ l.adjL ≠ some x ∧ l.adjR ≠ some x) ∧
    (∀ x, x ∉ n.lids → ∀ i ∈ n.inters, x ∉ i.crossings ∧
        ∀ k ∈ i.incomings, x ∉ k.inc ∧ x ∉ k.right ∧ x ∉ k.straight ∧ x ∉ k.left) ∧
    (∀ x, x ∉ n.sids → ∀ l ∈ n.lanelets, x ∉ l.signs ∧ ∀ st, l.stop = some st → ∀ r, st.signRef = some r → x ∉ r) ∧
    (∀ x, x ∉ n.tids → ∀ l ∈ n.lanelets, x ∉ l.lights ∧ ∀ st, l.stop = some st → ∀ r, st.lightRef = some r → x ∉ r) := by
  obtain ⟨h1, h2, h3, h4⟩ := h
  refine ⟨fun x hx l hl => ?_, fun x hx i hi => ?_, fun x hx l hl => ?_, fun x hx l hl => ?_⟩
  · have := h1 l hl x
    simp only [Lanelet.lrefs, List.mem_append, Option.mem_toList] at this
    refine ⟨fun c => hx (this (Or.inl (Or.inl (Or.inl c)))), fun c => hx (this (Or.inl (Or.inl (Or.inr c)))),
      fun c => hx (this (Or.inl (Or.inr (by simp [c])))), fun c => hx (this (Or.inr (by simp [c])))⟩
  · have := h4 i hi x
    simp only [Intersection.lrefs, Incoming.lrefs, List.mem_append, List.mem_flatMap] at this
    refine ⟨fun c => hx (this (Or.inl c)), fun k hk => ⟨fun c => hx (this (Or.inr ⟨k, hk, ?_⟩)),
      fun c => hx (this (Or.inr ⟨k, hk, ?_⟩)), fun c => hx (this (Or.inr ⟨k, hk, ?_⟩)),
      fun c => hx (this (Or.inr ⟨k, hk, ?_⟩))⟩⟩ <;> simp [c]
  · have := h2 l hl x
    simp only [List.mem_append] at this
    refine ⟨fun c => hx (this (Or.inl c)), fun st hst r hr c => hx (this (Or.inr ?_))⟩
    simp [Lanelet.stopS, hst, StopLine.srefs, hr, c]
  · have := h3 l hl x
    simp only [List.mem_append] at this
    refine ⟨fun c => hx (this (Or.inl c)), fun st hst r hr c => hx (this (Or.inr ?_))⟩
    simp [Lanelet.stopT, hst, StopLine.trefs, hr, c]

/-! ## Frame: relations between remaining elements untouched, content unchanged

`Frame n n'` (CRProofs.RefsFrame): every lanelet / sign / light / intersection / incoming element of `n'` is one of
`n` with the same id and the same content, and each of its relations is the old relation intersected with the ids
present in `n'` (membership; order and multiplicity are not claimed); an adjacency that survives keeps its direction
flag; `left_of` is unchanged. -/

theorem C10_frame_step (s : Scn) (op : Op) (h : Inv s.net) (hc : op.cleans) : Frame s.net (s.step op).1.net := by
  have key : ∀ (f : Net → Id → Net), (∀ m i, Inv m → Inv (f m i)) → (∀ m i, NoDangling m → Frame m (f m i)) →
      ∀ m i, (Inv m ∧ Frame s.net m) → (Inv (f m i) ∧ Frame s.net (f m i)) :=
    fun f hi hf m i hq => ⟨hi m i hq.1, Frame.trans hq.2 (hf m i hq.1.1)⟩
  have kl := key Net.removeLanelet inv_removeLanelet (fun m i h => frame_removeLanelet h i)
  have ks := key Net.removeSign inv_removeSign (fun m i h => frame_removeSign h i)
  have kt := key Net.removeLight inv_removeLight (fun m i h => frame_removeLight h i)
  have h0 : Inv s.net ∧ Frame s.net s.net := ⟨h, Frame.refl h.1⟩
  cases op with
  | netRemoveLanelet x => exact frame_removeLanelet h.1 x
  | netRemoveSign x => exact frame_removeSign h.1 x
  | netRemoveLight x => exact frame_removeLight h.1 x
  | netRemoveInter x => exact frame_removeInter h.1 x
  | scnRemoveLanelets args r =>
    exact (Scn.removeLanelets_inv (fun m => Inv m ∧ Frame s.net m) kl ks kt s args r h0).2
  | scnRemoveSigns xs => exact (Scn.removeSigns_inv (fun m => Inv m ∧ Frame s.net m) ks s xs h0).2
  | scnRemoveLights xs => exact (Scn.removeLights_inv (fun m => Inv m ∧ Frame s.net m) kt s xs h0).2
  | scnRemoveInter x incs =>
    show Frame s.net (Scn.idsRemoveAll _ _).1.net
    rw [Scn.idsRemoveAll_net]
    exact frame_removeInter h.1 x
  | cutOut keep c =>
    have hc' : c = true := hc
    subst hc'
    show Frame s.net (match s.net.cutOut (fun a => keep.contains a) true with
      | .ok n' => (({ net := n', ids := n'.allIds } : Scn), (none : Option Err))
      | .error e => (s, some e)).1.net
    cases hr : s.net.cutOut (fun a => keep.contains a) true with
    | ok n' => exact frame_cutOut h.2 hr
    | error e => exact Frame.refl h.1
  | fromList sel c =>
    have hc' : c = true := hc
    subst hc'
    exact frame_fromList h.1 sel

/-- **Frame over any sequence of removals and cut-outs**: whatever is left at the end is an element of the initial
network with unchanged content, and its relations are the initial ones restricted to what is left. -/
theorem C10_frame_run (s : Scn) (ops : List Op) (h : Inv s.net) (hc : ∀ op ∈ ops, op.cleans) :
    Frame s.net (s.run ops).net := by
  induction ops generalizing s with
  | nil => exact Frame.refl h.1
  | cons o os ih =>
    have h1 := C10_inv_step s o h (hc o List.mem_cons_self)
    exact Frame.trans (C10_frame_step s o h (hc o List.mem_cons_self))
      (ih (s.step o).1 h1 (fun op hop => hc op (List.mem_cons_of_mem _ hop)))

/-- reading `Frame` for one relation: a successor edge between two lanelets that are both still there is still there,
and no edge appears -/
theorem C10_frame_succ {n n' : Net} (f : Frame n n') {l' : Lanelet} (hl' : l' ∈ n'.lanelets) :
    ∃ l ∈ n.lanelets, l.id = l'.id ∧ l.content = l'.content ∧ ∀ b, b ∈ l'.succ ↔ b ∈ l.succ ∧ b ∈ n'.lids := by
  obtain ⟨l, hl, lf⟩ := f.lan l' hl'
  exact ⟨l, hl, lf.id.symm, lf.content.symm, lf.succ⟩

theorem eq_of_nodup_map_id {ls : List Lanelet} (hn : (ls.map (·.id)).Nodup) {a b : Lanelet} (ha : a ∈ ls) (hb : b ∈ ls)
    (he : a.id = b.id) : a = b := by
  induction ls with
  | nil => cases ha
  | cons c cs ih =>
    rw [List.map_cons, List.nodup_cons] at hn
    rcases List.mem_cons.1 ha with rfl | ha' <;> rcases List.mem_cons.1 hb with rfl | hb'
    · rfl
    · exact absurd (List.mem_map.2 ⟨b, hb', he.symm⟩) hn.1
    · exact absurd (List.mem_map.2 ⟨a, ha', he⟩) hn.1
    · exact ih hn.2 ha' hb'

/-- **Every lanelet whose id is still present is still present with unchanged content** (a Python dict has unique
keys: `n.lids.Nodup`): the old lanelet itself is framed by a lanelet of the new network. -/
theorem C10_unselected_unchanged {n n' : Net} (hn : n.lids.Nodup) (f : Frame n n') {l : Lanelet} (hl : l ∈ n.lanelets)
    (hs : l.id ∈ n'.lids) :
    ∃ l' ∈ n'.lanelets, LaneletFrame (· ∈ n'.lids) (· ∈ n'.sids) (· ∈ n'.tids) l l' := by
  obtain ⟨l', hl', hid⟩ := List.mem_map.1 hs
  obtain ⟨l0, hl0, lf⟩ := f.lan l' hl'
  have : l0 = l := eq_of_nodup_map_id hn hl0 hl (lf.id.symm.trans hid)
  exact ⟨l', hl', this ▸ lf⟩

/-! ## Presence: every element not selected for removal is still there; the selected ones are gone -/

/-- `LaneletNetwork.remove_lanelet(x)`: exactly lanelet `x` goes; signs, lights, intersections and their incoming
elements all stay. -/
theorem C10_present_netRemoveLanelet (n : Net) (x : Id) :
    (n.removeLanelet x).lids = n.lids.filter (· != x) ∧ (n.removeLanelet x).signs = n.signs ∧
    (n.removeLanelet x).lights = n.lights ∧ (n.removeLanelet x).shapes = n.shapes :=
  ⟨removeLanelet_lids n x, removeLanelet_signs n x, removeLanelet_lights n x, removeLanelet_shapes n x⟩

theorem C10_present_netRemoveSign (n : Net) (x : Id) :
    (n.removeSign x).lids = n.lids ∧ (n.removeSign x).signs = n.signs.filter (fun s => s.1 != x) ∧
    (n.removeSign x).lights = n.lights ∧ (n.removeSign x).inters = n.inters :=
  ⟨removeSign_lids n x, removeSign_signs n x, removeSign_lights n x, removeSign_inters n x⟩

theorem C10_present_netRemoveLight (n : Net) (x : Id) :
    (n.removeLight x).lids = n.lids ∧ (n.removeLight x).signs = n.signs ∧
    (n.removeLight x).lights = n.lights.filter (fun s => s.1 != x) ∧ (n.removeLight x).inters = n.inters :=
  ⟨removeLight_lids n x, rfl, rfl, rfl⟩

theorem C10_present_netRemoveInter (n : Net) (x : Id) :
    (n.removeInter x).lanelets = n.lanelets ∧ (n.removeInter x).signs = n.signs ∧
    (n.removeInter x).lights = n.lights ∧ (n.removeInter x).inters = n.inters.filter (fun i => i.id != x) :=
  ⟨rfl, rfl, rfl, rfl⟩

/-- the removed id is really gone (with `NoDangling` this gives "no remaining element refers to the removed id") -/
theorem C10_removed_absent (n : Net) (x : Id) :
    x ∉ (n.removeLanelet x).lids ∧ x ∉ (n.removeSign x).sids ∧ x ∉ (n.removeLight x).tids ∧
    x ∉ (n.removeInter x).iids := by
  refine ⟨?_, ?_, ?_, ?_⟩
  · rw [removeLanelet_lids]; simp
  · rw [removeSign_sids]; simp
  · rw [removeLight_tids]; simp
  · simp [Net.iids, removeInter_inters]

/-- `Scenario.remove_lanelet(args, referenced_elements)` — also when it raises half-way:
lanelets that were not handed in stay; a sign / light can only go if it is *hanging*; intersections stay. -/
theorem C10_present_scnRemoveLanelets (s : Scn) (args : List RmArg) (r : Bool) :
    (∀ a ∈ s.net.lids, a ∉ args.map (·.id) → a ∈ (s.removeLanelets args r).1.net.lids) ∧
    (∀ e ∈ s.net.signs, e.1 ∉ s.net.hangingSigns args → e ∈ (s.removeLanelets args r).1.net.signs) ∧
    (∀ e ∈ s.net.lights, e.1 ∉ s.net.hangingLights args → e ∈ (s.removeLanelets args r).1.net.lights) ∧
    (s.removeLanelets args r).1.net.shapes = s.net.shapes := by
  refine Scn.removeLanelets_inv' (fun m =>
      (∀ a ∈ s.net.lids, a ∉ args.map (·.id) → a ∈ m.lids) ∧
      (∀ e ∈ s.net.signs, e.1 ∉ s.net.hangingSigns args → e ∈ m.signs) ∧
      (∀ e ∈ s.net.lights, e.1 ∉ s.net.hangingLights args → e ∈ m.lights) ∧ m.shapes = s.net.shapes)
    s args r ?_ ?_ ?_ ⟨fun _ h _ => h, fun _ h _ => h, fun _ h _ => h, rfl⟩
  · rintro m i hi ⟨q1, q2, q3, q4⟩
    refine ⟨fun a ha hna => ?_, ?_, ?_, ?_⟩
    · rw [removeLanelet_lids, List.mem_filter]
      refine ⟨q1 a ha hna, ?_⟩
      simp only [bne_iff_ne, ne_eq]
      rintro rfl
      exact hna hi
    · rw [removeLanelet_signs]; exact q2
    · rw [removeLanelet_lights]; exact q3
    · rw [removeLanelet_shapes]; exact q4
  · rintro m i hi ⟨q1, q2, q3, q4⟩
    refine ⟨?_, fun e he hne => ?_, ?_, ?_⟩
    · rw [removeSign_lids]; exact q1
    · rw [removeSign_signs, List.mem_filter]
      refine ⟨q2 e he hne, ?_⟩
      simp only [bne_iff_ne, ne_eq]
      intro heq
      exact hne (heq ▸ hi)
    · rw [removeSign_lights]; exact q3
    · rw [removeSign_shapes]; exact q4
  · rintro m i hi ⟨q1, q2, q3, q4⟩
    refine ⟨?_, q2, fun e he hne => ?_, q4⟩
    · rw [removeLight_lids]; exact q1
    · rw [removeLight_lights, List.mem_filter]
      refine ⟨q3 e he hne, ?_⟩
      simp only [bne_iff_ne, ne_eq]
      intro heq
      exact hne (heq ▸ hi)

/-- without `referenced_elements` no sign or light is touched -/
theorem C10_present_scnRemoveLanelets_unreferenced (s : Scn) (args : List RmArg) :
    (s.removeLanelets args false).1.net.signs = s.net.signs ∧ (s.removeLanelets args false).1.net.lights = s.net.lights := by
  have := Scn.removeLaneletLoop_inv (fun m => m.signs = s.net.signs ∧ m.lights = s.net.lights)
    (fun m i h => ⟨(removeLanelet_signs m i).trans h.1, (removeLanelet_lights m i).trans h.2⟩) s (args.map (·.id)) ⟨rfl, rfl⟩
  simpa [Scn.removeLanelets] using this

/-- **hanging, "only if"** (always, even when the call raises): a sign that `Scenario.remove_lanelet` takes out of the
network was referenced by one of the lanelets handed in and is referenced by no lanelet that remains. -/
theorem C10_hanging_only_if (s : Scn) (args : List RmArg) (r : Bool) (e : Elem) (he : e ∈ s.net.signs)
    (hgone : e ∉ (s.removeLanelets args r).1.net.signs) :
    (∃ a ∈ args, e.1 ∈ a.signs) ∧ ∀ l ∈ s.net.lanelets, l.id ∉ args.map (·.id) → e.1 ∉ l.signs := by
  have h := (C10_present_scnRemoveLanelets s args r).2.1 e he
  have hm : e.1 ∈ s.net.hangingSigns args := Classical.byContradiction fun hn => hgone (h hn)
  exact (mem_hangingSigns.1 hm).2

theorem C10_hanging_only_if_light (s : Scn) (args : List RmArg) (r : Bool) (e : Elem) (he : e ∈ s.net.lights)
    (hgone : e ∉ (s.removeLanelets args r).1.net.lights) :
    (∃ a ∈ args, e.1 ∈ a.lights) ∧ ∀ l ∈ s.net.lanelets, l.id ∉ args.map (·.id) → e.1 ∉ l.lights := by
  have h := (C10_present_scnRemoveLanelets s args r).2.2.1 e he
  have hm : e.1 ∈ s.net.hangingLights args := Classical.byContradiction fun hn => hgone (h hn)
  exact (mem_hangingLights.1 hm).2

/-- when `Scenario.remove_lanelet(args, True)` returns normally, every lanelet handed in and every hanging sign and
light is gone -/
theorem C10_done_scnRemoveLanelets (s : Scn) (args : List RmArg) (hok : (s.removeLanelets args true).2 = none) :
    (∀ a ∈ args, a.id ∉ (s.removeLanelets args true).1.net.lids) ∧
    (∀ t ∈ s.net.hangingSigns args, t ∉ (s.removeLanelets args true).1.net.sids) ∧
    (∀ t ∈ s.net.hangingLights args, t ∉ (s.removeLanelets args true).1.net.tids) := by
  obtain ⟨s1, s2, e1, e2, e3⟩ := Scn.removeLanelets_done s args hok
  rw [e3] at hok ⊢
  have d3 := Scn.loop_done Net.removeLanelet Scn.removeLaneletLoop (fun _ => rfl) (fun _ _ _ => rfl)
    (fun i m => i ∉ m.lids) (fun m i => by rw [removeLanelet_lids]; simp)
    (fun m i j h => by rw [removeLanelet_lids]; exact fun c => h (List.mem_filter.1 c).1) s2 _ hok
  have d1 := Scn.loop_done Net.removeSign Scn.removeSigns (fun _ => rfl) (fun _ _ _ => rfl)
    (fun i m => i ∉ m.sids) (fun m i => by rw [removeSign_sids]; simp)
    (fun m i j h => by rw [removeSign_sids]; exact fun c => h (List.mem_filter.1 c).1) s _ (by rw [e1])
  have d2 := Scn.loop_done Net.removeLight Scn.removeLights (fun _ => rfl) (fun _ _ _ => rfl)
    (fun i m => i ∉ m.tids) (fun m i => by rw [removeLight_tids]; simp)
    (fun m i j h => by rw [removeLight_tids]; exact fun c => h (List.mem_filter.1 c).1) s1 _ (by rw [e2])
  rw [e1] at d1
  rw [e2] at d2
  refine ⟨fun a ha => d3 a.id (List.mem_map.2 ⟨a, ha, rfl⟩), fun t ht => ?_, fun t ht => ?_⟩
  · -- gone after the sign loop, and neither the light loop nor the lanelet loop brings a sign back
    have a2 : t ∉ s2.net.sids := by
      have := Scn.removeLights_inv (fun m => t ∉ m.sids) (fun m i h => by rw [removeLight_sids]; exact h) s1
        (s.net.hangingLights args) (d1 t ht)
      rw [e2] at this; exact this
    exact Scn.removeLaneletLoop_inv (fun m => t ∉ m.sids) (fun m i h => by rw [removeLanelet_sids]; exact h) s2 _ a2
  · exact Scn.removeLaneletLoop_inv (fun m => t ∉ m.tids) (fun m i h => by rw [removeLanelet_tids]; exact h) s2 _
      (d2 t ht)

/-- **hanging, "iff"**: on a normal return of `Scenario.remove_lanelet(args, referenced_elements=True)` a sign of the
network is removed exactly when a lanelet handed in references it and no remaining lanelet does. -/
theorem C10_hanging_iff (s : Scn) (args : List RmArg) (hok : (s.removeLanelets args true).2 = none) (e : Elem)
    (he : e ∈ s.net.signs) :
    e.1 ∉ (s.removeLanelets args true).1.net.sids ↔
      (∃ a ∈ args, e.1 ∈ a.signs) ∧ ∀ l ∈ s.net.lanelets, l.id ∉ args.map (·.id) → e.1 ∉ l.signs := by
  have hin : e.1 ∈ s.net.sids := List.mem_map.2 ⟨e, he, rfl⟩
  constructor
  · intro hgone
    have h := (C10_present_scnRemoveLanelets s args true).2.1 e he
    have hm : e.1 ∈ s.net.hangingSigns args :=
      Classical.byContradiction fun hn => hgone (List.mem_map.2 ⟨e, h hn, rfl⟩)
    exact (mem_hangingSigns.1 hm).2
  · intro h
    exact (C10_done_scnRemoveLanelets s args hok).2.1 e.1 (mem_hangingSigns.2 ⟨hin, h⟩)

theorem C10_hanging_iff_light (s : Scn) (args : List RmArg) (hok : (s.removeLanelets args true).2 = none) (e : Elem)
    (he : e ∈ s.net.lights) :
    e.1 ∉ (s.removeLanelets args true).1.net.tids ↔
      (∃ a ∈ args, e.1 ∈ a.lights) ∧ ∀ l ∈ s.net.lanelets, l.id ∉ args.map (·.id) → e.1 ∉ l.lights := by
  have hin : e.1 ∈ s.net.tids := List.mem_map.2 ⟨e, he, rfl⟩
  constructor
  · intro hgone
    have h := (C10_present_scnRemoveLanelets s args true).2.2.1 e he
    have hm : e.1 ∈ s.net.hangingLights args :=
      Classical.byContradiction fun hn => hgone (List.mem_map.2 ⟨e, h hn, rfl⟩)
    exact (mem_hangingLights.1 hm).2
  · intro h
    exact (C10_done_scnRemoveLanelets s args hok).2.2 e.1 (mem_hangingLights.2 ⟨hin, h⟩)

/-- `Scenario.remove_traffic_sign` / `remove_traffic_light` (object or list): only the signs / lights handed in go. -/
theorem C10_present_scnRemoveSigns (s : Scn) (xs : List Id) :
    (s.removeSigns xs).1.net.lids = s.net.lids ∧ (∀ e ∈ s.net.signs, e.1 ∉ xs → e ∈ (s.removeSigns xs).1.net.signs) ∧
    (s.removeSigns xs).1.net.lights = s.net.lights ∧ (s.removeSigns xs).1.net.inters = s.net.inters := by
  refine Scn.loop_inv' Net.removeSign Scn.removeSigns (fun _ => rfl) (fun _ _ _ => rfl)
    (fun m => m.lids = s.net.lids ∧ (∀ e ∈ s.net.signs, e.1 ∉ xs → e ∈ m.signs) ∧ m.lights = s.net.lights ∧
      m.inters = s.net.inters) s xs ?_ ⟨rfl, fun _ h _ => h, rfl, rfl⟩
  rintro m i hi ⟨q1, q2, q3, q4⟩
  refine ⟨(removeSign_lids m i).trans q1, fun e he hne => ?_, (removeSign_lights m i).trans q3,
    (removeSign_inters m i).trans q4⟩
  rw [removeSign_signs, List.mem_filter]
  refine ⟨q2 e he hne, ?_⟩
  simp only [bne_iff_ne, ne_eq]
  intro heq
  exact hne (heq ▸ hi)

theorem C10_present_scnRemoveLights (s : Scn) (xs : List Id) :
    (s.removeLights xs).1.net.lids = s.net.lids ∧ (s.removeLights xs).1.net.signs = s.net.signs ∧
    (∀ e ∈ s.net.lights, e.1 ∉ xs → e ∈ (s.removeLights xs).1.net.lights) ∧
    (s.removeLights xs).1.net.inters = s.net.inters := by
  refine Scn.loop_inv' Net.removeLight Scn.removeLights (fun _ => rfl) (fun _ _ _ => rfl)
    (fun m => m.lids = s.net.lids ∧ m.signs = s.net.signs ∧ (∀ e ∈ s.net.lights, e.1 ∉ xs → e ∈ m.lights) ∧
      m.inters = s.net.inters) s xs ?_ ⟨rfl, rfl, fun _ h _ => h, rfl⟩
  rintro m i hi ⟨q1, q2, q3, q4⟩
  refine ⟨(removeLight_lids m i).trans q1, q2, fun e he hne => ?_, q4⟩
  rw [removeLight_lights, List.mem_filter]
  refine ⟨q3 e he hne, ?_⟩
  simp only [bne_iff_ne, ne_eq]
  intro heq
  exact hne (heq ▸ hi)

theorem C10_present_scnRemoveInter (s : Scn) (x : Id) (incs : List Id) :
    (s.removeInter x incs).1.net = s.net.removeInter x := by
  unfold Scn.removeInter; rw [Scn.idsRemoveAll_net]

/-- `create_from_lanelet_network` (any `cleanup_ids`): the lanelets of the new network are exactly those that pass the
filter; a sign / light is taken over exactly when a kept lanelet references it; an incoming element that keeps an
incoming lanelet and a successor is taken over together with its intersection. -/
theorem C10_present_cutOut {n n' : Net} {keep : Id → Bool} {c : Bool} (h : n.cutOut keep c = .ok n') :
    n'.lids = n.lids.filter keep ∧
    (∀ e, e ∈ n'.signs ↔ e ∈ n.signs ∧ ∃ l ∈ n.lanelets, keep l.id = true ∧ e.1 ∈ l.signs) ∧
    (∀ e, e ∈ n'.lights ↔ e ∈ n.lights ∧ ∃ l ∈ n.lanelets, keep l.id = true ∧ e.1 ∈ l.lights) ∧
    (∀ i ∈ n.inters, ∀ k ∈ i.incomings, (∃ a ∈ k.inc, a ∈ n'.lids) →
      (∃ a ∈ k.right ++ k.straight ++ k.left, a ∈ n'.lids) →
      ∃ i' ∈ n'.inters, i'.id = i.id ∧ ∃ k' ∈ i'.incomings, k'.id = k.id) :=
  ⟨cutOut_lids h, cutOut_signs h, cutOut_lights h, fun _ hi _ hk h1 h2 => cutOut_inter_present h hi hk h1 h2⟩

/-- a cut-out of a well-formed network without dangling references never raises -/
theorem C10_cutOut_total {n : Net} (hnd : NoDangling n) (keep : Id → Bool) (c : Bool) : ∃ n', n.cutOut keep c = .ok n' := by
  unfold Net.cutOut
  have h1 : ((n.cutKept keep).flatMap (·.signs)).all (fun a => n.sids.contains a) = true := by
    simp only [List.all_eq_true, List.mem_flatMap, contains_eq_true_iff]
    rintro a ⟨l, hl, ha⟩
    exact hnd.2.1 l (List.mem_filter.1 hl).1 a (List.mem_append_left _ ha)
  have h2 : ((n.cutKept keep).flatMap (·.lights)).all (fun a => n.tids.contains a) = true := by
    simp only [List.all_eq_true, List.mem_flatMap, contains_eq_true_iff]
    rintro a ⟨l, hl, ha⟩
    exact hnd.2.2.1 l (List.mem_filter.1 hl).1 a (List.mem_append_left _ ha)
  dsimp only
  rw [h1, h2]
  exact ⟨_, rfl⟩

/-- `create_from_lanelet_list`: exactly the selected lanelets of the network; no sign, light or intersection. -/
theorem C10_present_fromList (n : Net) (sel : List Id) (c : Bool) :
    (∀ a, a ∈ (n.fromList sel c).lids ↔ a ∈ sel ∧ a ∈ n.lids) ∧ (n.fromList sel c).signs = [] ∧
    (n.fromList sel c).lights = [] ∧ (n.fromList sel c).inters = [] := by
  refine ⟨fromList_lids n sel c, ?_, ?_, ?_⟩ <;> (unfold Net.fromList; cases c <;> rfl)

/-! ## Non-vacuity: a concrete well-formed network, and what goes wrong outside the hypotheses -/

namespace Ex

def la (id : Id) (pred succ : List Id) (adjL adjR : Option Id) (signs lights : List Id) (stop : Option StopLine) : Lanelet :=
  { id := id, content := 100 + id, pred := pred, succ := succ, adjL := adjL, adjLSame := adjL.map fun _ => true,
    adjR := adjR, adjRSame := adjR.map fun _ => false, signs := signs, lights := lights, stop := stop }

/-- 1 → 2 → 3, 4 left of 2 (mutual adjacency), sign 10 shared by 1 and 2, sign 11 only on 2, light 20 on 2 and 3,
stop line on 2 referring to sign 11 and light 20, one intersection whose incomings span lanelets 1..4. -/
def net : Net :=
  { lanelets := [la 1 [] [2] none none [10] [] none,
                 la 2 [1] [3, 3] (some 4) none [10, 11] [20] (some { signRef := some [11], lightRef := some [20] }),
                 la 3 [2] [] none none [] [20] (some { signRef := none, lightRef := some [] }),
                 la 4 [] [] none (some 2) [] [] none]
    signs := [(10, 7), (11, 8)]
    lights := [(20, 9)]
    inters := [{ id := 30, crossings := [4],
                 incomings := [{ id := 31, inc := [1], right := [], straight := [2], left := [4], leftOf := some 32 },
                               { id := 32, inc := [4], right := [3], straight := [], left := [], leftOf := none }] }] }

def scn : Scn := { net := net, ids := net.allIds }

example : Inv net := by unfold Inv; decide
example : net.lids.Nodup := by decide
-- the hypotheses of the step / run theorems are met by a history that uses every kind of operation
example : ∀ op ∈ [Op.scnRemoveLanelets [⟨2, [10, 11], [20]⟩] true, .netRemoveSign 10, .cutOut [1, 3, 4] true,
    .netRemoveLight 20, .scnRemoveInter 30 [31, 32], .fromList [1, 4] true], op.cleans := by decide
-- removing lanelet 2 with its referenced elements: sign 11 (only on 2) goes, sign 10 (shared with 1) and light 20
-- (shared with 3) stay, every reference to 2 is gone
example : ((scn.step (.scnRemoveLanelets [⟨2, [10, 11], [20]⟩] true)).1.net.sids,
           (scn.step (.scnRemoveLanelets [⟨2, [10, 11], [20]⟩] true)).1.net.tids,
           (scn.step (.scnRemoveLanelets [⟨2, [10, 11], [20]⟩] true)).1.net.lids,
           (scn.step (.scnRemoveLanelets [⟨2, [10, 11], [20]⟩] true)).2) = ([10], [20], [1, 3, 4], none) := by decide
example : ((scn.step (.scnRemoveLanelets [⟨2, [10, 11], [20]⟩] true)).1.net.lanelets.map fun l => (l.id, l.pred, l.succ, l.adjL, l.adjR))
    = [(1, [], [], none, none), (3, [], [], none, none), (4, [], [], none, none)] := by decide
-- handing the same lanelet in twice raises KeyError after the first removal; the state left behind has no dangling reference
example : (scn.step (.scnRemoveLanelets [⟨2, [10, 11], [20]⟩, ⟨2, [10, 11], [20]⟩] true)).2 = some .key ∧
    NoDangling (scn.step (.scnRemoveLanelets [⟨2, [10, 11], [20]⟩, ⟨2, [10, 11], [20]⟩] true)).1.net := by decide
-- cutting out {1, 3, 4}: incoming 31 keeps lanelet 1 and successor 4, incoming 32 keeps 4 and successor 3
example : ((net.cutOut (fun a => [1, 3, 4].contains a) true).toOption.map fun n => (n.lids, n.sids, n.tids, n.shapes)) =
    some ([1, 3, 4], [10], [20], [(30, [31, 32])]) := by decide
-- cutting out {2, 3}: incoming 31 loses its incoming lanelet, 32 too: the intersection is not taken over
example : ((net.cutOut (fun a => [2, 3].contains a) true).toOption.map fun n => (n.lids, n.sids, n.inters)) =
    some ([2, 3], [10, 11], []) := by decide

/-- Outside the precondition the conclusion fails: a stop line that refers to a sign its lanelet does not reference
keeps that reference in the cut-out although the sign is not taken over. -/
def notWf : Net :=
  { lanelets := [la 1 [] [] none none [] [] (some { signRef := some [10], lightRef := none })],
    signs := [(10, 7)], lights := [], inters := [] }

theorem C10_witness_wf_needed : NoDangling notWf ∧ ¬ Wf notWf ∧
    ∃ n', notWf.cutOut (fun _ => true) true = .ok n' ∧ ¬ NoDangling n' := by
  refine ⟨by decide, by decide, _, rfl, by decide⟩

/-- `cleanup_ids=False` is outside the property as well: predecessor / successor references to lanelets that were cut
away stay. -/
theorem C10_witness_cleanup_needed :
    ∃ n', net.cutOut (fun a => [1, 3, 4].contains a) false = .ok n' ∧ ¬ NoDangling n' := by
  refine ⟨_, rfl, by decide⟩

end Ex

end CR.Refs
