import CRModel.Refs
namespace CR.Refs
theorem C10_stub : True := trivial
end CR.Refs
