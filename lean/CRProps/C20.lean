/-
  C20 — Lanelet arc-length geometry and successor-route enumeration are sound.
  Property theorems only (helper lemmas: CRProofs/ArcLen.lean, CRProofs/Route.lean).
  Models: CRModel/ArcLen.lean (lanelet.py:293-314, 357-366, 658-679, 779-836),
          CRModel/Route.lean  (lanelet.py:919-991).
-/
import CRProofs.ArcLen
import CRProofs.Route

/-! ## (A) cumulative centre-line distance -/
namespace CR.Arc

/-- The cumulative distance has one entry per vertex. -/
theorem C20_cum_length (ℓ : List Rat) : (cumDist ℓ).length = ℓ.length + 1 := cumDist_length ℓ

/-- It starts at 0. -/
theorem C20_cum_head (ℓ : List Rat) : (cumDist ℓ).head? = some 0 := by
  simp [cumDist_eq]

/-- It is non-decreasing (every earlier entry ≤ every later entry) for non-negative segment lengths. -/
theorem C20_cum_mono (ℓ : List Rat) (h : ∀ x ∈ ℓ, 0 ≤ x) : List.Pairwise (· ≤ ·) (cumDist ℓ) := by
  rw [cumDist_eq]; exact cumsumFrom_sorted h 0

/-- It ends at the sum of the segment-length parameters; entry `j` is the sum of the first `j` of them.  That these numbers
    ARE the centre line's Euclidean segment lengths is the side condition `isEuclid c ℓ` (checked by the harness for the
    lengths numpy computed, driver op `euclid`); `C20_euclid_unique` shows that under it `ℓ`, hence the whole cumulative
    distance, is determined by the vertices alone, and `C20_cum_euclid` states the property's sentence under it. -/
theorem C20_cum_last (ℓ : List Rat) : (cumDist ℓ).getLast? = some (sumRat ℓ) := cumDist_last ℓ

theorem C20_cum_get (ℓ : List Rat) (j : Nat) (hj : j ≤ ℓ.length) : (cumDist ℓ)[j]? = some (prefixLen ℓ j) :=
  cumDist_get ℓ j hj

/-- The Euclidean segment lengths of a polyline are unique: `isEuclid c ℓ` (one non-negative `ℓᵢ` per segment with
    `ℓᵢ² = |cᵢ₊₁ − cᵢ|²`) determines `ℓ`. So "the centre line's length" `sumRat ℓ` is a function of the vertices. -/
theorem C20_euclid_unique (c : List Pt) (ℓ ℓ' : List Rat) (h : isEuclid c ℓ = true) (h' : isEuclid c ℓ' = true) : ℓ = ℓ' :=
  isEuclid_unique c ℓ ℓ' h h'

/-- Distinct consecutive vertices ⇒ every Euclidean segment length is positive (no zero-length segment, no `0/0`). -/
theorem C20_euclid_pos (c : List Pt) (ℓ : List Rat) (h : isEuclid c ℓ = true) (hd : DistinctConsec c) : ∀ x ∈ ℓ, 0 < x :=
  isEuclid_pos c ℓ h hd

/-- The property's first sentence with the lengths tied to the points: for the Euclidean segment lengths of the centre
    line `c`, the cumulative distance has one entry per vertex, starts at 0, is non-decreasing, entry `j` is the sum of the
    Euclidean lengths `√|cᵢ₊₁ − cᵢ|²` of the first `j` segments, and the last entry is the length of the centre line. -/
theorem C20_cum_euclid (c : List Pt) (ℓ : List Rat) (h : isEuclid c ℓ = true) :
    (cumDist ℓ).length = c.length ∧ (cumDist ℓ).head? = some 0 ∧ List.Pairwise (· ≤ ·) (cumDist ℓ)
    ∧ (∀ j, j < c.length → (cumDist ℓ)[j]? = some (prefixLen ℓ j))
    ∧ (cumDist ℓ).getLast? = some (sumRat ℓ)
    ∧ ∀ i (hi : i < ℓ.length), 0 ≤ ℓ[i] ∧ ℓ[i] * ℓ[i] =
        distSq (c[i]'(by have := isEuclid_length c ℓ h; omega)) (c[i + 1]'(by have := isEuclid_length c ℓ h; omega)) := by
  have hlen := isEuclid_length c ℓ h
  refine ⟨by rw [cumDist_length, hlen], C20_cum_head ℓ, C20_cum_mono ℓ (fun x hx => ?_), ?_, cumDist_last ℓ,
    isEuclid_get c ℓ h⟩
  · obtain ⟨i, hi, rfl⟩ := List.getElem_of_mem hx
    exact (isEuclid_get c ℓ h i hi).1
  · intro j hj
    exact cumDist_get ℓ j (by omega)

/-! ## (A') the cache behind `distance` (model extension from the translator tie T20) -/

/-- Reading `distance` on a usable cache returns the cumulative distance of the CURRENT centre line and leaves a usable cache. -/
theorem C20_distance_cached (cache : Option (List Rat)) (ℓ : List Rat) (h : CacheOk cache ℓ) :
    distanceGet cache ℓ = some (cumDist ℓ) ∧ CacheOk (distanceGet cache ℓ) ℓ := by
  rcases h with h | h <;> subst h <;> exact ⟨rfl, Or.inr rfl⟩

/-- An emptied cache (what every vertex writer except the rigid motion leaves behind, `C20_vertex_writers_reset`) is usable for
    every new centre line; a cache that is NOT reset is handed out unchanged — the stale-distance defect of d5e439e. -/
theorem C20_distance_reset (ℓ' : List Rat) : CacheOk none ℓ' ∧ ∀ d ℓ, distanceGet (some d) ℓ = some d :=
  ⟨Or.inl rfl, fun _ _ => rfl⟩

/-- Every method that assigns a vertex array resets the cache depending on it, except `translate_rotate` (rigid motion).
    The table is tied to the syntax tree of the current source by `tie_vertex_writers` (CRProps/T20.lean). -/
theorem C20_vertex_writers_reset :
    ∀ w ∈ vertexWriters, w.2.2 = true ∨ w.1 = "translate_rotate" := by decide

example : CacheOk none [5, 5, 2] ∧ distanceGet none [5, 5, 2] = some [0, 5, 10, 12] := ⟨Or.inl rfl, by decide +kernel⟩

/-! ## (B) interpolate_position -/

/-- The blended point lies on the segment `a b` at parameter `t`: `blend t a b = a + t·(b − a)`; hence, when `ℓᵢ` is the
    Euclidean length of the segment, its distance from `a` along the segment is `t·ℓᵢ`. -/
theorem C20_blend_on_segment (t : Rat) (a b : Pt) :
    (blend t a b).1 = a.1 + t * (b.1 - a.1) ∧ (blend t a b).2 = a.2 + t * (b.2 - a.2) := by
  constructor <;> simp only [blend] <;> ring

theorem C20_blend_dist_sq (t : Rat) (a b : Pt) :
    ((blend t a b).1 - a.1) ^ 2 + ((blend t a b).2 - a.2) ^ 2 = t ^ 2 * ((b.1 - a.1) ^ 2 + (b.2 - a.2) ^ 2) := by
  simp only [blend]; ring

/-- Algebraic core (for ARBITRARY positive length parameters `ℓ`; the Euclidean reading is `C20_interp_arclength`): for
    every `0 ≤ s ≤ Σℓ` — interior, exactly at a vertex, `0` and the full length alike — `interpolate_position(s)` does not
    fail and returns a segment id `i` and the three points blended with ONE parameter `t ∈ [0,1]` on segment `i` of the
    centre, right and left polylines, where `Σ_{j<i} ℓⱼ + t·ℓᵢ = s`.  The segment id is the one the code returns
    (`searchsorted` side 'left'): `i = 0` for `s = 0`, otherwise the segment with `prefix i < s ≤ prefix (i+1)` — at an
    interior vertex the segment that ENDS there (`t = 1`); `C20_interp_window_unique` shows this pins `i`. -/
theorem C20_interp_spec (c r l : List Pt) (ℓ : List Rat) (s : Rat)
    (hne : ℓ ≠ []) (hpos : ∀ x ∈ ℓ, 0 < x)
    (hc : c.length = ℓ.length + 1) (hr : r.length = ℓ.length + 1) (hl : l.length = ℓ.length + 1)
    (hs0 : 0 ≤ s) (hs1 : s ≤ sumRat ℓ) :
    ∃ (i : Nat) (t : Rat) (hi : i < ℓ.length),
      interpolate c r l ℓ s = .ok ⟨blend t (c[i]'(by omega)) (c[i + 1]'(by omega)),
                                    blend t (r[i]'(by omega)) (r[i + 1]'(by omega)),
                                    blend t (l[i]'(by omega)) (l[i + 1]'(by omega)), (i : Int)⟩
      ∧ 0 ≤ t ∧ t ≤ 1 ∧ prefixLen ℓ i + t * ℓ[i] = s
      ∧ ((s = 0 ∧ i = 0) ∨ prefixLen ℓ i < s) ∧ s ≤ prefixLen ℓ (i + 1) := by
  have hL : 0 < sumRat ℓ := sumRat_pos hne hpos
  have hn : 0 < ℓ.length := List.length_pos_iff.mpr hne
  -- the index the `searchsorted` + `while` prologue arrives at
  have key : ∃ k, k < ℓ.length ∧
      advance (cumDist ℓ) s ((cumDist ℓ).length + 2) ((searchsortedLeft s (cumDist ℓ) : Int) - 1) = .ok (k : Int)
      ∧ ((s = 0 ∧ k = 0) ∨ prefixLen ℓ k < s) ∧ s ≤ prefixLen ℓ (k + 1) := by
    rcases eq_or_lt_of_le hs0 with h0 | hpos_s
    · -- s = 0 : searchsorted gives 0, idx = -1 wraps to the last entry, the loop moves on to 0
      subst h0
      refine ⟨0, hn, ?_, Or.inl ⟨rfl, rfl⟩, ?_⟩
      · have hss : searchsortedLeft 0 (cumDist ℓ) = 0 := by simp [cumDist_eq, searchsortedLeft]
        rw [hss, cumDist_length]
        have h1 : pyGet? (cumDist ℓ) (-1) = some (sumRat ℓ) := by rw [pyGet_neg_one, cumDist_last]
        have h2 : pyGet? (cumDist ℓ) (0 : Int) = some 0 := by
          have := pyGet_nat (cumDist ℓ) 0
          simp only [Nat.cast_zero] at this
          rw [this, cumDist_get ℓ 0 (by omega), prefixLen_zero]
        simp only [Nat.cast_zero, Int.zero_sub, advance, h1, not_le.mpr hL, if_false]
        simp only [show (-1 : Int) + 1 = 0 by omega, h2, le_refl, if_true]
      · rw [prefixLen_succ ℓ 0 hn, prefixLen_zero]
        have := hpos ℓ[0] (by simp)
        linarith
    · obtain ⟨k, hk, hss, ha, hb⟩ := ss_spec ℓ 0 s hpos hpos_s (by linarith)
      refine ⟨k, hk, ?_, ?_, ?_⟩
      · have hss' : searchsortedLeft s (cumDist ℓ) = k + 1 := by
          rw [cumDist_eq]; simp only [searchsortedLeft, hpos_s, if_true, hss]; omega
        rw [hss', cumDist_length]
        have hk' : ((k + 1 : Nat) : Int) - 1 = (k : Int) := by push_cast; ring
        rw [hk']
        have h1 : pyGet? (cumDist ℓ) (k : Int) = some (prefixLen ℓ k) := by
          rw [pyGet_nat, cumDist_get ℓ k (by omega)]
        have hle : prefixLen ℓ k ≤ s := by unfold prefixLen; linarith
        simp only [advance, h1, hle, if_true]
      · exact Or.inr (by unfold prefixLen; linarith)
      · unfold prefixLen; linarith
  obtain ⟨k, hk, hadv, hpin, hhi⟩ := key
  have hlo : prefixLen ℓ k ≤ s := by
    rcases hpin with ⟨h0, hk0⟩ | hlt
    · subst hk0; rw [prefixLen_zero, h0]
    · exact le_of_lt hlt
  have hstep := prefixLen_succ ℓ k hk
  have hlk : 0 < ℓ[k] := hpos ℓ[k] (by simp)
  refine ⟨k, (s - prefixLen ℓ k) / ℓ[k], hk, ?_, ?_, ?_, ?_, hpin, hhi⟩
  · unfold interpolate
    have hlast : pyGet? (cumDist ℓ) (-1) = some (sumRat ℓ) := by rw [pyGet_neg_one, cumDist_last]
    have hd0 : pyGet? (cumDist ℓ) (k : Int) = some (prefixLen ℓ k) := by
      rw [pyGet_nat, cumDist_get ℓ k (by omega)]
    have hd1 : pyGet? (cumDist ℓ) ((k : Int) + 1) = some (prefixLen ℓ (k + 1)) := by
      rw [pyGet_nat_succ, cumDist_get ℓ (k + 1) (by omega)]
    have hden : prefixLen ℓ (k + 1) - prefixLen ℓ k = ℓ[k] := by rw [hstep]; ring
    have hne0 : ¬ ℓ[k] = 0 := ne_of_gt hlk
    simp only [hlast, hs1, hs0, and_self, not_true_eq_false, if_false, hadv, hd0, hd1, hden, hne0]
    simp only [pyGet_nat, pyGet_nat_succ]
    rw [List.getElem?_eq_getElem (show k < c.length by omega), List.getElem?_eq_getElem (show k + 1 < c.length by omega),
        List.getElem?_eq_getElem (show k < r.length by omega), List.getElem?_eq_getElem (show k + 1 < r.length by omega),
        List.getElem?_eq_getElem (show k < l.length by omega), List.getElem?_eq_getElem (show k + 1 < l.length by omega)]
  · exact div_nonneg (by linarith) (le_of_lt hlk)
  · rw [div_le_iff₀ hlk]; linarith
  · field_simp; ring

/-- The admissibility assertion: outside `0 ≤ s ≤ length` the call fails with the `AssertionError`. -/
theorem C20_interp_guard (c r l : List Pt) (ℓ : List Rat) (s : Rat) (h : s < 0 ∨ sumRat ℓ < s) :
    interpolate c r l ℓ s = .error .assert := by
  unfold interpolate
  have hlast : pyGet? (cumDist ℓ) (-1) = some (sumRat ℓ) := by rw [pyGet_neg_one, cumDist_last]
  have : ¬ (s ≤ sumRat ℓ ∧ 0 ≤ s) := by
    rintro ⟨h1, h2⟩
    rcases h with h | h <;> linarith
  simp only [hlast, this, not_false_eq_true, if_true]

/-- The half-open window `prefix i < s ≤ prefix (i+1)` determines the segment id (non-negative lengths suffice). -/
theorem C20_interp_window_unique (ℓ : List Rat) (hnn : ∀ x ∈ ℓ, 0 ≤ x) (s : Rat) (i j : Nat)
    (hi : i < ℓ.length) (hj : j < ℓ.length)
    (h1 : prefixLen ℓ i < s ∧ s ≤ prefixLen ℓ (i + 1)) (h2 : prefixLen ℓ j < s ∧ s ≤ prefixLen ℓ (j + 1)) : i = j := by
  rcases Nat.lt_trichotomy i j with h | h | h
  · have := prefixLen_mono hnn (show i + 1 ≤ j by omega) (show j ≤ ℓ.length by omega); linarith
  · exact h
  · have := prefixLen_mono hnn (show j + 1 ≤ i by omega) (show i ≤ ℓ.length by omega); linarith

/-- **The property's second sentence in Euclidean terms.**  Preconditions exactly as in the property: `c` is a polyline
    with ≥ 2 vertices, consecutive vertices distinct, `ℓ` its Euclidean segment lengths (`isEuclid`), right / left polylines
    with as many vertices, `0 ≤ s ≤ length`.  Then `interpolate_position(s)` succeeds and returns segment `i` (pinned as in
    `C20_interp_spec`) and points `p, p_r, p_l` that are the blends with one common parameter `t ∈ [0,1]` on segment `i`
    of the three polylines, where the centre point `p` lies on the segment `cᵢ cᵢ₊₁` at Euclidean distance
    `s − (arc length up to vertex i)` from `cᵢ` and `(arc length up to vertex i+1) − s` from `cᵢ₊₁`:
    the arc length of the centre line up to `p` is `s`. -/
theorem C20_interp_arclength (c r l : List Pt) (ℓ : List Rat) (s : Rat)
    (hE : isEuclid c ℓ = true) (hd : DistinctConsec c) (h2 : 2 ≤ c.length)
    (hr : r.length = c.length) (hl : l.length = c.length) (hs0 : 0 ≤ s) (hs1 : s ≤ sumRat ℓ) :
    ∃ (i : Nat) (t : Rat) (hi : i + 1 < c.length),
      interpolate c r l ℓ s = .ok ⟨blend t (c[i]'(by omega)) (c[i + 1]'(by omega)),
                                    blend t (r[i]'(by omega)) (r[i + 1]'(by omega)),
                                    blend t (l[i]'(by omega)) (l[i + 1]'(by omega)), (i : Int)⟩
      ∧ 0 ≤ t ∧ t ≤ 1
      ∧ ((s = 0 ∧ i = 0) ∨ prefixLen ℓ i < s) ∧ s ≤ prefixLen ℓ (i + 1)
      ∧ distSq (c[i]'(by omega)) (blend t (c[i]'(by omega)) (c[i + 1]'(by omega))) = (s - prefixLen ℓ i) ^ 2
      ∧ distSq (blend t (c[i]'(by omega)) (c[i + 1]'(by omega))) (c[i + 1]'(by omega)) = (prefixLen ℓ (i + 1) - s) ^ 2 := by
  have hlen := isEuclid_length c ℓ hE
  have hpos := isEuclid_pos c ℓ hE hd
  have hne : ℓ ≠ [] := by intro h0; simp [h0] at hlen; omega
  obtain ⟨i, t, hi, hres, ht0, ht1, heq, hpin, hhi⟩ :=
    C20_interp_spec c r l ℓ s hne hpos hlen (by omega) (by omega) hs0 hs1
  obtain ⟨_, hsq⟩ := isEuclid_get c ℓ hE i hi
  have hstep := prefixLen_succ ℓ i hi
  refine ⟨i, t, by omega, hres, ht0, ht1, hpin, hhi, ?_, ?_⟩
  · rw [distSq_blend_left, ← hsq]
    have : t * ℓ[i] = s - prefixLen ℓ i := by linarith
    rw [← this]; ring
  · rw [distSq_blend_right, ← hsq]
    have : (1 - t) * ℓ[i] = prefixLen ℓ (i + 1) - s := by rw [hstep]; linarith
    rw [← this]; ring

/-- Zero-length segments, under the property's precondition: distinct consecutive vertices make every Euclidean segment
    length positive, so the `0/0` (NaN) branch of `interpolate_position` is unreachable for every admissible `s`. -/
theorem C20_interp_no_nan (c r l : List Pt) (ℓ : List Rat) (s : Rat)
    (hE : isEuclid c ℓ = true) (hd : DistinctConsec c) (h2 : 2 ≤ c.length)
    (hr : r.length = c.length) (hl : l.length = c.length) (hs0 : 0 ≤ s) (hs1 : s ≤ sumRat ℓ) :
    interpolate c r l ℓ s ≠ .error .zeroDiv := by
  obtain ⟨i, t, hi, hres, _⟩ := C20_interp_arclength c r l ℓ s hE hd h2 hr hl hs0 hs1
  rw [hres]; intro h; cases h

/-- … and outside it: whenever the FIRST segment has length zero (a repeated first vertex) and the line has positive
    total length, `interpolate_position(0)` divides `0/0` — numpy returns NaN coordinates (model value `.zeroDiv`).
    This is why the property restricts to distinct consecutive vertices. -/
theorem C20_interp_nan_zero_first_segment (c r l : List Pt) (rest : List Rat) (hsum : 0 < sumRat rest) :
    interpolate c r l (0 :: rest) 0 = .error .zeroDiv := by
  have htot : sumRat (0 :: rest) = sumRat rest := by simp [sumRat]
  have hlast : pyGet? (cumDist (0 :: rest)) (-1) = some (sumRat rest) := by rw [pyGet_neg_one, cumDist_last, htot]
  have hss : searchsortedLeft 0 (cumDist (0 :: rest)) = 0 := by simp [cumDist_eq, searchsortedLeft]
  have h0 : pyGet? (cumDist (0 :: rest)) (0 : Int) = some 0 := by
    have := pyGet_nat (cumDist (0 :: rest)) 0
    simp only [Nat.cast_zero] at this
    rw [this, cumDist_get _ 0 (by simp), prefixLen_zero]
  have h1 : pyGet? (cumDist (0 :: rest)) ((0 : Int) + 1) = some 0 := by
    have := pyGet_nat_succ (cumDist (0 :: rest)) 0
    simp only [Nat.cast_zero] at this
    rw [this, cumDist_get _ 1 (by simp), prefixLen_succ _ 0 (by simp), prefixLen_zero]
    simp
  unfold interpolate
  simp only [hlast, le_of_lt hsum, le_refl, and_self, not_true_eq_false, if_false, hss, cumDist_length,
    Nat.cast_zero, Int.zero_sub, advance, not_le.mpr hsum, show (-1 : Int) + 1 = 0 by omega, h0, if_true, h1, sub_self]

/-! ## (C) merge_lanelets -/

/-- Merging lanelet `a` with its successor `b` (linked through `a.successor`), where `b`'s left boundary starts where `a`'s
    ends: the call succeeds and every boundary of the result is the concatenation of both with the joint vertex kept once;
    predecessors come from `a`, successors from `b`. -/
theorem C20_merge_spec (a b : Lanelet) (j : Pt)
    (hlink : b.id ∈ a.succ)
    (hja : a.left.getLast? = some j) (hjb : b.left.head? = some j)
    (hva : 2 ≤ a.left.length ∧ 2 ≤ a.center.length ∧ 2 ≤ a.right.length) :
    mergeLanelets a b = .ok ⟨concatId a.id b.id, a.pred, b.succ,
      a.left ++ b.left.tail, a.center ++ b.center.tail, a.right ++ b.right.tail⟩ := by
  unfold mergeLanelets
  have h1 : (a.id ∈ b.succ ∨ b.id ∈ a.succ ∨ a.id ∈ b.pred ∨ b.id ∈ a.pred) := Or.inr (Or.inl hlink)
  have h2 : (a.id ∈ b.pred ∨ b.id ∈ a.succ) := Or.inr hlink
  have h3 : pyGet? a.left (-1) = some j := by rw [pyGet_neg_one, hja]
  have h4 : pyGet? b.left 0 = some j := by
    have := pyGet_nat b.left 0
    simp only [Nat.cast_zero] at this
    rw [this, ← List.head?_eq_getElem?, hjb]
  simp only [h1, not_true_eq_false, if_false, h2, if_true, h3, h4, ptClose_self, List.drop_one]
  have hv : (validPolyline (a.left ++ b.left.tail) && validPolyline (a.center ++ b.center.tail)
      && validPolyline (a.right ++ b.right.tail)) = true := by
    simp only [validPolyline, List.length_append, Bool.and_eq_true, decide_eq_true_eq]
    omega
  simp only [hv, if_true]

/-- The same with the arguments swapped (`merge_lanelets(b, a)`), when the links are not also present in the reverse
    direction. -/
theorem C20_merge_spec_swapped (a b : Lanelet) (j : Pt)
    (hlink : b.id ∈ a.succ) (hnr1 : b.id ∉ a.pred) (hnr2 : a.id ∉ b.succ)
    (hja : a.left.getLast? = some j) (hjb : b.left.head? = some j)
    (hva : 2 ≤ a.left.length ∧ 2 ≤ a.center.length ∧ 2 ≤ a.right.length) :
    mergeLanelets b a = .ok ⟨concatId a.id b.id, a.pred, b.succ,
      a.left ++ b.left.tail, a.center ++ b.center.tail, a.right ++ b.right.tail⟩ := by
  unfold mergeLanelets
  have h1 : (b.id ∈ a.succ ∨ a.id ∈ b.succ ∨ b.id ∈ a.pred ∨ a.id ∈ b.pred) := Or.inl hlink
  have h2 : ¬ (b.id ∈ a.pred ∨ a.id ∈ b.succ) := by
    rintro (h | h)
    · exact hnr1 h
    · exact hnr2 h
  have h3 : pyGet? a.left (-1) = some j := by rw [pyGet_neg_one, hja]
  have h4 : pyGet? b.left 0 = some j := by
    have := pyGet_nat b.left 0
    simp only [Nat.cast_zero] at this
    rw [this, ← List.head?_eq_getElem?, hjb]
  simp only [h1, not_true_eq_false, if_false, h2, h3, h4, ptClose_self, if_true, List.drop_one]
  have hv : (validPolyline (a.left ++ b.left.tail) && validPolyline (a.center ++ b.center.tail)
      && validPolyline (a.right ++ b.right.tail)) = true := by
    simp only [validPolyline, List.length_append, Bool.and_eq_true, decide_eq_true_eq]
    omega
  simp only [hv, if_true]

/-- Unlinked lanelets are refused (the assertion at :789-798). -/
theorem C20_merge_guard (a b : Lanelet)
    (h : ¬ (a.id ∈ b.succ ∨ b.id ∈ a.succ ∨ a.id ∈ b.pred ∨ b.id ∈ a.pred)) :
    mergeLanelets a b = .error .assert := by
  unfold mergeLanelets
  simp only [h, not_false_eq_true, if_true]

/-- Length of the merged lanelet = sum of the parts, for EVERY length function on point pairs: the segment lengths of the
    concatenation (joint kept once) are those of the first part followed by those of the second, so the last cumulative
    distance of the merged centre line is the sum of the two last cumulative distances. -/
theorem C20_merge_length (len : Pt → Pt → Rat) (pa qb : List Pt) (j : Pt) :
    (cumDist (segLens len ((pa ++ [j]) ++ (j :: qb).tail))).getLast? =
      some (sumRat (segLens len (pa ++ [j])) + sumRat (segLens len (j :: qb)))
    ∧ (cumDist (segLens len (pa ++ [j]))).getLast? = some (sumRat (segLens len (pa ++ [j])))
    ∧ (cumDist (segLens len (j :: qb))).getLast? = some (sumRat (segLens len (j :: qb))) := by
  refine ⟨?_, cumDist_last _, cumDist_last _⟩
  rw [cumDist_last, List.tail_cons, segLens_join, sumRat_append]

/-- **Additivity for the merged LANELET** (the property's third sentence: "a successor that starts where it ends").
    `b` is a successor of `a`, `b`'s left boundary starts where `a`'s ends (this is what the code tests) and — made explicit —
    `b`'s centre line starts where `a`'s ends.  Then the merge succeeds, the merged centre line is the concatenation with
    the joint vertex kept once, and for EVERY length function on point pairs (in particular the Euclidean one) the merged
    lanelet's length `distance[-1]` is the sum of the two parts' lengths. -/
theorem C20_merge_lanelet_length (a b : Lanelet) (jl jc : Pt) (len : Pt → Pt → Rat)
    (hlink : b.id ∈ a.succ)
    (hja : a.left.getLast? = some jl) (hjb : b.left.head? = some jl)
    (hca : a.center.getLast? = some jc) (hcb : b.center.head? = some jc)
    (hva : 2 ≤ a.left.length ∧ 2 ≤ a.center.length ∧ 2 ≤ a.right.length) :
    ∃ m, mergeLanelets a b = .ok m
      ∧ m.left = a.left ++ b.left.tail ∧ m.center = a.center ++ b.center.tail ∧ m.right = a.right ++ b.right.tail
      ∧ (cumDist (segLens len a.center)).getLast? = some (sumRat (segLens len a.center))
      ∧ (cumDist (segLens len b.center)).getLast? = some (sumRat (segLens len b.center))
      ∧ (cumDist (segLens len m.center)).getLast? =
          some (sumRat (segLens len a.center) + sumRat (segLens len b.center)) := by
  refine ⟨_, C20_merge_spec a b jl hlink hja hjb hva, rfl, rfl, rfl, cumDist_last _, cumDist_last _, ?_⟩
  obtain ⟨pa, hpa⟩ := List.getLast?_eq_some_iff.mp hca
  obtain ⟨qb, hqb⟩ := List.head?_eq_some_iff.mp hcb
  simp only [hpa, hqb]
  exact (C20_merge_length len pa qb jc).1

/-! ### Non-vacuity: the hypotheses are satisfiable and the model computes the expected values. -/

/-- A Pythagorean centre line `(0,0) (3,4) (6,8) (6,10)` with segment lengths `5, 5, 2`. -/
example : cumDist [5, 5, 2] = [0, 5, 10, 12] := by decide +kernel
example : ([5, 5, 2] : List Rat) ≠ [] ∧ (∀ x ∈ ([5, 5, 2] : List Rat), 0 < x) := by
  refine ⟨by simp, ?_⟩
  intro x hx
  simp at hx
  rcases hx with rfl | rfl <;> decide +kernel
-- exactly at the middle vertex: segment 1 with parameter 1 (searchsorted 'left')
example : interpolate [(0,0),(3,4),(6,8),(6,10)] [(0,-1),(3,3),(6,7),(7,7)] [(0,1),(3,5),(3,6),(6,9)] [5,5,2] 10
    = .ok ⟨(6,8), (6,7), (3,6), 1⟩ := by decide +kernel
-- s = 0 : idx = -1 wraps around, the while loop moves to segment 0
example : interpolate [(0,0),(3,4),(6,8),(6,10)] [(0,-1),(3,3),(6,7),(7,7)] [(0,1),(3,5),(3,6),(6,9)] [5,5,2] 0
    = .ok ⟨(0,0), (0,-1), (0,1), 0⟩ := by decide +kernel
-- interior, full length, out of range, zero-length first segment
example : interpolate [(0,0),(3,4),(6,8),(6,10)] [(0,-1),(3,3),(6,7),(7,7)] [(0,1),(3,5),(3,6),(6,9)] [5,5,2] (5/2)
    = .ok ⟨(3/2,2), (3/2,1), (3/2,3), 0⟩ := by decide +kernel
example : interpolate [(0,0),(3,4),(6,8),(6,10)] [(0,-1),(3,3),(6,7),(7,7)] [(0,1),(3,5),(3,6),(6,9)] [5,5,2] 12
    = .ok ⟨(6,10), (7,7), (6,9), 2⟩ := by decide +kernel
example : interpolate [(0,0),(3,4),(6,8),(6,10)] [(0,-1),(3,3),(6,7),(7,7)] [(0,1),(3,5),(3,6),(6,9)] [5,5,2] 13
    = .error .assert := by decide +kernel
example : interpolate [(0,0),(0,0),(6,8)] [(0,-1),(3,3),(6,7)] [(0,1),(3,5),(3,6)] [0,10] 0 = .error .zeroDiv := by decide +kernel
-- merge: lanelet 1 -> lanelet 2, joint kept once
example : mergeLanelets ⟨1, [], [2], [(0,1),(2,1)], [(0,0),(2,0)], [(0,-1),(2,-1)]⟩
                        ⟨2, [1], [7], [(2,1),(5,1)], [(2,0),(5,0)], [(2,-1),(5,-1)]⟩
    = .ok ⟨12, [], [7], [(0,1),(2,1),(5,1)], [(0,0),(2,0),(5,0)], [(0,-1),(2,-1),(5,-1)]⟩ := by decide +kernel
-- merge where the predecessor's LEFT boundary pivots on one point (a vertex repeated inside the lanelet, distinct centre and
-- right vertices): `C20_merge_spec` has no distinctness hypothesis — only the joint vertex is dropped, the pivot stays twice
example : mergeLanelets ⟨1, [], [2], [(0,2),(2,2),(2,2),(2,4)], [(0,1),(2,1),(3,2),(3,4)], [(0,0),(2,0),(4,2),(4,4)]⟩
                        ⟨2, [1], [], [(2,4),(2,6)], [(3,4),(3,6)], [(4,4),(4,6)]⟩
    = .ok ⟨12, [], [], [(0,2),(2,2),(2,2),(2,4),(2,6)], [(0,1),(2,1),(3,2),(3,4),(3,6)], [(0,0),(2,0),(4,2),(4,4),(4,6)]⟩ := by
  decide +kernel

-- the merge loop of all_lanelets_by_merging_successors_from_lanelet on a chain 1 -> 2 -> 3: every joint kept once
-- (`mergeChain` is tied to the code by the correspondence on every merged route; the harness oracle judges concatenation
--  and additivity of the merged route lanelets)
example : mergeChain ⟨1, [], [2], [(0,1),(2,1)], [(0,0),(2,0)], [(0,-1),(2,-1)]⟩
            [⟨2, [1], [3], [(2,1),(5,1)], [(2,0),(5,0)], [(2,-1),(5,-1)]⟩, ⟨3, [2], [], [(5,1),(6,1)], [(5,0),(6,0)], [(5,-1),(6,-1)]⟩]
    = .ok ⟨123, [], [], [(0,1),(2,1),(5,1),(6,1)], [(0,0),(2,0),(5,0),(6,0)], [(0,-1),(2,-1),(5,-1),(6,-1)]⟩ := by decide +kernel

end CR.Arc

/-! ## (D) successor / predecessor routes -/
namespace CR.Route

/-- **Termination** on every finite network, cyclic ones included: if all link targets lie in the finite node list `V`,
    the `while paths:` loop ends within `|V|` rounds (fuel `≥ |V|` is never exhausted). No acyclicity, no hypothesis on
    lengths or on the range. -/
theorem C20_route_terminates (nbr : Nat → List Nat) (len : Nat → Rat) (start : Nat) (maxLen : Rat)
    (V : List Nat) (hV : ∀ v s, s ∈ nbr v → s ∈ V) (fuel : Nat) (hf : V.length ≤ fuel) :
    ∃ res, findInRange nbr len start maxLen fuel = some res := by
  unfold findInRange
  refine loop_terminates V hV fuel 1 _ _ ?_ (by omega)
  intro it hit
  simp only [initItems, List.mem_map] at hit
  obtain ⟨s, hs, rfl⟩ := hit
  exact ⟨by simp, by intro x hx; simp at hx; subst hx; exact hV start x hs, by simp⟩

/-- The result does not depend on the fuel once it suffices. -/
theorem C20_route_fuel_irrelevant (nbr : Nat → List Nat) (len : Nat → Rat) (start : Nat) (maxLen : Rat)
    (f1 f2 : Nat) (r1 r2 : List Path)
    (h1 : findInRange nbr len start maxLen f1 = some r1) (h2 : findInRange nbr len start maxLen f2 = some r2) :
    r1 = r2 := by
  unfold findInRange at h1 h2
  rcases Nat.le_total f1 f2 with h | h
  · obtain ⟨k, rfl⟩ := Nat.exists_eq_add_of_le h
    have := loop_mono_add f1 k _ _ _ h1
    rw [this] at h2; exact Option.some.inj h2
  · obtain ⟨k, rfl⟩ := Nat.exists_eq_add_of_le h
    have := loop_mono_add f2 k _ _ _ h2
    rw [this] at h1; exact (Option.some.inj h1).symm

/-- **Soundness**: when the start lanelet is not its own neighbour, every returned path is non-empty, starts at a direct
    neighbour (successor resp. predecessor) of the start, consists of consecutive links, visits no lanelet twice and does
    not contain the start lanelet. -/
theorem C20_route_sound (nbr : Nat → List Nat) (len : Nat → Rat) (start : Nat) (maxLen : Rat)
    (hself : start ∉ nbr start) (fuel : Nat) (res : List Path)
    (h : findInRange nbr len start maxLen fuel = some res) :
    ∀ q ∈ res, (∃ hd tl, q = hd :: tl ∧ hd ∈ nbr start) ∧ Linked nbr q ∧ q.Nodup ∧ start ∉ q := by
  intro q hq
  have := loop_sound fuel _ _ res (init_good (maxLen := maxLen) (len := len) hself) (by simp) h q hq
  exact ⟨this.head, this.linked, this.nodup, this.nostart⟩

/-- **Extension guard**: a path is extended only while its accumulated length is below the range: every proper non-empty
    prefix of a returned path has accumulated length `< maxLen`. -/
theorem C20_route_extend_guard (nbr : Nat → List Nat) (len : Nat → Rat) (start : Nat) (maxLen : Rat)
    (hself : start ∉ nbr start) (fuel : Nat) (res : List Path)
    (h : findInRange nbr len start maxLen fuel = some res) :
    ∀ q ∈ res, ∀ j, 0 < j → j < q.length → sumLen len (q.take j) < maxLen := by
  intro q hq
  exact (loop_sound fuel _ _ res (init_good (maxLen := maxLen) (len := len) hself) (by simp) h q hq).guard

/-- **Coverage**: every direct neighbour of the start heads some returned path. -/
theorem C20_route_covers (nbr : Nat → List Nat) (len : Nat → Rat) (start : Nat) (maxLen : Rat)
    (fuel : Nat) (res : List Path) (h : findInRange nbr len start maxLen fuel = some res) :
    ∀ s ∈ nbr start, ∃ q ∈ res, q.head? = some s := by
  intro s hs
  obtain ⟨_, hcov⟩ := loop_covers fuel _ _ res h
  obtain ⟨q, hq, hpre⟩ := hcov ([s], len s) (by simp only [initItems, List.mem_map]; exact ⟨s, hs, rfl⟩)
  refine ⟨q, hq, ?_⟩
  obtain ⟨t, rfl⟩ := hpre
  simp

/-- **Exact characterisation of the result set** (soundness + completeness in one): with no self-link at the start, a path
    is returned IF AND ONLY IF it is a sound chain (starts at a direct neighbour, consecutive links, duplicate-free, avoids
    the start, every proper prefix below the range) that `Stopped` for one of the code's reasons:
    it is the extension whose accumulated length reached the range, or it is an entry (single direct neighbour, or still
    below the range) whose last lanelet is a dead end or has SOME neighbour that is refused (already on the path / the start /
    accumulated length at or beyond the range).  Nothing else is returned, and nothing the rule generates is dropped. -/
theorem C20_route_characterisation (nbr : Nat → List Nat) (len : Nat → Rat) (start : Nat) (maxLen : Rat)
    (hself : start ∉ nbr start) (fuel : Nat) (res : List Path)
    (h : findInRange nbr len start maxLen fuel = some res) (q : Path) :
    q ∈ res ↔ Sound nbr len start maxLen q ∧ Stopped nbr len start maxLen q :=
  mem_result_iff hself fuel res h q

/-- **Maximality for the code's rule**: every returned path ends where the code stops extending it — at a dead end, or with
    accumulated length at or beyond the range, or at a lanelet one of whose neighbours is already on the path or is the
    start.  (Not: "no admissible extension exists" — see `C20_witness_route_not_maximal`.) -/
theorem C20_route_stopped (nbr : Nat → List Nat) (len : Nat → Rat) (start : Nat) (maxLen : Rat)
    (hself : start ∉ nbr start) (fuel : Nat) (res : List Path)
    (h : findInRange nbr len start maxLen fuel = some res) :
    ∀ q ∈ res, ∃ x, q.getLast? = some x ∧
      (nbr x = [] ∨ maxLen ≤ sumLen len q ∨ ∃ s ∈ nbr x, s ∈ q ∨ s = start) := by
  intro q hq
  obtain ⟨hs, hstop⟩ := (mem_result_iff hself fuel res h q).mp hq
  rcases hstop with ⟨h2, hge⟩ | ⟨_, x, hx, hwhy⟩
  · obtain ⟨hd, tl, rfl, _⟩ := hs.head
    cases hgl : (hd :: tl).getLast? with
    | none => simp at hgl
    | some x => exact ⟨x, rfl, Or.inr (Or.inl hge)⟩
  · refine ⟨x, hx, ?_⟩
    rcases hwhy with hnil | ⟨s, hsx, h1 | h2 | h3⟩
    · exact Or.inl hnil
    · exact Or.inr (Or.inr ⟨s, hsx, Or.inl h1⟩)
    · exact Or.inr (Or.inr ⟨s, hsx, Or.inr h2⟩)
    · exact Or.inr (Or.inl h3)

/-- **Completeness for maximal chains**: every sound chain that is an entry (a single direct neighbour, or accumulated length
    below the range) and has NO admissible extension — its last lanelet is a dead end, or every neighbour is on the path or
    the start — is returned. -/
theorem C20_route_returns_maximal (nbr : Nat → List Nat) (len : Nat → Rat) (start : Nat) (maxLen : Rat)
    (hself : start ∉ nbr start) (fuel : Nat) (res : List Path)
    (h : findInRange nbr len start maxLen fuel = some res) (q : Path) (x : Nat)
    (hs : Sound nbr len start maxLen q) (hentry : q.length = 1 ∨ sumLen len q < maxLen)
    (hx : q.getLast? = some x) (hmax : ∀ s ∈ nbr x, s ∈ q ∨ s = start) : q ∈ res := by
  refine (mem_result_iff hself fuel res h q).mpr ⟨hs, Or.inr ⟨hentry, x, hx, ?_⟩⟩
  cases hn : nbr x with
  | nil => exact Or.inl rfl
  | cons s ss =>
    have hs' : s ∈ nbr x := by rw [hn]; simp
    right
    refine ⟨s, by simp, ?_⟩
    rcases hmax s hs' with h1 | h2
    · exact Or.inl h1
    · exact Or.inr (Or.inl h2)

/-- **Completeness for every chain the rule generates**: every sound chain that is an entry (a single direct neighbour, or
    accumulated length below the range) is a prefix of a returned path — coverage of the direct neighbours
    (`C20_route_covers`) is the special case of length 1. -/
theorem C20_route_complete_prefix (nbr : Nat → List Nat) (len : Nat → Rat) (start : Nat) (maxLen : Rat)
    (hself : start ∉ nbr start) (fuel : Nat) (res : List Path)
    (h : findInRange nbr len start maxLen fuel = some res) (p : Path)
    (hs : Sound nbr len start maxLen p) (hentry : p.length = 1 ∨ sumLen len p < maxLen) :
    ∃ q ∈ res, p <+: q := by
  obtain ⟨hd, tl, hp, _⟩ := hs.head
  have hpl : p.length = (p.length - 1) + 1 := by subst hp; simp
  have hmem : (p, sumLen len p) ∈ genFrom nbr len start maxLen (initItems nbr len start) (p.length - 1) := by
    refine (mem_gen_iff hself _ _).mpr ⟨⟨hs, rfl⟩, hpl, ?_⟩
    rcases hentry with h1 | h1
    · left; omega
    · right; exact h1
  unfold findInRange at h
  exact loop_covers_gen fuel _ _ res h _ _ hmem

/-- Witness: the strong reading of maximality ("a returned path has no admissible extension") is FALSE for the code.
    Network 1 → 2, 2 → {1, 3}: from start 1 the code returns `[2]` (because successor 1 of lanelet 2 is the start,
    lanelet.py:940-943 `paths_final.append(p); continue`) AND its admissible extension `[2, 3]`.  The property sentence
    ("return only loop-free chains … that start at a direct successor, do not revisit the start lanelet, cover every direct
    successor, and are extended only while the accumulated length is below the range") does not ask for maximality, so this
    is outside the property; the harness replays it on the real code (corpus `net_witness_not_maximal.json`). -/
theorem C20_witness_route_not_maximal :
    ¬ (∀ res, findSuccessors [⟨1, [2], [], 1⟩, ⟨2, [1, 3], [1], 1⟩, ⟨3, [], [2], 1⟩] 1 10 = some res →
        ∀ q ∈ res, ∀ s, (q ++ [s]) ∉ res) := by
  intro h
  have hr : findSuccessors [⟨1, [2], [], 1⟩, ⟨2, [1, 3], [1], 1⟩, ⟨3, [], [2], 1⟩] 1 10 = some [[2], [2, 3]] := by
    decide +kernel
  exact h _ hr [2] (by simp) 3 (by simp)

/-- Witness: the result list may contain the same path more than once (`Nodup res` is FALSE in general): in the network
    1 → 2, 2 → {3, 4} with unit lengths and range 1 the entry `[2]` has reached the range, and the code appends it once per
    refused successor (:940-943), giving `[[2], [2]]`.  The property sentence speaks about which chains are returned, not
    how often; the multiplicities are part of the model and compared exactly by the correspondence (corpus `net_witness_duplicates.json`). -/
theorem C20_witness_route_duplicates :
    ¬ (∀ res, findSuccessors [⟨1, [2], [3], 1⟩, ⟨2, [3, 4], [1], 1⟩, ⟨3, [1], [2], 1⟩, ⟨4, [], [2], 1⟩] 1 1 = some res →
        res.Nodup) := by
  intro h
  have hr : findSuccessors [⟨1, [2], [3], 1⟩, ⟨2, [3, 4], [1], 1⟩, ⟨3, [1], [2], 1⟩, ⟨4, [], [2], 1⟩] 1 1
      = some [[2], [2]] := by decide +kernel
  have := h _ hr
  simp at this

/-- All four for a network given as data, successors: on every closed network without a self-successor at the start
    the loop with the failing lookups (`findSuccessorsR`, what the driver evaluates) returns normally, with the value of the
    total loop, the returned paths are sound, guarded and cover, and the result set is exactly the stopped sound chains. -/
theorem C20_successors (g : List Node) (start : Nat) (maxLen : Rat)
    (hc : closedNet g start = true) (hself : start ∉ succOf g start) :
    ∃ res, findSuccessorsR g start maxLen = .ok res ∧ findSuccessors g start maxLen = some res
      ∧ (∀ q ∈ res, (∃ hd tl, q = hd :: tl ∧ hd ∈ succOf g start) ∧ Linked (succOf g) q ∧ q.Nodup ∧ start ∉ q
          ∧ ∀ j, 0 < j → j < q.length → sumLen (lenOf g) (q.take j) < maxLen)
      ∧ (∀ s ∈ succOf g start, ∃ q ∈ res, q.head? = some s)
      ∧ ∀ q, q ∈ res ↔ Sound (succOf g) (lenOf g) start maxLen q ∧ Stopped (succOf g) (lenOf g) start maxLen q := by
  obtain ⟨res, hres⟩ := C20_route_terminates (succOf g) (lenOf g) start maxLen (ids g) (closed_succ hc) (fuelFor g)
    (by simp [ids, fuelFor])
  have hR : findSuccessorsR g start maxLen = .ok res := by
    have hcl : ∀ v s, s ∈ nbrFn g (·.succ) v → s ∈ ids g := by
      rw [← succOf_eq]; exact closed_succ hc
    unfold findSuccessorsR
    rw [findR_eq hcl (closed_start hc), ← succOf_eq]
    rw [hres]
  refine ⟨res, hR, hres, ?_, C20_route_covers _ _ _ _ _ res hres, C20_route_characterisation _ _ _ _ hself _ res hres⟩
  intro q hq
  obtain ⟨a, b, c, d⟩ := C20_route_sound _ _ _ _ hself _ res hres q hq
  exact ⟨a, b, c, d, C20_route_extend_guard _ _ _ _ hself _ res hres q hq⟩

/-- … and predecessors (the same function over the predecessor lists). -/
theorem C20_predecessors (g : List Node) (start : Nat) (maxLen : Rat)
    (hc : closedNet g start = true) (hself : start ∉ predOf g start) :
    ∃ res, findPredecessorsR g start maxLen = .ok res ∧ findPredecessors g start maxLen = some res
      ∧ (∀ q ∈ res, (∃ hd tl, q = hd :: tl ∧ hd ∈ predOf g start) ∧ Linked (predOf g) q ∧ q.Nodup ∧ start ∉ q
          ∧ ∀ j, 0 < j → j < q.length → sumLen (lenOf g) (q.take j) < maxLen)
      ∧ (∀ s ∈ predOf g start, ∃ q ∈ res, q.head? = some s)
      ∧ ∀ q, q ∈ res ↔ Sound (predOf g) (lenOf g) start maxLen q ∧ Stopped (predOf g) (lenOf g) start maxLen q := by
  obtain ⟨res, hres⟩ := C20_route_terminates (predOf g) (lenOf g) start maxLen (ids g) (closed_pred hc) (fuelFor g)
    (by simp [ids, fuelFor])
  have hR : findPredecessorsR g start maxLen = .ok res := by
    have hcl : ∀ v s, s ∈ nbrFn g (·.pred) v → s ∈ ids g := by
      rw [← predOf_eq]; exact closed_pred hc
    unfold findPredecessorsR
    rw [findR_eq hcl (closed_start hc), ← predOf_eq]
    rw [hres]
  refine ⟨res, hR, hres, ?_, C20_route_covers _ _ _ _ _ res hres, C20_route_characterisation _ _ _ _ hself _ res hres⟩
  intro q hq
  obtain ⟨a, b, c, d⟩ := C20_route_sound _ _ _ _ hself _ res hres q hq
  exact ⟨a, b, c, d, C20_route_extend_guard _ _ _ _ hself _ res hres q hq⟩

/-! ### Non-vacuity: a cyclic network 1 → 2 → 3 → 1 with a branch 2 → 4 (unit lengths). -/

def exNet : List Node := [⟨1, [2], [3], 1⟩, ⟨2, [3, 4], [1], 1⟩, ⟨3, [1], [2], 1⟩, ⟨4, [], [2], 1⟩]
example : closedNet exNet 1 = true ∧ 1 ∉ succOf exNet 1 ∧ 1 ∉ predOf exNet 1 := by decide +kernel
-- a huge range on a cyclic graph: the loop guard ends the search
example : findSuccessors exNet 1 1000 = some [[2, 3], [2, 4]] := by decide +kernel
example : findPredecessors exNet 1 1000 = some [[3, 2]] := by decide +kernel
-- the range is reached exactly after [2] (accumulated length 1 = range): [2] is not extended
example : findSuccessors exNet 1 1 = some [[2], [2]] := by decide +kernel
example : findSuccessors exNet 1 2 = some [[2, 3], [2, 4]] := by decide +kernel
example : findSuccessorsR exNet 1 1000 = .ok [[2, 3], [2, 4]] := by decide +kernel
-- a successor id that names no lanelet: `find_lanelet_by_id` gives None, the attribute access raises
example : findSuccessorsR [⟨1, [2], [], 1⟩, ⟨2, [9], [1], 1⟩] 1 1000 = .error .attr := by decide +kernel
-- … but not when the range already stops the search before the dangling id is looked up
example : findSuccessorsR [⟨1, [2], [], 1⟩, ⟨2, [9], [1], 1⟩] 1 1 = .ok [[2]] := by decide +kernel

end CR.Route
