import CRModel.ArcLen
import CRModel.Route
namespace CR
theorem C20_stub : True := trivial
end CR
