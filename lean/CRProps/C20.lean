/-
  C20 — Lanelet arc-length geometry and successor-route enumeration are sound.
  Property theorems only (helper lemmas: CRProofs/ArcLen.lean, CRProofs/Route.lean).
  Models: CRModel/ArcLen.lean (lanelet.py:293-314, 357-366, 658-679, 779-836),
          CRModel/Route.lean  (lanelet.py:919-991).
-/
import CRProofs.ArcLen
import CRProofs.Route

/-! ## (A) cumulative centre-line distance -/
namespace CR.Arc

/-- The cumulative distance has one entry per vertex. -/
theorem C20_cum_length (ℓ : List Rat) : (cumDist ℓ).length = ℓ.length + 1 := cumDist_length ℓ

/-- It starts at 0. -/
theorem C20_cum_head (ℓ : List Rat) : (cumDist ℓ).head? = some 0 := by
  simp [cumDist_eq]

/-- It is non-decreasing (every earlier entry ≤ every later entry) for non-negative segment lengths. -/
theorem C20_cum_mono (ℓ : List Rat) (h : ∀ x ∈ ℓ, 0 ≤ x) : List.Pairwise (· ≤ ·) (cumDist ℓ) := by
  rw [cumDist_eq]; exact cumsumFrom_sorted h 0

/-- It ends at the centre line's length (the sum of the segment lengths); entry `j` is the arc length up to vertex `j`. -/
theorem C20_cum_last (ℓ : List Rat) : (cumDist ℓ).getLast? = some (sumRat ℓ) := cumDist_last ℓ

theorem C20_cum_get (ℓ : List Rat) (j : Nat) (hj : j ≤ ℓ.length) : (cumDist ℓ)[j]? = some (prefixLen ℓ j) :=
  cumDist_get ℓ j hj

/-! ## (B) interpolate_position -/

/-- The blended point lies on the segment `a b` at parameter `t`: `blend t a b = a + t·(b − a)`; hence, when `ℓᵢ` is the
    Euclidean length of the segment, its distance from `a` along the segment is `t·ℓᵢ`. -/
theorem C20_blend_on_segment (t : Rat) (a b : Pt) :
    (blend t a b).1 = a.1 + t * (b.1 - a.1) ∧ (blend t a b).2 = a.2 + t * (b.2 - a.2) := by
  constructor <;> simp only [blend] <;> ring

theorem C20_blend_dist_sq (t : Rat) (a b : Pt) :
    ((blend t a b).1 - a.1) ^ 2 + ((blend t a b).2 - a.2) ^ 2 = t ^ 2 * ((b.1 - a.1) ^ 2 + (b.2 - a.2) ^ 2) := by
  simp only [blend]; ring

/-- Main statement: for every lanelet whose centre segments have positive length (distinct consecutive vertices) and every
    `0 ≤ s ≤ length` — interior, exactly at a vertex, `0` and the full length alike — `interpolate_position(s)` does not fail
    and returns a segment id `i` and the three points blended with ONE parameter `t ∈ [0,1]` on segment `i` of the centre,
    right and left polylines, where `arc length up to vertex i + t·ℓᵢ = s`, i.e. the centre point is the point at arc length `s`. -/
theorem C20_interp_spec (c r l : List Pt) (ℓ : List Rat) (s : Rat)
    (hne : ℓ ≠ []) (hpos : ∀ x ∈ ℓ, 0 < x)
    (hc : c.length = ℓ.length + 1) (hr : r.length = ℓ.length + 1) (hl : l.length = ℓ.length + 1)
    (hs0 : 0 ≤ s) (hs1 : s ≤ sumRat ℓ) :
    ∃ (i : Nat) (t : Rat) (hi : i < ℓ.length),
      interpolate c r l ℓ s = .ok ⟨blend t (c[i]'(by omega)) (c[i + 1]'(by omega)),
                                    blend t (r[i]'(by omega)) (r[i + 1]'(by omega)),
                                    blend t (l[i]'(by omega)) (l[i + 1]'(by omega)), (i : Int)⟩
      ∧ 0 ≤ t ∧ t ≤ 1 ∧ prefixLen ℓ i + t * ℓ[i] = s
      ∧ prefixLen ℓ i ≤ s ∧ s ≤ prefixLen ℓ (i + 1) := by
  have hL : 0 < sumRat ℓ := sumRat_pos hne hpos
  have hn : 0 < ℓ.length := List.length_pos_iff.mpr hne
  -- the index the `searchsorted` + `while` prologue arrives at
  have key : ∃ k, k < ℓ.length ∧
      advance (cumDist ℓ) s ((cumDist ℓ).length + 2) ((searchsortedLeft s (cumDist ℓ) : Int) - 1) = .ok (k : Int)
      ∧ prefixLen ℓ k ≤ s ∧ s ≤ prefixLen ℓ (k + 1) := by
    rcases eq_or_lt_of_le hs0 with h0 | hpos_s
    · -- s = 0 : searchsorted gives 0, idx = -1 wraps to the last entry, the loop moves on to 0
      subst h0
      refine ⟨0, hn, ?_, by simp [prefixLen_zero], ?_⟩
      · have hss : searchsortedLeft 0 (cumDist ℓ) = 0 := by simp [cumDist_eq, searchsortedLeft]
        rw [hss, cumDist_length]
        have h1 : pyGet? (cumDist ℓ) (-1) = some (sumRat ℓ) := by rw [pyGet_neg_one, cumDist_last]
        have h2 : pyGet? (cumDist ℓ) (0 : Int) = some 0 := by
          have := pyGet_nat (cumDist ℓ) 0
          simp only [Nat.cast_zero] at this
          rw [this, cumDist_get ℓ 0 (by omega), prefixLen_zero]
        simp only [Nat.cast_zero, Int.zero_sub, advance, h1, not_le.mpr hL, if_false]
        simp only [show (-1 : Int) + 1 = 0 by omega, h2, le_refl, if_true]
      · rw [prefixLen_succ ℓ 0 hn, prefixLen_zero]
        have := hpos ℓ[0] (by simp)
        linarith
    · obtain ⟨k, hk, hss, ha, hb⟩ := ss_spec ℓ 0 s hpos hpos_s (by linarith)
      refine ⟨k, hk, ?_, ?_, ?_⟩
      · have hss' : searchsortedLeft s (cumDist ℓ) = k + 1 := by
          rw [cumDist_eq]; simp only [searchsortedLeft, hpos_s, if_true, hss]; omega
        rw [hss', cumDist_length]
        have hk' : ((k + 1 : Nat) : Int) - 1 = (k : Int) := by push_cast; ring
        rw [hk']
        have h1 : pyGet? (cumDist ℓ) (k : Int) = some (prefixLen ℓ k) := by
          rw [pyGet_nat, cumDist_get ℓ k (by omega)]
        have hle : prefixLen ℓ k ≤ s := by unfold prefixLen; linarith
        simp only [advance, h1, hle, if_true]
      · unfold prefixLen; linarith
      · unfold prefixLen; linarith
  obtain ⟨k, hk, hadv, hlo, hhi⟩ := key
  have hstep := prefixLen_succ ℓ k hk
  have hlk : 0 < ℓ[k] := hpos ℓ[k] (by simp)
  refine ⟨k, (s - prefixLen ℓ k) / ℓ[k], hk, ?_, ?_, ?_, ?_, hlo, hhi⟩
  · unfold interpolate
    have hlast : pyGet? (cumDist ℓ) (-1) = some (sumRat ℓ) := by rw [pyGet_neg_one, cumDist_last]
    have hd0 : pyGet? (cumDist ℓ) (k : Int) = some (prefixLen ℓ k) := by
      rw [pyGet_nat, cumDist_get ℓ k (by omega)]
    have hd1 : pyGet? (cumDist ℓ) ((k : Int) + 1) = some (prefixLen ℓ (k + 1)) := by
      rw [pyGet_nat_succ, cumDist_get ℓ (k + 1) (by omega)]
    have hden : prefixLen ℓ (k + 1) - prefixLen ℓ k = ℓ[k] := by rw [hstep]; ring
    have hne0 : ¬ ℓ[k] = 0 := ne_of_gt hlk
    simp only [hlast, hs1, hs0, and_self, not_true_eq_false, if_false, hadv, hd0, hd1, hden, hne0]
    simp only [pyGet_nat, pyGet_nat_succ]
    rw [List.getElem?_eq_getElem (show k < c.length by omega), List.getElem?_eq_getElem (show k + 1 < c.length by omega),
        List.getElem?_eq_getElem (show k < r.length by omega), List.getElem?_eq_getElem (show k + 1 < r.length by omega),
        List.getElem?_eq_getElem (show k < l.length by omega), List.getElem?_eq_getElem (show k + 1 < l.length by omega)]
  · exact div_nonneg (by linarith) (le_of_lt hlk)
  · rw [div_le_iff₀ hlk]; linarith
  · field_simp; ring

/-- The admissibility assertion: outside `0 ≤ s ≤ length` the call fails with the `AssertionError`. -/
theorem C20_interp_guard (c r l : List Pt) (ℓ : List Rat) (s : Rat) (h : s < 0 ∨ sumRat ℓ < s) :
    interpolate c r l ℓ s = .error .assert := by
  unfold interpolate
  have hlast : pyGet? (cumDist ℓ) (-1) = some (sumRat ℓ) := by rw [pyGet_neg_one, cumDist_last]
  have : ¬ (s ≤ sumRat ℓ ∧ 0 ≤ s) := by
    rintro ⟨h1, h2⟩
    rcases h with h | h <;> linarith
  simp only [hlast, this, not_false_eq_true, if_true]

/-! ## (C) merge_lanelets -/

/-- Merging lanelet `a` with its successor `b` (linked through `a.successor`), where `b`'s left boundary starts where `a`'s
    ends: the call succeeds and every boundary of the result is the concatenation of both with the joint vertex kept once;
    predecessors come from `a`, successors from `b`. -/
theorem C20_merge_spec (a b : Lanelet) (j : Pt)
    (hlink : b.id ∈ a.succ)
    (hja : a.left.getLast? = some j) (hjb : b.left.head? = some j)
    (hva : 2 ≤ a.left.length ∧ 2 ≤ a.center.length ∧ 2 ≤ a.right.length) :
    mergeLanelets a b = .ok ⟨concatId a.id b.id, a.pred, b.succ,
      a.left ++ b.left.tail, a.center ++ b.center.tail, a.right ++ b.right.tail⟩ := by
  unfold mergeLanelets
  have h1 : (a.id ∈ b.succ ∨ b.id ∈ a.succ ∨ a.id ∈ b.pred ∨ b.id ∈ a.pred) := Or.inr (Or.inl hlink)
  have h2 : (a.id ∈ b.pred ∨ b.id ∈ a.succ) := Or.inr hlink
  have h3 : pyGet? a.left (-1) = some j := by rw [pyGet_neg_one, hja]
  have h4 : pyGet? b.left 0 = some j := by
    have := pyGet_nat b.left 0
    simp only [Nat.cast_zero] at this
    rw [this, ← List.head?_eq_getElem?, hjb]
  simp only [h1, not_true_eq_false, if_false, h2, if_true, h3, h4, ptClose_self, List.drop_one]
  have hv : (validPolyline (a.left ++ b.left.tail) && validPolyline (a.center ++ b.center.tail)
      && validPolyline (a.right ++ b.right.tail)) = true := by
    simp only [validPolyline, List.length_append, Bool.and_eq_true, decide_eq_true_eq]
    omega
  simp only [hv, if_true]

/-- The same with the arguments swapped (`merge_lanelets(b, a)`), when the links are not also present in the reverse
    direction. -/
theorem C20_merge_spec_swapped (a b : Lanelet) (j : Pt)
    (hlink : b.id ∈ a.succ) (hnr1 : b.id ∉ a.pred) (hnr2 : a.id ∉ b.succ)
    (hja : a.left.getLast? = some j) (hjb : b.left.head? = some j)
    (hva : 2 ≤ a.left.length ∧ 2 ≤ a.center.length ∧ 2 ≤ a.right.length) :
    mergeLanelets b a = .ok ⟨concatId a.id b.id, a.pred, b.succ,
      a.left ++ b.left.tail, a.center ++ b.center.tail, a.right ++ b.right.tail⟩ := by
  unfold mergeLanelets
  have h1 : (b.id ∈ a.succ ∨ a.id ∈ b.succ ∨ b.id ∈ a.pred ∨ a.id ∈ b.pred) := Or.inl hlink
  have h2 : ¬ (b.id ∈ a.pred ∨ a.id ∈ b.succ) := by
    rintro (h | h)
    · exact hnr1 h
    · exact hnr2 h
  have h3 : pyGet? a.left (-1) = some j := by rw [pyGet_neg_one, hja]
  have h4 : pyGet? b.left 0 = some j := by
    have := pyGet_nat b.left 0
    simp only [Nat.cast_zero] at this
    rw [this, ← List.head?_eq_getElem?, hjb]
  simp only [h1, not_true_eq_false, if_false, h2, h3, h4, ptClose_self, if_true, List.drop_one]
  have hv : (validPolyline (a.left ++ b.left.tail) && validPolyline (a.center ++ b.center.tail)
      && validPolyline (a.right ++ b.right.tail)) = true := by
    simp only [validPolyline, List.length_append, Bool.and_eq_true, decide_eq_true_eq]
    omega
  simp only [hv, if_true]

/-- Unlinked lanelets are refused (the assertion at :789-798). -/
theorem C20_merge_guard (a b : Lanelet)
    (h : ¬ (a.id ∈ b.succ ∨ b.id ∈ a.succ ∨ a.id ∈ b.pred ∨ b.id ∈ a.pred)) :
    mergeLanelets a b = .error .assert := by
  unfold mergeLanelets
  simp only [h, not_false_eq_true, if_true]

/-- Length of the merged lanelet = sum of the parts, for EVERY length function on point pairs: the segment lengths of the
    concatenation (joint kept once) are those of the first part followed by those of the second, so the last cumulative
    distance of the merged centre line is the sum of the two last cumulative distances. -/
theorem C20_merge_length (len : Pt → Pt → Rat) (pa qb : List Pt) (j : Pt) :
    (cumDist (segLens len ((pa ++ [j]) ++ (j :: qb).tail))).getLast? =
      some (sumRat (segLens len (pa ++ [j])) + sumRat (segLens len (j :: qb)))
    ∧ (cumDist (segLens len (pa ++ [j]))).getLast? = some (sumRat (segLens len (pa ++ [j])))
    ∧ (cumDist (segLens len (j :: qb))).getLast? = some (sumRat (segLens len (j :: qb))) := by
  refine ⟨?_, cumDist_last _, cumDist_last _⟩
  rw [cumDist_last, List.tail_cons, segLens_join, sumRat_append]

/-! ### Non-vacuity: the hypotheses are satisfiable and the model computes the expected values. -/

/-- A Pythagorean centre line `(0,0) (3,4) (6,8) (6,10)` with segment lengths `5, 5, 2`. -/
example : cumDist [5, 5, 2] = [0, 5, 10, 12] := by decide +kernel
example : ([5, 5, 2] : List Rat) ≠ [] ∧ (∀ x ∈ ([5, 5, 2] : List Rat), 0 < x) := by
  refine ⟨by simp, ?_⟩
  intro x hx
  simp at hx
  rcases hx with rfl | rfl <;> decide +kernel
-- exactly at the middle vertex: segment 1 with parameter 1 (searchsorted 'left')
example : interpolate [(0,0),(3,4),(6,8),(6,10)] [(0,-1),(3,3),(6,7),(7,7)] [(0,1),(3,5),(3,6),(6,9)] [5,5,2] 10
    = .ok ⟨(6,8), (6,7), (3,6), 1⟩ := by decide +kernel
-- s = 0 : idx = -1 wraps around, the while loop moves to segment 0
example : interpolate [(0,0),(3,4),(6,8),(6,10)] [(0,-1),(3,3),(6,7),(7,7)] [(0,1),(3,5),(3,6),(6,9)] [5,5,2] 0
    = .ok ⟨(0,0), (0,-1), (0,1), 0⟩ := by decide +kernel
-- interior, full length, out of range, zero-length first segment
example : interpolate [(0,0),(3,4),(6,8),(6,10)] [(0,-1),(3,3),(6,7),(7,7)] [(0,1),(3,5),(3,6),(6,9)] [5,5,2] (5/2)
    = .ok ⟨(3/2,2), (3/2,1), (3/2,3), 0⟩ := by decide +kernel
example : interpolate [(0,0),(3,4),(6,8),(6,10)] [(0,-1),(3,3),(6,7),(7,7)] [(0,1),(3,5),(3,6),(6,9)] [5,5,2] 12
    = .ok ⟨(6,10), (7,7), (6,9), 2⟩ := by decide +kernel
example : interpolate [(0,0),(3,4),(6,8),(6,10)] [(0,-1),(3,3),(6,7),(7,7)] [(0,1),(3,5),(3,6),(6,9)] [5,5,2] 13
    = .error .assert := by decide +kernel
example : interpolate [(0,0),(0,0),(6,8)] [(0,-1),(3,3),(6,7)] [(0,1),(3,5),(3,6)] [0,10] 0 = .error .zeroDiv := by decide +kernel
-- merge: lanelet 1 -> lanelet 2, joint kept once
example : mergeLanelets ⟨1, [], [2], [(0,1),(2,1)], [(0,0),(2,0)], [(0,-1),(2,-1)]⟩
                        ⟨2, [1], [7], [(2,1),(5,1)], [(2,0),(5,0)], [(2,-1),(5,-1)]⟩
    = .ok ⟨12, [], [7], [(0,1),(2,1),(5,1)], [(0,0),(2,0),(5,0)], [(0,-1),(2,-1),(5,-1)]⟩ := by decide +kernel

end CR.Arc

/-! ## (D) successor / predecessor routes -/
namespace CR.Route

/-- **Termination** on every finite network, cyclic ones included: if all link targets lie in the finite node list `V`,
    the `while paths:` loop ends within `|V|` rounds (fuel `≥ |V|` is never exhausted). No acyclicity, no hypothesis on
    lengths or on the range. -/
theorem C20_route_terminates (nbr : Nat → List Nat) (len : Nat → Rat) (start : Nat) (maxLen : Rat)
    (V : List Nat) (hV : ∀ v s, s ∈ nbr v → s ∈ V) (fuel : Nat) (hf : V.length ≤ fuel) :
    ∃ res, findInRange nbr len start maxLen fuel = some res := by
  unfold findInRange
  refine loop_terminates V hV fuel 1 _ _ ?_ (by omega)
  intro it hit
  simp only [initItems, List.mem_map] at hit
  obtain ⟨s, hs, rfl⟩ := hit
  exact ⟨by simp, by intro x hx; simp at hx; subst hx; exact hV start x hs, by simp⟩

/-- The result does not depend on the fuel once it suffices. -/
theorem C20_route_fuel_irrelevant (nbr : Nat → List Nat) (len : Nat → Rat) (start : Nat) (maxLen : Rat)
    (f1 f2 : Nat) (r1 r2 : List Path)
    (h1 : findInRange nbr len start maxLen f1 = some r1) (h2 : findInRange nbr len start maxLen f2 = some r2) :
    r1 = r2 := by
  unfold findInRange at h1 h2
  rcases Nat.le_total f1 f2 with h | h
  · obtain ⟨k, rfl⟩ := Nat.exists_eq_add_of_le h
    have := loop_mono_add f1 k _ _ _ h1
    rw [this] at h2; exact Option.some.inj h2
  · obtain ⟨k, rfl⟩ := Nat.exists_eq_add_of_le h
    have := loop_mono_add f2 k _ _ _ h2
    rw [this] at h1; exact (Option.some.inj h1).symm

/-- **Soundness**: when the start lanelet is not its own neighbour, every returned path is non-empty, starts at a direct
    neighbour (successor resp. predecessor) of the start, consists of consecutive links, visits no lanelet twice and does
    not contain the start lanelet. -/
theorem C20_route_sound (nbr : Nat → List Nat) (len : Nat → Rat) (start : Nat) (maxLen : Rat)
    (hself : start ∉ nbr start) (fuel : Nat) (res : List Path)
    (h : findInRange nbr len start maxLen fuel = some res) :
    ∀ q ∈ res, (∃ hd tl, q = hd :: tl ∧ hd ∈ nbr start) ∧ Linked nbr q ∧ q.Nodup ∧ start ∉ q := by
  intro q hq
  have := loop_sound fuel _ _ res (init_good (maxLen := maxLen) (len := len) hself) (by simp) h q hq
  exact ⟨this.head, this.linked, this.nodup, this.nostart⟩

/-- **Extension guard**: a path is extended only while its accumulated length is below the range: every proper non-empty
    prefix of a returned path has accumulated length `< maxLen`. -/
theorem C20_route_extend_guard (nbr : Nat → List Nat) (len : Nat → Rat) (start : Nat) (maxLen : Rat)
    (hself : start ∉ nbr start) (fuel : Nat) (res : List Path)
    (h : findInRange nbr len start maxLen fuel = some res) :
    ∀ q ∈ res, ∀ j, 0 < j → j < q.length → sumLen len (q.take j) < maxLen := by
  intro q hq
  exact (loop_sound fuel _ _ res (init_good (maxLen := maxLen) (len := len) hself) (by simp) h q hq).guard

/-- **Coverage**: every direct neighbour of the start heads some returned path. -/
theorem C20_route_covers (nbr : Nat → List Nat) (len : Nat → Rat) (start : Nat) (maxLen : Rat)
    (fuel : Nat) (res : List Path) (h : findInRange nbr len start maxLen fuel = some res) :
    ∀ s ∈ nbr start, ∃ q ∈ res, q.head? = some s := by
  intro s hs
  obtain ⟨_, hcov⟩ := loop_covers fuel _ _ res h
  obtain ⟨q, hq, hpre⟩ := hcov ([s], len s) (by simp only [initItems, List.mem_map]; exact ⟨s, hs, rfl⟩)
  refine ⟨q, hq, ?_⟩
  obtain ⟨t, rfl⟩ := hpre
  simp

/-- All four for a network given as data, successors: on every closed network without a self-successor at the start
    the loop with the failing lookups (`findSuccessorsR`, what the driver evaluates) returns normally, with the value of the
    total loop, and the returned paths are sound, guarded and cover. -/
theorem C20_successors (g : List Node) (start : Nat) (maxLen : Rat)
    (hc : closedNet g start = true) (hself : start ∉ succOf g start) :
    ∃ res, findSuccessorsR g start maxLen = .ok res ∧ findSuccessors g start maxLen = some res
      ∧ (∀ q ∈ res, (∃ hd tl, q = hd :: tl ∧ hd ∈ succOf g start) ∧ Linked (succOf g) q ∧ q.Nodup ∧ start ∉ q
          ∧ ∀ j, 0 < j → j < q.length → sumLen (lenOf g) (q.take j) < maxLen)
      ∧ ∀ s ∈ succOf g start, ∃ q ∈ res, q.head? = some s := by
  obtain ⟨res, hres⟩ := C20_route_terminates (succOf g) (lenOf g) start maxLen (ids g) (closed_succ hc) (fuelFor g)
    (by simp [ids, fuelFor])
  have hR : findSuccessorsR g start maxLen = .ok res := by
    have hcl : ∀ v s, s ∈ nbrFn g (·.succ) v → s ∈ ids g := by
      rw [← succOf_eq]; exact closed_succ hc
    unfold findSuccessorsR
    rw [findR_eq hcl (closed_start hc), ← succOf_eq]
    rw [hres]
  refine ⟨res, hR, hres, ?_, C20_route_covers _ _ _ _ _ res hres⟩
  intro q hq
  obtain ⟨a, b, c, d⟩ := C20_route_sound _ _ _ _ hself _ res hres q hq
  exact ⟨a, b, c, d, C20_route_extend_guard _ _ _ _ hself _ res hres q hq⟩

/-- … and predecessors (the same function over the predecessor lists). -/
theorem C20_predecessors (g : List Node) (start : Nat) (maxLen : Rat)
    (hc : closedNet g start = true) (hself : start ∉ predOf g start) :
    ∃ res, findPredecessorsR g start maxLen = .ok res ∧ findPredecessors g start maxLen = some res
      ∧ (∀ q ∈ res, (∃ hd tl, q = hd :: tl ∧ hd ∈ predOf g start) ∧ Linked (predOf g) q ∧ q.Nodup ∧ start ∉ q
          ∧ ∀ j, 0 < j → j < q.length → sumLen (lenOf g) (q.take j) < maxLen)
      ∧ ∀ s ∈ predOf g start, ∃ q ∈ res, q.head? = some s := by
  obtain ⟨res, hres⟩ := C20_route_terminates (predOf g) (lenOf g) start maxLen (ids g) (closed_pred hc) (fuelFor g)
    (by simp [ids, fuelFor])
  have hR : findPredecessorsR g start maxLen = .ok res := by
    have hcl : ∀ v s, s ∈ nbrFn g (·.pred) v → s ∈ ids g := by
      rw [← predOf_eq]; exact closed_pred hc
    unfold findPredecessorsR
    rw [findR_eq hcl (closed_start hc), ← predOf_eq]
    rw [hres]
  refine ⟨res, hR, hres, ?_, C20_route_covers _ _ _ _ _ res hres⟩
  intro q hq
  obtain ⟨a, b, c, d⟩ := C20_route_sound _ _ _ _ hself _ res hres q hq
  exact ⟨a, b, c, d, C20_route_extend_guard _ _ _ _ hself _ res hres q hq⟩

/-! ### Non-vacuity: a cyclic network 1 → 2 → 3 → 1 with a branch 2 → 4 (unit lengths). -/

def exNet : List Node := [⟨1, [2], [3], 1⟩, ⟨2, [3, 4], [1], 1⟩, ⟨3, [1], [2], 1⟩, ⟨4, [], [2], 1⟩]
example : closedNet exNet 1 = true ∧ 1 ∉ succOf exNet 1 ∧ 1 ∉ predOf exNet 1 := by decide +kernel
-- a huge range on a cyclic graph: the loop guard ends the search
example : findSuccessors exNet 1 1000 = some [[2, 3], [2, 4]] := by decide +kernel
example : findPredecessors exNet 1 1000 = some [[3, 2]] := by decide +kernel
-- the range is reached exactly after [2] (accumulated length 1 = range): [2] is not extended
example : findSuccessors exNet 1 1 = some [[2], [2]] := by decide +kernel
example : findSuccessors exNet 1 2 = some [[2, 3], [2, 4]] := by decide +kernel
example : findSuccessorsR exNet 1 1000 = .ok [[2, 3], [2, 4]] := by decide +kernel
-- a successor id that names no lanelet: `find_lanelet_by_id` gives None, the attribute access raises
example : findSuccessorsR [⟨1, [2], [], 1⟩, ⟨2, [9], [1], 1⟩] 1 1000 = .error .attr := by decide +kernel
-- … but not when the range already stops the search before the dangling id is looked up
example : findSuccessorsR [⟨1, [2], [], 1⟩, ⟨2, [9], [1], 1⟩] 1 1 = .ok [[2]] := by decide +kernel

end CR.Route
